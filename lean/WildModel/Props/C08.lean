import WildModel.Lemmas.Hash
import WildModel.Lemmas.HashSysv
/-!
# C08 - Dynamic symbol hash tables find every exported symbol

Model: `WildModel/Model/Hash.lean` (wild's `.gnu.hash` / `.hash` builders, glibc's `do_lookup_x` walks).
Structure of the proof (helpers in `WildModel/Lemmas/Hash.lean`, `WildModel/Lemmas/HashSysv.lean`):

* (a) abstract well-formedness `GnuWF t syms` / `SysvWF t base syms` of a table for the list of defined names;
* (b) `gnu_lookup_complete_of_wf`, `gnu_lookup_sound` (any table), `sysv_lookup_complete_of_wf`,
  `sysv_lookup_sound` (any table), `gnu_chain_terminates` (any table), `sysv_terminates_of_wf`;
* (c) `gnu_builder_wf`, `sysv_builder_wf`: the tables built by the model of wild's code are well-formed, for ALL
  lists of names (no distinctness, no size bound), hence `gnu_complete`, `sysv_complete`, ... below.

`names` may contain duplicates (versioned definitions `foo@V1`, `foo@@V2` have the same dynsym name): the
lookup then returns SOME entry carrying the name; for duplicate-free lists `*_complete_distinct` pins the index.
The hash functions are fixed (`dlNewHash`, `elfHash`) but the proofs use nothing about them except that the
builder and the lookup apply the same function to the same name; `elfHash_eq_gabiHash` shows that the function
wild uses for `.hash` (`object::elf::hash`) is the gABI function loaders use.

Hypothesis `1 ≤ base`: the first defined dynamic symbol has index >= 1 (index 0 is the null symbol; wild's
`dynsym_start_index`); the tie checks `symoffset >= 1` on every output. Index words are `Nat` (see the model).
-/
namespace Wild.Hash

/-! ## GNU hash -/


theorem pairwise_hashes (nb : Nat) (l : List (List UInt8))
    (h : List.Pairwise (fun a b => bk nb a ≤ bk nb b) l) :
    List.Pairwise (fun a b => bucketOf nb a ≤ bucketOf nb b) (l.map dlNewHash) := by
  rw [List.pairwise_map]
  exact h

/-- (c) The table wild builds is well-formed for the dynsym order wild produces. -/
theorem gnu_builder_wf (base : Nat) (names : List (List UInt8)) (hb : 1 ≤ base) :
    GnuWF (buildGnu base names) (gnuOrder names) := by
  have hnb : 0 < nextPowerOfTwo (names.length / 2) := nextPowerOfTwo_pos _
  generalize hnbdef : nextPowerOfTwo (names.length / 2) = nb at hnb
  have hsorted : List.Pairwise (fun a b => bk nb a ≤ bk nb b) (gnuOrder names) := by
    rw [← hnbdef]; exact sorted_by_bucket_of_sort _ _
  generalize hsdef : gnuOrder names = sorted at hsorted
  have hp := pairwise_hashes nb sorted hsorted
  have hpi := List.pairwise_iff_getElem.mp hp
  have htab : buildGnu base names = writeGnu ⟨names.length, nb, 6, 1, base⟩ sorted := by
    simp only [buildGnu, createGnuLayout, hnbdef, hsdef]
  rw [htab]
  have hlen : (sorted.map dlNewHash).length = sorted.length := List.length_map _
  refine ⟨hb, hnb, ?_, ?_, ?_, ?_⟩
  · simp [writeGnu, gnuChain_length]
  · intro n hn
    obtain ⟨w', h1, _, h3⟩ := gnuBloom_one_aux 6 (sorted.map dlNewHash) 0
    refine ⟨w', ?_, h3 _ (List.mem_map_of_mem hn)⟩
    simp only [writeGnu, gnuBloom, List.replicate_one, h1, Nat.sub_self, Nat.and_zero]
    rfl
  · intro i hi
    refine ⟨_, gnuChain_getElem? nb (sorted.map dlNewHash) i (by omega), ?_⟩
    simp only [List.getElem_map]
    exact chainWord_match _ _
  · intro i hi
    have hi' : i < (sorted.map dlNewHash).length := by omega
    have hxB : bucketOf nb (sorted.map dlNewHash)[i] < (List.replicate nb (0 : Nat)).length := by
      simp only [List.length_replicate, bucketOf]; exact Nat.mod_lt _ hnb
    obtain ⟨s, hs, h1, h2, h3⟩ := gnuBucketsGo_main nb base (sorted.map dlNewHash) hp 0 true (List.replicate nb 0)
      (bucketOf nb (sorted.map dlNewHash)[i]) hxB ⟨_, List.getElem_mem hi', rfl⟩ (Or.inl rfl)
    have hsi : s ≤ i := by
      apply Nat.le_of_not_lt
      intro hlt
      exact h2 i hlt rfl
    refine ⟨s, hsi, ?_, ?_⟩
    · have : (dlNewHash sorted[i]).toNat % nb = bucketOf nb (sorted.map dlNewHash)[i] := by
        simp [bucketOf]
      simp only [writeGnu, gnuBuckets, this, h3]
      congr 1; omega
    · intro j hsj hji
      have hj' : j < (sorted.map dlNewHash).length := by omega
      have hj1 : j + 1 < (sorted.map dlNewHash).length := by omega
      refine ⟨_, gnuChain_getElem? nb (sorted.map dlNewHash) j hj', ?_⟩
      rw [chainWord_isEnd]
      have hbj : bucketOf nb (sorted.map dlNewHash)[j] = bucketOf nb (sorted.map dlNewHash)[i] := by
        have a1 : bucketOf nb (sorted.map dlNewHash)[j] ≤ bucketOf nb (sorted.map dlNewHash)[i] := hpi j i hj' hi' hji
        have a2 : bucketOf nb (sorted.map dlNewHash)[s] ≤ bucketOf nb (sorted.map dlNewHash)[j] := by
          rcases Nat.lt_or_eq_of_le hsj with h | h
          · exact hpi s j hs hj' h
          · subst h; exact Nat.le_refl _
        omega
      have hbj1 : bucketOf nb (sorted.map dlNewHash)[j + 1] = bucketOf nb (sorted.map dlNewHash)[i] := by
        have a2 : bucketOf nb (sorted.map dlNewHash)[j] ≤ bucketOf nb (sorted.map dlNewHash)[j + 1] := hpi j (j + 1) hj' hj1 (by omega)
        have a1 : bucketOf nb (sorted.map dlNewHash)[j + 1] ≤ bucketOf nb (sorted.map dlNewHash)[i] := by
          rcases Nat.lt_or_eq_of_le (show j + 1 ≤ i by omega) with h | h
          · exact hpi (j + 1) i hj1 hi' h
          · subst h; exact Nat.le_refl _
        omega
      rw [List.drop_eq_getElem_cons hj1]
      simp only [List.getElem_map] at hbj hbj1 ⊢
      simp [lastInChain, hbj, hbj1]

/-- `gnu_complete`: every defined dynamic symbol is found by glibc's GNU-hash lookup in the table wild builds,
at an index that carries this name (covers versioned duplicates: `names` need not be distinct). -/
theorem gnu_complete (base : Nat) (names : List (List UInt8)) (hb : 1 ≤ base) (n : List UInt8) (hn : n ∈ names) :
    ∃ i, lookupGnu (buildGnu base names) (gnuOrder names) n = .found i ∧ base ≤ i ∧
      (gnuOrder names)[i - base]? = some n := by
  have hmem : n ∈ gnuOrder names := (sortSyms_perm _ names).mem_iff.mpr hn
  exact gnu_lookup_complete_of_wf _ _ (gnu_builder_wf base names hb) n hmem

/-- `gnu_sound`: a lookup never returns an index whose name differs (any table, in particular wild's). -/
theorem gnu_sound (base : Nat) (names : List (List UInt8)) (n : List UInt8) (i : Nat)
    (h : lookupGnu (buildGnu base names) (gnuOrder names) n = .found i) :
    base ≤ i ∧ (gnuOrder names)[i - base]? = some n :=
  gnu_lookup_sound _ _ _ _ h

/-- names that are not defined are not found -/
theorem gnu_absent_not_found (base : Nat) (names : List (List UInt8)) (n : List UInt8) (hn : n ∉ names) (i : Nat) :
    lookupGnu (buildGnu base names) (gnuOrder names) n ≠ .found i := by
  intro h
  have h2 := (gnu_sound base names n i h).2
  have : n ∈ gnuOrder names := List.mem_of_getElem? h2
  exact hn ((sortSyms_perm _ names).mem_iff.mp this)

/-- distinct names: the lookup returns exactly the symbol's own index -/
theorem gnu_complete_distinct (base : Nat) (names : List (List UInt8)) (hb : 1 ≤ base) (hd : names.Nodup)
    (k : Nat) (hk : k < (gnuOrder names).length) :
    lookupGnu (buildGnu base names) (gnuOrder names) (gnuOrder names)[k] = .found (base + k) := by
  have hmem : (gnuOrder names)[k] ∈ names := (sortSyms_perm _ names).mem_iff.mp (List.getElem_mem hk)
  obtain ⟨i, h1, h2, h3⟩ := gnu_complete base names hb _ hmem
  have hnd : (gnuOrder names).Nodup := (sortSyms_perm _ names).nodup_iff.mpr hd
  obtain ⟨hlt, heq⟩ := List.getElem?_eq_some_iff.mp h3
  have : i - base = k := (List.getElem_inj hnd).mp heq
  rw [h1]; congr 1; omega


/-! ## SysV hash -/


theorem sysv_fold_inv (nb base nchain : Nat) (hb : 1 ≤ base) (hnb : 0 < nb) :
    ∀ (rest pre : List UInt32) (st : SysvState), SysvInv nb base nchain pre st →
      base + pre.length + rest.length ≤ nchain →
      SysvInv nb base nchain (pre ++ rest) (List.foldl (sysvStep nb base) st (enumFrom pre.length rest)) := by
  intro rest
  induction rest with
  | nil => intro pre st inv _; simpa [enumFrom] using inv
  | cons h t ih =>
    intro pre st inv hroom
    simp only [enumFrom, List.foldl_cons]
    have hstep := sysvStep_inv nb base nchain hb hnb pre st inv h (by simp at hroom; omega)
    have := ih (pre ++ [h]) _ hstep (by simp at hroom ⊢; omega)
    simpa [List.append_assoc] using this

theorem sysv_init_inv (nb base nchain : Nat) (hpos : 0 < nchain) :
    SysvInv nb base nchain [] { buckets := List.replicate nb 0, chains := List.replicate nchain 0, last := List.replicate nb none } := by
  refine ⟨by simp, by simp, by simp, ?_, ?_, ?_, ?_, ?_, ?_, ?_⟩
  · intro i hi; simp at hi
  · intro b _ i hi; simp at hi
  · intro b v hbv hv0
    simp only [List.getElem?_replicate] at hbv
    split at hbv
    · cases hbv; exact absurd rfl hv0
    · cases hbv
  · intro a c hac
    simp only [List.getElem?_replicate] at hac
    split at hac
    · cases hac; left; rfl
    · cases hac
  · intro a c hac hc0
    simp only [List.getElem?_replicate] at hac
    split at hac
    · cases hac; exact absurd rfl hc0
    · cases hac
  · intro b v hbv
    simp only [List.getElem?_replicate] at hbv
    split at hbv
    · cases hbv; exact hpos
    · cases hbv
  · intro a c hac
    simp only [List.getElem?_replicate] at hac
    split at hac
    · cases hac; exact hpos
    · cases hac

/-- (c) The `.hash` table wild builds is well-formed for the dynsym order it is built from. -/
theorem sysv_builder_wf (base : Nat) (names : List (List UInt8)) (hb : 1 ≤ base) :
    SysvWF (buildSysv base names) base names := by
  have hnb : 0 < sysvBucketCount names.length := nextPowerOfTwo_pos _
  have inv := sysv_fold_inv (sysvBucketCount names.length) base (base + names.length) hb hnb
    (names.map elfHash) [] _ (sysv_init_inv _ _ _ (by omega)) (by simp)
  simp only [List.nil_append, List.length_nil] at inv
  refine ⟨hb, hnb, ?_, ?_, ?_⟩
  · have := inv.lenC
    simp only [buildSysv, writeSysv] at this ⊢
    omega
  · intro i hi
    obtain ⟨s, h1, h2, h3⟩ := inv.reach i (by simpa using hi)
    simp only [List.getElem_map] at h2
    exact ⟨s, h1, h2, h3⟩
  · exact inv.incr

theorem sysv_complete (base : Nat) (names : List (List UInt8)) (hb : 1 ≤ base) (n : List UInt8) (hn : n ∈ names) :
    ∃ i, lookupSysv (buildSysv base names) base names n = .found i ∧ symName base names i = some n :=
  sysv_lookup_complete_of_wf _ _ _ (sysv_builder_wf base names hb) n hn

theorem sysv_sound (base : Nat) (names : List (List UInt8)) (n : List UInt8) (i : Nat)
    (h : lookupSysv (buildSysv base names) base names n = .found i) : symName base names i = some n :=
  sysv_lookup_sound _ _ _ _ _ h

theorem symName_some {base : Nat} {names : List (List UInt8)} {i : Nat} {n : List UInt8}
    (h : symName base names i = some n) : base ≤ i ∧ names[i - base]? = some n := by
  unfold symName at h
  split at h
  · cases h
  · exact ⟨by omega, h⟩

theorem sysv_absent_not_found (base : Nat) (names : List (List UInt8)) (n : List UInt8) (hn : n ∉ names) (i : Nat) :
    lookupSysv (buildSysv base names) base names n ≠ .found i := by
  intro h
  exact hn (List.mem_of_getElem? (symName_some (sysv_sound base names n i h)).2)

theorem sysv_complete_distinct (base : Nat) (names : List (List UInt8)) (hb : 1 ≤ base) (hd : names.Nodup)
    (k : Nat) (hk : k < names.length) :
    lookupSysv (buildSysv base names) base names names[k] = .found (base + k) := by
  obtain ⟨i, h1, h2⟩ := sysv_complete base names hb _ (List.getElem_mem hk)
  obtain ⟨h3, h4⟩ := symName_some h2
  obtain ⟨hlt, heq⟩ := List.getElem?_eq_some_iff.mp h4
  have : i - base = k := (List.getElem_inj hd).mp heq
  rw [h1]; congr 1; omega

/-- `chain_terminates` (SysV): on wild's tables the modelled loop never runs out of its `nchain + 1` fuel. -/
theorem sysv_chain_terminates (base : Nat) (names : List (List UInt8)) (hb : 1 ≤ base) (n : List UInt8) :
    lookupSysv (buildSysv base names) base names n ≠ .outOfFuel :=
  sysv_terminates_of_wf _ _ _ (sysv_builder_wf base names hb) n

/-! ### the two formulations of the SysV hash function agree -/
theorem gabi_step (o c : UInt32) (b : UInt8) (h : c = o &&& 0x0fffffff) :
    gabiHashStep c b = elfHashStep o b &&& 0x0fffffff := by
  subst h
  simp only [gabiHashStep, elfHashStep]
  generalize b.toUInt32 = x
  bv_decide

theorem gabi_fold : ∀ (l : List UInt8) (o c : UInt32), c = o &&& 0x0fffffff →
    l.foldl gabiHashStep c = l.foldl elfHashStep o &&& 0x0fffffff := by
  intro l
  induction l with
  | nil => intro o c h; simpa using h
  | cons b t ih => intro o c h; simp only [List.foldl_cons]; exact ih _ _ (gabi_step o c b h)

/-- `object::elf::hash` (used by wild to build `.hash`) equals the gABI function (used by loaders to search it). -/
theorem elfHash_eq_gabiHash (n : List UInt8) : elfHash n = gabiHash n := by
  unfold elfHash gabiHash
  exact (gabi_fold n 0 0 (by decide)).symm


/-! ## No out-of-table reads; exact answer for undefined names -/


/-- Closedness: every read glibc performs during a lookup stays inside the table. -/
structure GnuClosed (t : GnuTable) : Prop where
  nb_pos : 0 < t.nbuckets
  buckets_len : t.buckets.length = t.nbuckets
  bloom_total : ∀ x : Nat, ∃ w, t.bloom[x &&& (t.bloomSize - 1)]? = some w
  bucket_range : ∀ (b v : Nat), t.buckets[b]? = some v → v = 0 ∨ (t.symoffset ≤ v ∧ v - t.symoffset < t.chain.length)
  /-- chains are terminated: a word without the end bit is never the last word of the table -/
  last_end : ∀ (j : Nat) (w : UInt32), t.chain[j]? = some w → isEnd w = false → j + 1 < t.chain.length

theorem gnuWalk_total (chain : List UInt32) (syms : List (List UInt8)) (so : Nat) (h : UInt32) (n : List UInt8)
    (hend : ∀ (j : Nat) (w : UInt32), chain[j]? = some w → isEnd w = false → j + 1 < chain.length) :
    ∀ fuel j, j < chain.length → chain.length - j ≤ fuel →
      (∃ i, gnuWalk chain syms so h n fuel j = .found i) ∨ gnuWalk chain syms so h n fuel j = .notFound := by
  intro fuel
  induction fuel with
  | zero => intro j h1 h2; omega
  | succ f ih =>
    intro j h1 h2
    unfold gnuWalk
    rw [List.getElem?_eq_getElem h1]
    simp only
    split
    · exact Or.inl ⟨_, rfl⟩
    · split
      · exact Or.inr rfl
      · rename_i he
        have := hend j _ (List.getElem?_eq_getElem h1) (by simpa using he)
        exact ih (j + 1) this (by omega)

/-- On closed tables a lookup either finds a symbol or reports "not found" (never leaves the table). -/
theorem gnu_lookup_total_of_closed (t : GnuTable) (c : GnuClosed t) (syms : List (List UInt8)) (n : List UInt8) :
    (∃ i, lookupGnu t syms n = .found i) ∨ lookupGnu t syms n = .notFound := by
  unfold lookupGnu lookupGnuFuel
  simp only
  obtain ⟨w, hw⟩ := c.bloom_total ((dlNewHash n).toNat / 64)
  rw [hw]
  simp only
  split
  · have h1 : ¬ t.nbuckets = 0 := by have := c.nb_pos; omega
    simp only [h1, if_false]
    have hlt : (dlNewHash n).toNat % t.nbuckets < t.buckets.length := by
      rw [c.buckets_len]; exact Nat.mod_lt _ c.nb_pos
    rw [List.getElem?_eq_getElem hlt]
    simp only
    split
    · exact Or.inr rfl
    · rename_i hv0
      rcases c.bucket_range _ _ (List.getElem?_eq_getElem hlt) with h0 | ⟨h2, h3⟩
      · exact absurd h0 hv0
      · have h4 : ¬ t.buckets[(dlNewHash n).toNat % t.nbuckets] < t.symoffset := by omega
        simp only [h4, if_false]
        exact gnuWalk_total _ _ _ _ _ c.last_end _ _ h3 (by omega)
  · exact Or.inr rfl

theorem gnuBucketsGo_range (nb base : Nat) : ∀ (l : List UInt32) i start B,
    (∀ (b v : Nat), B[b]? = some v → v = 0 ∨ (base ≤ v ∧ v < base + i + l.length)) →
    ∀ (b v : Nat), (gnuBucketsGo nb base i start l B)[b]? = some v → v = 0 ∨ (base ≤ v ∧ v < base + i + l.length) := by
  intro l
  induction l with
  | nil => intro i s B hB b v h; exact hB b v h
  | cons h t ih =>
    intro i start B hB b v hv
    unfold gnuBucketsGo at hv
    have := ih (i + 1) (lastInChain nb h t) _ (by
      intro b' v' hb'
      split at hb'
      · rw [List.getElem?_set] at hb'
        split at hb'
        · split at hb'
          · cases hb'; right; simp; omega
          · cases hb'
        · rcases hB b' v' hb' with h0 | h1
          · exact Or.inl h0
          · right; simp at h1 ⊢; omega
      · rcases hB b' v' hb' with h0 | h1
        · exact Or.inl h0
        · right; simp at h1 ⊢; omega) b v hv
    simp at this ⊢; omega

theorem gnu_builder_closed (base : Nat) (names : List (List UInt8)) : GnuClosed (buildGnu base names) := by
  have hnb : 0 < nextPowerOfTwo (names.length / 2) := nextPowerOfTwo_pos _
  refine ⟨hnb, ?_, ?_, ?_, ?_⟩
  · simp [buildGnu, writeGnu, createGnuLayout, gnuBuckets, gnuBucketsGo_length]
  · intro x
    obtain ⟨w', h1, _, _⟩ := gnuBloom_one_aux 6 ((gnuOrder names).map dlNewHash) 0
    refine ⟨w', ?_⟩
    simp only [buildGnu, writeGnu, createGnuLayout, gnuBloom, List.replicate_one, h1, Nat.sub_self, Nat.and_zero]
    rfl
  · intro b v hv
    have := gnuBucketsGo_range (nextPowerOfTwo (names.length / 2)) base ((gnuOrder names).map dlNewHash) 0 true
      (List.replicate _ 0) (by
        intro b' v' h'
        simp only [List.getElem?_replicate] at h'
        split at h'
        · cases h'; exact Or.inl rfl
        · cases h') b v hv
    rcases this with h0 | h1
    · exact Or.inl h0
    · right
      simp only [buildGnu, writeGnu, createGnuLayout, gnuChain_length]
      simp at h1 ⊢; omega
  · intro j w hw he
    simp only [buildGnu, writeGnu, createGnuLayout] at hw ⊢
    have hj : j < ((gnuOrder names).map dlNewHash).length := by
      have := (List.getElem?_eq_some_iff.mp hw).1
      simpa [gnuChain_length] using this
    rw [gnuChain_getElem? _ _ j hj] at hw
    cases hw
    rw [chainWord_isEnd] at he
    rw [gnuChain_length]
    apply Nat.lt_of_not_le
    intro hge
    rw [List.drop_eq_nil_of_le hge] at he
    simp [lastInChain] at he

/-- exact result for undefined names: glibc reports "not found" and never reads outside wild's table -/
theorem gnu_absent_notFound (base : Nat) (names : List (List UInt8)) (n : List UInt8) (hn : n ∉ names) :
    lookupGnu (buildGnu base names) (gnuOrder names) n = .notFound := by
  rcases gnu_lookup_total_of_closed _ (gnu_builder_closed base names) (gnuOrder names) n with ⟨i, h⟩ | h
  · exact absurd h (gnu_absent_not_found base names n hn i)
  · exact h



/-- Closedness of a SysV table: all indices stay inside the table and links go upwards. -/
structure SysvClosed (t : SysvTable) : Prop where
  nb_pos : 0 < t.nbucket
  buckets_len : t.buckets.length = t.nbucket
  bucket_range : ∀ (b v : Nat), t.buckets[b]? = some v → v < t.chain.length
  chain_range : ∀ (a c : Nat), t.chain[a]? = some c → c < t.chain.length
  incr : ∀ (a c : Nat), t.chain[a]? = some c → c = 0 ∨ a < c

theorem sysvWalk_total (chain : List Nat) (base : Nat) (syms : List (List UInt8)) (n : List UInt8)
    (hr : ∀ (a c : Nat), chain[a]? = some c → c < chain.length)
    (incr : ∀ (a c : Nat), chain[a]? = some c → c = 0 ∨ a < c) :
    ∀ fuel idx, 1 ≤ fuel → (idx = 0 ∨ (idx < chain.length ∧ chain.length - idx + 1 ≤ fuel)) →
      (∃ i, sysvWalk chain base syms n fuel idx = .found i) ∨ sysvWalk chain base syms n fuel idx = .notFound := by
  intro fuel
  induction fuel with
  | zero => intro idx h; omega
  | succ f ih =>
    intro idx _ hcase
    unfold sysvWalk
    split
    · exact Or.inr rfl
    · rename_i h0
      rcases hcase with h | ⟨hlt, hf⟩
      · exact absurd h h0
      · split
        · exact Or.inl ⟨_, rfl⟩
        · rw [List.getElem?_eq_getElem hlt]
          simp only
          have hc := List.getElem?_eq_getElem hlt
          rcases incr _ _ hc with hz | hgt
          · exact ih _ (by omega) (Or.inl hz)
          · exact ih _ (by omega) (Or.inr ⟨hr _ _ hc, by omega⟩)

theorem sysv_lookup_total_of_closed (t : SysvTable) (c : SysvClosed t) (base : Nat) (syms : List (List UInt8))
    (n : List UInt8) : (∃ i, lookupSysv t base syms n = .found i) ∨ lookupSysv t base syms n = .notFound := by
  unfold lookupSysv lookupSysvFuel
  have h1 : ¬ t.nbucket = 0 := by have := c.nb_pos; omega
  simp only [h1, if_false]
  have hlt : (elfHash n).toNat % t.nbucket < t.buckets.length := by
    rw [c.buckets_len]; exact Nat.mod_lt _ c.nb_pos
  rw [List.getElem?_eq_getElem hlt]
  simp only
  have hs := c.bucket_range _ _ (List.getElem?_eq_getElem hlt)
  exact sysvWalk_total _ _ _ _ c.chain_range c.incr _ _ (by omega) (Or.inr ⟨hs, by omega⟩)


theorem sysv_builder_closed (base : Nat) (names : List (List UInt8)) (hb : 1 ≤ base) :
    SysvClosed (buildSysv base names) := by
  have hnb : 0 < sysvBucketCount names.length := nextPowerOfTwo_pos _
  have inv := sysv_fold_inv (sysvBucketCount names.length) base (base + names.length) hb hnb
    (names.map elfHash) [] _ (sysv_init_inv _ _ _ (by omega)) (by simp)
  simp only [List.nil_append, List.length_nil] at inv
  have hlc := inv.lenC
  refine ⟨hnb, inv.lenB, ?_, ?_, inv.incr⟩
  · intro b v h
    have := inv.bndB b v h
    simp only [buildSysv, writeSysv] at hlc ⊢
    omega
  · intro a c h
    have := inv.bndC a c h
    simp only [buildSysv, writeSysv] at hlc ⊢
    omega

/-- exact result for undefined names (SysV): "not found", and the walk never leaves wild's table -/
theorem sysv_absent_notFound (base : Nat) (names : List (List UInt8)) (hb : 1 ≤ base) (n : List UInt8) (hn : n ∉ names) :
    lookupSysv (buildSysv base names) base names n = .notFound := by
  rcases sysv_lookup_total_of_closed _ (sysv_builder_closed base names hb) base names n with ⟨i, h⟩ | h
  · exact absurd h (sysv_absent_not_found base names n hn i)
  · exact h
/-! ### non-vacuity / sanity examples (evaluated by the kernel) -/
section Examples
def exNames : List (List UInt8) := ["foo".toUTF8.toList, "bar".toUTF8.toList, "baz".toUTF8.toList, "qux".toUTF8.toList, "foo".toUTF8.toList]

example : (buildGnu 2 exNames).buckets = [2, 4] := by decide +kernel
example : lookupGnu (buildGnu 2 exNames) (gnuOrder exNames) "foo".toUTF8.toList = .found 4 := by decide +kernel
example : lookupGnu (buildGnu 2 exNames) (gnuOrder exNames) "nope".toUTF8.toList = .notFound := by decide +kernel
example : lookupSysv (buildSysv 2 exNames) 2 exNames "qux".toUTF8.toList = .found 5 := by decide +kernel
example : lookupSysv (buildSysv 2 exNames) 2 exNames "quy".toUTF8.toList = .notFound := by decide +kernel
/-- the hypothesis `1 ≤ base` matters: with `base = 0` the first symbol's bucket word is 0 = "empty". -/
example : lookupGnu (buildGnu 0 [[1]]) (gnuOrder [[1]]) [1] = .notFound := by decide +kernel
/-- dropping the end-of-chain bit makes the walk leave the table (what `chain_terminates`/`WF` exclude) -/
example : gnuWalk [0x10, 0x20] [[1], [2]] 1 0x40 [3] 3 0 = .oob := by decide +kernel
end Examples


end Wild.Hash
