import WildModel.Model.Relr
/-!
# C09 — Position-independent outputs are correct at any load address

Spec side (independent of the model of wild): the loader (`load`: glibc's RELR loop and
`R_X86_64_RELATIVE`), "the image at base `b` is the link-time image with every address-holding slot
shifted by `b`", "every slot is covered exactly once", "layout allocates exactly what writing
consumes".

* `relr_decode_roundtrip`   glibc's decoder recovers the places from wild's `.relr.dyn` words
* `alloc_eq_write`          for ALL groups of sites, both RELR settings: writing never runs out of
                            entries, nothing is left over, and the result is `emit` (current code)
* `relr_entries_even`       every RELR entry of the current code is an even address
* `cover_exactly_once`      RELA offsets ++ decoded RELR is a permutation of the places
* `image_shift`             `load b` of the emitted output = link-time values shifted by `b`
* `alloc_eq_write_old_partial`, `alloc_ne_write_old_witness`
                            the code before `scratch/fixes/c09-relr-parity.diff`: only under
                            "section address even", and the failing input (odd section address, even
                            offset) — kept as the regression seed.
-/
namespace Wild.Relr

/-! ## Decoder -/

theorem decodeRelrFrom_encode (w : Nat) (ps : List Nat) (h : ∀ p ∈ ps, p % 2 = 0) :
    decodeRelrFrom w (encodeRelr ps) = ps := by
  induction ps generalizing w with
  | nil => rfl
  | cons p ps ih =>
    have hp : p % 2 = 0 := h p (List.mem_cons_self ..)
    have ih' := ih (p + 8) (fun q hq => h q (List.mem_cons_of_mem _ hq))
    simp only [encodeRelr] at ih' ⊢
    rw [decodeRelrFrom, if_pos hp, ih']

/-- For ALL lists of even addresses (ascending or not): glibc's decoder applied to the words wild
writes gives back exactly the places, in order. -/
theorem relr_decode_roundtrip (ps : List Nat) (h : ∀ p ∈ ps, p % 2 = 0) :
    decodeRelr (encodeRelr ps) = ps :=
  decodeRelrFrom_encode 0 ps h

/-- The evenness hypothesis is needed: an odd word is a bitmap entry to the decoder. -/
theorem relr_odd_entry_misdecoded : decodeRelr (encodeRelr [0x3999]) ≠ [0x3999] := by decide

example : decodeRelr (encodeRelr [0x3958, 0x3960, 0x3970]) = [0x3958, 0x3960, 0x3970] := by decide
/-- The decoder model on a bitmap entry (as GNU ld emits them). -/
example : decodeRelr [0x3958, 0b1011] = [0x3958, 0x3960, 0x3970] := by decide
example : decodeRelr (encodePacked [0x3958, 0x3960, 0x3970, 0x5000]) = [0x3958, 0x3960, 0x3970, 0x5000] := by decide
example : encodePacked [0x3958, 0x3960, 0x3970, 0x5000] = [0x3958, 0b1011, 0x5000] := by decide

/-! ## Layout vs write -/

def countRelr (choose : SiteKind → Bool) (sites : List Site) : Nat :=
  (sites.filter fun s => choose s.kind).length
def countRela (choose : SiteKind → Bool) (sites : List Site) : Nat :=
  (sites.filter fun s => !choose s.kind).length

theorem writeAll_ok (choose : SiteKind → Bool) (sites : List Site) :
    ∀ (left : Counts) (o : Out), countRelr choose sites ≤ left.relr → countRela choose sites ≤ left.rela →
      writeAll choose left o sites =
        .ok ({ relr := left.relr - countRelr choose sites, rela := left.rela - countRela choose sites },
             { rela := o.rela ++ (emit choose o.image sites).rela
               relr := o.relr ++ (emit choose o.image sites).relr
               image := (emit choose o.image sites).image }) := by
  induction sites with
  | nil => intro left o _ _; simp [writeAll, countRelr, countRela, emit]
  | cons s rest ih =>
    intro left o h1 h2
    cases hc : choose s.kind with
    | true =>
      have h1' : countRelr choose rest + 1 ≤ left.relr := by
        simpa [countRelr, List.filter_cons, hc] using h1
      have h2' : countRela choose rest ≤ left.rela := by
        simpa [countRela, List.filter_cons, hc] using h2
      have hne : left.relr ≠ 0 := by omega
      simp only [writeAll, writeOne, hc, if_neg hne, ↓reduceIte]
      rw [ih _ _ (by simpa using (by omega : countRelr choose rest ≤ left.relr - 1)) (by simpa using h2')]
      simp [emit, countRelr, countRela, List.filter_cons, hc]
      omega
    | false =>
      have h1' : countRelr choose rest ≤ left.relr := by
        simpa [countRelr, List.filter_cons, hc] using h1
      have h2' : countRela choose rest + 1 ≤ left.rela := by
        simpa [countRela, List.filter_cons, hc] using h2
      have hne : left.rela ≠ 0 := by omega
      simp only [writeAll, writeOne, hc, if_neg hne, Bool.false_eq_true, ↓reduceIte]
      rw [ih _ _ (by simpa using h1') (by simpa using (by omega : countRela choose rest ≤ left.rela - 1))]
      simp [emit, countRelr, countRela, List.filter_cons, hc]
      omega

theorem writeAll_congr (c1 c2 : SiteKind → Bool) (sites : List Site)
    (h : ∀ s ∈ sites, c1 s.kind = c2 s.kind) :
    ∀ left o, writeAll c1 left o sites = writeAll c2 left o sites := by
  induction sites with
  | nil => intro left o; rfl
  | cons s rest ih =>
    intro left o
    have hs := h s (List.mem_cons_self ..)
    have ih' := ih (fun t ht => h t (List.mem_cons_of_mem _ ht))
    simp only [writeAll, writeOne, hs]
    split <;> simp_all

/-- Generic form: if on the sites of the group the writer's choice (given whether the group has a
`.relr.dyn` slice) agrees with layout's choice, the link succeeds and emits `emit`. -/
theorem linkWith_ok (L W : Bool → SiteKind → Bool) (relr : Bool) (img0 : Image) (sites : List Site)
    (h : ∀ s ∈ sites, W (relr && decide (countRelr (L relr) sites ≠ 0)) s.kind = L relr s.kind) :
    linkWith L W relr img0 sites = .ok (emit (L relr) img0 sites) := by
  have h' : ∀ s ∈ sites, W (relr && decide ((allocCounts (L relr) sites).relr ≠ 0)) s.kind = L relr s.kind := h
  have hc := writeAll_congr _ _ sites h' (allocCounts (L relr) sites) ⟨[], [], img0⟩
  have hok := writeAll_ok (L relr) sites (allocCounts (L relr) sites) ⟨[], [], img0⟩ (Nat.le_refl _) (Nat.le_refl _)
  simp only [linkWith]
  rw [hc, hok]
  simp [validateEmpty, allocCounts, countRelr, countRela, emit]

theorem write_agrees_layout (relr : Bool) (sites : List Site) :
    ∀ s ∈ sites, writeChoosesRelr (relr && decide (countRelr (layoutChoosesRelr relr) sites ≠ 0)) s.kind
      = layoutChoosesRelr relr s.kind := by
  intro s hs
  cases relr with
  | false => cases hk : s.kind <;> simp [writeChoosesRelr, layoutChoosesRelr]
  | true =>
    by_cases h0 : countRelr (layoutChoosesRelr true) sites = 0
    · -- no RELR entry allocated: layout chose RELA for every site of the group
      have hall : ∀ t ∈ sites, layoutChoosesRelr true t.kind = false := by
        intro t ht
        cases hv : layoutChoosesRelr true t.kind with
        | false => rfl
        | true =>
          have : t ∈ sites.filter fun s => layoutChoosesRelr true s.kind := by
            simp [List.mem_filter, ht, hv]
          have hl : (sites.filter fun s => layoutChoosesRelr true s.kind).length = 0 := h0
          rw [List.length_eq_zero_iff] at hl
          rw [hl] at this
          cases this
      rw [hall s hs]
      cases hk : s.kind <;> simp [writeChoosesRelr, h0]
    · cases hk : s.kind <;> simp [writeChoosesRelr, layoutChoosesRelr, h0]

/-- **Layout and writing agree** (current code): for ALL groups of sites — any section alignment,
any section address, odd or even offsets — and both settings of `-z pack-relative-relocs`, writing
never hits "Insufficient ... allocation", nothing is left for "Allocated too much", and the output is
the closed form `emit`. -/
theorem alloc_eq_write (relr : Bool) (img0 : Image) (sites : List Site) :
    link relr img0 sites = .ok (emit (layoutChoosesRelr relr) img0 sites) :=
  linkWith_ok _ _ relr img0 sites (write_agrees_layout relr sites)

/-- … in particular the numbers of entries written equal the numbers allocated. -/
theorem alloc_eq_write_counts (relr : Bool) (img0 : Image) (sites : List Site) :
    (emit (layoutChoosesRelr relr) img0 sites).relr.length = (allocCounts (layoutChoosesRelr relr) sites).relr ∧
    (emit (layoutChoosesRelr relr) img0 sites).rela.length = (allocCounts (layoutChoosesRelr relr) sites).rela := by
  simp [emit, allocCounts]

/-! ### The code before the fix -/

def Except.isOk {ε α} : Except ε α → Bool
  | .ok _ => true
  | .error _ => false

/-- The full statement for the old code … -/
def alloc_eq_write_old_full : Prop :=
  ∀ (relr : Bool) (img0 : Image) (sites : List Site), Except.isOk (linkOld relr img0 sites) = true

/-- … is false: one pointer at offset 0 (even) of an alignment-1 section placed at the odd address
0x3999 (the input of `scratch/c09c23/repro`): layout reserves a RELR entry, the writer asks for a
RELA entry: "Insufficient .rela.dyn (relative) allocation". -/
theorem alloc_ne_write_old_witness : ¬ alloc_eq_write_old_full := by
  intro h
  have := h true (fun _ => 0) [⟨.data 1 0x3999 0, 0x39c2#64⟩]
  revert this
  decide

/-- The mirror image: odd offset, odd section address ⇒ even place: layout reserves RELA, the writer
takes RELR (when the group has other RELR entries) and a RELA entry is left over. -/
example : Except.isOk (linkOld true (fun _ => 0) [⟨.data 1 0x3999 1, 0#64⟩, ⟨.got 0x2000, 0#64⟩]) = false := by
  decide

/-- What held for the old code: groups whose writable sections all sit at even addresses. -/
theorem alloc_eq_write_old_partial (relr : Bool) (img0 : Image) (sites : List Site)
    (heven : ∀ s ∈ sites, match s.kind with
      | .data _ secAddr _ => secAddr % 2 = 0
      | .got addr => addr % 2 = 0) :
    linkOld relr img0 sites = .ok (emit (layoutChoosesRelrOld relr) img0 sites) := by
  apply linkWith_ok
  intro s hs
  have he := heven s hs
  cases relr with
  | false => cases hk : s.kind <;> simp [writeChoosesRelrOld, layoutChoosesRelrOld]
  | true =>
    by_cases h0 : countRelr (layoutChoosesRelrOld true) sites = 0
    · have hall : ∀ t ∈ sites, layoutChoosesRelrOld true t.kind = false := by
        intro t ht
        cases hv : layoutChoosesRelrOld true t.kind with
        | false => rfl
        | true =>
          have : t ∈ sites.filter fun s => layoutChoosesRelrOld true s.kind := by
            simp [List.mem_filter, ht, hv]
          have hl : (sites.filter fun s => layoutChoosesRelrOld true s.kind).length = 0 := h0
          rw [List.length_eq_zero_iff] at hl
          rw [hl] at this
          cases this
      rw [hall s hs]
      simp [writeChoosesRelrOld, h0]
    · cases hk : s.kind with
      | data al sa off =>
        rw [hk] at he
        have he' : sa % 2 = 0 := he
        have hav : (true && decide (countRelr (layoutChoosesRelrOld true) sites ≠ 0)) = true := by simp [h0]
        rw [hav]
        have : (sa + off) % 2 = off % 2 := by omega
        simp [writeChoosesRelrOld, layoutChoosesRelrOld, SiteKind.place, this]
      | got addr =>
        rw [hk] at he
        have he' : addr % 2 = 0 := he
        have hav : (true && decide (countRelr (layoutChoosesRelrOld true) sites ≠ 0)) = true := by simp [h0]
        rw [hav]
        simp [writeChoosesRelrOld, layoutChoosesRelrOld, SiteKind.place, he']

/-- the hypothesis is satisfiable by a non-trivial group -/
example : Except.isOk (linkOld true (fun _ => 0) [⟨.data 1 0x3998 0, 1#64⟩, ⟨.data 1 0x3998 9, 2#64⟩, ⟨.got 0x2000, 3#64⟩]) = true := by
  decide

/-! ## RELR entries are even -/

/-- A site as layout really places it: the section starts at a multiple of its alignment,
alignments ≥ 2 are even (powers of two), GOT entries are 8-aligned. -/
def SiteKind.WF : SiteKind → Prop
  | .data al secAddr _ => secAddr % al = 0 ∧ (2 ≤ al → al % 2 = 0)
  | .got addr => addr % 8 = 0

theorem relr_entries_even (relrAvail : Bool) (k : SiteKind) (wf : k.WF)
    (h : writeChoosesRelr relrAvail k = true) : k.place % 2 = 0 := by
  cases k with
  | got addr =>
    have : addr % 8 = 0 := wf
    simp only [SiteKind.place]; omega
  | data al sa off =>
    obtain ⟨hdiv, hal⟩ := wf
    simp only [writeChoosesRelr, relrEligible, Bool.and_eq_true, decide_eq_true_eq, beq_iff_eq] at h
    obtain ⟨_, h2, hoff⟩ := h
    have hal2 := hal h2
    obtain ⟨k, hk⟩ := Nat.dvd_of_mod_eq_zero hdiv
    obtain ⟨j, hj⟩ := Nat.dvd_of_mod_eq_zero hal2
    have hsa : sa % 2 = 0 := by
      rw [hk, hj, Nat.mul_assoc]; exact Nat.mul_mod_right 2 _
    simp only [SiteKind.place]; omega

/-- The same for layout's choice (they are the same function of the site once RELR is on). -/
theorem relr_entries_even_layout (relr : Bool) (k : SiteKind) (wf : k.WF)
    (h : layoutChoosesRelr relr k = true) : k.place % 2 = 0 := by
  apply relr_entries_even relr k wf
  cases k <;> simpa [writeChoosesRelr, layoutChoosesRelr] using h

/-- The old writer never emitted an odd RELR entry either (it failed instead). -/
theorem relr_entries_even_old (relrAvail : Bool) (k : SiteKind)
    (h : writeChoosesRelrOld relrAvail k = true) : k.place % 2 = 0 := by
  simp only [writeChoosesRelrOld, Bool.and_eq_true, beq_iff_eq] at h
  exact h.2

/-! ## Coverage -/

/-- Every address-holding slot is covered by exactly one of {RELA relative, RELR}: the RELA offsets
followed by the addresses glibc decodes from `.relr.dyn` are a permutation of the places. -/
theorem cover_exactly_once (choose : SiteKind → Bool) (img0 : Image) (sites : List Site)
    (heven : ∀ s ∈ sites, choose s.kind = true → s.place % 2 = 0) :
    List.Perm ((emit choose img0 sites).rela.map (·.1) ++ decodeRelr (encodeRelr (emit choose img0 sites).relr))
      (sites.map (·.place)) := by
  have hr : decodeRelr (encodeRelr (emit choose img0 sites).relr) = (emit choose img0 sites).relr := by
    apply relr_decode_roundtrip
    intro p hp
    simp only [emit, List.mem_map, List.mem_filter] at hp
    obtain ⟨s, ⟨hs, hc⟩, rfl⟩ := hp
    exact heven s hs hc
  rw [hr]
  simp only [emit, List.map_map]
  have h1 : ((sites.filter fun s => !choose s.kind).map ((fun x : Nat × BitVec 64 => x.1) ∘ fun s => (s.place, s.value)))
      = (sites.filter fun s => !choose s.kind).map (·.place) := by
    apply List.map_congr_left; intro s _; rfl
  rw [h1, ← List.map_append]
  apply List.Perm.map
  exact (List.perm_append_comm).trans (List.filter_append_perm (fun s => choose s.kind) sites)

/-- Consequences in the words of the property: with distinct places, each place occurs exactly
once among the dynamic relocations, and every RELR-decoded address is a place. -/
theorem cover_count_one (choose : SiteKind → Bool) (img0 : Image) (sites : List Site)
    (hnd : (sites.map (·.place)).Nodup)
    (heven : ∀ s ∈ sites, choose s.kind = true → s.place % 2 = 0) :
    ∀ s ∈ sites, ((emit choose img0 sites).rela.map (·.1) ++
      decodeRelr (encodeRelr (emit choose img0 sites).relr)).count s.place = 1 := by
  intro s hs
  rw [(cover_exactly_once choose img0 sites heven).count_eq]
  rw [hnd.count, if_pos (List.mem_map_of_mem hs)]

theorem relr_decodes_to_places (choose : SiteKind → Bool) (img0 : Image) (sites : List Site)
    (heven : ∀ s ∈ sites, choose s.kind = true → s.place % 2 = 0) :
    ∀ a ∈ decodeRelr (encodeRelr (emit choose img0 sites).relr), a ∈ sites.map (·.place) := by
  intro a ha
  exact (cover_exactly_once choose img0 sites heven).subset (List.mem_append_right _ ha)

/-! ## The image at any base -/

/-- Folding keyed in-place updates over a list with distinct keys. -/
theorem foldl_set_not_mem {α} (key : α → Nat) (g : BitVec 64 → α → BitVec 64) (l : List α) :
    ∀ (im : Image) (a : Nat), a ∉ l.map key →
      (l.foldl (fun im x => im.set (key x) (g (im (key x)) x)) im) a = im a := by
  induction l with
  | nil => intro im a _; rfl
  | cons y ys ih =>
    intro im a ha
    simp only [List.map_cons, List.mem_cons, not_or] at ha
    simp only [List.foldl_cons]
    rw [ih _ a ha.2]
    simp [Image.set, ha.1]

theorem foldl_set_mem {α} (key : α → Nat) (g : BitVec 64 → α → BitVec 64) (l : List α) :
    ∀ (im : Image), (l.map key).Nodup → ∀ x ∈ l,
      (l.foldl (fun im x => im.set (key x) (g (im (key x)) x)) im) (key x) = g (im (key x)) x := by
  induction l with
  | nil => intro im _ x hx; cases hx
  | cons y ys ih =>
    intro im hnd x hx
    simp only [List.map_cons, List.nodup_cons] at hnd
    simp only [List.foldl_cons]
    rcases List.mem_cons.mp hx with rfl | hx'
    · rw [foldl_set_not_mem key g ys _ _ hnd.1]
      simp [Image.set]
    · rw [ih _ hnd.2 x hx']
      have hne : key x ≠ key y := by
        intro he
        exact hnd.1 (he ▸ List.mem_map_of_mem hx')
      simp [Image.set, hne]

theorem place_inj_of_nodup (sites : List Site) (hnd : (sites.map (·.place)).Nodup) :
    ∀ s ∈ sites, ∀ t ∈ sites, s.place = t.place → s = t := by
  induction sites with
  | nil => intro s hs; cases hs
  | cons y ys ih =>
    intro s hs t ht he
    simp only [List.map_cons, List.nodup_cons] at hnd
    rcases List.mem_cons.mp hs with rfl | hs' <;> rcases List.mem_cons.mp ht with rfl | ht'
    · rfl
    · exact absurd (he ▸ List.mem_map_of_mem ht') hnd.1
    · exact absurd (he ▸ List.mem_map_of_mem hs') hnd.1
    · exact ih hnd.2 s hs' t ht' he

/-- **Correct at any load address.** For ALL sets of address-holding slots with distinct places,
ALL link-time values, ALL bases `b` (64-bit wrap-around included): after the loader has applied the
emitted `.relr.dyn` and `.rela.dyn` at base `b`, every slot holds its link-time address plus `b`, and
nothing else has changed. -/
theorem image_shift (choose : SiteKind → Bool) (img0 : Image) (sites : List Site) (b : BitVec 64)
    (hnd : (sites.map (·.place)).Nodup)
    (heven : ∀ s ∈ sites, choose s.kind = true → s.place % 2 = 0) :
    (∀ s ∈ sites, load b (emit choose img0 sites) s.place = s.value + b) ∧
    (∀ a, a ∉ sites.map (·.place) → load b (emit choose img0 sites) a = img0 a) := by
  -- the three folds in keyed form
  have hsubR : ((sites.filter fun s => choose s.kind).map (·.place)).Nodup :=
    List.Nodup.sublist ((List.filter_sublist).map _) hnd
  have hsubA : ((sites.filter fun s => !choose s.kind).map (·.place)).Nodup :=
    List.Nodup.sublist ((List.filter_sublist).map _) hnd
  have hdec : decodeRelr (emit choose img0 sites).relr = (sites.filter fun s => choose s.kind).map (·.place) := by
    have := relr_decode_roundtrip ((sites.filter fun s => choose s.kind).map (·.place)) (by
      intro p hp
      simp only [List.mem_map, List.mem_filter] at hp
      obtain ⟨s, ⟨hs, hc⟩, rfl⟩ := hp
      exact heven s hs hc)
    simpa [emit, encodeRelr] using this
  -- image written by the linker
  have himg_in : ∀ s ∈ sites, (emit choose img0 sites).image s.place = if choose s.kind then s.value else 0 := by
    intro s hs
    exact foldl_set_mem (·.place) (fun _ s => if choose s.kind then s.value else 0) sites img0 hnd s hs
  have himg_out : ∀ a, a ∉ sites.map (·.place) → (emit choose img0 sites).image a = img0 a := by
    intro a ha
    exact foldl_set_not_mem (·.place) (fun _ s => if choose s.kind then s.value else 0) sites img0 a ha
  -- RELR pass
  let im1 := applyRelr b (emit choose img0 sites).image (emit choose img0 sites).relr
  have hrelr_in : ∀ p ∈ (sites.filter fun s => choose s.kind).map (·.place),
      im1 p = (emit choose img0 sites).image p + b := by
    intro p hp
    show applyRelr b _ _ p = _
    unfold applyRelr
    rw [hdec]
    have := foldl_set_mem (fun p : Nat => p) (fun cur _ => cur + b) _ (emit choose img0 sites).image
      (by rw [List.map_id']; exact hsubR) p hp
    simpa using this
  have hrelr_out : ∀ a, a ∉ (sites.filter fun s => choose s.kind).map (·.place) →
      im1 a = (emit choose img0 sites).image a := by
    intro a ha
    show applyRelr b _ _ a = _
    unfold applyRelr
    rw [hdec]
    exact foldl_set_not_mem (fun p : Nat => p) (fun cur _ => cur + b) _ _ a (by rw [List.map_id']; exact ha)
  -- RELA pass
  have hkeys : (emit choose img0 sites).rela.map (·.1) = (sites.filter fun s => !choose s.kind).map (·.place) := by
    simp only [emit, List.map_map]
    apply List.map_congr_left; intro s _; rfl
  have hrela_in : ∀ r ∈ (emit choose img0 sites).rela, load b (emit choose img0 sites) r.1 = b + r.2 := by
    intro r hr
    exact foldl_set_mem (fun r : Nat × BitVec 64 => r.1) (fun _ r => b + r.2) _ im1 (by rw [hkeys]; exact hsubA) r hr
  have hrela_out : ∀ a, a ∉ (sites.filter fun s => !choose s.kind).map (·.place) →
      load b (emit choose img0 sites) a = im1 a := by
    intro a ha
    exact foldl_set_not_mem (fun r : Nat × BitVec 64 => r.1) (fun _ r => b + r.2) _ im1 a (by rw [hkeys]; exact ha)
  constructor
  · intro s hs
    cases hc : choose s.kind with
    | true =>
      have hin : s.place ∈ (sites.filter fun s => choose s.kind).map (·.place) :=
        List.mem_map_of_mem (List.mem_filter.mpr ⟨hs, by simpa using hc⟩)
      have hnot : s.place ∉ (sites.filter fun s => !choose s.kind).map (·.place) := by
        intro hm
        obtain ⟨t, ht, hpt⟩ := List.mem_map.mp hm
        obtain ⟨ht1, ht2⟩ := List.mem_filter.mp ht
        have := place_inj_of_nodup sites hnd t ht1 s hs hpt
        subst this
        simp [hc] at ht2
      rw [hrela_out _ hnot, hrelr_in _ hin, himg_in s hs, hc]
      simp
    | false =>
      have hin : (s.place, s.value) ∈ (emit choose img0 sites).rela := by
        simp only [emit]
        exact List.mem_map_of_mem (f := fun s : Site => (s.place, s.value)) (List.mem_filter.mpr ⟨hs, by simp [hc]⟩)
      have := hrela_in _ hin
      simp only at this
      rw [this, BitVec.add_comm]
  · intro a ha
    have h1 : a ∉ (sites.filter fun s => !choose s.kind).map (·.place) := by
      intro hm
      obtain ⟨t, ht, hpt⟩ := List.mem_map.mp hm
      exact ha (List.mem_map.mpr ⟨t, (List.mem_filter.mp ht).1, hpt⟩)
    have h2 : a ∉ (sites.filter fun s => choose s.kind).map (·.place) := by
      intro hm
      obtain ⟨t, ht, hpt⟩ := List.mem_map.mp hm
      exact ha (List.mem_map.mpr ⟨t, (List.mem_filter.mp ht).1, hpt⟩)
    rw [hrela_out _ h1, hrelr_out _ h2, himg_out _ ha]

/-- End to end for the current code: any group of well-formed sites with distinct places, both
RELR settings, any base: the link succeeds and the loaded image is the shifted image. -/
theorem link_image_shift (relr : Bool) (img0 : Image) (sites : List Site) (b : BitVec 64)
    (hnd : (sites.map (·.place)).Nodup) (wf : ∀ s ∈ sites, s.kind.WF) :
    ∃ o, link relr img0 sites = .ok o ∧
      (∀ s ∈ sites, load b o s.place = s.value + b) ∧
      (∀ a, a ∉ sites.map (·.place) → load b o a = img0 a) := by
  refine ⟨_, alloc_eq_write relr img0 sites, ?_⟩
  exact image_shift _ img0 sites b hnd
    (fun s hs hc => relr_entries_even_layout relr s.kind (wf s hs) hc)

/-- non-vacuity: an alignment-1 section at an odd address, odd and even offsets, plus a GOT entry -/
example : ([⟨.data 1 0x3999 0, 1#64⟩, ⟨.data 1 0x3999 9, 2#64⟩, ⟨.data 8 0x4000 8, 3#64⟩, ⟨.got 0x2000, 4#64⟩] : List Site).all
    (fun s => match s.kind with
      | .data al sa _ => sa % al == 0 && (al < 2 || al % 2 == 0)
      | .got a => a % 8 == 0) = true := by decide
example : Except.isOk (link true (fun _ => 0)
    [⟨.data 1 0x3999 0, 1#64⟩, ⟨.data 1 0x3999 9, 2#64⟩, ⟨.data 8 0x4000 8, 3#64⟩, ⟨.got 0x2000, 4#64⟩]) = true := by decide

end Wild.Relr
