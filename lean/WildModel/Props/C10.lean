import WildModel.Model.EhFrame
/-!
# C10 — Unwind tables cover every retained function

For ALL inputs (any entry lists, any section tables, any number of objects) of the model of
`write_eh_frame_relocations` + the layout-side frame count:

* `hdr_count`         : per object, with the allocation layout computed (`layoutCount`), exactly one
  table entry is written per output FDE and no allocated slot stays unwritten; `link_count`: the
  header's entry count = number of table entries = number of output FDEs.
* `hdr_sorted`        : the table is sorted by pc_begin; `hdr_perm`: sorting loses/invents nothing.
* `hdr_points_to_fde` : each table entry's FDE address is an output FDE whose pc_begin is the entry's.
* `fde_kept_iff`      : the output FDEs of an object are exactly (in order) its input FDEs whose
  target section is retained and non-empty.
* `cie_pointer_ok`    : each output FDE's rewritten CIE pointer designates an output CIE that is the
  copy of the CIE its input pointer designated.
* `goSections_eq_concat` / `writeObjSections_eq` : an object with SEVERAL `.eh_frame` input sections
  (one writer pass per section, fresh input position and CIE map) yields the same output as one pass
  over the concatenated entry list, so all theorems above apply to such objects as well.
* `layoutCount_eq`    : the layout-side count (per loaded non-empty section, frames attached) equals
  the writer-side count (FDEs passing the keep test) — the reason `take_eh_frame_hdr_entry` never
  returns `None` and no zero entry is left.
-/
namespace Wild.EhFrame

def srcs (outs : List Out) : List Fde :=
  outs.filterMap fun x => match x with
    | .fde _ _ _ s => some s
    | .cie .. => none

def keptSrc (o : Obj) (e : Entry) : Option Fde :=
  match e with
  | .fde f => if (sectionAddr o f).isSome then some f else none
  | .cie .. => none

theorem srcs_append (a b : List Out) : srcs (a ++ b) = srcs a ++ srcs b := by
  simp [srcs, List.filterMap_append]

/-! ## A generic invariant rule for the writer loop -/

theorem go_inv (o : Obj) (base : Nat) (Inv : St → Prop)
    (hstep : ∀ st e st', Inv st → step o base st e = some st' → Inv st') :
    ∀ (es : List Entry) (st st' : St), Inv st → go o base es st = some st' → Inv st' := by
  intro es
  induction es with
  | nil => intro st st' h hg; simp [go] at hg; rw [← hg]; exact h
  | cons e es ih =>
    intro st st' h hg
    simp only [go] at hg
    cases hs : step o base st e with
    | none => rw [hs] at hg; cases hg
    | some st1 => rw [hs] at hg; exact ih st1 st' (hstep st e st1 h hs) hg

def stCie (base : Nat) (st : St) (sz tag : Nat) : St :=
  { inPos := st.inPos + sz, outPos := st.outPos + sz, cmap := (st.inPos, st.outPos) :: st.cmap, cap := st.cap,
    outs := st.outs ++ [.cie (base + st.outPos) tag], hdr := st.hdr }

def stSkip (st : St) (f : Fde) : St :=
  { inPos := st.inPos + f.size, outPos := st.outPos, cmap := st.cmap, cap := st.cap, outs := st.outs, hdr := st.hdr }

def stFde (base : Nat) (st : St) (f : Fde) (sa cieOut : Nat) : St :=
  { inPos := st.inPos + f.size, outPos := st.outPos + f.size, cmap := st.cmap, cap := st.cap - 1,
    outs := st.outs ++ [.fde (base + st.outPos) (base + st.outPos + 4 - (st.outPos + 4 - cieOut)) (sa + f.off) f],
    hdr := if st.cap = 0 then st.hdr else st.hdr ++ [(sa + f.off, base + st.outPos)] }

/-- what one step does, case by case -/
theorem step_cases (o : Obj) (base : Nat) (st st' : St) (e : Entry) (h : step o base st e = some st') :
    (∃ sz tag, e = .cie sz tag ∧ st' = stCie base st sz tag) ∨
    (∃ f, e = .fde f ∧ sectionAddr o f = none ∧ st' = stSkip st f) ∨
    (∃ f sa cieOut, e = .fde f ∧ sectionAddr o f = some sa ∧ st.cmap.lookup f.ciePos = some cieOut ∧
      st' = stFde base st f sa cieOut) := by
  cases e with
  | cie size tag =>
    left
    simp only [step, Option.some.injEq] at h
    exact ⟨size, tag, rfl, h.symm⟩
  | fde f =>
    right
    simp only [step] at h
    cases hsa : sectionAddr o f with
    | none =>
      left
      rw [hsa] at h
      simp only [Option.some.injEq] at h
      exact ⟨f, rfl, hsa, h.symm⟩
    | some sa =>
      right
      rw [hsa] at h
      simp only at h
      cases hl : st.cmap.lookup f.ciePos with
      | none => rw [hl] at h; cases h
      | some cieOut =>
        rw [hl] at h
        simp only [Option.some.injEq] at h
        exact ⟨f, sa, cieOut, rfl, hsa, hl, h.symm⟩

/-! ## fde_kept_iff -/

theorem go_srcs (o : Obj) (base : Nat) : ∀ (es : List Entry) (st st' : St),
    go o base es st = some st' → srcs st'.outs = srcs st.outs ++ es.filterMap (keptSrc o) := by
  intro es
  induction es with
  | nil => intro st st' hg; simp [go] at hg; rw [← hg]; simp
  | cons e es ih =>
    intro st st' hg
    simp only [go] at hg
    cases hs : step o base st e with
    | none => rw [hs] at hg; cases hg
    | some st1 =>
      rw [hs] at hg
      rw [ih st1 st' hg]
      rcases step_cases o base st st1 e hs with ⟨size, tag, he, h1⟩ | ⟨f, he, hsa, h1⟩ | ⟨f, sa, c, he, hsa, _, h1⟩
      · subst he; subst h1; simp [stCie, srcs_append, srcs, keptSrc, List.filterMap_cons]
      · subst he; subst h1; simp [stSkip, keptSrc, hsa, List.filterMap_cons]
      · subst he; subst h1; simp [stFde, srcs_append, srcs, keptSrc, hsa, List.filterMap_cons]

/-- **C10 (`fde_kept_iff`).** The FDEs an object contributes to the output are exactly, and in
order, its input FDEs whose pc_begin section is retained and non-empty. -/
theorem fde_kept_list (o : Obj) (base : Nat) (st : St) (h : writeObj o base = some st) :
    srcs st.outs = o.entries.filterMap (keptSrc o) := by
  have := go_srcs o base o.entries _ st h
  simpa [srcs] using this

theorem fde_kept_iff (o : Obj) (base : Nat) (st : St) (h : writeObj o base = some st) (f : Fde) :
    f ∈ srcs st.outs ↔ (Entry.fde f ∈ o.entries ∧ ∃ a, sectionAddr o f = some a) := by
  rw [fde_kept_list o base st h, List.mem_filterMap]
  constructor
  · rintro ⟨e, he, hk⟩
    cases e with
    | cie s t => simp [keptSrc] at hk
    | fde g =>
      simp only [keptSrc] at hk
      split at hk
      · rename_i hs
        cases hk
        exact ⟨he, Option.isSome_iff_exists.1 hs⟩
      · cases hk
  · rintro ⟨he, a, ha⟩
    exact ⟨Entry.fde f, he, by simp [keptSrc, ha]⟩

/-! ## hdr_points_to_fde -/

/-- **C10 (`hdr_points_to_fde`)**, per object. -/
theorem hdr_points_to_fde_obj (o : Obj) (base : Nat) (st : St) (h : writeObj o base = some st) :
    ∀ p ∈ st.hdr, ∃ ca src, Out.fde p.2 ca p.1 src ∈ st.outs := by
  have hstep : ∀ st e st', (∀ p ∈ st.hdr, ∃ ca src, Out.fde p.2 ca p.1 src ∈ st.outs) → step o base st e = some st' →
      (∀ p ∈ st'.hdr, ∃ ca src, Out.fde p.2 ca p.1 src ∈ st'.outs) := by
    intro st e st' hinv hs
    rcases step_cases o base st st' e hs with ⟨size, tag, _, h1⟩ | ⟨f, _, _, h1⟩ | ⟨f, sa, c, _, _, _, h1⟩
    · subst h1
      intro p hp
      obtain ⟨ca, src, hm⟩ := hinv p hp
      exact ⟨ca, src, List.mem_append_left _ hm⟩
    · subst h1; exact hinv
    · subst h1
      intro p hp
      simp only [stFde] at hp ⊢
      split at hp
      · obtain ⟨ca, src, hm⟩ := hinv p hp
        exact ⟨ca, src, List.mem_append_left _ hm⟩
      · rcases List.mem_append.1 hp with hp | hp
        · obtain ⟨ca, src, hm⟩ := hinv p hp
          exact ⟨ca, src, List.mem_append_left _ hm⟩
        · simp only [List.mem_singleton] at hp
          subst hp
          exact ⟨base + st.outPos + 4 - (st.outPos + 4 - c), f, List.mem_append_right _ (List.mem_singleton.2 rfl)⟩
  exact go_inv o base (fun st => ∀ p ∈ st.hdr, ∃ ca src, Out.fde p.2 ca p.1 src ∈ st.outs) hstep o.entries _ st
    (by intro p hp; simp at hp) h

/-! ## hdr_count -/

def numFde (outs : List Out) : Nat := (srcs outs).length

theorem numFde_append_cie (outs : List Out) (a t : Nat) : numFde (outs ++ [.cie a t]) = numFde outs := by
  simp [numFde, srcs_append, srcs]

theorem numFde_append_fde (outs : List Out) (a c p : Nat) (s : Fde) :
    numFde (outs ++ [.fde a c p s]) = numFde outs + 1 := by
  simp [numFde, srcs_append, srcs]

theorem go_count (o : Obj) (base cap0 : Nat) (st : St) (h : go o base o.entries
    { inPos := 0, outPos := 0, cmap := [], cap := cap0, outs := [], hdr := [] } = some st) :
    st.hdr.length = min cap0 (numFde st.outs) ∧ st.cap = cap0 - numFde st.outs := by
  have hstep : ∀ st e st', (st.hdr.length = min cap0 (numFde st.outs) ∧ st.cap = cap0 - numFde st.outs) →
      step o base st e = some st' →
      (st'.hdr.length = min cap0 (numFde st'.outs) ∧ st'.cap = cap0 - numFde st'.outs) := by
    intro st e st' hinv hs
    obtain ⟨h1, h2⟩ := hinv
    rcases step_cases o base st st' e hs with ⟨size, tag, _, e1⟩ | ⟨f, _, _, e1⟩ | ⟨f, sa, c, _, _, _, e1⟩
    · subst e1; simp only [stCie, numFde_append_cie]; exact ⟨h1, h2⟩
    · subst e1; exact ⟨h1, h2⟩
    · subst e1
      simp only [stFde, numFde_append_fde]
      by_cases hc : st.cap = 0
      · simp only [hc, if_true]
        constructor <;> omega
      · simp only [hc, if_false, List.length_append, List.length_singleton]
        constructor <;> omega
  exact go_inv o base (fun st => st.hdr.length = min cap0 (numFde st.outs) ∧ st.cap = cap0 - numFde st.outs) hstep
    o.entries _ st (by simp [numFde, srcs]) h

/-- sum over sections of an indicator of equality -/
theorem sum_indicator (n : Nat) (p : Nat → Bool) (t : Nat) :
    ((List.range n).map fun s => if p s && (t == s) then 1 else 0).sum = if t < n ∧ p t = true then 1 else 0 := by
  induction n with
  | zero => simp
  | succ n ih =>
    rw [List.range_succ, List.map_append, List.sum_append, ih]
    by_cases htn : t = n
    · subst htn
      cases hp : p t <;> simp [hp]
    · have : (t == n) = false := by simp [htn]
      simp only [List.map_cons, List.map_nil, List.sum_cons, List.sum_nil, this, Bool.and_false]
      by_cases hlt : t < n
      · have : t < n + 1 := by omega
        simp [hlt, this]
      · have : ¬ t < n + 1 := by omega
        simp [hlt, this]

def loadedNonEmpty (o : Obj) (s : Nat) : Bool :=
  match o.secs[s]? with
  | some sec => sec.addr.isSome && sec.size != 0
  | none => false

theorem sectionAddr_isSome (o : Obj) (f : Fde) :
    (sectionAddr o f).isSome = match f.target with
      | none => false
      | some s => decide (s < o.secs.length) && loadedNonEmpty o s := by
  unfold sectionAddr loadedNonEmpty
  cases f.target with
  | none => rfl
  | some s =>
    simp only
    by_cases hs : s < o.secs.length
    · simp only [List.getElem?_eq_getElem hs, hs, decide_true, Bool.true_and]
      cases o.secs[s].addr <;> cases hz : (o.secs[s].size != 0) <;> simp [hz]
    · simp [List.getElem?_eq_none (Nat.le_of_not_lt hs), hs]

theorem sum_map_add (l : List Nat) (f g : Nat → Nat) :
    (l.map fun s => f s + g s).sum = (l.map f).sum + (l.map g).sum := by
  induction l with
  | nil => rfl
  | cons a t ih => simp only [List.map_cons, List.sum_cons, ih]; omega

theorem sum_map_zero (l : List Nat) (f : Nat → Nat) (h : ∀ s, f s = 0) : (l.map f).sum = 0 := by
  induction l with
  | nil => rfl
  | cons a t ih => simp only [List.map_cons, List.sum_cons, ih, h a]

/-- frames counted by layout for section `s` among the entries `es` -/
def framesOf (o : Obj) (es : List Entry) (s : Nat) : Nat :=
  match o.secs[s]? with
  | some sec =>
    if sec.addr.isSome && sec.size != 0 then
      es.countP fun e => match e with
        | .fde f => f.target == some s
        | .cie .. => false
    else 0
  | none => 0

def hit (o : Obj) (e : Entry) (s : Nat) : Nat :=
  if loadedNonEmpty o s && (match e with | .fde f => f.target == some s | .cie .. => false) then 1 else 0

theorem framesOf_cons (o : Obj) (e : Entry) (es : List Entry) (s : Nat) :
    framesOf o (e :: es) s = framesOf o es s + hit o e s := by
  unfold framesOf hit loadedNonEmpty
  cases o.secs[s]? with
  | none => simp
  | some sec =>
    simp only [List.countP_cons]
    by_cases hl : (sec.addr.isSome && sec.size != 0) = true
    · simp only [hl, if_true, Bool.true_and]
    · simp [hl]

theorem sum_hit (o : Obj) (e : Entry) :
    ((List.range o.secs.length).map (hit o e)).sum = ((keptSrc o e).toList).length := by
  cases e with
  | cie sz tag =>
    rw [sum_map_zero _ _ (by intro s; simp [hit])]
    simp [keptSrc]
  | fde f =>
    cases ht : f.target with
    | none =>
      rw [sum_map_zero _ _ (by intro s; simp [hit, ht])]
      have : (sectionAddr o f).isSome = false := by rw [sectionAddr_isSome, ht]
      simp [keptSrc, this]
    | some t =>
      have h1 : (List.range o.secs.length).map (hit o (.fde f)) =
          (List.range o.secs.length).map fun s => if loadedNonEmpty o s && (t == s) then 1 else 0 := by
        apply List.map_congr_left
        intro s _
        simp [hit, ht]
      rw [h1, sum_indicator]
      have h2 : (sectionAddr o f).isSome = (decide (t < o.secs.length) && loadedNonEmpty o t) := by
        rw [sectionAddr_isSome, ht]
      simp only [keptSrc, h2]
      by_cases hlt : t < o.secs.length <;> cases hp : loadedNonEmpty o t <;> simp [hlt, hp]

/-- **C10 (`layoutCount_eq`).** The frames layout counts (per loaded non-empty section, the FDEs
attached to it) are as many as the FDEs the writer keeps. -/
theorem layoutCount_eq (o : Obj) : layoutCount o = (o.entries.filterMap (keptSrc o)).length := by
  have hrw : ∀ (es : List Entry),
      ((List.range o.secs.length).map (framesOf o es)).sum = (es.filterMap (keptSrc o)).length := by
    intro es
    induction es with
    | nil =>
      rw [sum_map_zero]
      · rfl
      · intro s
        unfold framesOf
        split
        · split <;> simp
        · rfl
    | cons e es ih =>
      have : (List.range o.secs.length).map (framesOf o (e :: es)) =
          (List.range o.secs.length).map fun s => framesOf o es s + hit o e s := by
        apply List.map_congr_left
        intro s _
        exact framesOf_cons o e es s
      rw [this, sum_map_add, ih, sum_hit, List.filterMap_cons]
      cases keptSrc o e <;> simp
  exact hrw o.entries

/-- **C10 (`hdr_count`).** Per object, with the `.eh_frame_hdr` allocation that layout computed:
every output FDE got its table entry (none was dropped by `take_eh_frame_hdr_entry`) and every
allocated slot was written (no zero entry is left in the table). -/
theorem hdr_count (o : Obj) (base : Nat) (st : St) (h : writeObj o base = some st) :
    st.hdr.length = numFde st.outs ∧ st.hdr.length = layoutCount o ∧ st.cap = 0 := by
  have hc := go_count o base (layoutCount o) st h
  have hk : numFde st.outs = layoutCount o := by
    rw [layoutCount_eq, numFde, fde_kept_list o base st h]
  obtain ⟨h1, h2⟩ := hc
  rw [hk] at h1 h2
  refine ⟨?_, ?_, ?_⟩ <;> omega

/-! ## Whole link -/

theorem numFde_append (a b : List Out) : numFde (a ++ b) = numFde a + numFde b := by
  simp [numFde, srcs_append]

theorem writeAll_props : ∀ (objs : List Obj) (base : Nat) (r : Result), writeAll objs base = some r →
    r.hdr.length = numFde r.outs ∧ r.count = r.hdr.length ∧
    (∀ p ∈ r.hdr, ∃ ca src, Out.fde p.2 ca p.1 src ∈ r.outs) := by
  intro objs
  induction objs with
  | nil =>
    intro base r h
    simp only [writeAll, Option.some.injEq] at h
    subst h
    simp [numFde, srcs]
  | cons o os ih =>
    intro base r h
    simp only [writeAll] at h
    cases ho : writeObj o base with
    | none => rw [ho] at h; cases h
    | some st =>
      rw [ho] at h
      simp only at h
      cases hr : writeAll os (base + st.outPos) with
      | none => rw [hr] at h; cases h
      | some r' =>
        rw [hr] at h
        simp only [Option.some.injEq] at h
        subst h
        obtain ⟨i1, i2, i3⟩ := ih _ r' hr
        obtain ⟨c1, c2, _⟩ := hdr_count o base st ho
        refine ⟨?_, ?_, ?_⟩
        · simp only [List.length_append, numFde_append]; omega
        · simp only [List.length_append]; omega
        · intro p hp
          rcases List.mem_append.1 hp with hp | hp
          · obtain ⟨ca, src, hm⟩ := hdr_points_to_fde_obj o base st ho p hp
            exact ⟨ca, src, List.mem_append_left _ hm⟩
          · obtain ⟨ca, src, hm⟩ := i3 p hp
            exact ⟨ca, src, List.mem_append_right _ hm⟩

theorem link_some (objs : List Obj) (base : Nat) (r : Result) (h : link objs base = some r) :
    ∃ r0, writeAll objs base = some r0 ∧ r = { r0 with hdr := sortHdr r0.hdr } := by
  unfold link at h
  cases hw : writeAll objs base with
  | none => rw [hw] at h; cases h
  | some r0 => rw [hw] at h; simp only [Option.map_some, Option.some.injEq] at h; exact ⟨r0, rfl, h.symm⟩

/-- **C10 (`hdr_sorted`).** The search table is sorted by pc_begin. -/
theorem hdr_sorted (objs : List Obj) (base : Nat) (r : Result) (h : link objs base = some r) :
    r.hdr.Pairwise (fun a b => a.1 ≤ b.1) := by
  obtain ⟨r0, _, rfl⟩ := link_some objs base r h
  have := List.pairwise_mergeSort (le := fun (a b : Nat × Nat) => decide (a.1 ≤ b.1))
    (by intro a b c hab hbc; simp only [decide_eq_true_eq] at *; omega)
    (by intro a b; simp only [Bool.or_eq_true, decide_eq_true_eq]; omega) r0.hdr
  simp only [sortHdr]
  exact this.imp (by intro a b hab; simpa using hab)

/-- **C10 (`hdr_count`, whole link).** The header's entry count = number of table entries = number
of FDEs in the output `.eh_frame`. -/
theorem link_count (objs : List Obj) (base : Nat) (r : Result) (h : link objs base = some r) :
    r.count = r.hdr.length ∧ r.hdr.length = numFde r.outs := by
  obtain ⟨r0, hw, rfl⟩ := link_some objs base r h
  obtain ⟨p1, p2, _⟩ := writeAll_props objs base r0 hw
  have hl : (sortHdr r0.hdr).length = r0.hdr.length := (List.mergeSort_perm _ _).length_eq
  simp only [hl]
  omega

/-- **C10 (`hdr_points_to_fde`).** Each table entry's FDE address is the address of an output FDE
whose pc_begin equals the entry's pc. -/
theorem hdr_points_to_fde (objs : List Obj) (base : Nat) (r : Result) (h : link objs base = some r) :
    ∀ p ∈ r.hdr, ∃ ca src, Out.fde p.2 ca p.1 src ∈ r.outs := by
  obtain ⟨r0, hw, rfl⟩ := link_some objs base r h
  obtain ⟨_, _, p3⟩ := writeAll_props objs base r0 hw
  intro p hp
  exact p3 p ((List.mergeSort_perm _ _).mem_iff.1 hp)

/-! ## cie_pointer_ok -/

/-- tag of the CIE that starts at input offset `pos` (entries laid out from offset `cur`) -/
def cieAt : List Entry → Nat → Nat → Option Nat
  | [], _, _ => none
  | e :: es, cur, pos =>
    if cur = pos then (match e with | .cie _ tag => some tag | .fde _ => none)
    else cieAt es (cur + e.size) pos

def sizes (es : List Entry) : Nat := (es.map Entry.size).sum

theorem cieAt_append (rest : List Entry) (pos : Nat) : ∀ (pre : List Entry) (cur : Nat),
    (∀ e ∈ pre, 0 < e.size) → pos = cur + sizes pre → cieAt (pre ++ rest) cur pos = cieAt rest pos pos := by
  intro pre
  induction pre with
  | nil => intro cur _ h; simp [sizes] at h; subst h; rfl
  | cons p ps ih =>
    intro cur hpos h
    have hp : 0 < p.size := hpos p (by simp)
    simp only [sizes, List.map_cons, List.sum_cons] at h
    have hne : cur ≠ pos := by omega
    simp only [List.cons_append, cieAt, hne, if_false]
    exact ih (cur + p.size) (fun e he => hpos e (by simp [he])) (by simp only [sizes]; omega)

structure CieInv (o : Obj) (base : Nat) (st : St) : Prop where
  cmapOk : ∀ ip op, st.cmap.lookup ip = some op →
    op ≤ st.outPos ∧ ∃ tag, cieAt o.entries 0 ip = some tag ∧ Out.cie (base + op) tag ∈ st.outs
  fdeOk : ∀ a ca pc src, Out.fde a ca pc src ∈ st.outs →
    ∃ tag, cieAt o.entries 0 src.ciePos = some tag ∧ Out.cie ca tag ∈ st.outs

theorem go_cie (o : Obj) (base : Nat) (hpos : ∀ e ∈ o.entries, 0 < e.size) :
    ∀ (es pre : List Entry) (st st' : St), o.entries = pre ++ es → st.inPos = sizes pre →
      CieInv o base st → go o base es st = some st' → CieInv o base st' := by
  intro es
  induction es with
  | nil => intro pre st st' _ _ hinv hg; simp [go] at hg; rw [← hg]; exact hinv
  | cons e es ih =>
    intro pre st st' hsplit hin hinv hg
    simp only [go] at hg
    cases hs : step o base st e with
    | none => rw [hs] at hg; cases hg
    | some st1 =>
      rw [hs] at hg
      have hsplit' : o.entries = (pre ++ [e]) ++ es := by simp [hsplit]
      have hsz : ∀ x, sizes (pre ++ [x]) = sizes pre + x.size := by
        intro x; simp [sizes, List.sum_append]
      refine ih (pre ++ [e]) st1 st' hsplit' ?_ ?_ hg
      · rcases step_cases o base st st1 e hs with ⟨sz, tag, he, h1⟩ | ⟨f, he, _, h1⟩ | ⟨f, sa, c, he, _, _, h1⟩
        · subst he; subst h1; simp [stCie, hsz, hin, Entry.size]
        · subst he; subst h1; simp [stSkip, hsz, hin, Entry.size]
        · subst he; subst h1; simp [stFde, hsz, hin, Entry.size]
      · rcases step_cases o base st st1 e hs with ⟨sz, tag, he, h1⟩ | ⟨f, he, _, h1⟩ | ⟨f, sa, c, he, _, hl, h1⟩
        · subst he; subst h1
          have hpre : ∀ x ∈ pre, 0 < x.size := fun x hx => hpos x (by rw [hsplit]; simp [hx])
          have hat : cieAt o.entries 0 st.inPos = some tag := by
            rw [hsplit, cieAt_append _ _ pre 0 hpre (by omega)]
            simp [cieAt]
          constructor
          · intro ip op hlk
            simp only [stCie, List.lookup_cons] at hlk ⊢
            by_cases hip : (ip == st.inPos) = true
            · simp only [hip] at hlk
              cases hlk
              have : ip = st.inPos := by simpa using hip
              subst this
              exact ⟨by omega, tag, hat, List.mem_append_right _ (by simp)⟩
            · simp only [hip] at hlk
              obtain ⟨h1, t, h2, h3⟩ := hinv.cmapOk ip op hlk
              exact ⟨by omega, t, h2, List.mem_append_left _ h3⟩
          · intro a ca pc src hm
            simp only [stCie] at hm ⊢
            rcases List.mem_append.1 hm with hm | hm
            · obtain ⟨t, h2, h3⟩ := hinv.fdeOk a ca pc src hm
              exact ⟨t, h2, List.mem_append_left _ h3⟩
            · simp at hm
        · subst he; subst h1
          exact ⟨hinv.cmapOk, hinv.fdeOk⟩
        · subst he; subst h1
          obtain ⟨hle, t, ht, hmem⟩ := hinv.cmapOk f.ciePos c hl
          constructor
          · intro ip op hlk
            simp only [stFde] at hlk ⊢
            obtain ⟨h1, t', h2, h3⟩ := hinv.cmapOk ip op hlk
            exact ⟨by omega, t', h2, List.mem_append_left _ h3⟩
          · intro a ca pc src hm
            simp only [stFde] at hm ⊢
            rcases List.mem_append.1 hm with hm | hm
            · obtain ⟨t', h2, h3⟩ := hinv.fdeOk a ca pc src hm
              exact ⟨t', h2, List.mem_append_left _ h3⟩
            · simp only [List.mem_singleton, Out.fde.injEq] at hm
              obtain ⟨_, hca, _, hsrc⟩ := hm
              subst hsrc
              have : ca = base + c := by omega
              subst this
              exact ⟨t, ht, List.mem_append_left _ hmem⟩

/-- **C10 (`cie_pointer_ok`).** For every object whose entries have positive size: each output FDE's
rewritten CIE pointer designates an output CIE entry that is the copy (same bytes tag) of the CIE
that the FDE's input CIE pointer designated. -/
theorem cie_pointer_ok (o : Obj) (base : Nat) (st : St) (hpos : ∀ e ∈ o.entries, 0 < e.size)
    (h : writeObj o base = some st) :
    ∀ a ca pc src, Out.fde a ca pc src ∈ st.outs →
      ∃ tag, cieAt o.entries 0 src.ciePos = some tag ∧ Out.cie ca tag ∈ st.outs := by
  have := go_cie o base hpos o.entries [] _ st (by simp) (by simp [sizes])
    ⟨by intro ip op hl; simp at hl, by intro a ca pc src hm; simp at hm⟩ h
  exact this.fdeOk

/-! ## Non-vacuity -/

def exObj : Obj :=
  { entries := [.cie 24 7, .fde ⟨32, 0, some 1, 0⟩, .fde ⟨32, 0, some 2, 0⟩, .cie 28 9, .fde ⟨40, 88, some 3, 16⟩,
                .fde ⟨24, 88, some 4, 0⟩, .fde ⟨24, 0, none, 0⟩],
    secs := [⟨none, 0⟩, ⟨some 0x401000, 16⟩, ⟨none, 16⟩, ⟨some 0x400800, 64⟩, ⟨some 0x400900, 0⟩] }

example : (writeAll [exObj, exObj] 0x500000).map (fun r => (r.hdr, r.count)) =
    some ([(4198400, 5242904), (4196368, 5242964), (4198400, 5243028), (4196368, 5243088)], 4) := by decide

/-! ## Objects with several `.eh_frame` input sections

`goSections` (Model) is the writer as the code has it: one pass per section. The tie sends the
concatenated entry list (`concatSections`); `goSections_eq_concat` shows both give the same output
bytes (addresses, rewritten CIE pointers, pc), the same table entries, output size and allocation. -/

/-- what an observer of the output sees of a writer state -/
def Out.bytes : Out → Bool × Nat × Nat × Nat
  | .cie a t => (false, a, t, 0)
  | .fde a c p _ => (true, a, c, p)

def St.view (st : St) : Nat × Nat × List (Bool × Nat × Nat × Nat) × List (Nat × Nat) :=
  (st.outPos, st.cap, st.outs.map Out.bytes, st.hdr)

def shiftMap (I P : Nat) (m : List (Nat × Nat)) : List (Nat × Nat) := m.map fun kv => (I + kv.1, P + kv.2)

/-- the concatenated pass `sc` simulates the per-section pass `ss` of a section that starts at input
offset `I` / output offset `P`; `old` = CIEs of earlier sections -/
structure Sim (I P : Nat) (old : List (Nat × Nat)) (sc ss : St) : Prop where
  inPos : sc.inPos = I + ss.inPos
  outPos : sc.outPos = P + ss.outPos
  cmap : sc.cmap = shiftMap I P ss.cmap ++ old
  cap : sc.cap = ss.cap
  outs : sc.outs.map Out.bytes = ss.outs.map Out.bytes
  hdr : sc.hdr = ss.hdr

theorem lookup_shift (I P : Nat) (old : List (Nat × Nat)) (hold : ∀ kv ∈ old, kv.1 < I) (q : Nat) :
    ∀ (m : List (Nat × Nat)), (shiftMap I P m ++ old).lookup (I + q) = (m.lookup q).map (P + ·) := by
  intro m
  induction m with
  | nil =>
    simp only [shiftMap, List.map_nil, List.nil_append, List.lookup_nil, Option.map_none]
    induction old with
    | nil => rfl
    | cons kv old ih =>
      have h1 : kv.1 < I := hold kv (by simp)
      have hne : (I + q == kv.1) = false := by
        simp only [beq_eq_false_iff_ne, ne_eq]; omega
      obtain ⟨k, v⟩ := kv
      simp only [List.lookup_cons, hne] at *
      exact ih (fun kv h => hold kv (by simp [h]))
  | cons kv m ih =>
    obtain ⟨k, v⟩ := kv
    simp only [shiftMap, List.map_cons, List.cons_append, List.lookup_cons] at *
    by_cases h : q = k
    · subst h; simp
    · have h1 : (I + q == I + k) = false := by simp only [beq_eq_false_iff_ne, ne_eq]; omega
      have h2 : (q == k) = false := by simp only [beq_eq_false_iff_ne, ne_eq]; exact h
      rw [h1, h2]; exact ih

theorem step_sim (o : Obj) (base I P : Nat) (old : List (Nat × Nat)) (hold : ∀ kv ∈ old, kv.1 < I)
    (sc ss : St) (e : Entry) (h : Sim I P old sc ss) :
    match step o base sc (e.shift I), step o (base + P) ss e with
    | none, none => True
    | some sc', some ss' => Sim I P old sc' ss'
    | _, _ => False := by
  obtain ⟨h1, h2, h3, h4, h5, h6⟩ := h
  cases e with
  | cie size tag =>
    simp only [Entry.shift, step]
    refine ⟨by simp only [h1]; omega, by simp only [h2]; omega, ?_, h4, ?_, h6⟩
    · simp only [h3, h1, h2, shiftMap, List.map_cons, List.cons_append]
    · simp only [List.map_append, h5, List.map_cons, List.map_nil, Out.bytes, h2, Nat.add_assoc]
  | fde f =>
    simp only [Entry.shift, step]
    have hsa : sectionAddr o { f with ciePos := I + f.ciePos } = sectionAddr o f := by
      simp [sectionAddr]
    rw [hsa]
    cases sectionAddr o f with
    | none =>
      simp only
      exact ⟨by simp only [h1]; omega, h2, h3, h4, h5, h6⟩
    | some sa =>
      simp only
      rw [h3, lookup_shift I P old hold f.ciePos ss.cmap]
      cases ss.cmap.lookup f.ciePos with
      | none => simp
      | some c =>
        simp only [Option.map_some]
        have e1 : base + sc.outPos = base + P + ss.outPos := by rw [h2]; omega
        have e2 : base + P + ss.outPos + 4 - (sc.outPos + 4 - (P + c)) = base + P + ss.outPos + 4 - (ss.outPos + 4 - c) := by
          rw [h2]; omega
        refine ⟨by simp only [h1]; omega, by simp only [h2]; omega, by simp, by simp only [h4], ?_, ?_⟩
        · simp only [List.map_append, h5, List.map_cons, List.map_nil, Out.bytes, e1, e2]
        · simp only [h4, h6, e1]

theorem go_sim (o : Obj) (base I P : Nat) (old : List (Nat × Nat)) (hold : ∀ kv ∈ old, kv.1 < I) :
    ∀ (es : List Entry) (sc ss : St), Sim I P old sc ss →
    match go o base (es.map (Entry.shift I)) sc, go o (base + P) es ss with
    | none, none => True
    | some sc', some ss' => Sim I P old sc' ss'
    | _, _ => False := by
  intro es
  induction es with
  | nil => intro sc ss h; simpa [go] using h
  | cons e es ih =>
    intro sc ss h
    have hs := step_sim o base I P old hold sc ss e h
    simp only [List.map_cons, go]
    cases h1 : step o base sc (e.shift I) with
    | none =>
      cases h2 : step o (base + P) ss e with
      | none => simp
      | some b => rw [h1, h2] at hs; exact hs.elim
    | some a =>
      cases h2 : step o (base + P) ss e with
      | none => rw [h1, h2] at hs; exact hs.elim
      | some b =>
        rw [h1, h2] at hs
        exact ih a b hs

theorem go_append (o : Obj) (base : Nat) : ∀ (a b : List Entry) (st : St),
    go o base (a ++ b) st = (go o base a st).bind (go o base b) := by
  intro a
  induction a with
  | nil => intro b st; simp [go]
  | cons e a ih =>
    intro b st
    simp only [List.cons_append, go]
    cases step o base st e with
    | none => simp
    | some st1 => simpa using ih b st1

theorem shift_size (I : Nat) (e : Entry) : (e.shift I).size = e.size := by
  cases e <;> rfl

theorem sizeSum_shift (I : Nat) (es : List Entry) : sizeSum (es.map (Entry.shift I)) = sizeSum es := by
  simp [sizeSum, List.map_map, Function.comp_def, shift_size]

/-- CIE keys stay below the input position (entries have positive size), and the input position
advances by the sizes. -/
theorem go_keys (o : Obj) (base : Nat) : ∀ (es : List Entry) (st st' : St),
    (∀ e ∈ es, 0 < e.size) → (∀ kv ∈ st.cmap, kv.1 < st.inPos) → go o base es st = some st' →
    (∀ kv ∈ st'.cmap, kv.1 < st'.inPos) ∧ st'.inPos = st.inPos + sizeSum es := by
  intro es
  induction es with
  | nil => intro st st' _ hk hg; simp [go] at hg; subst hg; exact ⟨hk, by simp [sizeSum]⟩
  | cons e es ih =>
    intro st st' hpos hk hg
    simp only [go] at hg
    cases hs : step o base st e with
    | none => rw [hs] at hg; cases hg
    | some st1 =>
      rw [hs] at hg
      have hpe : 0 < e.size := hpos e (by simp)
      have hk1 : (∀ kv ∈ st1.cmap, kv.1 < st1.inPos) ∧ st1.inPos = st.inPos + e.size := by
        rcases step_cases o base st st1 e hs with ⟨sz, tag, he, h1⟩ | ⟨f, he, _, h1⟩ | ⟨f, sa, c, he, _, _, h1⟩
        · subst he; subst h1
          simp only [Entry.size] at hpe
          refine ⟨?_, by simp [stCie, Entry.size]⟩
          intro kv hkv
          simp only [stCie, List.mem_cons] at hkv ⊢
          rcases hkv with h | h
          · subst h; simp only; omega
          · have := hk kv h; omega
        · subst he; subst h1
          refine ⟨?_, by simp [stSkip, Entry.size]⟩
          intro kv hkv
          have := hk kv (by simpa [stSkip] using hkv)
          simp only [stSkip]; omega
        · subst he; subst h1
          refine ⟨?_, by simp [stFde, Entry.size]⟩
          intro kv hkv
          have := hk kv (by simpa [stFde] using hkv)
          simp only [stFde]; omega
      obtain ⟨r1, r2⟩ := ih st1 st' (fun e h => hpos e (by simp [h])) hk1.1 hg
      refine ⟨r1, ?_⟩
      rw [r2, hk1.2]; simp [sizeSum]; omega

/-- **Several `.eh_frame` input sections per object.** The writer as the code has it (one pass per
section, fresh `input_pos` and CIE map, `eh_frame_start_address` advanced) produces the same output
bytes, table entries, output size and remaining allocation as ONE pass over the concatenated entry
list with section-relative CIE references moved by the section's start offset — which is what the
tie sends to the model. Hypothesis: entries have positive size. -/
theorem goSections_eq_concat (o : Obj) (base : Nat) : ∀ (secs : List (List Entry)) (sc ss : St),
    (∀ es ∈ secs, ∀ e ∈ es, 0 < e.size) → (∀ kv ∈ sc.cmap, kv.1 < sc.inPos) →
    sc.outPos = ss.outPos → sc.cap = ss.cap → sc.outs.map Out.bytes = ss.outs.map Out.bytes → sc.hdr = ss.hdr →
    (goSections o base secs ss).map St.view = (go o base (concatSections secs sc.inPos) sc).map St.view := by
  intro secs
  induction secs with
  | nil =>
    intro sc ss _ _ h1 h2 h3 h4
    simp [goSections, concatSections, go, St.view, h1, h2, h3, h4]
  | cons es rest ih =>
    intro sc ss hpos hk h1 h2 h3 h4
    simp only [goSections, concatSections, go_append]
    have hsim : Sim sc.inPos sc.outPos sc.cmap sc { ss with inPos := 0, outPos := 0, cmap := [] } :=
      ⟨by simp, by simp, by simp [shiftMap], by simpa using h2, by simpa using h3, by simpa using h4⟩
    have hg := go_sim o base sc.inPos sc.outPos sc.cmap hk es sc _ hsim
    rw [← h1]
    cases hc : go o base (es.map (Entry.shift sc.inPos)) sc with
    | none =>
      cases hp : go o (base + sc.outPos) es { ss with inPos := 0, outPos := 0, cmap := [] } with
      | none => simp
      | some b => rw [hc, hp] at hg; exact hg.elim
    | some sc' =>
      cases hp : go o (base + sc.outPos) es { ss with inPos := 0, outPos := 0, cmap := [] } with
      | none => rw [hc, hp] at hg; exact hg.elim
      | some ss' =>
        rw [hc, hp] at hg
        obtain ⟨g1, g2, g3, g4, g5, g6⟩ := hg
        have hkeys := go_keys o base (es.map (Entry.shift sc.inPos)) sc sc'
          (by intro e he; simp only [List.mem_map] at he; obtain ⟨e0, h0, rfl⟩ := he; rw [shift_size]; exact hpos es (by simp) e0 h0)
          hk hc
        rw [sizeSum_shift] at hkeys
        simp only [Option.bind_some]
        rw [← hkeys.2]
        exact ih sc' { ss' with outPos := sc.outPos + ss'.outPos } (fun es' h => hpos es' (by simp [h])) hkeys.1
          (by simpa using g2) (by simpa using g4) (by simpa using g5) (by simpa using g6)

example : goSections exObj 0x500000 [exObj.entries, exObj.entries] { inPos := 0, outPos := 0, cmap := [], cap := 4, outs := [], hdr := [] } ≠ none := by
  decide


/-- the per-section writer on a whole object -/
def writeObjSections (o : Obj) (secs : List (List Entry)) (base : Nat) : Option St :=
  goSections o base secs { inPos := 0, outPos := 0, cmap := [], cap := layoutCount o, outs := [], hdr := [] }

/-- `writeObj` on the concatenated entry list (what the model is asked) = the per-section writer. -/
theorem writeObjSections_eq (o : Obj) (secs : List (List Entry)) (base : Nat)
    (hent : o.entries = concatSections secs 0) (hpos : ∀ es ∈ secs, ∀ e ∈ es, 0 < e.size) :
    (writeObjSections o secs base).map St.view = (writeObj o base).map St.view := by
  unfold writeObjSections writeObj
  rw [hent]
  exact goSections_eq_concat o base secs _ _ hpos (by simp) rfl rfl rfl rfl

end Wild.EhFrame
