import WildModel.Model.Thunks
import WildModel.Props.C13Spec
import Std.Tactic.BVDecide
/-!
# C11 — AArch64 long branches reach their intended target

Setting.  Objects with post-GC primary-text ranges `objs` (increasing: `Chain lo objs`), the
assignment `out = (assignThunkBlocksProposed R objs).1` (one `(object, ⟨block, owner, pos⟩)` per object),
thunk bytes per block `T : block ↦ bytes`.

**Final layout** (what `finalise_layout` produces): the thunks of a block are appended after the
owner's own sections, so the pre-thunk offset `x` of the primary part lands at
`pad + x + S x` where `S x` = total bytes of the thunk blocks positioned at or before `x`
(`final`), the `k`-th byte of the block positioned at `p` lands at `pad + p + Sm p + k` where `Sm p`
= bytes of the blocks positioned strictly before `p` (`thunkFinal`).  `pad` is the padding between
the non-primary executable code `[0, n + pad)` and the primary part; all addresses are relative to
the start of the executable code.  Every layout consistent with the sizes has this form.

Two automata are treated: `assignThunkBlocks` mirrors the code AS IT IS; `assignThunkBlocksProposed`
is the automaton of the proposed patch (scratch/c11/c11-thunk-block-placement-proposal.diff, not
in the tree).

Code as it is:
* `C11_blocks_cover_full` is FALSE: `C11_blocks_cover_full_witness` (known finding
  `thunk-block-placed-out-of-range`);
* `blocks_cover_partial`: if every object ends at most `W ≤ R` after the previous one, objects are
  within `R` of their block, except that an object before its block may start up to `R + W` before it.
Automaton-independent (any block positions at least `R` apart), for arbitrary `R > 0`, `M`:
* `skip_is_safe`, `skip_is_safe_nonprimary` — `provably_in_range` ⇒ direct distance `< R + M`;
* `thunk_reaches_layout`, `nonprimary_thunk_reaches` — reach of a block's thunks from covered bytes;
* `thunk_computes_target`, `thunk_words_shape`, `adrpReach_of_close` — the ADRP/ADD/BR body.
Proposed automaton (full strength under the documented assumptions):
* `blocks_cover_proposed`, `owner_pos_proposed`, `block_has_owner_proposed`, `blocks_spaced_proposed`;
* `thunk_reaches_proposed`, `branch_reaches_target_proposed`, `no_out_of_range_error_proposed`.
Hypotheses (documented assumptions of thunks.rs, made explicit): `pad + T b ≤ M` for every block,
objects no larger than `R`, `n + size(first object) ≤ R`.  Without them the statement is false even
for the proposed automaton: `C11_full_witness`.
-/
namespace Wild.C11
open Wild.Thunks Wild.Insn Wild.InsnSpec

/-! ## Part A — the block-assignment automaton -/

/-- Objects in increasing address order, starting at or after `lo`. -/
def Chain : Nat → List Obj → Prop
  | _, [] => True
  | lo, o :: rest => lo ≤ o.start ∧ o.start ≤ o.stop ∧ Chain o.stop rest

/-- The object lies within `R` of the position of its block: an owner ends exactly at the block;
any other object is either after the block and ends less than `R` after it, or before the block
and starts less than `R` before it. -/
def Cover (R : Nat) (o : Obj) (a : Asg) : Prop :=
  (a.owner = true ∧ a.pos = o.stop) ∨
  (a.owner = false ∧ ((a.pos ≤ o.start ∧ o.stop < a.pos + R) ∨ (o.stop ≤ a.pos ∧ a.pos < o.start + R)))

/-- Invariant of the automaton state w.r.t. the lower bound `lo` of the remaining objects. -/
def ModeInv (R lo : Nat) : Mode → Prop
  | .prev _ pos => pos ≤ lo
  | .pend _ fs bef last =>
      last.stop ≤ lo ∧ last.start ≤ last.stop ∧ fs ≤ last.start ∧
      (∀ m ∈ bef, fs ≤ m.start ∧ m.start ≤ m.stop ∧ m.stop ≤ last.start) ∧
      (bef ≠ [] → last.stop < fs + R) ∧
      bef.Pairwise (fun a b => a.stop ≤ b.start)

theorem cover_emitPlaced {R id fs : Nat} {bef : List Obj} {last : Obj} {lo : Nat}
    (h : ModeInv R lo (.pend id fs bef last)) :
    ∀ p ∈ emitPlaced id bef last, Cover R p.1 p.2 := by
  obtain ⟨_, h2, h3, h4, h5, _⟩ := h
  intro p hp
  simp only [emitPlaced, List.mem_append, List.mem_map, List.mem_singleton] at hp
  rcases hp with ⟨m, hm, rfl⟩ | rfl
  · have := h4 m hm
    have h5' := h5 (List.ne_nil_of_mem hm)
    right; refine ⟨rfl, Or.inr ⟨?_, ?_⟩⟩ <;> simp only <;> omega
  · left; exact ⟨rfl, rfl⟩

theorem cover_emitEnd {R id fs : Nat} {bef : List Obj} {last : Obj} {lo : Nat}
    (h : ModeInv R lo (.pend id fs bef last)) :
    ∀ p ∈ emitEnd id bef last, Cover R p.1 p.2 := by
  obtain ⟨_, h2, h3, h4, h5, h6⟩ := h
  intro p hp
  cases bef with
  | nil =>
    simp only [emitEnd, List.mem_singleton] at hp
    subst hp; left; exact ⟨rfl, rfl⟩
  | cons f bs =>
    simp only [emitEnd, List.mem_cons, List.mem_map, List.mem_append, List.not_mem_nil, or_false] at hp
    have hf := h4 f (List.mem_cons_self ..)
    have h5' := h5 (by simp)
    rcases hp with rfl | ⟨m, hm, rfl⟩
    · left; exact ⟨rfl, rfl⟩
    · right; refine ⟨rfl, Or.inl ?_⟩
      simp only
      rcases hm with hm | rfl
      · have := h4 m (List.mem_cons_of_mem _ hm)
        have := (List.pairwise_cons.mp h6).1 m hm
        omega
      · omega

theorem modeInv_join {R lo id fs : Nat} {bef : List Obj} {last o : Obj}
    (h : ModeInv R lo (.pend id fs bef last)) (h1 : lo ≤ o.start) (h2 : o.start ≤ o.stop)
    (hR : o.stop - fs < R) : ModeInv R o.stop (.pend id fs (bef ++ [last]) o) := by
  obtain ⟨g1, g2, g3, g4, g5, g6⟩ := h
  refine ⟨Nat.le_refl _, h2, by omega, ?_, fun _ => by omega, ?_⟩
  · intro m hm
    rcases List.mem_append.mp hm with hm | hm
    · have := g4 m hm; omega
    · simp only [List.mem_singleton] at hm; subst hm; omega
  · rw [List.pairwise_append]
    refine ⟨g6, List.pairwise_singleton _ _, ?_⟩
    intro a ha b hb
    simp only [List.mem_singleton] at hb; subst hb
    exact (g4 a ha).2.2

theorem modeInv_fresh {R : Nat} (nb : Nat) (o : Obj) (h2 : o.start ≤ o.stop) :
    ModeInv R o.stop (.pend nb o.start [] o) :=
  ⟨Nat.le_refl _, h2, Nat.le_refl _, by simp, by simp, List.Pairwise.nil⟩

/-- `blocks_cover_proposed` for the loop. -/
theorem run_cover (R : Nat) : ∀ (objs : List Obj) (nb : Nat) (mode : Mode) (lo : Nat),
    Chain lo objs → ModeInv R lo mode → ∀ p ∈ (runProposed R nb mode objs).1, Cover R p.1 p.2 := by
  intro objs
  induction objs with
  | nil =>
    intro nb mode lo _ hm p hp
    cases mode with
    | prev id pos => simp [runProposed] at hp
    | pend id fs bef last => exact cover_emitEnd hm p (by simpa [runProposed] using hp)
  | cons o rest ih =>
    intro nb mode lo hc hm p hp
    obtain ⟨c1, c2, c3⟩ := hc
    cases mode with
    | prev id pos =>
      simp only [runProposed] at hp
      simp only [ModeInv] at hm
      split at hp
      · exact ih _ _ _ c3 (modeInv_fresh nb o c2) p hp
      · rename_i hlt
        simp only [List.mem_cons] at hp
        rcases hp with rfl | hp
        · right; refine ⟨rfl, Or.inl ⟨by simp only; omega, by simp only; omega⟩⟩
        · exact ih nb (.prev id pos) o.stop c3 (by simp only [ModeInv]; omega) p hp
    | pend id fs bef last =>
      simp only [runProposed] at hp
      split at hp
      · rename_i hlt
        exact ih _ _ _ c3 (modeInv_join hm c1 c2 hlt) p hp
      · have hm' := hm
        obtain ⟨g1, g2, g3, g4, g5, g6⟩ := hm
        split at hp
        · simp only [List.mem_append] at hp
          rcases hp with hp | hp
          · exact cover_emitPlaced hm' p hp
          · exact ih _ _ _ c3 (modeInv_fresh nb o c2) p hp
        · rename_i hlt
          simp only [List.mem_append, List.mem_cons] at hp
          rcases hp with hp | rfl | hp
          · exact cover_emitPlaced hm' p hp
          · right; refine ⟨rfl, Or.inl ⟨by simp only; omega, by simp only; omega⟩⟩
          · exact ih nb (.prev id last.stop) o.stop c3 (by simp only [ModeInv]; omega) p hp

/-- **blocks_cover_proposed**: every object is within `branch_range` of the position of its block. -/
theorem blocks_cover_proposed (R lo : Nat) (objs : List Obj) (hc : Chain lo objs) :
    ∀ p ∈ (assignThunkBlocksProposed R objs).1, Cover R p.1 p.2 := by
  cases objs with
  | nil => simp [assignThunkBlocksProposed]
  | cons o rest =>
    obtain ⟨_, c2, c3⟩ := hc
    intro p hp
    simp only [assignThunkBlocksProposed, List.mem_cons] at hp
    rcases hp with rfl | hp
    · left; exact ⟨rfl, rfl⟩
    · exact run_cover R rest 1 (.prev 0 o.stop) o.stop c3 (Nat.le_refl _) p hp

/-- **owner_pos_proposed**: the position of a block is the `end` of its owner (where its thunks are put). -/
theorem owner_pos_proposed (R lo : Nat) (objs : List Obj) (hc : Chain lo objs) :
    ∀ p ∈ (assignThunkBlocksProposed R objs).1, p.2.owner = true → p.2.pos = p.1.stop := by
  intro p hp ho
  rcases blocks_cover_proposed R lo objs hc p hp with h | h
  · exact h.2
  · rw [h.1] at ho; cases ho

/-! ### Owners: every block has one, ids increase, positions are at least `R` apart -/

/-- The owner entries of an assignment, in order. -/
def owners (l : List (Obj × Asg)) : List Asg := (l.map (·.2)).filter (·.owner)

/-- Block ids strictly increase from `idLo`, positions increase by at least `R` from `posLo`. -/
def OwnersFrom (R : Nat) : Nat → Nat → List Asg → Prop
  | _, _, [] => True
  | idLo, posLo, a :: rest => idLo ≤ a.block ∧ posLo ≤ a.pos ∧ OwnersFrom R (a.block + 1) (a.pos + R) rest

theorem OwnersFrom.mono {R : Nat} : ∀ {l : List Asg} {i i' p p' : Nat}, i' ≤ i → p' ≤ p →
    OwnersFrom R i p l → OwnersFrom R i' p' l
  | [], _, _, _, _, _, _, _ => trivial
  | _ :: _, _, _, _, _, hi, hp, ⟨h1, h2, h3⟩ => ⟨Nat.le_trans hi h1, Nat.le_trans hp h2, h3⟩

@[simp] theorem owners_nil : owners [] = [] := rfl
theorem owners_append (a b : List (Obj × Asg)) : owners (a ++ b) = owners a ++ owners b := by
  simp [owners]
theorem owners_cons_false (o : Obj) (id pos : Nat) (l : List (Obj × Asg)) :
    owners ((o, ⟨id, false, pos⟩) :: l) = owners l := by simp [owners]
theorem owners_cons_true (o : Obj) (id pos : Nat) (l : List (Obj × Asg)) :
    owners ((o, ⟨id, true, pos⟩) :: l) = ⟨id, true, pos⟩ :: owners l := by simp [owners]
theorem owners_map_false (id pos : Nat) (l : List Obj) :
    owners (l.map (fun m => (m, (⟨id, false, pos⟩ : Asg)))) = [] := by
  induction l with
  | nil => rfl
  | cons a t ih => simp only [List.map_cons, owners_cons_false]; exact ih

theorem owners_emitPlaced (id : Nat) (bef : List Obj) (last : Obj) :
    owners (emitPlaced id bef last) = [⟨id, true, last.stop⟩] := by
  simp only [emitPlaced, owners_append, owners_map_false, List.nil_append, owners_cons_true, owners_nil]

/-- The first object of a pending group. -/
def firstOf (bef : List Obj) (last : Obj) : Obj := bef.head?.getD last

theorem owners_emitEnd (id : Nat) (bef : List Obj) (last : Obj) :
    owners (emitEnd id bef last) = [⟨id, true, (firstOf bef last).stop⟩] := by
  cases bef with
  | nil => simp [emitEnd, owners_cons_true, firstOf]
  | cons f bs => simp only [emitEnd, owners_cons_true, owners_map_false, firstOf, List.head?_cons, Option.getD_some]

theorem firstOf_join (bef : List Obj) (last o : Obj) : firstOf (bef ++ [last]) o = firstOf bef last := by
  cases bef <;> simp [firstOf]

theorem firstOf_stop_le {R lo id fs : Nat} {bef : List Obj} {last : Obj}
    (h : ModeInv R lo (.pend id fs bef last)) : (firstOf bef last).stop ≤ last.stop := by
  obtain ⟨_, g2, _, g4, _, _⟩ := h
  cases bef with
  | nil => simp [firstOf]
  | cons f bs =>
    have := g4 f (List.mem_cons_self ..)
    simp only [firstOf, List.head?_cons, Option.getD_some]; omega

/-- Lower bounds for the owners still to be emitted from a state. -/
def idBound (nb : Nat) : Mode → Nat
  | .prev _ _ => nb
  | .pend id _ _ _ => id
def posBound (R : Nat) : Mode → Nat
  | .prev _ pos => pos + R
  | .pend _ _ bef last => (firstOf bef last).stop
def idInv (nb : Nat) : Mode → Prop
  | .prev _ _ => True
  | .pend id _ _ _ => id < nb

theorem run_owners (R : Nat) : ∀ (objs : List Obj) (nb : Nat) (mode : Mode) (lo : Nat),
    Chain lo objs → ModeInv R lo mode → idInv nb mode →
    OwnersFrom R (idBound nb mode) (posBound R mode) (owners (runProposed R nb mode objs).1) := by
  intro objs
  induction objs with
  | nil =>
    intro nb mode lo _ hm hi
    cases mode with
    | prev id pos => simp [runProposed, OwnersFrom]
    | pend id fs bef last =>
      simp only [runProposed, owners_emitEnd, OwnersFrom, idBound, posBound]
      exact ⟨Nat.le_refl _, Nat.le_refl _, trivial⟩
  | cons o rest ih =>
    intro nb mode lo hc hm hi
    obtain ⟨c1, c2, c3⟩ := hc
    cases mode with
    | prev id pos =>
      simp only [runProposed]
      simp only [ModeInv] at hm
      split
      · rename_i hge
        have := ih (nb + 1) (.pend nb o.start [] o) o.stop c3 (modeInv_fresh nb o c2) (by simp [idInv])
        refine OwnersFrom.mono (Nat.le_refl _) ?_ this
        simp only [posBound, firstOf, List.head?_nil, Option.getD_none]; omega
      · simp only [owners_cons_false]
        exact ih nb (.prev id pos) o.stop c3 (by simp only [ModeInv]; omega) trivial
    | pend id fs bef last =>
      simp only [runProposed]
      split
      · rename_i hlt
        have := ih nb (.pend id fs (bef ++ [last]) o) o.stop c3 (modeInv_join hm c1 c2 hlt) hi
        simpa only [idBound, posBound, firstOf_join] using this
      · have hfl := firstOf_stop_le hm
        obtain ⟨g1, g2, g3, g4, g5, g6⟩ := hm
        simp only [idInv] at hi
        split
        · rename_i hge
          simp only [owners_append, owners_emitPlaced, List.singleton_append, OwnersFrom, idBound, posBound]
          refine ⟨Nat.le_refl _, hfl, ?_⟩
          have := ih (nb + 1) (.pend nb o.start [] o) o.stop c3 (modeInv_fresh nb o c2) (by simp [idInv])
          refine OwnersFrom.mono ?_ ?_ this
          · simp only [idBound]; omega
          · simp only [posBound, firstOf, List.head?_nil, Option.getD_none]; omega
        · simp only [owners_append, owners_emitPlaced, List.singleton_append, owners_cons_false, OwnersFrom, idBound, posBound]
          refine ⟨Nat.le_refl _, hfl, ?_⟩
          have := ih nb (.prev id last.stop) o.stop c3 (by simp only [ModeInv]; omega) trivial
          refine OwnersFrom.mono ?_ (Nat.le_refl _) this
          simp only [idBound]; omega

/-- **blocks_spaced_proposed**: block ids of successive owners strictly increase (so a block id names one
owner) and successive block positions are at least `R` apart. -/
theorem blocks_spaced_proposed (R lo : Nat) (objs : List Obj) (hc : Chain lo objs) :
    OwnersFrom R 0 0 (owners (assignThunkBlocksProposed R objs).1) := by
  cases objs with
  | nil => simp [assignThunkBlocksProposed, OwnersFrom]
  | cons o rest =>
    obtain ⟨_, c2, c3⟩ := hc
    simp only [assignThunkBlocksProposed, owners_cons_true, OwnersFrom]
    refine ⟨Nat.le_refl _, Nat.zero_le _, ?_⟩
    have := run_owners R rest 1 (.prev 0 o.stop) o.stop c3 (Nat.le_refl _) trivial
    exact OwnersFrom.mono (by simp [idBound]) (Nat.le_refl _) this

/-- The block an entry names has an owner entry with the same id and position — or is the block of
the current "previous" mode (whose owner was emitted earlier). -/
def HasOwner (l : List (Obj × Asg)) (a : Asg) : Prop :=
  ∃ q ∈ l, q.2.owner = true ∧ q.2.block = a.block ∧ q.2.pos = a.pos

theorem HasOwner.mono {l l' : List (Obj × Asg)} {a : Asg} (h : ∀ q ∈ l, q ∈ l') : HasOwner l a → HasOwner l' a
  | ⟨q, hq, r⟩ => ⟨q, h q hq, r⟩

theorem hasOwner_emitPlaced (id : Nat) (bef : List Obj) (last : Obj) :
    ∀ p ∈ emitPlaced id bef last, HasOwner (emitPlaced id bef last) p.2 := by
  intro p hp
  refine ⟨(last, ⟨id, true, last.stop⟩), by simp [emitPlaced], rfl, ?_⟩
  simp only [emitPlaced, List.mem_append, List.mem_map, List.mem_singleton] at hp
  rcases hp with ⟨m, _, rfl⟩ | rfl <;> exact ⟨rfl, rfl⟩

theorem hasOwner_emitEnd (id : Nat) (bef : List Obj) (last : Obj) :
    ∀ p ∈ emitEnd id bef last, HasOwner (emitEnd id bef last) p.2 := by
  intro p hp
  cases bef with
  | nil =>
    simp only [emitEnd, List.mem_singleton] at hp; subst hp
    exact ⟨_, by simp [emitEnd], rfl, rfl, rfl⟩
  | cons f bs =>
    refine ⟨(f, ⟨id, true, f.stop⟩), by simp [emitEnd], rfl, ?_⟩
    simp only [emitEnd, List.mem_cons, List.mem_map] at hp
    rcases hp with rfl | ⟨m, _, rfl⟩ <;> exact ⟨rfl, rfl⟩

theorem run_hasOwner (R : Nat) : ∀ (objs : List Obj) (nb : Nat) (mode : Mode),
    ∀ p ∈ (runProposed R nb mode objs).1, HasOwner (runProposed R nb mode objs).1 p.2 ∨
      (∃ id pos, mode = .prev id pos ∧ p.2.block = id ∧ p.2.pos = pos) := by
  intro objs
  induction objs with
  | nil =>
    intro nb mode p hp
    cases mode with
    | prev id pos => simp [runProposed] at hp
    | pend id fs bef last =>
      simp only [runProposed] at hp ⊢
      exact Or.inl (hasOwner_emitEnd id bef last p hp)
  | cons o rest ih =>
    intro nb mode p hp
    cases mode with
    | prev id pos =>
      simp only [runProposed] at hp ⊢
      split at hp
      · rename_i hge
        rw [if_pos hge]
        rcases ih _ _ p hp with h | ⟨_, _, h, _⟩
        · exact Or.inl h
        · cases h
      · rename_i hlt
        rw [if_neg hlt]
        simp only [List.mem_cons] at hp
        rcases hp with rfl | hp
        · exact Or.inr ⟨id, pos, rfl, rfl, rfl⟩
        · rcases ih _ _ p hp with h | ⟨_, _, h, h2⟩
          · exact Or.inl (h.mono (fun q hq => List.mem_cons_of_mem _ hq))
          · cases h; exact Or.inr ⟨id, pos, rfl, h2⟩
    | pend id fs bef last =>
      simp only [runProposed] at hp ⊢
      split at hp
      · rename_i hlt
        rw [if_pos hlt]
        rcases ih _ _ p hp with h | ⟨_, _, h, _⟩
        · exact Or.inl h
        · cases h
      · rename_i hnlt
        rw [if_neg hnlt]
        split at hp
        · rename_i hge
          rw [if_pos hge]
          simp only [List.mem_append] at hp
          rcases hp with hp | hp
          · exact Or.inl ((hasOwner_emitPlaced id bef last p hp).mono (fun q hq => List.mem_append_left _ hq))
          · rcases ih _ _ p hp with h | ⟨_, _, h, _⟩
            · exact Or.inl (h.mono (fun q hq => List.mem_append_right _ hq))
            · cases h
        · rename_i hlt
          rw [if_neg hlt]
          have hown : ∀ a : Asg, a.block = id → a.pos = last.stop →
              HasOwner (emitPlaced id bef last ++ (o, ⟨id, false, last.stop⟩) :: (runProposed R nb (.prev id last.stop) rest).1) a :=
            fun a h1 h2 => ⟨(last, ⟨id, true, last.stop⟩), by simp [emitPlaced], rfl, h1.symm, h2.symm⟩
          simp only [List.mem_append, List.mem_cons] at hp
          rcases hp with hp | rfl | hp
          · exact Or.inl ((hasOwner_emitPlaced id bef last p hp).mono (fun q hq => List.mem_append_left _ hq))
          · exact Or.inl (hown _ rfl rfl)
          · rcases ih _ _ p hp with h | ⟨_, _, h, h2, h3⟩
            · exact Or.inl (h.mono (fun q hq => List.mem_append_right _ (List.mem_cons_of_mem _ hq)))
            · cases h; exact Or.inl (hown _ h2 h3)

/-- **block_has_owner_proposed**: the block named by any object has an owner with that id at that position. -/
theorem block_has_owner_proposed (R : Nat) (objs : List Obj) :
    ∀ p ∈ (assignThunkBlocksProposed R objs).1, HasOwner (assignThunkBlocksProposed R objs).1 p.2 := by
  cases objs with
  | nil => simp [assignThunkBlocksProposed]
  | cons o rest =>
    intro p hp
    simp only [assignThunkBlocksProposed, List.mem_cons] at hp ⊢
    have hfirst : ∀ a : Asg, a.block = 0 → a.pos = o.stop →
        HasOwner ((o, ⟨0, true, o.stop⟩) :: (runProposed R 1 (.prev 0 o.stop) rest).1) a :=
      fun a h1 h2 => ⟨(o, ⟨0, true, o.stop⟩), List.mem_cons_self .., rfl, h1.symm, h2.symm⟩
    rcases hp with rfl | hp
    · exact hfirst _ rfl rfl
    · rcases run_hasOwner R rest 1 (.prev 0 o.stop) p hp with h | ⟨_, _, h, h2, h3⟩
      · exact h.mono (fun q hq => List.mem_cons_of_mem _ hq)
      · cases h; exact hfirst _ h2 h3

/-! ## Part B — the final layout -/

/-- Sum of the thunk bytes of the blocks `(position, bytes)` whose position satisfies `f`. -/
def sumIf (f : Nat → Bool) : List (Nat × Nat) → Nat
  | [] => 0
  | (p, t) :: rest => (if f p then t else 0) + sumIf f rest

/-- Thunk bytes inserted at or before pre-thunk offset `x`. -/
def S (bl : List (Nat × Nat)) (x : Nat) : Nat := sumIf (fun p => decide (p ≤ x)) bl
/-- Thunk bytes of the blocks positioned strictly before `p`. -/
def Sm (bl : List (Nat × Nat)) (p : Nat) : Nat := sumIf (fun q => decide (q < p)) bl

/-- Final offset of the pre-thunk offset `x` of the primary part. -/
def final (pad : Nat) (bl : List (Nat × Nat)) (x : Nat) : Nat := pad + x + S bl x
/-- Final offset of byte `off` of the thunk block positioned at `p`. -/
def thunkFinal (pad : Nat) (bl : List (Nat × Nat)) (p off : Nat) : Nat := pad + p + Sm bl p + off

/-- Block positions at least `R` apart, starting at or after `lo`. -/
def Spaced (R : Nat) : Nat → List (Nat × Nat) → Prop
  | _, [] => True
  | lo, (p, _) :: rest => lo ≤ p ∧ Spaced R (p + R) rest

/-- The `(position, thunk bytes)` list of an assignment. -/
def blocksOf (T : Nat → Nat) (l : List (Obj × Asg)) : List (Nat × Nat) := (owners l).map (fun a => (a.pos, T a.block))

theorem spaced_of_ownersFrom {R : Nat} (T : Nat → Nat) : ∀ (l : List Asg) (i p : Nat),
    OwnersFrom R i p l → Spaced R p (l.map (fun a => (a.pos, T a.block)))
  | [], _, _, _ => trivial
  | _ :: rest, _, _, ⟨_, h2, h3⟩ => ⟨h2, spaced_of_ownersFrom T rest _ _ h3⟩

theorem Spaced.mono {R : Nat} : ∀ {bl : List (Nat × Nat)} {lo lo' : Nat}, lo' ≤ lo → Spaced R lo bl → Spaced R lo' bl
  | [], _, _, _, _ => trivial
  | (_, _) :: _, _, _, h, ⟨h1, h2⟩ => ⟨Nat.le_trans h h1, h2⟩

theorem Spaced.ge {R : Nat} : ∀ {bl : List (Nat × Nat)} {lo : Nat}, Spaced R lo bl → ∀ e ∈ bl, lo ≤ e.1
  | [], _, _, e, he => by cases he
  | (p, t) :: rest, lo, ⟨h1, h2⟩, e, he => by
      rcases List.mem_cons.mp he with rfl | he
      · exact h1
      · have := Spaced.ge h2 e he; omega

theorem sumIf_eq_zero {f : Nat → Bool} : ∀ {bl : List (Nat × Nat)}, (∀ e ∈ bl, f e.1 = false) → sumIf f bl = 0
  | [], _ => rfl
  | (p, t) :: rest, h => by
      have h1 := h (p, t) (List.mem_cons_self ..)
      simp only at h1
      simp only [sumIf, h1, Bool.false_eq_true, if_false, Nat.zero_add]
      exact sumIf_eq_zero (fun e he => h e (List.mem_cons_of_mem _ he))

theorem sumIf_le_of_imp {f g : Nat → Bool} : ∀ {bl : List (Nat × Nat)},
    (∀ e ∈ bl, f e.1 = true → g e.1 = true) → sumIf f bl ≤ sumIf g bl
  | [], _ => Nat.le_refl _
  | (p, t) :: rest, h => by
      have h1 := h (p, t) (List.mem_cons_self ..)
      have h2 := sumIf_le_of_imp (fun e he => h e (List.mem_cons_of_mem _ he))
      simp only at h1
      simp only [sumIf]
      cases hf : f p <;> cases hg : g p <;> simp_all <;> omega

theorem S_mono (bl : List (Nat × Nat)) {x y : Nat} (h : x ≤ y) : S bl x ≤ S bl y :=
  sumIf_le_of_imp (fun e _ he => by simp only [decide_eq_true_eq] at he ⊢; omega)

theorem S_zero_of_lt {R : Nat} {bl : List (Nat × Nat)} {lo x : Nat} (hs : Spaced R lo bl) (h : x < lo) : S bl x = 0 :=
  sumIf_eq_zero (fun e he => by have := hs.ge e he; simp only [decide_eq_false_iff_not]; omega)

theorem Sm_zero_of_le {R : Nat} {bl : List (Nat × Nat)} {lo p : Nat} (hs : Spaced R lo bl) (h : p ≤ lo) : Sm bl p = 0 :=
  sumIf_eq_zero (fun e he => by have := hs.ge e he; simp only [decide_eq_false_iff_not]; omega)

/-- At most one block position lies in a window shorter than `R`. -/
theorem S_gap {R M : Nat} : ∀ {bl : List (Nat × Nat)} {lo : Nat}, Spaced R lo bl → (∀ e ∈ bl, e.2 ≤ M) →
    ∀ {x y : Nat}, x ≤ y → y < x + R → S bl y ≤ S bl x + M
  | [], _, _, _, _, _, _, _ => by simp [S, sumIf]
  | (p, t) :: rest, lo, ⟨_, h2⟩, hM, x, y, hxy, hR => by
      have ht : t ≤ M := hM (p, t) (List.mem_cons_self ..)
      have ih := S_gap h2 (fun e he => hM e (List.mem_cons_of_mem _ he)) hxy hR
      by_cases hpy : p ≤ y
      · by_cases hpx : p ≤ x
        · simp only [S, sumIf, hpx, hpy, decide_true, if_true] at ih ⊢; omega
        · have hz : S rest y = 0 := S_zero_of_lt h2 (by omega)
          simp only [S, sumIf, hpx, hpy, decide_true, decide_false, if_true, Bool.false_eq_true, if_false] at hz ⊢
          omega
      · have hpx : ¬ p ≤ x := by omega
        simp only [S, sumIf, hpx, hpy, decide_false, Bool.false_eq_true, if_false] at ih ⊢; omega

/-- For a block at `p` with `t` bytes: up to `R` after `p` exactly the blocks before `p` and the
block itself have been inserted. -/
theorem S_after {R : Nat} (hR : 0 < R) : ∀ {bl : List (Nat × Nat)} {lo : Nat}, Spaced R lo bl → ∀ (p t x : Nat),
    (p, t) ∈ bl → p ≤ x → x < p + R → S bl x = Sm bl p + t
  | [], _, _, _, _, _, h, _, _ => by cases h
  | (q, tq) :: rest, lo, ⟨_, h2⟩, p, t, x, hmem, hpx, hxR => by
      rcases List.mem_cons.mp hmem with heq | hmem
      · have hpq : p = q := (Prod.mk.inj heq).1
        have htq : t = tq := (Prod.mk.inj heq).2
        subst hpq htq
        have hz1 : S rest x = 0 := S_zero_of_lt h2 (by omega)
        have hz2 : Sm rest p = 0 := Sm_zero_of_le h2 (by omega)
        simp only [S, Sm, sumIf, hpx, decide_true, if_true, Nat.lt_irrefl, decide_false, Bool.false_eq_true, if_false] at hz1 hz2 ⊢
        omega
      · have hq := h2.ge (p, t) hmem
        simp only at hq
        have ih := S_after hR h2 p t x hmem hpx hxR
        have h1 : q ≤ x := by omega
        have h3 : q < p := by omega
        simp only [S, Sm, sumIf, h1, h3, decide_true, if_true] at ih ⊢
        omega

/-- Up to `R` before a block position nothing but the blocks before it has been inserted. -/
theorem S_before {R : Nat} (hR : 0 < R) : ∀ {bl : List (Nat × Nat)} {lo : Nat}, Spaced R lo bl → ∀ (p t x : Nat),
    (p, t) ∈ bl → x < p → p ≤ x + R → S bl x = Sm bl p
  | [], _, _, _, _, _, h, _, _ => by cases h
  | (q, tq) :: rest, lo, ⟨_, h2⟩, p, t, x, hmem, hxp, hpR => by
      rcases List.mem_cons.mp hmem with heq | hmem
      · have hpq : p = q := (Prod.mk.inj heq).1
        have htq : t = tq := (Prod.mk.inj heq).2
        subst hpq htq
        have hz1 : S rest x = 0 := S_zero_of_lt h2 (by omega)
        have hz2 : Sm rest p = 0 := Sm_zero_of_le h2 (by omega)
        have hnx : ¬ p ≤ x := by omega
        simp only [S, Sm, sumIf, hnx, Nat.lt_irrefl, decide_false, Bool.false_eq_true, if_false] at hz1 hz2 ⊢
        omega
      · have hq := h2.ge (p, t) hmem
        simp only at hq
        have ih := S_before hR h2 p t x hmem hxp hpR
        have h1 : q ≤ x := by omega
        have h3 : q < p := by omega
        simp only [S, Sm, sumIf, h1, h3, decide_true, if_true] at ih ⊢
        omega

/-- Distance between two final offsets. -/
def dist (a b : Nat) : Nat := (a - b) + (b - a)

/-- **thunk_reaches_proposed** (layout form): a byte `x` of an object covered by the block at `p`
(`Cover`), lies `< R + M` from byte `off` of any thunk (`off + 12 ≤ t`) of that block, provided the
object is no larger than `R` and every block holds at most `M` bytes. -/
theorem thunk_reaches_layout {R M pad : Nat} (hR : 0 < R) {bl : List (Nat × Nat)} {lo : Nat} (hs : Spaced R lo bl)
    (hM : ∀ e ∈ bl, e.2 ≤ M) {o : Obj} {a : Asg} (hc : Cover R o a) (hsz : o.stop - o.start ≤ R)
    {t : Nat} (hmem : (a.pos, t) ∈ bl) {x off : Nat} (hx1 : o.start ≤ x) (hx2 : x < o.stop) (hoff : off + 12 ≤ t) :
    dist (thunkFinal pad bl a.pos off) (final pad bl x) < R + M := by
  have ht : t ≤ M := hM _ hmem
  simp only [dist, thunkFinal, final]
  rcases hc with ⟨_, hp⟩ | ⟨_, ⟨h1, h2⟩ | ⟨h1, h2⟩⟩
  · have := S_before hR hs _ _ x hmem (by omega : x < a.pos) (by omega); omega
  · have := S_after hR hs _ _ x hmem (by omega : a.pos ≤ x) (by omega); omega
  · have := S_before hR hs _ _ x hmem (by omega : x < a.pos) (by omega); omega

/-- **thunk_reaches_proposed**: for every object list, every assignment entry `(o, a)`, every byte `x` of
`o` and every thunk (byte offset `off`) of the block `a.block`, in the final layout determined by
the thunk bytes `T` per block: `|thunk − place| < R + M`. -/
theorem thunk_reaches_proposed (R M pad lo : Nat) (hR : 0 < R) (objs : List Obj) (hc : Chain lo objs) (T : Nat → Nat)
    (hT : ∀ b, T b ≤ M) (p : Obj × Asg) (hp : p ∈ (assignThunkBlocksProposed R objs).1)
    (hsz : p.1.stop - p.1.start ≤ R) (x off : Nat) (hx1 : p.1.start ≤ x) (hx2 : x < p.1.stop)
    (hoff : off + 12 ≤ T p.2.block) :
    let bl := blocksOf T (assignThunkBlocksProposed R objs).1
    dist (thunkFinal pad bl p.2.pos off) (final pad bl x) < R + M := by
  intro bl
  have hs : Spaced R 0 bl := spaced_of_ownersFrom T _ _ _ (blocks_spaced_proposed R lo objs hc)
  have hM : ∀ e ∈ bl, e.2 ≤ M := by
    intro e he
    simp only [bl, blocksOf, List.mem_map] at he
    obtain ⟨a, _, rfl⟩ := he
    exact hT _
  obtain ⟨q, hq, hqo, hqb, hqp⟩ := block_has_owner_proposed R objs p hp
  have hmem : (p.2.pos, T p.2.block) ∈ bl := by
    simp only [bl, blocksOf, List.mem_map, owners, List.mem_filter]
    exact ⟨q.2, ⟨⟨q, hq, rfl⟩, hqo⟩, by rw [hqb, hqp]⟩
  exact thunk_reaches_layout hR hs hM (blocks_cover_proposed R lo objs hc p hp) hsz hmem hx1 hx2 hoff

/-- **skip_is_safe**: if `provably_in_range` answers `true` for a definition in the primary part,
then in every consistent final layout any byte `x` of the source object and any address `y` of the
definition's object are less than `R + M` apart. -/
theorem skip_is_safe {R M pad lo : Nat} {bl : List (Nat × Nat)} (hs : Spaced R lo bl) (hM : ∀ e ∈ bl, e.2 ≤ M)
    (src : Obj) (ds de : Nat) (h : provablyInRange R src.start src.stop (.primary ds de) = true)
    (x y : Nat) (hx1 : src.start ≤ x) (hx2 : x ≤ src.stop) (hy1 : ds ≤ y) (hy2 : y ≤ de) :
    dist (final pad bl y) (final pad bl x) < R + M := by
  simp only [provablyInRange, decide_eq_true_eq] at h
  simp only [dist, final]
  rcases Nat.le_total x y with hxy | hxy
  · have h1 := S_gap hs hM hxy (by omega)
    have h2 := S_mono bl hxy
    omega
  · have h1 := S_gap hs hM hxy (by omega)
    have h2 := S_mono bl hxy
    omega

/-- **skip_is_safe** for a definition outside the primary part (non-primary `.text` parts, PLT of
an IFUNC, `.init`…): such code lives at final offsets `u < n + pad`, the source object starts at or
after `n`; `src_end < R` implies every byte of the source is less than `R + M` after `u`, provided
the padding and every thunk block together stay within `M`. -/
theorem skip_is_safe_nonprimary {R M pad n lo : Nat} (hlo : 0 < lo) {bl : List (Nat × Nat)} (hs : Spaced R lo bl)
    (hpad : pad ≤ M) (hM : ∀ e ∈ bl, pad + e.2 ≤ M) (src : Obj) (h : provablyInRange R src.start src.stop .other = true)
    (hn : n ≤ src.start) (x u : Nat) (hx1 : src.start ≤ x) (hx2 : x < src.stop) (hu : u < n + pad) :
    u ≤ final pad bl x ∧ final pad bl x - u < R + M := by
  simp only [provablyInRange, decide_eq_true_eq] at h
  have hM' : ∀ e ∈ bl, e.2 ≤ M - pad := fun e he => by have := hM e he; omega
  have h0 : S bl 0 = 0 := S_zero_of_lt hs hlo
  have h1 := S_gap hs hM' (Nat.zero_le x) (by omega)
  simp only [final]
  omega

/-- **nonprimary_thunk_reaches**: non-primary code (final offsets `u < n + pad`) reaches every
thunk of block FIRST (positioned at the end `p0` of the first object) if `p0 ≤ R`. -/
theorem nonprimary_thunk_reaches {R M pad n lo : Nat} (hR : 0 < R) {rest : List (Nat × Nat)} {p0 t0 : Nat}
    (hs : Spaced R lo ((p0, t0) :: rest)) (hM : pad + t0 ≤ M) (hp0 : p0 ≤ R) (hn : n ≤ p0)
    (u off : Nat) (hu : u < n + pad) (hoff : off + 12 ≤ t0) :
    u ≤ thunkFinal pad ((p0, t0) :: rest) p0 off ∧ thunkFinal pad ((p0, t0) :: rest) p0 off - u < R + M := by
  have hz : Sm rest p0 = 0 := Sm_zero_of_le hs.2 (by omega)
  simp only [thunkFinal, Sm, sumIf, Nat.lt_irrefl, decide_false, Bool.false_eq_true, if_false] at hz ⊢
  omega

/-! ## The thunk body -/

/-- ADRP Xd: `Xd = (PC with the low 12 bits cleared) + (SignExtend(immhi:immlo) << 12)`. -/
def execAdrp (pc : BitVec 64) (w : BitVec 32) : BitVec 64 := (pc &&& ~~~0xfff#64) + (A64S.decode .Adr w <<< 12)
/-- ADD Xd, Xn, #imm12 (sh = 0): `Xd = Xn + ZeroExtend(imm12)`. -/
def execAdd (xn : BitVec 64) (w : BitVec 32) : BitVec 64 := xn + A64S.decode .Add w

/-- The page difference fits ADRP's 21-bit signed page count: `-2^32 ≤ page(t) − page(thunk) < 2^32`. -/
def adrpReach (thunk target : BitVec 64) : Prop :=
  let d := (target &&& ~~~0xfff#64) - (thunk &&& ~~~0xfff#64)
  (0xffffffff00000000#64).sle d ∧ d.slt 0x100000000#64

/-- **thunk_words_shape**: whatever the addresses, the three words are `adrp x16, _`,
`add x16, x16, #_` (64-bit, no shift) and `br x16`. -/
theorem thunk_words_shape (thunk target : BitVec 64) :
    (writeThunk thunk target).1 &&& 0x9f00001f#32 = 0x90000010#32 ∧
    (writeThunk thunk target).2.1 &&& 0xffc003ff#32 = 0x91000210#32 ∧
    (writeThunk thunk target).2.2 = 0xd61f0200#32 := by
  simp only [writeThunk, pageCount, A64.write, A64.immBits, A64.preClear, A64.immediateMask, TEMPLATE_ADRP, TEMPLATE_ADD,
    TEMPLATE_BR, PAGE_MASK_4KB, extractBitRange, u32]
  refine ⟨?_, ?_, ?_⟩ <;> first | trivial | bv_decide

/-- `page_diff / 4096` of a multiple of 4096 (signed) is the arithmetic shift. -/
theorem pageDiv (a b : BitVec 64) :
    ((a &&& ~~~0xfff#64) - (b &&& ~~~0xfff#64)).sdiv 4096#64 = ((a &&& ~~~0xfff#64) - (b &&& ~~~0xfff#64)).sshiftRight 12 := by
  bv_decide

/-- **thunk_computes_target**: executing `adrp x16; add x16, x16, #lo12` at `thunk` leaves the
target address in `x16` whenever the page difference is within ADRP's reach. -/
theorem thunk_computes_target (thunk target : BitVec 64) (h : adrpReach thunk target) :
    execAdd (execAdrp thunk (writeThunk thunk target).1) (writeThunk thunk target).2.1 = target := by
  simp only [adrpReach] at h
  simp only [writeThunk, pageCount]
  simp only [execAdd, execAdrp, A64S.decode, bits, A64.write, A64.immBits, A64.preClear, A64.immediateMask, TEMPLATE_ADRP, TEMPLATE_ADD,
    PAGE_MASK_4KB, extractBitRange, u32] at h ⊢
  bv_decide

/-- `|t − thunk| ≤ 2^32 − 2^12` is enough for `adrpReach`. -/
theorem adrpReach_of_close (thunk target : BitVec 64)
    (h : (target - thunk).sle 0xfffff000#64 ∧ (0xffffffff00001000#64).sle (target - thunk)) : adrpReach thunk target := by
  simp only [adrpReach]
  bv_decide

/-- Beyond ADRP's reach `write_thunk` silently produces a thunk to a different address (the page
count is masked to 21 bits, no error). -/
theorem thunk_beyond_reach_witness :
    execAdd (execAdrp 0#64 (writeThunk 0#64 0x100000000#64).1) (writeThunk 0#64 0x100000000#64).2.1 ≠ 0x100000000#64 := by
  decide

/-! ## Combination with the real constants -/

theorem range_constants : BRANCH_RANGE + MAXIMUM_THUNK_BYTES_PER_BLOCK = 2 ^ 27 ∧ 0 < BRANCH_RANGE := by decide

/-- `dist < 2^27` means the signed displacement is accepted by B/BL. -/
theorem inBranchRange_of_dist {a b : Nat} (h : dist a b < 2 ^ 27) : inBranchRange ((a : Int) - (b : Int)) = true := by
  simp only [dist] at h
  simp only [inBranchRange, decide_eq_true_eq]
  omega

/-- **branch_reaches_target_proposed**: a range-limited branch at byte `x` of a primary-part object `o`
(entry `(o, a)` of the assignment) to a definition in the primary part (object range `[ds, de]`,
target offset `y`).  Under the documented assumptions, either `provably_in_range` holds and the
branch reaches `y` directly, or a thunk for the definition is allocated in block `a.block`
(`needsThunk`), and every thunk slot of that block is reachable from `x`. -/
theorem branch_reaches_target_proposed (pad lo : Nat) (objs : List Obj) (hc : Chain lo objs) (T : Nat → Nat)
    (hT : ∀ b, T b ≤ MAXIMUM_THUNK_BYTES_PER_BLOCK) (p : Obj × Asg) (hp : p ∈ (assignThunkBlocksProposed BRANCH_RANGE objs).1)
    (hsz : p.1.stop - p.1.start ≤ BRANCH_RANGE) (x : Nat) (hx1 : p.1.start ≤ x) (hx2 : x < p.1.stop)
    (ds de y : Nat) (hy1 : ds ≤ y) (hy2 : y ≤ de) :
    let bl := blocksOf T (assignThunkBlocksProposed BRANCH_RANGE objs).1
    (needsThunk BRANCH_RANGE p.1 (.primary ds de) = false ∧
        inBranchRange ((final pad bl y : Int) - (final pad bl x : Int)) = true) ∨
    (needsThunk BRANCH_RANGE p.1 (.primary ds de) = true ∧
        ∀ off, off + 12 ≤ T p.2.block →
          inBranchRange ((thunkFinal pad bl p.2.pos off : Int) - (final pad bl x : Int)) = true) := by
  intro bl
  have hs : Spaced BRANCH_RANGE 0 bl := spaced_of_ownersFrom T _ _ _ (blocks_spaced_proposed BRANCH_RANGE lo objs hc)
  have hM : ∀ e ∈ bl, e.2 ≤ MAXIMUM_THUNK_BYTES_PER_BLOCK := by
    intro e he
    simp only [bl, blocksOf, List.mem_map] at he
    obtain ⟨a, _, rfl⟩ := he
    exact hT _
  cases hpi : provablyInRange BRANCH_RANGE p.1.start p.1.stop (.primary ds de) with
  | true =>
    left
    refine ⟨by simp [needsThunk, hpi], inBranchRange_of_dist ?_⟩
    have := skip_is_safe (pad := pad) hs hM p.1 ds de hpi x y hx1 (Nat.le_of_lt hx2) hy1 hy2
    rw [← range_constants.1]; exact this
  | false =>
    right
    refine ⟨by simp [needsThunk, hpi], fun off hoff => inBranchRange_of_dist ?_⟩
    have := thunk_reaches_proposed BRANCH_RANGE MAXIMUM_THUNK_BYTES_PER_BLOCK pad lo range_constants.2 objs hc T hT p hp hsz x off hx1 hx2 hoff
    rw [← range_constants.1]; exact this

/-- **no_out_of_range_error_proposed**: with the thunk table built as `process_primary_part_refs` builds it
(a thunk for the definition exists in the block whenever `needsThunk`), `branchOutcome` never
reports "out of range … no thunk allocated" nor an out-of-range thunk. -/
theorem no_out_of_range_error_proposed (pad lo : Nat) (objs : List Obj) (hc : Chain lo objs) (T : Nat → Nat)
    (hT : ∀ b, T b ≤ MAXIMUM_THUNK_BYTES_PER_BLOCK) (p : Obj × Asg) (hp : p ∈ (assignThunkBlocksProposed BRANCH_RANGE objs).1)
    (hsz : p.1.stop - p.1.start ≤ BRANCH_RANGE) (x : Nat) (hx1 : p.1.start ≤ x) (hx2 : x < p.1.stop)
    (ds de y : Nat) (hy1 : ds ≤ y) (hy2 : y ≤ de)
    (slot : Option Nat) (hslot : needsThunk BRANCH_RANGE p.1 (.primary ds de) = true → ∃ off, slot = some off ∧ off + 12 ≤ T p.2.block) :
    let bl := blocksOf T (assignThunkBlocksProposed BRANCH_RANGE objs).1
    let direct : Int := (final pad bl y : Int) - (final pad bl x : Int)
    let via : Option Int := slot.map (fun off => (thunkFinal pad bl p.2.pos off : Int) - (final pad bl x : Int))
    ∃ v, branchOutcome direct via = .ok v ∧ (v = direct ∨ via = some v) := by
  intro bl direct via
  rcases branch_reaches_target_proposed pad lo objs hc T hT p hp hsz x hx1 hx2 ds de y hy1 hy2 with ⟨_, h⟩ | ⟨hn, h⟩
  · exact ⟨direct, by simp only [branchOutcome]; rw [if_pos h], Or.inl rfl⟩
  · obtain ⟨off, rfl, hoff⟩ := hslot hn
    have h' := h off hoff
    by_cases hd : inBranchRange direct = true
    · exact ⟨direct, by simp only [branchOutcome]; rw [if_pos hd], Or.inl rfl⟩
    · refine ⟨(thunkFinal pad bl p.2.pos off : Int) - (final pad bl x : Int), ?_, Or.inr rfl⟩
      simp only [branchOutcome, via, Option.map_some]
      rw [if_neg hd, if_pos h']

/-! ## Full-strength statement and why it fails -/

/-- C11 without the documented assumptions (no bound on object sizes, none on the thunk bytes). -/
def C11_full : Prop :=
  ∀ (R M pad lo : Nat) (objs : List Obj) (T : Nat → Nat), 0 < R → Chain lo objs →
    ∀ p ∈ (assignThunkBlocksProposed R objs).1, ∀ x off, p.1.start ≤ x → x < p.1.stop → off + 12 ≤ T p.2.block →
      dist (thunkFinal pad (blocksOf T (assignThunkBlocksProposed R objs).1) p.2.pos off)
           (final pad (blocksOf T (assignThunkBlocksProposed R objs).1) x) < R + M

/-- A single object larger than `R + M` (its block sits at its end; per-object thunk granularity):
known finding `object-larger-than-branch-range`; likewise `T b > M` (`thunk-block-overflow`). -/
theorem C11_full_witness : ¬ C11_full := by
  intro h
  have := h 100 10 0 0 [⟨0, 200⟩] (fun _ => 12) (by decide) (by simp [Chain]) (⟨0, 200⟩, ⟨0, true, 200⟩)
    (by simp [assignThunkBlocksProposed, runProposed]) 0 0 (by decide) (by decide) (by decide)
  revert this
  decide

/-! ## The automaton of the code as it is (`run`, `assignThunkBlocks`) -/

/-- `blocks_cover` at full strength for the code as it is. -/
def C11_blocks_cover_full : Prop :=
  ∀ (R : Nat) (objs : List Obj), Chain 0 objs → ∀ p ∈ (assignThunkBlocks R objs).1, Cover R p.1 p.2

/-- It fails on the input of the repo's own unit test `test_assign_thunk_blocks_placement`
(`max_range = 500`, five 100-byte objects): object 2 `[600,700)` is given block 1, which is placed
at 1300 (the end of object 4).  Known finding `thunk-block-placed-out-of-range`. -/
theorem C11_blocks_cover_full_witness : ¬ C11_blocks_cover_full := by
  intro h
  have := h 500 [⟨0, 100⟩, ⟨300, 400⟩, ⟨600, 700⟩, ⟨900, 1000⟩, ⟨1200, 1300⟩] (by simp [Chain])
    (⟨600, 700⟩, ⟨1, false, 1300⟩) (by simp [assignThunkBlocks, run, emitPlaced])
  simp [Cover] at this

/-- Objects in increasing order where every object ends at most `W` after the end of the previous
one (size + alignment gap `≤ W`). -/
def ChainW (W : Nat) : Nat → List Obj → Prop
  | _, [] => True
  | lo, o :: rest => lo ≤ o.start ∧ o.start ≤ o.stop ∧ o.stop ≤ lo + W ∧ ChainW W o.stop rest

/-- `Cover` weakened by `W` on the "object before its block" side: what the placement of the code
as it is guarantees. -/
def CoverW (R W : Nat) (o : Obj) (a : Asg) : Prop :=
  (a.owner = true ∧ a.pos = o.stop) ∨
  (a.owner = false ∧ ((a.pos ≤ o.start ∧ o.stop < a.pos + R) ∨ (o.stop ≤ a.pos ∧ a.pos ≤ o.start + R + W)))

theorem Cover.toW {R W : Nat} {o : Obj} {a : Asg} : Cover R o a → CoverW R W o a
  | .inl h => .inl h
  | .inr ⟨h, .inl h'⟩ => .inr ⟨h, .inl h'⟩
  | .inr ⟨h, .inr ⟨h1, h2⟩⟩ => .inr ⟨h, .inr ⟨h1, by omega⟩⟩

/-- State invariant of the original automaton: the proposed one's, plus "the last object of the
pending group is the previous object and ends at most `R` after the group's start". -/
def ModeInvO (R lo : Nat) : Mode → Prop
  | .prev id pos => ModeInv R lo (.prev id pos)
  | .pend id fs bef last => ModeInv R lo (.pend id fs bef last) ∧ last.stop = lo ∧ last.stop ≤ fs + R

theorem run_cover_orig (R W : Nat) (hW : W ≤ R) : ∀ (objs : List Obj) (nb : Nat) (mode : Mode) (lo : Nat),
    ChainW W lo objs → ModeInvO R lo mode → ∀ p ∈ (run R nb mode objs).1, CoverW R W p.1 p.2 := by
  intro objs
  induction objs with
  | nil =>
    intro nb mode lo _ hm p hp
    cases mode with
    | prev id pos => simp [run] at hp
    | pend id fs bef last => exact (cover_emitEnd hm.1 p (by simpa [run] using hp)).toW
  | cons o rest ih =>
    intro nb mode lo hc hm p hp
    obtain ⟨c1, c2, cW, c3⟩ := hc
    cases mode with
    | prev id pos =>
      simp only [run] at hp
      simp only [ModeInvO, ModeInv] at hm
      split at hp
      · exact ih (nb + 1) (.pend nb o.start [] o) o.stop c3 ⟨modeInv_fresh nb o c2, rfl, by omega⟩ p hp
      · rename_i hlt
        simp only [List.mem_cons] at hp
        rcases hp with rfl | hp
        · right; refine ⟨rfl, Or.inl ⟨by simp only; omega, by simp only; omega⟩⟩
        · exact ih nb (.prev id pos) o.stop c3 (by simp only [ModeInvO, ModeInv]; omega) p hp
    | pend id fs bef last =>
      obtain ⟨hm1, hlo, hR⟩ := hm
      simp only [run] at hp
      split at hp
      · rename_i hge
        obtain ⟨g1, g2, g3, g4, g5, g6⟩ := hm1
        simp only [List.mem_append] at hp
        rcases hp with hp | hp
        · simp only [emitPlaced, List.mem_append, List.mem_map, List.mem_singleton] at hp
          rcases hp with ⟨m, hm, rfl⟩ | rfl
          · right; refine ⟨rfl, Or.inr ?_⟩
            simp only
            rcases hm with hm | rfl
            · have := g4 m hm; omega
            · omega
          · left; exact ⟨rfl, rfl⟩
        · exact ih nb (.prev id o.stop) o.stop c3 (by simp only [ModeInvO, ModeInv]; omega) p hp
      · rename_i hlt
        exact ih nb (.pend id fs (bef ++ [last]) o) o.stop c3 ⟨modeInv_join hm1 c1 c2 (by omega), rfl, by omega⟩ p hp

/-- **blocks_cover_partial** (code as it is): if every object ends at most `W ≤ R` after the end
of the previous one (object size + gap `≤ W`), every object is within `R` of its block's position,
except that an object placed BEFORE its block may start up to `R + W` before it.  (The branch from
such an object to the block's thunks is in range iff additionally `W` + the block's thunk bytes stay
within the 2 MiB of slack.) -/
theorem blocks_cover_partial (R W lo : Nat) (hW : W ≤ R) (objs : List Obj) (hc : ChainW W lo objs) :
    ∀ p ∈ (assignThunkBlocks R objs).1, CoverW R W p.1 p.2 := by
  cases objs with
  | nil => simp [assignThunkBlocks]
  | cons o rest =>
    obtain ⟨_, c2, _, c3⟩ := hc
    intro p hp
    simp only [assignThunkBlocks, List.mem_cons] at hp
    rcases hp with rfl | hp
    · left; exact ⟨rfl, rfl⟩
    · exact run_cover_orig R W hW rest 1 (.prev 0 o.stop) o.stop c3 (by simp [ModeInvO, ModeInv]) p hp

/-- On the unit-test input (`R = 500`, objects end 300 after each other) object 2 starts 700 before
its block: `CoverW` holds with `W = 200` and fails with `W = 199`. -/
example : CoverW 500 200 ⟨600, 700⟩ ⟨1, false, 1300⟩ ∧ ¬ CoverW 500 199 ⟨600, 700⟩ ⟨1, false, 1300⟩ := by
  simp [CoverW]

/-! ## Non-vacuity -/

example : Chain 0 [⟨0, 100⟩, ⟨300, 400⟩, ⟨600, 700⟩, ⟨900, 1000⟩, ⟨1200, 1300⟩] := by simp [Chain]
example : (assignThunkBlocksProposed 500 [⟨0, 100⟩, ⟨300, 400⟩, ⟨600, 700⟩, ⟨900, 1000⟩, ⟨1200, 1300⟩]).1.map (·.2)
    = [⟨0, true, 100⟩, ⟨0, false, 100⟩, ⟨1, false, 1000⟩, ⟨1, true, 1000⟩, ⟨1, false, 1000⟩] := by decide
example : (assignThunkBlocks 500 [⟨0, 100⟩, ⟨300, 400⟩, ⟨600, 700⟩, ⟨900, 1000⟩, ⟨1200, 1300⟩]).1.map (·.2)
    = [⟨0, true, 100⟩, ⟨0, false, 100⟩, ⟨1, false, 1300⟩, ⟨1, false, 1300⟩, ⟨1, true, 1300⟩] := by decide
example : ChainW 300 0 [⟨0, 100⟩, ⟨300, 400⟩, ⟨600, 700⟩, ⟨900, 1000⟩, ⟨1200, 1300⟩] := by simp [ChainW]
example : adrpReach 0x681035c#64 0x901036c#64 := by unfold adrpReach; decide
example : provablyInRange 500 0 100 (.primary 300 400) = true ∧ provablyInRange 500 0 100 (.primary 600 700) = false := by decide

end Wild.C11
