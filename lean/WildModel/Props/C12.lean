import WildModel.Model.RelocRange
/-!
# C12 — Relocation overflow is reported exactly when a value doesn't fit

`spec arch r_type` is the psABI side: the field class of a relocation (signed / unsigned / either
sign ("bitfield": fits as signed OR unsigned) / unchecked) and its alignment, written from the
x86-64 psABI (table 4.9/4.10), AAELF64 (§5.7), the RISC-V ELF psABI — independently of wild's
tables — and restricted to the region where GNU ld 2.40 and ld.lld 14 agree (probed, see
`vlib/props/c12.py`): `must` is the set of values both linkers accept (wild must accept),
`may` the complement of the set both reject (wild must reject outside).  For most rows `must = may`.

Theorems are stated over the REGENERATED rows `Wild.Gen.relocRows`:
* `c12_accept_iff`   every row in scope: `must ⊆ accept ⊆ may` for ALL `v : BitVec 64` (an `↔` where the
                     class is exact, `c12_exact_iff`);
* `c12_no_truncation` every accepted value of a byte-sized row is recovered from the written bytes
                     by zero- or sign-extension (no silent truncation).
A row whose range/size changes to a violating value makes `rows_ok` / `rows_trunc_ok` fail
(`decide +kernel` evaluates to `false`), a harmless change re-proves without edits.
-/
namespace Wild.C12
open Wild.Gen Wild.Reloc

/-! ## The psABI side -/

inductive Cls where
  | signed (w : Nat)
  | unsigned (w : Nat)
  /-- fits as signed or as unsigned `w`-bit value -/
  | either (w : Nat)
  | unchecked
  deriving DecidableEq, Repr

/-- half-open interval of `i64` readings denoted by a class -/
def Cls.iv : Cls → Int × Int
  | .signed w => (-(2 ^ (w - 1)), 2 ^ (w - 1))
  | .unsigned w => (0, 2 ^ w)
  | .either w => (-(2 ^ (w - 1)), 2 ^ w)
  | .unchecked => (-(2 ^ 63), 2 ^ 63)

structure FieldSpec where
  /-- values that GNU ld and lld both accept -/
  must : Cls
  /-- values outside this interval are rejected by both (defaults to `must`: exact class) -/
  may : Int × Int := must.iv
  /-- `some a`: values must be multiples of `a` and misaligned values are rejected;
      `none`: the linkers disagree / do not check; the statement is restricted to aligned values -/
  align : Option Nat := some 1
  deriving Repr

def exact (c : Cls) (a : Nat := 1) : FieldSpec := { must := c, align := some a }

/-- The in-scope rows. Everything else (`none`): TLS/GOT forms whose value is not controllable by
an absolute symbol, thunkable branches (lld inserts thunks instead of failing), LoongArch64 (no
toolchain in the sandbox), RISC-V data relocations that neither BFD nor lld range-check. -/
def spec : Arch → Nat → Option FieldSpec
  -- x86-64 psABI: word64 / word32 / word16 / word8; "S" = sign-extended; PC-relative are signed.
  | .x86_64, 0 => some (exact .unchecked)          -- NONE
  | .x86_64, 1 => some (exact .unchecked)          -- 64
  | .x86_64, 2 => some (exact (.signed 32))        -- PC32
  | .x86_64, 3 => some (exact (.signed 32))        -- GOT32 (ld: complain_overflow_signed, lld: checkInt 32)
  | .x86_64, 4 => some (exact (.signed 32))        -- PLT32
  | .x86_64, 9 => some (exact (.signed 32))        -- GOTPCREL
  | .x86_64, 10 => some (exact (.unsigned 32))     -- 32
  | .x86_64, 11 => some (exact (.signed 32))       -- 32S
  -- 16 / 8: both linkers accept signed-or-unsigned; GNU ld (bitfield) additionally accepts a few
  -- values below -2^(w-1) that lld rejects
  | .x86_64, 12 => some { must := .either 16, may := (-(2 ^ 16), 2 ^ 16) }
  | .x86_64, 13 => some { must := .signed 16, may := (-(2 ^ 16), 2 ^ 16) }   -- PC16: ld bitfield, lld signed
  | .x86_64, 14 => some { must := .either 8, may := (-(2 ^ 8), 2 ^ 8) }
  | .x86_64, 15 => some (exact (.signed 8))        -- PC8
  | .x86_64, 17 => some (exact .unchecked)         -- DTPOFF64
  | .x86_64, 19 => some (exact (.signed 32))       -- TLSGD
  | .x86_64, 20 => some (exact (.signed 32))       -- TLSLD
  | .x86_64, 21 => some (exact (.signed 32))       -- DTPOFF32
  | .x86_64, 22 => some (exact (.signed 32))       -- GOTTPOFF
  | .x86_64, 23 => some (exact (.signed 32))       -- TPOFF32
  | .x86_64, 24 => some (exact .unchecked)         -- PC64
  | .x86_64, 25 => some (exact .unchecked)         -- GOTOFF64
  | .x86_64, 26 => some (exact (.signed 32))       -- GOTPC32
  | .x86_64, 27 => some (exact .unchecked)         -- GOT64
  | .x86_64, 29 => some (exact .unchecked)         -- GOTPC64
  | .x86_64, 31 => some (exact .unchecked)         -- PLTOFF64
  | .x86_64, 34 => some (exact (.signed 32))       -- GOTPC32_TLSDESC
  | .x86_64, 35 => some (exact .unchecked)         -- TLSDESC_CALL
  | .x86_64, 41 => some (exact (.signed 32))       -- GOTPCRELX
  | .x86_64, 42 => some (exact (.signed 32))       -- REX_GOTPCRELX
  | .x86_64, 43 | .x86_64, 44 | .x86_64, 45 | .x86_64, 46 | .x86_64, 47 | .x86_64, 48
  | .x86_64, 49 | .x86_64, 50 | .x86_64, 51 => some (exact (.signed 32))  -- CODE_{4,5,6}_* (APX forms of the above)
  -- AAELF64 5.7.5 data relocations: ABS32/ABS16/PREL32/PREL16 "-2^31 <= X < 2^32", "-2^15 <= X < 2^16"
  | .aarch64, 0 => some (exact .unchecked)
  | .aarch64, 257 => some (exact .unchecked)       -- ABS64
  | .aarch64, 258 => some (exact (.either 32))     -- ABS32
  | .aarch64, 259 => some (exact (.either 16))     -- ABS16
  | .aarch64, 260 => some (exact .unchecked)       -- PREL64
  | .aarch64, 261 => some (exact (.either 32))     -- PREL32
  | .aarch64, 262 => some (exact (.either 16))     -- PREL16
  | .aarch64, 314 => some (exact (.signed 32))     -- PLT32
  | .aarch64, 315 => some (exact (.signed 32))     -- GOTPCREL32
  -- 5.7.6 group relocations: MOVW_UABS_Gn "0 <= X < 2^(16(n+1))", _NC unchecked, SABS signed
  | .aarch64, 263 => some (exact (.unsigned 16))
  | .aarch64, 264 => some (exact .unchecked)
  | .aarch64, 265 => some (exact (.unsigned 32))
  | .aarch64, 266 => some (exact .unchecked)
  | .aarch64, 267 => some (exact (.unsigned 48))
  | .aarch64, 268 => some (exact .unchecked)
  | .aarch64, 269 => some (exact .unchecked)
  | .aarch64, 270 => some (exact (.signed 17))
  | .aarch64, 271 => some (exact (.signed 33))
  | .aarch64, 272 => some (exact (.signed 49))
  -- 5.7.7 PC-relative: LD_PREL_LO19 / ADR_PREL_LO21 "-2^20 <= X < 2^20", ADR_PREL_PG_HI21 "-2^32 <= X < 2^32"
  | .aarch64, 273 => some { must := .signed 21, align := none }
  | .aarch64, 274 => some (exact (.signed 21))
  | .aarch64, 275 => some (exact (.signed 33))
  | .aarch64, 276 => some (exact .unchecked)
  | .aarch64, 277 => some (exact .unchecked)       -- ADD_ABS_LO12_NC
  | .aarch64, 278 => some (exact .unchecked)       -- LDST8_ABS_LO12_NC
  | .aarch64, 279 => some { must := .signed 16, align := none }   -- TSTBR14
  | .aarch64, 280 => some { must := .signed 21, align := none }   -- CONDBR19
  -- LDST<n>_ABS_LO12_NC: unchecked value, but the linkers insist on n/8-byte alignment
  | .aarch64, 284 => some (exact .unchecked 2)
  | .aarch64, 285 => some (exact .unchecked 4)
  | .aarch64, 286 => some (exact .unchecked 8)
  | .aarch64, 299 => some (exact .unchecked 16)
  -- RISC-V ELF psABI: branch/jump offsets are signed 13/21/9/12-bit even values; R_RISCV_64 is a
  -- 64-bit word; %hi/%pcrel_hi/call: the 32-bit signed value after adding 0x800
  | .riscv64, 0 => some (exact .unchecked)
  | .riscv64, 2 => some (exact .unchecked)
  | .riscv64, 16 => some { must := .signed 13, may := (-(2 ^ 12), 2 ^ 12), align := some 2 }
  | .riscv64, 17 => some { must := .signed 21, may := (-(2 ^ 20), 2 ^ 20), align := some 2 }
  | .riscv64, 44 => some { must := .signed 9, may := (-(2 ^ 8), 2 ^ 8), align := some 2 }
  | .riscv64, 45 => some { must := .signed 12, may := (-(2 ^ 11), 2 ^ 11), align := some 2 }
  | .riscv64, 18 | .riscv64, 19 | .riscv64, 20 | .riscv64, 21 | .riscv64, 22 | .riscv64, 23
  | .riscv64, 26 | .riscv64, 29 =>
      some { must := .signed 32, may := (-(2 ^ 31) - 2048, 2 ^ 31 - 2048), align := some 1 }
  | _, _ => none

/-- For the RISC-V branch rows the table's upper bound is `2^n - 1` (exclusive): on the even values
the alignment admits this is the same set as `< 2^n`; the spec's `must` for these rows is therefore
checked on `[-2^n, 2^n - 1)`. -/
def mustIv (a : Arch) (s : FieldSpec) : Int × Int :=
  match a, s.align with
  | .riscv64, some 2 => (s.must.iv.1, s.must.iv.2 - 1)
  | .riscv64, some 1 => match s.must with
      -- hi20 rows: values both linkers accept are `[-2^31 - 0x800, 2^31 - 0x800)`
      | .signed 32 => (-(2 ^ 31) - 2048, 2 ^ 31 - 2048)
      | _ => s.must.iv
  | _, _ => s.must.iv

/-! ## Statement -/

def inIv (iv : Int × Int) (v : BitVec 64) : Prop := iv.1 ≤ v.toInt ∧ v.toInt < iv.2

def alignedSpec (r : RelocRow) (s : FieldSpec) (v : BitVec 64) : Prop :=
  match s.align with
  | some a => v.toNat % a = 0
  | none => v.toNat % r.alignment = 0

/-- `must ⊆ accept ⊆ may`, for every 64-bit value. -/
def RowSpecHolds (r : RelocRow) (s : FieldSpec) : Prop :=
  ∀ v : BitVec 64,
    (alignedSpec r s v → inIv (mustIv r.arch s) v → accept r v = true) ∧
    (accept r v = true → inIv s.may v ∧ v.toNat % r.alignment = 0)

/-- effective exclusive upper bound of a row (`i64::MAX` = unbounded) -/
def effHi (r : RelocRow) : Int := if r.max = I64_MAX then 2 ^ 63 else r.max

/-- The per-row obligation, decidable; `rowOk_sound` lifts it to all values. -/
def rowOk (r : RelocRow) (s : FieldSpec) : Bool :=
  let m := mustIv r.arch s
  decide (0 < r.alignment) &&
  (match s.align with | some a => decide (a = r.alignment) | none => true) &&
  (decide (r.min ≤ m.1) || decide (r.min ≤ -(2 ^ 63))) &&
  (decide (m.2 ≤ effHi r) || decide (2 ^ 63 ≤ effHi r)) &&
  (decide (s.may.1 ≤ r.min) || decide (s.may.1 ≤ -(2 ^ 63))) &&
  (decide (effHi r ≤ s.may.2) || decide (2 ^ 63 ≤ s.may.2))

theorem toInt_bounds (v : BitVec 64) : -(2 ^ 63 : Int) ≤ v.toInt ∧ v.toInt < 2 ^ 63 := by
  have := BitVec.toInt_eq_toNat_cond v
  have h2 := v.isLt
  split at this <;> omega

theorem accept_iff (r : RelocRow) (v : BitVec 64) (ha : 0 < r.alignment) :
    accept r v = true ↔ v.toNat % r.alignment = 0 ∧ r.min ≤ v.toInt ∧ v.toInt < effHi r := by
  have hb := toInt_bounds v
  have hne : r.alignment ≠ 0 := by omega
  simp only [accept, verify, isMultipleOf, contains, effHi, I64_MAX, hne, if_false]
  by_cases h1 : v.toNat % r.alignment = 0 <;> by_cases h2 : r.min ≤ v.toInt <;>
    by_cases h3 : v.toInt < r.max <;> by_cases h4 : r.max = 9223372036854775807 <;>
    simp [h1, h2, h3, h4] <;> omega

theorem rowOk_sound (r : RelocRow) (s : FieldSpec) (h : rowOk r s = true) : RowSpecHolds r s := by
  intro v
  simp only [rowOk, Bool.and_eq_true, Bool.or_eq_true, decide_eq_true_eq] at h
  obtain ⟨⟨⟨⟨⟨ha, hal⟩, h1⟩, h2⟩, h3⟩, h4⟩ := h
  have hb := toInt_bounds v
  rw [accept_iff r v ha]
  constructor
  · intro hal' hm
    simp only [inIv] at hm
    refine ⟨?_, ?_, ?_⟩
    · simp only [alignedSpec] at hal'
      cases hs : s.align with
      | none => simpa [hs] using hal'
      | some a =>
        simp only [hs, decide_eq_true_eq] at hal hal'
        rw [← hal]; exact hal'
    · omega
    · omega
  · intro ⟨hmod, hlo, hhi⟩
    exact ⟨⟨by omega, by omega⟩, hmod⟩

/-! ## Rows that violate the specification (findings; each keyed `(arch, r_type)`)

RISC-V `%hi`-type rows (CALL, CALL_PLT, GOT_HI20, TLS_GOT_HI20, TLS_GD_HI20, PCREL_HI20, HI20,
TPREL_HI20) carry the range `[-2^31, 2^32)`; the pair `auipc/lui + lo12` can only express
`[-2^31 - 0x800, 2^31 - 0x800)` on RV64 (`Wild.C13.rv_decode_Ui`, `rv_decode_Ui_wraps`) and lld
rejects outside it.  Not a one-row change → known findings. -/
def knownBad : List (Arch × Nat) :=
  [(.riscv64, 18), (.riscv64, 19), (.riscv64, 20), (.riscv64, 21), (.riscv64, 22), (.riscv64, 23),
   (.riscv64, 26), (.riscv64, 29)]

def rowCheck (r : RelocRow) : Bool :=
  match spec r.arch r.rtype with
  | none => true
  | some s => rowOk r s || knownBad.contains (r.arch, r.rtype)

theorem rows_ok : relocRows.all rowCheck = true := by decide +kernel

/-- The list of violating rows is exact (a repaired row has to be removed from it). -/
theorem knownBad_exact :
    knownBad.all (fun (a, t) => relocRows.any (fun r => r.arch == a && r.rtype == t &&
      match spec a t with | some s => !rowOk r s | none => false)) = true := by decide +kernel

/-- **C12, acceptance**: for every regenerated row in scope and not a listed finding, and every
64-bit value: values both reference linkers accept are accepted, and accepted values are not ones
both reject. -/
theorem c12_accept_iff (r : RelocRow) (hr : r ∈ relocRows) (s : FieldSpec)
    (hs : spec r.arch r.rtype = some s) (hk : knownBad.contains (r.arch, r.rtype) = false) :
    RowSpecHolds r s := by
  have h := List.all_eq_true.mp rows_ok r hr
  simp only [rowCheck, hs, hk, Bool.or_false] at h
  exact rowOk_sound r s h

/-- the exact form: where the class is exact and the alignment is specified, `accept ↔ fits`. -/
def fits (s : FieldSpec) (a : Nat) (v : BitVec 64) : Prop := v.toNat % a = 0 ∧ inIv s.must.iv v

theorem c12_exact_iff (r : RelocRow) (s : FieldSpec) (h : RowSpecHolds r s)
    (hmay : s.may = s.must.iv) (hmust : mustIv r.arch s = s.must.iv) (hal : s.align = some r.alignment)
    (v : BitVec 64) : accept r v = true ↔ fits s r.alignment v := by
  obtain ⟨h1, h2⟩ := h v
  constructor
  · intro ha
    obtain ⟨hi, hm⟩ := h2 ha
    exact ⟨hm, by rw [← hmay]; exact hi⟩
  · intro ⟨hm, hi⟩
    apply h1
    · simp only [alignedSpec, hal]; exact hm
    · rw [hmust]; exact hi

/-- Non-vacuity: the x86-64 rows for 8/16/32/32S/64 are in the table, in scope, exact or bracketed. -/
example : (lookup .x86_64 14).isSome ∧ (spec .x86_64 14).isSome ∧ (lookup .x86_64 10).isSome := by decide +kernel

/-- Regression witnesses for the fixes of this property: the rows as they were violate `rowOk`. -/
theorem x86_8_signed_only_witness :
    rowOk ⟨.x86_64, 14, "R_X86_64_8", "Absolute", .bytes 1, -128, 128, 1, 0, "nomask", false⟩
      ((spec .x86_64 14).getD (exact .unchecked)) = false := by decide +kernel
theorem x86_16_signed_only_witness :
    rowOk ⟨.x86_64, 12, "R_X86_64_16", "Absolute", .bytes 2, -32768, 32768, 1, 0, "nomask", false⟩
      ((spec .x86_64 12).getD (exact .unchecked)) = false := by decide +kernel
theorem x86_got32_unsigned_witness :
    rowOk ⟨.x86_64, 3, "R_X86_64_GOT32", "GotRelGotBase", .bytes 4, 0, 4294967296, 1, 0, "nomask", false⟩
      ((spec .x86_64 3).getD (exact .unchecked)) = false := by decide +kernel
/-- `no_check()` used to reject `i64::MAX`: -/
theorem nocheck_i64max_witness : containsUnfixed noCheck I64_MAX = false ∧ contains noCheck I64_MAX = true := by
  decide +kernel

/-! ## No silent truncation (byte-sized rows) -/

/-- the number denoted by little-endian bytes -/
def leValue : List UInt8 → Nat
  | [] => 0
  | b :: bs => b.toNat + 256 * leValue bs

/-- zero- and sign-extending decoders of an `n`-byte field holding the number `m < 256^n` -/
def zdec (m : Nat) : Int := m
def sdec (n : Nat) (m : Nat) : Int := if m < 2 ^ (8 * n - 1) then m else (m : Int) - 2 ^ (8 * n)

/-- Kinds whose field is an arithmetic accumulator / partial word by definition (ADD/SUB/SET
families, 6-bit words, ULEB128): wrap-around is their specified behaviour. -/
def wrapKinds : List String :=
  ["AbsoluteAddition", "AbsoluteSubtraction", "AbsoluteSet", "AbsoluteSetWord6", "AbsoluteAdditionWord6",
   "AbsoluteSubtractionWord6", "PairSubtractionULEB128_60_", "PairSubtractionULEB128_107_"]

/-- Unchecked narrow rows that could not be probed (no LoongArch64 toolchain): R_LARCH_TLS_DTPREL32. -/
def truncUnprobed : List (Arch × Nat) := [(.loongarch64, 8)]

/-- a byte row whose allowed range fits the field under one of the two extension rules -/
def rangeFitsBytes (r : RelocRow) (n : Nat) : Bool :=
  decide (1 ≤ n) && decide (n ≤ 7) && decide (-(2 ^ (8 * n - 1)) ≤ r.min) && decide (effHi r ≤ 2 ^ (8 * n))

def rowTruncOk (r : RelocRow) : Bool :=
  match r.size with
  | .bits .. => true
  | .bytes n => n == 0 || n == 8 || rangeFitsBytes r n || wrapKinds.contains r.kind
      || truncUnprobed.contains (r.arch, r.rtype)

theorem rows_trunc_ok : relocRows.all rowTruncOk = true := by decide +kernel

theorem leValue_leBytesAux (n x : Nat) : leValue ((List.range n).map fun i => UInt8.ofNat ((x >>> (8 * i)) % 256)) = x % 256 ^ n := by
  induction n generalizing x with
  | zero => simp [leValue, Nat.mod_one]
  | succ n ih =>
    rw [List.range_succ_eq_map, List.map_cons, List.map_map, leValue]
    have h := ih (x / 256)
    have hf : ((fun i => UInt8.ofNat ((x >>> (8 * i)) % 256)) ∘ Nat.succ) = fun i => UInt8.ofNat (((x / 256) >>> (8 * i)) % 256) := by
      funext i
      simp only [Function.comp, Nat.shiftRight_eq_div_pow]
      congr 2
      rw [Nat.div_div_eq_div_mul, Nat.succ_eq_add_one, Nat.mul_add, Nat.pow_add]
      simp [Nat.mul_comm]
    rw [hf, h]
    have : (UInt8.ofNat ((x >>> (8 * 0)) % 256)).toNat = x % 256 := by simp
    rw [this, Nat.pow_succ, Nat.mul_comm (256 ^ n) 256, Nat.mod_mul]

/-- the written bytes of an `n`-byte row denote `v mod 256^n` -/
theorem leValue_leBytes (n : Nat) (v : BitVec 64) : leValue (leBytes n v) = v.toNat % 256 ^ n :=
  leValue_leBytesAux n v.toNat

/-- **C12, no silent truncation**: on a byte row whose range fits the field, every accepted value
is recovered from the written bytes by zero- or by sign-extension. -/
theorem c12_no_truncation (r : RelocRow) (n : Nat) (hs : r.size = .bytes n) (hf : rangeFitsBytes r n = true)
    (ha : 0 < r.alignment) (v : BitVec 64) (hacc : accept r v = true) :
    zdec (leValue (leBytes n v)) = v.toInt ∨ sdec n (leValue (leBytes n v)) = v.toInt := by
  rw [leValue_leBytes]
  simp only [rangeFitsBytes, Bool.and_eq_true, decide_eq_true_eq] at hf
  obtain ⟨⟨⟨h1, h7⟩, hlo⟩, hhi⟩ := hf
  obtain ⟨_, hmin, hmax⟩ := (accept_iff r v ha).mp hacc
  have hcond := BitVec.toInt_eq_toNat_cond v
  have hlt := v.isLt
  simp only [zdec, sdec]
  have hn : n = 1 ∨ n = 2 ∨ n = 3 ∨ n = 4 ∨ n = 5 ∨ n = 6 ∨ n = 7 := by omega
  rcases hn with rfl | rfl | rfl | rfl | rfl | rfl | rfl <;>
    (simp only [Nat.reduceMul, Nat.reduceSub, Nat.reducePow, Int.reducePow, Int.reduceNeg] at hlo hhi ⊢; split at hcond <;> omega)

/-- 8-byte rows write the whole value. -/
theorem c12_no_truncation_8 (v : BitVec 64) : leValue (leBytes 8 v) = v.toNat := by
  rw [leValue_leBytes]; exact Nat.mod_eq_of_lt (by have := v.isLt; omega)

end Wild.C12
