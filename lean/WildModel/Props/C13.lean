import WildModel.Model.Insn
import WildModel.Props.C13Spec
import WildModel.Gen.RelocTables
import Std.Tactic.BVDecide
/-!
# C13 — Instruction immediate fields are encoded exactly and locally

For every instruction kind `k` of the three architectures, all initial words `w`, `w'` and every
in-range extracted value `v`:

* (L) locality      `write k v w &&& ~~~mask k = w &&& ~~~mask k`
* (I) independence  `write k v w &&& mask k = write k v w' &&& mask k`
* (R) round trip    `field k (write k v w) = v` — the ISA's immediate of the written word is the value

`mask`/`field`/`decode` are the ISA-manual side (`Props/C13Spec.lean`); `write`/`read` are the model
of wild's code (`Model/Insn.lean`).  "In range" is `v < 2 ^ width k` where the encoder does not
truncate by itself; where it does (all RISC-V kinds, most LoongArch64 kinds) the theorems hold for
every 64-bit `v` and (R) is stated on the truncated value.

Reader theorems (`read k = decode k`, used by linker-diff, feeding C34) are stated where they hold;
where wild's reader deviates from the manual a witness theorem records the deviation.

Finally `rows_in_range` ties the per-kind "in range" hypothesis to the regenerated relocation
tables: every table row hands its instruction kind at most `width k` bits (exceptions are listed
explicitly and are reported by the check as findings).
-/
namespace Wild.C13
open Wild.Insn Wild.InsnSpec

/-! ## AArch64 -/

/-- 64-bit move-wide class: sf = 1 and bits [28:23] = 100101 (MOVN/MOVZ/MOVK Xd). -/
def isMovWide64 (w : BitVec 32) : Prop := w &&& 0x9f800000#32 = 0x92800000#32

/-- (L) for every kind except `Movnz`. -/
theorem a64_local (k : A64) (hk : k ≠ .Movnz) (v : BitVec 64) (neg : Bool) (w : BitVec 32)
    (h : v < A64S.bound k) :
    A64.write k v neg w &&& ~~~A64S.mask k = w &&& ~~~A64S.mask k := by
  cases k <;> first | (exact absurd rfl hk) | skip
  all_goals
    simp only [A64.write, A64.immBits, A64.preClear, A64.immediateMask, A64S.mask, A64S.bound,
      extractBitRange, u32] at h ⊢
    bv_decide

/-- (L) for `Movnz` on 64-bit move-wide instructions: only imm16 and opc change. -/
theorem a64_local_movnz (v : BitVec 64) (neg : Bool) (w : BitVec 32) (hw : isMovWide64 w) :
    A64.write .Movnz v neg w &&& ~~~A64S.mask .Movnz = w &&& ~~~A64S.mask .Movnz := by
  simp only [isMovWide64] at hw
  simp only [A64.write, A64.immBits, A64.preClear, A64.immediateMask, A64S.mask, extractBitRange, u32]
  cases neg <;> simp <;> bv_decide

/-- Full-strength (L) for AArch64 (all kinds, all initial words). -/
def a64_local_full : Prop :=
  ∀ (k : A64) (v : BitVec 64) (neg : Bool) (w : BitVec 32), v < A64S.bound k →
    A64.write k v neg w &&& ~~~A64S.mask k = w &&& ~~~A64S.mask k

/-- `Movnz` rewrites the whole opcode (`sf`, bits [28:23]) rather than only opc[30:29]: a 32-bit
`movz w0, #0` (0x52800000) becomes the 64-bit `movz x0, #5`.  Known finding `aarch64:Movnz:opcode`. -/
theorem a64_local_full_witness : ¬ a64_local_full := by
  intro h
  have := h .Movnz 5#64 false 0x52800000#32 (by decide)
  revert this
  decide

/-- (I): the field content never depends on the previous word. -/
theorem a64_indep (k : A64) (v : BitVec 64) (neg : Bool) (w w' : BitVec 32) :
    A64.write k v neg w &&& A64S.mask k = A64.write k v neg w' &&& A64S.mask k := by
  cases k <;>
    simp only [A64.write, A64.immBits, A64.preClear, A64.immediateMask, A64S.mask, extractBitRange, u32] <;>
    bv_decide

/-- (R): the ISA's immediate of the written word is the written value. -/
theorem a64_roundtrip (k : A64) (v : BitVec 64) (neg : Bool) (w : BitVec 32) (h : v < A64S.bound k) :
    A64S.field k (A64.write k v neg w) = v := by
  cases k <;>
    simp only [A64.write, A64.immBits, A64.preClear, A64.immediateMask, A64S.field, A64S.bound, bits,
      extractBitRange, u32] at h ⊢
  case Movnz => cases neg <;> simp <;> bv_decide
  all_goals bv_decide

/-- Regression witness for fix c13-aarch64-clear-field: the code as it was (OR without clearing)
violates (I): `add x0, x0, #0xfff` (0x913ffc00) relocated with value 1 keeps 0xfff. -/
theorem a64_unfixed_indep_witness :
    ¬ ∀ (k : A64) (v : BitVec 64) (neg : Bool) (w w' : BitVec 32),
      A64.writeUnfixed k v neg w &&& A64S.mask k = A64.writeUnfixed k v neg w' &&& A64S.mask k := by
  intro h
  have := h .Add 1#64 false 0x913ffc00#32 0x91000000#32
  revert this
  decide

/-- The cleared mask of the code is the ISA mask (for `Movnz` the code additionally rewrites opc). -/
theorem a64_code_mask (k : A64) (hk : k ≠ .Movnz) : A64.immediateMask k = A64S.mask k := by
  cases k <;> first | (exact absurd rfl hk) | rfl

/-- `read_value` agrees with the manual's decoding (value and MOVN flag) for every kind except
`Movkz` and `LdSt`. -/
theorem a64_read (k : A64) (hk : k ≠ .Movkz ∧ k ≠ .LdSt) (w : BitVec 32) :
    (A64.read k w).1 = A64S.decode k w := by
  obtain ⟨h1, h2⟩ := hk
  cases k <;> first | (exact absurd rfl h1) | (exact absurd rfl h2) | skip
  all_goals
    simp only [A64.read, A64S.decode, bits, lowBits, lowBitsSigned, signExtend, u64]
    bv_decide

theorem a64_read_movnz_flag (w : BitVec 32) : (A64.read .Movnz w).2 = !w.getLsbD 30 := by
  simp only [A64.read, u64]
  bv_decide

/-- `Movkz` and `LdSt` readers sign-extend fields that the manual zero-extends (MOVK imm16, LDR/STR
unsigned-offset imm12); they still determine the field (enough for linker-diff's comparisons). -/
theorem a64_read_movkz_ldst (w : BitVec 32) :
    (A64.read .Movkz w).1 = (bits w 5 16).signExtend 64 ∧ (A64.read .LdSt w).1 = (bits w 10 12).signExtend 64 := by
  constructor <;>
    (simp only [A64.read, bits, lowBits, lowBitsSigned, signExtend, u64]; bv_decide)

theorem a64_read_movkz_witness : (A64.read .Movkz 0x00100000#32).1 ≠ A64S.decode .Movkz 0x00100000#32 := by
  decide

/-! ## RISC-V -/

section RV
open Wild.Insn.RV

/-- unfolding set for the RISC-V encoders -/
syntax "rv_unfold" (Lean.Parser.Tactic.location)? : tactic
macro_rules
  | `(tactic| rv_unfold $[$loc]?) => `(tactic| simp only [writeU, writeI, writeS, writeB, writeJ, writeUi, writeCb, writeCj, writeClui,
      readU, readI, readS, readB, readJ, readUi, readCb, readCj, readClui, sext32, isNeg,
      extractBit, extractBitRange, u32,
      UTYPE_IMMEDIATE_MASK, ITYPE_IMMEDIATE_MASK, STYPE_IMMEDIATE_MASK, BTYPE_IMMEDIATE_MASK,
      JTYPE_IMMEDIATE_MASK, CBTYPE_IMMEDIATE_MASK, CJTYPE_IMMEDIATE_MASK, CLUITYPE_IMMEDIATE_MASK,
      InsnSpec.RV.maskU, InsnSpec.RV.maskI, InsnSpec.RV.maskS, InsnSpec.RV.maskB, InsnSpec.RV.maskJ,
      InsnSpec.RV.maskUi, InsnSpec.RV.maskCb, InsnSpec.RV.maskCj, InsnSpec.RV.maskClui,
      InsnSpec.RV.fieldU, InsnSpec.RV.fieldI, InsnSpec.RV.fieldS, InsnSpec.RV.fieldB, InsnSpec.RV.fieldJ,
      InsnSpec.RV.fieldCb, InsnSpec.RV.fieldCj, InsnSpec.RV.fieldClui,
      InsnSpec.RV.decodeU, InsnSpec.RV.decodeI, InsnSpec.RV.decodeS, InsnSpec.RV.decodeB,
      InsnSpec.RV.decodeJ, InsnSpec.RV.decodeCb, InsnSpec.RV.decodeCj, InsnSpec.RV.decodeClui,
      InsnSpec.RV.decodeUi, bits] $[$loc]?)

-- (L): every 64-bit value, every word
theorem rv_local_U (v : BitVec 64) (w : BitVec 32) : writeU v w &&& ~~~InsnSpec.RV.maskU = w &&& ~~~InsnSpec.RV.maskU := by rv_unfold; bv_decide
theorem rv_local_I (v : BitVec 64) (w : BitVec 32) : writeI v w &&& ~~~InsnSpec.RV.maskI = w &&& ~~~InsnSpec.RV.maskI := by rv_unfold; bv_decide
theorem rv_local_S (v : BitVec 64) (w : BitVec 32) : writeS v w &&& ~~~InsnSpec.RV.maskS = w &&& ~~~InsnSpec.RV.maskS := by rv_unfold; bv_decide
theorem rv_local_B (v : BitVec 64) (w : BitVec 32) : writeB v w &&& ~~~InsnSpec.RV.maskB = w &&& ~~~InsnSpec.RV.maskB := by rv_unfold; bv_decide
theorem rv_local_J (v : BitVec 64) (w : BitVec 32) : writeJ v w &&& ~~~InsnSpec.RV.maskJ = w &&& ~~~InsnSpec.RV.maskJ := by rv_unfold; bv_decide
theorem rv_local_Ui (v : BitVec 64) (w : BitVec 64) : writeUi v w &&& ~~~InsnSpec.RV.maskUi = w &&& ~~~InsnSpec.RV.maskUi := by rv_unfold; bv_decide
theorem rv_local_Cb (v : BitVec 64) (w : BitVec 16) : writeCb v w &&& ~~~InsnSpec.RV.maskCb = w &&& ~~~InsnSpec.RV.maskCb := by rv_unfold; bv_decide
theorem rv_local_Cj (v : BitVec 64) (w : BitVec 16) : writeCj v w &&& ~~~InsnSpec.RV.maskCj = w &&& ~~~InsnSpec.RV.maskCj := by rv_unfold; bv_decide
theorem rv_local_Clui (v : BitVec 64) (w : BitVec 16) : writeClui v w &&& ~~~InsnSpec.RV.maskClui = w &&& ~~~InsnSpec.RV.maskClui := by rv_unfold; bv_decide

-- (I)
theorem rv_indep_U (v : BitVec 64) (w w' : BitVec 32) : writeU v w &&& InsnSpec.RV.maskU = writeU v w' &&& InsnSpec.RV.maskU := by rv_unfold; bv_decide
theorem rv_indep_I (v : BitVec 64) (w w' : BitVec 32) : writeI v w &&& InsnSpec.RV.maskI = writeI v w' &&& InsnSpec.RV.maskI := by rv_unfold; bv_decide
theorem rv_indep_S (v : BitVec 64) (w w' : BitVec 32) : writeS v w &&& InsnSpec.RV.maskS = writeS v w' &&& InsnSpec.RV.maskS := by rv_unfold; bv_decide
theorem rv_indep_B (v : BitVec 64) (w w' : BitVec 32) : writeB v w &&& InsnSpec.RV.maskB = writeB v w' &&& InsnSpec.RV.maskB := by rv_unfold; bv_decide
theorem rv_indep_J (v : BitVec 64) (w w' : BitVec 32) : writeJ v w &&& InsnSpec.RV.maskJ = writeJ v w' &&& InsnSpec.RV.maskJ := by rv_unfold; bv_decide
theorem rv_indep_Ui (v : BitVec 64) (w w' : BitVec 64) : writeUi v w &&& InsnSpec.RV.maskUi = writeUi v w' &&& InsnSpec.RV.maskUi := by rv_unfold; bv_decide
theorem rv_indep_Cb (v : BitVec 64) (w w' : BitVec 16) : writeCb v w &&& InsnSpec.RV.maskCb = writeCb v w' &&& InsnSpec.RV.maskCb := by rv_unfold; bv_decide
theorem rv_indep_Cj (v : BitVec 64) (w w' : BitVec 16) : writeCj v w &&& InsnSpec.RV.maskCj = writeCj v w' &&& InsnSpec.RV.maskCj := by rv_unfold; bv_decide
theorem rv_indep_Clui (v : BitVec 64) (w w' : BitVec 16) : writeClui v w &&& InsnSpec.RV.maskClui = writeClui v w' &&& InsnSpec.RV.maskClui := by rv_unfold; bv_decide

-- (R) on the field: the encoders truncate, so the statement holds for every 64-bit `v`.
/-- U-type: the field is the psABI's `hi20 = (v + 0x800) >> 12`. -/
theorem rv_roundtrip_U (v : BitVec 64) (w : BitVec 32) : InsnSpec.RV.fieldU (writeU v w) = bits (v + 0x800#64) 12 20 := by rv_unfold; bv_decide
theorem rv_roundtrip_I (v : BitVec 64) (w : BitVec 32) : InsnSpec.RV.fieldI (writeI v w) = bits v 0 12 := by rv_unfold; bv_decide
theorem rv_roundtrip_S (v : BitVec 64) (w : BitVec 32) : InsnSpec.RV.fieldS (writeS v w) = bits v 0 12 := by rv_unfold; bv_decide
/-- branch offsets are even (the table rows carry alignment 2) -/
theorem rv_roundtrip_B (v : BitVec 64) (w : BitVec 32) (he : v &&& 1#64 = 0#64) : InsnSpec.RV.fieldB (writeB v w) = bits v 0 13 := by rv_unfold; bv_decide
theorem rv_roundtrip_J (v : BitVec 64) (w : BitVec 32) (he : v &&& 1#64 = 0#64) : InsnSpec.RV.fieldJ (writeJ v w) = bits v 0 21 := by rv_unfold; bv_decide
theorem rv_roundtrip_Cb (v : BitVec 64) (w : BitVec 16) (he : v &&& 1#64 = 0#64) : InsnSpec.RV.fieldCb (writeCb v w) = bits v 0 9 := by rv_unfold; bv_decide
theorem rv_roundtrip_Cj (v : BitVec 64) (w : BitVec 16) (he : v &&& 1#64 = 0#64) : InsnSpec.RV.fieldCj (writeCj v w) = bits v 0 12 := by rv_unfold; bv_decide
theorem rv_roundtrip_Clui (v : BitVec 64) (w : BitVec 16) : InsnSpec.RV.fieldClui (writeClui v w) = bits (v + 0x800#64) 12 6 := by rv_unfold; bv_decide

-- (R) on the decoded value: a signed in-range value comes back exactly.
theorem rv_decode_I (x : BitVec 64) (w : BitVec 32) (h : (bits x 0 12).signExtend 64 = x) : InsnSpec.RV.decodeI (writeI x w) = x := by rv_unfold at h ⊢; bv_decide
theorem rv_decode_S (x : BitVec 64) (w : BitVec 32) (h : (bits x 0 12).signExtend 64 = x) : InsnSpec.RV.decodeS (writeS x w) = x := by rv_unfold at h ⊢; bv_decide
theorem rv_decode_B (x : BitVec 64) (w : BitVec 32) (h : (bits x 0 13).signExtend 64 = x) (he : x &&& 1#64 = 0#64) : InsnSpec.RV.decodeB (writeB x w) = x := by rv_unfold at h ⊢; bv_decide
theorem rv_decode_J (x : BitVec 64) (w : BitVec 32) (h : (bits x 0 21).signExtend 64 = x) (he : x &&& 1#64 = 0#64) : InsnSpec.RV.decodeJ (writeJ x w) = x := by rv_unfold at h ⊢; bv_decide
theorem rv_decode_Cb (x : BitVec 64) (w : BitVec 16) (h : (bits x 0 9).signExtend 64 = x) (he : x &&& 1#64 = 0#64) : InsnSpec.RV.decodeCb (writeCb x w) = x := by rv_unfold at h ⊢; bv_decide
theorem rv_decode_Cj (x : BitVec 64) (w : BitVec 16) (h : (bits x 0 12).signExtend 64 = x) (he : x &&& 1#64 = 0#64) : InsnSpec.RV.decodeCj (writeCj x w) = x := by rv_unfold at h ⊢; bv_decide

/-- The `auipc`+I-type pair denotes `v` modulo 2^32 for every `v`. -/
theorem rv_decode_Ui_mod (v : BitVec 64) (w : BitVec 64) :
    (InsnSpec.RV.decodeUi (writeUi v w)).setWidth 32 = v.setWidth 32 := by rv_unfold; bv_decide

/-- ... and exactly `x` for every signed offset in `[-2^31 - 0x800, 2^31 - 0x800)` (the RV64 range of
`auipc`+`jalr`); the relocation's bit range `0..32` hands the encoder `x &&& 0xffffffff`. -/
theorem rv_decode_Ui (x : BitVec 64) (w : BitVec 64)
    (hlo : (0xffffffff7ffff800#64).sle x) (hhi : x.slt 0x7ffff800#64) :
    InsnSpec.RV.decodeUi (writeUi (extractBitRange x 0 32) w) = x := by rv_unfold; bv_decide

/-- Outside that range the pair denotes a different address although it fits in 32 bits unsigned:
the witness the C12 check uses for the RISC-V `..._HI20`/`CALL` rows (range `[-2^31, 2^32)`). -/
theorem rv_decode_Ui_wraps :
    InsnSpec.RV.decodeUi (writeUi (extractBitRange 0x7ffff800#64 0 32) 0#64) ≠ 0x7ffff800#64 := by decide

-- readers
theorem rv_read_I (w : BitVec 32) : (readI w).1 = InsnSpec.RV.decodeI w := by rv_unfold; bv_decide
theorem rv_read_S (w : BitVec 32) : (readS w).1 = InsnSpec.RV.decodeS w := by rv_unfold; bv_decide
theorem rv_read_B (w : BitVec 32) : (readB w).1 = InsnSpec.RV.decodeB w := by rv_unfold; bv_decide
theorem rv_read_J (w : BitVec 32) : (readJ w).1 = InsnSpec.RV.decodeJ w := by rv_unfold; bv_decide
theorem rv_read_Cb (w : BitVec 16) : (readCb w).1 = InsnSpec.RV.decodeCb w := by rv_unfold; bv_decide
theorem rv_read_Cj (w : BitVec 16) : (readCj w).1 = InsnSpec.RV.decodeCj w := by rv_unfold; bv_decide
/-- The U/CLUI readers return `sext(field) - 0x800` resp. `(sext(nzimm) << 12) - 0x800`, i.e. the
low end of the set of values that encode to this field — not the manual's immediate, but a function
of the field alone that determines it. -/
theorem rv_read_U (w : BitVec 32) : (readU w).1 = (InsnSpec.RV.fieldU w).signExtend 64 - 0x800#64 := by rv_unfold; bv_decide
theorem rv_read_Clui (w : BitVec 16) : (readClui w).1 = InsnSpec.RV.decodeClui w - 0x800#64 := by rv_unfold; bv_decide
/-- `UiType` reader is `(hi << 12) | lo` with `hi = readU`, `lo = sext(imm12)`: when `lo` is
negative the OR swallows `hi` — the reader is not injective on the field (observation for C34). -/
theorem rv_read_Ui_not_injective :
    (readUi 0xfff0000000001000#64).1 = (readUi 0xfff0000000002000#64).1 := by decide

end RV

/-! ## LoongArch64 -/

section LA
open Wild.Insn.LA

syntax "la_unfold" (Lean.Parser.Tactic.location)? : tactic
macro_rules
  | `(tactic| la_unfold $[$loc]?) => `(tactic| simp only [writeShift5, writeShift10, writeBranch21, writeBranch26, writeCall30, writeCall36,
      writeCall36Unfixed, CALL30_CLEAR, CALL36_CLEAR,
      readShift5, readShift10, readBranch21, readBranch26, readCall30, readCall36, RV.sext32, RV.isNeg, u32, u64,
      InsnSpec.LA.maskShift5, InsnSpec.LA.maskShift10, InsnSpec.LA.mask2RI16, InsnSpec.LA.maskBranch21,
      InsnSpec.LA.maskBranch26, InsnSpec.LA.maskCall36,
      InsnSpec.LA.fieldShift5, InsnSpec.LA.fieldShift10, InsnSpec.LA.field2RI16, InsnSpec.LA.fieldBranch21,
      InsnSpec.LA.fieldBranch26, InsnSpec.LA.decodeBranch21, InsnSpec.LA.decodeBranch26,
      InsnSpec.LA.decodeCall36, bits] $[$loc]?)

-- (L): `Shift5`/`Shift10` do not truncate, so they need the in-range hypothesis; the others hold for all `v`.
theorem la_local_Shift5 (v : BitVec 64) (w : BitVec 32) (h : v < 0x100000#64) : writeShift5 v w &&& ~~~InsnSpec.LA.maskShift5 = w &&& ~~~InsnSpec.LA.maskShift5 := by la_unfold; bv_decide
theorem la_local_Shift10 (v : BitVec 64) (w : BitVec 32) (h : v < 0x1000#64) : writeShift10 v w &&& ~~~InsnSpec.LA.maskShift10 = w &&& ~~~InsnSpec.LA.maskShift10 := by la_unfold; bv_decide
theorem la_local_Branch21 (v : BitVec 64) (w : BitVec 32) (h : v < 0x200000#64) : writeBranch21 v w &&& ~~~InsnSpec.LA.maskBranch21 = w &&& ~~~InsnSpec.LA.maskBranch21 := by la_unfold; bv_decide
theorem la_local_Branch26 (v : BitVec 64) (w : BitVec 32) (h : v < 0x4000000#64) : writeBranch26 v w &&& ~~~InsnSpec.LA.maskBranch26 = w &&& ~~~InsnSpec.LA.maskBranch26 := by la_unfold; bv_decide
theorem la_local_Call36 (v : BitVec 64) (w : BitVec 64) (h : v < 0x1000000000#64) : writeCall36 v w &&& ~~~InsnSpec.LA.maskCall36 = w &&& ~~~InsnSpec.LA.maskCall36 := by la_unfold; bv_decide
/-- `Call30`: locality w.r.t. the mask the code itself declares (no ISA statement, see below). -/
theorem la_local_Call30 (v : BitVec 64) (w : BitVec 64) (h : v < 0x100000#64) : writeCall30 v w &&& CALL30_CLEAR = w &&& CALL30_CLEAR := by la_unfold; bv_decide

-- (I)
theorem la_indep_Shift5 (v : BitVec 64) (w w' : BitVec 32) : writeShift5 v w &&& InsnSpec.LA.maskShift5 = writeShift5 v w' &&& InsnSpec.LA.maskShift5 := by la_unfold; bv_decide
theorem la_indep_Shift10 (v : BitVec 64) (w w' : BitVec 32) : writeShift10 v w &&& InsnSpec.LA.maskShift10 = writeShift10 v w' &&& InsnSpec.LA.maskShift10 := by la_unfold; bv_decide
theorem la_indep_Branch21 (v : BitVec 64) (w w' : BitVec 32) : writeBranch21 v w &&& InsnSpec.LA.maskBranch21 = writeBranch21 v w' &&& InsnSpec.LA.maskBranch21 := by la_unfold; bv_decide
theorem la_indep_Branch26 (v : BitVec 64) (w w' : BitVec 32) : writeBranch26 v w &&& InsnSpec.LA.maskBranch26 = writeBranch26 v w' &&& InsnSpec.LA.maskBranch26 := by la_unfold; bv_decide
theorem la_indep_Call36 (v : BitVec 64) (w w' : BitVec 64) : writeCall36 v w &&& InsnSpec.LA.maskCall36 = writeCall36 v w' &&& InsnSpec.LA.maskCall36 := by la_unfold; bv_decide
theorem la_indep_Call30 (v : BitVec 64) (w w' : BitVec 64) : writeCall30 v w &&& ~~~CALL30_CLEAR = writeCall30 v w' &&& ~~~CALL30_CLEAR := by la_unfold; bv_decide

-- (R)
theorem la_roundtrip_Shift5 (v : BitVec 64) (w : BitVec 32) (h : v < 0x100000#64) : (InsnSpec.LA.fieldShift5 (writeShift5 v w)).setWidth 64 = v := by la_unfold; bv_decide
theorem la_roundtrip_Shift10 (v : BitVec 64) (w : BitVec 32) (h : v < 0x1000#64) : (InsnSpec.LA.fieldShift10 (writeShift10 v w)).setWidth 64 = v := by la_unfold; bv_decide
theorem la_roundtrip_Branch21 (v : BitVec 64) (w : BitVec 32) (h : v < 0x200000#64) : (InsnSpec.LA.fieldBranch21 (writeBranch21 v w)).setWidth 64 = v := by la_unfold; bv_decide
theorem la_roundtrip_Branch26 (v : BitVec 64) (w : BitVec 32) (h : v < 0x4000000#64) : (InsnSpec.LA.fieldBranch26 (writeBranch26 v w)).setWidth 64 = v := by la_unfold; bv_decide
/-- `pcaddu18i`+`jirl`: the pair denotes `v` (a word offset, 36 bits two's complement). -/
theorem la_roundtrip_Call36 (v : BitVec 64) (w : BitVec 64) (h : v < 0x1000000000#64) :
    (InsnSpec.LA.decodeCall36 (writeCall36 v w)).setWidth 36 = v.setWidth 36 := by la_unfold; bv_decide

/-- Regression witness for fix c13-loongarch-call36-carry: for a small negative offset the carry of
`v + 0x8000` was OR-ed into bit 25 of `pcaddu18i` (harmless on a real `pcaddu18i`, whose bit 25 is
set, but a locality violation for arbitrary words). -/
theorem la_unfixed_call36_witness :
    writeCall36Unfixed 0xfffffffff#64 0#64 &&& ~~~InsnSpec.LA.maskCall36 ≠ 0#64 &&& ~~~InsnSpec.LA.maskCall36 := by decide

/-- `R_LARCH_B16` uses `Shift10` with a 16-bit value: the code clears only the 12-bit field
[21:10] but ORs 16 bits: bits [25:22] of the new field depend on the old word.  Known finding
`loongarch64:64:Shift10-width`. -/
theorem la_shift10_b16_witness :
    writeShift10 0#64 0xffffffff#32 &&& InsnSpec.LA.mask2RI16 ≠ writeShift10 0#64 0#32 &&& InsnSpec.LA.mask2RI16 := by decide

-- readers
theorem la_read_Shift5 (w : BitVec 32) : (readShift5 w).1 = (InsnSpec.LA.fieldShift5 w).setWidth 64 := by la_unfold; bv_decide
theorem la_read_Shift10 (w : BitVec 32) : (readShift10 w).1 = (InsnSpec.LA.fieldShift10 w).setWidth 64 := by la_unfold; bv_decide
theorem la_read_Branch21 (w : BitVec 32) : (readBranch21 w).1 = InsnSpec.LA.decodeBranch21 w := by la_unfold; bv_decide
theorem la_read_Branch26 (w : BitVec 32) : (readBranch26 w).1 = InsnSpec.LA.decodeBranch26 w := by la_unfold; bv_decide

/-- `Call30`: `read_value` is not the inverse of `write_to_value` (it takes the first instruction
from the high half and the second from the low half, and uses different bit positions).  Known
finding `loongarch64:Call30:read`. -/
theorem la_call30_read_write_witness : (readCall30 (writeCall30 0x1ffff#64 0#64)).1 ≠ 0x1ffff#64 := by decide

end LA

/-! ## Tie to the relocation tables: every row hands its encoder an in-range value

`write_to_buffer` passes `value.extract_bit_range(start..end)`, i.e. `end - start` bits.  (L) and
(R) above need at most `width kind` bits for the kinds that do not truncate themselves. -/

open Wild.Gen in
/-- Field width of the kinds whose encoders do not truncate (`none`: the encoder truncates itself,
every RISC-V kind and AArch64 `Movnz`; `MachOLow12` is not used by any ELF row). -/
def kindWidth : InsnKind → Option Nat
  | .a64Adr => some 21 | .a64Movkz => some 16
  | .a64Ldr => some 19 | .a64Bcond => some 19 | .a64LdrRegister => some 12
  | .a64Add => some 12 | .a64LdSt => some 12 | .a64TstBr => some 14
  | .a64JumpCall => some 26 | .a64MachOLow12 => some 0
  | .laShift5 => some 20 | .laShift10 => some 12
  | .laBranch21 => some 21 | .laBranch26 => some 26
  | .laCall30 => some 20 | .laCall36 => some 36
  | _ => none

open Wild.Gen in
/-- Rows whose bit range is wider than the field of their instruction kind (findings, keyed by
`(arch, r_type)`): R_LARCH_B16 (Shift10, 16 bits; known finding `loongarch64:64:width`).
(R_AARCH64_GOT_LD_PREL19 (was LdSt with 19 bits) and R_AARCH64_TLSLD_LD_PREL19 (was Ldr with 21
bits) were on this list until fix c12-aarch64-table-rows.) -/
def widthExceptions : List (Arch × Nat) :=
  [(.loongarch64, 64)]

open Wild.Gen in
def tooWide (r : RelocRow) : Bool :=
  match r.size with
  | .bytes _ => false
  | .bits s e k =>
    match kindWidth k with
    | none => false
    | some n => decide (n < e - s)

def rowInRange (r : Wild.Gen.RelocRow) : Bool :=
  !tooWide r || widthExceptions.contains (r.arch, r.rtype)

/-- Every instruction row of every architecture hands its encoder at most `width kind` bits,
except the listed rows. -/
theorem rows_in_range : Wild.Gen.relocRows.all rowInRange = true := by decide +kernel

/-- The exception list is exact: each listed row really is too wide (so a repaired row must be
removed from the list, and the check then stops reporting it). -/
theorem width_exceptions_exact :
    widthExceptions.all (fun (a, t) =>
      Wild.Gen.relocRows.any (fun r => r.arch == a && r.rtype == t && tooWide r)) = true := by
  decide +kernel

end Wild.C13
