import WildModel.Model.Insn
/-
# C13 — specification side: where the ISA manuals put the immediates

Written from the manuals, independently of wild's encoders (bit-slices `extractLsb'` and `++`
instead of wild's shift/mask arithmetic).  Core-only imports: the model driver evaluates these
decoders (`insn-isa`) so that `vlib/props/c13.py` can validate them against words produced by the
clang integrated assembler (AArch64, RISC-V).  LoongArch64 has no assembler in the sandbox: its
decoders are from the LoongArch Reference Manual vol.1 §"instruction formats" only (trusted base).

For each instruction kind:
* `mask`     the bits of the word(s) that the ISA assigns to the immediate;
* `field`    the raw immediate assembled in the manual's bit order, zero-extended to 64 bits
             (branch-type RISC-V immediates include their implicit low zero bit);
* `decode`   the manual's interpretation of the field (sign or zero extension) as a 64-bit value.
-/
namespace Wild.InsnSpec
open Wild.Insn (A64)

/-- bits `[lo+len-1 : lo]` of a word -/
abbrev bits {n : Nat} (w : BitVec n) (lo len : Nat) : BitVec len := w.extractLsb' lo len

/-! ## AArch64 — Arm ARM (DDI 0487), chapter C4/C6 encodings -/

/- The kind enumeration `Wild.Insn.A64` is shared with the model (it carries no behaviour). -/
namespace A64S
open Wild.Insn.A64
/-- ADR/ADRP: immlo[30:29] immhi[23:5]; MOVZ/MOVK/MOVN: imm16[20:5] (MOVN/MOVZ selection is
opc[30:29], which the signed MOVW relocations are specified to rewrite); LDR (literal), B.cond:
imm19[23:5]; ADD (imm), LDR/STR (unsigned offset): imm12[21:10]; TBZ/TBNZ: imm14[18:5]; B/BL:
imm26[25:0]. -/
def mask : A64 → BitVec 32
  | Adr => 0x60ffffe0#32
  | Movkz => 0x001fffe0#32
  | Movnz => 0x601fffe0#32
  | Ldr | Bcond => 0x00ffffe0#32
  | LdrRegister | A64.Add | LdSt => 0x003ffc00#32
  | TstBr => 0x0007ffe0#32
  | JumpCall => 0x03ffffff#32

/-- Number of immediate bits of the kind. -/
def width : A64 → Nat
  | Adr => 21 | Movkz => 16 | Movnz => 16 | Ldr => 19 | Bcond => 19
  | LdrRegister => 12 | A64.Add => 12 | LdSt => 12 | TstBr => 14 | JumpCall => 26

/-- exclusive upper bound of the in-range extracted values: `2 ^ width` -/
def bound : A64 → BitVec 64
  | Adr => 0x200000#64 | Movkz => 0x10000#64 | Movnz => 0x10000#64 | Ldr => 0x80000#64 | Bcond => 0x80000#64
  | LdrRegister => 0x1000#64 | A64.Add => 0x1000#64 | LdSt => 0x1000#64 | TstBr => 0x4000#64 | JumpCall => 0x4000000#64

def field (k : A64) (w : BitVec 32) : BitVec 64 :=
  match k with
  | Adr => (bits w 5 19 ++ bits w 29 2).setWidth 64            -- immhi:immlo
  | Movkz => (bits w 5 16).setWidth 64
  | Movnz =>
      -- MOVZ (opc = 10): the register receives imm16; MOVN (opc = 00): NOT(imm16)
      if w.getLsbD 30 then (bits w 5 16).setWidth 64 else (~~~(bits w 5 16)).setWidth 64
  | Ldr | Bcond => (bits w 5 19).setWidth 64
  | LdrRegister | A64.Add | LdSt => (bits w 10 12).setWidth 64
  | TstBr => (bits w 5 14).setWidth 64
  | JumpCall => (bits w 0 26).setWidth 64

/-- The manual's extension of the field: `SignExtend` for ADR/ADRP, LDR (literal), TBZ, B.cond, B/BL;
`ZeroExtend` for MOVZ/MOVK imm16, ADD imm12 and LDR/STR unsigned-offset imm12. (Scaling by the
access size / by 4 is done by the relocation's bit range, not by the encoder.) -/
def decode (k : A64) (w : BitVec 32) : BitVec 64 :=
  match k with
  | Adr => (bits w 5 19 ++ bits w 29 2).signExtend 64
  | Movkz => (bits w 5 16).setWidth 64
  | Movnz => if w.getLsbD 30 then (bits w 5 16).setWidth 64 else ~~~((bits w 5 16).setWidth 64)
  | Ldr | Bcond => (bits w 5 19).signExtend 64
  | LdrRegister | A64.Add | LdSt => (bits w 10 12).setWidth 64
  | TstBr => (bits w 5 14).signExtend 64
  | JumpCall => (bits w 0 26).signExtend 64
end A64S

/-! ## RISC-V — Unprivileged ISA manual, "Immediate Encoding Variants" and the C extension -/

namespace RV
def maskU : BitVec 32 := 0xfffff000#32   -- imm[31:12]
def maskI : BitVec 32 := 0xfff00000#32   -- imm[11:0] at [31:20]
def maskS : BitVec 32 := 0xfe000f80#32   -- imm[11:5] at [31:25], imm[4:0] at [11:7]
def maskB : BitVec 32 := 0xfe000f80#32   -- imm[12|10:5] at [31:25], imm[4:1|11] at [11:7]
def maskJ : BitVec 32 := 0xfffff000#32   -- imm[20|10:1|11|19:12] at [31:12]
def maskUi : BitVec 64 := 0xfff00000fffff000#64  -- auipc (low word) + I-type (high word)
def maskCb : BitVec 16 := 0x1c7c#16      -- offset[8|4:3] at [12:10], offset[7:6|2:1|5] at [6:2]
def maskCj : BitVec 16 := 0x1ffc#16      -- offset[11|4|9:8|10|6|7|3:1|5] at [12:2]
def maskClui : BitVec 16 := 0x107c#16    -- nzimm[17] at [12], nzimm[16:12] at [6:2]

def fieldU (w : BitVec 32) : BitVec 20 := bits w 12 20
def fieldI (w : BitVec 32) : BitVec 12 := bits w 20 12
def fieldS (w : BitVec 32) : BitVec 12 := bits w 25 7 ++ bits w 7 5
/-- imm[12] imm[11] imm[10:5] imm[4:1] 0 -/
def fieldB (w : BitVec 32) : BitVec 13 := bits w 31 1 ++ bits w 7 1 ++ bits w 25 6 ++ bits w 8 4 ++ 0#1
/-- imm[20] imm[19:12] imm[11] imm[10:1] 0 -/
def fieldJ (w : BitVec 32) : BitVec 21 := bits w 31 1 ++ bits w 12 8 ++ bits w 20 1 ++ bits w 21 10 ++ 0#1
/-- offset[8] [7:6] [5] [4:3] [2:1] 0 -/
def fieldCb (w : BitVec 16) : BitVec 9 := bits w 12 1 ++ bits w 5 2 ++ bits w 2 1 ++ bits w 10 2 ++ bits w 3 2 ++ 0#1
/-- offset[11] [10] [9:8] [7] [6] [5] [4] [3:1] 0 -/
def fieldCj (w : BitVec 16) : BitVec 12 :=
  bits w 12 1 ++ bits w 8 1 ++ bits w 9 2 ++ bits w 6 1 ++ bits w 7 1 ++ bits w 2 1 ++ bits w 11 1 ++ bits w 3 3 ++ 0#1
/-- nzimm[17] nzimm[16:12] (as a 6-bit number = nzimm >> 12) -/
def fieldClui (w : BitVec 16) : BitVec 6 := bits w 12 1 ++ bits w 2 5

/-- U-type immediate value: `imm[31:12] << 12`, sign-extended from bit 31. -/
def decodeU (w : BitVec 32) : BitVec 64 := (fieldU w ++ 0#12).signExtend 64
def decodeI (w : BitVec 32) : BitVec 64 := (fieldI w).signExtend 64
def decodeS (w : BitVec 32) : BitVec 64 := (fieldS w).signExtend 64
def decodeB (w : BitVec 32) : BitVec 64 := (fieldB w).signExtend 64
def decodeJ (w : BitVec 32) : BitVec 64 := (fieldJ w).signExtend 64
def decodeCb (w : BitVec 16) : BitVec 64 := (fieldCb w).signExtend 64
def decodeCj (w : BitVec 16) : BitVec 64 := (fieldCj w).signExtend 64
/-- c.lui loads `sext(nzimm[17:12]) << 12`. -/
def decodeClui (w : BitVec 16) : BitVec 64 := (fieldClui w ++ 0#12).signExtend 64
/-- `auipc rd, hi ; jalr/addi/ld ..., lo(rd)`: the pair denotes the offset `U-imm + sext(I-imm)`. -/
def decodeUi (w : BitVec 64) : BitVec 64 := decodeU (bits w 0 32) + decodeI (bits w 32 32)
end RV

/-! ## LoongArch64 — LoongArch Reference Manual vol. 1, instruction formats (1RI20, 2RI12, 2RI16,
1RI21, I26); no assembler available to validate against. -/

namespace LA
def maskShift5 : BitVec 32 := 0x01ffffe0#32    -- si20 at [24:5]
def maskShift10 : BitVec 32 := 0x003ffc00#32   -- si12/ui12 at [21:10]
def mask2RI16 : BitVec 32 := 0x03fffc00#32     -- offs16 at [25:10]
def maskBranch21 : BitVec 32 := 0x03fffc1f#32  -- offs[15:0] at [25:10], offs[20:16] at [4:0]
def maskBranch26 : BitVec 32 := 0x03ffffff#32  -- offs[15:0] at [25:10], offs[25:16] at [9:0]
/-- pcaddu18i (1RI20, low word) + jirl (2RI16, high word) -/
def maskCall36 : BitVec 64 := 0x03fffc0001ffffe0#64

def fieldShift5 (w : BitVec 32) : BitVec 20 := bits w 5 20
def fieldShift10 (w : BitVec 32) : BitVec 12 := bits w 10 12
def field2RI16 (w : BitVec 32) : BitVec 16 := bits w 10 16
def fieldBranch21 (w : BitVec 32) : BitVec 21 := bits w 0 5 ++ bits w 10 16
def fieldBranch26 (w : BitVec 32) : BitVec 26 := bits w 0 10 ++ bits w 10 16

def decodeBranch21 (w : BitVec 32) : BitVec 64 := (fieldBranch21 w).signExtend 64
def decodeBranch26 (w : BitVec 32) : BitVec 64 := (fieldBranch26 w).signExtend 64
/-- `pcaddu18i rd, si20 ; jirl rd', rd, offs16`: target - pc = `sext(si20 << 18) + sext(offs16 << 2)`;
in units of 4 bytes that is `sext(si20) << 16 + sext(offs16)`. -/
def decodeCall36 (w : BitVec 64) : BitVec 64 :=
  ((fieldShift5 (bits w 0 32)).signExtend 64 <<< 16) + (field2RI16 (bits w 32 32)).signExtend 64
end LA

end Wild.InsnSpec
