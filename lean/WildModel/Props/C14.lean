import WildModel.Lemmas.C14Sem
/-!
C14 - x86-64 GOT (and IE->LE TLS) relaxations preserve instruction semantics: the property theorems.
Semantic core and head-decoding tables: `WildModel/Lemmas/C14Sem.lean`.

Each theorem: for the model's REAL decision (`newRelaxation`) and REAL rewriting (`apply`) on an
instruction-aligned image `head ++ t`: whenever the decision answers `some r` of the given kind and
the original head is the RIP-relative form (ModRM = 00 reg 101), the new relocation type is the
stated one, `apply` succeeds with the stated offset/addend, and for every state, GOT address and
symbol value `S` passing the NEW type's range check the original instruction (field `G - 4 - P`) and
the rewritten instruction (field = new formula) have the same effect (destination register and
value, arithmetic flags, transfer target, return address).
-/
namespace Wild.C14
open Wild.X86Relax Wild.X86Sem

/-! ### what the decision guarantees on aligned windows -/

theorem dec42 (rex op m : UInt8) (t : List UInt8) (vf : Nat) (ok : OutKind) (sf : Nat) (r : Relaxation)
    (h : newRelaxation R_REX_GOTPCRELX (rex :: op :: m :: t) 3 vf ok sf = .ok (some r)) :
    (rex = 0x48 ∨ rex = 0x4c) ∧
    ((op = 0x8b ∧ r.kind = .rexMovIndirectToAbsolute 3 ∧ r.rtype = R_32S) ∨
     (op = 0x2b ∧ r.kind = .rexSubIndirectToAbsolute 3 ∧ r.rtype = R_32S) ∨
     (op = 0x3b ∧ r.kind = .rexCmpIndirectToAbsolute 3 ∧ r.rtype = R_32S) ∨
     (op = 0x8b ∧ r.kind = .movIndirectToLea ∧ r.rtype = R_PC32)) := by
  unfold newRelaxation at h
  simp only [R_REX_GOTPCRELX, R_PC32] at h
  split at h
  · simp at h
  split at h
  · simp at h
  simp [armRexGotpcrelx, code4Guard, idx, bind, Except.bind, pure, Except.pure] at h
  repeat' (split at h)
  all_goals (simp_all)
  all_goals (subst_vars; exact ⟨Classical.or_iff_not_imp_left.mpr (by assumption), by simp⟩)

theorem app42 (rex op m : UInt8) (t : List UInt8) (opc ext : UInt8) (first : Bool) (bs' : List UInt8)
    (h : rexToAbs (rex :: op :: m :: t) 3 3 opc ext first = .ok bs') :
    bs' = rexRtoB rex :: opc :: modrmRegToRm m ext :: t := by
  cases first <;>
  simp [rexToAbs, usub, idx, setIdx, bind, Except.bind, pure, Except.pure] at h <;> exact h.symm

theorem rexToAbs42_ok (rex op m : UInt8) (t : List UInt8) (opc ext : UInt8) (first : Bool) :
    rexToAbs (rex :: op :: m :: t) 3 3 opc ext first = .ok (rexRtoB rex :: opc :: modrmRegToRm m ext :: t) := by
  cases first <;> simp [rexToAbs, usub, idx, setIdx, bind, Except.bind, pure, Except.pure]

/-- The observable equivalence demanded by the property, for an absolute rewrite (`S + A'`). -/
def AbsEquiv (f f' : Form) (hlen : Nat) (A' : BitVec 64) : Prop :=
  ∀ (σ : State) (S GOT : BitVec 64), fitsS32 (GOT - 4#64 - place σ hlen) → fitsS32 (S + A') → σ.mem GOT = S →
    exec f hlen (gotField σ hlen GOT) σ = exec f' hlen ((S + A').truncate 32) σ

/-- REX.W `mov sym@GOTPCREL(%rip), %r64` -> `mov $sym, %r64` (R_X86_64_REX_GOTPCRELX -> R_X86_64_32S). -/
theorem rex_mov_to_abs_ok (rex op reg : UInt8) (hreg : reg ∈ regs8) (t : List UInt8) (vf : Nat) (ok : OutKind) (sf : Nat)
    (r : Relaxation)
    (hdec : newRelaxation R_REX_GOTPCRELX (rex :: op :: ripModrm reg :: t) 3 vf ok sf = .ok (some r))
    (hk : r.kind = .rexMovIndirectToAbsolute 3) :
    r.rtype = R_32S ∧ ∃ h0 h1 h2 f f',
      apply r.kind (rex :: op :: ripModrm reg :: t) 3 (-4) = .ok ⟨h0 :: h1 :: h2 :: t, 3, 0⟩ ∧
      decodeHead [rex, op, ripModrm reg] = some f ∧ decodeHead [h0, h1, h2] = some f' ∧ AbsEquiv f f' 3 0 := by
  obtain ⟨hrex, hc⟩ := dec42 _ _ _ _ _ _ _ _ hdec
  have hop : op = 0x8b ∧ r.rtype = R_32S := by
    rcases hc with h | h | h | h <;> simp_all
  obtain ⟨hop, hrt⟩ := hop
  subst hop
  refine ⟨hrt, rexRtoB rex, 0xc7, modrmRegToRm (ripModrm reg) 0xc0, .movRip .w64 (regNo reg (tb rex 2) false),
    .movImm .w64 (regNo reg (tb rex 2) false), ?_, ?_, ?_, ?_⟩
  · simp [hk, apply, rexToAbs42_ok, bind, Except.bind, pure, Except.pure]
  · exact (rex_mov_heads rex (by rcases hrex with h | h <;> simp [h]) reg hreg).1
  · exact (rex_mov_heads rex (by rcases hrex with h | h <;> simp [h]) reg hreg).2.1
  · intro σ S GOT hG hS hmem
    have e : S + (0 : BitVec 64) = S := by simp
    rw [e] at hS ⊢
    exact abs64_sem _ σ S GOT 3 hG hS hmem

/-- REX.W `sub sym@GOTPCREL(%rip), %r64` -> `sub $sym, %r64` (value and flags) (R_X86_64_REX_GOTPCRELX -> R_X86_64_32S). -/
theorem rex_sub_to_abs_ok (rex op reg : UInt8) (hreg : reg ∈ regs8) (t : List UInt8) (vf : Nat) (ok : OutKind) (sf : Nat)
    (r : Relaxation)
    (hdec : newRelaxation R_REX_GOTPCRELX (rex :: op :: ripModrm reg :: t) 3 vf ok sf = .ok (some r))
    (hk : r.kind = .rexSubIndirectToAbsolute 3) :
    r.rtype = R_32S ∧ ∃ h0 h1 h2 f f',
      apply r.kind (rex :: op :: ripModrm reg :: t) 3 (-4) = .ok ⟨h0 :: h1 :: h2 :: t, 3, 0⟩ ∧
      decodeHead [rex, op, ripModrm reg] = some f ∧ decodeHead [h0, h1, h2] = some f' ∧ AbsEquiv f f' 3 0 := by
  obtain ⟨hrex, hc⟩ := dec42 _ _ _ _ _ _ _ _ hdec
  have hop : op = 0x2b ∧ r.rtype = R_32S := by
    rcases hc with h | h | h | h <;> simp_all
  obtain ⟨hop, hrt⟩ := hop
  subst hop
  refine ⟨hrt, rexRtoB rex, 0x81, modrmRegToRm (ripModrm reg) 0xe8, .aluRip .sub (regNo reg (tb rex 2) false),
    .aluImm .sub (regNo reg (tb rex 2) false), ?_, ?_, ?_, ?_⟩
  · simp [hk, apply, rexToAbs42_ok, bind, Except.bind, pure, Except.pure]
  · exact (rex_alu_heads rex (by rcases hrex with h | h <;> simp [h]) reg hreg).1
  · exact (rex_alu_heads rex (by rcases hrex with h | h <;> simp [h]) reg hreg).2.1
  · intro σ S GOT hG hS hmem
    have e : S + (0 : BitVec 64) = S := by simp
    rw [e] at hS ⊢
    exact alu_sem _ _ σ S GOT 3 hG hS hmem

/-- REX.W `cmp sym@GOTPCREL(%rip), %r64` -> `cmp $sym, %r64` (flags) (R_X86_64_REX_GOTPCRELX -> R_X86_64_32S). -/
theorem rex_cmp_to_abs_ok (rex op reg : UInt8) (hreg : reg ∈ regs8) (t : List UInt8) (vf : Nat) (ok : OutKind) (sf : Nat)
    (r : Relaxation)
    (hdec : newRelaxation R_REX_GOTPCRELX (rex :: op :: ripModrm reg :: t) 3 vf ok sf = .ok (some r))
    (hk : r.kind = .rexCmpIndirectToAbsolute 3) :
    r.rtype = R_32S ∧ ∃ h0 h1 h2 f f',
      apply r.kind (rex :: op :: ripModrm reg :: t) 3 (-4) = .ok ⟨h0 :: h1 :: h2 :: t, 3, 0⟩ ∧
      decodeHead [rex, op, ripModrm reg] = some f ∧ decodeHead [h0, h1, h2] = some f' ∧ AbsEquiv f f' 3 0 := by
  obtain ⟨hrex, hc⟩ := dec42 _ _ _ _ _ _ _ _ hdec
  have hop : op = 0x3b ∧ r.rtype = R_32S := by
    rcases hc with h | h | h | h <;> simp_all
  obtain ⟨hop, hrt⟩ := hop
  subst hop
  refine ⟨hrt, rexRtoB rex, 0x81, modrmRegToRm (ripModrm reg) 0xf8, .aluRip .cmp (regNo reg (tb rex 2) false),
    .aluImm .cmp (regNo reg (tb rex 2) false), ?_, ?_, ?_, ?_⟩
  · simp [hk, apply, rexToAbs42_ok, bind, Except.bind, pure, Except.pure]
  · exact (rex_alu_heads rex (by rcases hrex with h | h <;> simp [h]) reg hreg).2.2.1
  · exact (rex_alu_heads rex (by rcases hrex with h | h <;> simp [h]) reg hreg).2.2.2.1
  · intro σ S GOT hG hS hmem
    have e : S + (0 : BitVec 64) = S := by simp
    rw [e] at hS ⊢
    exact alu_sem _ _ σ S GOT 3 hG hS hmem

/-- Non-vacuity: the decision does answer `some` of this kind (absolute, non-interposable symbol, static executable). -/
example : newRelaxation R_REX_GOTPCRELX [0x48, 0x8b, 0x05, 0, 0, 0, 0] 3 9 .staticExe 6
    = .ok (some ⟨.rexMovIndirectToAbsolute 3, R_32S, true⟩) := by rfl

/-- Why the new type must be R_X86_64_32S: with the unsigned check of R_X86_64_32 (what the code used
before the fix) `S = 0x80000000` is accepted, and the rewritten `mov $imm32, %rax` leaves
0xffffffff80000000 in `%rax` while the original loads 0x80000000. -/
theorem rex_abs_r32_unsound_witness :
    ¬ (∀ (σ : State) (S GOT : BitVec 64), fitsS32 (GOT - 4#64 - place σ 3) → fitsU32 S → σ.mem GOT = S →
        exec (.movRip .w64 0) 3 (gotField σ 3 GOT) σ = exec (.movImm .w64 0) 3 (S.truncate 32) σ) := by
  intro h
  have := h ⟨fun _ => 0, fun _ => 0x80000000#64, 0, 0⟩ 0x80000000#64 0x1000#64 (by unfold fitsS32 place; decide) (by unfold fitsU32; decide) rfl
  simp [exec, writeSz, sext32, gotField, place] at this

end Wild.C14
