import WildModel.Lemmas.C14Sem
import WildModel.Lemmas.C14Tls
import WildModel.Lemmas.C14Bounds
/-!
C14 - x86-64 GOT (and IE->LE TLS) relaxations preserve instruction semantics: the property theorems.
Semantic core and head-decoding tables: `WildModel/Lemmas/C14Sem.lean`.

Each theorem: for the model's REAL decision (`newRelaxation`) and REAL rewriting (`apply`) on an
instruction-aligned image `head ++ t`: whenever the decision answers `some r` of the given kind and
the original head is the RIP-relative form (ModRM = 00 reg 101), the new relocation type is the
stated one, `apply` succeeds with the stated offset/addend, and for every state, GOT address and
symbol value `S` passing the NEW type's range check the original instruction (field `G - 4 - P`) and
the rewritten instruction (field = new formula) have the same effect (destination register and
value, arithmetic flags, transfer target, return address).
-/
set_option linter.unusedSimpArgs false
namespace Wild.C14
open Wild.X86Relax Wild.X86Sem

/-! ### what the decision guarantees on aligned windows -/

theorem dec42 (rex op m : UInt8) (t : List UInt8) (vf : Nat) (ok : OutKind) (sf : Nat) (r : Relaxation)
    (h : newRelaxation R_REX_GOTPCRELX (rex :: op :: m :: t) 3 vf ok sf = .ok (some r)) :
    (rex = 0x48 ∨ rex = 0x4c) ∧
    ((op = 0x8b ∧ r.kind = .rexMovIndirectToAbsolute 3 ∧ r.rtype = R_32S) ∨
     (op = 0x2b ∧ r.kind = .rexSubIndirectToAbsolute 3 ∧ r.rtype = R_32S) ∨
     (op = 0x3b ∧ r.kind = .rexCmpIndirectToAbsolute 3 ∧ r.rtype = R_32S) ∨
     (op = 0x8b ∧ r.kind = .movIndirectToLea ∧ r.rtype = R_PC32)) := by
  unfold newRelaxation at h
  simp only [R_REX_GOTPCRELX, R_PC32] at h
  split at h
  · simp at h
  split at h
  · simp at h
  simp [armRexGotpcrelx, code4Guard, idx, bind, Except.bind, pure, Except.pure] at h
  repeat' (split at h)
  all_goals (simp_all)
  all_goals (subst_vars; exact ⟨Classical.or_iff_not_imp_left.mpr (by assumption), by simp⟩)

theorem app42 (rex op m : UInt8) (t : List UInt8) (opc ext : UInt8) (first : Bool) (bs' : List UInt8)
    (h : rexToAbs (rex :: op :: m :: t) 3 3 opc ext first = .ok bs') :
    bs' = rexRtoB rex :: opc :: modrmRegToRm m ext :: t := by
  cases first <;>
  simp [rexToAbs, usub, idx, setIdx, bind, Except.bind, pure, Except.pure] at h <;> exact h.symm

theorem rexToAbs42_ok (rex op m : UInt8) (t : List UInt8) (opc ext : UInt8) (first : Bool) :
    rexToAbs (rex :: op :: m :: t) 3 3 opc ext first = .ok (rexRtoB rex :: opc :: modrmRegToRm m ext :: t) := by
  cases first <;> simp [rexToAbs, usub, idx, setIdx, bind, Except.bind, pure, Except.pure]

/-- The observable equivalence demanded by the property, for an absolute rewrite (`S + A'`). -/
def AbsEquiv (f f' : Form) (hlen : Nat) (A' : BitVec 64) : Prop :=
  ∀ (σ : State) (S GOT : BitVec 64), fitsS32 (GOT - 4#64 - place σ hlen) → fitsS32 (S + A') → σ.mem GOT = S →
    exec f hlen (gotField σ hlen GOT) σ = exec f' hlen ((S + A').truncate 32) σ

/-- REX.W `mov sym@GOTPCREL(%rip), %r64` -> `mov $sym, %r64` (R_X86_64_REX_GOTPCRELX -> R_X86_64_32S). -/
theorem rex_mov_to_abs_ok (rex op reg : UInt8) (hreg : reg ∈ regs8) (t : List UInt8) (vf : Nat) (ok : OutKind) (sf : Nat)
    (r : Relaxation)
    (hdec : newRelaxation R_REX_GOTPCRELX (rex :: op :: ripModrm reg :: t) 3 vf ok sf = .ok (some r))
    (hk : r.kind = .rexMovIndirectToAbsolute 3) :
    r.rtype = R_32S ∧ ∃ h0 h1 h2 f f',
      apply r.kind (rex :: op :: ripModrm reg :: t) 3 (-4) = .ok ⟨h0 :: h1 :: h2 :: t, 3, 0⟩ ∧
      decodeHead [rex, op, ripModrm reg] = some f ∧ decodeHead [h0, h1, h2] = some f' ∧ AbsEquiv f f' 3 0 := by
  obtain ⟨hrex, hc⟩ := dec42 _ _ _ _ _ _ _ _ hdec
  have hop : op = 0x8b ∧ r.rtype = R_32S := by
    rcases hc with h | h | h | h <;> simp_all
  obtain ⟨hop, hrt⟩ := hop
  subst hop
  refine ⟨hrt, rexRtoB rex, 0xc7, modrmRegToRm (ripModrm reg) 0xc0, .movRip .w64 (regNo reg (tb rex 2) false),
    .movImm .w64 (regNo reg (tb rex 2) false), ?_, ?_, ?_, ?_⟩
  · simp [hk, apply, rexToAbs42_ok, bind, Except.bind, pure, Except.pure]
  · exact (rex_mov_heads rex (by rcases hrex with h | h <;> simp [h]) reg hreg).1
  · exact (rex_mov_heads rex (by rcases hrex with h | h <;> simp [h]) reg hreg).2.1
  · intro σ S GOT hG hS hmem
    have e : S + (0 : BitVec 64) = S := by simp
    rw [e] at hS ⊢
    exact abs64_sem _ σ S GOT 3 hG hS hmem

/-- REX.W `sub sym@GOTPCREL(%rip), %r64` -> `sub $sym, %r64` (value and flags) (R_X86_64_REX_GOTPCRELX -> R_X86_64_32S). -/
theorem rex_sub_to_abs_ok (rex op reg : UInt8) (hreg : reg ∈ regs8) (t : List UInt8) (vf : Nat) (ok : OutKind) (sf : Nat)
    (r : Relaxation)
    (hdec : newRelaxation R_REX_GOTPCRELX (rex :: op :: ripModrm reg :: t) 3 vf ok sf = .ok (some r))
    (hk : r.kind = .rexSubIndirectToAbsolute 3) :
    r.rtype = R_32S ∧ ∃ h0 h1 h2 f f',
      apply r.kind (rex :: op :: ripModrm reg :: t) 3 (-4) = .ok ⟨h0 :: h1 :: h2 :: t, 3, 0⟩ ∧
      decodeHead [rex, op, ripModrm reg] = some f ∧ decodeHead [h0, h1, h2] = some f' ∧ AbsEquiv f f' 3 0 := by
  obtain ⟨hrex, hc⟩ := dec42 _ _ _ _ _ _ _ _ hdec
  have hop : op = 0x2b ∧ r.rtype = R_32S := by
    rcases hc with h | h | h | h <;> simp_all
  obtain ⟨hop, hrt⟩ := hop
  subst hop
  refine ⟨hrt, rexRtoB rex, 0x81, modrmRegToRm (ripModrm reg) 0xe8, .aluRip .sub (regNo reg (tb rex 2) false),
    .aluImm .sub (regNo reg (tb rex 2) false), ?_, ?_, ?_, ?_⟩
  · simp [hk, apply, rexToAbs42_ok, bind, Except.bind, pure, Except.pure]
  · exact (rex_alu_heads rex (by rcases hrex with h | h <;> simp [h]) reg hreg).1
  · exact (rex_alu_heads rex (by rcases hrex with h | h <;> simp [h]) reg hreg).2.1
  · intro σ S GOT hG hS hmem
    have e : S + (0 : BitVec 64) = S := by simp
    rw [e] at hS ⊢
    exact alu_sem _ _ σ S GOT 3 hG hS hmem

/-- REX.W `cmp sym@GOTPCREL(%rip), %r64` -> `cmp $sym, %r64` (flags) (R_X86_64_REX_GOTPCRELX -> R_X86_64_32S). -/
theorem rex_cmp_to_abs_ok (rex op reg : UInt8) (hreg : reg ∈ regs8) (t : List UInt8) (vf : Nat) (ok : OutKind) (sf : Nat)
    (r : Relaxation)
    (hdec : newRelaxation R_REX_GOTPCRELX (rex :: op :: ripModrm reg :: t) 3 vf ok sf = .ok (some r))
    (hk : r.kind = .rexCmpIndirectToAbsolute 3) :
    r.rtype = R_32S ∧ ∃ h0 h1 h2 f f',
      apply r.kind (rex :: op :: ripModrm reg :: t) 3 (-4) = .ok ⟨h0 :: h1 :: h2 :: t, 3, 0⟩ ∧
      decodeHead [rex, op, ripModrm reg] = some f ∧ decodeHead [h0, h1, h2] = some f' ∧ AbsEquiv f f' 3 0 := by
  obtain ⟨hrex, hc⟩ := dec42 _ _ _ _ _ _ _ _ hdec
  have hop : op = 0x3b ∧ r.rtype = R_32S := by
    rcases hc with h | h | h | h <;> simp_all
  obtain ⟨hop, hrt⟩ := hop
  subst hop
  refine ⟨hrt, rexRtoB rex, 0x81, modrmRegToRm (ripModrm reg) 0xf8, .aluRip .cmp (regNo reg (tb rex 2) false),
    .aluImm .cmp (regNo reg (tb rex 2) false), ?_, ?_, ?_, ?_⟩
  · simp [hk, apply, rexToAbs42_ok, bind, Except.bind, pure, Except.pure]
  · exact (rex_alu_heads rex (by rcases hrex with h | h <;> simp [h]) reg hreg).2.2.1
  · exact (rex_alu_heads rex (by rcases hrex with h | h <;> simp [h]) reg hreg).2.2.2.1
  · intro σ S GOT hG hS hmem
    have e : S + (0 : BitVec 64) = S := by simp
    rw [e] at hS ⊢
    exact alu_sem _ _ σ S GOT 3 hG hS hmem

/-- Non-vacuity: the decision does answer `some` of this kind (absolute, non-interposable symbol, static executable). -/
example : newRelaxation R_REX_GOTPCRELX [0x48, 0x8b, 0x05, 0, 0, 0, 0] 3 9 .staticExe 6
    = .ok (some ⟨.rexMovIndirectToAbsolute 3, R_32S, true⟩) := by rfl

/-- Why the new type must be R_X86_64_32S: with the unsigned check of R_X86_64_32 (what the code used
before the fix) `S = 0x80000000` is accepted, and the rewritten `mov $imm32, %rax` leaves
0xffffffff80000000 in `%rax` while the original loads 0x80000000. -/
theorem rex_abs_r32_unsound_witness :
    ¬ (∀ (σ : State) (S GOT : BitVec 64), fitsS32 (GOT - 4#64 - place σ 3) → fitsU32 S → σ.mem GOT = S →
        exec (.movRip .w64 0) 3 (gotField σ 3 GOT) σ = exec (.movImm .w64 0) 3 (S.truncate 32) σ) := by
  intro h
  have := h ⟨fun _ => 0, fun _ => 0x80000000#64, 0, 0⟩ 0x80000000#64 0x1000#64 (by unfold fitsS32 place; decide) (by unfold fitsU32; decide) rfl
  simp [exec, writeSz, sext32, gotField, place] at this

/-! ### PC-relative rewrites (`lea`, `call`, `jmp`): R_X86_64_PC32, value `S + A - P'` with the kept addend -4 -/

/-- The observable equivalence demanded by the property, for a PC-relative rewrite: original head of
`hlen` bytes + field `G - 4 - P`; rewritten head of `hlen'` bytes + field `S - 4 - P'`. -/
def PcEquiv (f f' : Form) (hlen hlen' : Nat) : Prop :=
  ∀ (σ : State) (S GOT : BitVec 64), fitsS32 (GOT - 4#64 - place σ hlen) → fitsS32 (S - 4#64 - place σ hlen') →
    σ.mem GOT = S → exec f hlen (gotField σ hlen GOT) σ = exec f' hlen' (pcField σ hlen' S) σ

/-- Equivalence for the 32-bit `mov` -> `mov $imm32` rewrite: holds for EVERY `S` (so in particular for
every `S` that passes the `[0, 2^32)` check of the new type R_X86_64_32). -/
def Abs32Equiv (f f' : Form) (hlen : Nat) : Prop :=
  ∀ (σ : State) (S GOT : BitVec 64), fitsS32 (GOT - 4#64 - place σ hlen) → σ.mem GOT = S →
    exec f hlen (gotField σ hlen GOT) σ = exec f' hlen (S.truncate 32) σ

theorem dec41 (op m : UInt8) (t : List UInt8) (vf : Nat) (ok : OutKind) (sf : Nat) (r : Relaxation)
    (h : newRelaxation R_GOTPCRELX (op :: m :: t) 2 vf ok sf = .ok (some r)) :
    (op = 0x8b ∧ r.kind = .movIndirectToAbsolute ∧ r.rtype = R_32) ∨
    (op = 0x8b ∧ r.kind = .movIndirectToLea ∧ r.rtype = R_PC32) ∨
    (op = 0xff ∧ m = 0x15 ∧ r.kind = .callIndirectToRelative ∧ r.rtype = R_PC32) ∨
    (op = 0xff ∧ m = 0x25 ∧ r.kind = .jmpIndirectToRelative ∧ r.rtype = R_PC32) := by
  unfold newRelaxation at h
  simp only [R_GOTPCRELX, R_REX_GOTPCRELX, R_CODE_4_GOTPCRELX, R_PC32] at h
  split at h
  · simp at h
  split at h
  · simp at h
  simp [armGotpcrelx, getRange, bind, Except.bind, pure, Except.pure] at h
  repeat' (split at h)
  all_goals (simp_all)
  all_goals (subst h; simp)

/-- `apply` of the two opcode-only rewrites on a 2-byte head at offset 2. -/
theorem app41_lea (op m : UInt8) (t : List UInt8) (ad : Int) :
    apply .movIndirectToLea (op :: m :: t) 2 ad = .ok ⟨0x8d :: m :: t, 2, ad⟩ := by
  simp [apply, usub, setIdx, bind, Except.bind, pure, Except.pure]

theorem app41_abs (op m : UInt8) (t : List UInt8) (ad : Int) :
    apply .movIndirectToAbsolute (op :: m :: t) 2 ad = .ok ⟨0xc7 :: modrmRegToRm m 0xc0 :: t, 2, 0⟩ := by
  simp [apply, usub, idx, setIdx, bind, Except.bind, pure, Except.pure]

theorem app41_call (op m : UInt8) (t : List UInt8) (ad : Int) :
    apply .callIndirectToRelative (op :: m :: t) 2 ad = .ok ⟨0x67 :: 0xe8 :: t, 2, ad⟩ := by
  simp [apply, usub, splice, bind, Except.bind, pure, Except.pure]

theorem app41_jmp (op m a b c d : UInt8) (t : List UInt8) (ad : Int) :
    apply .jmpIndirectToRelative (op :: m :: a :: b :: c :: d :: t) 2 ad = .ok ⟨0xe9 :: 0 :: 0 :: 0 :: 0 :: 0x90 :: t, 1, ad⟩ := by
  simp [apply, usub, splice, bind, Except.bind, pure, Except.pure]

/-- legacy `mov sym@GOTPCREL(%rip), %r32` (R_X86_64_GOTPCRELX) -> `mov $sym, %r32` (R_X86_64_32) or
`lea sym(%rip), %r32` (R_X86_64_PC32), whichever the decision picks. -/
theorem gotpcrelx_mov_ok (op reg : UInt8) (hreg : reg ∈ regs8) (t : List UInt8) (vf : Nat) (ok : OutKind) (sf : Nat)
    (r : Relaxation)
    (hdec : newRelaxation R_GOTPCRELX (op :: ripModrm reg :: t) 2 vf ok sf = .ok (some r))
    (hkind : r.kind = .movIndirectToAbsolute ∨ r.kind = .movIndirectToLea) :
    ∃ h0 h1 ad f f',
      apply r.kind (op :: ripModrm reg :: t) 2 (-4) = .ok ⟨h0 :: h1 :: t, 2, ad⟩ ∧
      decodeHead [op, ripModrm reg] = some f ∧ decodeHead [h0, h1] = some f' ∧
      ((r.kind = .movIndirectToAbsolute ∧ r.rtype = R_32 ∧ ad = 0 ∧ Abs32Equiv f f' 2) ∨
       (r.kind = .movIndirectToLea ∧ r.rtype = R_PC32 ∧ ad = -4 ∧ PcEquiv f f' 2 2)) := by
  rcases dec41 _ _ _ _ _ _ _ hdec with ⟨hop, hk, hrt⟩ | ⟨hop, hk, hrt⟩ | ⟨hop, hmm, hk, hrt⟩ | ⟨hop, hmm, hk, hrt⟩
  · subst hop
    refine ⟨0xc7, modrmRegToRm (ripModrm reg) 0xc0, 0, .movRip .w32 (regNo reg false false),
      .movImm .w32 (regNo reg false false), ?_, (legacy_heads reg hreg).1, (legacy_heads reg hreg).2.1, .inl ⟨hk, hrt, rfl, ?_⟩⟩
    · rw [hk, app41_abs]
    · intro σ S GOT hG hmem; exact abs32_sem _ σ S GOT 2 hG hmem
  · subst hop
    refine ⟨0x8d, ripModrm reg, -4, .movRip .w32 (regNo reg false false),
      .leaRip .w32 (regNo reg false false), ?_, (legacy_heads reg hreg).1, (legacy_heads reg hreg).2.2, .inr ⟨hk, hrt, rfl, ?_⟩⟩
    · rw [hk, app41_lea]
    · intro σ S GOT hG hS hmem; exact lea_sem _ _ σ S GOT 2 hG hS hmem
  · rcases hkind with h | h <;> simp [hk] at h
  · rcases hkind with h | h <;> simp [hk] at h

/-- `call *sym@GOTPCREL(%rip)` (ff 15; R_X86_64_GOTPCRELX) -> `addr32 call sym` (67 e8; R_X86_64_PC32):
same target and same return address. -/
theorem gotpcrelx_call_ok (t : List UInt8) (vf : Nat) (ok : OutKind) (sf : Nat) (r : Relaxation)
    (hdec : newRelaxation R_GOTPCRELX (0xff :: 0x15 :: t) 2 vf ok sf = .ok (some r)) :
    r.kind = .callIndirectToRelative ∧ r.rtype = R_PC32 ∧
    apply r.kind (0xff :: 0x15 :: t) 2 (-4) = .ok ⟨0x67 :: 0xe8 :: t, 2, -4⟩ ∧
    decodeHead [0xff, 0x15] = some .callRip ∧ decodeHeadCall [0x67, 0xe8] = some .callRel ∧
    PcEquiv .callRip .callRel 2 2 := by
  rcases dec41 _ _ _ _ _ _ _ hdec with h | h | h | h
  · exact absurd h.1 (by decide)
  · exact absurd h.1 (by decide)
  · refine ⟨h.2.2.1, h.2.2.2, ?_, branch_heads.1, branch_heads.2.1, ?_⟩
    · rw [h.2.2.1, app41_call]
    · intro σ S GOT hG hS hmem; exact call_sem σ S GOT hG hS hmem
  · exact absurd h.2.1 (by decide)

/-- `jmp *sym@GOTPCREL(%rip)` (ff 25 d32; R_X86_64_GOTPCRELX) -> `jmp sym; nop` (e9 rel32 90;
R_X86_64_PC32 at offset - 1): same target.  `a b c d` are the four field bytes (`apply` zeroes them,
the relocation then overwrites them). -/
theorem gotpcrelx_jmp_ok (a b c d : UInt8) (t : List UInt8) (vf : Nat) (ok : OutKind) (sf : Nat) (r : Relaxation)
    (hdec : newRelaxation R_GOTPCRELX (0xff :: 0x25 :: a :: b :: c :: d :: t) 2 vf ok sf = .ok (some r)) :
    r.kind = .jmpIndirectToRelative ∧ r.rtype = R_PC32 ∧
    apply r.kind (0xff :: 0x25 :: a :: b :: c :: d :: t) 2 (-4) = .ok ⟨0xe9 :: 0 :: 0 :: 0 :: 0 :: 0x90 :: t, 1, -4⟩ ∧
    decodeHead [0xff, 0x25] = some .jmpRip ∧ decodeHead [0xe9] = some .jmpRel ∧
    PcEquiv .jmpRip .jmpRel 2 1 := by
  rcases dec41 _ _ _ _ _ _ _ hdec with h | h | h | h
  · exact absurd h.1 (by decide)
  · exact absurd h.1 (by decide)
  · exact absurd h.2.1 (by decide)
  · refine ⟨h.2.2.1, h.2.2.2, ?_, branch_heads.2.2.1, branch_heads.2.2.2, ?_⟩
    · rw [h.2.2.1, app41_jmp]
    · intro σ S GOT hG hS hmem; exact jmp_sem σ S GOT hG hS hmem

/-- REX.W `mov sym@GOTPCREL(%rip), %r64` -> `lea sym(%rip), %r64` (R_X86_64_REX_GOTPCRELX -> R_X86_64_PC32). -/
theorem rex_mov_to_lea_ok (rex op reg : UInt8) (hreg : reg ∈ regs8) (t : List UInt8) (vf : Nat) (ok : OutKind) (sf : Nat)
    (r : Relaxation)
    (hdec : newRelaxation R_REX_GOTPCRELX (rex :: op :: ripModrm reg :: t) 3 vf ok sf = .ok (some r))
    (hk : r.kind = .movIndirectToLea) :
    r.rtype = R_PC32 ∧ ∃ h0 h1 h2 f f',
      apply r.kind (rex :: op :: ripModrm reg :: t) 3 (-4) = .ok ⟨h0 :: h1 :: h2 :: t, 3, -4⟩ ∧
      decodeHead [rex, op, ripModrm reg] = some f ∧ decodeHead [h0, h1, h2] = some f' ∧ PcEquiv f f' 3 3 := by
  obtain ⟨hrex, hc⟩ := dec42 _ _ _ _ _ _ _ _ hdec
  have hop : op = 0x8b ∧ r.rtype = R_PC32 := by
    rcases hc with h | h | h | h <;> simp_all
  obtain ⟨hop, hrt⟩ := hop
  subst hop
  refine ⟨hrt, rex, 0x8d, ripModrm reg, .movRip .w64 (regNo reg (tb rex 2) false),
    .leaRip .w64 (regNo reg (tb rex 2) false), ?_, ?_, ?_, ?_⟩
  · simp [hk, apply, usub, setIdx, bind, Except.bind, pure, Except.pure]
  · exact (rex_mov_heads rex (by rcases hrex with h | h <;> simp [h]) reg hreg).1
  · exact (rex_mov_heads rex (by rcases hrex with h | h <;> simp [h]) reg hreg).2.2
  · intro σ S GOT hG hS hmem; exact lea_sem _ _ σ S GOT 3 hG hS hmem

/-! ### plain R_X86_64_GOTPCREL: `mov` -> `lea` only -/

theorem mem_allBytes (p : UInt8) : p ∈ allBytes := by
  unfold allBytes
  refine List.mem_map.mpr ⟨p.toNat, List.mem_range.mpr p.toNat_lt, ?_⟩
  simp

theorem dec9_2 (op m : UInt8) (t : List UInt8) (vf : Nat) (ok : OutKind) (sf : Nat) (r : Relaxation)
    (h : newRelaxation R_GOTPCREL (op :: m :: t) 2 vf ok sf = .ok (some r)) :
    op = 0x8b ∧ r.kind = .movIndirectToLea ∧ r.rtype = R_PC32 := by
  unfold newRelaxation at h
  simp only [R_GOTPCREL, R_GOTPCRELX, R_REX_GOTPCRELX, R_CODE_4_GOTPCRELX, R_PC32] at h
  split at h
  · simp at h
  split at h
  · simp at h
  simp [armGotpcrel, pure, Except.pure] at h
  repeat' (split at h)
  all_goals (simp_all)
  all_goals (subst h; simp)

theorem dec9_3 (p op m : UInt8) (t : List UInt8) (vf : Nat) (ok : OutKind) (sf : Nat) (r : Relaxation)
    (h : newRelaxation R_GOTPCREL (p :: op :: m :: t) 3 vf ok sf = .ok (some r)) :
    op = 0x8b ∧ r.kind = .movIndirectToLea ∧ r.rtype = R_PC32 := by
  unfold newRelaxation at h
  simp only [R_GOTPCREL, R_GOTPCRELX, R_REX_GOTPCRELX, R_CODE_4_GOTPCRELX, R_PC32] at h
  split at h
  · simp at h
  split at h
  · simp at h
  simp [armGotpcrel, pure, Except.pure] at h
  repeat' (split at h)
  all_goals (simp_all)
  all_goals (subst h; simp)

/-- `mov sym@GOTPCREL(%rip), %r32` with the plain R_X86_64_GOTPCREL -> `lea sym(%rip), %r32` (R_X86_64_PC32). -/
theorem gotpcrel_mov_to_lea_ok (op reg : UInt8) (hreg : reg ∈ regs8) (t : List UInt8) (vf : Nat) (ok : OutKind) (sf : Nat)
    (r : Relaxation)
    (hdec : newRelaxation R_GOTPCREL (op :: ripModrm reg :: t) 2 vf ok sf = .ok (some r)) :
    r.kind = .movIndirectToLea ∧ r.rtype = R_PC32 ∧ ∃ f f',
      apply r.kind (op :: ripModrm reg :: t) 2 (-4) = .ok ⟨0x8d :: ripModrm reg :: t, 2, -4⟩ ∧
      decodeHead [op, ripModrm reg] = some f ∧ decodeHead [0x8d, ripModrm reg] = some f' ∧ PcEquiv f f' 2 2 := by
  obtain ⟨hop, hk, hrt⟩ := dec9_2 _ _ _ _ _ _ _ hdec
  subst hop
  refine ⟨hk, hrt, .movRip .w32 (regNo reg false false), .leaRip .w32 (regNo reg false false), ?_,
    (legacy_heads reg hreg).1, (legacy_heads reg hreg).2.2, ?_⟩
  · rw [hk, app41_lea]
  · intro σ S GOT hG hS hmem; exact lea_sem _ _ σ S GOT 2 hG hS hmem

/-- plain R_X86_64_GOTPCREL behind ANY single prefix byte `p` (0x66, every REX): whenever the original
`p 8b /r` is a RIP-relative load of size `sz` into `rr`, the rewritten instruction is `lea` of the same
size into the same register with the same observable effect. -/
theorem gotpcrel_prefixed_mov_to_lea_ok (p op reg : UInt8) (hreg : reg ∈ regs8) (t : List UInt8) (vf : Nat) (ok : OutKind)
    (sf : Nat) (r : Relaxation) (sz : Sz) (rr : Reg)
    (hdec : newRelaxation R_GOTPCREL (p :: op :: ripModrm reg :: t) 3 vf ok sf = .ok (some r))
    (horig : decodeHead [p, op, ripModrm reg] = some (.movRip sz rr)) :
    r.kind = .movIndirectToLea ∧ r.rtype = R_PC32 ∧
      apply r.kind (p :: op :: ripModrm reg :: t) 3 (-4) = .ok ⟨p :: 0x8d :: ripModrm reg :: t, 3, -4⟩ ∧
      decodeHead [p, 0x8d, ripModrm reg] = some (.leaRip sz rr) ∧ PcEquiv (.movRip sz rr) (.leaRip sz rr) 3 3 := by
  obtain ⟨hop, hk, hrt⟩ := dec9_3 _ _ _ _ _ _ _ _ hdec
  subst hop
  refine ⟨hk, hrt, ?_, prefixed_lea p reg (mem_allBytes p) hreg sz rr horig, ?_⟩
  · simp [hk, apply, usub, setIdx, bind, Except.bind, pure, Except.pure]
  · intro σ S GOT hG hS hmem; exact lea_sem _ _ σ S GOT 3 hG hS hmem

/-! ### APX REX2 (0xd5) forms: R_X86_64_CODE_4_GOTPCRELX -/

theorem dec43 (pl op m : UInt8) (t : List UInt8) (vf : Nat) (ok : OutKind) (sf : Nat) (r : Relaxation)
    (h : newRelaxation R_CODE_4_GOTPCRELX (0xd5 :: pl :: op :: m :: t) 4 vf ok sf = .ok (some r)) :
    (pl = 0x48 ∨ pl = 0x4c) ∧
    ((op = 0x8b ∧ r.kind = .rexMovIndirectToAbsolute 4 ∧ r.rtype = R_32S) ∨
     (op = 0x2b ∧ r.kind = .rexSubIndirectToAbsolute 4 ∧ r.rtype = R_32S) ∨
     (op = 0x3b ∧ r.kind = .rexCmpIndirectToAbsolute 4 ∧ r.rtype = R_32S) ∨
     (op = 0x8b ∧ r.kind = .movIndirectToLea ∧ r.rtype = R_PC32)) := by
  unfold newRelaxation at h
  simp only [R_REX_GOTPCRELX, R_CODE_4_GOTPCRELX, R_PC32] at h
  split at h
  · simp at h
  split at h
  · simp at h
  simp [armRexGotpcrelx, code4Guard, idx, bind, Except.bind, pure, Except.pure] at h
  repeat' (split at h)
  all_goals (simp_all)
  all_goals (subst_vars; exact ⟨Classical.or_iff_not_imp_left.mpr (by assumption), by simp⟩)

theorem rexToAbs43_ok (pl op m : UInt8) (t : List UInt8) (opc ext : UInt8) (first : Bool) :
    rexToAbs (0xd5 :: pl :: op :: m :: t) 4 4 opc ext first = .ok (0xd5 :: rex2RtoB pl :: opc :: modrmRegToRm m ext :: t) := by
  cases first <;> simp [rexToAbs, usub, idx, setIdx, bind, Except.bind, pure, Except.pure]

/-- REX2 `mov/sub/cmp sym@GOTPCREL(%rip), %r16..r31` (R_X86_64_CODE_4_GOTPCRELX): every answer of the
decision on the aligned window is semantics preserving: immediate forms (R_X86_64_32S) or `lea`
(R_X86_64_PC32). -/
theorem rex2_gotpcrelx_ok (pl op reg : UInt8) (hreg : reg ∈ regs8) (t : List UInt8) (vf : Nat) (ok : OutKind) (sf : Nat)
    (r : Relaxation)
    (hdec : newRelaxation R_CODE_4_GOTPCRELX (0xd5 :: pl :: op :: ripModrm reg :: t) 4 vf ok sf = .ok (some r)) :
    ∃ h1 h2 h3 ad f f',
      apply r.kind (0xd5 :: pl :: op :: ripModrm reg :: t) 4 (-4) = .ok ⟨0xd5 :: h1 :: h2 :: h3 :: t, 4, ad⟩ ∧
      decodeHead [0xd5, pl, op, ripModrm reg] = some f ∧ decodeHead [0xd5, h1, h2, h3] = some f' ∧
      ((r.rtype = R_32S ∧ ad = 0 ∧ AbsEquiv f f' 4 0 ∧
          (r.kind = .rexMovIndirectToAbsolute 4 ∨ r.kind = .rexSubIndirectToAbsolute 4 ∨ r.kind = .rexCmpIndirectToAbsolute 4)) ∨
       (r.rtype = R_PC32 ∧ ad = -4 ∧ PcEquiv f f' 4 4 ∧ r.kind = .movIndirectToLea)) := by
  obtain ⟨hpl, hc⟩ := dec43 _ _ _ _ _ _ _ _ hdec
  have hpl' : pl ∈ [0x48, 0x4c] := by rcases hpl with h | h <;> simp [h]
  have T := rex2_heads pl hpl' reg hreg
  have e0 : ∀ S : BitVec 64, S + (0 : BitVec 64) = S := by simp
  rcases hc with ⟨hop, hk, hrt⟩ | ⟨hop, hk, hrt⟩ | ⟨hop, hk, hrt⟩ | ⟨hop, hk, hrt⟩
  · subst hop
    refine ⟨rex2RtoB pl, 0xc7, modrmRegToRm (ripModrm reg) 0xc0, 0, _, _, ?_, T.1, T.2.1, .inl ⟨hrt, rfl, ?_, .inl hk⟩⟩
    · simp [hk, apply, rexToAbs43_ok, bind, Except.bind, pure, Except.pure]
    · intro σ S GOT hG hS hmem
      rw [e0] at hS ⊢
      exact abs64_sem _ σ S GOT 4 hG hS hmem
  · subst hop
    refine ⟨rex2RtoB pl, 0x81, modrmRegToRm (ripModrm reg) 0xe8, 0, _, _, ?_, T.2.2.2.1, T.2.2.2.2.1, .inl ⟨hrt, rfl, ?_, .inr (.inl hk)⟩⟩
    · simp [hk, apply, rexToAbs43_ok, bind, Except.bind, pure, Except.pure]
    · intro σ S GOT hG hS hmem
      rw [e0] at hS ⊢
      exact alu_sem _ _ σ S GOT 4 hG hS hmem
  · subst hop
    refine ⟨rex2RtoB pl, 0x81, modrmRegToRm (ripModrm reg) 0xf8, 0, _, _, ?_, T.2.2.2.2.2.1, T.2.2.2.2.2.2.1, .inl ⟨hrt, rfl, ?_, .inr (.inr hk)⟩⟩
    · simp [hk, apply, rexToAbs43_ok, bind, Except.bind, pure, Except.pure]
    · intro σ S GOT hG hS hmem
      rw [e0] at hS ⊢
      exact alu_sem _ _ σ S GOT 4 hG hS hmem
  · subst hop
    refine ⟨pl, 0x8d, ripModrm reg, -4, _, _, ?_, T.1, T.2.2.1, .inr ⟨hrt, rfl, ?_, hk⟩⟩
    · simp [hk, apply, usub, setIdx, bind, Except.bind, pure, Except.pure]
    · intro σ S GOT hG hS hmem; exact lea_sem _ _ σ S GOT 4 hG hS hmem

/-- Non-vacuity of the new end-to-end theorems. -/
example : newRelaxation R_GOTPCRELX [0xff, 0x25, 0, 0, 0, 0] 2 8 .dynPie 6
    = .ok (some ⟨.jmpIndirectToRelative, R_PC32, false⟩) := by rfl
example : newRelaxation R_GOTPCRELX [0xff, 0x15, 0, 0, 0, 0] 2 8 .shared 6
    = .ok (some ⟨.callIndirectToRelative, R_PC32, false⟩) := by rfl
example : newRelaxation R_GOTPCRELX [0x8b, 0x05, 0, 0, 0, 0] 2 9 .staticExe 6
    = .ok (some ⟨.movIndirectToAbsolute, R_32, true⟩) := by rfl
example : newRelaxation R_CODE_4_GOTPCRELX [0xd5, 0x48, 0x8b, 0x05, 0, 0, 0, 0] 4 8 .dynPie 6
    = .ok (some ⟨.movIndirectToLea, R_PC32, false⟩) := by rfl
example : newRelaxation R_GOTPCREL [0x66, 0x8b, 0x05, 0, 0, 0, 0] 3 8 .dynPie 6
    = .ok (some ⟨.movIndirectToLea, R_PC32, false⟩) := by rfl

/-! ### TLS code sequences -/

/-- the general-dynamic code sequence with arbitrary field bytes and arbitrary following bytes:
`data16 lea x@tlsgd(%rip),%rdi; data16 data16 rex.W call __tls_get_addr@PLT` -/
def gdImg (a b c d e f g h : UInt8) (t : List UInt8) : List UInt8 :=
  0x66 :: 0x48 :: 0x8d :: 0x3d :: a :: b :: c :: d :: 0x66 :: 0x66 :: 0x48 :: 0xe8 :: e :: f :: g :: h :: t

theorem identify_gdImg (a b c d e f g h : UInt8) (t : List UInt8) :
    identifyTlsGd (gdImg a b c d e f g h t) 4 = .ok (some .regular) := by
  simp [gdImg, identifyTlsGd, getRange, pure, Except.pure]

theorem dec19 (a b c d e f g h : UInt8) (t : List UInt8) (vf : Nat) (ok : OutKind) (sf : Nat) (r : Relaxation)
    (hd : newRelaxation R_TLSGD (gdImg a b c d e f g h t) 4 vf ok sf = .ok (some r)) :
    (r.kind = .tlsGdToLocalExec ∧ r.rtype = R_TPOFF32) ∨ (r.kind = .tlsGdToInitialExec ∧ r.rtype = R_GOTTPOFF) := by
  have hlen : (gdImg a b c d e f g h t).length = t.length + 16 := by simp [gdImg]
  by_cases hi : vfIfunc vf = true
  · simp [newRelaxation, hi, R_TLSGD, R_PC32] at hd
  by_cases hs : sfExec sf = false
  · simp [newRelaxation, hi, hs] at hd
  replace hd : armTlsGd (mkCfg vf ok) (gdImg a b c d e f g h t) 4 = .ok (some r) := by
    rw [← hd]
    simp [newRelaxation, hi, hs, hlen, R_TLSGD, R_GOTPCREL, R_GOTPCRELX, R_REX_GOTPCRELX, R_CODE_4_GOTPCRELX, R_PC32, R_GOTTPOFF,
      R_CODE_4_GOTTPOFF, R_CODE_6_GOTTPOFF, R_PLT32, R_PLTOFF64]
    omega
  simp [armTlsGd, identify_gdImg, bind, Except.bind, pure, Except.pure] at hd
  repeat' (split at hd)
  all_goals (simp_all)
  all_goals (subst hd; simp)

theorem app_gd_le (a b c d e f g h : UInt8) (t : List UInt8) (ad : Int) :
    apply .tlsGdToLocalExec (gdImg a b c d e f g h t) 4 ad =
      .ok ⟨0x64 :: 0x48 :: 0x8b :: 0x04 :: 0x25 :: 0 :: 0 :: 0 :: 0 :: 0x48 :: 0x8d :: 0x80 :: e :: f :: g :: h :: t, 12, 0⟩ := by
  simp [gdImg, apply, usub, splice, bind, Except.bind, pure, Except.pure]

theorem app_gd_ie (a b c d e f g h : UInt8) (t : List UInt8) (ad : Int) :
    apply .tlsGdToInitialExec (gdImg a b c d e f g h t) 4 ad =
      .ok ⟨0x64 :: 0x48 :: 0x8b :: 0x04 :: 0x25 :: 0 :: 0 :: 0 :: 0 :: 0x48 :: 0x03 :: 0x05 :: e :: f :: g :: h :: t, 12, ad⟩ := by
  simp [gdImg, apply, usub, splice, bind, Except.bind, pure, Except.pure]

/-- TLS general dynamic -> local exec (`TlsGdToLocalExec`, R_X86_64_TLSGD -> R_X86_64_TPOFF32 at
offset + 8, next relocation (the PLT32 of the call) skipped).

Original code after relocation: field at 4 = `G + A - P` (A = -4, G = address of the `tls_index` GOT pair
of `x`), field at 12 = `L + A - P` (L = `__tls_get_addr`).  Rewritten code after relocation: field at 12 =
`S + 0 - tpStart` (R_X86_64_TPOFF32, signed 32-bit check).
Hypotheses: `%fs:0` holds the thread pointer TP (`hfs`); the GOT pair holds {module `σ.mem G`, offset
`S - tlsStart`} (`hoff`); that module is the executable's own, whose TLS block lies directly below TP
(variant II: `tlsBase = TP - (tpStart - tlsStart)`, `hII`).  Conclusion: both sequences run to
completion, continue at the same address, and agree on `%rax`, all callee-saved registers and memory. -/
theorem tls_gd_to_le_ok (a b c d e' f g h : UInt8) (t : List UInt8) (vf : Nat) (ok : OutKind) (sf : Nat) (r : Relaxation)
    (hdec : newRelaxation R_TLSGD (gdImg a b c d e' f g h t) 4 vf ok sf = .ok (some r))
    (hk : r.kind = .tlsGdToLocalExec) :
    r.rtype = R_TPOFF32 ∧ skipNext r.kind = true ∧ ∃ new,
      apply r.kind (gdImg a b c d e' f g h t) 4 (-4) = .ok ⟨new, 12, 0⟩ ∧
      ∀ (e : TlsEnv) (σ : State) (G S tlsStart tpStart : BitVec 64),
        σ.mem σ.fsBase = σ.fsBase →
        σ.mem (G + 8#64) = S - tlsStart →
        e.tlsBase (σ.mem G) = σ.fsBase - (tpStart - tlsStart) →
        fitsS32 (G - 4#64 - (σ.rip + 4#64)) →
        fitsS32 (e.getAddr - 4#64 - (σ.rip + 12#64)) →
        fitsS32 (S + 0#64 - tpStart) →
        ∃ σ₁ σ₂,
          runSeq e 2 (patch32 (patch32 (gdImg a b c d e' f g h t) 4 ((G - 4#64 - (σ.rip + 4#64)).truncate 32)) 12
                        ((e.getAddr - 4#64 - (σ.rip + 12#64)).truncate 32)) σ = some σ₁ ∧
          runSeq e 2 (patch32 new 12 ((S + 0#64 - tpStart).truncate 32)) σ = some σ₂ ∧
          ObsEq σ₁ σ₂ := by
  have hrt : r.rtype = R_TPOFF32 := by
    rcases dec19 _ _ _ _ _ _ _ _ _ _ _ _ _ hdec with h | h
    · exact h.2
    · rw [hk] at h; simp at h
  refine ⟨hrt, by rw [hk]; rfl, _, by rw [hk, app_gd_le], ?_⟩
  intro e σ G S tlsStart tpStart hfs hoff hII hG hcall hS
  rw [BitVec.add_zero] at hS ⊢
  exact gd_le_sem e σ t G S tlsStart tpStart hfs hoff hII hG hcall hS

theorem dec_add_rax (v : BitVec 32) (t : List UInt8) :
    decodeIns (0x48 :: 0x03 :: 0x05 :: (bytes32 v ++ t)) = some (.addRip 0 v, 7) := by
  simp +decide [decodeIns, legacyPfx, decodeOpc, take32_bytes32]

theorem dec_lea_rdi3 (v : BitVec 32) (t : List UInt8) :
    decodeIns (0x48 :: 0x8d :: 0x3d :: (bytes32 v ++ t)) = some (.leaRip 7 v, 7) := by
  simp +decide [decodeIns, legacyPfx, decodeOpc, take32_bytes32]

theorem dec_call (v : BitVec 32) (t : List UInt8) :
    decodeIns (0xe8 :: (bytes32 v ++ t)) = some (.callRel v, 5) := by
  simp +decide [decodeIns, legacyPfx, decodeOpc, take32_bytes32]

theorem dec_call_rip (v : BitVec 32) (t : List UInt8) :
    decodeIns (0xff :: 0x15 :: (bytes32 v ++ t)) = some (.callRip v, 6) := by
  simp +decide [decodeIns, legacyPfx, decodeOpc, take32_bytes32]

theorem dec_mov_fs0_p3 (t : List UInt8) :
    decodeIns (0x66 :: 0x66 :: 0x66 :: 0x64 :: 0x48 :: 0x8b :: 0x04 :: 0x25 :: 0 :: 0 :: 0 :: 0 :: t) = some (.movFs 0 0#32, 12) := by
  simp +decide [decodeIns, legacyPfx, decodeOpc, take32, le32]

theorem dec_mov_fs0_p4 (t : List UInt8) :
    decodeIns (0x66 :: 0x66 :: 0x66 :: 0x66 :: 0x64 :: 0x48 :: 0x8b :: 0x04 :: 0x25 :: 0 :: 0 :: 0 :: 0 :: t) = some (.movFs 0 0#32, 13) := by
  simp +decide [decodeIns, legacyPfx, decodeOpc, take32, le32]

/-- GD -> IE, semantic core. `GT` = address of the GOT slot holding the run-time TP offset of `x`. -/
theorem gd_ie_sem (e : TlsEnv) (σ : State) (t : List UInt8) (G GT : BitVec 64)
    (hfs : σ.mem σ.fsBase = σ.fsBase)
    (hie : e.tlsBase (σ.mem G) + σ.mem (G + 8#64) = σ.fsBase + σ.mem GT)
    (hG : fitsS32 (G - 4#64 - (σ.rip + 4#64)))
    (hcall : fitsS32 (e.getAddr - 4#64 - (σ.rip + 12#64)))
    (hGT : fitsS32 (GT - 4#64 - (σ.rip + 12#64))) :
    ∃ σ₁ σ₂,
      runSeq e 2 (0x66 :: 0x48 :: 0x8d :: 0x3d :: (bytes32 ((G - 4#64 - (σ.rip + 4#64)).truncate 32) ++
                  0x66 :: 0x66 :: 0x48 :: 0xe8 :: (bytes32 ((e.getAddr - 4#64 - (σ.rip + 12#64)).truncate 32) ++ t))) σ = some σ₁ ∧
      runSeq e 2 (0x64 :: 0x48 :: 0x8b :: 0x04 :: 0x25 :: 0 :: 0 :: 0 :: 0 :: 0x48 :: 0x03 :: 0x05 ::
                  (bytes32 ((GT - 4#64 - (σ.rip + 12#64)).truncate 32) ++ t)) σ = some σ₂ ∧
      ObsEq σ₁ σ₂ := by
  have h1 : σ.rip + 8#64 + sext32 ((G - 4#64 - (σ.rip + 4#64)).truncate 32) = G := by
    have := rel_ea _ _ hG; unfold sext32 at *; bv_decide
  have h2 : σ.rip + 8#64 + 8#64 + sext32 ((e.getAddr - 4#64 - (σ.rip + 12#64)).truncate 32) = e.getAddr := by
    have := rel_ea _ _ hcall; unfold sext32 at *; bv_decide
  have h3 : σ.rip + 9#64 + 7#64 + sext32 ((GT - 4#64 - (σ.rip + 12#64)).truncate 32) = GT := by
    have := rel_ea _ _ hGT; unfold sext32 at *; bv_decide
  simp [runSeq, dec_lea_rdi, dec_call66, dec_mov_fs0, dec_add_rax, stepIns, drop_bytes32, setReg, h1, h2, h3, tlsGetAddr]
  have hz : sext32 0#32 = 0#64 := by decide
  refine ⟨by bv_decide, rfl, rfl, ?_, ?_⟩
  · simp only [if_true, hz, BitVec.add_zero, hfs, hie]
  · intro r hr
    obtain ⟨h0, h7⟩ := volatile_false_ne r hr
    simp [h0, h7, hr]

/-- TLS general dynamic -> initial exec (`TlsGdToInitialExec`, R_X86_64_TLSGD -> R_X86_64_GOTTPOFF at
offset + 8 with the addend -4 kept, next relocation skipped): `mov %fs:0,%rax; add x@gottpoff(%rip),%rax`.
`GT` is the GOT slot the dynamic loader fills with the TP offset of `x` (R_X86_64_TPOFF64); `hie` says
that slot is consistent with the module/offset pair `__tls_get_addr` would have used (x lives in the
static TLS area, which is what the IE model requires). -/
theorem tls_gd_to_ie_ok (a b c d e' f g h : UInt8) (t : List UInt8) (vf : Nat) (ok : OutKind) (sf : Nat) (r : Relaxation)
    (hdec : newRelaxation R_TLSGD (gdImg a b c d e' f g h t) 4 vf ok sf = .ok (some r))
    (hk : r.kind = .tlsGdToInitialExec) :
    r.rtype = R_GOTTPOFF ∧ skipNext r.kind = true ∧ ∃ new,
      apply r.kind (gdImg a b c d e' f g h t) 4 (-4) = .ok ⟨new, 12, -4⟩ ∧
      ∀ (e : TlsEnv) (σ : State) (G GT : BitVec 64),
        σ.mem σ.fsBase = σ.fsBase →
        e.tlsBase (σ.mem G) + σ.mem (G + 8#64) = σ.fsBase + σ.mem GT →
        fitsS32 (G - 4#64 - (σ.rip + 4#64)) →
        fitsS32 (e.getAddr - 4#64 - (σ.rip + 12#64)) →
        fitsS32 (GT - 4#64 - (σ.rip + 12#64)) →
        ∃ σ₁ σ₂,
          runSeq e 2 (patch32 (patch32 (gdImg a b c d e' f g h t) 4 ((G - 4#64 - (σ.rip + 4#64)).truncate 32)) 12
                        ((e.getAddr - 4#64 - (σ.rip + 12#64)).truncate 32)) σ = some σ₁ ∧
          runSeq e 2 (patch32 new 12 ((GT - 4#64 - (σ.rip + 12#64)).truncate 32)) σ = some σ₂ ∧
          ObsEq σ₁ σ₂ := by
  have hrt : r.rtype = R_GOTTPOFF := by
    rcases dec19 _ _ _ _ _ _ _ _ _ _ _ _ _ hdec with h | h
    · rw [hk] at h; simp at h
    · exact h.2
  refine ⟨hrt, by rw [hk]; rfl, _, by rw [hk, app_gd_ie], ?_⟩
  intro e σ G GT hfs hie hG hcall hGT
  exact gd_ie_sem e σ t G GT hfs hie hG hcall hGT

/-! #### local dynamic -> local exec -/

/-- `lea x@tlsld(%rip),%rdi; call __tls_get_addr@PLT` -/
def ldImg (a b c d e f g h : UInt8) (t : List UInt8) : List UInt8 :=
  0x48 :: 0x8d :: 0x3d :: a :: b :: c :: d :: 0xe8 :: e :: f :: g :: h :: t

/-- `lea x@tlsld(%rip),%rdi; call *__tls_get_addr@GOTPCREL(%rip)` -/
def ldNoPltImg (a b c d e f g h : UInt8) (t : List UInt8) : List UInt8 :=
  0x48 :: 0x8d :: 0x3d :: a :: b :: c :: d :: 0xff :: 0x15 :: e :: f :: g :: h :: t

theorem armTlsLd_of (bs : List UInt8) (vf : Nat) (ok : OutKind) (sf : Nat) (r : Relaxation) (hlen : 3 ≤ bs.length)
    (hd : newRelaxation R_TLSLD bs 3 vf ok sf = .ok (some r)) :
    armTlsLd (mkCfg vf ok) bs 3 = .ok (some r) := by
  by_cases hi : vfIfunc vf = true
  · simp [newRelaxation, hi, R_TLSLD, R_PC32] at hd
  by_cases hs : sfExec sf = false
  · simp [newRelaxation, hi, hs] at hd
  rw [← hd]
  simp [newRelaxation, hi, hs, R_TLSLD, R_TLSGD, R_GOTPCREL, R_GOTPCRELX, R_REX_GOTPCRELX, R_CODE_4_GOTPCRELX, R_PC32, R_GOTTPOFF,
    R_CODE_4_GOTTPOFF, R_CODE_6_GOTTPOFF, R_PLT32, R_PLTOFF64]
  omega

theorem dec20 (a b c d e f g h : UInt8) (t : List UInt8) (vf : Nat) (ok : OutKind) (sf : Nat) (r : Relaxation)
    (hd : newRelaxation R_TLSLD (ldImg a b c d e f g h t) 3 vf ok sf = .ok (some r)) :
    r.kind = .tlsLdToLocalExec ∧ r.rtype = R_NONE := by
  replace hd := armTlsLd_of _ _ _ _ _ (by simp [ldImg]) hd
  simp [ldImg, armTlsLd, getRange, pure, Except.pure] at hd
  repeat' (split at hd)
  all_goals (simp_all)
  all_goals (subst hd; simp)

theorem dec20_noplt (a b c d e f g h : UInt8) (t : List UInt8) (vf : Nat) (ok : OutKind) (sf : Nat) (r : Relaxation)
    (hd : newRelaxation R_TLSLD (ldNoPltImg a b c d e f g h t) 3 vf ok sf = .ok (some r)) :
    r.kind = .tlsLdToLocalExecNoPlt ∧ r.rtype = R_NONE := by
  replace hd := armTlsLd_of _ _ _ _ _ (by simp [ldNoPltImg]) hd
  simp [ldNoPltImg, armTlsLd, getRange, pure, Except.pure] at hd
  repeat' (split at hd)
  all_goals (simp_all)
  all_goals (subst hd; simp)

theorem app_ld (a b c d e f g h : UInt8) (t : List UInt8) (ad : Int) :
    apply .tlsLdToLocalExec (ldImg a b c d e f g h t) 3 ad =
      .ok ⟨0x66 :: 0x66 :: 0x66 :: 0x64 :: 0x48 :: 0x8b :: 0x04 :: 0x25 :: 0 :: 0 :: 0 :: 0 :: t, 8, ad⟩ := by
  simp [ldImg, apply, usub, splice, bind, Except.bind, pure, Except.pure]

theorem app_ld_noplt (a b c d e f g h : UInt8) (t : List UInt8) (ad : Int) :
    apply .tlsLdToLocalExecNoPlt (ldNoPltImg a b c d e f g h t) 3 ad =
      .ok ⟨0x66 :: 0x66 :: 0x66 :: 0x66 :: 0x64 :: 0x48 :: 0x8b :: 0x04 :: 0x25 :: 0 :: 0 :: 0 :: 0 :: t, 8, ad⟩ := by
  simp [ldNoPltImg, apply, usub, splice, bind, Except.bind, pure, Except.pure]

/-- TLS local dynamic -> local exec (`TlsLdToLocalExec`, R_X86_64_TLSLD -> R_X86_64_NONE, next
relocation skipped): `lea x@tlsld(%rip),%rdi; call __tls_get_addr@PLT` -> `data16 data16 data16 mov %fs:0,%rax`.

wild resolves R_X86_64_DTPOFF32 in executables relative to the END of the TLS segment whether or not
the sequence was relaxed (elf_writer.rs `RelocationKind::DtpOff`), and for an un-relaxed sequence
stores the `tls_index` pair {own module, tpStart - tlsStart} (elf_writer.rs, "DTPOFF values are negative
values relative to the thread pointer"); so the original sequence must leave `%rax = TP` as well.
That is what is proved, under `hoff` (the pair's offset word), `hII` (variant II: the executable's
TLS block lies directly below TP) and `%fs:0 = TP`. -/
theorem tls_ld_to_le_ok (a b c d e' f g h : UInt8) (t : List UInt8) (vf : Nat) (ok : OutKind) (sf : Nat) (r : Relaxation)
    (hdec : newRelaxation R_TLSLD (ldImg a b c d e' f g h t) 3 vf ok sf = .ok (some r)) :
    r.kind = .tlsLdToLocalExec ∧ r.rtype = R_NONE ∧ skipNext r.kind = true ∧ ∃ new,
      apply r.kind (ldImg a b c d e' f g h t) 3 (-4) = .ok ⟨new, 8, -4⟩ ∧
      ∀ (e : TlsEnv) (σ : State) (G tlsStart tpStart : BitVec 64),
        σ.mem σ.fsBase = σ.fsBase →
        σ.mem (G + 8#64) = tpStart - tlsStart →
        e.tlsBase (σ.mem G) = σ.fsBase - (tpStart - tlsStart) →
        fitsS32 (G - 4#64 - (σ.rip + 3#64)) →
        fitsS32 (e.getAddr - 4#64 - (σ.rip + 8#64)) →
        ∃ σ₁ σ₂,
          runSeq e 2 (patch32 (patch32 (ldImg a b c d e' f g h t) 3 ((G - 4#64 - (σ.rip + 3#64)).truncate 32)) 8
                        ((e.getAddr - 4#64 - (σ.rip + 8#64)).truncate 32)) σ = some σ₁ ∧
          runSeq e 1 new σ = some σ₂ ∧
          ObsEq σ₁ σ₂ ∧ σ₂.reg 0 = σ.fsBase := by
  obtain ⟨hk, hrt⟩ := dec20 _ _ _ _ _ _ _ _ _ _ _ _ _ hdec
  refine ⟨hk, hrt, by rw [hk]; rfl, _, by rw [hk, app_ld], ?_⟩
  intro e σ G tlsStart tpStart hfs hoff hII hG hcall
  have h1 : σ.rip + 7#64 + sext32 ((G - 4#64 - (σ.rip + 3#64)).truncate 32) = G := by
    have := rel_ea _ _ hG; unfold sext32 at *; bv_decide
  have h2 : σ.rip + 7#64 + 5#64 + sext32 ((e.getAddr - 4#64 - (σ.rip + 8#64)).truncate 32) = e.getAddr := by
    have := rel_ea _ _ hcall; unfold sext32 at *; bv_decide
  have hz : sext32 0#32 = 0#64 := by decide
  have hp : patch32 (patch32 (ldImg a b c d e' f g h t) 3 ((G - 4#64 - (σ.rip + 3#64)).truncate 32)) 8
      ((e.getAddr - 4#64 - (σ.rip + 8#64)).truncate 32) =
      0x48 :: 0x8d :: 0x3d :: (bytes32 ((G - 4#64 - (σ.rip + 3#64)).truncate 32) ++
        0xe8 :: (bytes32 ((e.getAddr - 4#64 - (σ.rip + 8#64)).truncate 32) ++ t)) := rfl
  rw [hp]
  simp [runSeq, dec_lea_rdi3, dec_call, dec_mov_fs0_p3, stepIns, drop_bytes32, setReg, h1, h2, tlsGetAddr, hz, hfs]
  refine ⟨by bv_decide, rfl, rfl, ?_, ?_⟩
  · show e.tlsBase (σ.mem G) + σ.mem (G + 8#64) = σ.fsBase
    rw [hII, hoff]; clear h1 h2 hp; bv_omega
  · intro r hr
    obtain ⟨h0, h7⟩ := volatile_false_ne r hr
    simp [h0, h7, hr]

/-- `TlsLdToLocalExecNoPlt`: same with `call *__tls_get_addr@GOTPCREL(%rip)` (GOT slot `GA` holds the
address of `__tls_get_addr`) -> `data16 data16 data16 data16 mov %fs:0,%rax`. -/
theorem tls_ld_to_le_noplt_ok (a b c d e' f g h : UInt8) (t : List UInt8) (vf : Nat) (ok : OutKind) (sf : Nat) (r : Relaxation)
    (hdec : newRelaxation R_TLSLD (ldNoPltImg a b c d e' f g h t) 3 vf ok sf = .ok (some r)) :
    r.kind = .tlsLdToLocalExecNoPlt ∧ r.rtype = R_NONE ∧ skipNext r.kind = true ∧ ∃ new,
      apply r.kind (ldNoPltImg a b c d e' f g h t) 3 (-4) = .ok ⟨new, 8, -4⟩ ∧
      ∀ (e : TlsEnv) (σ : State) (G GA tlsStart tpStart : BitVec 64),
        σ.mem σ.fsBase = σ.fsBase →
        σ.mem (G + 8#64) = tpStart - tlsStart →
        e.tlsBase (σ.mem G) = σ.fsBase - (tpStart - tlsStart) →
        σ.mem GA = e.getAddr →
        fitsS32 (G - 4#64 - (σ.rip + 3#64)) →
        fitsS32 (GA - 4#64 - (σ.rip + 9#64)) →
        ∃ σ₁ σ₂,
          runSeq e 2 (patch32 (patch32 (ldNoPltImg a b c d e' f g h t) 3 ((G - 4#64 - (σ.rip + 3#64)).truncate 32)) 9
                        ((GA - 4#64 - (σ.rip + 9#64)).truncate 32)) σ = some σ₁ ∧
          runSeq e 1 new σ = some σ₂ ∧
          ObsEq σ₁ σ₂ ∧ σ₂.reg 0 = σ.fsBase := by
  obtain ⟨hk, hrt⟩ := dec20_noplt _ _ _ _ _ _ _ _ _ _ _ _ _ hdec
  refine ⟨hk, hrt, by rw [hk]; rfl, _, by rw [hk, app_ld_noplt], ?_⟩
  intro e σ G GA tlsStart tpStart hfs hoff hII hGA hG hcall
  have h1 : σ.rip + 7#64 + sext32 ((G - 4#64 - (σ.rip + 3#64)).truncate 32) = G := by
    have := rel_ea _ _ hG; unfold sext32 at *; bv_decide
  have h2 : σ.rip + 7#64 + 6#64 + sext32 ((GA - 4#64 - (σ.rip + 9#64)).truncate 32) = GA := by
    have := rel_ea _ _ hcall; unfold sext32 at *; bv_decide
  have hz : sext32 0#32 = 0#64 := by decide
  have hp : patch32 (patch32 (ldNoPltImg a b c d e' f g h t) 3 ((G - 4#64 - (σ.rip + 3#64)).truncate 32)) 9
      ((GA - 4#64 - (σ.rip + 9#64)).truncate 32) =
      0x48 :: 0x8d :: 0x3d :: (bytes32 ((G - 4#64 - (σ.rip + 3#64)).truncate 32) ++
        0xff :: 0x15 :: (bytes32 ((GA - 4#64 - (σ.rip + 9#64)).truncate 32) ++ t)) := rfl
  rw [hp]
  simp [runSeq, dec_lea_rdi3, dec_call_rip, dec_mov_fs0_p4, stepIns, drop_bytes32, setReg, h1, h2, hGA, tlsGetAddr, hz, hfs]
  refine ⟨by bv_decide, rfl, rfl, ?_, ?_⟩
  · show e.tlsBase (σ.mem G) + σ.mem (G + 8#64) = σ.fsBase
    rw [hII, hoff]; clear h1 h2 hp; bv_omega
  · intro r hr
    obtain ⟨h0, h7⟩ := volatile_false_ne r hr
    simp [h0, h7, hr]

/-! #### initial exec -> local exec (single instruction; `Effect`-level like the GOT rewrites) -/

/-- Observable equivalence for IE -> LE: the GOT slot of the original holds the TP offset
`S - tpStart` of `x`; the rewritten instruction gets it as immediate (R_X86_64_TPOFF32: `S + A - tpStart`
with `A = 0`, signed 32-bit check). -/
def TpEquiv (f f' : Form) (hlen : Nat) : Prop :=
  ∀ (σ : State) (S tpStart GOT : BitVec 64), fitsS32 (GOT - 4#64 - place σ hlen) → fitsS32 (S + 0#64 - tpStart) →
    σ.mem GOT = S - tpStart → exec f hlen (gotField σ hlen GOT) σ = exec f' hlen ((S + 0#64 - tpStart).truncate 32) σ

theorem armGottpoff_of (rt : Nat) (hrt : rt = R_GOTTPOFF ∨ rt = R_CODE_4_GOTTPOFF) (bs : List UInt8) (off : Nat) (vf : Nat)
    (ok : OutKind) (sf : Nat) (r : Relaxation) (hlen : off ≤ bs.length)
    (hd : newRelaxation rt bs off vf ok sf = .ok (some r)) :
    armGottpoff (mkCfg vf ok) (decide (rt = R_CODE_4_GOTTPOFF)) bs off = .ok (some r) := by
  by_cases hi : vfIfunc vf = true
  · rcases hrt with h | h <;> simp [newRelaxation, hi, h, R_GOTTPOFF, R_CODE_4_GOTTPOFF, R_PC32] at hd
  by_cases hs : sfExec sf = false
  · simp [newRelaxation, hi, hs] at hd
  rw [← hd]
  rcases hrt with h | h <;> subst h <;>
  simp [newRelaxation, hi, hs, R_TLSLD, R_TLSGD, R_GOTPCREL, R_GOTPCRELX, R_REX_GOTPCRELX, R_CODE_4_GOTPCRELX, R_PC32, R_GOTTPOFF,
    R_CODE_4_GOTTPOFF, R_CODE_6_GOTTPOFF, R_PLT32, R_PLTOFF64] <;> omega

theorem dec22 (rex op m : UInt8) (t : List UInt8) (vf : Nat) (ok : OutKind) (sf : Nat) (r : Relaxation)
    (hd : newRelaxation R_GOTTPOFF (rex :: op :: m :: t) 3 vf ok sf = .ok (some r)) :
    (rex = 0x48 ∨ rex = 0x4c) ∧ r.rtype = R_TPOFF32 ∧
    ((op = 0x8b ∧ r.kind = .rexMovIndirectToAbsolute 3) ∨ (op = 0x03 ∧ r.kind = .rexAddIndirectToAbsolute 3)) := by
  replace hd := armGottpoff_of _ (.inl rfl) _ _ _ _ _ _ (by simp) hd
  simp [R_GOTTPOFF, R_CODE_4_GOTTPOFF, armGottpoff, code4Guard, getRange, bind, Except.bind, pure, Except.pure] at hd
  repeat' (split at hd)
  all_goals (simp_all)
  all_goals (subst hd; simp_all)
  all_goals (rename_i hh; rcases hh with ⟨h1, h2⟩ | ⟨h1, h2⟩ <;> simp [h1, h2])

theorem dec44 (pl op m : UInt8) (t : List UInt8) (vf : Nat) (ok : OutKind) (sf : Nat) (r : Relaxation)
    (hd : newRelaxation R_CODE_4_GOTTPOFF (0xd5 :: pl :: op :: m :: t) 4 vf ok sf = .ok (some r)) :
    (pl = 0x48 ∨ pl = 0x4c) ∧ r.rtype = R_TPOFF32 ∧
    ((op = 0x8b ∧ r.kind = .rexMovIndirectToAbsolute 4) ∨ (op = 0x03 ∧ r.kind = .rexAddIndirectToAbsolute 4)) := by
  replace hd := armGottpoff_of _ (.inr rfl) _ _ _ _ _ _ (by simp) hd
  simp [R_GOTTPOFF, R_CODE_4_GOTTPOFF, armGottpoff, code4Guard, idx, getRange, bind, Except.bind, pure, Except.pure] at hd
  repeat' (split at hd)
  all_goals (simp_all)
  all_goals (subst hd; simp_all)
  all_goals (rename_i hh; rcases hh with ⟨h1, h2⟩ | ⟨h1, h2⟩ <;> simp [h1, h2])

theorem tp_of_abs (f f' : Form) (hlen : Nat) (h : AbsEquiv f f' hlen 0) : TpEquiv f f' hlen := by
  intro σ S tpStart GOT hG hS hmem
  have e0 : S + 0#64 - tpStart = (S - tpStart) + 0 := by simp
  rw [e0] at hS ⊢
  exact h σ (S - tpStart) GOT hG hS hmem

theorem absEquiv_mov (r : Reg) (hlen : Nat) : AbsEquiv (.movRip .w64 r) (.movImm .w64 r) hlen 0 := by
  intro σ S GOT hG hS hmem
  have e : S + (0 : BitVec 64) = S := by simp
  rw [e] at hS ⊢
  exact abs64_sem _ σ S GOT hlen hG hS hmem

theorem absEquiv_alu (op : Alu) (r : Reg) (hlen : Nat) : AbsEquiv (.aluRip op r) (.aluImm op r) hlen 0 := by
  intro σ S GOT hG hS hmem
  have e : S + (0 : BitVec 64) = S := by simp
  rw [e] at hS ⊢
  exact alu_sem _ _ σ S GOT hlen hG hS hmem

/-- TLS initial exec -> local exec (R_X86_64_GOTTPOFF -> R_X86_64_TPOFF32):
`mov x@gottpoff(%rip),%r64` -> `mov $x@tpoff,%r64`; `add x@gottpoff(%rip),%r64` -> `add $x@tpoff,%r64`
(same destination value AND same flags). -/
theorem gottpoff_ok (rex op reg : UInt8) (hreg : reg ∈ regs8) (t : List UInt8) (vf : Nat) (ok : OutKind) (sf : Nat)
    (r : Relaxation)
    (hdec : newRelaxation R_GOTTPOFF (rex :: op :: ripModrm reg :: t) 3 vf ok sf = .ok (some r)) :
    r.rtype = R_TPOFF32 ∧ ∃ h0 h1 h2 f f',
      apply r.kind (rex :: op :: ripModrm reg :: t) 3 (-4) = .ok ⟨h0 :: h1 :: h2 :: t, 3, 0⟩ ∧
      decodeHead [rex, op, ripModrm reg] = some f ∧ decodeHead [h0, h1, h2] = some f' ∧ TpEquiv f f' 3 ∧
      ((op = 0x8b ∧ r.kind = .rexMovIndirectToAbsolute 3) ∨ (op = 0x03 ∧ r.kind = .rexAddIndirectToAbsolute 3)) := by
  obtain ⟨hrex, hrt, hc⟩ := dec22 _ _ _ _ _ _ _ _ hdec
  have hrex' : rex ∈ [0x48, 0x4c] := by rcases hrex with h | h <;> simp [h]
  refine ⟨hrt, ?_⟩
  rcases hc with ⟨hop, hk⟩ | ⟨hop, hk⟩
  · subst hop
    refine ⟨rexRtoB rex, 0xc7, modrmRegToRm (ripModrm reg) 0xc0, _, _, ?_, (rex_mov_heads rex hrex' reg hreg).1,
      (rex_mov_heads rex hrex' reg hreg).2.1, tp_of_abs _ _ _ (absEquiv_mov _ _), .inl ⟨rfl, hk⟩⟩
    simp [hk, apply, rexToAbs42_ok, bind, Except.bind, pure, Except.pure]
  · subst hop
    refine ⟨rexRtoB rex, 0x81, modrmRegToRm (ripModrm reg) 0xc0, _, _, ?_, (rex_alu_heads rex hrex' reg hreg).2.2.2.2.1,
      (rex_alu_heads rex hrex' reg hreg).2.2.2.2.2, tp_of_abs _ _ _ (absEquiv_alu _ _ _), .inr ⟨rfl, hk⟩⟩
    simp [hk, apply, rexToAbs42_ok, bind, Except.bind, pure, Except.pure]

/-- REX2 form (R_X86_64_CODE_4_GOTTPOFF -> R_X86_64_TPOFF32), registers r16..r31. -/
theorem rex2_gottpoff_ok (pl op reg : UInt8) (hreg : reg ∈ regs8) (t : List UInt8) (vf : Nat) (ok : OutKind) (sf : Nat)
    (r : Relaxation)
    (hdec : newRelaxation R_CODE_4_GOTTPOFF (0xd5 :: pl :: op :: ripModrm reg :: t) 4 vf ok sf = .ok (some r)) :
    r.rtype = R_TPOFF32 ∧ ∃ h1 h2 h3 f f',
      apply r.kind (0xd5 :: pl :: op :: ripModrm reg :: t) 4 (-4) = .ok ⟨0xd5 :: h1 :: h2 :: h3 :: t, 4, 0⟩ ∧
      decodeHead [0xd5, pl, op, ripModrm reg] = some f ∧ decodeHead [0xd5, h1, h2, h3] = some f' ∧ TpEquiv f f' 4 ∧
      ((op = 0x8b ∧ r.kind = .rexMovIndirectToAbsolute 4) ∨ (op = 0x03 ∧ r.kind = .rexAddIndirectToAbsolute 4)) := by
  obtain ⟨hpl, hrt, hc⟩ := dec44 _ _ _ _ _ _ _ _ hdec
  have hpl' : pl ∈ [0x48, 0x4c] := by rcases hpl with h | h <;> simp [h]
  have T := rex2_heads pl hpl' reg hreg
  refine ⟨hrt, ?_⟩
  rcases hc with ⟨hop, hk⟩ | ⟨hop, hk⟩
  · subst hop
    refine ⟨rex2RtoB pl, 0xc7, modrmRegToRm (ripModrm reg) 0xc0, _, _, ?_, T.1, T.2.1, tp_of_abs _ _ _ (absEquiv_mov _ _), .inl ⟨rfl, hk⟩⟩
    simp [hk, apply, rexToAbs43_ok, bind, Except.bind, pure, Except.pure]
  · subst hop
    refine ⟨rex2RtoB pl, 0x81, modrmRegToRm (ripModrm reg) 0xc0, _, _, ?_, T.2.2.2.2.2.2.2.1, T.2.2.2.2.2.2.2.2,
      tp_of_abs _ _ _ (absEquiv_alu _ _ _), .inr ⟨rfl, hk⟩⟩
    simp [hk, apply, rexToAbs43_ok, bind, Except.bind, pure, Except.pure]

/-! #### large code model TLS sequences -/

/-- large code model: `lea x@tlsld(%rip),%rdi; movabs $__tls_get_addr@PLTOFF,%rax; add %rbx,%rax; call *%rax` -/
def ld64Img (a b c d : UInt8) (i0 i1 i2 i3 i4 i5 i6 i7 : UInt8) (t : List UInt8) : List UInt8 :=
  0x48 :: 0x8d :: 0x3d :: a :: b :: c :: d :: 0x48 :: 0xb8 :: i0 :: i1 :: i2 :: i3 :: i4 :: i5 :: i6 :: i7 ::
    0x48 :: 0x01 :: 0xd8 :: 0xff :: 0xd0 :: t

theorem dec20_64 (a b c d i0 i1 i2 i3 i4 i5 i6 i7 : UInt8) (t : List UInt8) (vf : Nat) (ok : OutKind) (sf : Nat) (r : Relaxation)
    (hd : newRelaxation R_TLSLD (ld64Img a b c d i0 i1 i2 i3 i4 i5 i6 i7 t) 3 vf ok sf = .ok (some r)) :
    r.kind = .tlsLdToLocalExec64 ∧ r.rtype = R_NONE := by
  replace hd := armTlsLd_of _ _ _ _ _ (by simp [ld64Img]) hd
  simp [ld64Img, armTlsLd, getRange, pure, Except.pure] at hd
  repeat' (split at hd)
  all_goals (simp_all)
  all_goals (subst hd; simp)

theorem app_ld64 (a b c d i0 i1 i2 i3 i4 i5 i6 i7 : UInt8) (t : List UInt8) (ad : Int) :
    apply .tlsLdToLocalExec64 (ld64Img a b c d i0 i1 i2 i3 i4 i5 i6 i7 t) 3 ad =
      .ok ⟨0x66 :: 0x66 :: 0x66 :: 0x66 :: 0x2e :: 0x0f :: 0x1f :: 0x84 :: 0 :: 0 :: 0 :: 0 :: 0 ::
           0x64 :: 0x48 :: 0x8b :: 0x04 :: 0x25 :: 0 :: 0 :: 0 :: 0 :: t, 18, ad⟩ := by
  simp [ld64Img, apply, usub, splice, bind, Except.bind, pure, Except.pure]

/-- `TlsLdToLocalExec64` (large code model; R_X86_64_TLSLD -> R_X86_64_NONE, the R_X86_64_PLTOFF64 of the
`movabs` skipped) -> `nopw; mov %fs:0,%rax`.  `%rbx` holds the GOT base `gotBase` and the `movabs` immediate
is `L + A - gotBase` (A = 0).  Other hypotheses as in `tls_ld_to_le_ok`. -/
theorem tls_ld_to_le_64_ok (a b c d i0 i1 i2 i3 i4 i5 i6 i7 : UInt8) (t : List UInt8) (vf : Nat) (ok : OutKind) (sf : Nat)
    (r : Relaxation)
    (hdec : newRelaxation R_TLSLD (ld64Img a b c d i0 i1 i2 i3 i4 i5 i6 i7 t) 3 vf ok sf = .ok (some r)) :
    r.kind = .tlsLdToLocalExec64 ∧ r.rtype = R_NONE ∧ skipNext r.kind = true ∧ ∃ new,
      apply r.kind (ld64Img a b c d i0 i1 i2 i3 i4 i5 i6 i7 t) 3 (-4) = .ok ⟨new, 18, -4⟩ ∧
      ∀ (e : TlsEnv) (σ : State) (G gotBase tlsStart tpStart : BitVec 64),
        σ.mem σ.fsBase = σ.fsBase →
        σ.mem (G + 8#64) = tpStart - tlsStart →
        e.tlsBase (σ.mem G) = σ.fsBase - (tpStart - tlsStart) →
        σ.reg 3 = gotBase →
        fitsS32 (G - 4#64 - (σ.rip + 3#64)) →
        ∃ σ₁ σ₂,
          runSeq e 4 (patch64 (patch32 (ld64Img a b c d i0 i1 i2 i3 i4 i5 i6 i7 t) 3 ((G - 4#64 - (σ.rip + 3#64)).truncate 32)) 9
                        (e.getAddr + 0#64 - gotBase)) σ = some σ₁ ∧
          runSeq e 2 new σ = some σ₂ ∧
          ObsEq σ₁ σ₂ := by
  obtain ⟨hk, hrt⟩ := dec20_64 _ _ _ _ _ _ _ _ _ _ _ _ _ _ _ _ _ hdec
  refine ⟨hk, hrt, by rw [hk]; rfl, _, by rw [hk, app_ld64], ?_⟩
  intro e σ G gotBase tlsStart tpStart hfs hoff hII hrbx hG
  have h1 : σ.rip + 7#64 + sext32 ((G - 4#64 - (σ.rip + 3#64)).truncate 32) = G := by
    have := rel_ea _ _ hG; unfold sext32 at *; bv_decide
  have h2 : e.getAddr - gotBase + gotBase = e.getAddr := by bv_omega
  have hz : sext32 0#32 = 0#64 := by decide
  have hp : patch64 (patch32 (ld64Img a b c d i0 i1 i2 i3 i4 i5 i6 i7 t) 3 ((G - 4#64 - (σ.rip + 3#64)).truncate 32)) 9
      (e.getAddr + 0#64 - gotBase) =
      0x48 :: 0x8d :: 0x3d :: (bytes32 ((G - 4#64 - (σ.rip + 3#64)).truncate 32) ++
        0x48 :: 0xb8 :: (bytes64 (e.getAddr + 0#64 - gotBase) ++ 0x48 :: 0x01 :: 0xd8 :: 0xff :: 0xd0 :: t)) := rfl
  rw [hp]
  simp [runSeq, dec_lea_rdi3, dec_movabs_rax, dec_add_rbx_rax, dec_call_rax, dec_nop13, dec_mov_fs0, stepIns, drop_bytes32,
    drop_bytes64, setReg, h1, h2, hrbx, tlsGetAddr, hz, hfs]
  refine ⟨by bv_decide, rfl, rfl, ?_, ?_⟩
  · show e.tlsBase (σ.mem G) + σ.mem (G + 8#64) = σ.fsBase
    rw [hII, hoff]; clear h1 h2 hp; bv_omega
  · intro r hr
    obtain ⟨h0, h7⟩ := volatile_false_ne r hr
    simp [h0, h7, hr]

/-- large code model general dynamic sequence preceded by an arbitrary byte `p` (the decision refuses
offsets < 4): `lea x@tlsgd(%rip),%rdi; movabs $__tls_get_addr@PLTOFF,%rax; add %rbx,%rax; call *%rax` -/
def gdLargeImg (p a b c d : UInt8) (i0 i1 i2 i3 i4 i5 i6 i7 : UInt8) (t : List UInt8) : List UInt8 :=
  p :: ld64Img a b c d i0 i1 i2 i3 i4 i5 i6 i7 t

theorem identify_gdLargeImg (p a b c d i0 i1 i2 i3 i4 i5 i6 i7 : UInt8) (t : List UInt8) :
    identifyTlsGd (gdLargeImg p a b c d i0 i1 i2 i3 i4 i5 i6 i7 t) 4 = .ok (some .large) := by
  simp [gdLargeImg, ld64Img, identifyTlsGd, getRange, pure, Except.pure]

theorem dec19_large (p a b c d i0 i1 i2 i3 i4 i5 i6 i7 : UInt8) (t : List UInt8) (vf : Nat) (ok : OutKind) (sf : Nat) (r : Relaxation)
    (hd : newRelaxation R_TLSGD (gdLargeImg p a b c d i0 i1 i2 i3 i4 i5 i6 i7 t) 4 vf ok sf = .ok (some r)) :
    r.kind = .tlsGdToLocalExecLarge ∧ r.rtype = R_TPOFF32 := by
  have hlen : (gdLargeImg p a b c d i0 i1 i2 i3 i4 i5 i6 i7 t).length = t.length + 23 := by simp [gdLargeImg, ld64Img]
  by_cases hi : vfIfunc vf = true
  · simp [newRelaxation, hi, R_TLSGD, R_PC32] at hd
  by_cases hs : sfExec sf = false
  · simp [newRelaxation, hi, hs] at hd
  replace hd : armTlsGd (mkCfg vf ok) (gdLargeImg p a b c d i0 i1 i2 i3 i4 i5 i6 i7 t) 4 = .ok (some r) := by
    rw [← hd]
    simp [newRelaxation, hi, hs, hlen, R_TLSGD, R_GOTPCREL, R_GOTPCRELX, R_REX_GOTPCRELX, R_CODE_4_GOTPCRELX, R_PC32, R_GOTTPOFF,
      R_CODE_4_GOTTPOFF, R_CODE_6_GOTTPOFF, R_PLT32, R_PLTOFF64]
    omega
  simp [armTlsGd, identify_gdLargeImg, bind, Except.bind, pure, Except.pure] at hd
  repeat' (split at hd)
  all_goals (simp_all)
  all_goals (subst hd; simp)

theorem app_gd_large (p a b c d i0 i1 i2 i3 i4 i5 i6 i7 : UInt8) (t : List UInt8) (ad : Int) :
    apply .tlsGdToLocalExecLarge (gdLargeImg p a b c d i0 i1 i2 i3 i4 i5 i6 i7 t) 4 ad =
      .ok ⟨p :: 0x64 :: 0x48 :: 0x8b :: 0x04 :: 0x25 :: 0 :: 0 :: 0 :: 0 :: 0x48 :: 0x8d :: 0x80 :: 0 :: 0 :: 0 :: 0 ::
           0x66 :: 0x0f :: 0x1f :: 0x44 :: 0 :: 0 :: t, 13, 0⟩ := by
  simp [gdLargeImg, ld64Img, apply, usub, splice, bind, Except.bind, pure, Except.pure]

/-- `TlsGdToLocalExecLarge` (large code model; R_X86_64_TLSGD -> R_X86_64_TPOFF32 at offset + 9, the
PLTOFF64 skipped) -> `mov %fs:0,%rax; lea x@tpoff(%rax),%rax; nopw 0(%rax,%rax,1)`.  Execution starts at
byte 1 of the image (`σ.rip` = its address); hypotheses as in `tls_gd_to_le_ok` plus `%rbx = gotBase`. -/
theorem tls_gd_to_le_large_ok (p a b c d i0 i1 i2 i3 i4 i5 i6 i7 : UInt8) (t : List UInt8) (vf : Nat) (ok : OutKind) (sf : Nat)
    (r : Relaxation)
    (hdec : newRelaxation R_TLSGD (gdLargeImg p a b c d i0 i1 i2 i3 i4 i5 i6 i7 t) 4 vf ok sf = .ok (some r)) :
    r.kind = .tlsGdToLocalExecLarge ∧ r.rtype = R_TPOFF32 ∧ skipNext r.kind = true ∧ ∃ new,
      apply r.kind (gdLargeImg p a b c d i0 i1 i2 i3 i4 i5 i6 i7 t) 4 (-4) = .ok ⟨new, 13, 0⟩ ∧
      ∀ (e : TlsEnv) (σ : State) (G S gotBase tlsStart tpStart : BitVec 64),
        σ.mem σ.fsBase = σ.fsBase →
        σ.mem (G + 8#64) = S - tlsStart →
        e.tlsBase (σ.mem G) = σ.fsBase - (tpStart - tlsStart) →
        σ.reg 3 = gotBase →
        fitsS32 (G - 4#64 - (σ.rip + 3#64)) →
        fitsS32 (S + 0#64 - tpStart) →
        ∃ σ₁ σ₂,
          runSeq e 4 ((patch64 (patch32 (gdLargeImg p a b c d i0 i1 i2 i3 i4 i5 i6 i7 t) 4 ((G - 4#64 - (σ.rip + 3#64)).truncate 32)) 10
                        (e.getAddr + 0#64 - gotBase)).drop 1) σ = some σ₁ ∧
          runSeq e 3 ((patch32 new 13 ((S + 0#64 - tpStart).truncate 32)).drop 1) σ = some σ₂ ∧
          ObsEq σ₁ σ₂ := by
  obtain ⟨hk, hrt⟩ := dec19_large _ _ _ _ _ _ _ _ _ _ _ _ _ _ _ _ _ _ hdec
  refine ⟨hk, hrt, by rw [hk]; rfl, _, by rw [hk, app_gd_large], ?_⟩
  intro e σ G S gotBase tlsStart tpStart hfs hoff hII hrbx hG hS
  simp only [BitVec.add_zero] at hS ⊢
  have h1 : σ.rip + 7#64 + sext32 ((G - 4#64 - (σ.rip + 3#64)).truncate 32) = G := by
    have := rel_ea _ _ hG; unfold sext32 at *; bv_decide
  have h2 : e.getAddr - gotBase + gotBase = e.getAddr := by bv_omega
  have hz : sext32 0#32 = 0#64 := by decide
  have hp : (patch64 (patch32 (gdLargeImg p a b c d i0 i1 i2 i3 i4 i5 i6 i7 t) 4 ((G - 4#64 - (σ.rip + 3#64)).truncate 32)) 10
      (e.getAddr - gotBase)).drop 1 =
      0x48 :: 0x8d :: 0x3d :: (bytes32 ((G - 4#64 - (σ.rip + 3#64)).truncate 32) ++
        0x48 :: 0xb8 :: (bytes64 (e.getAddr - gotBase) ++ 0x48 :: 0x01 :: 0xd8 :: 0xff :: 0xd0 :: t)) := rfl
  have hq : (patch32 (p :: 0x64 :: 0x48 :: 0x8b :: 0x04 :: 0x25 :: 0 :: 0 :: 0 :: 0 :: 0x48 :: 0x8d :: 0x80 :: 0 :: 0 :: 0 :: 0 ::
           0x66 :: 0x0f :: 0x1f :: 0x44 :: 0 :: 0 :: t) 13 ((S - tpStart).truncate 32)).drop 1 =
      0x64 :: 0x48 :: 0x8b :: 0x04 :: 0x25 :: 0 :: 0 :: 0 :: 0 :: 0x48 :: 0x8d :: 0x80 ::
        (bytes32 ((S - tpStart).truncate 32) ++ 0x66 :: 0x0f :: 0x1f :: 0x44 :: 0 :: 0 :: t) := rfl
  rw [hp, hq]
  simp [runSeq, dec_lea_rdi3, dec_movabs_rax, dec_add_rbx_rax, dec_call_rax, dec_nop6, dec_mov_fs0, dec_lea_rax, stepIns, drop_bytes32,
    drop_bytes64, setReg, h1, h2, hrbx, tlsGetAddr, hz, hfs]
  refine ⟨by bv_decide, rfl, rfl, ?_, ?_⟩
  · show e.tlsBase (σ.mem G) + σ.mem (G + 8#64) = σ.fsBase + sext32 ((S - tpStart).truncate 32)
    rw [hII, hoff]; unfold fitsS32 at hS; unfold sext32; rw [hS]; clear h1 h2 hp hq; bv_omega
  · intro r hr
    obtain ⟨h0, h7⟩ := volatile_false_ne r hr
    simp [h0, h7, hr]

end Wild.C14
