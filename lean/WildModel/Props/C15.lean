/-
C15 — Linker-script input-section patterns match as in GNU ld.
Spec side: `Props/C15Spec.lean` (POSIX fnmatch). Model side: `Model/Glob.lean`, `Model/Rules.lean`.
-/
import WildModel.Model.Rules
import WildModel.Props.C15Spec
namespace Wild.C15
open Wild.Glob Wild.Rules Wild.FnmatchSpec

/-! ## First match in rule order -/

/-- What the property demands of `lookup`: the outcome of the first rule, in the order the rules
were given, that matches; `Custom`/unnamed fallback otherwise. -/
def firstMatch (rs : List Rule) (name : Bytes) (file : Option Bytes) : Outcome :=
  match rs.find? (fun r => r.matches name file) with
  | some r => r.outcome
  | none => if name.isEmpty then .unnamed else .custom

/-- A rule that is stored in the hash table only matches names that have its key. -/
def KeyOK (r : Rule) : Prop :=
  ∀ name file k, r.matches name file = true → r.matcher.keyBytes = some k → nameKey name = some k

theorem fromRulesAux_unkeyed_ge (rs : List Rule) : ∀ i, ∀ e ∈ (fromRulesAux i rs).unkeyed, i ≤ e.1 := by
  induction rs with
  | nil => intro i e h; simp [fromRulesAux] at h
  | cons r rs ih =>
    intro i e h
    simp only [fromRulesAux] at h
    split at h
    · simp only [List.mem_cons] at h
      rcases h with h | h
      · subst h; exact Nat.le_refl _
      · exact Nat.le_of_succ_le (ih (i + 1) e h)
    · exact Nat.le_of_succ_le (ih (i + 1) e h)

theorem fromRulesAux_keyed_ge (rs : List Rule) : ∀ i, ∀ e ∈ (fromRulesAux i rs).keyed, i ≤ e.1 := by
  induction rs with
  | nil => intro i e h; simp [fromRulesAux] at h
  | cons r rs ih =>
    intro i e h
    simp only [fromRulesAux] at h
    split at h
    · exact Nat.le_of_succ_le (ih (i + 1) e h)
    · simp only [List.mem_cons] at h
      rcases h with h | h
      · subst h; exact Nat.le_refl _
      · exact Nat.le_of_succ_le (ih (i + 1) e h)

/-- `lookup` on explicit lists (same body as `Rules.lookup`). -/
theorem lookup_def (k u : List (Nat × Rule)) (name : Bytes) (file : Option Bytes) :
    lookup { keyed := k, unkeyed := u } name file =
      (let keyed := (nameKey name).bind (fun key => tableFind k key (fun r => r.matches name file))
       let cands : List (Nat × Rule) := match keyed with
         | none => u
         | some (ki, _) => u.takeWhile (fun e => e.1 < ki)
       match cands.find? (fun e => e.2.matches name file) with
       | some (_, r) => r.outcome
       | none => match keyed with
         | some (_, r) => r.outcome
         | none => if name.isEmpty then .unnamed else .custom) := rfl

theorem tableFind_mem {es : List (Nat × Rule)} {key : Bytes} {eq : Rule → Bool} {e : Nat × Rule}
    (h : tableFind es key eq = some e) : e ∈ es := by
  unfold tableFind at h; exact List.mem_of_find?_eq_some h

theorem lookup_first_match_aux (name : Bytes) (file : Option Bytes) (rs : List Rule) :
    ∀ i, (∀ r ∈ rs, KeyOK r) →
      lookup (fromRulesAux i rs) name file = firstMatch rs name file := by
  induction rs with
  | nil =>
    intro i _
    simp [fromRulesAux, lookup_def, firstMatch, tableFind]
  | cons r rs ih =>
    intro i hk
    have ih' := ih (i + 1) (fun r' hr' => hk r' (List.mem_cons_of_mem _ hr'))
    have hu := fromRulesAux_unkeyed_ge rs (i + 1)
    have hkd := fromRulesAux_keyed_ge rs (i + 1)
    generalize ht : fromRulesAux (i + 1) rs = t at ih' hu hkd
    obtain ⟨tk, tu⟩ := t
    simp only [lookup_def] at ih'
    simp only [fromRulesAux, ht]
    cases hkey : r.matcher.keyBytes with
    | none =>
      simp only [lookup_def]
      cases hm : r.matches name file with
      | true =>
        have : firstMatch (r :: rs) name file = r.outcome := by simp [firstMatch, hm]
        rw [this]
        cases hK : (nameKey name).bind (fun key => tableFind tk key (fun r => r.matches name file)) with
        | none => simp [hm]
        | some e =>
          obtain ⟨ki, kr⟩ := e
          have hmem : (ki, kr) ∈ tk := by
            cases hn : nameKey name with
            | none => simp [hn] at hK
            | some key => simp [hn] at hK; exact tableFind_mem hK
          have : i < ki := hkd _ hmem
          simp [List.takeWhile, this, hm]
      | false =>
        have : firstMatch (r :: rs) name file = firstMatch rs name file := by simp [firstMatch, hm]
        rw [this, ← ih']
        cases hK : (nameKey name).bind (fun key => tableFind tk key (fun r => r.matches name file)) with
        | none => simp [hm]
        | some e =>
          obtain ⟨ki, kr⟩ := e
          have hmem : (ki, kr) ∈ tk := by
            cases hn : nameKey name with
            | none => simp [hn] at hK
            | some key => simp [hn] at hK; exact tableFind_mem hK
          have : i < ki := hkd _ hmem
          simp [List.takeWhile, this, hm]
    | some key =>
      simp only [lookup_def]
      cases hm : r.matches name file with
      | true =>
        have : firstMatch (r :: rs) name file = r.outcome := by simp [firstMatch, hm]
        rw [this]
        have hnk : nameKey name = some key := hk r List.mem_cons_self name file key hm hkey
        have hfind : tableFind ((i, r) :: tk) key (fun r => r.matches name file) = some (i, r) := by
          simp [tableFind, hkey, hm]
        have htw : tu.takeWhile (fun e => e.1 < i) = [] := by
          cases tu with
          | nil => rfl
          | cons e tu' =>
            have : i + 1 ≤ e.1 := hu e List.mem_cons_self
            have : ¬ e.1 < i := by omega
            simp [List.takeWhile, this]
        simp [hnk, hfind, htw]
      | false =>
        have : firstMatch (r :: rs) name file = firstMatch rs name file := by simp [firstMatch, hm]
        rw [this, ← ih']
        have : ∀ key', tableFind ((i, r) :: tk) key' (fun r => r.matches name file)
            = tableFind tk key' (fun r => r.matches name file) := by
          intro key'; simp [tableFind, hm]
        simp [this]

/-- **First match.** For every rule list whose table-resident rules only match names carrying their
key, every section name and file name, `lookup (from_rules rs)` is the outcome of the first rule in
order that matches. -/
theorem lookup_first_match (rs : List Rule) (hk : ∀ r ∈ rs, KeyOK r) (name : Bytes) (file : Option Bytes) :
    lookup (fromRules rs) name file = firstMatch rs name file :=
  lookup_first_match_aux name file rs 0 hk

/-! ## Table-resident rules only match names with their key -/

theorem nameKey_of_prefix {n name : Bytes} (hlen : ¬ n.length < 4) (hp : n.isPrefixOf name = true) :
    nameKey name = some (n.take 4) := by
  have hp' : n <+: name := List.isPrefixOf_iff_prefix.mp hp
  obtain ⟨t, rfl⟩ := hp'
  have h4 : ¬ (n ++ t).length < 4 := by simp; omega
  simp only [nameKey, h4, if_false]
  congr 1
  rw [List.take_append_of_le_length (by omega)]

/-- Rules built by `SectionRule::exact` / `SectionRule::prefix` and the exact matchers produced by
`SectionRule::new` satisfy `KeyOK`, for all byte strings. -/
theorem keyed_match_key_exact (n : Bytes) (fp : Option (List Tok)) (o : Outcome) :
    KeyOK { matcher := .exact n, filePat := fp, outcome := o } := by
  intro name file k hm hk
  simp only [NameMatcher.keyBytes, NameMatcher.prefixBytes] at hk
  by_cases hlen : n.length < 4
  · simp [hlen] at hk
  · simp only [hlen, if_false] at hk
    cases hk
    have : (NameMatcher.exact n).matches name = true := by
      simp only [Rule.matches] at hm
      cases h : (NameMatcher.exact n).matches name <;> simp_all
    simp only [NameMatcher.matches, beq_iff_eq] at this
    subst this
    exact nameKey_of_prefix hlen (by simp)

theorem keyed_match_key_pref (n : Bytes) (fp : Option (List Tok)) (o : Outcome) :
    KeyOK { matcher := .pref n, filePat := fp, outcome := o } := by
  intro name file k hm hk
  simp only [NameMatcher.keyBytes, NameMatcher.prefixBytes] at hk
  by_cases hlen : n.length < 4
  · simp [hlen] at hk
  · simp only [hlen, if_false] at hk
    cases hk
    have : (NameMatcher.pref n).matches name = true := by
      simp only [Rule.matches] at hm
      cases h : (NameMatcher.pref n).matches name <;> simp_all
    simp only [NameMatcher.matches] at this
    exact nameKey_of_prefix hlen this

/-! ## KEEP -/

/-- **KEEP ⇒ must_keep.** If the first matching rule is a KEEP rule for output section `idx`, then
`lookup` returns `Section { section_id: idx, must_keep: true }`. -/
theorem keep_implies_must_keep (rs : List Rule) (hk : ∀ r ∈ rs, KeyOK r) (name : Bytes) (file : Option Bytes)
    (r : Rule) (idx : Nat) (hfirst : rs.find? (fun r => r.matches name file) = some r)
    (hkeep : r.outcome = .section idx true) :
    lookup (fromRules rs) name file = .section idx true := by
  rw [lookup_first_match rs hk]; simp only [firstMatch, hfirst, hkeep]

/-- The literal reading of "a section matched by a KEEP description is never garbage-collected"
(and GNU ld's behaviour: gc marking walks every KEEP statement): if ANY rule with KEEP matches, the
outcome has `must_keep`. Does NOT hold: only the first matching description counts. -/
def keep_any_full : Prop :=
  ∀ (rs : List Rule) (name : Bytes) (file : Option Bytes),
    (∃ r ∈ rs, r.matches name file = true ∧ ∃ i, r.outcome = .section i true) →
    ∃ i, lookup (fromRules rs) name file = .section i true

/-- `o0 : { *(fo[o]) } o1 : { KEEP(*(*o)) }` and section `foo`. -/
theorem keep_any_witness : ¬ keep_any_full := by
  intro h
  have r0 : Rule.new [0x66, 0x6F, 0x5B, 0x6F, 0x5D] none (.section 0 false) = .ok
      { matcher := .glob [0x66, 0x6F, 0x5B, 0x6F, 0x5D] [.char 'f', .char 'o', .within [.single 'o']], filePat := none, outcome := .section 0 false } := by rfl
  have r1 : Rule.new [0x2A, 0x6F] none (.section 1 true) = .ok
      { matcher := .glob [0x2A, 0x6F] [.anySeq, .char 'o'], filePat := none, outcome := .section 1 true } := by rfl
  have := h [{ matcher := .glob [0x66, 0x6F, 0x5B, 0x6F, 0x5D] [.char 'f', .char 'o', .within [.single 'o']], filePat := none, outcome := .section 0 false },
             { matcher := .glob [0x2A, 0x6F] [.anySeq, .char 'o'], filePat := none, outcome := .section 1 true }]
    [0x66, 0x6F, 0x6F] none ⟨_, List.mem_cons_of_mem _ List.mem_cons_self, by decide, 1, rfl⟩
  obtain ⟨i, hi⟩ := this
  have hl : lookup (fromRules [{ matcher := .glob [0x66, 0x6F, 0x5B, 0x6F, 0x5D] [.char 'f', .char 'o', .within [.single 'o']], filePat := none, outcome := .section 0 false },
             { matcher := .glob [0x2A, 0x6F] [.anySeq, .char 'o'], filePat := none, outcome := .section 1 true }]) [0x66, 0x6F, 0x6F] none = .section 0 false := by decide
  rw [hl] at hi
  cases hi

/-! ## Totality -/

/-- `from_rules` and `lookup` have no failure mode in the model (`from_rules` used to
`expect` a 4-byte prefix): for rule lists of ANY shape, in particular with patterns shorter than
four bytes, the result is one of the three outcomes and it is the first-match outcome. The short
pattern `.t*` and the short name `foo` are the regression witnesses. -/
theorem from_rules_lookup_total :
    (∀ (rs : List Rule) name file, ∃ o, lookup (fromRules rs) name file = o) ∧
    (∀ r, Rule.new [0x2E, 0x74, 0x2A] none (.section 0 true) = .ok r →
      lookup (fromRules [r]) [0x2E, 0x74, 0x64, 0x61, 0x74] none = .section 0 true) ∧
    (∀ r, Rule.new [0x66, 0x6F, 0x6F] none (.section 0 false) = .ok r →
      lookup (fromRules [r]) [0x66, 0x6F, 0x6F] none = .section 0 false) := by
  refine ⟨fun rs name file => ⟨_, rfl⟩, ?_, ?_⟩
  · intro r h
    have : Rule.new [0x2E, 0x74, 0x2A] none (.section 0 true) = .ok
        { matcher := .glob [0x2E, 0x74, 0x2A] [.char '.', .char 't', .anySeq], filePat := none, outcome := .section 0 true } := by rfl
    rw [this] at h; cases h; decide
  · intro r h
    have : Rule.new [0x66, 0x6F, 0x6F] none (.section 0 false) = .ok
        { matcher := .exact [0x66, 0x6F, 0x6F], filePat := none, outcome := .section 0 false } := by rfl
    rw [this] at h; cases h; decide

/-! ## glob crate vs fnmatch: where they differ (proved witnesses) -/

def ascii (s : String) : Bytes := s.toList.map (fun c => UInt8.ofNat c.toNat)

/-- What `SectionRule::new(p).matches(name)` answers: `none` = the rule is rejected. -/
def wildMatch (p name : Bytes) : Option Bool :=
  match Rule.new p none .custom with
  | .ok r => some (r.matches name none)
  | .error _ => none

def specMatch (p name : Bytes) : Option Bool :=
  fnmatch (p.map (fun b => Char.ofNat b.toNat)) (name.map (fun b => Char.ofNat b.toNat))

/-- Full statement (does NOT hold): every pattern in the domain of the POSIX spec is accepted and
matches exactly the names `fnmatch` matches. -/
def glob_eq_fnmatch_full : Prop :=
  ∀ p name b, specMatch p name = some b → wildMatch p name = some b

/-- `a\*b*` must match `a*bc` (escaped star, then wildcard); wild says no. -/
theorem glob_backslash_witness :
    specMatch (ascii "a\\*b*") (ascii "a*bc") = some true ∧ wildMatch (ascii "a\\*b*") (ascii "a*bc") = some false := by
  decide

/-- `a**b` is a valid pattern (same as `a*b`); wild rejects it. -/
theorem glob_double_star_witness :
    specMatch (ascii "a**b") (ascii "axb") = some true ∧ wildMatch (ascii "a**b") (ascii "axb") = none := by
  decide

/-- An unterminated `[` matches itself; wild rejects the pattern. -/
theorem glob_unterminated_bracket_witness :
    specMatch (ascii "[a") (ascii "[a") = some true ∧ wildMatch (ascii "[a") (ascii "[a") = none := by
  decide

/-- `[a[^]` is the set {a, [, ^}; wild's textual `[^` → `[!` turns it into {a, [, !}. -/
theorem glob_caret_in_bracket_witness :
    specMatch (ascii "[a[^]") (ascii "^") = some true ∧ wildMatch (ascii "[a[^]") (ascii "^") = some false := by
  decide

theorem glob_eq_fnmatch_full_false : ¬ glob_eq_fnmatch_full := by
  intro h
  have := h (ascii "a**b") (ascii "axb") true glob_double_star_witness.1
  rw [glob_double_star_witness.2] at this
  cases this

/-- "Any syntactically valid pattern is accepted": fails for `a**b`, `***`, `[a`. -/
theorem rule_new_rejects_valid_witness :
    (Rule.new (ascii "a**b") none .custom).toOption.isNone ∧ (Rule.new (ascii "***") none .custom).toOption.isNone ∧
    (Rule.new (ascii "[a") none .custom).toOption.isNone ∧
    (specMatch (ascii "a**b") []).isSome ∧ (specMatch (ascii "***") []).isSome ∧ (specMatch (ascii "[a") []).isSome := by
  decide

end Wild.C15
