/-
C15 — Linker-script input-section patterns match as in GNU ld.
Spec side: `Props/C15Spec.lean` (POSIX fnmatch). Model side: `Model/Glob.lean`, `Model/Rules.lean`.
-/
import WildModel.Model.Rules
import WildModel.Props.C15Spec
namespace Wild.C15
open Wild.Glob Wild.Rules Wild.FnmatchSpec

/-! ## First match in rule order -/

/-- What the property demands of `lookup`: the outcome of the first rule, in the order the rules
were given, that matches; `Custom`/unnamed fallback otherwise. -/
def firstMatch (rs : List Rule) (name : Bytes) (file : Option Bytes) : Outcome :=
  match rs.find? (fun r => r.matches name file) with
  | some r => r.outcome
  | none => if name.isEmpty then .unnamed else .custom

/-- A rule that is stored in the hash table only matches names that have its key. -/
def KeyOK (r : Rule) : Prop :=
  ∀ name file k, r.matches name file = true → r.matcher.keyBytes = some k → nameKey name = some k

theorem fromRulesAux_unkeyed_ge (rs : List Rule) : ∀ i, ∀ e ∈ (fromRulesAux i rs).unkeyed, i ≤ e.1 := by
  induction rs with
  | nil => intro i e h; simp [fromRulesAux] at h
  | cons r rs ih =>
    intro i e h
    simp only [fromRulesAux] at h
    split at h
    · simp only [List.mem_cons] at h
      rcases h with h | h
      · subst h; exact Nat.le_refl _
      · exact Nat.le_of_succ_le (ih (i + 1) e h)
    · exact Nat.le_of_succ_le (ih (i + 1) e h)

theorem fromRulesAux_keyed_ge (rs : List Rule) : ∀ i, ∀ e ∈ (fromRulesAux i rs).keyed, i ≤ e.1 := by
  induction rs with
  | nil => intro i e h; simp [fromRulesAux] at h
  | cons r rs ih =>
    intro i e h
    simp only [fromRulesAux] at h
    split at h
    · exact Nat.le_of_succ_le (ih (i + 1) e h)
    · simp only [List.mem_cons] at h
      rcases h with h | h
      · subst h; exact Nat.le_refl _
      · exact Nat.le_of_succ_le (ih (i + 1) e h)

/-- `lookup` on explicit lists (same body as `Rules.lookup`). -/
theorem lookup_def (k u : List (Nat × Rule)) (name : Bytes) (file : Option Bytes) :
    lookup { keyed := k, unkeyed := u } name file =
      (let keyed := (nameKey name).bind (fun key => tableFind k key (fun r => r.matches name file))
       let cands : List (Nat × Rule) := match keyed with
         | none => u
         | some (ki, _) => u.takeWhile (fun e => e.1 < ki)
       match cands.find? (fun e => e.2.matches name file) with
       | some (_, r) => r.outcome
       | none => match keyed with
         | some (_, r) => r.outcome
         | none => if name.isEmpty then .unnamed else .custom) := rfl

theorem tableFind_mem {es : List (Nat × Rule)} {key : Bytes} {eq : Rule → Bool} {e : Nat × Rule}
    (h : tableFind es key eq = some e) : e ∈ es := by
  unfold tableFind at h; exact List.mem_of_find?_eq_some h

theorem lookup_first_match_aux (name : Bytes) (file : Option Bytes) (rs : List Rule) :
    ∀ i, (∀ r ∈ rs, KeyOK r) →
      lookup (fromRulesAux i rs) name file = firstMatch rs name file := by
  induction rs with
  | nil =>
    intro i _
    simp [fromRulesAux, lookup_def, firstMatch, tableFind]
  | cons r rs ih =>
    intro i hk
    have ih' := ih (i + 1) (fun r' hr' => hk r' (List.mem_cons_of_mem _ hr'))
    have hu := fromRulesAux_unkeyed_ge rs (i + 1)
    have hkd := fromRulesAux_keyed_ge rs (i + 1)
    generalize ht : fromRulesAux (i + 1) rs = t at ih' hu hkd
    obtain ⟨tk, tu⟩ := t
    simp only [lookup_def] at ih'
    simp only [fromRulesAux, ht]
    cases hkey : r.matcher.keyBytes with
    | none =>
      simp only [lookup_def]
      cases hm : r.matches name file with
      | true =>
        have : firstMatch (r :: rs) name file = r.outcome := by simp [firstMatch, hm]
        rw [this]
        cases hK : (nameKey name).bind (fun key => tableFind tk key (fun r => r.matches name file)) with
        | none => simp [hm]
        | some e =>
          obtain ⟨ki, kr⟩ := e
          have hmem : (ki, kr) ∈ tk := by
            cases hn : nameKey name with
            | none => simp [hn] at hK
            | some key => simp [hn] at hK; exact tableFind_mem hK
          have : i < ki := hkd _ hmem
          simp [List.takeWhile, this, hm]
      | false =>
        have : firstMatch (r :: rs) name file = firstMatch rs name file := by simp [firstMatch, hm]
        rw [this, ← ih']
        cases hK : (nameKey name).bind (fun key => tableFind tk key (fun r => r.matches name file)) with
        | none => simp [hm]
        | some e =>
          obtain ⟨ki, kr⟩ := e
          have hmem : (ki, kr) ∈ tk := by
            cases hn : nameKey name with
            | none => simp [hn] at hK
            | some key => simp [hn] at hK; exact tableFind_mem hK
          have : i < ki := hkd _ hmem
          simp [List.takeWhile, this, hm]
    | some key =>
      simp only [lookup_def]
      cases hm : r.matches name file with
      | true =>
        have : firstMatch (r :: rs) name file = r.outcome := by simp [firstMatch, hm]
        rw [this]
        have hnk : nameKey name = some key := hk r List.mem_cons_self name file key hm hkey
        have hfind : tableFind ((i, r) :: tk) key (fun r => r.matches name file) = some (i, r) := by
          simp [tableFind, hkey, hm]
        have htw : tu.takeWhile (fun e => e.1 < i) = [] := by
          cases tu with
          | nil => rfl
          | cons e tu' =>
            have : i + 1 ≤ e.1 := hu e List.mem_cons_self
            have : ¬ e.1 < i := by omega
            simp [List.takeWhile, this]
        simp [hnk, hfind, htw]
      | false =>
        have : firstMatch (r :: rs) name file = firstMatch rs name file := by simp [firstMatch, hm]
        rw [this, ← ih']
        have : ∀ key', tableFind ((i, r) :: tk) key' (fun r => r.matches name file)
            = tableFind tk key' (fun r => r.matches name file) := by
          intro key'; simp [tableFind, hm]
        simp [this]

/-- **First match.** For every rule list whose table-resident rules only match names carrying their
key, every section name and file name, `lookup (from_rules rs)` is the outcome of the first rule in
order that matches. -/
theorem lookup_first_match (rs : List Rule) (hk : ∀ r ∈ rs, KeyOK r) (name : Bytes) (file : Option Bytes) :
    lookup (fromRules rs) name file = firstMatch rs name file :=
  lookup_first_match_aux name file rs 0 hk

/-! ## Table-resident rules only match names with their key -/

theorem nameKey_of_prefix {n name : Bytes} (hlen : ¬ n.length < 4) (hp : n.isPrefixOf name = true) :
    nameKey name = some (n.take 4) := by
  have hp' : n <+: name := List.isPrefixOf_iff_prefix.mp hp
  obtain ⟨t, rfl⟩ := hp'
  have h4 : ¬ (n ++ t).length < 4 := by simp; omega
  simp only [nameKey, h4, if_false]
  congr 1
  rw [List.take_append_of_le_length (by omega)]

/-- Rules built by `SectionRule::exact` / `SectionRule::prefix` and the exact matchers produced by
`SectionRule::new` satisfy `KeyOK`, for all byte strings. -/
theorem keyed_match_key_exact (n : Bytes) (fp : Option (List Tok)) (o : Outcome) :
    KeyOK { matcher := .exact n, filePat := fp, outcome := o } := by
  intro name file k hm hk
  simp only [NameMatcher.keyBytes, NameMatcher.prefixBytes] at hk
  by_cases hlen : n.length < 4
  · simp [hlen] at hk
  · simp only [hlen, if_false] at hk
    cases hk
    have : (NameMatcher.exact n).matches name = true := by
      simp only [Rule.matches] at hm
      cases h : (NameMatcher.exact n).matches name <;> simp_all
    simp only [NameMatcher.matches, beq_iff_eq] at this
    subst this
    exact nameKey_of_prefix hlen (by simp)

theorem keyed_match_key_pref (n : Bytes) (fp : Option (List Tok)) (o : Outcome) :
    KeyOK { matcher := .pref n, filePat := fp, outcome := o } := by
  intro name file k hm hk
  simp only [NameMatcher.keyBytes, NameMatcher.prefixBytes] at hk
  by_cases hlen : n.length < 4
  · simp [hlen] at hk
  · simp only [hlen, if_false] at hk
    cases hk
    have : (NameMatcher.pref n).matches name = true := by
      simp only [Rule.matches] at hm
      cases h : (NameMatcher.pref n).matches name <;> simp_all
    simp only [NameMatcher.matches] at this
    exact nameKey_of_prefix hlen this

/-! ## KEEP -/

/-- **KEEP ⇒ must_keep.** If the first matching rule is a KEEP rule for output section `idx`, then
`lookup` returns `Section { section_id: idx, must_keep: true }`. -/
theorem keep_implies_must_keep (rs : List Rule) (hk : ∀ r ∈ rs, KeyOK r) (name : Bytes) (file : Option Bytes)
    (r : Rule) (idx : Nat) (hfirst : rs.find? (fun r => r.matches name file) = some r)
    (hkeep : r.outcome = .section idx true) :
    lookup (fromRules rs) name file = .section idx true := by
  rw [lookup_first_match rs hk]; simp only [firstMatch, hfirst, hkeep]

/-- The literal reading of "a section matched by a KEEP description is never garbage-collected"
(and GNU ld's behaviour: gc marking walks every KEEP statement): if ANY rule with KEEP matches, the
outcome has `must_keep`. Does NOT hold: only the first matching description counts. -/
def keep_any_full : Prop :=
  ∀ (rs : List Rule) (name : Bytes) (file : Option Bytes),
    (∃ r ∈ rs, r.matches name file = true ∧ ∃ i, r.outcome = .section i true) →
    ∃ i, lookup (fromRules rs) name file = .section i true

/-- `o0 : { *(fo[o]) } o1 : { KEEP(*(*o)) }` and section `foo`. -/
theorem keep_any_witness : ¬ keep_any_full := by
  intro h
  have r0 : Rule.new [0x66, 0x6F, 0x5B, 0x6F, 0x5D] none (.section 0 false) = .ok
      { matcher := .glob [0x66, 0x6F, 0x5B, 0x6F, 0x5D] [.char 'f', .char 'o', .within [.single 'o']], filePat := none, outcome := .section 0 false } := by rfl
  have r1 : Rule.new [0x2A, 0x6F] none (.section 1 true) = .ok
      { matcher := .glob [0x2A, 0x6F] [.anySeq, .char 'o'], filePat := none, outcome := .section 1 true } := by rfl
  have := h [{ matcher := .glob [0x66, 0x6F, 0x5B, 0x6F, 0x5D] [.char 'f', .char 'o', .within [.single 'o']], filePat := none, outcome := .section 0 false },
             { matcher := .glob [0x2A, 0x6F] [.anySeq, .char 'o'], filePat := none, outcome := .section 1 true }]
    [0x66, 0x6F, 0x6F] none ⟨_, List.mem_cons_of_mem _ List.mem_cons_self, by decide, 1, rfl⟩
  obtain ⟨i, hi⟩ := this
  have hl : lookup (fromRules [{ matcher := .glob [0x66, 0x6F, 0x5B, 0x6F, 0x5D] [.char 'f', .char 'o', .within [.single 'o']], filePat := none, outcome := .section 0 false },
             { matcher := .glob [0x2A, 0x6F] [.anySeq, .char 'o'], filePat := none, outcome := .section 1 true }]) [0x66, 0x6F, 0x6F] none = .section 0 false := by decide
  rw [hl] at hi
  cases hi

/-! ## Totality -/

/-- `from_rules` and `lookup` have no failure mode in the model (`from_rules` used to
`expect` a 4-byte prefix): for rule lists of ANY shape, in particular with patterns shorter than
four bytes, the result is one of the three outcomes and it is the first-match outcome. The short
pattern `.t*` and the short name `foo` are the regression witnesses. -/
theorem from_rules_lookup_total :
    (∀ (rs : List Rule) name file, ∃ o, lookup (fromRules rs) name file = o) ∧
    (∀ r, Rule.new [0x2E, 0x74, 0x2A] none (.section 0 true) = .ok r →
      lookup (fromRules [r]) [0x2E, 0x74, 0x64, 0x61, 0x74] none = .section 0 true) ∧
    (∀ r, Rule.new [0x66, 0x6F, 0x6F] none (.section 0 false) = .ok r →
      lookup (fromRules [r]) [0x66, 0x6F, 0x6F] none = .section 0 false) := by
  refine ⟨fun rs name file => ⟨_, rfl⟩, ?_, ?_⟩
  · intro r h
    have : Rule.new [0x2E, 0x74, 0x2A] none (.section 0 true) = .ok
        { matcher := .glob [0x2E, 0x74, 0x2A] [.char '.', .char 't', .anySeq], filePat := none, outcome := .section 0 true } := by rfl
    rw [this] at h; cases h; decide
  · intro r h
    have : Rule.new [0x66, 0x6F, 0x6F] none (.section 0 false) = .ok
        { matcher := .exact [0x66, 0x6F, 0x6F], filePat := none, outcome := .section 0 false } := by rfl
    rw [this] at h; cases h; decide

/-! ## glob crate vs fnmatch: where they differ (proved witnesses) -/

def ascii (s : String) : Bytes := s.toList.map (fun c => UInt8.ofNat c.toNat)

/-- What `SectionRule::new(p).matches(name)` answers: `none` = the rule is rejected. -/
def wildMatch (p name : Bytes) : Option Bool :=
  match Rule.new p none .custom with
  | .ok r => some (r.matches name none)
  | .error _ => none

def specMatch (p name : Bytes) : Option Bool :=
  fnmatch (p.map (fun b => Char.ofNat b.toNat)) (name.map (fun b => Char.ofNat b.toNat))

/-- Full statement (does NOT hold): every pattern in the domain of the POSIX spec is accepted and
matches exactly the names `fnmatch` matches. -/
def glob_eq_fnmatch_full : Prop :=
  ∀ p name b, specMatch p name = some b → wildMatch p name = some b

/-- `a\*b*` must match `a*bc` (escaped star, then wildcard); wild says no. -/
theorem glob_backslash_witness :
    specMatch (ascii "a\\*b*") (ascii "a*bc") = some true ∧ wildMatch (ascii "a\\*b*") (ascii "a*bc") = some false := by
  decide

/-- `a**b` is a valid pattern (same as `a*b`); wild rejects it. -/
theorem glob_double_star_witness :
    specMatch (ascii "a**b") (ascii "axb") = some true ∧ wildMatch (ascii "a**b") (ascii "axb") = none := by
  decide

/-- An unterminated `[` matches itself; wild rejects the pattern. -/
theorem glob_unterminated_bracket_witness :
    specMatch (ascii "[a") (ascii "[a") = some true ∧ wildMatch (ascii "[a") (ascii "[a") = none := by
  decide

/-- `[a[^]` is the set {a, [, ^}; wild's textual `[^` → `[!` turns it into {a, [, !}. -/
theorem glob_caret_in_bracket_witness :
    specMatch (ascii "[a[^]") (ascii "^") = some true ∧ wildMatch (ascii "[a[^]") (ascii "^") = some false := by
  decide

theorem glob_eq_fnmatch_full_false : ¬ glob_eq_fnmatch_full := by
  intro h
  have := h (ascii "a**b") (ascii "axb") true glob_double_star_witness.1
  rw [glob_double_star_witness.2] at this
  cases this

/-- "Any syntactically valid pattern is accepted": fails for `a**b`, `***`, `[a`. -/
theorem rule_new_rejects_valid_witness :
    (Rule.new (ascii "a**b") none .custom).toOption.isNone ∧ (Rule.new (ascii "***") none .custom).toOption.isNone ∧
    (Rule.new (ascii "[a") none .custom).toOption.isNone ∧
    (specMatch (ascii "a**b") []).isSome ∧ (specMatch (ascii "***") []).isSome ∧ (specMatch (ascii "[a") []).isSome := by
  decide

/-! ## glob crate vs fnmatch: agreement on the well-behaved class -/

def convItem : Item → CharSpec
  | .one c => .single c
  | .range a b => .range a b

/-- The glob-crate token that corresponds to a POSIX pattern token. -/
def convTok : PTok → Tok
  | .lit c => .char c
  | .any => .anyChar
  | .star => .anySeq
  | .set false items => .within (items.map convItem)
  | .set true items => .except (items.map convItem)

theorem inSpecs_conv (items : List Item) (c : Char) : inSpecs (items.map convItem) c = inItems items c := by
  unfold inSpecs inItems
  rw [List.any_map]
  congr 1
  funext i
  cases i <;> rfl

theorem mem_suffixes_self (s : List Char) : s ∈ suffixes s := by
  cases s <;> simp [suffixes]

theorem mem_suffixes_cons {t s : List Char} (c : Char) (h : t ∈ suffixes s) : t ∈ suffixes (c :: s) := by
  simp [suffixes, h]

theorem mem_suffixes_trans {u t : List Char} : ∀ {s : List Char}, u ∈ suffixes t → t ∈ suffixes s → u ∈ suffixes s := by
  intro s
  induction s with
  | nil =>
    intro hu ht
    simp [suffixes] at ht
    subst ht
    exact hu
  | cons c s ih =>
    intro hu ht
    simp only [suffixes, List.mem_cons] at ht
    rcases ht with ht | ht
    · subst ht; exact hu
    · exact mem_suffixes_cons c (ih hu ht)

/-- The invariant carried through the token list: `k` (= `matches_from` on the remaining tokens)
answers `Match` exactly when the declarative matcher `M` accepts, and answers
`EntirePatternDoesntMatch` only if no suffix of the input is accepted. -/
def Sound (k : Bool → List Char → MatchResult) (M : List Char → Bool) : Prop :=
  ∀ fs s, (k fs s = .isMatch ↔ M s = true) ∧
    (k fs s = .entirePatternDoesntMatch → ∀ t ∈ suffixes s, M t = false)

/-- Body of the `AnySequence` arm of `matches_from`. -/
def starRes (k : Bool → List Char → MatchResult) (fs : Bool) (s : List Char) : MatchResult :=
  match k fs s with
  | .subPatternDoesntMatch => seqLoop k false fs s
  | m => m

theorem starRes_cons (k : Bool → List Char → MatchResult) (fs : Bool) (c : Char) (s : List Char) :
    starRes k fs (c :: s) =
      match k fs (c :: s) with
      | .subPatternDoesntMatch => starRes k (isSep c) s
      | m => m := by
  unfold starRes
  cases h : k fs (c :: s) <;> simp only []
  cases s with
  | nil =>
    simp only [seqLoop, Bool.false_and, Bool.false_eq_true, if_false]
    cases k (isSep c) [] <;> rfl
  | cons d s' =>
    rw [seqLoop]
    simp only [Bool.false_and, Bool.false_eq_true, if_false]
    rfl

theorem starRes_spec (k : Bool → List Char → MatchResult) (M : List Char → Bool) (hk : Sound k M) :
    ∀ s fs, starRes k fs s = .isMatch ↔ (suffixes s).any M = true := by
  intro s
  induction s with
  | nil =>
    intro fs
    have h := (hk fs []).1
    unfold starRes
    simp only [seqLoop, suffixes, List.any_cons, List.any_nil, Bool.or_false]
    cases hr : k fs [] <;> simp_all
  | cons c s ih =>
    intro fs
    rw [starRes_cons]
    have h1 := (hk fs (c :: s)).1
    have h2 := (hk fs (c :: s)).2
    simp only [suffixes, List.any_cons, Bool.or_eq_true]
    cases hr : k fs (c :: s) with
    | isMatch =>
      simp only []
      constructor
      · intro _; exact Or.inl (h1.mp hr)
      · intro _; trivial
    | subPatternDoesntMatch =>
      simp only []
      rw [ih]
      constructor
      · intro h; exact Or.inr h
      · intro h
        rcases h with h | h
        · rw [hr] at h1; exact absurd (h1.mpr h) (by simp)
        · exact h
    | entirePatternDoesntMatch =>
      simp only []
      constructor
      · intro h; cases h
      · intro h
        have hno := h2 hr
        rcases h with h | h
        · rw [hno _ (mem_suffixes_self _)] at h; cases h
        · rw [List.any_eq_true] at h
          obtain ⟨t, ht, hm⟩ := h
          rw [hno t (mem_suffixes_cons c ht)] at hm; cases hm

theorem sound_star (k : Bool → List Char → MatchResult) (M : List Char → Bool) (hk : Sound k M) :
    Sound (starRes k) (fun s => (suffixes s).any M) := by
  intro fs s
  refine ⟨starRes_spec k M hk s fs, ?_⟩
  intro he t ht
  have hnot : (suffixes s).any M = false := by
    cases hb : (suffixes s).any M with
    | false => rfl
    | true => rw [(starRes_spec k M hk s fs).mpr hb] at he; cases he
  cases hb : (suffixes t).any M with
  | false => exact hb
  | true =>
    rw [List.any_eq_true] at hb
    obtain ⟨u, hu, hm⟩ := hb
    have : (suffixes s).any M = true := List.any_eq_true.mpr ⟨u, mem_suffixes_trans hu ht, hm⟩
    rw [hnot] at this; cases this

theorem sound_single (tk : Tok) (hns : tk.isSeq = false) (ts : List Tok) (M' M : List Char → Bool)
    (hnil : M [] = false) (hcons : ∀ c s, M (c :: s) = (tokOk tk c && M' s))
    (ih : Sound (matchesFrom ts) M') : Sound (matchesFrom (tk :: ts)) M := by
  intro fs s
  cases s with
  | nil =>
    simp only [matchesFrom, hns, Bool.false_eq_true, if_false, hnil, suffixes, List.mem_singleton]
    constructor
    · simp
    · intro _ t ht; subst ht; exact hnil
  | cons c s =>
    simp only [matchesFrom, hns, Bool.false_eq_true, if_false, hcons]
    cases hok : tokOk tk c with
    | false =>
      simp
    | true =>
      simp only [if_true, Bool.true_and]
      refine ⟨(ih (isSep c) s).1, ?_⟩
      intro he t ht
      have hno := (ih (isSep c) s).2 he
      simp only [suffixes, List.mem_cons] at ht
      have aux : ∀ t, t ∈ suffixes s → M t = false := by
        intro t ht
        cases t with
        | nil => exact hnil
        | cons d t' =>
          rw [hcons, hno t' (mem_suffixes_trans (mem_suffixes_cons d (mem_suffixes_self t')) ht)]
          simp
      rcases ht with ht | ht
      · subst ht
        rw [hcons, hno s (mem_suffixes_self s)]; simp
      · exact aux t ht

theorem matchesFrom_star (ts : List Tok) : matchesFrom (.anySeq :: ts) = starRes (matchesFrom ts) := by
  funext fs s
  unfold starRes
  simp only [matchesFrom, Tok.isSeq, if_true]
  have : (Tok.anySeq == Tok.anyRec) = false := by decide
  rw [this]
  rfl

/-- **Matcher equivalence**: on token lists that come from POSIX tokens, the glob crate's
three-valued backtracking matcher accepts exactly what the declarative `pmatch` accepts. -/
theorem matchesFrom_sound (ts : List PTok) : Sound (matchesFrom (ts.map convTok)) (pmatch ts) := by
  induction ts with
  | nil =>
    intro fs s
    cases s <;> simp [matchesFrom, pmatch]
  | cons tok ts ih =>
    cases tok with
    | star =>
      simp only [List.map, convTok]
      rw [matchesFrom_star]
      have := sound_star _ _ ih
      have hM : (fun s => (suffixes s).any (pmatch ts)) = pmatch (.star :: ts) := by
        funext s; simp [pmatch]
      rw [hM] at this
      exact this
    | lit c =>
      refine sound_single (.char c) rfl _ (pmatch ts) _ (by simp [pmatch]) ?_ ih
      intro d s
      simp only [pmatch, tokOk]
      rw [BEq.comm]
    | any =>
      refine sound_single .anyChar rfl _ (pmatch ts) _ (by simp [pmatch]) ?_ ih
      intro d s
      simp [pmatch, tokOk]
    | set neg items =>
      cases neg with
      | false =>
        refine sound_single (.within (items.map convItem)) rfl _ (pmatch ts) _ (by simp [pmatch]) ?_ ih
        intro d s
        simp [pmatch, tokOk, inSpecs_conv]
      | true =>
        refine sound_single (.except (items.map convItem)) rfl _ (pmatch ts) _ (by simp [pmatch]) ?_ ih
        intro d s
        simp [pmatch, tokOk, inSpecs_conv]

theorem patternMatches_eq_pmatch (ts : List PTok) (s : List Char) :
    patternMatches (ts.map convTok) s = pmatch ts s := by
  unfold patternMatches
  have h := (matchesFrom_sound ts true s).1
  cases hb : pmatch ts s with
  | true => rw [h.mpr hb]; rfl
  | false =>
    cases hr : matchesFrom (ts.map convTok) true s with
    | isMatch => rw [h.mp hr] at hb; cases hb
    | _ => rfl

/-! ### Parsing: `Pattern::new ∘ replace("[^","[!")` vs the POSIX tokeniser -/

/-- Chars before the first `]`, and the chars after it. -/
def cutAtClose : List Char → Option (List Char × List Char)
  | [] => none
  | c :: rest => if c == ']' then some ([], rest) else (cutAtClose rest).map (fun (a, b) => (c :: a, b))

/-- Admissible contents of a bracket expression (first member up to, not including, the closing
`]`): no backslash, and no `[` that is immediately followed by `^` (wild rewrites `[^` textually)
or by `:`, `.`, `=` (POSIX character classes etc., outside the spec's domain). -/
def bodyOk : List Char → Bool
  | [] => true
  | c :: rest =>
    c != '\\' &&
    !(c == '[' && (rest.head? == some '^' || rest.head? == some ':' || rest.head? == some '.' || rest.head? == some '=')) &&
    bodyOk rest

/-- Drop the negation mark of a bracket expression. -/
def stripNeg : List Char → List Char
  | '!' :: r => r
  | '^' :: r => r
  | r => r

/-- The text after `[` / `[!` / `[^`: first member `x` (any character, also `]`), then everything up
to the next `]`. Returns the members' text and the text after the closing `]`. -/
def bracketSplit : List Char → Option (List Char × List Char)
  | [] => none
  | x :: r' =>
    match cutAtClose r' with
    | none => none
    | some (body, after) => if bodyOk (x :: body) then some (x :: body, after) else none

/-- Scanner for the well-behaved class (fuel = an upper bound of the length + 1). -/
def wbFrom : Nat → List Char → Bool
  | 0, _ => false
  | _, [] => true
  | fuel + 1, c :: rest =>
    if c == '\\' then false
    else if c == '*' then rest.head? != some '*' && wbFrom fuel rest
    else if c == '[' then
      match bracketSplit (stripNeg rest) with
      | none => false
      | some (_, after) => wbFrom fuel after
    else wbFrom fuel rest

/-- **The class.** No backslash; no `**`; every `[` outside a bracket expression opens one:
`[`, optional `!` or `^`, one member character (may be `]`), then anything up to the next `]`,
which must exist; inside, no backslash and no `[` followed by `^ : . =`. Everything else (`?`,
single `*`, ordinary characters, `]`, `!`, `^`, `-` outside brackets; ranges inside) is free. -/
def WellBehaved (p : List Char) : Bool := wbFrom (p.length + 1) p

theorem cutAtClose_spec : ∀ (l body after : List Char), cutAtClose l = some (body, after) →
    l = body ++ ']' :: after ∧ ']' ∉ body := by
  intro l
  induction l with
  | nil => intro body after h; simp [cutAtClose] at h
  | cons c rest ih =>
    intro body after h
    simp only [cutAtClose] at h
    by_cases hc : c = ']'
    · subst hc
      simp at h
      obtain ⟨h1, h2⟩ := h
      subst h1; subst h2
      simp
    · have hc' : (c == ']') = false := by simp [hc]
      rw [hc'] at h
      simp only [Bool.false_eq_true, if_false] at h
      cases hr : cutAtClose rest with
      | none => rw [hr] at h; simp at h
      | some pr =>
        obtain ⟨a, b⟩ := pr
        rw [hr] at h
        simp at h
        obtain ⟨h1, h2⟩ := h
        subst h1; subst h2
        obtain ⟨e1, e2⟩ := ih a b hr
        subst e1
        simp [e2]
        exact fun h => hc h.symm

theorem splitClose_append (body after : List Char) (h : ']' ∉ body) :
    splitClose (body ++ ']' :: after) = some (body, after) := by
  induction body with
  | nil => simp [splitClose]
  | cons c body ih =>
    have hc : c ≠ ']' := fun e => h (by simp [e])
    have hb : ']' ∉ body := fun e => h (by simp [e])
    simp [splitClose, hc, ih hb]

theorem bodyOk_cons {c : Char} {rest : List Char} (h : bodyOk (c :: rest) = true) :
    c ≠ '\\' ∧ bodyOk rest = true ∧
    (c = '[' → rest.head? ≠ some '^' ∧ rest.head? ≠ some ':' ∧ rest.head? ≠ some '.' ∧ rest.head? ≠ some '=') := by
  simp only [bodyOk, Bool.and_eq_true, bne_iff_ne, ne_eq, Bool.not_eq_true', Bool.and_eq_false_iff,
    Bool.or_eq_false_iff, beq_eq_false_iff_ne, beq_iff_eq] at h
  obtain ⟨⟨h1, h2⟩, h3⟩ := h
  refine ⟨h1, h3, ?_⟩
  intro hc
  rcases h2 with h2 | h2
  · exact absurd hc h2
  · exact ⟨h2.1.1.1, h2.1.1.2, h2.1.2, h2.2⟩

theorem replaceCaret_cons_of_ne (c : Char) (rest : List Char) (h : c = '[' → rest.head? ≠ some '^') :
    replaceCaret (c :: rest) = c :: replaceCaret rest := by
  conv => lhs; unfold replaceCaret
  split
  · rename_i heq
    simp at heq
    obtain ⟨h1, h2⟩ := heq
    subst h1; subst h2
    simp at h
  · rename_i heq
    simp at heq
    obtain ⟨h1, h2⟩ := heq
    subst h1; subst h2
    rfl
  · rename_i heq; simp at heq

theorem replaceCaret_length : ∀ (n : Nat) (l : List Char), l.length ≤ n → (replaceCaret l).length = l.length := by
  intro n
  induction n with
  | zero => intro l h; cases l with
    | nil => simp [replaceCaret]
    | cons _ _ => simp at h
  | succ n ih =>
    intro l h
    unfold replaceCaret
    split
    · simp at h ⊢; exact ih _ (by omega)
    · simp at h ⊢; exact ih _ (by omega)
    · rfl

theorem replaceCaret_head (l : List Char) : (replaceCaret l).head? = l.head? := by
  unfold replaceCaret
  split <;> simp

theorem replaceCaret_body (body r : List Char) (h : bodyOk body = true) :
    replaceCaret (body ++ ']' :: r) = body ++ ']' :: replaceCaret r := by
  induction body with
  | nil =>
    simp only [List.nil_append]
    exact replaceCaret_cons_of_ne _ _ (by intro h; simp at h)
  | cons c body ih =>
    obtain ⟨_, h2, h3⟩ := bodyOk_cons h
    simp only [List.cons_append]
    rw [replaceCaret_cons_of_ne, ih h2]
    intro hc
    have := (h3 hc).1
    cases body with
    | nil => simp
    | cons d body => simpa using this

/-! #### one step of `Pattern::new` -/

theorem parseLoop_nil (f : Nat) (prev : Option Char) (acc : List Tok) :
    parseLoop (f + 1) prev acc [] = some acc.reverse := by
  simp [parseLoop]

theorem parseLoop_lit (f : Nat) (prev : Option Char) (acc : List Tok) (c : Char) (rest : List Char)
    (h1 : c ≠ '?') (h2 : c ≠ '*') (h3 : c ≠ '[') :
    parseLoop (f + 1) prev acc (c :: rest) = parseLoop f (some c) (.char c :: acc) rest := by
  simp [parseLoop, h1, h2, h3]

theorem parseLoop_quest (f : Nat) (prev : Option Char) (acc : List Tok) (rest : List Char) :
    parseLoop (f + 1) prev acc ('?' :: rest) = parseLoop f (some '?') (.anyChar :: acc) rest := by
  simp [parseLoop]

theorem parseLoop_star (f : Nat) (prev : Option Char) (acc : List Tok) (rest : List Char)
    (h : rest.head? ≠ some '*') :
    parseLoop (f + 1) prev acc ('*' :: rest) = parseLoop f (some '*') (.anySeq :: acc) rest := by
  conv => lhs; unfold parseLoop
  simp only [show ('*' == '?') = false by decide, show ('*' == '*') = true by decide, Bool.false_eq_true, if_false, if_true]
  split
  · simp at h
  · simp at h
  · rfl

theorem parseLoop_neg (f : Nat) (prev : Option Char) (acc : List Tok) (x : Char) (body after : List Char)
    (h : ']' ∉ body) :
    parseLoop (f + 1) prev acc ('[' :: '!' :: x :: (body ++ ']' :: after)) =
      parseLoop f (some ']') (.except (parseSpecs (x :: body)) :: acc) after := by
  conv => lhs; unfold parseLoop
  simp only [show ('[' == '?') = false by decide, show ('[' == '*') = false by decide, show ('[' == '[') = true by decide,
    Bool.false_eq_true, if_false, if_true]
  have : (body ++ ']' :: after).isEmpty = false := by cases body <;> rfl
  simp only [this, Bool.false_eq_true, if_false, splitClose_append body after h]

theorem parseLoop_pos (f : Nat) (prev : Option Char) (acc : List Tok) (x : Char) (body after : List Char)
    (hx : x ≠ '!') (h : ']' ∉ body) :
    parseLoop (f + 1) prev acc ('[' :: x :: (body ++ ']' :: after)) =
      parseLoop f (some ']') (.within (parseSpecs (x :: body)) :: acc) after := by
  conv => lhs; unfold parseLoop
  simp only [show ('[' == '?') = false by decide, show ('[' == '*') = false by decide, show ('[' == '[') = true by decide,
    Bool.false_eq_true, if_false, if_true]
  have : (body ++ ']' :: after).isEmpty = false := by cases body <;> rfl
  split
  · rename_i heq; simp at heq; exact absurd heq.1 hx
  · rename_i heq; simp at heq; exact absurd heq.1 hx
  · rename_i heq
    simp at heq
    obtain ⟨h1, h2⟩ := heq
    subst h1; subst h2
    simp only [this, Bool.false_eq_true, if_false, splitClose_append body after h]
  · rename_i heq; simp at heq

/-! #### the POSIX tokeniser on a well-formed bracket expression -/

def unconvItem : CharSpec → Item
  | .single c => .one c
  | .range a b => .range a b

theorem convItem_unconv (l : List CharSpec) : (l.map unconvItem).map convItem = l := by
  induction l with
  | nil => rfl
  | cons a l ih => cases a <;> simp [unconvItem, convItem, ih]

theorem convItem_unconv' (l : List CharSpec) : l.map (convItem ∘ unconvItem) = l := by
  rw [← List.map_map, convItem_unconv]

theorem bracketChar_cons (a : Char) (r : List Char) (h : a ≠ '\\') : bracketChar (a :: r) = some (a, r) := by
  unfold bracketChar
  split
  · rename_i heq; simp at heq; exact absurd heq.1 h
  · rename_i heq; simp at heq; exact absurd heq.1 h
  · rename_i heq; simp at heq; obtain ⟨h1, h2⟩ := heq; subst h1; subst h2; rfl
  · rename_i heq; simp at heq

/-- `closed`-continuation used by `bracketBody`. -/
def consItem (i : Item) : Bracket → Bracket
  | .closed items rest => .closed (i :: items) rest
  | b => b

theorem bracketBody_range (f : Nat) (first : Bool) (a b : Char) (r3 : List Char)
    (ha : a ≠ '\\') (hb : b ≠ '\\') (hb2 : b ≠ ']') (hcl : first = false → a ≠ ']') :
    bracketBody (f + 1) first (a :: '-' :: b :: r3) = consItem (.range a b) (bracketBody f false r3) := by
  conv => lhs; unfold bracketBody
  have h1 : (a == ']' && !first) = false := by
    cases first with
    | true => simp
    | false => simp [hcl rfl]
  simp only [h1, Bool.false_eq_true, if_false, List.head?_cons,
    show (some '-' == some ':') = false by decide, show (some '-' == some '.') = false by decide,
    show (some '-' == some '=') = false by decide, Bool.or_false, Bool.and_false,
    bracketChar_cons a _ ha, bracketChar_cons b _ hb]
  split
  · rename_i heq; simp at heq
  · rename_i heq; simp at heq; exact absurd heq.1 hb2
  · unfold consItem; rfl

theorem bracketBody_one (f : Nat) (first : Bool) (a : Char) (r1 : List Char)
    (ha : a ≠ '\\') (hcl : first = false → a ≠ ']')
    (hcls : a = '[' → r1.head? ≠ some ':' ∧ r1.head? ≠ some '.' ∧ r1.head? ≠ some '=')
    (hr : ∀ r2, r1 = '-' :: r2 → r2.head? = some ']') :
    bracketBody (f + 1) first (a :: r1) = consItem (.one a) (bracketBody f false r1) := by
  conv => lhs; unfold bracketBody
  have h1 : (a == ']' && !first) = false := by
    cases first with
    | true => simp
    | false => simp [hcl rfl]
  have h2 : (a == '[' && (r1.head? == some ':' || r1.head? == some '.' || r1.head? == some '=')) = false := by
    by_cases hb : a = '['
    · obtain ⟨x, y, z⟩ := hcls hb
      simp [x, y, z]
    · simp [hb]
  simp only [h1, h2, Bool.false_eq_true, if_false, bracketChar_cons a _ ha]
  split
  · rename_i r2
    have := hr r2 rfl
    split
    · simp at this
    · unfold consItem; rfl
    · rename_i hnil hclose
      cases r2 with
      | nil => simp at this
      | cons d r => simp at this; subst this; exact absurd rfl (hclose r)
  · unfold consItem; rfl

theorem bracketBody_close (f : Nat) (after : List Char) :
    bracketBody (f + 1) false (']' :: after) = .closed [] after := by
  simp [bracketBody]

/-- The glob crate's `parse_char_specifiers` on the extracted body and the POSIX scan of the same
text produce the same members, and both stop at the same `]`. -/
theorem bracketBody_closed (body : List Char) : ∀ (first : Bool) (after : List Char) (f : Nat),
    body.length < f → bodyOk body = true →
    (first = true → body ≠ [] ∧ ']' ∉ body.tail) → (first = false → ']' ∉ body) →
    bracketBody f first (body ++ ']' :: after) = .closed ((parseSpecs body).map unconvItem) after := by
  induction body using parseSpecs.induct with
  | case1 a b rest ih =>
    intro first after f hf hok h1 h2
    obtain ⟨f, rfl⟩ : ∃ g, f = g + 1 := ⟨f - 1, by omega⟩
    obtain ⟨ha, hok1, _⟩ := bodyOk_cons hok
    obtain ⟨_, hok2, _⟩ := bodyOk_cons hok1
    obtain ⟨hb, hok3, _⟩ := bodyOk_cons hok2
    have hnot : ']' ∉ ('-' :: b :: rest) := by
      cases first with
      | true => exact (h1 rfl).2
      | false => intro hm; exact h2 rfl (List.mem_cons_of_mem _ hm)
    have hb2 : b ≠ ']' := fun e => hnot (by simp [e])
    have hrest : ']' ∉ rest := fun e => hnot (by simp [e])
    simp only [List.cons_append]
    rw [bracketBody_range f first a b _ ha hb hb2 (fun hf' e => h2 hf' (by simp [e]))]
    rw [ih false after f (by simp at hf; omega) hok3 (by intro h; cases h) (fun _ => hrest)]
    simp [parseSpecs, consItem, unconvItem]
  | case2 a rest hne ih =>
    intro first after f hf hok h1 h2
    obtain ⟨f, rfl⟩ : ∃ g, f = g + 1 := ⟨f - 1, by omega⟩
    obtain ⟨ha, hok1, hcls⟩ := bodyOk_cons hok
    have hrest : ']' ∉ rest := by
      cases first with
      | true => exact (h1 rfl).2
      | false => intro hm; exact h2 rfl (List.mem_cons_of_mem _ hm)
    simp only [List.cons_append]
    rw [bracketBody_one f first a _ ha (fun hf' e => h2 hf' (by simp [e]))]
    · rw [ih false after f (by simp at hf; omega) hok1 (by intro h; cases h) (fun _ => hrest)]
      rw [parseSpecs]
      · simp [consItem, unconvItem]
      · exact hne
    · intro hb
      obtain ⟨_, x, y, z⟩ := hcls hb
      cases rest with
      | nil => simp
      | cons d r =>
        simp only [List.cons_append, List.head?_cons] at x y z ⊢
        exact ⟨x, y, z⟩
    · intro r2 hr2
      cases rest with
      | nil => simp at hr2
      | cons d r =>
        simp at hr2
        obtain ⟨hd, hr2⟩ := hr2
        subst hd
        cases r with
        | nil => simp at hr2; subst hr2; rfl
        | cons e r' => exact absurd rfl (hne e r')
  | case3 =>
    intro first after f hf hok h1 h2
    obtain ⟨f, rfl⟩ : ∃ g, f = g + 1 := ⟨f - 1, by omega⟩
    cases first with
    | true => exact absurd rfl (h1 rfl).1
    | false => simp [bracketBody_close, parseSpecs]

theorem bracketSplit_spec {r m after : List Char} (h : bracketSplit r = some (m, after)) :
    ∃ x body, m = x :: body ∧ r = x :: (body ++ ']' :: after) ∧ ']' ∉ body ∧ bodyOk (x :: body) = true := by
  cases r with
  | nil => simp [bracketSplit] at h
  | cons x r' =>
    simp only [bracketSplit] at h
    cases hc : cutAtClose r' with
    | none => rw [hc] at h; simp at h
    | some pr =>
      obtain ⟨body, aft⟩ := pr
      rw [hc] at h
      simp only [] at h
      by_cases hok : bodyOk (x :: body) = true
      · simp only [hok, if_true, Option.some.injEq, Prod.mk.injEq] at h
        obtain ⟨h1, h2⟩ := h
        subst h1; subst h2
        obtain ⟨e1, e2⟩ := cutAtClose_spec _ _ _ hc
        exact ⟨x, body, rfl, by rw [e1], e2, hok⟩
      · simp [hok] at h

/-! #### one step of the POSIX tokeniser -/

theorem tokenize_br_bang (f : Nat) (bd items after : List _) (h : bracketBody (bd.length + 1) true bd = .closed items after) :
    tokenize (f + 1) ('[' :: '!' :: bd) = (tokenize f after).map (.set true items :: ·) := by
  conv => lhs; unfold tokenize
  simp only [show ('[' == '\\') = false by decide, show ('[' == '?') = false by decide, show ('[' == '*') = false by decide,
    show ('[' == '[') = true by decide, Bool.false_eq_true, if_false, if_true, h]

theorem tokenize_br_caret (f : Nat) (bd items after : List _) (h : bracketBody (bd.length + 1) true bd = .closed items after) :
    tokenize (f + 1) ('[' :: '^' :: bd) = (tokenize f after).map (.set true items :: ·) := by
  conv => lhs; unfold tokenize
  simp only [show ('[' == '\\') = false by decide, show ('[' == '?') = false by decide, show ('[' == '*') = false by decide,
    show ('[' == '[') = true by decide, Bool.false_eq_true, if_false, if_true, h]

theorem tokenize_br_pos (f : Nat) (x : Char) (bd items after : List _) (hx1 : x ≠ '!') (hx2 : x ≠ '^')
    (h : bracketBody ((x :: bd).length + 1) true (x :: bd) = .closed items after) :
    tokenize (f + 1) ('[' :: x :: bd) = (tokenize f after).map (.set false items :: ·) := by
  conv => lhs; unfold tokenize
  simp only [show ('[' == '\\') = false by decide, show ('[' == '?') = false by decide, show ('[' == '*') = false by decide,
    show ('[' == '[') = true by decide, Bool.false_eq_true, if_false, if_true]
  split
  · rename_i its rst heq
    revert heq
    split
    · rename_i h2; simp at h2; exact absurd h2.1 hx1
    · rename_i h2; simp at h2; exact absurd h2.1 hx2
    · intro heq
      simp only [] at heq
      rw [h] at heq
      cases heq
      rfl
  · rename_i heq
    revert heq
    split
    · rename_i h2; simp at h2; exact absurd h2.1 hx1
    · rename_i h2; simp at h2; exact absurd h2.1 hx2
    · intro heq
      simp only [] at heq
      rw [h] at heq
      cases heq
  · rename_i heq
    revert heq
    split
    · rename_i h2; simp at h2; exact absurd h2.1 hx1
    · rename_i h2; simp at h2; exact absurd h2.1 hx2
    · intro heq
      simp only [] at heq
      rw [h] at heq
      cases heq

theorem tokenize_lit (f : Nat) (c : Char) (rest : List Char)
    (h0 : c ≠ '\\') (h1 : c ≠ '?') (h2 : c ≠ '*') (h3 : c ≠ '[') :
    tokenize (f + 1) (c :: rest) = (tokenize f rest).map (.lit c :: ·) := by
  simp [tokenize, h0, h1, h2, h3]

theorem tokenize_quest (f : Nat) (rest : List Char) :
    tokenize (f + 1) ('?' :: rest) = (tokenize f rest).map (.any :: ·) := by
  simp [tokenize]

theorem tokenize_star (f : Nat) (rest : List Char) :
    tokenize (f + 1) ('*' :: rest) = (tokenize f rest).map (.star :: ·) := by
  simp [tokenize]

/-- **Parser agreement**: on a well-behaved pattern the POSIX tokeniser succeeds and
`Pattern::new` applied to wild's `[^`→`[!` rewrite of the pattern yields the corresponding tokens. -/
theorem parse_agree : ∀ (n : Nat) (p : List Char), p.length ≤ n →
    ∀ (f1 f2 f3 : Nat) (prev : Option Char) (acc : List Tok),
      p.length < f1 → p.length < f2 → p.length < f3 → wbFrom f1 p = true →
      ∃ toks, tokenize f2 p = .ok toks ∧
        parseLoop f3 prev acc (replaceCaret p) = some (acc.reverse ++ toks.map convTok) := by
  intro n
  induction n with
  | zero =>
    intro p hp f1 f2 f3 prev acc h1 h2 h3 _
    have : p = [] := List.eq_nil_of_length_eq_zero (by omega)
    subst this
    obtain ⟨f2, rfl⟩ : ∃ g, f2 = g + 1 := ⟨f2 - 1, by omega⟩
    obtain ⟨f3, rfl⟩ : ∃ g, f3 = g + 1 := ⟨f3 - 1, by omega⟩
    exact ⟨[], by simp [tokenize], by simp [replaceCaret, parseLoop]⟩
  | succ n ih =>
    intro p hp f1 f2 f3 prev acc h1 h2 h3 hwb
    obtain ⟨f1, rfl⟩ : ∃ g, f1 = g + 1 := ⟨f1 - 1, by omega⟩
    obtain ⟨f2, rfl⟩ : ∃ g, f2 = g + 1 := ⟨f2 - 1, by omega⟩
    obtain ⟨f3, rfl⟩ : ∃ g, f3 = g + 1 := ⟨f3 - 1, by omega⟩
    cases p with
    | nil => exact ⟨[], by simp [tokenize], by simp [replaceCaret, parseLoop]⟩
    | cons c rest =>
      simp only [List.length_cons] at hp h1 h2 h3
      by_cases hbs : c = '\\'
      · subst hbs; simp [wbFrom] at hwb
      by_cases hq : c = '?'
      · subst hq
        have hwb' : wbFrom f1 rest = true := by simpa [wbFrom] using hwb
        obtain ⟨toks, ht, hpl⟩ := ih rest (by omega) f1 f2 f3 (some '?') (.anyChar :: acc)
          (by omega) (by omega) (by omega) hwb'
        refine ⟨.any :: toks, ?_, ?_⟩
        · rw [tokenize_quest, ht]; rfl
        · rw [replaceCaret_cons_of_ne _ _ (fun h => absurd h (by decide)), parseLoop_quest, hpl]
          simp [convTok]
      by_cases hs : c = '*'
      · subst hs
        have hwb' : rest.head? ≠ some '*' ∧ wbFrom f1 rest = true := by simpa [wbFrom] using hwb
        obtain ⟨toks, ht, hpl⟩ := ih rest (by omega) f1 f2 f3 (some '*') (.anySeq :: acc)
          (by omega) (by omega) (by omega) hwb'.2
        refine ⟨.star :: toks, ?_, ?_⟩
        · rw [tokenize_star, ht]; rfl
        · rw [replaceCaret_cons_of_ne _ _ (fun h => absurd h (by decide)),
            parseLoop_star _ _ _ _ (by rw [replaceCaret_head]; exact hwb'.1), hpl]
          simp [convTok]
      by_cases hb : c = '['
      · subst hb
        simp only [wbFrom, show ('[' == '\\') = false by decide, show ('[' == '*') = false by decide,
          show ('[' == '[') = true by decide, Bool.false_eq_true, if_false, if_true] at hwb
        cases hsp : bracketSplit (stripNeg rest) with
        | none => rw [hsp] at hwb; simp at hwb
        | some pr =>
          obtain ⟨m, after⟩ := pr
          rw [hsp] at hwb
          simp only [] at hwb
          obtain ⟨x, body, hm, hr, hnc, hok⟩ := bracketSplit_spec hsp
          have hbb : ∀ (g : Nat), (x :: body).length < g →
              bracketBody g true (x :: (body ++ ']' :: after)) =
                .closed ((parseSpecs (x :: body)).map unconvItem) after := fun g hg =>
            bracketBody_closed (x :: body) true after g hg hok
              (fun _ => ⟨by simp, hnc⟩) (fun h => by cases h)
          obtain ⟨_, hok', _⟩ := bodyOk_cons hok
          -- the three shapes of `rest`
          have hlen : after.length + (body.length + 2) ≤ rest.length := by
            have : (stripNeg rest).length ≤ rest.length := by
              unfold stripNeg; split <;> simp
            rw [hr] at this; simp at this; omega
          have key : ∀ (T : Tok), ∃ toks, tokenize f2 after = .ok toks ∧
              parseLoop f3 (some ']') (T :: acc) (replaceCaret after) =
                some ((T :: acc).reverse ++ toks.map convTok) := fun T =>
            ih after (by omega) f1 f2 f3 (some ']') (T :: acc) (by omega) (by omega) (by omega) hwb
          by_cases hbang : rest.head? = some '!'
          · obtain ⟨r, rfl⟩ : ∃ r, rest = '!' :: r := by
              cases rest with
              | nil => simp at hbang
              | cons d r => simp at hbang; exact ⟨r, by rw [hbang]⟩
            simp only [stripNeg] at hr
            subst hr
            obtain ⟨toks, ht, hpl⟩ := key (.except (parseSpecs (x :: body)))
            refine ⟨.set true ((parseSpecs (x :: body)).map unconvItem) :: toks, ?_, ?_⟩
            · rw [tokenize_br_bang f2 _ _ after (hbb _ (by simp; omega)), ht]; rfl
            · rw [replaceCaret_cons_of_ne _ _ (fun _ => by simp),
                replaceCaret_cons_of_ne _ _ (fun h => absurd h (by decide))]
              have := replaceCaret_body (x :: body) after hok
              simp only [List.cons_append] at this
              rw [this, parseLoop_neg _ _ _ _ _ _ hnc, hpl]
              simp [convTok, convItem_unconv']
          by_cases hcar : rest.head? = some '^'
          · obtain ⟨r, rfl⟩ : ∃ r, rest = '^' :: r := by
              cases rest with
              | nil => simp at hcar
              | cons d r => simp at hcar; exact ⟨r, by rw [hcar]⟩
            simp only [stripNeg] at hr
            subst hr
            obtain ⟨toks, ht, hpl⟩ := key (.except (parseSpecs (x :: body)))
            refine ⟨.set true ((parseSpecs (x :: body)).map unconvItem) :: toks, ?_, ?_⟩
            · rw [tokenize_br_caret f2 _ _ after (hbb _ (by simp; omega)), ht]; rfl
            · rw [replaceCaret]
              have := replaceCaret_body (x :: body) after hok
              simp only [List.cons_append] at this
              rw [this, parseLoop_neg _ _ _ _ _ _ hnc, hpl]
              simp [convTok, convItem_unconv']
          · have hsn : stripNeg rest = rest := by
              unfold stripNeg
              split
              · simp at hbang
              · simp at hcar
              · rfl
            rw [hsn] at hr
            subst hr
            have hx1 : x ≠ '!' := fun e => hbang (by simp [e])
            have hx2 : x ≠ '^' := fun e => hcar (by simp [e])
            obtain ⟨toks, ht, hpl⟩ := key (.within (parseSpecs (x :: body)))
            refine ⟨.set false ((parseSpecs (x :: body)).map unconvItem) :: toks, ?_, ?_⟩
            · rw [tokenize_br_pos f2 x _ _ after hx1 hx2 (hbb _ (by simp; omega)), ht]; rfl
            · rw [replaceCaret_cons_of_ne _ _ (fun _ => by simp [hx2])]
              have := replaceCaret_body (x :: body) after hok
              simp only [List.cons_append] at this
              rw [this, parseLoop_pos _ _ _ _ _ _ hx1 hnc, hpl]
              simp [convTok, convItem_unconv']
      · have hwb' : wbFrom f1 rest = true := by simpa [wbFrom, hbs, hs, hb] using hwb
        obtain ⟨toks, ht, hpl⟩ := ih rest (by omega) f1 f2 f3 (some c) (.char c :: acc)
          (by omega) (by omega) (by omega) hwb'
        refine ⟨.lit c :: toks, ?_, ?_⟩
        · rw [tokenize_lit _ _ _ hbs hq hs hb, ht]; rfl
        · rw [replaceCaret_cons_of_ne _ _ (fun h => absurd h hb), parseLoop_lit _ _ _ _ _ hq hs hb, hpl]
          simp [convTok]

/-- Character-level core: a well-behaved pattern is accepted by `Pattern::new` (after wild's
`[^`→`[!` rewrite) and is inside the domain of the POSIX spec, and the two matchers agree on every
name. -/
theorem glob_accepts_and_agrees (p : List Char) (h : WellBehaved p = true) :
    ∃ toks, patternNew (replaceCaret p) = some toks ∧
      ∀ s, fnmatch p s = some (patternMatches toks s) := by
  unfold WellBehaved at h
  obtain ⟨toks, ht, hpl⟩ := parse_agree p.length p (Nat.le_refl _) (p.length + 1) (p.length + 1)
    ((replaceCaret p).length + 1) none [] (by omega) (by omega)
    (by rw [replaceCaret_length _ _ (Nat.le_refl _)]; omega) h
  refine ⟨toks.map convTok, ?_, ?_⟩
  · unfold patternNew; rw [hpl]; simp
  · intro s
    unfold fnmatch
    rw [ht]
    simp [patternMatches_eq_pmatch]

/-- **C15, glob crate = fnmatch on the well-behaved class (character level, any Unicode).**
For every well-behaved pattern `p` and every name `s`: `Pattern::new` applied to wild's
`replace("[^","[!")` of `p` succeeds, and `Pattern::matches` answers what POSIX
`fnmatch(p, s, 0)` answers. -/
theorem glob_eq_fnmatch_chars (p s : List Char) (h : WellBehaved p = true) :
    (patternNew (replaceCaret p)).map (fun toks => patternMatches toks s) = fnmatch p s := by
  obtain ⟨toks, h1, h2⟩ := glob_accepts_and_agrees p h
  rw [h1, h2]; rfl

/-- What `compile_glob_pattern(p)` followed by `Pattern::matches(name)` answers (`none`: the
pattern is rejected). -/
def globMatches (c : Except CompileError (List Tok)) (name : Bytes) : Option Bool :=
  match c with
  | .ok toks => some (matchesBytes toks name)
  | .error _ => none

/-- **C15, `glob_eq_fnmatch_partial`.** For every pattern whose text is well-behaved and every
name (both valid UTF-8, decoded to `pc` / `nc`): `compile_glob_pattern` accepts the pattern and
`Pattern::matches` agrees with POSIX `fnmatch`. -/
theorem glob_eq_fnmatch_partial (p name : Bytes) (pc nc : List Char)
    (hp : fromUtf8 p = some pc) (hn : fromUtf8 name = some nc) (h : WellBehaved pc = true) :
    globMatches (compile p) name = fnmatch pc nc := by
  obtain ⟨toks, h1, h2⟩ := glob_accepts_and_agrees pc h
  unfold globMatches compile matchesBytes
  simp only [hp, h1, hn, h2]

/-! ASCII byte strings: the UTF-8 decoder is the identity, so the statement can be made directly on
the bytes (this is the form `specMatch` uses). -/

def IsAscii (b : Bytes) : Bool := b.all (fun x => x < 0x80)

def asChars (b : Bytes) : List Char := b.map (fun x => Char.ofNat x.toNat)

theorem decodeUtf8_ascii (bs : Bytes) : ∀ fuel, bs.length < fuel → IsAscii bs = true →
    decodeUtf8 fuel bs = some (asChars bs) := by
  induction bs with
  | nil =>
    intro fuel hf _
    obtain ⟨f, rfl⟩ : ∃ g, fuel = g + 1 := ⟨fuel - 1, by omega⟩
    simp [decodeUtf8, asChars]
  | cons b bs ih =>
    intro fuel hf ha
    obtain ⟨f, rfl⟩ : ∃ g, fuel = g + 1 := ⟨fuel - 1, by omega⟩
    simp only [IsAscii, List.all_cons, Bool.and_eq_true, decide_eq_true_eq] at ha
    have := ih f (by simp at hf; omega) (by simpa [IsAscii] using ha.2)
    simp only [decodeUtf8, ha.1, if_true, this]
    simp [asChars]

theorem fromUtf8_ascii (bs : Bytes) (h : IsAscii bs = true) : fromUtf8 bs = some (asChars bs) :=
  decodeUtf8_ascii bs _ (Nat.lt_succ_self _) h

/-- ASCII form: the left side is the model of the glob crate path used by wild, the right side is
`specMatch`, the independent POSIX spec on the same bytes. -/
theorem glob_eq_fnmatch_ascii (p name : Bytes) (hp : IsAscii p = true) (hn : IsAscii name = true)
    (h : WellBehaved (asChars p) = true) :
    globMatches (compile p) name = specMatch p name :=
  glob_eq_fnmatch_partial p name _ _ (fromUtf8_ascii p hp) (fromUtf8_ascii name hn) h

/-! Non-vacuity: members and non-members of the class, and instances of the theorem. -/

example : WellBehaved ".text.*".toList = true := by decide
example : WellBehaved "*a?b*c".toList = true := by decide
example : WellBehaved "[a-z]x[!0-9_]*".toList = true := by decide
example : WellBehaved "[^a-c]?".toList = true := by decide
example : WellBehaved "[]a]*[!]]".toList = true := by decide
example : WellBehaved "a]b^c!d-e".toList = true := by decide
example : WellBehaved "[*?]**".toList = false := by decide
example : WellBehaved "[**]".toList = true := by decide
example : WellBehaved "a\\*".toList = false := by decide
example : WellBehaved "a**b".toList = false := by decide
example : WellBehaved "[a".toList = false := by decide
example : WellBehaved "[!]".toList = false := by decide
example : WellBehaved "[a[^]".toList = false := by decide
example : WellBehaved "[[:alpha:]]".toList = false := by decide
example : globMatches (compile (ascii ".t[a-e]x?.*")) (ascii ".text.hot") = some true := by decide
example : specMatch (ascii ".t[a-e]x?.*") (ascii ".text.hot") = some true := by decide
example : globMatches (compile (ascii "[!.]*")) (ascii ".text") = some false := by decide

/-! ## The whole `SectionRule::new` / `SectionRule::matches` path on the well-behaved class -/

theorem toNat_ofNat_small (n : Nat) (h : n < 256) : (Char.ofNat n).toNat = n := by
  have hv : n.isValidChar := Or.inl (by omega)
  simp only [Char.ofNat, hv, dif_pos, Char.ofNatAux, Char.toNat]
  simp [UInt32.toNat_ofNatLT]

theorem byteChar_inj (a b : UInt8) (h : Char.ofNat a.toNat = Char.ofNat b.toNat) : a = b := by
  have := congrArg Char.toNat h
  rw [toNat_ofNat_small _ (UInt8.toNat_lt a), toNat_ofNat_small _ (UInt8.toNat_lt b)] at this
  exact UInt8.toNat_inj.mp this

theorem asChars_inj : ∀ (a b : Bytes), asChars a = asChars b → a = b := by
  intro a
  induction a with
  | nil => intro b h; cases b with
    | nil => rfl
    | cons _ _ => simp [asChars] at h
  | cons x a ih =>
    intro b h
    cases b with
    | nil => simp [asChars] at h
    | cons y b =>
      simp only [asChars, List.map_cons, List.cons.injEq] at h
      rw [byteChar_inj x y h.1, ih b h.2]

theorem bodyOk_no_backslash : ∀ (l : List Char), bodyOk l = true → '\\' ∉ l := by
  intro l
  induction l with
  | nil => intro _ h; cases h
  | cons c l ih =>
    intro h hm
    obtain ⟨h1, h2, _⟩ := bodyOk_cons h
    simp only [List.mem_cons] at hm
    rcases hm with hm | hm
    · exact h1 hm.symm
    · exact ih h2 hm

theorem mem_stripNeg {c : Char} {l : List Char} (h : c ∈ l) : c ∈ stripNeg l ∨ c = '!' ∨ c = '^' := by
  unfold stripNeg
  split
  · simp only [List.mem_cons] at h; rcases h with h | h
    · exact Or.inr (Or.inl h)
    · exact Or.inl h
  · simp only [List.mem_cons] at h; rcases h with h | h
    · exact Or.inr (Or.inr h)
    · exact Or.inl h
  · exact Or.inl h

/-- A well-behaved pattern contains no backslash. -/
theorem wb_no_backslash : ∀ (n : Nat) (p : List Char) (f : Nat), p.length ≤ n → wbFrom f p = true → '\\' ∉ p := by
  intro n
  induction n with
  | zero =>
    intro p f hp _ hm
    have : p = [] := List.eq_nil_of_length_eq_zero (by omega)
    subst this; cases hm
  | succ n ih =>
    intro p f hp hwb hm
    cases p with
    | nil => cases hm
    | cons c rest =>
      cases f with
      | zero => simp [wbFrom] at hwb
      | succ f =>
        simp only [List.length_cons] at hp
        by_cases hbs : c = '\\'
        · subst hbs; simp [wbFrom] at hwb
        have hm' : '\\' ∈ rest := by
          simp only [List.mem_cons] at hm
          rcases hm with hm | hm
          · exact absurd hm.symm hbs
          · exact hm
        by_cases hs : c = '*'
        · subst hs
          have hwb' : rest.head? ≠ some '*' ∧ wbFrom f rest = true := by simpa [wbFrom] using hwb
          exact ih rest f (by omega) hwb'.2 hm'
        by_cases hb : c = '['
        · subst hb
          simp only [wbFrom, show ('[' == '\\') = false by decide, show ('[' == '*') = false by decide,
            show ('[' == '[') = true by decide, Bool.false_eq_true, if_false, if_true] at hwb
          cases hsp : bracketSplit (stripNeg rest) with
          | none => rw [hsp] at hwb; simp at hwb
          | some pr =>
            obtain ⟨m, after⟩ := pr
            rw [hsp] at hwb
            simp only [] at hwb
            obtain ⟨x, body, _, hr, _, hok⟩ := bracketSplit_spec hsp
            have hlen : after.length < rest.length := by
              have : (stripNeg rest).length ≤ rest.length := by
                unfold stripNeg; split <;> simp
              rw [hr] at this; simp at this; omega
            rcases mem_stripNeg hm' with h | h | h
            · rw [hr] at h
              have : '\\' ∈ (x :: body) ++ ']' :: after := by simpa using h
              rw [List.mem_append] at this
              rcases this with h | h
              · exact bodyOk_no_backslash _ hok h
              · simp only [List.mem_cons] at h
                rcases h with h | h
                · exact absurd h (by decide)
                · exact ih after f (by omega) hwb h
            · exact absurd h (by decide)
            · exact absurd h (by decide)
        · have hwb' : wbFrom f rest = true := by simpa [wbFrom, hbs, hs, hb] using hwb
          exact ih rest f (by omega) hwb' hm'

theorem wellBehaved_no_backslash_byte (p : Bytes) (h : WellBehaved (asChars p) = true) : bBackslash ∉ p := by
  intro hm
  have : '\\' ∈ asChars p := by
    unfold asChars
    exact List.mem_map.mpr ⟨bBackslash, hm, by decide⟩
  exact wb_no_backslash _ _ _ (Nat.le_refl _) h this

/-! `analyze_glob_pattern` -/

def plainByte (c : UInt8) : Bool := c != bStar && c != bQuest && c != bBackslash && c != bOpen && c != bClose

theorem analyzeLoop_exact (t : PatternType) (p : Bytes) :
    analyzeLoop t p = .exact → t = .exact ∧ p.all plainByte = true := by
  fun_induction analyzeLoop t p with
  | case1 t => intro h; exact ⟨h, rfl⟩
  | case2 t c hc t' =>
    intro h
    cases t <;> simp [t'] at h
  | case3 t c hc t' x rest' ih =>
    intro h
    have := (ih h).1
    cases t <;> simp [t'] at this
  | case4 t c rest hc hs => intro h; cases h
  | case5 t c rest hc hs hm ih => intro h; have := (ih h).1; cases this
  | case6 t c rest hc hs hm ih =>
    intro h
    obtain ⟨h1, h2⟩ := ih h
    refine ⟨h1, ?_⟩
    simp only [List.all_cons, h2, Bool.and_true, plainByte]
    simp only [Bool.or_eq_true, not_or, beq_iff_eq] at hm hc hs
    simp [hc, hs, hm]

theorem analyzeLoop_escaped (t : PatternType) (p : Bytes) :
    analyzeLoop t p = .escapedExact → t = .escapedExact ∨ bBackslash ∈ p := by
  fun_induction analyzeLoop t p with
  | case1 t => intro h; exact Or.inl h
  | case2 t c hc t' => intro _; exact Or.inr (by simp at hc; simp [hc])
  | case3 t c hc t' x rest' ih => intro _; exact Or.inr (by simp at hc; simp [hc])
  | case4 t c rest hc hs => intro h; cases h
  | case5 t c rest hc hs hm ih =>
    intro h
    rcases ih h with h | h
    · cases h
    · exact Or.inr (List.mem_cons_of_mem _ h)
  | case6 t c rest hc hs hm ih =>
    intro h
    rcases ih h with h | h
    · exact Or.inl h
    · exact Or.inr (List.mem_cons_of_mem _ h)

theorem analyze_cases (p : Bytes) (h : bBackslash ∉ p) :
    (analyze p = .exact ∧ p.all plainByte = true) ∨ analyze p = .star ∨ analyze p = .nonStar := by
  unfold analyze
  by_cases hall : (p.all fun c => c != bStar && c != bQuest && c != bBackslash && c != bOpen && c != bClose) = true
  · rw [if_pos hall]; exact Or.inl ⟨rfl, hall⟩
  · rw [if_neg hall]
    cases hr : analyzeLoop .exact p with
    | exact => exact Or.inl ⟨rfl, (analyzeLoop_exact _ _ hr).2⟩
    | escapedExact =>
      rcases analyzeLoop_escaped _ _ hr with h' | h'
      · cases h'
      · exact absurd h' h
    | star => exact Or.inr (Or.inl rfl)
    | nonStar => exact Or.inr (Or.inr rfl)

/-! The POSIX spec on a pattern without metacharacters: string equality. -/

theorem tokenize_plain : ∀ (p : List Char) (f : Nat), p.length < f →
    (∀ c ∈ p, c ≠ '\\' ∧ c ≠ '?' ∧ c ≠ '*' ∧ c ≠ '[') → tokenize f p = .ok (p.map .lit) := by
  intro p
  induction p with
  | nil =>
    intro f hf _
    obtain ⟨f, rfl⟩ : ∃ g, f = g + 1 := ⟨f - 1, by omega⟩
    simp [tokenize]
  | cons c p ih =>
    intro f hf h
    obtain ⟨f, rfl⟩ : ∃ g, f = g + 1 := ⟨f - 1, by omega⟩
    obtain ⟨h0, h1, h2, h3⟩ := h c List.mem_cons_self
    rw [tokenize_lit _ _ _ h0 h1 h2 h3, ih f (by simp at hf; omega) (fun d hd => h d (List.mem_cons_of_mem _ hd))]
    rfl

theorem pmatch_plain : ∀ (p s : List Char), pmatch (p.map .lit) s = decide (s = p) := by
  intro p
  induction p with
  | nil => intro s; cases s <;> simp [pmatch]
  | cons c p ih =>
    intro s
    cases s with
    | nil => simp [pmatch]
    | cons d s =>
      simp only [List.map_cons, pmatch, ih]
      by_cases h1 : c = d
      · subst h1; simp
      · have : ¬ d = c := fun e => h1 e.symm
        simp [h1, this]

theorem plain_chars (p : Bytes) (h : p.all plainByte = true) :
    ∀ c ∈ asChars p, c ≠ '\\' ∧ c ≠ '?' ∧ c ≠ '*' ∧ c ≠ '[' := by
  intro c hc
  unfold asChars at hc
  obtain ⟨b, hb, rfl⟩ := List.mem_map.mp hc
  have hp := List.all_eq_true.mp h b hb
  simp only [plainByte, Bool.and_eq_true, bne_iff_ne, ne_eq] at hp
  obtain ⟨⟨⟨⟨h1, h2⟩, h3⟩, h4⟩, _⟩ := hp
  refine ⟨?_, ?_, ?_, ?_⟩
  · intro e; exact h3 (byteChar_inj b bBackslash (by rw [e]; decide))
  · intro e; exact h2 (byteChar_inj b bQuest (by rw [e]; decide))
  · intro e; exact h1 (byteChar_inj b bStar (by rw [e]; decide))
  · intro e; exact h4 (byteChar_inj b bOpen (by rw [e]; decide))

/-- **C15, the whole section-name path.** For every ASCII pattern whose text is well-behaved and
every ASCII section name: `SectionRule::new` accepts the pattern (as an exact matcher when it has no
metacharacter, otherwise as a compiled glob) and `SectionRule::matches` answers what POSIX
`fnmatch(pattern, name, 0)` answers. -/
theorem section_rule_eq_fnmatch (p name : Bytes) (hp : IsAscii p = true) (hn : IsAscii name = true)
    (h : WellBehaved (asChars p) = true) :
    wildMatch p name = specMatch p name := by
  have hnb := wellBehaved_no_backslash_byte p h
  obtain ⟨toks, h1, h2⟩ := glob_accepts_and_agrees _ h
  have hcomp : compile p = .ok toks := by
    unfold compile; rw [fromUtf8_ascii p hp]; simp only [h1]
  have hspec : specMatch p name = some (matchesBytes toks name) := by
    have := glob_eq_fnmatch_ascii p name hp hn h
    rw [hcomp] at this
    exact this.symm
  rcases analyze_cases p hnb with ⟨ha, hall⟩ | ha | ha
  · have hw : wildMatch p name = some (name == p) := by
      simp [wildMatch, Rule.new, ha, bind, Except.bind, pure, Except.pure, Rule.matches, NameMatcher.matches]
      by_cases e : name = p <;> simp [e]
    rw [hw]
    unfold specMatch fnmatch
    have := tokenize_plain (asChars p) ((asChars p).length + 1) (Nat.lt_succ_self _) (plain_chars p hall)
    unfold asChars at this
    rw [this]
    have hpm := pmatch_plain (asChars p) (asChars name)
    unfold asChars at hpm
    simp only [hpm]
    by_cases e : name = p
    · subst e; simp
    · have : ¬ asChars name = asChars p := fun e' => e (asChars_inj _ _ e')
      unfold asChars at this
      simp [e, this]
  · rw [hspec]
    simp [wildMatch, Rule.new, ha, hcomp, bind, Except.bind, pure, Except.pure, Except.map, Rule.matches, NameMatcher.matches]
  · rw [hspec]
    simp [wildMatch, Rule.new, ha, hcomp, bind, Except.bind, pure, Except.pure, Except.map, Rule.matches, NameMatcher.matches]

example : wildMatch (ascii ".text") (ascii ".text") = some true ∧ specMatch (ascii ".text") (ascii ".text") = some true := by decide
example : IsAscii (ascii ".t[a-e]x?.*") = true ∧ WellBehaved (asChars (ascii ".t[a-e]x?.*")) = true := by decide

/-! The bracket-free subclass (literals, `?`, single `*`) as a directly readable special case. -/

/-- No backslash, no `[`, no `**`. -/
def StarQuestion : List Char → Bool
  | [] => true
  | c :: rest => c != '\\' && c != '[' && !(c == '*' && rest.head? == some '*') && StarQuestion rest

theorem starQuestion_wb : ∀ (p : List Char) (f : Nat), p.length < f → StarQuestion p = true → wbFrom f p = true := by
  intro p
  induction p with
  | nil =>
    intro f hf _
    obtain ⟨f, rfl⟩ : ∃ g, f = g + 1 := ⟨f - 1, by omega⟩
    simp [wbFrom]
  | cons c p ih =>
    intro f hf h
    obtain ⟨f, rfl⟩ : ∃ g, f = g + 1 := ⟨f - 1, by omega⟩
    simp only [StarQuestion, Bool.and_eq_true, bne_iff_ne, ne_eq, Bool.not_eq_true', Bool.and_eq_false_iff,
      beq_eq_false_iff_ne] at h
    obtain ⟨⟨⟨h1, h2⟩, h3⟩, h4⟩ := h
    have hrec := ih f (by simp at hf; omega) h4
    by_cases hs : c = '*'
    · subst hs
      have : p.head? ≠ some '*' := by
        rcases h3 with h3 | h3
        · exact absurd rfl h3
        · exact h3
      simp [wbFrom, this, hrec]
    · simp [wbFrom, h1, h2, hs, hrec]

/-- `glob_eq_fnmatch_star_question`: the statement for patterns built from ordinary characters,
`?` and single `*` only. -/
theorem glob_eq_fnmatch_star_question (p s : List Char) (h : StarQuestion p = true) :
    (patternNew (replaceCaret p)).map (fun toks => patternMatches toks s) = fnmatch p s :=
  glob_eq_fnmatch_chars p s (starQuestion_wb p _ (Nat.lt_succ_self _) h)

example : StarQuestion ".text.*".toList = true := by decide
example : StarQuestion "*a?b]*c".toList = true := by decide
example : StarQuestion "a**".toList = false := by decide

end Wild.C15
