/-
Independent statement of POSIX `fnmatch(pattern, string, 0)` (XCU 2.13 pattern matching notation,
no flags: `*`, `?`, bracket expressions with `!`/`^` non-matching lists and ranges, `\` escape)
for the C locale, over `List Char`. Written from the standard, not from wild or the glob crate.
Outside the specified domain (`none`): a pattern that ends in an unescaped backslash (POSIX:
unspecified) and bracket expressions using `[:class:]`, `[.coll.]`, `[=equiv=]`.
An unterminated `[` stands for itself (POSIX).
This file is core-only so that the driver can evaluate it (`spec-fnmatch`) for validation against
libc's fnmatch.
-/
namespace Wild.FnmatchSpec

inductive Item where
  | one (c : Char)
  | range (lo hi : Char)
  deriving DecidableEq, Repr

inductive PTok where
  | lit (c : Char)
  | any
  | star
  | set (neg : Bool) (items : List Item)
  deriving DecidableEq, Repr

inductive Outside where
  | trailingBackslash
  | posixClass
  deriving DecidableEq, Repr

/-- Result of scanning a bracket expression body. -/
inductive Bracket where
  | closed (items : List Item) (rest : List Char)
  | unterminated
  | outside (o : Outside)

/-- One (possibly escaped) character of a bracket expression: the character and what follows. -/
def bracketChar : List Char → Option (Char × List Char)
  | '\\' :: c :: rest => some (c, rest)
  | '\\' :: [] => none
  | c :: rest => some (c, rest)
  | [] => none

/-- Members of a bracket expression up to the closing `]`. `first`: a `]` here is a member. -/
def bracketBody : Nat → Bool → List Char → Bracket
  | 0, _, _ => .unterminated
  | _, _, [] => .unterminated
  | fuel + 1, first, c :: rest =>
    if c == ']' && !first then .closed [] rest
    else if c == '[' && (rest.head? == some ':' || rest.head? == some '.' || rest.head? == some '=') then .outside .posixClass
    else
      match bracketChar (c :: rest) with
      | none => .unterminated
      | some (lo, r1) =>
        -- a range `lo-hi` needs a `-` that is followed by something other than the closing `]`
        match r1 with
        | '-' :: r2 =>
          match r2 with
          | [] => .unterminated
          | ']' :: _ =>
            (match bracketBody fuel false r1 with
             | .closed items rest' => .closed (.one lo :: items) rest'
             | b => b)
          | _ =>
            match bracketChar r2 with
            | none => .unterminated
            | some (hi, r3) =>
              match bracketBody fuel false r3 with
              | .closed items rest' => .closed (.range lo hi :: items) rest'
              | b => b
        | _ =>
          match bracketBody fuel false r1 with
          | .closed items rest' => .closed (.one lo :: items) rest'
          | b => b

def tokenize : Nat → List Char → Except Outside (List PTok)
  | 0, _ => .ok []
  | _, [] => .ok []
  | fuel + 1, c :: rest =>
    if c == '\\' then
      match rest with
      | [] => .error .trailingBackslash
      | d :: rest' => (tokenize fuel rest').map (.lit d :: ·)
    else if c == '?' then (tokenize fuel rest).map (.any :: ·)
    else if c == '*' then (tokenize fuel rest).map (.star :: ·)
    else if c == '[' then
      let (neg, body) := match rest with
        | '!' :: b => (true, b)
        | '^' :: b => (true, b)
        | b => (false, b)
      match bracketBody (body.length + 1) true body with
      | .closed items rest' => (tokenize fuel rest').map (.set neg items :: ·)
      | .unterminated => (tokenize fuel rest).map (.lit '[' :: ·)
      | .outside o => .error o
    else (tokenize fuel rest).map (.lit c :: ·)

def inItems (items : List Item) (c : Char) : Bool :=
  items.any fun
    | .one x => c == x
    | .range lo hi => lo ≤ c && c ≤ hi

def suffixes : List Char → List (List Char)
  | [] => [[]]
  | c :: s => (c :: s) :: suffixes s

/-- Declarative matching of a token list against a whole string. -/
def pmatch : List PTok → List Char → Bool
  | [], s => s.isEmpty
  | .star :: ts, s => (suffixes s).any (fun t => pmatch ts t)
  | .lit c :: ts, d :: s => c == d && pmatch ts s
  | .any :: ts, _ :: s => pmatch ts s
  | .set neg items :: ts, d :: s => (inItems items d != neg) && pmatch ts s
  | _ :: _, [] => false

/-- `fnmatch(p, s, 0) == 0`; `none` outside the specified domain. -/
def fnmatch (p s : List Char) : Option Bool :=
  match tokenize (p.length + 1) p with
  | .ok toks => some (pmatch toks s)
  | .error _ => none

/-- The pattern contains a `[` that is not closed (reported for the libc validation only: glibc
deviates from POSIX when the string character happens to be a member of the unterminated set). -/
def hasUnterminated : Nat → List Char → Bool
  | 0, _ => false
  | _, [] => false
  | fuel + 1, c :: rest =>
    if c == '\\' then hasUnterminated fuel (rest.drop 1)
    else if c == '[' then
      let body := match rest with
        | '!' :: b => b
        | '^' :: b => b
        | b => b
      match bracketBody (body.length + 1) true body with
      | .closed _ rest' => hasUnterminated fuel rest'
      | .unterminated => true
      | .outside _ => false
    else hasUnterminated fuel rest

end Wild.FnmatchSpec
