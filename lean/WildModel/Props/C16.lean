import WildModel.Props.C16Spec
/-!
# C16 — Linker-script expressions evaluate as in GNU ld

Model of the code: `WildModel/Model/Expr.lean` (`lex`, `run`/`step` with `wildTable`, `eval`,
`assertOutcome`). Reference side: `WildModel/Props/C16Spec.lean` (`cTable`, `gnuEval`, `pretty`).

## Values (all expression trees, no size bound)
* `eval_eq_gnu`: whenever GNU ld computes a value `w` for `e`, wild's evaluator computes `w` too, or
  rejects the link with "ALIGN(0) is invalid".
* `eval_agrees_gnu`: wherever both compute a value the values are equal.
* `C16_eval_full` (wild's outcome = GNU ld's outcome on every literal tree) is FALSE in exactly two ways,
  each with a proved witness: `ALIGN(0)` (wild rejects, ld gives 0) and `0 && 1/0` (wild
  short-circuits to 0, ld reports "/ by zero").
* `assert_fails_iff` / `assert_passes_iff`: an ASSERT fails iff its expression evaluates to zero.

## Parsing (all expression trees, no size bound)
* `parse_pretty_generic`: for EVERY well-formed precedence table `T`, the climber driven by `T`
  parses the minimally-parenthesised text of every tree back to that tree (so the climber
  implements exactly the precedence and associativity that `T` states).
* `parse_pretty_wild` (`T = wildTable`) and `refParse_pretty` (`T = cTable`).
* `C16_parse_full`: wild's parser on C-minimal text returns the tree. FALSE (`parse_ref_witness`:
  `1 | 2 == 2`). `parse_eq_ref_partial`: true for every tree without comparison operators, and more
  generally whenever the two minimal texts coincide.
* `parse_total`: the parser is a total function and more fuel never changes a successful parse.
-/
namespace Wild.Expr

/-! ## Values -/

theorem mod32_mod64 (n : Nat) : n % 2 ^ 32 % 64 = n % 64 :=
  Nat.mod_mod_of_dvd n (by decide : 64 ∣ 2 ^ 32)

theorem sdiv_eq_cSignedDiv (a b : BitVec 64) (h : ¬ (a = BitVec.intMin 64 ∧ b = -1#64)) :
    a.sdiv b = cSignedDiv a b := by
  unfold cSignedDiv
  have h1 := BitVec.toInt_sdiv_of_ne_or_ne a b (by
    by_cases ha : a = BitVec.intMin 64
    · right; intro hb; exact h ⟨ha, hb⟩
    · left; exact ha)
  rw [← h1, BitVec.ofInt_toInt]

/-- Every value arm of the evaluator equals GNU ld's value where GNU ld has one. -/
theorem binVal_eq_gnuBin (o : BinOp) (a b v : BitVec 64) (h : gnuBin o a b = some v) :
    binVal o a b = v := by
  cases o <;> simp only [gnuBin, Option.some.injEq] at h <;> (try subst h) <;> simp only [binVal]
  case lor => simp [b2v, gnuBool]
  case land => simp [b2v, gnuBool]
  case eq => simp [b2v, gnuBool]
  case ne => simp [b2v, gnuBool]
  case lt => simp [b2v, gnuBool, BitVec.ult]
  case gt => simp [b2v, gnuBool, BitVec.ult]
  case le => simp [b2v, gnuBool, BitVec.ule]
  case ge => simp [b2v, gnuBool, BitVec.ule]
  case shl => rw [mod32_mod64]
  case shr => rw [mod32_mod64]
  case add => exact BitVec.add_def ..
  case sub =>
    apply BitVec.eq_of_toNat_eq
    rw [BitVec.toNat_sub, BitVec.toNat_ofInt]
    have := a.isLt; have := b.isLt
    omega
  case mul => exact BitVec.mul_def ..
  case div =>
    split at h
    · cases h
    · split at h
      · cases h
      · cases h
        rename_i h2
        exact sdiv_eq_cSignedDiv a b h2

theorem unVal_eq_gnuUn (o : UnOp) (a : BitVec 64) : unVal o a = gnuUn o a := by
  cases o <;> simp only [unVal, gnuUn]
  case lnot => simp [b2v, gnuBool]
  case bnot =>
    apply BitVec.eq_of_toNat_eq
    simp [BitVec.toNat_not]
    omega
  case neg =>
    apply BitVec.eq_of_toNat_eq
    rw [BitVec.toNat_neg, BitVec.toNat_ofInt]
    have := a.isLt
    omega

/-- "wild computes `w`, or rejects with ALIGN(0)". -/
def OkOrAlign0 (r : Except EvalErr (BitVec 64)) (w : BitVec 64) : Prop :=
  r = .ok w ∨ r = .error .align0

theorem gnuBin_div_zero (x : BitVec 64) : gnuBin .div x 0#64 = none := by simp [gnuBin]

/-- **Main value theorem.** For every expression tree: if GNU ld computes the value `w`, wild's
evaluator computes `w` as well, unless it rejects the expression with "ALIGN(0) is invalid". -/
theorem eval_eq_gnu (e : Expr) : ∀ w, gnuEval e = some w → OkOrAlign0 (eval e) w := by
  induction e with
  | num v => intro w h; simp [gnuEval] at h; subst h; left; rfl
  | sym s => intro w h; simp [gnuEval] at h
  | dot => intro w h; simp [gnuEval] at h
  | fn1 k s => intro w h; simp [gnuEval] at h
  | align e ih =>
    intro w h
    simp only [gnuEval, Option.map_eq_some_iff] at h
    obtain ⟨x, hx, rfl⟩ := h
    rcases ih x hx with h1 | h1
    · by_cases hz : x = 0#64
      · right; simp [eval, h1, hz]
      · left; simp only [eval, h1, hz, if_false]
        congr 1
        generalize x - 1#64 = y
        simp
    · right; simp [eval, h1]
  | min a b iha ihb =>
    intro w h
    simp only [gnuEval] at h
    split at h
    · rename_i x y hx hy
      cases h
      rcases iha x hx with h1 | h1 <;> rcases ihb y hy with h2 | h2 <;>
        simp [eval, h1, h2, OkOrAlign0, BitVec.ule]
    · cases h
  | max a b iha ihb =>
    intro w h
    simp only [gnuEval] at h
    split at h
    · rename_i x y hx hy
      cases h
      rcases iha x hx with h1 | h1 <;> rcases ihb y hy with h2 | h2 <;>
        simp [eval, h1, h2, OkOrAlign0, BitVec.ule]
    · cases h
  | un o e ih =>
    intro w h
    simp only [gnuEval, Option.map_eq_some_iff] at h
    obtain ⟨x, hx, rfl⟩ := h
    rcases ih x hx with h1 | h1
    · left; simp [eval, h1, unVal_eq_gnuUn]
    · right; simp [eval, h1]
  | bin o a b iha ihb =>
    intro w h
    simp only [gnuEval] at h
    split at h
    · rename_i x y hx hy
      have hv := binVal_eq_gnuBin o x y w h
      rcases iha x hx with h1 | h1 <;> rcases ihb y hy with h2 | h2
      · -- both operands have values
        cases o
        case div =>
          have hy0 : y ≠ 0#64 := by intro h0; subst h0; rw [gnuBin_div_zero] at h; cases h
          left; simp [eval, h1, h2, hy0, hv]
        case land =>
          by_cases hx0 : x = 0#64
          · subst hx0; left
            simp only [gnuBin, Option.some.injEq] at h
            simp [eval, h1, ← h, gnuBool]
          · left; simp [eval, h1, h2, hx0, hv]
        case lor =>
          by_cases hx0 : x = 0#64
          · subst hx0; left; simp [eval, h1, h2, hv]
          · left
            simp only [gnuBin, Option.some.injEq] at h
            simp [eval, h1, hx0, ← h, gnuBool]
        all_goals (left; simp [eval, h1, h2, hv])
      · cases o
        case div => right; simp [eval, h2]
        case land =>
          by_cases hx0 : x = 0#64
          · subst hx0; left
            simp only [gnuBin, Option.some.injEq] at h
            simp [eval, h1, ← h, gnuBool]
          · right; simp [eval, h1, h2, hx0]
        case lor =>
          by_cases hx0 : x = 0#64
          · right; simp [eval, h1, h2, hx0]
          · left
            simp only [gnuBin, Option.some.injEq] at h
            simp [eval, h1, hx0, ← h, gnuBool]
        all_goals (right; simp [eval, h1, h2])
      · cases o
        case div =>
          have hy0 : y ≠ 0#64 := by intro h0; subst h0; rw [gnuBin_div_zero] at h; cases h
          right; simp [eval, h1, h2, hy0]
        all_goals (right; simp [eval, h1])
      · cases o
        all_goals (right; simp [eval, h1, h2])
    · cases h

/-- Wherever wild and GNU ld both compute a value, the values are equal. -/
theorem eval_agrees_gnu (e : Expr) (v w : BitVec 64) (h1 : eval e = .ok v) (h2 : gnuEval e = some w) :
    v = w := by
  rcases eval_eq_gnu e w h2 with h | h
  · rw [h1] at h; cases h; rfl
  · rw [h1] at h; cases h

/-- Full-strength statement: on every literal tree wild's outcome equals GNU ld's outcome
(value or no value). It does NOT hold; see the two witnesses. -/
def C16_eval_full : Prop := ∀ e : Expr, e.lit = true → (eval e).toOption = gnuEval e

/-- `ALIGN(0)`: GNU ld gives 0, wild rejects the expression. -/
theorem eval_full_witness_align0 : ¬ C16_eval_full := by
  intro h
  have := h (.align (.num 0#64)) rfl
  simp [eval, gnuEval, Except.toOption] at this

/-- `0 && 1/0`: wild short-circuits to 0; GNU ld evaluates both operands and reports "/ by zero". -/
theorem eval_full_witness_shortcircuit :
    eval (.bin .land (.num 0#64) (.bin .div (.num 1#64) (.num 0#64))) = .ok 0#64 ∧
    gnuEval (.bin .land (.num 0#64) (.bin .div (.num 1#64) (.num 0#64))) = none := by
  constructor
  · simp [eval]
  · simp [gnuEval, gnuBin]

/-- An ASSERT fails exactly when its expression evaluates to zero. -/
theorem assert_fails_iff (e : Expr) : assertFails e ↔ eval e = .ok 0#64 := by
  unfold assertFails assertOutcome
  cases h : eval e with
  | error x => simp
  | ok v =>
    by_cases hv : v = 0#64
    · simp [hv]
    · simp [hv]

theorem assert_passes_iff (e : Expr) :
    assertOutcome e = .passes ↔ ∃ v, eval e = .ok v ∧ v ≠ 0#64 := by
  unfold assertOutcome
  cases h : eval e with
  | error x => simp
  | ok v =>
    by_cases hv : v = 0#64
    · simp [hv]
    · simp [hv]

/-! Non-vacuity: the division defect input and a shift count ≥ 64, on model and reference. -/
example : (eval (.bin .div (.bin .sub (.num 0#64) (.num 8#64)) (.num 2#64))).toOption = some (0#64 - 4#64) := by
  decide
example : gnuEval (.bin .div (.bin .sub (.num 0#64) (.num 8#64)) (.num 2#64)) = some (0#64 - 4#64) := by
  decide
example : gnuEval (.bin .shl (.num 1#64) (.num 65#64)) = some 2#64 := by decide
example : assertFails (.bin .sub (.num 5#64) (.num 5#64)) := by unfold assertFails; decide
example : ¬ assertFails (.bin .shl (.num 1#64) (.num 64#64)) := by unfold assertFails; decide

/-! ## Parser: fuel monotonicity -/

def Le0 (r r' : List Tok → PRes) : Prop := ∀ ts x, r ts = some x → r' ts = some x
def Le (r r' : Mode → List Tok → PRes) : Prop := ∀ m ts x, r m ts = some x → r' m ts = some x

theorem oneArg_mono {r r' : List Tok → PRes} (h : Le0 r r') (mk : Expr → Expr) :
    Le0 (oneArg r mk) (oneArg r' mk) := by
  intro ts x hx
  unfold oneArg at hx ⊢
  cases h0 : r ts with
  | none => simp [h0] at hx
  | some y =>
    rw [h0] at hx
    rw [h _ _ h0]
    exact hx

theorem twoArgs_mono {r r' : List Tok → PRes} (h : Le0 r r') (mk : Expr → Expr → Expr) :
    Le0 (twoArgs r mk) (twoArgs r' mk) := by
  intro ts x hx
  unfold twoArgs at hx ⊢
  cases h0 : r ts with
  | none => simp [h0] at hx
  | some y =>
    rw [h0] at hx
    rw [h _ _ h0]
    split at hx
    · rename_i a rr heq
      cases heq
      cases h1 : r rr with
      | none => simp [h1] at hx
      | some z =>
        rw [h1] at hx
        rw [h _ _ h1]
        exact hx
    · cases hx

theorem primary_mono {r r' : List Tok → PRes} (h : Le0 r r') : Le0 (primary r) (primary r') := by
  intro ts x hx
  unfold primary at hx ⊢
  split at hx
  · exact oneArg_mono h _ _ _ hx
  · exact hx
  · rename_i s rr
    split at hx
    · rename_i hs; simp only [hs, if_true]; exact hx
    · rename_i hs
      simp only [hs, if_false]
      split at hx
      · rename_i r2
        split at hx
        · rename_i h1; simp only [h1, if_true]; exact oneArg_mono h _ _ _ hx
        · rename_i h1
          simp only [h1, if_false]
          split at hx
          · rename_i h2; simp only [h2, if_true]; exact twoArgs_mono h _ _ _ hx
          · rename_i h2
            simp only [h2, if_false]
            split at hx
            · rename_i h3; simp only [h3, if_true]; exact twoArgs_mono h _ _ _ hx
            · rename_i h3; simp only [h3, if_false]; exact hx
      · exact hx
  · cases hx

theorem mapFst_some {f : Expr → Expr} {p : PRes} {x} (h : mapFst f p = some x) :
    ∃ e r, p = some (e, r) ∧ x = (f e, r) := by
  cases p with
  | none => simp [mapFst] at h
  | some y => obtain ⟨e, r⟩ := y; simp [mapFst] at h; exact ⟨e, r, rfl, h.symm⟩

theorem loop_body_mono (T : Table) {r r' : Mode → List Tok → PRes} (h : Le r r') (L : Nat) (left : Expr)
    (o : BinOp) (ts' : List Tok) (x) 
    (hx : (match r (Mode.at (L + 1)) ts' with
        | some (r_1, ts'') =>
          if T.loops L = true then r (Mode.loop L (Expr.bin o left r_1)) ts'' else some (Expr.bin o left r_1, ts'')
        | none => none) = some x) :
    (match r' (Mode.at (L + 1)) ts' with
        | some (r_1, ts'') =>
          if T.loops L = true then r' (Mode.loop L (Expr.bin o left r_1)) ts'' else some (Expr.bin o left r_1, ts'')
        | none => none) = some x := by
  cases h0 : r (.at (L + 1)) ts' with
  | none => simp [h0] at hx
  | some y =>
    rw [h0] at hx
    rw [h _ _ _ h0]
    obtain ⟨rr, ts''⟩ := y
    simp only at hx ⊢
    split at hx
    · rename_i hlo; simp only [hlo, if_true]; exact h _ _ _ hx
    · rename_i hlo; simp only [hlo]; exact hx

theorem mapFst_mono {f : Expr → Expr} {p p' : PRes} {x} (hp : ∀ y, p = some y → p' = some y)
    (h : mapFst f p = some x) : mapFst f p' = some x := by
  obtain ⟨e, r, hp1, rfl⟩ := mapFst_some h
  rw [hp _ hp1]; rfl

theorem step_mono (T : Table) {r r' : Mode → List Tok → PRes} (h : Le r r') : Le (step T r) (step T r') := by
  intro m ts x hx
  cases m with
  | loop L left =>
    simp only [step] at hx ⊢
    rcases ts with _ | ⟨t, ts'⟩
    · exact hx
    · cases t <;> try exact hx
      rename_i o
      simp only at hx ⊢
      by_cases hl : T.lvl o = L
      · simp only [hl, if_true] at hx ⊢
        exact loop_body_mono T h L left o ts' x hx
      · simp only [hl, if_false] at hx ⊢; exact hx
  | «at» L =>
    simp only [step] at hx ⊢
    by_cases hl : L < T.nl
    · simp only [hl, if_true] at hx ⊢
      cases h0 : r (.at (L + 1)) ts with
      | none => simp [h0] at hx
      | some y =>
        rw [h0] at hx
        rw [h _ _ _ h0]
        obtain ⟨l, ts'⟩ := y
        exact h _ _ _ hx
    · simp only [hl, if_false] at hx ⊢
      have hp : Le0 (r (.at 0)) (r' (.at 0)) := fun ts x hh => h _ ts x hh
      rcases ts with _ | ⟨t, ts'⟩
      · exact primary_mono hp _ _ hx
      · cases t
        case bang => exact mapFst_mono (fun y hy => h _ _ _ hy) hx
        case tilde => exact mapFst_mono (fun y hy => h _ _ _ hy) hx
        case bop o =>
          cases o
          case sub => exact mapFst_mono (fun y hy => h _ _ _ hy) hx
          all_goals exact primary_mono hp _ _ hx
        all_goals exact primary_mono hp _ _ hx

theorem run_succ_mono (T : Table) : ∀ f, Le (run T f) (run T (f + 1))
  | 0 => by intro m ts x hx; simp [run] at hx
  | f + 1 => by
    have ih := run_succ_mono T f
    show Le (step T (run T f)) (step T (run T (f + 1)))
    exact step_mono T ih

/-- More fuel never changes a successful parse. -/
theorem run_mono (T : Table) {f g : Nat} (hfg : f ≤ g) {m ts x} (h : run T f m ts = some x) :
    run T g m ts = some x := by
  induction hfg with
  | refl => exact h
  | step _ ih => exact run_succ_mono T _ _ _ _ ih


/-! ### Equation lemmas for `run` -/

def Table.WF (T : Table) : Prop := ∀ o, T.lvl o < T.nl

/-- `rest` cannot continue an operator loop of any level `≥ L`. -/
def Stops (T : Table) (L : Nat) (rest : List Tok) : Prop := ∀ o r, rest = .bop o :: r → T.lvl o < L

theorem Stops.mono {T : Table} {L K : Nat} {rest} (h : Stops T L rest) (hk : L ≤ K) : Stops T K rest :=
  fun o r hr => Nat.lt_of_lt_of_le (h o r hr) hk

theorem stops_nl {T : Table} (hwf : T.WF) (rest) : Stops T T.nl rest := fun o _ _ => hwf o

theorem stops_rparen (T : Table) (L r) : Stops T L (.rparen :: r) := by intro o r' h; cases h
theorem stops_comma (T : Table) (L r) : Stops T L (.comma :: r) := by intro o r' h; cases h
theorem stops_nil (T : Table) (L) : Stops T L [] := by intro o r' h; cases h
theorem stops_bop (T : Table) (o r) : Stops T (T.lvl o + 1) (.bop o :: r) := by
  intro o' r' h; cases h; exact Nat.lt_succ_self _

theorem run_at_lt (T : Table) (f L ts) (h : L < T.nl) :
    run T (f + 1) (.at L) ts =
      match run T f (.at (L + 1)) ts with
      | some (l, ts') => run T f (.loop L l) ts'
      | none => none := by
  simp only [run, step, h, if_true]
  rcases run T f (.at (L + 1)) ts with _ | ⟨l, ts'⟩ <;> rfl

theorem run_loop_stop (T : Table) (f L e rest) (h : ∀ o r, rest = .bop o :: r → T.lvl o ≠ L) :
    run T (f + 1) (.loop L e) rest = some (e, rest) := by
  simp only [run, step]
  rcases rest with _ | ⟨t, r⟩
  · rfl
  · cases t <;> try rfl
    rename_i o
    simp [h o r rfl]

theorem run_loop_op (T : Table) (f L left o ts) (h : T.lvl o = L) :
    run T (f + 1) (.loop L left) (.bop o :: ts) =
      match run T f (.at (L + 1)) ts with
      | some (r, ts'') =>
        if T.loops L = true then run T f (.loop L (.bin o left r)) ts'' else some (.bin o left r, ts'')
      | none => none := by
  simp only [run, step, h, if_true]
  rcases run T f (.at (L + 1)) ts with _ | ⟨l, ts'⟩ <;> rfl

theorem run_un (T : Table) (f u ts) :
    run T (f + 1) (.at T.nl) (unTok u :: ts) = mapFst (.un u) (run T f (.at T.nl) ts) := by
  cases u <;> simp [run, step, unTok]

theorem run_num (T : Table) (f v r) : run T (f + 1) (.at T.nl) (.num v :: r) = some (.num v, r) := by
  simp [run, step, primary]

theorem run_lparen (T : Table) (f ts) :
    run T (f + 1) (.at T.nl) (.lparen :: ts) = oneArg (run T f (.at 0)) id ts := by
  simp [run, step, primary]

theorem run_align (T : Table) (f ts) :
    run T (f + 1) (.at T.nl) (.ident "ALIGN" :: .lparen :: ts) = oneArg (run T f (.at 0)) .align ts := by
  simp [run, step, primary]

theorem run_min (T : Table) (f ts) :
    run T (f + 1) (.at T.nl) (.ident "MIN" :: .lparen :: ts) = twoArgs (run T f (.at 0)) .min ts := by
  simp [run, step, primary]

theorem run_max (T : Table) (f ts) :
    run T (f + 1) (.at T.nl) (.ident "MAX" :: .lparen :: ts) = twoArgs (run T f (.at 0)) .max ts := by
  simp [run, step, primary]

/-- A result obtained at level `K` is also the result at every level `L ≤ K` when the remaining
input cannot continue any of the loops in between. -/
theorem descend (T : Table) (e rest ts) : ∀ (d L K f : Nat), K = L + d → K ≤ T.nl → 1 ≤ f →
    Stops T L rest → run T f (.at K) ts = some (e, rest) → run T (f + d) (.at L) ts = some (e, rest)
  | 0, L, K, f, hk, _, _, _, h => by subst hk; simpa using h
  | d + 1, L, K, f, hk, hnl, hf, hs, h => by
    have ih := descend T e rest ts d (L + 1) K f (by omega) hnl hf (hs.mono (Nat.le_succ _)) h
    have : f + (d + 1) = (f + d) + 1 := by omega
    rw [this, run_at_lt T _ _ _ (by omega), ih]
    simp only
    obtain ⟨g, hg⟩ : ∃ g, f + d = g + 1 := ⟨f + d - 1, by omega⟩
    rw [hg]
    exact run_loop_stop T g L e rest (fun o r hr => Nat.ne_of_lt (hs o r hr))

/-! ### Round trip -/

/-- Fuel that is always enough for `e` (additive in the nodes of `e`). -/
def need (T : Table) : Expr → Nat
  | .bin _ a b => need T a + need T b + (2 * T.nl + 6)
  | .un _ e => need T e + (2 * T.nl + 6)
  | .align e => need T e + (2 * T.nl + 6)
  | .min a b => need T a + need T b + (2 * T.nl + 6)
  | .max a b => need T a + need T b + (2 * T.nl + 6)
  | _ => 2 * T.nl + 6

theorem need_pos (T : Table) (e : Expr) : 2 * T.nl + 6 ≤ need T e := by
  cases e <;> simp [need] <;> omega

/-- Parsing `e`'s text as an operand at level `L` yields `e` and leaves the rest. -/
def PA (T : Table) (e : Expr) : Prop :=
  ∀ L, L ≤ T.nl → ∀ rest, Stops T L rest → ∀ f, need T e ≤ f →
    run T f (.at L) (showAt T L e ++ rest) = some (e, rest)

/-- Loop invariant: parsing `e`'s text at a looping level `M` and continuing is the same as
continuing the level-`M` loop with `e` as the left operand. -/
def PC (T : Table) (e : Expr) : Prop :=
  ∀ M, M < T.nl → T.loops M = true → ∀ rest g res, Stops T (M + 1) rest → 1 ≤ g →
    run T g (.loop M e) rest = some res → ∀ f, need T e + g ≤ f →
    run T f (.at M) (showAt T M e ++ rest) = some res

theorem showAt_of_le (T : Table) (L e) (h : L ≤ lvlE T e) : showAt T L e = flat T e := by
  simp [showAt, paren, Nat.not_lt.mpr h]

theorem showAt_of_lt (T : Table) (L e) (h : lvlE T e < L) :
    showAt T L e = .lparen :: (flat T e ++ [.rparen]) := by
  simp [showAt, paren, h]

/-- `PC` follows from `PA` when the root of `e` is not an operator of level `M`. -/
theorem PC_of_PA (T : Table) (e : Expr) (hA : PA T e) (M : Nat) (hM : M < T.nl) (hne : lvlE T e ≠ M) :
    ∀ rest g res, Stops T (M + 1) rest → 1 ≤ g →
    run T g (.loop M e) rest = some res → ∀ f, need T e + g ≤ f →
    run T f (.at M) (showAt T M e ++ rest) = some res := by
  intro rest g res hs hg hloop f hf
  have hshow : showAt T M e = showAt T (M + 1) e := by
    by_cases h : lvlE T e < M
    · rw [showAt_of_lt T M e h, showAt_of_lt T (M + 1) e (by omega)]
    · rw [showAt_of_le T M e (by omega), showAt_of_le T (M + 1) e (by omega)]
  have hn := need_pos T e
  obtain ⟨f', rfl⟩ : ∃ f', f = f' + 1 := ⟨f - 1, by omega⟩
  rw [run_at_lt T _ _ _ hM, hshow, hA (M + 1) (by omega) rest hs f' (by omega)]
  exact run_mono T (by omega) hloop

/-- `PA` for trees whose text starts a primary / unary expression. -/
theorem PA_of_top (T : Table) (e : Expr) (k : Nat) (hl : T.nl ≤ lvlE T e) (hk : k + T.nl ≤ need T e) (hk1 : 1 ≤ k)
    (h : ∀ rest, run T k (.at T.nl) (flat T e ++ rest) = some (e, rest)) : PA T e := by
  intro L hL rest hs f hf
  rw [showAt_of_le T L e (by omega)]
  have := descend T e rest (flat T e ++ rest) (T.nl - L) L T.nl k (by omega) (Nat.le_refl _) hk1 hs (h rest)
  exact run_mono T (by omega) this

theorem lvlE_lit_atom (T : Table) (e : Expr) : (∀ o a b, e ≠ .bin o a b) → T.nl ≤ lvlE T e := by
  intro h
  cases e <;> simp [lvlE] <;> try omega
  exact absurd rfl (h _ _ _)

theorem roundtrip_main (T : Table) (hwf : T.WF) : ∀ e : Expr, e.lit = true → PA T e ∧ PC T e := by
  intro e
  induction e with
  | num v =>
    intro _
    have hA : PA T (.num v) := PA_of_top T _ 1 (by simp [lvlE]) (by simp [need]; omega) (Nat.le_refl _)
      (fun rest => by simp [flat, run_num])
    exact ⟨hA, fun M hM _ => PC_of_PA T _ hA M hM (by simp [lvlE]; omega)⟩
  | sym s => intro h; simp [Expr.lit] at h
  | dot => intro h; simp [Expr.lit] at h
  | fn1 k s => intro h; simp [Expr.lit] at h
  | align x ih =>
    intro hl
    obtain ⟨ihA, _⟩ := ih (by simpa [Expr.lit] using hl)
    have hA : PA T (.align x) := PA_of_top T _ (need T x + 1) (by simp [lvlE]) (by simp [need]; omega) (by omega)
      (fun rest => by
        have h0 := ihA 0 (Nat.zero_le _) (.rparen :: rest) (stops_rparen T 0 rest) (need T x) (Nat.le_refl _)
        rw [showAt_of_le T 0 x (Nat.zero_le _)] at h0
        simp only [flat, List.append_assoc, List.cons_append, List.nil_append]
        rw [run_align, oneArg, h0])
    exact ⟨hA, fun M hM _ => PC_of_PA T _ hA M hM (by simp [lvlE]; omega)⟩
  | min a b iha ihb =>
    intro hl
    simp only [Expr.lit, Bool.and_eq_true] at hl
    obtain ⟨ihA, _⟩ := iha hl.1
    obtain ⟨ihB, _⟩ := ihb hl.2
    have hA : PA T (.min a b) := PA_of_top T _ (need T a + need T b + 1) (by simp [lvlE]) (by simp [need]; omega) (by omega)
      (fun rest => by
        have h0 := ihA 0 (Nat.zero_le _) (.comma :: (flat T b ++ .rparen :: rest)) (stops_comma T 0 _) (need T a + need T b) (by omega)
        have h1 := ihB 0 (Nat.zero_le _) (.rparen :: rest) (stops_rparen T 0 rest) (need T a + need T b) (by omega)
        rw [showAt_of_le T 0 _ (Nat.zero_le _)] at h0 h1
        simp only [flat, List.append_assoc, List.cons_append, List.nil_append]
        rw [run_min, twoArgs, h0]
        simp only
        rw [h1])
    exact ⟨hA, fun M hM _ => PC_of_PA T _ hA M hM (by simp [lvlE]; omega)⟩
  | max a b iha ihb =>
    intro hl
    simp only [Expr.lit, Bool.and_eq_true] at hl
    obtain ⟨ihA, _⟩ := iha hl.1
    obtain ⟨ihB, _⟩ := ihb hl.2
    have hA : PA T (.max a b) := PA_of_top T _ (need T a + need T b + 1) (by simp [lvlE]) (by simp [need]; omega) (by omega)
      (fun rest => by
        have h0 := ihA 0 (Nat.zero_le _) (.comma :: (flat T b ++ .rparen :: rest)) (stops_comma T 0 _) (need T a + need T b) (by omega)
        have h1 := ihB 0 (Nat.zero_le _) (.rparen :: rest) (stops_rparen T 0 rest) (need T a + need T b) (by omega)
        rw [showAt_of_le T 0 _ (Nat.zero_le _)] at h0 h1
        simp only [flat, List.append_assoc, List.cons_append, List.nil_append]
        rw [run_max, twoArgs, h0]
        simp only
        rw [h1])
    exact ⟨hA, fun M hM _ => PC_of_PA T _ hA M hM (by simp [lvlE]; omega)⟩
  | un u x ih =>
    intro hl
    obtain ⟨ihA, _⟩ := ih (by simpa [Expr.lit] using hl)
    have hA : PA T (.un u x) := PA_of_top T _ (need T x + 1) (by simp [lvlE]) (by simp [need]; omega) (by omega)
      (fun rest => by
        have h0 := ihA T.nl (Nat.le_refl _) rest (stops_nl hwf rest) (need T x) (Nat.le_refl _)
        simp only [flat, List.cons_append]
        rw [run_un]
        change mapFst (Expr.un u) (run T (need T x) (Mode.at T.nl) (showAt T T.nl x ++ rest)) = _
        rw [h0]; rfl)
    exact ⟨hA, fun M hM _ => PC_of_PA T _ hA M hM (by simp [lvlE]; omega)⟩
  | bin o a b iha ihb =>
    intro hl
    simp only [Expr.lit, Bool.and_eq_true] at hl
    obtain ⟨aA, aC⟩ := iha hl.1
    obtain ⟨bA, _⟩ := ihb hl.2
    have hM : T.lvl o < T.nl := hwf o
    have hnb := need_pos T b
    have hna := need_pos T a
    have hflat : ∀ rest, flat T (.bin o a b) ++ rest =
        showAt T (if T.loops (T.lvl o) then T.lvl o else T.lvl o + 1) a ++
          .bop o :: (showAt T (T.lvl o + 1) b ++ rest) := by
      intro rest
      simp only [flat, showAt, List.append_assoc, List.cons_append, List.nil_append]
    -- continuing the level loop with `a` on the left and `o b` ahead yields the node
    have hloop : ∀ rest g res, Stops T (T.lvl o + 1) rest → 1 ≤ g →
        (if T.loops (T.lvl o) = true then run T g (.loop (T.lvl o) (.bin o a b)) rest
          else some (.bin o a b, rest)) = some res →
        run T (need T b + g + 1) (.loop (T.lvl o) a) (.bop o :: (showAt T (T.lvl o + 1) b ++ rest)) = some res := by
      intro rest g res hs hg hres
      rw [run_loop_op T _ _ _ _ _ rfl, bA (T.lvl o + 1) (by omega) rest hs (need T b + g) (by omega)]
      simp only
      by_cases hlo : T.loops (T.lvl o) = true
      · simp only [hlo, if_true] at hres ⊢
        exact run_mono T (by omega) hres
      · simp only [hlo] at hres ⊢
        exact hres
    -- the text of the node parsed at its own level
    have hAtM : ∀ rest, (∀ o' r, rest = .bop o' :: r → T.lvl o' ≠ T.lvl o) → Stops T (T.lvl o + 1) rest →
        ∀ f, need T a + need T b + 3 ≤ f →
        run T f (.at (T.lvl o)) (flat T (.bin o a b) ++ rest) = some (.bin o a b, rest) := by
      intro rest hne hs f hf
      have hl1 := hloop rest 1 (.bin o a b, rest) hs (Nat.le_refl _) (by
        by_cases hlo : T.loops (T.lvl o) = true
        · simp only [hlo, if_true]; exact run_loop_stop T 0 _ _ _ hne
        · simp only [hlo]; rfl)
      rw [hflat]
      by_cases hlo : T.loops (T.lvl o) = true
      · rw [if_pos hlo]
        exact aC (T.lvl o) hM hlo _ _ _ (stops_bop T o _) (by omega) hl1 f (by omega)
      · rw [if_neg hlo]
        obtain ⟨f', rfl⟩ : ∃ f', f = f' + 1 := ⟨f - 1, by omega⟩
        rw [run_at_lt T _ _ _ hM, aA (T.lvl o + 1) (by omega) _ (stops_bop T o _) f' (by omega)]
        exact run_mono T (by omega) hl1
    have hA : PA T (.bin o a b) := by
      intro L hL rest hs f hf
      have hf' : need T a + need T b + (2 * T.nl + 6) ≤ f := hf
      by_cases hLM : L ≤ T.lvl o
      · rw [showAt_of_le T L _ (by simpa [lvlE] using hLM)]
        have h1 := hAtM rest (fun o' r hr => Nat.ne_of_lt (Nat.lt_of_lt_of_le (hs o' r hr) hLM))
          (hs.mono (by omega)) (need T a + need T b + 3) (Nat.le_refl _)
        have h2 := descend T _ rest _ (T.lvl o - L) L (T.lvl o) _ (by omega) (by omega) (by omega) hs h1
        exact run_mono T (by omega) h2
      · rw [showAt_of_lt T L _ (by simp only [lvlE]; omega)]
        have h1 := hAtM (.rparen :: rest) (by intro o' r hr; cases hr) (stops_rparen T _ rest)
          (need T a + need T b + 3) (Nat.le_refl _)
        have h2 := descend T _ (.rparen :: rest) _ (T.lvl o) 0 (T.lvl o) _ (by omega) (by omega) (by omega)
          (stops_rparen T 0 rest) h1
        have h3 : run T (need T a + need T b + 3 + T.lvl o + 1) (.at T.nl)
            (.lparen :: (flat T (.bin o a b) ++ [.rparen]) ++ rest) = some (.bin o a b, rest) := by
          simp only [List.append_assoc, List.cons_append, List.nil_append]
          rw [run_lparen, oneArg, h2]; rfl
        have h4 := descend T _ rest _ (T.nl - L) L T.nl _ (by omega) (Nat.le_refl _) (by omega) hs h3
        exact run_mono T (by omega) h4
    refine ⟨hA, ?_⟩
    intro M' hM' hlo'
    by_cases hMM : T.lvl o = M'
    · subst hMM
      intro rest g res hs hg hres f hf
      have hf' : need T a + need T b + (2 * T.nl + 6) + g ≤ f := hf
      rw [showAt_of_le T _ _ (by simp [lvlE]), hflat, if_pos hlo']
      have hl1 := hloop rest g res hs hg (by simp only [hlo', if_true]; exact hres)
      exact aC (T.lvl o) hM hlo' _ _ _ (stops_bop T o _) (by omega) hl1 f (by omega)
    · exact PC_of_PA T _ hA M' hM' (by simpa [lvlE] using hMM)

/-! ### Fuel bound and the top-level theorems -/

def size : Expr → Nat
  | .bin _ a b => size a + size b + 1
  | .un _ e => size e + 1
  | .align e => size e + 1
  | .min a b => size a + size b + 1
  | .max a b => size a + size b + 1
  | _ => 1

theorem need_eq (T : Table) (e : Expr) : need T e = size e * (2 * T.nl + 6) := by
  induction e <;> simp only [need, size, Nat.add_mul, Nat.one_mul, *]

theorem length_paren (b : Bool) (ts : List Tok) : ts.length ≤ (paren b ts).length := by
  cases b <;> simp [paren] <;> omega

theorem size_le_length (T : Table) (e : Expr) : size e ≤ (flat T e).length := by
  induction e with
  | bin o a b iha ihb =>
    have h1 := length_paren (decide (lvlE T a < (if T.loops (T.lvl o) then T.lvl o else T.lvl o + 1))) (flat T a)
    have h2 := length_paren (decide (lvlE T b < T.lvl o + 1)) (flat T b)
    simp only [flat, size, List.length_append, List.length_cons, List.length_nil]
    omega
  | un o e ih =>
    have h1 := length_paren (decide (lvlE T e < T.nl)) (flat T e)
    simp only [flat, size, List.length_cons]
    omega
  | align e ih => simp only [flat, size, List.length_append, List.length_cons, List.length_nil]; omega
  | min a b iha ihb => simp only [flat, size, List.length_append, List.length_cons, List.length_nil]; omega
  | max a b iha ihb => simp only [flat, size, List.length_append, List.length_cons, List.length_nil]; omega
  | num v => simp [flat, size]
  | sym s => simp [flat, size]
  | dot => simp [flat, size]
  | fn1 k s => simp [flat, size]

theorem need_le_fuel (T : Table) (e : Expr) : need T e ≤ fuelFor T (flat T e) := by
  rw [need_eq, fuelFor]
  exact Nat.mul_le_mul_right _ (Nat.le_succ_of_le (size_le_length T e))

/-- **Main parser theorem**, for every precedence table: the climber driven by `T` parses the
minimally parenthesised text of every literal tree back to exactly that tree. So the climber
implements precisely the precedence and associativity that `T` states (induction on trees; no bound
on size or depth). -/
theorem parse_pretty_generic (T : Table) (hwf : T.WF) (e : Expr) (hl : e.lit = true) :
    parseToks T (pretty T e) = some e := by
  have h := (roundtrip_main T hwf e hl).1 0 (Nat.zero_le _) [] (stops_nil T 0) _ (need_le_fuel T e)
  rw [showAt_of_le T 0 e (Nat.zero_le _), List.append_nil] at h
  simp only [parseToks, pretty, h]

theorem wildTable_wf : wildTable.WF := by intro o; cases o <;> decide
theorem cTable_wf : cTable.WF := by intro o; cases o <;> decide

/-- wild's parser implements exactly `wildTable` (the order of its functions). -/
theorem parse_pretty_wild (e : Expr) (hl : e.lit = true) :
    parseToks wildTable (pretty wildTable e) = some e :=
  parse_pretty_generic wildTable wildTable_wf e hl

/-- The reference parser implements exactly the C / ldgram.y table. -/
theorem refParse_pretty (e : Expr) (hl : e.lit = true) : refParse (pretty cTable e) = some e :=
  parse_pretty_generic cTable cTable_wf e hl

/-- Full-strength statement: wild's parser gives every tree its C / GNU ld reading. FALSE. -/
def C16_parse_full : Prop :=
  ∀ e : Expr, e.lit = true → parseToks wildTable (pretty cTable e) = some e

/-- `1 | 2 == 2` is `1 | (2 == 2)` in C and GNU ld; wild reads `(1 | 2) == 2`. -/
theorem parse_ref_witness : ¬ C16_parse_full := by
  intro h
  have h1 := h (.bin .bor (.num 1#64) (.bin .eq (.num 2#64) (.num 2#64))) rfl
  have h2 := parse_pretty_wild (.bin .eq (.bin .bor (.num 1#64) (.num 2#64)) (.num 2#64)) rfl
  have h3 : pretty cTable (.bin .bor (.num 1#64) (.bin .eq (.num 2#64) (.num 2#64))) =
      pretty wildTable (.bin .eq (.bin .bor (.num 1#64) (.num 2#64)) (.num 2#64)) := by decide
  rw [h3, h2] at h1
  cases h1

def isCmp : BinOp → Bool
  | .eq | .ne | .lt | .gt | .le | .ge => true
  | _ => false

/-- Trees without comparison operators. -/
def noCmp : Expr → Bool
  | .bin o a b => !isCmp o && noCmp a && noCmp b
  | .un _ e | .align e => noCmp e
  | .min a b | .max a b => noCmp a && noCmp b
  | _ => true

theorem wild_loops_of_not_cmp (o : BinOp) (h : isCmp o = false) :
    wildTable.loops (wildTable.lvl o) = true := by cases o <;> first | rfl | cases h

theorem lvl_lt_iff_of_not_cmp (o o' : BinOp) (ho : isCmp o = false) (ho' : isCmp o' = false) :
    decide (cTable.lvl o' < cTable.lvl o) = decide (wildTable.lvl o' < wildTable.lvl o) ∧
    decide (cTable.lvl o' < cTable.lvl o + 1) = decide (wildTable.lvl o' < wildTable.lvl o + 1) := by
  cases o <;> simp only [isCmp, Bool.true_eq_false] at ho <;> cases o' <;>
    simp only [isCmp, Bool.true_eq_false] at ho' <;> exact ⟨rfl, rfl⟩

theorem nl_not_lt_lvl (o : BinOp) :
    decide (cTable.nl < cTable.lvl o) = decide (wildTable.nl < wildTable.lvl o) ∧
    decide (cTable.nl < cTable.lvl o + 1) = decide (wildTable.nl < wildTable.lvl o + 1) ∧
    decide (cTable.nl + 1 < cTable.lvl o) = decide (wildTable.nl + 1 < wildTable.lvl o) ∧
    decide (cTable.nl + 1 < cTable.lvl o + 1) = decide (wildTable.nl + 1 < wildTable.lvl o + 1) := by
  cases o <;> exact ⟨rfl, rfl, rfl, rfl⟩

theorem paren_dec_eq (o : BinOp) (c : Expr) (ho : isCmp o = false) (hc : noCmp c = true) :
    decide (lvlE cTable c < cTable.lvl o) = decide (lvlE wildTable c < wildTable.lvl o) ∧
    decide (lvlE cTable c < cTable.lvl o + 1) = decide (lvlE wildTable c < wildTable.lvl o + 1) := by
  have hn := nl_not_lt_lvl o
  cases c with
  | bin o' a b =>
    have ho' : isCmp o' = false := by
      simp only [noCmp, Bool.and_eq_true, Bool.not_eq_true'] at hc; exact hc.1.1
    exact lvl_lt_iff_of_not_cmp o o' ho ho'
  | un u e => exact ⟨hn.1, hn.2.1⟩
  | num v => exact ⟨hn.2.2.1, hn.2.2.2⟩
  | sym s => exact ⟨hn.2.2.1, hn.2.2.2⟩
  | dot => exact ⟨hn.2.2.1, hn.2.2.2⟩
  | fn1 k s => exact ⟨hn.2.2.1, hn.2.2.2⟩
  | align e => exact ⟨hn.2.2.1, hn.2.2.2⟩
  | min a b => exact ⟨hn.2.2.1, hn.2.2.2⟩
  | max a b => exact ⟨hn.2.2.1, hn.2.2.2⟩

theorem paren_un_eq (c : Expr) (hc : noCmp c = true) :
    decide (lvlE cTable c < cTable.nl) = decide (lvlE wildTable c < wildTable.nl) := by
  cases c with
  | bin o' a b => cases o' <;> rfl
  | _ => rfl

/-- Without comparison operators the C-minimal text and wild's minimal text coincide: wild's
relative order of `|| && | ^ & << >> + - * /` and the unary operators is the C order. -/
theorem pretty_c_eq_wild_of_noCmp (e : Expr) (h : noCmp e = true) : pretty cTable e = pretty wildTable e := by
  unfold pretty
  induction e with
  | bin o a b iha ihb =>
    simp only [noCmp, Bool.and_eq_true, Bool.not_eq_true'] at h
    obtain ⟨⟨ho, ha⟩, hb⟩ := h
    have hw := wild_loops_of_not_cmp o ho
    have hc : cTable.loops (cTable.lvl o) = true := rfl
    simp only [flat, hw, hc, if_true, iha ha, ihb hb, (paren_dec_eq o a ho ha).1, (paren_dec_eq o b ho hb).2]
  | un u e ih =>
    simp only [noCmp] at h
    simp only [flat, ih h, paren_un_eq e h]
  | align e ih => simp only [noCmp] at h; simp only [flat, ih h]
  | min a b iha ihb =>
    simp only [noCmp, Bool.and_eq_true] at h
    simp only [flat, iha h.1, ihb h.2]
  | max a b iha ihb =>
    simp only [noCmp, Bool.and_eq_true] at h
    simp only [flat, iha h.1, ihb h.2]
  | num v => rfl
  | sym s => rfl
  | dot => rfl
  | fn1 k s => rfl

/-- Partial parser theorem: on every literal tree whose C-minimal text is also wild's minimal text —
in particular (`pretty_c_eq_wild_of_noCmp`) every tree without comparison operators, however deep —
wild's parser and the reference parser agree and both return the tree. The excluded region is
exactly: a comparison next to `| ^ &` or next to another comparison. -/
theorem parse_eq_ref_partial (e : Expr) (hl : e.lit = true)
    (h : pretty cTable e = pretty wildTable e) :
    parseToks wildTable (pretty cTable e) = refParse (pretty cTable e) ∧
    parseToks wildTable (pretty cTable e) = some e := by
  rw [refParse_pretty e hl, h, parse_pretty_wild e hl]
  exact ⟨rfl, rfl⟩

theorem parse_eq_ref_noCmp (e : Expr) (hl : e.lit = true) (h : noCmp e = true) :
    parseToks wildTable (pretty cTable e) = some e :=
  (parse_eq_ref_partial e hl (pretty_c_eq_wild_of_noCmp e h)).2

/-- Totality: the lexer and the climber are total functions (structural recursion on fuel; Lean
accepts the definitions), every input yields `some tree` or `none`, and (`run_mono`) a successful
parse is independent of the amount of fuel beyond what it needed. -/
theorem parse_total (cs : List Char) : (∃ e, parse cs = some e) ∨ parse cs = none := by
  cases h : parse cs with
  | none => right; rfl
  | some e => left; exact ⟨e, rfl⟩

/-! Non-vacuity. -/
example : parseToks wildTable (pretty wildTable
    (.bin .sub (.bin .sub (.num 10#64) (.num 3#64)) (.bin .mul (.num 2#64) (.un .neg (.num 1#64))))) =
    some (.bin .sub (.bin .sub (.num 10#64) (.num 3#64)) (.bin .mul (.num 2#64) (.un .neg (.num 1#64)))) :=
  parse_pretty_wild _ rfl
example : pretty cTable (.bin .mul (.bin .add (.num 1#64) (.num 2#64)) (.num 3#64)) =
    [.lparen, .num 1#64, .bop .add, .num 2#64, .rparen, .bop .mul, .num 3#64] := by decide
example : noCmp (.bin .lor (.bin .shl (.num 1#64) (.num 2#64)) (.min (.num 1#64) (.un .bnot (.num 0#64)))) = true := rfl

end Wild.Expr
