import WildModel.Model.Expr
/-!
# C16 — reference side (definitions only; core-only imports so that the driver can evaluate them)

Written independently of the model of wild's code:

* `cTable`: the operator precedence / associativity table of GNU ld's grammar (`ld/ldgram.y`):
  ```
  %right '?' ':'      (not supported by wild)
  %left OROR
  %left ANDAND
  %left '|'
  %left '^'
  %left '&'
  %left EQ NE
  %left '<' '>' LE GE
  %left LSHIFT RSHIFT
  %left '+' '-'
  %left '*' '/' '%'   ('%' not supported by wild)
  %right UNARY
  ```
* `gnuEval`: the values `ld/ldexp.c` (`fold_binary`, `fold_unary`) computes on `bfd_vma` = 64-bit
  unsigned: wrapping `+ - *`; `/` on `bfd_signed_vma` (C division, truncating; "/ by zero" is a fatal
  error; `INT64_MIN / -1` makes ld 2.40 die with SIGFPE: no value); `<< >>` on `bfd_vma` with the
  hardware's count-mod-64 behaviour (ld 2.40 on x86-64); unsigned comparisons, `MIN`/`MAX`;
  `&& ||` evaluate BOTH operands (an error in either is an error); `ALIGN(n)` with the location
  counter at 0 is 0 for every `n` including 0. Each clause was checked against /usr/bin/ld 2.40 with
  `ASSERT` scripts (see vlib/props/c16.py, oracle step, which re-validates on every run).
* `pretty T e`: token list of `e` with the minimal parentheses that table `T` requires.
-/
namespace Wild.Expr

/-- Reference precedence table (C / ldgram.y): all levels left-associative. -/
def cTable : Table where
  nl := 10
  lvl
    | .lor => 0 | .land => 1 | .bor => 2 | .bxor => 3 | .band => 4
    | .eq => 5 | .ne => 5
    | .lt => 6 | .gt => 6 | .le => 6 | .ge => 6
    | .shl => 7 | .shr => 7 | .add => 8 | .sub => 8 | .mul => 9 | .div => 9
  loops _ := true

def gnuBool (b : Bool) : BitVec 64 := if b then 1#64 else 0#64

/-- C's `(int64_t) a / (int64_t) b` for `b ≠ 0` and not `INT64_MIN / -1`. -/
def cSignedDiv (a b : BitVec 64) : BitVec 64 := BitVec.ofInt 64 (Int.tdiv a.toInt b.toInt)

/-- Value of a binary operator in GNU ld; `none` = no value (fatal error / crash). -/
def gnuBin : BinOp → BitVec 64 → BitVec 64 → Option (BitVec 64)
  | .add, a, b => some (BitVec.ofNat 64 (a.toNat + b.toNat))
  | .sub, a, b => some (BitVec.ofInt 64 ((a.toNat : Int) - (b.toNat : Int)))
  | .mul, a, b => some (BitVec.ofNat 64 (a.toNat * b.toNat))
  | .div, a, b =>
    if b = 0#64 then none
    else if a = BitVec.intMin 64 ∧ b = -1#64 then none
    else some (cSignedDiv a b)
  | .lt, a, b => some (gnuBool (decide (a.toNat < b.toNat)))
  | .gt, a, b => some (gnuBool (decide (a.toNat > b.toNat)))
  | .le, a, b => some (gnuBool (decide (a.toNat ≤ b.toNat)))
  | .ge, a, b => some (gnuBool (decide (a.toNat ≥ b.toNat)))
  | .eq, a, b => some (gnuBool (decide (a = b)))
  | .ne, a, b => some (gnuBool (decide (a ≠ b)))
  | .band, a, b => some (a &&& b)
  | .bor, a, b => some (a ||| b)
  | .bxor, a, b => some (a ^^^ b)
  | .shl, a, b => some (a <<< (b.toNat % 64))
  | .shr, a, b => some (a >>> (b.toNat % 64))
  | .land, a, b => some (gnuBool (decide (a ≠ 0#64 ∧ b ≠ 0#64)))
  | .lor, a, b => some (gnuBool (decide (a ≠ 0#64 ∨ b ≠ 0#64)))

def gnuUn : UnOp → BitVec 64 → BitVec 64
  | .lnot, a => gnuBool (decide (a = 0#64))
  | .bnot, a => BitVec.ofNat 64 (2 ^ 64 - 1 - a.toNat)
  | .neg, a => BitVec.ofInt 64 (-(a.toNat : Int))

/-- GNU ld's value of an expression over numeric literals (location counter 0); `none` when ld
reports an error / has no value, and for nodes outside the literal fragment. -/
def gnuEval : Expr → Option (BitVec 64)
  | .num v => some v
  | .sym _ => none
  | .dot => none
  | .fn1 _ _ => none
  | .align e => (gnuEval e).map (fun _ => 0#64)
  | .min a b =>
    match gnuEval a, gnuEval b with
    | some x, some y => some (if x.toNat ≤ y.toNat then x else y)
    | _, _ => none
  | .max a b =>
    match gnuEval a, gnuEval b with
    | some x, some y => some (if x.toNat ≥ y.toNat then x else y)
    | _, _ => none
  | .un o e => (gnuEval e).map (gnuUn o)
  | .bin o a b =>
    match gnuEval a, gnuEval b with
    | some x, some y => gnuBin o x y
    | _, _ => none

/-- Trees over numeric literals and the supported operators / functions (the property's domain). -/
def Expr.lit : Expr → Bool
  | .num _ => true
  | .sym _ | .dot | .fn1 _ _ => false
  | .align e | .un _ e => e.lit
  | .min a b | .max a b | .bin _ a b => a.lit && b.lit

/-! ## Printing with minimal parentheses -/

/-- Precedence level of the root of a tree under table `T`: a binary node has its operator's level,
a unary operator `nl`, everything else (numbers, functions) `nl + 1`. -/
def lvlE (T : Table) : Expr → Nat
  | .bin o _ _ => T.lvl o
  | .un _ _ => T.nl
  | _ => T.nl + 1

def unTok : UnOp → Tok
  | .lnot => .bang | .bnot => .tilde | .neg => .bop .sub

def fn1Ident : Fn1 → String
  | .sizeof => "SIZEOF" | .alignof => "ALIGNOF" | .origin => "ORIGIN" | .length => "LENGTH"
  | .addr => "ADDR" | .loadaddr => "LOADADDR"

def paren (b : Bool) (ts : List Tok) : List Tok :=
  if b then [.lparen] ++ ts ++ [.rparen] else ts

/-- Tokens of `e` without outer parentheses; an operand is parenthesised iff its root binds looser
than its position requires (left operand of a left-associative level `l`: `≥ l`; right operand, and
both operands of a non-associative level: `≥ l + 1`; operand of a unary operator: `≥ nl`). -/
def flat (T : Table) : Expr → List Tok
  | .num v => [.num v]
  | .sym s => [.ident s]
  | .dot => [.ident "."]
  | .fn1 k s => [.ident (fn1Ident k), .lparen, .ident s, .rparen]
  | .align e => [.ident "ALIGN", .lparen] ++ flat T e ++ [.rparen]
  | .min a b => [.ident "MIN", .lparen] ++ flat T a ++ [.comma] ++ flat T b ++ [.rparen]
  | .max a b => [.ident "MAX", .lparen] ++ flat T a ++ [.comma] ++ flat T b ++ [.rparen]
  | .un o e => unTok o :: paren (decide (lvlE T e < T.nl)) (flat T e)
  | .bin o a b =>
    paren (decide (lvlE T a < (if T.loops (T.lvl o) then T.lvl o else T.lvl o + 1))) (flat T a)
      ++ [.bop o] ++ paren (decide (lvlE T b < T.lvl o + 1)) (flat T b)

/-- Tokens of `e` as an operand in a position that requires level `≥ L`. -/
def showAt (T : Table) (L : Nat) (e : Expr) : List Tok := paren (decide (lvlE T e < L)) (flat T e)

/-- The text (token list) of `e` with the minimal parentheses table `T` requires. -/
def pretty (T : Table) (e : Expr) : List Tok := flat T e

/-- The reference parser: the same climbing algorithm driven by the reference table. -/
def refParse (ts : List Tok) : Option Expr := parseToks cTable ts

end Wild.Expr
