import WildModel.Model.ProcSpec
import Std.Tactic.BVDecide
/-!
# C17 — The exit status reflects whether the output was written

Spec side (`Model/ProcSpec.lean`, core-only so that the driver can print it; independent of the
code model): `outputComplete sc` says whether the write phase of the
link (contents, flush, chmod, unmap) had finished in the scenario — it only looks at *where* the
fault struck, never at what the parent computes. The property: for every setup (no-fork, pipe
failure, fork failure, fork), every fault kind (error, panic, abort, allocation failure, any signal
1..64 with or without core dump) and every fault location, the invoker sees exit status 0 only if
the output was completely written; and every failure before the worker reports "done" gives a
non-zero status. No-fork mode: exit status 0 iff `run` returned `Ok`.

`topEnd` is the code after fix `c17-wifexited`; `topEndOld` is the code before it, for which the
property is false (`old_killed_witness`, the defect reproduced on the real binary by the check).
-/
namespace Wild.Proc

/-! ### Wait-status facts (validation of the macro transcriptions against the kernel encoding) -/

theorem exited_roundtrip (code : BitVec 32) :
    WIFEXITED (End.exited code).status = true ∧
    WIFSIGNALED (End.exited code).status = false ∧
    WEXITSTATUS (End.exited code).status = code &&& 0xff := by
  simp only [End.status, W_EXITCODE, WIFEXITED, WIFSIGNALED, WEXITSTATUS]
  refine ⟨?_, ?_, ?_⟩ <;> bv_decide

private theorem sig_bounds {sig : BitVec 32} (h : validSig sig = true) : 1#32 ≤ sig ∧ sig ≤ 64#32 := by
  simp only [validSig, decide_eq_true_eq] at h
  obtain ⟨h1, h2⟩ := h
  exact ⟨by simpa [BitVec.le_def] using h1, by simpa [BitVec.le_def] using h2⟩

theorem signaled_roundtrip (sig : BitVec 32) (core : Bool) (h : validSig sig = true) :
    WIFEXITED (End.signaled sig core).status = false ∧
    WIFSIGNALED (End.signaled sig core).status = true ∧
    WTERMSIG (End.signaled sig core).status = sig ∧
    WCOREDUMP (End.signaled sig core).status = core := by
  obtain ⟨hl, hu⟩ := sig_bounds h
  simp only [End.status, WIFEXITED, WIFSIGNALED, WTERMSIG, WCOREDUMP]
  cases core <;> (refine ⟨?_, ?_, ?_, ?_⟩ <;> bv_decide)

/-- The pre-fix mapping: `WEXITSTATUS` of any signalled status is 0. -/
theorem old_code_of_signal (sig : BitVec 32) (core : Bool) (h : validSig sig = true) :
    waitCodeOld (End.signaled sig core).status = 0 := by
  obtain ⟨hl, hu⟩ := sig_bounds h
  simp only [waitCodeOld, WEXITSTATUS, End.status]
  cases core <;> bv_decide

/-- The fixed mapping sends a signalled status to `128 + sig`. -/
theorem code_of_signal (sig : BitVec 32) (core : Bool) (h : validSig sig = true) :
    waitCode (End.signaled sig core).status = 128 + sig := by
  obtain ⟨he, hs, ht, _⟩ := signaled_roundtrip sig core h
  simp [waitCode, he, hs, ht]

theorem code_of_exit (code : BitVec 32) :
    waitCode (End.exited code).status = code &&& 0xff := by
  obtain ⟨he, _, hx⟩ := exited_roundtrip code
  simp [waitCode, he, hx]

/-- `exit(c)` is seen as exit status 0 iff the low byte of `c` is 0. -/
theorem exitZero_exited (code : BitVec 32) :
    exitZero (.exited code) = (code &&& 0xff == 0) := by
  obtain ⟨he, _, hx⟩ := exited_roundtrip code
  simp [exitZero, he, hx]

theorem exitZero_signaled (sig : BitVec 32) (core : Bool) (h : validSig sig = true) :
    exitZero (.signaled sig core) = false := by
  obtain ⟨he, _⟩ := signaled_roundtrip sig core h
  simp [exitZero, he]

/-- A process struck by any fault never looks like a clean exit. -/
theorem kind_end_nonzero (k : Kind) (h : k.wf = true) : exitZero k.end = false := by
  cases k with
  | error => simp [Kind.end, reportErrorAndExit, exitZero_exited]
  | panic => simp [Kind.end, exitZero_exited]
  | abort c => exact exitZero_signaled _ _ (by decide)
  | oom c => exact exitZero_signaled _ _ (by decide)
  | signal s c => exact exitZero_signaled _ _ h

/-- The exit code the (fixed) parent derives from a child that died of fault `k` without the byte
is non-zero modulo 256. -/
theorem waitCode_kind_nonzero (k : Kind) (h : k.wf = true) :
    exitZero (.exited (waitCode k.end.status)) = false := by
  rw [exitZero_exited]
  cases k with
  | error => simp [Kind.end, reportErrorAndExit, code_of_exit]
  | panic => simp [Kind.end, code_of_exit]
  | abort c => rw [Kind.end, code_of_signal SIGABRT c (by decide)]; decide
  | oom c => rw [Kind.end, code_of_signal SIGABRT c (by decide)]; decide
  | signal s c =>
    have hv : validSig s = true := h
    obtain ⟨hl, hu⟩ := sig_bounds hv
    simp only [Kind.end, code_of_signal s c hv, beq_eq_false_iff_ne, ne_eq]
    bv_decide

/-! ### The property -/

/-- Every failure before the worker reports "done" yields a non-zero exit status (all setups, all
fault kinds, all locations). -/
theorem failure_implies_nonzero (sc : Scenario) (hwf : sc.wf = true)
    (hf : failedBeforeDone sc = true) : exitZero (topEnd sc) = false := by
  obtain ⟨setup, fault⟩ := sc
  cases fault with
  | none =>
    cases setup <;> simp [failedBeforeDone] at hf
    simp [topEnd, topEndWith, reportErrorAndExit, exitZero_exited]
  | some f =>
    have hk : f.kind.wf = true := by simpa [Scenario.wf] using hwf
    cases setup with
    | noFork => simpa [topEnd, topEndWith, inProcess] using kind_end_nonzero f.kind hk
    | forkFailed => simpa [topEnd, topEndWith, inProcess] using kind_end_nonzero f.kind hk
    | pipeFailed => simp [topEnd, topEndWith, reportErrorAndExit, exitZero_exited]
    | forked =>
      have hl : (f.loc == Loc.afterInform) = false := by
        simpa [failedBeforeDone] using hf
      simpa [topEnd, topEndWith, waitForChildDone, child, hl] using waitCode_kind_nonzero f.kind hk

/-- **C17.** Exit status 0 only if the output file was completely written: for all setups
(no-fork / pipe failure / fork failure / fork), all fault kinds and all fault locations. -/
theorem exit_zero_implies_written (sc : Scenario) (hwf : sc.wf = true)
    (h0 : exitZero (topEnd sc) = true) : outputComplete sc = true := by
  cases hfb : failedBeforeDone sc with
  | true => rw [failure_implies_nonzero sc hwf hfb] at h0; cases h0
  | false =>
    obtain ⟨setup, fault⟩ := sc
    cases fault with
    | none => cases setup <;> simp_all [failedBeforeDone, outputComplete]
    | some f =>
      cases setup <;> simp [failedBeforeDone] at hfb
      simp [outputComplete, hfb, Loc.written]

/-- No-fork mode: exit status 0 iff `run` returned `Ok`. -/
theorem nofork_exit_zero_iff_run_ok (fault : Option Fault) (hwf : (Scenario.mk .noFork fault).wf = true) :
    exitZero (topEnd ⟨.noFork, fault⟩) = true ↔ runOk ⟨.noFork, fault⟩ = true := by
  cases fault with
  | none => simp [topEnd, topEndWith, inProcess, runOk, exitZero_exited]
  | some f =>
    have hk : f.kind.wf = true := by simpa [Scenario.wf] using hwf
    simp [topEnd, topEndWith, inProcess, runOk, kind_end_nonzero f.kind hk]

/-- Fork-failure fallback behaves like no-fork. -/
theorem forkfailed_exit_zero_iff_run_ok (fault : Option Fault) (hwf : (Scenario.mk .forkFailed fault).wf = true) :
    exitZero (topEnd ⟨.forkFailed, fault⟩) = true ↔ runOk ⟨.forkFailed, fault⟩ = true := by
  cases fault with
  | none => simp [topEnd, topEndWith, inProcess, runOk, exitZero_exited]
  | some f =>
    have hk : f.kind.wf = true := by simpa [Scenario.wf] using hwf
    simp [topEnd, topEndWith, inProcess, runOk, kind_end_nonzero f.kind hk]

/-- Fork mode, success: exit 0 and complete. A fault after the done byte cannot be seen by the
parent (it has already exited 0), and the output is complete. -/
theorem forked_done_exit_zero (fault : Option Fault)
    (h : (child fault).byteSent = true) :
    exitZero (topEnd ⟨.forked, fault⟩) = true ∧ outputComplete ⟨.forked, fault⟩ = true := by
  cases fault with
  | none => simp [topEnd, topEndWith, waitForChildDone, child, exitZero_exited, outputComplete]
  | some f =>
    have hl : f.loc = .afterInform := by simpa [child] using h
    simp [topEnd, topEndWith, waitForChildDone, child, exitZero_exited, outputComplete, hl, Loc.written]

/-! ### The code before the fix violates the property -/

/-- Pre-fix code: the worker is killed by SIGKILL (e.g. the OOM killer) before anything was written;
the parent exits 0. This is the scenario the check reproduces on the real binary. -/
theorem old_killed_witness :
    exitZero (topEndOld ⟨.forked, some ⟨.signal SIGKILL false, .inRun false⟩⟩) = true ∧
    outputComplete ⟨.forked, some ⟨.signal SIGKILL false, .inRun false⟩⟩ = false := by
  decide

/-- Pre-fix code: the same for every signal, abort and allocation failure. -/
theorem old_any_signal_exit_zero (sig : BitVec 32) (core : Bool) (loc : Loc) (h : validSig sig = true)
    (hl : loc ≠ .afterInform) :
    exitZero (topEndOld ⟨.forked, some ⟨.signal sig core, loc⟩⟩) = true := by
  have hb : (loc == Loc.afterInform) = false := by simpa using hl
  simp [topEndOld, topEndWith, waitForChildDone, child, hb, Kind.end, old_code_of_signal sig core h,
    exitZero_exited]

/-- Hence the property is false for the pre-fix code. -/
theorem old_violates :
    ¬ (∀ sc : Scenario, sc.wf = true → exitZero (topEndOld sc) = true → outputComplete sc = true) := by
  intro h
  have := h ⟨.forked, some ⟨.signal SIGKILL false, .inRun false⟩⟩ (by decide) old_killed_witness.1
  exact absurd this (by decide)

/-- The pre-fix code was right for every fault that is not a signal (the old `c17_partial`). -/
theorem old_partial (sc : Scenario) (hns : ∀ f, sc.fault = some f → f.kind = .error ∨ f.kind = .panic)
    (h0 : exitZero (topEndOld sc) = true) : outputComplete sc = true := by
  obtain ⟨setup, fault⟩ := sc
  cases fault with
  | none => cases setup <;> simp_all [outputComplete, topEndOld, topEndWith, reportErrorAndExit, exitZero_exited]
  | some f =>
    obtain ⟨kind, loc⟩ := f
    have hk := hns ⟨kind, loc⟩ rfl
    simp only at hk
    rcases hk with rfl | rfl <;> cases setup <;> cases loc <;>
      simp_all [outputComplete, topEndOld, topEndWith, inProcess, waitForChildDone, child, Kind.end,
        reportErrorAndExit, exitZero_exited, Loc.written, waitCodeOld, exited_roundtrip]

/-! ### Non-vacuity -/

example : (Scenario.mk .forked (some ⟨.signal SIGSEGV true, .inRun false⟩)).wf = true := by decide
example : exitZero (topEnd ⟨.forked, none⟩) = true := by decide
example : exitZero (topEnd ⟨.forked, some ⟨.signal SIGKILL false, .inRun false⟩⟩) = false := by decide
example : (topEnd ⟨.forked, some ⟨.signal SIGKILL false, .inRun false⟩⟩).returncode = 137 := by decide
example : (topEnd ⟨.forked, some ⟨.error, .inRun true⟩⟩).returncode = 255 := by decide
example : failedBeforeDone ⟨.forked, some ⟨.panic, .afterRun⟩⟩ = true := by decide

end Wild.Proc
