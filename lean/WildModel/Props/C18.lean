import WildModel.Lemmas.OutputFile
/-!
# C18 — A failed link leaves no output file produced by that link

Spec (written independently of the code model): after a run that exits non-zero, the output path is
either absent, or it still names the inode it named before and that inode is bit-for-bit (and
metadata-wise) what it was.  Quantified over ALL prior file-system states, all write modes
(`--update-in-place`, `--no-update-in-place`, default for executables / shared objects), both
creators (background thread / single-threaded), mmap and no-mmap, all failure points and all
schedules of the background tasks.

* `c18_full`: holds for the working tree (`v1`: `Output` removes what it opened unless committed)
  whenever the output's directory permits `unlink` (premise `dirWritable`).
* `c18_v0_witness`: upstream (`v0`) violated it (kept as the regression record of the fix).
* `c18_partial`: failures before `set_size` never touch anything, in any version, any directory.
* `c18_rodir_witness`: the premise is needed: an in-place update inside a directory that does not
  allow `unlink` cannot be undone (GNU ld has the same limit); recorded as the boundary.
-/
set_option linter.unusedSimpArgs false
namespace Wild.C18
open Wild.Fs Wild.OutputFile

/-- The spec: path `p` holds nothing, or exactly what it held in `s`. -/
def Untouched (s s' : State) (p : Path) : Prop :=
  s'.names p = none ∨ (s'.names p = s.names p ∧ ∀ i, s.names p = some i → s'.inode i = s.inode i)

def C18_for (ver : Version) : Prop :=
  ∀ (s : State) (c : Cfg) (f : FailPoint) (sch : Sched), c.ver = ver → s.dirWritable = true →
    (run s c f sch).ok = false → Untouched s (run s c f sch).fs c.out

def C18_full : Prop := C18_for .v1

theorem untouched_of_create_fail {c : Cfg} {P Q : Prop} {a b : State} {r : Option Ino}
    (h : CreateSpec c P Q a b r) (hr : r = none) : Untouched a b c.out := by
  have := h.fail hr
  rcases this.1 with h1 | h1
  · exact Or.inl h1
  · exact Or.inr ⟨h1, fun i _ => by rw [this.2]⟩

theorem c18_full : C18_full := by
  intro s c f sch hv hd hok
  have hbg := fun m => bgCreate_spec c m sch ⟨s, []⟩ hv
  have hfg := fun m => fgCreate_spec c m ⟨s, []⟩
  -- the part of `run` after the creation
  have tail : ∀ (r : St × Option Ino) (P Q : Prop), CreateSpec c P Q s r.1.fs r.2 →
      (afterCreate c f r).ok = false → Untouched s (afterCreate c f r).fs c.out := by
    intro r P Q hs hokr
    unfold afterCreate at hokr ⊢
    cases hr2 : r.2 with
    | none => simp only; exact untouched_of_create_fail hs hr2
    | some i =>
      simp only [hr2] at hokr ⊢
      exact Or.inl ((finish_spec c f r.1 i).failed hokr hv (by rw [hs.dw, hd]))
  unfold run at hok ⊢
  by_cases h1 : f = .preOutput
  · simp only [h1, if_true]; exact Or.inr ⟨rfl, fun _ _ => rfl⟩
  by_cases h2 : f = .preSetSize
  · simp only [h1, h2, if_true, if_false]; exact Or.inr ⟨rfl, fun _ _ => rfl⟩
  by_cases h3 : f = .postSetSize
  · simp only [h1, h2, h3, if_true, if_false] at hok ⊢
    cases hs : c.single with
    | true => simp only [if_true]; exact Or.inr ⟨rfl, fun _ _ => rfl⟩
    | false =>
      simp only [hv, Bool.false_eq_true, if_false]
      have hsp := hbg (modeOf s c)
      cases hr2 : (bgCreate c (modeOf s c) sch ⟨s, []⟩).2 with
      | none => simp only; exact untouched_of_create_fail hsp hr2
      | some i =>
        simp only
        exact Or.inl ((failOpened_spec c i _).failed (failOpened_ok _ _) hv (by rw [hsp.dw, hd]))
  · simp only [h1, h2, h3, if_false] at hok ⊢
    cases hs : c.single with
    | true =>
      simp only [hs, if_true] at hok ⊢
      exact tail _ _ _ (hfg (modeOf s c)) hok
    | false =>
      simp only [hs, Bool.false_eq_true, if_false] at hok ⊢
      exact tail _ _ _ (hbg (modeOf s c)) hok

/-! ## Upstream (v0) regression witness: relocation error at write time, existing output -/

/-- one existing, writable output file `0 ↦ inode 0`; nothing else -/
def s0 : State := { names := fun p => if p = 0 then some 0 else none, inode := fun _ => {}, nextIno := 1 }
def c0 : Cfg := { out := 0, tmp := 1, ver := .v0 }

theorem c18_v0_witness : ¬ C18_for .v0 := by
  intro h
  have h1 := h s0 c0 .writeFn {} rfl rfl (by decide)
  rcases h1 with h1 | ⟨_, h3⟩
  · exact absurd h1 (by decide)
  · exact absurd (h3 0 (by decide)) (by decide)

/-- upstream, linker-script ASSERT (after `set_size`) with the background creator: the prior file
was already resized in place -/
theorem c18_v0_assert_witness :
    (run s0 c0 .postSetSize {}).ok = false ∧ (run s0 c0 .postSetSize {}).fs.names 0 = some 0 ∧
    (run s0 c0 .postSetSize {}).fs.inode 0 ≠ s0.inode 0 := by decide

/-- the same inputs on the working tree: the output is gone -/
example : (run s0 { c0 with ver := .v1 } .writeFn {}).fs.names 0 = none := by decide
example : (run s0 { c0 with ver := .v1 } .postSetSize {}).fs.names 0 = none := by decide

/-! ## Partial statement that holds for every version and every directory -/

theorem c18_partial (s : State) (c : Cfg) (f : FailPoint) (sch : Sched)
    (hf : f = .preOutput ∨ f = .preSetSize) :
    (run s c f sch).ok = false ∧ (run s c f sch).fs = s ∧ (run s c f sch).tr = [] := by
  rcases hf with hf | hf <;> subst hf <;> simp [run]

/-! ## Boundary: the directory does not permit `unlink` -/

def sRo : State := { s0 with dirWritable := false }

theorem c18_rodir_witness :
    (run sRo { c0 with ver := .v1 } .writeFn {}).ok = false ∧
    (run sRo { c0 with ver := .v1 } .writeFn {}).fs.names 0 = some 0 ∧
    (run sRo { c0 with ver := .v1 } .writeFn {}).fs.inode 0 ≠ sRo.inode 0 := by decide

/-! ## Non-vacuity: the hypotheses are satisfiable and failures do happen in every mode -/
example : s0.dirWritable = true ∧ (run s0 { c0 with ver := .v1, single := true } .flush {}).ok = false := by decide
example : (run s0 { c0 with ver := .v1 } .none {}).ok = true := by decide

end Wild.C18
