import WildModel.Lemmas.OutputFile
/-!
# C19 — A link touches only its declared outputs

Spec: for every path `p` other than the output, the name `p` denotes the same inode after the run
as before (in particular: not created, not deleted, not replaced) and that inode is unchanged.
All prior states, modes, creators, failure points.  (Side files the user asked for — dependency
file, `.layout`, `.trace`, save-dir — are outside this model: they are written by plain
`File::create` on paths the user named; the run-time check covers them by directory snapshots.)

* `c19_full`: holds for the working tree (v1: hidden per-process temporary name + `link`, which
  never replaces) under the premises: inode numbers in use are below the fresh counter (`WF`), no
  *other* name is a hard link to the output's inode (`NoAlias`; otherwise an in-place update is by
  design visible through the other name, see `c19_hardlink_witness`), the spawned
  `remove_file(tmp)` ran before the process exited (`c19_stray_tmp_witness` otherwise) and
  `tmp ≠ out`.
* `c19_v0_sibling_witness`: upstream destroyed a pre-existing sibling `stem.delete`;
  `c19_v0_out_named_delete_witness`: upstream, output itself named `x.delete`: a *successful* link
  can leave no output at all.
-/
set_option linter.unusedSimpArgs false
namespace Wild.C19
open Wild.Fs Wild.OutputFile

def WF (s : State) : Prop := ∀ p i, s.names p = some i → i < s.nextIno
def NoAlias (s : State) (out : Path) : Prop := ∀ p i, p ≠ out → s.names p = some i → s.names out ≠ some i

/-- the spec for one path -/
def Same (s s' : State) (p : Path) : Prop :=
  s'.names p = s.names p ∧ ∀ i, s.names p = some i → s'.inode i = s.inode i

def C19_for (ver : Version) : Prop :=
  ∀ (s : State) (c : Cfg) (f : FailPoint) (sch : Sched), c.ver = ver → WF s → NoAlias s c.out →
    sch.tmpUnlinkRan = true → c.tmp ≠ c.out →
    ∀ p, p ≠ c.out → Same s (run s c f sch).fs p

def C19_full : Prop := C19_for .v1

theorem same_refl (s : State) (p : Path) : Same s s p := ⟨rfl, fun _ _ => rfl⟩

theorem c19_full : C19_full := by
  intro s c f sch hv hwf hna hrun hne p hp
  have hbg := bgCreate_spec c (modeOf s c) sch ⟨s, []⟩ hv
  have hfg := fgCreate_spec c (modeOf s c) ⟨s, []⟩
  -- after either creator: names of other paths are as before, other paths' inodes unchanged
  have create : ∀ (P Q : Prop) (b : State) (r : Option Ino), CreateSpec c P Q s b r → Q →
      b.names p = s.names p ∧ ∀ i, s.names p = some i → (b.inode i = s.inode i ∧ ∀ i0, r = some i0 → i ≠ i0) := by
    intro P Q b r hs hq
    refine ⟨?_, ?_⟩
    · by_cases hpt : p = c.tmp
      · rw [hpt]; exact hs.tmp hq hne
      · exact hs.names p hp hpt
    · intro i hi
      have hne0 : ∀ i0, r = some i0 → i ≠ i0 := by
        intro i0 hr he
        subst he
        rcases (hs.ok _ hr).2.2 with ⟨h1, _⟩ | h1
        · exact hna p i hp hi h1
        · have := hwf p i hi; rw [h1] at this; exact Nat.lt_irrefl _ this
      refine ⟨?_, hne0⟩
      cases hr : r with
      | none => rw [(hs.fail hr).2]
      | some i0 => exact (hs.ok i0 hr).2.1 i (hne0 i0 hr)
  have tail : ∀ (r : St × Option Ino) (P Q : Prop), CreateSpec c P Q s r.1.fs r.2 → Q →
      Same s (afterCreate c f r).fs p := by
    intro r P Q hs hq
    have hc := create P Q _ _ hs hq
    unfold afterCreate
    cases hr2 : r.2 with
    | none => simp only; exact ⟨hc.1, fun i hi => (hc.2 i hi).1⟩
    | some i0 =>
      simp only
      have ht := finish_spec c f r.1 i0
      exact ⟨by rw [ht.names p hp, hc.1], fun i hi => by rw [ht.inode i ((hc.2 i hi).2 i0 hr2), (hc.2 i hi).1]⟩
  unfold run
  by_cases h1 : f = .preOutput
  · subst h1; exact same_refl s p
  by_cases h2 : f = .preSetSize
  · subst h2; exact same_refl s p
  by_cases h3 : f = .postSetSize
  · simp only [h1, h2, h3, reduceCtorEq, if_true, if_false]
    cases hs : c.single with
    | true => exact same_refl s p
    | false =>
      simp only [hv, Bool.false_eq_true, if_false]
      have hc := create _ _ _ _ hbg hrun
      cases hr2 : (bgCreate c (modeOf s c) sch ⟨s, []⟩).2 with
      | none => simp only; exact ⟨hc.1, fun i hi => (hc.2 i hi).1⟩
      | some i0 =>
        simp only
        have ht := failOpened_spec c i0 (bgCreate c (modeOf s c) sch ⟨s, []⟩).1
        exact ⟨by rw [ht.names p hp, hc.1], fun i hi => by rw [ht.inode i ((hc.2 i hi).2 i0 hr2), (hc.2 i hi).1]⟩
  · simp only [h1, h2, h3, if_false]
    cases hs : c.single with
    | true => simp only [if_true]; exact tail _ _ _ hfg trivial
    | false => simp only [Bool.false_eq_true, if_false]; exact tail _ _ _ hbg hrun

/-! ## Upstream (v0) regression witnesses -/

/-- one existing, writable output file `0 ↦ inode 0`; nothing else -/
def s0 : State := { names := fun p => if p = 0 then some 0 else none, inode := fun _ => {}, nextIno := 1 }

/-- output `0 ↦ inode 0` (the old `x.so`) and an unrelated sibling `1 ↦ inode 1` (`x.delete`) -/
def sSib : State :=
  { names := fun p => if p = 0 then some 0 else if p = 1 then some 1 else none, inode := fun _ => {}, nextIno := 2 }

theorem sSib_wf : WF sSib := by
  intro p i hpi
  show i < 2
  simp only [sSib] at hpi
  split at hpi
  · cases hpi; decide
  · split at hpi
    · cases hpi; decide
    · cases hpi

theorem sSib_noalias : NoAlias sSib 0 := by
  intro p i hp hpi
  show (some 0 : Option Nat) ≠ some i
  simp only [sSib] at hpi
  split at hpi
  · contradiction
  · split at hpi
    · cases hpi; decide
    · cases hpi

/-- upstream: relinking the shared object `x.so` destroys the unrelated file `x.delete` -/
theorem c19_v0_sibling_witness : ¬ C19_for .v0 := by
  intro h
  have h1 := h sSib { out := 0, tmp := 1, shared := true, ver := .v0 } .none {} rfl
    sSib_wf sSib_noalias rfl (by decide) 1 (by decide)
  exact absurd h1.1 (by decide)

/-- the working tree on the same input leaves the sibling alone and leaves no temporary behind -/
example : (run sSib { out := 0, tmp := 5, shared := true } .none {}).fs.names 1 = some 1 ∧
    (run sSib { out := 0, tmp := 5, shared := true } .none {}).fs.names 5 = none := by decide
/-- … even if a file with the temporary's name already exists (`link` fails with EEXIST, fall back
to plain `unlink`): nothing but the output changes -/
example : (run sSib { out := 0, tmp := 1, shared := true } .none {}).fs.names 1 = some 1 ∧
    (run sSib { out := 0, tmp := 1, shared := true } .none {}).tr =
      [.link false, .unlinkOut true, .openOut true none, .ftruncate, .chmod] := by decide

/-- upstream, the output itself is called `x.delete` (`tmp = out`): `rename(x, x)` succeeds, the
spawned `remove_file` runs after the new file was opened — the link "succeeds" with no output. -/
theorem c19_v0_out_named_delete_witness :
    (run s0 { out := 0, tmp := 0, shared := true, ver := .v0 } .none { tmpUnlinkLate := true }).ok = true ∧
    (run s0 { out := 0, tmp := 0, shared := true, ver := .v0 } .none { tmpUnlinkLate := true }).fs.names 0 = none := by
  decide

/-! ## Boundaries of the working tree (premises of `c19_full` that are needed) -/

/-- the process exits before the spawned `remove_file(tmp)` ran: the hidden temporary stays -/
theorem c19_stray_tmp_witness :
    (run sSib { out := 0, tmp := 5, shared := true } .none { tmpUnlinkRan := false }).fs.names 5 = some 0 := by decide

/-- another name is a hard link to the old output and the link updates in place (default for an
existing executable): the other name shows the new bytes ("Any hard links to the file will update
accordingly", args.rs) -/
def sHard : State :=
  { names := fun p => if p = 0 then some 0 else if p = 2 then some 0 else none, inode := fun _ => {}, nextIno := 1 }
theorem c19_hardlink_witness :
    (run sHard { out := 0, tmp := 5 } .none {}).fs.inode 0 ≠ sHard.inode 0 ∧ sHard.names 2 = some 0 := by decide

/-! ## The premise `tmp ≠ out` at the level of file names

`temporary_sibling_path` builds `"." ++ NAME ++ ".wild-old." ++ PID` in the output's directory: it is
longer than `NAME`, so it can never be the output path itself (upstream's
`with_extension("delete")` maps `x.delete` to itself). -/
theorem tmp_name_ne_out (name suffix : List Char) : '.' :: (name ++ suffix) ≠ name := by
  intro h
  have := congrArg List.length h
  simp at this
  omega

/-! ## Non-vacuity -/
example : WF sSib ∧ NoAlias sSib 0 := ⟨sSib_wf, sSib_noalias⟩

end Wild.C19
