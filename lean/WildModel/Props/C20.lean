import WildModel.Model.InputsChanged
/-!
# C20 — Inputs changed during a link make the link fail

Spec: if the content of any input the link read changes between `open` and the end of the link,
the link exits non-zero (`C20_full`).  The code compares modification *time stamps*, so what can be
proved is `c20_partial`: every change that alters the recorded identity (the mtime seen through
the path at verification time differs from the mtime recorded at open time, or the path is gone)
makes the link fail — whatever the linking result was, and the inputs-changed error takes
precedence over the link's own error.  The timestamp granularity `gran` of the file system is a
parameter (runtime fact); the boundary is exact:

* `rewrite_detected_iff`: a rewrite is detected iff it falls into a different clock tick;
* `same_tick_witness` / `c20_full_witness`: a rewrite within the same tick is missed;
* `restore_mtime_witness`: rewrite + `touch -d <old>` is missed at any granularity;
* `replace_by_rename_detected_iff`: a replacement is detected iff the new file's mtime differs;
* `touch_detected_iff`: a pure `touch` (no content change) is reported iff the tick differs
  (a false positive by design).
-/
namespace Wild.C20
open Wild.Fs Wild.InputsChanged

theorem verify_some_of_mem (s : State) (loaded : List Loaded) (l : Loaded) (hm : l ∈ loaded)
    (hv : (verifyOne s l).isSome) : (verify s loaded).isSome := by
  induction loaded with
  | nil => cases hm
  | cons a as ih =>
    unfold verify
    cases ha : verifyOne s a with
    | some e => simp
    | none =>
      simp only
      cases hm with
      | head => rw [ha] at hv; simp at hv
      | tail _ h => exact ih h

theorem verify_ne_ok (s : State) (loaded : List Loaded) (e : Outcome) (h : verify s loaded = some e) :
    e = .inputsChanged ∨ e = .metadataError := by
  induction loaded with
  | nil => simp [verify] at h
  | cons a as ih =>
    unfold verify at h
    cases ha : verifyOne s a with
    | some e' =>
      rw [ha] at h; simp at h; subst h
      unfold verifyOne at ha
      split at ha
      · simp at ha
      · split at ha
        · simp at ha; exact Or.inr ha.symm
        · split at ha
          · simp at ha; exact Or.inl ha.symm
          · simp at ha
    | none => rw [ha] at h; exact ih h

/-- **C20 (partial)**: if at verification time the path of some loaded input (with data) shows a
different mtime than recorded at open, or cannot be `stat`ed, the link does not succeed — for any
link result — and the reported error is the inputs-changed / metadata error, not the link's. -/
theorem c20_partial (s' : State) (loaded : List Loaded) (linkOk : Bool) (l : Loaded)
    (hm : l ∈ loaded) (hd : l.hasData = true) (hch : s'.mtimeOf l.path ≠ some l.recorded) :
    finishLink s' loaded linkOk = .inputsChanged ∨ finishLink s' loaded linkOk = .metadataError := by
  have h1 : (verifyOne s' l).isSome := by
    unfold verifyOne
    simp only [hd, Bool.not_true, Bool.false_eq_true, if_false]
    cases hmt : s'.mtimeOf l.path with
    | none => simp
    | some m =>
      have : m ≠ l.recorded := fun h => hch (by rw [hmt, h])
      simp [this]
  have h2 := verify_some_of_mem s' loaded l hm h1
  unfold finishLink
  cases hv : verify s' loaded with
  | none => rw [hv] at h2; simp at h2
  | some e => simp only; exact verify_ne_ok s' loaded e hv

/-- precedence: a verification failure is the outcome, whatever the link did -/
theorem c20_precedence (s' : State) (loaded : List Loaded) (e : Outcome) (h : verify s' loaded = some e) :
    finishLink s' loaded true = e ∧ finishLink s' loaded false = e := by
  simp [finishLink, h]

/-- no modification: the link's own result stands -/
theorem unchanged_passes (s : State) (p : Path) (l : Loaded) (h : openInput s p = some l) (linkOk : Bool) :
    finishLink s [l] linkOk = if linkOk then .ok else .linkError := by
  unfold openInput at h
  cases hm : s.mtimeOf p with
  | none => rw [hm] at h; simp at h
  | some m =>
    rw [hm] at h; simp at h; subst h
    simp [finishLink, verify, verifyOne, hm]

/-! ## Exact detection boundary per modification kind -/

theorem rewrite_detected_iff (s : State) (p : Path) (i : Ino) (m0 : Nat) (hn : s.names p = some i) :
    finishLink (applyModif s p .rewrite) [{ path := p, recorded := m0 }] true = .inputsChanged ↔
      stamp s.now s.gran ≠ m0 := by
  simp [finishLink, verify, verifyOne, applyModif, hn, State.mtimeOf, State.writeData, State.touchContent]
  by_cases h : stamp s.now s.gran = m0 <;> simp [h]

theorem touch_detected_iff (s : State) (p : Path) (i : Ino) (m0 : Nat) (hn : s.names p = some i) :
    finishLink (applyModif s p .touch) [{ path := p, recorded := m0 }] true = .inputsChanged ↔
      stamp s.now s.gran ≠ m0 := by
  simp [finishLink, verify, verifyOne, applyModif, hn, State.mtimeOf, State.setMtime]
  by_cases h : stamp s.now s.gran = m0 <;> simp [h]

theorem replace_by_rename_detected_iff (s : State) (p src : Path) (i j : Ino) (m0 : Nat)
    (hp : s.names p = some i) (hs : s.names src = some j) (hij : i ≠ j) (hd : s.dirWritable = true) :
    finishLink (applyModif s p (.replaceByRename src)) [{ path := p, recorded := m0 }] true = .inputsChanged ↔
      (s.inode j).mtime ≠ m0 := by
  have hne : ¬ (some i = some j) := by simp [hij]
  have hps : p ≠ src := by
    intro h; subst h; rw [hp] at hs; simp at hs; exact hij hs
  simp [finishLink, verify, verifyOne, applyModif, State.rename, hs, hp, hd, hne, State.mtimeOf, upd, hps]
  by_cases h : (s.inode j).mtime = m0 <;> simp [h]

theorem remove_detected (s : State) (p : Path) (i : Ino) (m0 : Nat) (hp : s.names p = some i)
    (hd : s.dirWritable = true) :
    finishLink (applyModif s p .remove) [{ path := p, recorded := m0 }] true = .metadataError := by
  simp [finishLink, verify, verifyOne, applyModif, State.unlink, hp, hd, State.mtimeOf]

/-! ## Witnesses for the boundary (why only `c20_partial` holds) -/

/-- input `0 ↦ inode 0` written at time 100 on a file system with 10-unit time stamps; now = 105 -/
def sCoarse : State :=
  { names := fun p => if p = 0 then some 0 else none, inode := fun _ => { mtime := 100, size := 8 },
    nextIno := 1, now := 105, gran := 10 }

/-- the full property: any content change of a loaded input makes the link fail -/
def C20_full : Prop :=
  ∀ (s : State) (p : Path) (l : Loaded) (m : Modif), openInput s p = some l →
    contentOf (applyModif s p m) p ≠ contentOf s p → finishLink (applyModif s p m) [l] true ≠ .ok

theorem same_tick_witness :
    openInput sCoarse 0 = some { path := 0, recorded := 100 } ∧
    contentOf (applyModif sCoarse 0 .rewrite) 0 ≠ contentOf sCoarse 0 ∧
    finishLink (applyModif sCoarse 0 .rewrite) [{ path := 0, recorded := 100 }] true = .ok := by decide

theorem c20_full_witness : ¬ C20_full := by
  intro h
  exact h sCoarse 0 { path := 0, recorded := 100 } .rewrite (by decide) (by decide) (by decide)

/-- rewrite, then restore the old time stamp: missed even with 1-unit granularity and a later time -/
theorem restore_mtime_witness :
    let s := { sCoarse with gran := 1, now := 5000 }
    contentOf (applyModif s 0 .rewriteRestore) 0 ≠ contentOf s 0 ∧
    finishLink (applyModif s 0 .rewriteRestore) [{ path := 0, recorded := 100 }] true = .ok := by decide

/-- with fine time stamps (or a later tick) the same rewrite is caught, also when the link itself failed -/
example : finishLink (applyModif { sCoarse with now := 110 } 0 .rewrite) [{ path := 0, recorded := 100 }] false = .inputsChanged := by
  decide
/-- a file without data is skipped by the verification -/
example : finishLink (applyModif { sCoarse with now := 110 } 0 .rewrite) [{ path := 0, hasData := false, recorded := 100 }] true = .ok := by
  decide

end Wild.C20
