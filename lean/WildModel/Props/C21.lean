import WildModel.Lemmas.OutputFile
/-!
# C21 — Relinking never alters a running program or loaded library

Spec: a process `h` holds the inode that the output path names (it `execve`d the previous output,
or has it mapped as a shared library).  With default options and the same output kind as the
previous link, what `h` sees (content identity + size of the inode it holds) is the same after
the relink as before — whatever the thread count, mmap mode, failure point or schedule.  The new
output goes to a new inode (replace) or the open fails with ETXTBSY and wild falls back to
unlink + create.

* `c21_same_kind`: holds for the working tree (v1) when the directory permits `unlink`.
* boundary witnesses (premise "default options / same kind" not met, NOT violations):
  `c21_kind_change_witness` (old output is a mapped shared object, new link writes an executable to
  the same path: updated in place), `c21_update_in_place_witness` (`--update-in-place` on a mapped
  library), `c21_mapped_executable_witness` (an executable that is only *mapped*, e.g. started through
  `ld.so ./prog`, is not protected by ETXTBSY).
* trusted: the kernel refuses `open(O_RDWR)` on an inode that is being executed (ETXTBSY) and
  never recycles an inode number while a process holds it (`h.ino < nextIno`, fresh inodes are
  `≥ nextIno`).
-/
set_option linter.unusedSimpArgs false
namespace Wild.C21
open Wild.Fs Wild.OutputFile

/-- same kind as the previous link: a shared object is held by mapping, an executable by `execve` -/
def SameKind (c : Cfg) (h : Holder) : Prop :=
  (c.shared = true ∧ h.kind = .mapped) ∨ (c.shared = false ∧ h.kind = .executing)

theorem executing_of_mem (s : State) (h : Holder) (hm : h ∈ s.holders) (hk : h.kind = .executing) :
    s.executing h.ino = true := by
  unfold State.executing
  rw [List.any_eq_true]
  exact ⟨h, hm, by simp [hk]⟩

theorem c21_same_kind (s : State) (c : Cfg) (f : FailPoint) (sch : Sched) (h : Holder)
    (hv : c.ver = .v1) (hd : s.dirWritable = true) (hflag : c.flag = none)
    (hm : h ∈ s.holders) (_hout : s.names c.out = some h.ino) (hfresh : h.ino < s.nextIno)
    (hk : SameKind c h) :
    (run s c f sch).fs.view h = s.view h := by
  -- it suffices that inode `h.ino` is unchanged
  suffices hi : (run s c f sch).fs.inode h.ino = s.inode h.ino by simp [State.view, hi]
  have hmode : c.shared = true → modeOf s c = .unlinkAndReplace := by
    intro hs; simp [modeOf, hflag, defaultMode, hs]
  -- the inode opened by either creator is not the held inode
  have key : ∀ (P Q : Prop) (b : State) (r : Option Ino), CreateSpec c P Q s b r →
      (P → c.single = false ∧ modeOf s c ≠ .unlinkAndReplace) → ∀ i, r = some i → i ≠ h.ino := by
    intro P Q b r hs hP i hr he
    subst he
    rcases (hs.ok _ hr).2.2 with ⟨_, hx, hp⟩ | hn
    · rcases hk with ⟨hsh, _⟩ | ⟨_, hke⟩
      · exact (hP hp).2 (hmode hsh)
      · rw [executing_of_mem s h hm hke] at hx; simp at hx
    · have hn' : h.ino = s.nextIno := hn
      rw [hn'] at hfresh; exact Nat.lt_irrefl _ hfresh
  have hbg := bgCreate_spec c (modeOf s c) sch ⟨s, []⟩ hv
  have hfg := fgCreate_spec c (modeOf s c) ⟨s, []⟩
  have tail : ∀ (r : St × Option Ino) (P Q : Prop), CreateSpec c P Q s r.1.fs r.2 →
      (∀ i, r.2 = some i → i ≠ h.ino) → (afterCreate c f r).fs.inode h.ino = s.inode h.ino := by
    intro r P Q hs hne
    unfold afterCreate
    cases hr2 : r.2 with
    | none => simp only; rw [(hs.fail hr2).2]
    | some i =>
      simp only
      have hi := hne i hr2
      rw [(finish_spec c f r.1 i).inode _ (Ne.symm hi), (hs.ok i hr2).2.1 _ (Ne.symm hi)]
  unfold run
  by_cases h1 : f = .preOutput
  · subst h1; rfl
  by_cases h2 : f = .preSetSize
  · subst h2; rfl
  by_cases h3 : f = .postSetSize
  · simp only [h1, h2, h3, reduceCtorEq, if_true, if_false]
    cases hs : c.single with
    | true => rfl
    | false =>
      simp only [hv, Bool.false_eq_true, if_false]
      have hne := key _ _ _ _ hbg (fun hp => by
        rcases hp with hp | hp
        · exact ⟨hs, hp⟩
        · simp only at hp; rw [hd] at hp; simp at hp)
      cases hr2 : (bgCreate c (modeOf s c) sch ⟨s, []⟩).2 with
      | none => simp only; rw [(hbg.fail hr2).2]
      | some i =>
        simp only
        have hi := hne i hr2
        rw [(failOpened_spec c i _).inode _ (Ne.symm hi), (hbg.ok i hr2).2.1 _ (Ne.symm hi)]
  · simp only [h1, h2, h3, if_false]
    cases hs : c.single with
    | true =>
      simp only [if_true]
      exact tail _ _ _ hfg (key _ _ _ _ hfg (fun hp => by simp only at hp; rw [hd] at hp; simp at hp))
    | false =>
      simp only [Bool.false_eq_true, if_false]
      exact tail _ _ _ hbg (key _ _ _ _ hbg (fun hp => by
        rcases hp with hp | hp
        · exact ⟨hs, hp⟩
        · simp only at hp; rw [hd] at hp; simp at hp))

/-! ## Boundary witnesses -/

/-- output `0 ↦ inode 0`, held by process 7 through a mapping (`dlopen`) -/
def sMapped : State :=
  { names := fun p => if p = 0 then some 0 else none, inode := fun _ => {}, nextIno := 1,
    holders := [⟨7, 0, .mapped⟩] }
/-- output `0 ↦ inode 0`, being executed by process 7 -/
def sExec : State := { sMapped with holders := [⟨7, 0, .executing⟩] }

/-- The previous output was a shared object (mapped by `h`), the new link writes an *executable* to
the same path with default options: `UpdateInPlaceWithFallback`, the open succeeds (no ETXTBSY for
mappings) and the mapped inode is rewritten. -/
theorem c21_kind_change_witness :
    (run sMapped { out := 0, tmp := 1, shared := false } .none {}).fs.view ⟨7, 0, .mapped⟩ ≠ sMapped.view ⟨7, 0, .mapped⟩ := by
  decide

/-- `--update-in-place` on a mapped shared object -/
theorem c21_update_in_place_witness :
    (run sMapped { out := 0, tmp := 1, shared := true, flag := some .updateInPlace } .none {}).fs.view ⟨7, 0, .mapped⟩
      ≠ sMapped.view ⟨7, 0, .mapped⟩ := by
  decide

/-- an executable that is only mapped (run through `ld.so ./prog`, or opened by a debugger) -/
theorem c21_mapped_executable_witness :
    (run sMapped { out := 0, tmp := 1 } .none {}).fs.view ⟨7, 0, .mapped⟩ ≠ sMapped.view ⟨7, 0, .mapped⟩ := by
  decide

/-- `--update-in-place` on a running executable fails (ETXTBSY, no fallback) and leaves it alone -/
example : (run sExec { out := 0, tmp := 1, flag := some .updateInPlace } .none {}).ok = false ∧
    (run sExec { out := 0, tmp := 1, flag := some .updateInPlace } .none {}).fs.view ⟨7, 0, .executing⟩ = sExec.view ⟨7, 0, .executing⟩ := by
  decide

/-! ## Non-vacuity: both same-kind situations, and the relink really produces a new inode -/
example : SameKind { out := 0, tmp := 1, shared := true } ⟨7, 0, .mapped⟩ := Or.inl ⟨rfl, rfl⟩
example : SameKind { out := 0, tmp := 1 } ⟨7, 0, .executing⟩ := Or.inr ⟨rfl, rfl⟩
example : (run sExec { out := 0, tmp := 1 } .none {}).ok = true ∧
    (run sExec { out := 0, tmp := 1 } .none {}).fs.names 0 = some 1 ∧
    (run sExec { out := 0, tmp := 1 } .none {}).tr =
      [.openOut false (some .etxtbsy), .unlinkOut true, .openOut false none, .ftruncate, .chmod] := by decide
example : (run sMapped { out := 0, tmp := 1, shared := true } .none {}).fs.names 0 = some 1 := by decide

end Wild.C21
