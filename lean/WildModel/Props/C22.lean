import WildModel.Model.X86Relax
import WildModel.Model.Malformed
import WildModel.Props.C16
import WildModel.Props.C15
/-!
# C22 — Malformed input produces a diagnostic, never a crash (the part carried by theorems)

Every Lean function is total, so "the model terminates" is free; what the theorems below carry is
that the MODELLED code — which mirrors the Rust including its panics (`Res = Except Panic`, explicit
`readBytes` bounds checks, explicit fuel) — never takes a panic branch, never runs out of fuel, and
only produces in-bounds ranges, for ALL byte strings:

* x86-64 relaxation decision `ElfX86_64::new_relaxation` (`Model/X86Relax.newRelaxation`):
  `relax_window_in_bounds` — no panic for any relocation type, section bytes, offset, flags. This is
  a theorem only since fix c22-relax-lookbehind; the upstream arms are kept here as `Old.*` with the
  proved panics (`old_gotpcrelx_panics_iff`, `old_tlsgd_panics_iff`, `old_tlsld_panics_iff`,
  `old_tlsdesc_second_arm_panics_iff`, `old_rex_gotpcrelx_out_of_bounds`), each reproduced on the
  real binary (exit 101) by vlib/props/c22.py's regression corpus.
* archive walk `ArchiveIterator` (`Model/Malformed.Ar.walk`): `archive_total`, `archive_in_bounds`
  (every entry's data range lies inside the file), `walk_fuel_sufficient`.
  Upstream `entry_data: member.data(self.data).unwrap()` panicked on a truncated archive
  (`old_archive_unwrap_panics`): fixed (c22-archive-truncated).
* response-file tokenizer `arguments_from_string` (`Model/Malformed.Args`): `args_total`,
  `args_no_empty_argument_unquoted`-style sanity facts.
* reused: linker-script expression parser `Wild.Expr.parse_total` (C16), section-rule lookup
  `Wild.C15.from_rules_lookup_total` (C15).

NOT carried by any theorem: absence of panics in the unmodelled bulk (the `object` crate's ELF
parsing, layout.rs, elf_writer.rs, symbol_db.rs, the winnow parsers of linker/version scripts). There
the mutation stream of vlib/props/c22.py is only a search for failing inputs.
-/
namespace Wild.C22
open Wild.X86Relax

/-! ## x86-64 relaxation look-behind -/

def NoPanic {α : Type} (r : Res α) : Prop := ∃ a, r = .ok a

instance instDecEqExcept {ε α : Type} [DecidableEq ε] [DecidableEq α] : DecidableEq (Except ε α) :=
  fun a b => match a, b with
    | .ok x, .ok y => if h : x = y then isTrue (by rw [h]) else isFalse (fun e => h (by cases e; rfl))
    | .error x, .error y => if h : x = y then isTrue (by rw [h]) else isFalse (fun e => h (by cases e; rfl))
    | .ok _, .error _ => isFalse (fun e => by cases e)
    | .error _, .ok _ => isFalse (fun e => by cases e)

theorem idx_ok (bs : List UInt8) (i : Nat) (h : i < bs.length) : idx bs i = .ok bs[i] := by
  unfold idx
  simp [List.getElem?_eq_getElem h]

theorem identifyTlsGd_noPanic (bs : List UInt8) (off : Nat) : NoPanic (identifyTlsGd bs off) := by
  unfold identifyTlsGd NoPanic
  simp only [pure, Except.pure]
  repeat' split
  all_goals exact ⟨_, rfl⟩

theorem armGotpcrelx_noPanic (c : Cfg) (bs : List UInt8) (off : Nat) :
    NoPanic (armGotpcrelx c bs off) := by
  unfold armGotpcrelx NoPanic
  simp only [pure, Except.pure]
  repeat' split
  all_goals exact ⟨_, rfl⟩

theorem armGotpcrel_noPanic (c : Cfg) (bs : List UInt8) (off : Nat) :
    NoPanic (armGotpcrel c bs off) := by
  unfold armGotpcrel NoPanic
  simp only [pure, Except.pure]
  repeat' split
  all_goals exact ⟨_, rfl⟩

theorem armCode6Gottpoff_noPanic (c : Cfg) (bs : List UInt8) (off : Nat) :
    NoPanic (armCode6Gottpoff c bs off) := by
  unfold armCode6Gottpoff NoPanic
  simp only [pure, Except.pure]
  repeat' split
  all_goals exact ⟨_, rfl⟩

theorem armTlsLd_noPanic (c : Cfg) (bs : List UInt8) (off : Nat) : NoPanic (armTlsLd c bs off) := by
  unfold armTlsLd NoPanic
  simp only [pure, Except.pure]
  repeat' split
  all_goals exact ⟨_, rfl⟩

theorem armTlsGd_noPanic (c : Cfg) (bs : List UInt8) (off : Nat) : NoPanic (armTlsGd c bs off) := by
  obtain ⟨r, hr⟩ := identifyTlsGd_noPanic bs off
  unfold armTlsGd NoPanic
  simp only [bind, Except.bind, pure, Except.pure, hr]
  repeat' split
  all_goals exact ⟨_, rfl⟩

/-- The CODE_4 guard cannot index out of bounds when the relocation offset is inside the section,
and a `true` answer implies `offset ≥ 3`. -/
theorem code4Guard_spec (c4 : Bool) (bs : List UInt8) (off : Nat) (h : off ≤ bs.length) :
    ∃ b, code4Guard c4 bs off = .ok b ∧ (b = true → 3 ≤ off) := by
  unfold code4Guard
  by_cases hc : (c4 = true ∧ off ≥ 4)
  · have hi : off - 4 < bs.length := by omega
    simp only [hc, and_self, ↓reduceIte, bind, Except.bind, idx_ok bs (off - 4) hi, pure, Except.pure]
    split
    · exact ⟨true, rfl, fun _ => by omega⟩
    · exact ⟨decide (off ≥ 3), rfl, fun hb => by simpa using hb⟩
  · simp only [hc, ↓reduceIte, pure, Except.pure]
    exact ⟨decide (off ≥ 3), rfl, fun hb => by simpa using hb⟩

theorem armRexGotpcrelx_noPanic (c : Cfg) (c4 : Bool) (bs : List UInt8) (off : Nat)
    (h : off ≤ bs.length) : NoPanic (armRexGotpcrelx c c4 bs off) := by
  obtain ⟨b, hb, hb3⟩ := code4Guard_spec c4 bs off h
  unfold armRexGotpcrelx NoPanic
  cases b with
  | false => simp only [bind, Except.bind, hb, pure, Except.pure]; exact ⟨_, rfl⟩
  | true =>
    have h3 := hb3 rfl
    have h2 : off - 2 < bs.length := by omega
    have h1 : off - 3 < bs.length := by omega
    simp only [bind, Except.bind, hb, pure, Except.pure, idx_ok bs _ h2, idx_ok bs _ h1]
    repeat' split
    all_goals exact ⟨_, rfl⟩

theorem armGottpoff_noPanic (c : Cfg) (c4 : Bool) (bs : List UInt8) (off : Nat)
    (h : off ≤ bs.length) : NoPanic (armGottpoff c c4 bs off) := by
  obtain ⟨b, hb, _⟩ := code4Guard_spec c4 bs off h
  unfold armGottpoff NoPanic
  simp only [bind, Except.bind, hb, pure, Except.pure]
  repeat' split
  all_goals exact ⟨_, rfl⟩

theorem armTlsDesc_noPanic (c : Cfg) (c4 : Bool) (bs : List UInt8) (off : Nat)
    (h : off ≤ bs.length) : NoPanic (armTlsDesc c c4 bs off) := by
  obtain ⟨b, hb, _⟩ := code4Guard_spec c4 bs off h
  unfold armTlsDesc NoPanic
  cases hg : (!c.interposable && c.exe) with
  | true =>
    simp only [↓reduceIte, bind, Except.bind, hb, pure, Except.pure]
    repeat' split
    all_goals exact ⟨_, rfl⟩
  | false =>
    simp only [Bool.false_eq_true, ↓reduceIte, bind, Except.bind, pure, Except.pure]
    repeat' split
    all_goals exact ⟨_, rfl⟩

theorem ite_noPanic {α : Type} {c : Prop} [Decidable c] {a b : Res α}
    (ha : c → NoPanic a) (hb : ¬ c → NoPanic b) : NoPanic (if c then a else b) := by
  by_cases h : c
  · rw [if_pos h]; exact ha h
  · rw [if_neg h]; exact hb h

/-- **`relax_window_in_bounds`**: for every relocation type, every byte window, every offset (inside
or outside the section), every flag combination, the relaxation decision of the working tree
returns a result — it never subtracts below zero and never indexes outside the section. -/
theorem relax_window_in_bounds (rt : Nat) (bs : List UInt8) (off vf : Nat) (ok : OutKind) (sf : Nat) :
    NoPanic (newRelaxation rt bs off vf ok sf) := by
  unfold newRelaxation
  refine ite_noPanic (fun _ => ⟨_, rfl⟩) (fun _ => ?_)
  refine ite_noPanic (fun _ => ⟨_, rfl⟩) (fun _ => ?_)
  refine ite_noPanic (fun _ => ⟨_, rfl⟩) (fun hoff => ?_)
  have h : off ≤ bs.length := by omega
  refine ite_noPanic (fun _ => armRexGotpcrelx_noPanic _ _ _ _ h) (fun _ => ?_)
  refine ite_noPanic (fun _ => armRexGotpcrelx_noPanic _ _ _ _ h) (fun _ => ?_)
  refine ite_noPanic (fun _ => armGotpcrelx_noPanic _ _ _) (fun _ => ?_)
  refine ite_noPanic (fun _ => armGotpcrel_noPanic _ _ _) (fun _ => ?_)
  refine ite_noPanic (fun _ => armGottpoff_noPanic _ _ _ _ h) (fun _ => ?_)
  refine ite_noPanic (fun _ => armGottpoff_noPanic _ _ _ _ h) (fun _ => ?_)
  refine ite_noPanic (fun _ => armCode6Gottpoff_noPanic _ _ _) (fun _ => ?_)
  refine ite_noPanic (fun _ => ⟨_, rfl⟩) (fun _ => ?_)
  refine ite_noPanic (fun _ => ⟨_, rfl⟩) (fun _ => ?_)
  refine ite_noPanic (fun _ => armTlsGd_noPanic _ _ _) (fun _ => ?_)
  refine ite_noPanic (fun _ => armTlsLd_noPanic _ _ _) (fun _ => ?_)
  refine ite_noPanic (fun _ => armTlsDesc_noPanic _ _ _ _ h) (fun _ => ?_)
  refine ite_noPanic (fun _ => armTlsDesc_noPanic _ _ _ _ h) (fun _ => ?_)
  refine ite_noPanic (fun _ => ⟨_, rfl⟩) (fun _ => ?_)
  exact ⟨_, rfl⟩

/-! ### The upstream arms (before fix c22-relax-lookbehind) and their panics -/
namespace Old

/-- upstream `TlsGdForm::identify`: `bytes.get(offset - 4..offset)`, `bytes.get(offset - 3..offset)`. -/
def identifyTlsGd (bs : List UInt8) (off : Nat) : Res (Option TlsGdForm) := do
  let a ← usub off 4
  if getRange bs a off = some [0x66, 0x48, 0x8d, 0x3d]
      ∧ getRange bs (off + 4) (off + 8) = some [0x66, 0x66, 0x48, 0xe8] then
    return some .regular
  let a3 ← usub off 3
  if getRange bs a3 off = some [0x48, 0x8d, 0x3d]
      ∧ getRange bs (off + 4) (off + 6) = some [0x48, 0xb8]
      ∧ getRange bs (off + 14) (off + 19) = some [0x48, 0x01, 0xd8, 0xff, 0xd0] then
    return some .large
  return none

/-- upstream `R_X86_64_GOTPCRELX` arm, first statement: `section_bytes.get(offset - 2)?`. -/
def gotpcrelxLookBehind (off : Nat) : Res Nat := usub off 2

/-- upstream `R_X86_64_TLSLD if is_executable`: `section_bytes.get(offset - 3..offset)?`. -/
def tlsLdLookBehind (off : Nat) : Res Nat := usub off 3

/-- upstream second `R_X86_64_GOTPC32_TLSDESC` arm: `section_bytes.get(offset - 3..offset - 1)`. -/
def tlsDescSecondArmLookBehind (off : Nat) : Res (Nat × Nat) := do
  let a ← usub off 3
  let e ← usub off 1
  return (a, e)

/-- upstream REX/CODE_4 arm body after the guard `offset >= 3`: `section_bytes[offset - 2]`. -/
def rexGotpcrelxRead (bs : List UInt8) (off : Nat) : Res UInt8 := idx bs (off - 2)

end Old

/-- Non-panic IFF the missing guard holds: GOTPCRELX needs `offset ≥ 2`. -/
theorem old_gotpcrelx_panics_iff (off : Nat) :
    Old.gotpcrelxLookBehind off = .error .overflow ↔ off < 2 := by
  unfold Old.gotpcrelxLookBehind usub
  split <;> simp_all

theorem old_tlsld_panics_iff (off : Nat) : Old.tlsLdLookBehind off = .error .overflow ↔ off < 3 := by
  unfold Old.tlsLdLookBehind usub
  split <;> simp_all

theorem old_tlsdesc_second_arm_panics_iff (off : Nat) :
    Old.tlsDescSecondArmLookBehind off = .error .overflow ↔ off < 3 := by
  unfold Old.tlsDescSecondArmLookBehind usub
  by_cases h3 : off < 3
  · simp [h3, bind, Except.bind]
  · have h1 : ¬ off < 1 := by omega
    simp [h3, h1, bind, Except.bind, pure, Except.pure]

/-- TLSGD: for `offset < 4` the first look-behind panics whatever the bytes are; for `offset ≥ 4`
nothing panics. -/
theorem old_tlsgd_panics_iff (bs : List UInt8) (off : Nat) :
    Old.identifyTlsGd bs off = .error .overflow ↔ off < 4 := by
  unfold Old.identifyTlsGd usub
  by_cases h4 : off < 4
  · simp [h4, bind, Except.bind]
  · have h3 : ¬ off < 3 := by omega
    simp only [h4, h3, ↓reduceIte, bind, Except.bind, pure, Except.pure]
    constructor
    · intro h; repeat' split at h
      all_goals cases h
    · intro h; exact h.elim

/-- Concrete witnesses, as replayed on the real binary (`.reloc <off>, R_X86_64_…` at the start of
`.text`): the relocation types and offsets the C14 report lists. -/
theorem old_lookbehind_witnesses :
    Old.gotpcrelxLookBehind 0 = .error .overflow ∧ Old.gotpcrelxLookBehind 1 = .error .overflow ∧
    Old.identifyTlsGd [0, 0, 0, 0, 0, 0, 0, 0, 0xc3] 3 = .error .overflow ∧
    Old.tlsLdLookBehind 2 = .error .overflow ∧
    Old.tlsDescSecondArmLookBehind 2 = .error .overflow := ⟨rfl, rfl, rfl, rfl, rfl⟩

/-- Upstream REX_GOTPCRELX with `r_offset` beyond the section: index out of bounds. -/
theorem old_rex_gotpcrelx_out_of_bounds (bs : List UInt8) (off : Nat) (h : bs.length + 2 ≤ off) :
    Old.rexGotpcrelxRead bs off = .error .bounds := by
  unfold Old.rexGotpcrelxRead idx
  have : bs[off - 2]? = none := List.getElem?_eq_none (by omega)
  simp [this]

/-! ## Archive walk -/
open Wild.Malformed.Ar in
/-- Totality in the sense of C22: the walk always yields one of the three outcome classes. -/
theorem archive_total (d : Bytes) :
    walk d = .aixbig ∨ (∃ e, walk d = .openError e) ∨ (∃ w, walk d = .walked w) := by
  cases h : walk d with
  | aixbig => exact Or.inl rfl
  | openError e => exact Or.inr (Or.inl ⟨e, rfl⟩)
  | walked w => exact Or.inr (Or.inr ⟨w, rfl⟩)

namespace ArLemmas
open Wild.Malformed.Ar

theorem readBytes_length {d : Bytes} {off len : Nat} {b : Bytes} (h : readBytes d off len = some b) :
    off + len ≤ d.length ∧ b.length = len := by
  unfold readBytes at h
  split at h
  · cases h
    refine ⟨by assumption, ?_⟩
    simp [List.length_take, List.length_drop]; omega
  · cases h

/-- `ArchiveMember::parse` moves the offset forward by at least the 60 header bytes. -/
theorem parseAfterHeader_advances {d h : Bytes} {off : Nat} {names : Bytes} {thin : Bool}
    {m : Member} {off' : Nat} (hp : parseAfterHeader d h off names thin = .ok (m, off')) :
    off ≤ off' := by
  unfold parseAfterHeader at hp
  simp only at hp
  repeat' split at hp
  all_goals cases hp
  all_goals first
    | exact Nat.le_refl _
    | (simp only [U64] at *; omega)

theorem parseMember_advances {d : Bytes} {off : Nat} {names : Bytes} {thin : Bool}
    {m : Member} {off' : Nat} (hp : parseMember d off names thin = .ok (m, off')) :
    off + 60 ≤ off' := by
  unfold parseMember at hp
  split at hp
  · cases hp
  · exact parseAfterHeader_advances hp

theorem memberData_bounds {d : Bytes} {m : Member} {b : Bytes} (h : memberData d m = .ok b) :
    m.offset = 0 ∧ b = [] ∨ (m.offset + b.length ≤ d.length ∧ b.length = m.size) := by
  unfold memberData at h
  split at h
  · cases h; left; exact ⟨by assumption, rfl⟩
  · split at h
    · rename_i b' hb
      cases h
      have := readBytes_length hb
      right; exact ⟨by omega, this.2⟩
    · cases h

def EntryOk (d : Bytes) (e : Entry) : Prop := e.dataOffset + e.dataLen ≤ d.length

theorem walkFrom_spec (d : Bytes) (f : File) (fuel off : Nat) (acc : List Entry)
    (hacc : ∀ e ∈ acc, EntryOk d e) (hfuel : d.length < off + fuel * 60 ∨ d.length ≤ off) :
    (∀ e ∈ (walkFrom d f fuel off acc).entries, EntryOk d e) ∧
    (walkFrom d f fuel off acc).exhausted = false := by
  induction fuel generalizing off acc with
  | zero =>
    unfold walkFrom
    refine ⟨by simpa using hacc, ?_⟩
    simp only [decide_eq_false_iff_not]
    omega
  | succ n ih =>
    unfold walkFrom
    split
    · exact ⟨by simpa using hacc, rfl⟩
    · rename_i hlt
      split
      · exact ⟨by simpa using hacc, rfl⟩
      · rename_i m off' hp
        have hadv := parseMember_advances hp
        have hf' : d.length < off' + n * 60 ∨ d.length ≤ off' := by
          rcases hfuel with h | h
          · left; rw [Nat.add_mul] at h; omega
          · omega
        split
        · apply ih
          · intro e he
            rcases List.mem_cons.mp he with rfl | he
            · simp [EntryOk]
            · exact hacc e he
          · exact hf'
        · split
          · exact ⟨by simpa using hacc, rfl⟩
          · rename_i b hb
            apply ih
            · intro e he
              rcases List.mem_cons.mp he with rfl | he
              · rcases memberData_bounds hb with ⟨h0, rfl⟩ | ⟨h1, _⟩
                · simp [EntryOk, h0]
                · simpa [EntryOk] using h1
              · exact hacc e he
            · exact hf'

end ArLemmas

open Wild.Malformed.Ar ArLemmas in
/-- **`archive_in_bounds`**: every entry the walk hands to the rest of wild describes a data range
inside the archive file (so `entry_data` is a valid sub-slice), for ALL byte strings. -/
theorem archive_in_bounds (d : Bytes) (w : Walk) (h : walk d = .walked w) :
    ∀ e ∈ w.entries, e.dataOffset + e.dataLen ≤ d.length := by
  unfold walk at h
  split at h
  · cases h
  · cases h
  · rename_i f _
    cases h
    exact (walkFrom_spec d f (d.length + 1) f.membersOffset [] (by simp)
      (by left; rw [Nat.add_mul]; omega)).1

open Wild.Malformed.Ar ArLemmas in
/-- The fuel `len + 1` of `walk` is never exhausted: the walk ends because the data ends or because
of an error, for ALL byte strings (termination of the Rust loop with the measure `len - offset`). -/
theorem walk_fuel_sufficient (d : Bytes) (w : Walk) (h : walk d = .walked w) :
    w.exhausted = false := by
  unfold walk at h
  split at h
  · cases h
  · cases h
  · rename_i f _
    cases h
    exact (walkFrom_spec d f (d.length + 1) f.membersOffset [] (by simp)
      (by left; rw [Nat.add_mul]; omega)).2

/-- Upstream `ArchiveIterator::next`: `entry_data: member.data(self.data).unwrap()`. A member whose
size field claims more bytes than the file holds makes `data` fail, and `unwrap` panics. Witness: a
regular archive holding one header with size 16 and no data. -/
theorem old_archive_unwrap_panics :
    let hdr : Wild.Malformed.Ar.Bytes :=
      Wild.Malformed.Ar.bytesOf "a.o/            0           0     0     644     16        `\n"
    let d := Wild.Malformed.Ar.MAGIC ++ hdr
    (∃ m off, Wild.Malformed.Ar.parseMember d 8 [] false = .ok (m, off) ∧
      Wild.Malformed.Ar.memberData d m = .error .tooLarge) := by
  refine ⟨⟨Wild.Malformed.Ar.bytesOf "a.o", 68, 16⟩, 84, ?_, ?_⟩ <;> decide

/-! ## Response-file tokenizer -/
open Wild.Malformed.Args in
theorem args_total (cs : List Char) :
    (∃ l, argsFromString cs = .ok l) ∨ (∃ e, argsFromString cs = .error e) := by
  cases h : argsFromString cs with
  | ok l => exact Or.inl ⟨l, rfl⟩
  | error e => exact Or.inr ⟨e, rfl⟩

open Wild.Malformed.Args in
/-- Input without quotes and backslashes is always accepted (no error class is reachable). -/
theorem args_plain_accepted (cs : List Char) (h : ∀ c ∈ cs, isQuote c = false ∧ c ≠ '\\') :
    ∃ l, argsFromString cs = .ok l := by
  have key : ∀ (cs : List Char) (s : St), (∀ c ∈ cs, isQuote c = false ∧ c ≠ '\\') →
      s.esc = false → s.quote = none → s.expectWs = false →
      ∃ s', run s cs = .ok s' ∧ s'.esc = false ∧ s'.quote = none := by
    intro cs
    induction cs with
    | nil => intro s _ h1 h2 _; exact ⟨s, rfl, h1, h2⟩
    | cons c r ih =>
      intro s hc h1 h2 h3
      have hcq := (hc c (List.mem_cons_self)).1
      have hcb := (hc c (List.mem_cons_self)).2
      have hr : ∀ c ∈ r, isQuote c = false ∧ c ≠ '\\' := fun x hx => hc x (List.mem_cons_of_mem _ hx)
      unfold run
      by_cases hw : isWhitespace c = true
      · have hs : step s c = .ok { s with expectWs := false, out := flush { s with expectWs := false }, heap := none } := by
          simp [step, h1, h3, hcq, hw, h2]
        rw [hs]
        exact ih _ hr h1 h2 rfl
      · have hs : step s c = .ok { s with expectWs := false, heap := pushCh s.heap c } := by
          simp [step, h1, h3, hcq, hw, hcb]
        rw [hs]
        exact ih _ hr h1 h2 rfl
  obtain ⟨s', hrun, he, hq⟩ := key cs {} h rfl rfl rfl
  unfold argsFromString
  rw [hrun]
  simp [he, hq]

/-! ## Reused totality results of the other modelled parsers -/

/-- Linker-script expression lexer + precedence climber (C16). -/
theorem expr_parser_total (cs : List Char) :
    (∃ e, Wild.Expr.parse cs = some e) ∨ Wild.Expr.parse cs = none := Wild.Expr.parse_total cs

/- Section-rule table construction and lookup: `Wild.C15.from_rules_lookup_total` (listed by the check). -/

/-! ## Non-vacuity / examples -/
open Wild.Malformed.Args in
example : argsFromString "-o out 'a b' \"c'd\" e\\ f".toList = .ok ["-o", "out", "a b", "c'd", "e f"] := by
  decide
open Wild.Malformed.Args in
example : argsFromString "'a'b".toList = .error .expectedWhitespace := by decide
open Wild.Malformed.Args in
example : argsFromString "a'b'".toList = .error .missingOpening := by decide
open Wild.Malformed.Args in
example : argsFromString "abc\\".toList = .error .invalidEscape := by decide
example : newRelaxation R_GOTPCRELX [0, 0, 0, 0] 0 0x8 (OutKind.ofIndex 0) 0x6 = .ok none := by decide

end Wild.C22
