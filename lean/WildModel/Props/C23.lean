import WildModel.Model.Alloc
import WildModel.Model.Relr
import WildModel.Props.C09
import WildModel.Gen.AllocTable
/-!
# C23 — Size accounting never fails on valid input

Spec: for every symbol resolution that layout can produce (`Valid`), in every output kind, with and
without `-z pack-relative-relocs`, the writer takes exactly the entries layout reserved in the GOT,
`.plt.got`, `.rela.plt`, `.rela.dyn` (general / relative) and `.relr.dyn` — so neither
"Insufficient … allocation" nor "Allocated too much space in …" can be reported for these tables —
and the writer's own `debug_assert_bail!`s about allocations never fire.

* `alloc_eq_consume_resolution`   the model of the current code, ALL flag combinations (finite
                                   domain, kernel-evaluated)
* `alloc_eq_consume_site`         the relocation-site half (RELR vs RELA): `Wild.Relr.alloc_eq_write`
* `alloc_table_consistent`        the same equality on the table regenerated from the running code
                                   (`Gen/AllocTable.lean`, both sides dumped through the hook)
* `alloc_ne_consume_old_witness`, `alloc_eq_consume_old_partial`
                                   the code before `scratch/fixes/c23-tls-ie-undef-weak.diff`
-/
namespace Wild.Alloc

def mk (abs dyn ifunc nonInterp got plt tlsMod tlsOff tlsDesc exportDyn ifuncGot : Bool)
    (kind : Kind) (relr dynIdx rawZero : Bool) : Res :=
  ⟨⟨abs, dyn, ifunc, nonInterp, got, plt, tlsMod, tlsOff, tlsDesc, exportDyn, ifuncGot⟩, kind, relr, dynIdx, rawZero⟩

/-! ### Exhaustive evaluation with early pruning -/

def allB (p : Bool → Bool) : Bool := p false && p true
theorem allB_spec {p : Bool → Bool} (h : allB p = true) (b : Bool) : p b = true := by
  unfold allB at h; cases b <;> simp_all

def allK (p : Kind → Bool) : Bool := p .staticExe && p .staticPie && p .dynExe && p .dynPie && p .shared
theorem allK_spec {p : Kind → Bool} (h : allK p = true) (k : Kind) : p k = true := by
  unfold allK at h; cases k <;> simp_all

theorem guard_spec {g rest : Bool} (h : (!g || rest) = true) (hg : g = true) : rest = true := by
  simp_all

def okEq : W → Counts → Bool
  | .ok c, a => decide (c = a)
  | .error _, _ => false
theorem okEq_spec {w : W} {a : Counts} (h : okEq w a = true) : w = .ok a := by
  cases w with
  | error e => simp [okEq] at h
  | ok c => simp only [okEq, decide_eq_true_eq] at h; rw [h]

/-- Walks the whole domain (11 flag bits × 5 kinds × relr × dynIdx × rawZero); a prefix that already
violates a stage of `Valid` is not extended. -/
def check (cons : Res → W) (al : Res → Counts) (extra : Res → Bool) : Bool :=
  allB fun ifunc => allB fun dyn => allB fun abs => allB fun tlsOff => allB fun tlsMod => allB fun tlsDesc =>
  (!stage1 (mk abs dyn ifunc false false false tlsMod tlsOff tlsDesc false false .shared false false false)) ||
  (allB fun got => allB fun plt =>
  (!stage2 (mk abs dyn ifunc false got plt tlsMod tlsOff tlsDesc false false .shared false false false)) ||
  (allB fun ifuncGot => allK fun kind =>
  (!stage3 (mk abs dyn ifunc false got plt tlsMod tlsOff tlsDesc false ifuncGot kind false false false)) ||
  (allB fun nonInterp => allB fun exportDyn =>
  (!stage4 (mk abs dyn ifunc nonInterp got plt tlsMod tlsOff tlsDesc exportDyn ifuncGot kind false false false)) ||
  (allB fun relr => allB fun dynIdx => allB fun rawZero =>
    (!stage5 (mk abs dyn ifunc nonInterp got plt tlsMod tlsOff tlsDesc exportDyn ifuncGot kind relr dynIdx rawZero)) ||
    (!extra (mk abs dyn ifunc nonInterp got plt tlsMod tlsOff tlsDesc exportDyn ifuncGot kind relr dynIdx rawZero) ||
     okEq (cons (mk abs dyn ifunc nonInterp got plt tlsMod tlsOff tlsDesc exportDyn ifuncGot kind relr dynIdx rawZero))
          (al (mk abs dyn ifunc nonInterp got plt tlsMod tlsOff tlsDesc exportDyn ifuncGot kind relr dynIdx rawZero)))))))

theorem check_sound {cons : Res → W} {al : Res → Counts} {extra : Res → Bool} (h : check cons al extra = true)
    (abs dyn ifunc nonInterp got plt tlsMod tlsOff tlsDesc exportDyn ifuncGot : Bool) (kind : Kind)
    (relr dynIdx rawZero : Bool)
    (hv : Valid (mk abs dyn ifunc nonInterp got plt tlsMod tlsOff tlsDesc exportDyn ifuncGot kind relr dynIdx rawZero) = true)
    (hx : extra (mk abs dyn ifunc nonInterp got plt tlsMod tlsOff tlsDesc exportDyn ifuncGot kind relr dynIdx rawZero) = true) :
    cons (mk abs dyn ifunc nonInterp got plt tlsMod tlsOff tlsDesc exportDyn ifuncGot kind relr dynIdx rawZero)
      = .ok (al (mk abs dyn ifunc nonInterp got plt tlsMod tlsOff tlsDesc exportDyn ifuncGot kind relr dynIdx rawZero)) := by
  simp only [Valid, Bool.and_eq_true] at hv
  obtain ⟨⟨⟨⟨h1, h2⟩, h3⟩, h4⟩, h5⟩ := hv
  unfold check at h
  have a1 := allB_spec (allB_spec (allB_spec (allB_spec (allB_spec (allB_spec h ifunc) dyn) abs) tlsOff) tlsMod) tlsDesc
  have b1 := guard_spec a1 h1
  have a2 := allB_spec (allB_spec b1 got) plt
  have b2 := guard_spec a2 h2
  have a3 := allK_spec (allB_spec b2 ifuncGot) kind
  have b3 := guard_spec a3 h3
  have a4 := allB_spec (allB_spec b3 nonInterp) exportDyn
  have b4 := guard_spec a4 h4
  have a5 := allB_spec (allB_spec (allB_spec b4 relr) dynIdx) rawZero
  have b5 := guard_spec a5 h5
  have b6 := guard_spec b5 hx
  exact okEq_spec b6

theorem check_current : check consume alloc (fun _ => true) = true := by decide +kernel

/-- **Allocation = consumption for every resolution** (current code): ALL combinations of the 11
flag bits × 5 output kinds × RELR on/off × has-dynsym-index × value zero/non-zero that layout can
produce. -/
theorem alloc_eq_consume_resolution (r : Res) (h : Valid r = true) : consume r = .ok (alloc r) := by
  obtain ⟨⟨a, b, c, d, e, f, g, h', i, j, k⟩, kind, relr, dynIdx, rawZero⟩ := r
  exact check_sound check_current a b c d e f g h' i j k kind relr dynIdx rawZero h rfl

/-- `Valid` is far from empty: e.g. a PLT call to a shared-library function from a PIE, TLS GD of an
exported variable in a shared object, a canonical-PLT ifunc in a static executable. -/
example : Valid (mk false true false false true true false false false false false .dynPie true true false) = true := by decide
example : Valid (mk false false false false false false true false false true false .shared false true false) = true := by decide
example : Valid (mk false false true true true true false false false false true .staticExe false false false) = true := by decide

/-- The relocation-site half of the property (RELR/RELA entries for `R_*_64` in writable sections of
any alignment at any address): proved in `Props/C09.lean`. -/
theorem alloc_eq_consume_site (relr : Bool) (img0 : Wild.Relr.Image) (sites : List Wild.Relr.Site) :
    Wild.Relr.link relr img0 sites = .ok (Wild.Relr.emit (Wild.Relr.layoutChoosesRelr relr) img0 sites) :=
  Wild.Relr.alloc_eq_write relr img0 sites

/-- Symbols that need none of the tables (no GOT/PLT/TLS-GOT request): nothing is reserved and the
writer is not even entered — for every flag combination, inside `Valid` or not. -/
theorem no_tables_trivial (r : Res) (h1 : r.f.got = false) (h2 : r.f.plt = false) (h3 : r.f.tlsMod = false)
    (h4 : r.f.tlsOff = false) (h5 : r.f.tlsDesc = false) (h6 : r.f.ifuncGot = false) :
    consume r = .ok (alloc r) ∧ alloc r = {} := by
  simp [consume, consumeWith, alloc, allocWith, hasGotAddress, Flags.isTls, skip, h1, h2, h3, h4, h5, h6]
  exact ⟨rfl, rfl⟩


/-! ### The code before the fix -/

def alloc_eq_consume_old_full : Prop := ∀ r : Res, Valid r = true → consumeOld r = .ok (allocOld r)

/-- A hidden weak undefined thread-local variable read through the GOT (initial-exec) in a shared
object: flags `ABSOLUTE | NON_INTERPOSABLE | GOT_TLS_OFFSET`, value 0. Layout reserved a TPOFF
relocation, the writer (value 0 ⇒ "resolution is undefined") wrote none:
"Allocated too much space in .rela.dyn (general)". -/
theorem alloc_ne_consume_old_witness : ¬ alloc_eq_consume_old_full := by
  intro h
  have h2 := h (mk true false false true false false false true false false false .shared false false true) (by decide)
  have h3 : okEq (consumeOld (mk true false false true false false false true false false false .shared false false true))
      (allocOld (mk true false false true false false false true false false false .shared false false true)) = true := by
    rw [h2]; simp [okEq]
  revert h3
  decide

def notOldDefect (r : Res) : Bool := !(r.f.tlsOff && r.f.abs && r.f.nonInterp && r.kind.isSharedObject)

theorem check_old : check consumeOld allocOld notOldDefect = true := by decide +kernel

/-- Everything else already agreed before the fix. -/
theorem alloc_eq_consume_old_partial (r : Res) (h : Valid r = true) (hx : notOldDefect r = true) :
    consumeOld r = .ok (allocOld r) := by
  obtain ⟨⟨a, b, c, d, e, f, g, h', i, j, k⟩, kind, relr, dynIdx, rawZero⟩ := r
  exact check_sound check_old a b c d e f g h' i j k kind relr dynIdx rawZero h hx

/-! ### The table regenerated from the running code -/

/-- Decode a row of `Gen.allocTable` into the model's domain. -/
def resOfRow (row : Gen.AllocRow) : Option Res :=
  let b (i : Nat) : Bool := row.flags.testBit i
  match row.kind with
  | 0 => some (go b .staticExe) | 1 => some (go b .staticPie) | 2 => some (go b .dynExe)
  | 3 => some (go b .dynPie) | 4 => some (go b .shared) | _ => none
where
  go (b : Nat → Bool) (k : Kind) : Res :=
    ⟨⟨b 0, b 1, b 2, b 3, b 7, b 8, b 9, b 10, b 11, b 12, b 14⟩, k, row.relr, row.dynIdx, row.rawZero⟩

def countsOfList : List Nat → Option Counts
  | [a, b, c, d, e, f] => some ⟨a, b, c, d, e, f⟩
  | _ => none

/-- For a row of the table: if the resolution is one layout can produce, the real writer consumed
(in the dry run) exactly what the real `allocate_resolution` reserved, and wild's own
`verify_resolution_allocation` accepted it. Rows whose consumption side cannot be dry-run without a
layout (`GOT_TLS_OFFSET`, code 1) are covered by the whole-link sweep instead. -/
def rowOk (row : Gen.AllocRow) : Bool :=
  match resOfRow row with
  | none => false
  | some r =>
    if !Valid r then true
    else if row.consumeCode == 1 then true
    else row.consumeCode == 0 && row.alloc == row.consume && row.verifyOk

/-- T1: the equality holds on what the code says *now*. -/
theorem alloc_table_consistent : Gen.allocTable.all rowOk = true := by decide +kernel

/-- The table agrees with the model wherever both are defined (so the theorem about the model and
the table describe the same functions). -/
def rowMatchesModel (row : Gen.AllocRow) : Bool :=
  match resOfRow row with
  | none => false
  | some r =>
    countsOfList row.alloc == some (alloc r) &&
    (row.consumeCode != 0 || (match consume r with
      | .ok c => countsOfList row.consume == some c
      | .error _ => false))

theorem alloc_table_matches_model : Gen.allocTable.all rowMatchesModel = true := by decide +kernel


/-! ### The table covers the whole `Valid` domain -/

def bools : List Bool := [false, true]
def kinds : List Kind := [.staticExe, .staticPie, .dynExe, .dynPie, .shared]

/-- Number of resolutions in `Valid`, by the same pruned walk as `check` (a prefix is dropped exactly
when a stage of `Valid` — which reads only that prefix — is already false). -/
def validCount : Nat :=
  (bools.flatMap fun ifunc => bools.flatMap fun dyn => bools.flatMap fun abs => bools.flatMap fun tlsOff =>
   bools.flatMap fun tlsMod => bools.flatMap fun tlsDesc =>
   if !stage1 (mk abs dyn ifunc false false false tlsMod tlsOff tlsDesc false false .shared false false false) then [] else
   bools.flatMap fun got => bools.flatMap fun plt =>
   if !stage2 (mk abs dyn ifunc false got plt tlsMod tlsOff tlsDesc false false .shared false false false) then [] else
   bools.flatMap fun ifuncGot => kinds.flatMap fun kind =>
   if !stage3 (mk abs dyn ifunc false got plt tlsMod tlsOff tlsDesc false ifuncGot kind false false false) then [] else
   bools.flatMap fun nonInterp => bools.flatMap fun exportDyn =>
   if !stage4 (mk abs dyn ifunc nonInterp got plt tlsMod tlsOff tlsDesc exportDyn ifuncGot kind false false false) then [] else
   bools.flatMap fun relr => bools.flatMap fun dynIdx => bools.flatMap fun rawZero =>
   if Valid (mk abs dyn ifunc nonInterp got plt tlsMod tlsOff tlsDesc exportDyn ifuncGot kind relr dynIdx rawZero) then [()] else []).length

def rowKey (row : Gen.AllocRow) : Nat :=
  (((row.flags * 8 + row.kind) * 2 + row.relr.toNat) * 2 + (!row.rawZero).toNat) * 2 + row.dynIdx.toNat

def strictlyIncreasing : List Nat → Bool
  | a :: b :: rest => a < b && strictlyIncreasing (b :: rest)
  | _ => true

/-- The regenerated table has exactly one row for every resolution in `Valid`: as many rows as
`Valid` has elements, all rows distinct (keys strictly increasing), all rows in `Valid`. -/
theorem alloc_table_complete :
    Gen.allocTable.length = validCount ∧
    strictlyIncreasing (Gen.allocTable.map rowKey) = true ∧
    Gen.allocTable.all (fun row => match resOfRow row with | some r => Valid r | none => false) = true := by
  decide +kernel

end Wild.Alloc
