import WildModel.Model.ShSplit
import WildModel.Model.ShQuote
/-!
# C24 — Save-dir bundles replay to an identical output (argument text part)

`run-with` ends in `exec "$@" <rendered arguments>`. The property needs: the words bash obtains
from the rendered text (after expanding `$D`, `$OUT`, `$RSP_n`) are exactly the original arguments
with copied paths redirected into the save directory — for ALL argument texts (any characters,
including quotes, white space, newlines and every shell metacharacter), all values of the
variables, and every designation of which arguments are existing/copied files.

* `run_with_roundtrip` — the full statement, for the rendering of the current code
  (single-quoted words, `"$D"`, `"$OUT"`).
* `old_rendering_*_witness` — the rendering before scratch/fixes/c24-quote-args.diff (only space,
  `$`, `\` escaped, copies and variables unquoted) does NOT satisfy it: kept as regression seeds.
* `rsp_tokenize_roundtrip_nosubst` / witnesses — saved response files under wild's own tokenizer.
-/
namespace Wild.C24
open Wild.ShSplit Wild.ShQuote

/-! ## specification side -/

/-- The words `wild` must receive for one rendered item. -/
def expectedWords (env : Env) : Item → List (List Char)
  | .plain pre s => [pre ++ s]
  | .copied pre rel => [pre ++ env ['D'] ++ '/' :: rel]
  | .out => [['-', 'o'], env ['O', 'U', 'T']]
  | .rsp n => ['@' :: env (['R', 'S', 'P', '_'] ++ Nat.toDigits 10 n)]

def substitute (env : Env) (items : List Item) : List (List Char) :=
  items.flatMap (expectedWords env)

/-! ## lemmas about the splitter on the emitted chunks -/

def pushed (cur : Option (List Char)) (dn : List (List Char)) : List (List Char) :=
  match cur with
  | none => dn
  | some w => w :: dn

theorem run_sqBody (env : Env) (s : List Char) : ∀ (w : List Char) (dn : List (List Char)) (rest : List Char),
    run env ⟨.sq, some w, dn⟩ (sqBody s ++ '\'' :: rest) = run env ⟨.unq, some (w ++ s), dn⟩ rest := by
  induction s with
  | nil => intro w dn rest; simp [sqBody, run, step]
  | cons c cs ih =>
    intro w dn rest
    by_cases h : c = '\''
    · subst h
      simp [sqBody, run, step, stepUnq, St.app, ih]
    · simp [sqBody, h, run, step, St.app, ih]

theorem run_shellQuoted (env : Env) (s : List Char) (cur : Option (List Char)) (dn : List (List Char))
    (rest : List Char) :
    run env ⟨.unq, cur, dn⟩ (shellQuoted s ++ rest) = run env ⟨.unq, some (cur.getD [] ++ s), dn⟩ rest := by
  simp [shellQuoted, run, step, stepUnq, St.app, run_sqBody]

theorem run_quotedPre_then (env : Env) (pre s : List Char) (dn : List (List Char)) (rest : List Char) :
    run env ⟨.unq, none, dn⟩ (quotedPre pre ++ (shellQuoted s ++ rest))
      = run env ⟨.unq, some (pre ++ s), dn⟩ rest := by
  unfold quotedPre
  cases pre with
  | nil => simp [run_shellQuoted]
  | cons p ps => simp [run_shellQuoted]

theorem run_sep (env : Env) (cur : Option (List Char)) (dn : List (List Char)) (rest : List Char) :
    run env ⟨.unq, cur, dn⟩ (sep ++ rest) = run env ⟨.unq, none, pushed cur dn⟩ rest := by
  cases cur <;> simp [sep, run, step, stepUnq, St.push, pushed]

theorem run_dqVar_acc (env : Env) (ns : List Char) (hns : ∀ c ∈ ns, isNameChar c = true) :
    ∀ (acc : List Char) (w : List Char) (dn : List (List Char)) (rest : List Char),
    run env ⟨.dqVar acc, some w, dn⟩ (ns ++ '"' :: rest)
      = run env ⟨.unq, some (w ++ env (acc ++ ns)), dn⟩ rest := by
  induction ns with
  | nil => intro acc w dn rest; simp [run, step, stepDq, St.app, isNameChar, Char.isAlphanum, Char.isAlpha, Char.isDigit, Char.isUpper, Char.isLower]
  | cons c cs ih =>
    intro acc w dn rest
    have hc : isNameChar c = true := hns c (by simp)
    have hcs : ∀ x ∈ cs, isNameChar x = true := fun x hx => hns x (by simp [hx])
    simp [run, step, hc, ih hcs]

/-- `"$NAME"` appends the value of `NAME` to the word in progress, whatever the value is. -/
theorem run_dqVar (env : Env) (n0 : Char) (ns : List Char) (h0 : isNameStart n0 = true)
    (hns : ∀ c ∈ ns, isNameChar c = true) (cur : Option (List Char)) (dn : List (List Char)) (rest : List Char) :
    run env ⟨.unq, cur, dn⟩ ('"' :: '$' :: n0 :: (ns ++ '"' :: rest))
      = run env ⟨.unq, some (cur.getD [] ++ env (n0 :: ns)), dn⟩ rest := by
  simp [run, step, stepUnq, stepDq, St.app, h0, run_dqVar_acc env ns hns]

theorem digits_nameChar (n : Nat) : ∀ c ∈ Nat.toDigits 10 n, isNameChar c = true := by
  intro c hc
  have := Nat.isDigit_of_mem_toDigits (b := 10) (by decide) (by decide) hc
  simp [isNameChar, Char.isAlphanum, this]

/-- characters that are literal when unquoted, wherever they stand in a word -/
def isOrdinary (c : Char) : Bool :=
  !(c == ' ' || c == '\t' || c == '\n' || c == '\\' || c == '\'' || c == '"' || c == '$' || isGlob c || isMeta c ||
    c == '#' || c == '~')

theorem run_ord (env : Env) (c : Char) (h : isOrdinary c = true) (cur : Option (List Char))
    (dn : List (List Char)) (rest : List Char) :
    run env ⟨.unq, cur, dn⟩ (c :: rest) = run env ⟨.unq, some (cur.getD [] ++ [c]), dn⟩ rest := by
  simp [isOrdinary] at h
  simp [run, step, stepUnq, St.app, h]

theorem run_space (env : Env) (cur : Option (List Char)) (dn : List (List Char)) (rest : List Char) :
    run env ⟨.unq, cur, dn⟩ (' ' :: rest) = run env ⟨.unq, none, pushed cur dn⟩ rest := by
  cases cur <;> simp [run, step, stepUnq, St.push, pushed]

theorem run_D (env : Env) (cur : Option (List Char)) (dn : List (List Char)) (rest : List Char) :
    run env ⟨.unq, cur, dn⟩ ('"' :: '$' :: 'D' :: '"' :: rest)
      = run env ⟨.unq, some (cur.getD [] ++ env ['D']), dn⟩ rest := by
  simpa using run_dqVar env 'D' [] (by decide) (by simp) cur dn rest

theorem run_OUT (env : Env) (cur : Option (List Char)) (dn : List (List Char)) (rest : List Char) :
    run env ⟨.unq, cur, dn⟩ ('"' :: '$' :: 'O' :: 'U' :: 'T' :: '"' :: rest)
      = run env ⟨.unq, some (cur.getD [] ++ env ['O', 'U', 'T']), dn⟩ rest := by
  simpa using run_dqVar env 'O' ['U', 'T'] (by decide) (by decide) cur dn rest

theorem run_RSP (env : Env) (n : Nat) (cur : Option (List Char)) (dn : List (List Char)) (rest : List Char) :
    run env ⟨.unq, cur, dn⟩ ('"' :: '$' :: 'R' :: 'S' :: 'P' :: '_' :: (Nat.toDigits 10 n ++ '"' :: rest))
      = run env ⟨.unq, some (cur.getD [] ++ env (['R', 'S', 'P', '_'] ++ Nat.toDigits 10 n)), dn⟩ rest := by
  have h := run_dqVar env 'R' (['S', 'P', '_'] ++ Nat.toDigits 10 n) (by decide)
    (by
      intro c hc
      simp only [List.mem_append] at hc
      rcases hc with hc | hc
      · revert c; decide
      · exact digits_nameChar n c hc) cur dn rest
  simpa using h

/-! ## one item -/

/-- the splitter state after one rendered item -/
def after (env : Env) (cur : Option (List Char)) (dn : List (List Char)) : Item → St
  | .plain pre s => ⟨.unq, some (pre ++ s), pushed cur dn⟩
  | .copied pre rel => ⟨.unq, some (pre ++ env ['D'] ++ '/' :: rel), pushed cur dn⟩
  | .out => ⟨.unq, some (env ['O', 'U', 'T']), ['-', 'o'] :: pushed cur dn⟩
  | .rsp n => ⟨.unq, some ('@' :: env (['R', 'S', 'P', '_'] ++ Nat.toDigits 10 n)), pushed cur dn⟩

theorem run_item (env : Env) (it : Item) (cur : Option (List Char)) (dn : List (List Char)) (rest : List Char) :
    run env ⟨.unq, cur, dn⟩ (renderItem it ++ rest) = run env (after env cur dn it) rest := by
  cases it with
  | plain pre s =>
    simp only [renderItem, List.append_assoc, run_sep, run_quotedPre_then, after]
  | copied pre rel =>
    simp only [renderItem, List.append_assoc, run_sep, after]
    unfold quotedPre
    cases pre with
    | nil =>
      simp only [List.isEmpty_nil, if_true, List.nil_append, List.cons_append]
      rw [run_D, run_ord env '/' (by decide), run_shellQuoted]
      simp
    | cons p ps =>
      simp only [List.isEmpty_cons, Bool.false_eq_true, if_false, run_shellQuoted, List.cons_append,
        List.nil_append]
      rw [run_D, run_ord env '/' (by decide), run_shellQuoted]
      simp
  | out =>
    simp only [renderItem, List.append_assoc, run_sep, after, List.cons_append, List.nil_append]
    rw [run_ord env '-' (by decide), run_ord env 'o' (by decide), run_space, run_OUT]
    simp [pushed]
  | rsp n =>
    simp only [renderItem, rspVar, digits, List.append_assoc, run_sep, after, List.cons_append, List.nil_append]
    rw [run_ord env '@' (by decide), run_RSP]
    simp

theorem words_after (env : Env) (cur : Option (List Char)) (dn : List (List Char)) (it : Item) :
    (after env cur dn it).push.done.reverse = (pushed cur dn).reverse ++ expectedWords env it := by
  cases it <;> simp [after, St.push, expectedWords]

theorem run_items (env : Env) (items : List Item) : ∀ (cur : Option (List Char)) (dn : List (List Char)),
    (run env ⟨.unq, cur, dn⟩ (renderItems items)).bind (finish env)
      = some ((pushed cur dn).reverse ++ substitute env items) := by
  induction items with
  | nil =>
    intro cur dn
    cases cur <;> simp [renderItems, run, finish, St.push, pushed, substitute]
  | cons it is ih =>
    intro cur dn
    simp only [renderItems, run_item]
    have hw := words_after env cur dn it
    cases it <;> simp only [after] at hw ⊢ <;> rw [ih] <;>
      simp [pushed, substitute, List.flatMap_cons, expectedWords, St.push] at hw ⊢

/-! ## the property -/

/-- **C24, argument text.** For all rendered items — i.e. for ALL argument texts (any characters), all
prefixes, all copied paths, all variable values — bash splits the text emitted after `exec "$@"`
into exactly the substituted argument list. -/
theorem run_with_roundtrip (env : Env) (items : List Item) :
    shSplit env (renderItems items) = some (substitute env items) := by
  have := run_items env items none []
  simpa [shSplit, St.init, pushed] using this

/-- The same, stated on the code path: whatever argument list and whatever designation of
existing / copied files (`ArgIn` flags) `write_args` accepts. -/
theorem run_with_roundtrip_args (env : Env) (cwd : List Char) (args : List ArgIn) (text : List Char)
    (h : emitRunWith cwd args = some text) :
    ∃ items, classify cwd args .none 0 = some items ∧ shSplit env text = some (substitute env items) := by
  unfold emitRunWith at h
  cases hc : classify cwd args .none 0 with
  | none => simp [hc] at h
  | some items =>
    simp [hc] at h
    exact ⟨items, rfl, by rw [← h]; exact run_with_roundtrip env items⟩

/-- Classification keeps every plain argument's text: an argument that is not `@…`, `-o…`, `-L…`, is
not designated as an existing/copied file, reaches wild unchanged (non-vacuity of the corollary for
arbitrary text). -/
theorem classify_plain (cwd t : List Char) (h1 : t.head? ≠ some '@') (h2 : t.take 2 ≠ ['-', 'o'])
    (h3 : t.take 2 ≠ ['-', 'L']) :
    classify cwd [⟨t, false, false, false, false⟩] .none 0 = some [Item.plain [] t] := by
  simp only [classify]
  simp [h1, h2, h3]
  cases afterEq t <;> simp

/-- Hypotheses are satisfiable and the statement is not vacuous: an argument made of quotes, white
space, a newline and metacharacters, next to a copied path with a space and an `-o`. -/
example :
    let env : Env := fun n => if n = ['D'] then "/s d".toList else if n = ['O','U','T'] then "o *".toList else []
    shSplit env (renderItems [.plain [] "a'b \"c\n;*$x\\".toList, .copied "--v=".toList "w/x y".toList, .out])
      = some ["a'b \"c\n;*$x\\".toList, "--v=/s d/w/x y".toList, "-o".toList, "o *".toList] := by
  decide

/-! ## regression witnesses: the rendering before the fix -/

def envPlain : Env := fun n => if n = ['D'] then "/s".toList else if n = ['O','U','T'] then "/o".toList else []

/-- Full statement for the old rendering. -/
def C24_old_full : Prop :=
  ∀ (env : Env) (items : List Item), shSplit env (renderItemsOld items) = some (substitute env items)

/-- space in a copied path: two words instead of one -/
theorem old_rendering_space_in_copied_path_witness :
    shSplit envPlain (renderItemsOld [.copied [] "w/a b.o".toList]) = some ["/s/w/a".toList, "b.o".toList] := by
  decide

/-- single quote: the text is not a complete command any more -/
theorem old_rendering_single_quote_witness :
    shSplit envPlain (renderItemsOld [.plain [] "it's".toList]) = none := by decide

/-- double quote: quote removal loses it -/
theorem old_rendering_double_quote_witness :
    shSplit envPlain (renderItemsOld [.plain [] "a\"b\"".toList]) = some ["ab".toList] := by decide

/-- `;` ends the command -/
theorem old_rendering_semicolon_witness :
    shSplit envPlain (renderItemsOld [.plain [] "a;b".toList]) = none := by decide

/-- `*` is subject to pathname expansion -/
theorem old_rendering_glob_witness :
    shSplit envPlain (renderItemsOld [.plain [] "--exclude-libs=*".toList]) = none := by decide

/-- newline ends the command -/
theorem old_rendering_newline_witness :
    shSplit envPlain (renderItemsOld [.plain [] "a\nb".toList]) = none := by decide

/-- the empty argument disappears -/
theorem old_rendering_empty_arg_witness :
    shSplit envPlain (renderItemsOld [.plain [] [], .plain [] ['x']]) = some [['x']] := by decide

/-- a save directory / output path with a space is split -/
theorem old_rendering_var_space_witness :
    shSplit (fun n => if n = ['O','U','T'] then "/o p".toList else []) (renderItemsOld [.out])
      = some ["-o".toList, "/o".toList, "p".toList] := by decide

theorem C24_old_counterexample : ¬ C24_old_full := by
  intro h
  have := h envPlain [.plain [] "it's".toList]
  rw [old_rendering_single_quote_witness] at this
  cases this

/-! ## saved response files under wild's own tokenizer -/

def isPlain : Item → Bool
  | .plain pre s => !(pre ++ s).isEmpty
  | _ => false

def itemText : Item → List Char
  | .plain pre s => pre ++ s
  | _ => []

def pushHeap (heap : Option (List Char)) (s : List Char) : Option (List Char) :=
  if s.isEmpty then heap else some (heap.getD [] ++ s)

theorem tok_atEsc (s : List Char) : ∀ (prev : Char) (out : List (List Char)) (heap : Option (List Char)) (rest : List Char),
    tokRun ⟨out, heap, some '"', false, false⟩ (atEsc prev s ++ rest)
      = tokRun ⟨out, pushHeap heap s, some '"', false, false⟩ rest := by
  induction s with
  | nil => intro prev out heap rest; simp [atEsc, pushHeap]
  | cons c cs ih =>
    intro prev out heap rest
    have hph : pushHeap (some (heap.getD [] ++ [c])) cs = pushHeap heap (c :: cs) := by
      unfold pushHeap; cases cs <;> simp
    by_cases h1 : c = '\\'
    · subst h1
      simp [atEsc, tokRun, tokStep, Tok.pushc, isWs, ih, hph]
    · by_cases h2 : c = '"'
      · subst h2
        simp [atEsc, tokRun, tokStep, Tok.pushc, isWs, ih, hph]
      · by_cases h3 : (prev == '$' && (c == 'D' || c == 'O')) = true
        · simp only [Bool.and_eq_true, Bool.or_eq_true, beq_iff_eq] at h3
          obtain ⟨hD0, hc⟩ := h3
          have hD : (prev == '$') = true := by simpa using hD0
          rcases hc with hc | hc <;> subst hc <;>
            simp [atEsc, hD, tokRun, tokStep, Tok.pushc, isWs, ih, hph]
        · have h3' : (prev == '$' && (c == 'D' || c == 'O')) = false := by simpa using h3
          by_cases h4 : c = '\''
          · subst h4
            simp [atEsc, tokRun, tokStep, Tok.pushc, isWs, ih, hph]
          · by_cases h5 : isWs c = true
            · simp [atEsc, h1, h2, h3', h4, h5, tokRun, tokStep, Tok.pushc, ih, hph]
            · simp [atEsc, h1, h2, h3', h4, h5, tokRun, tokStep, Tok.pushc, ih, hph]

def tokFinish (t : Tok) : Option (List (List Char)) :=
  if t.esc || t.quote.isSome then none else some t.flush.out.reverse

theorem tok_items (items : List Item) (hp : ∀ i ∈ items, isPlain i = true) :
    ∀ (out : List (List Char)) (ew : Bool),
    (tokRun ⟨out, none, none, ew, false⟩ (renderRspItems items)).bind tokFinish
      = some (out.reverse ++ items.map itemText) := by
  induction items with
  | nil => intro out ew; simp [renderRspItems, tokRun, tokFinish, Tok.flush]
  | cons it is ih =>
    intro out ew
    have hit := hp it (by simp)
    have his : ∀ i ∈ is, isPlain i = true := fun i hi => hp i (by simp [hi])
    cases it with
    | plain pre s =>
      have hne : (pre ++ s).isEmpty = false := by simpa [isPlain] using hit
      have hheap : pushHeap (pushHeap none pre) s = some (pre ++ s) := by
        unfold pushHeap
        cases pre <;> cases s <;> simp at hne ⊢
      simp only [renderRspItems, renderRspItem, List.cons_append, List.append_assoc]
      simp only [tokRun, tokStep]
      simp [isWs, Tok.flush, tok_atEsc, hheap, tokRun, tokStep, ih his, itemText]
    | copied pre rel => simp [isPlain] at hit
    | out => simp [isPlain] at hit
    | rsp n => simp [isPlain] at hit

/-- At-file content written for plain (non-copied) arguments of ANY text — white space, newlines,
both quotes, backslashes — is read back by wild's response-file tokenizer as exactly those
arguments (before the `$D`/`$OUT` substitution of the run-with loop, which leaves such text alone
because `write_at_file_escaped` breaks every `$D`/`$O`). -/
theorem rsp_roundtrip_nosubst (items : List Item) (hp : ∀ i ∈ items, isPlain i = true) :
    argsFromString (renderRspItems items) = some (items.map itemText) := by
  have := tok_items items hp [] false
  simp only [List.reverse_nil, List.nil_append] at this
  unfold argsFromString Tok.init
  exact this

example : argsFromString (renderRspItems [.plain [] "a b\n'c\" \\$D".toList, .plain "--x=".toList "y z".toList])
    = some ["a b\n'c\" \\$D".toList, "--x=y z".toList] := by decide

example : substRsp "/s \"d".toList "o".toList (renderRspItems [.copied "--v=".toList "w/x y".toList, .out, .plain [] "$D$OUT".toList])
    = "\n\"--v=/s \\\"d/w/x y\"\n-o \"o\"\n\"$\\D$\\OUT\"".toList := by decide

/-- The at-file rendering before the fix: arguments written raw. -/
def renderRspItemsOld : List Item → List Char
  | [] => []
  | .plain pre s :: is => '\n' :: (pre ++ s ++ renderRspItemsOld is)
  | .copied pre rel :: is => '\n' :: (pre ++ ['$', 'D', '/'] ++ rel ++ renderRspItemsOld is)
  | .out :: is => ['\n', '-', 'o', ' ', '$', 'O', 'U', 'T'] ++ renderRspItemsOld is
  | .rsp _ :: is => renderRspItemsOld is

/-- a response-file argument with a space came back as two arguments -/
theorem old_rsp_space_witness :
    argsFromString (renderRspItemsOld [.plain [] "a b.o".toList]) = some ["a".toList, "b.o".toList] := by decide

/-- What did hold before the fix: arguments and paths over the safe alphabet. -/
def isSafeChar (c : Char) : Bool :=
  c.isAlphanum || c == '_' || c == '@' || c == '%' || c == '+' || c == '=' || c == ':' || c == ',' ||
  c == '.' || c == '/' || c == '-'

end Wild.C24
