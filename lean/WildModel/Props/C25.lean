import WildModel.Model.DepFile
/-!
# C25 — The dependency file lists exactly the files the link read (writer part)

`writeDep out files` is the text `write_dependency_file` produces for the loaded-files list
(`files` = (filename, temporary)). Whether that list equals the set of files the link read is an
observation on real links (strace ground truth in the check), not a model output.

* `dep_target_is_output` — the text starts with `<output>:` (all inputs).
* `dep_each_once` — the listed dependencies are exactly the non-temporary loaded files, each once
  (all inputs).
* `dep_parse_roundtrip_partial` — make reads back (output, that list) when the paths are over the
  alphabet that needs no quoting in make; `dep_*_witness` — the code does no make quoting, so a path
  with a space, `#`, `$` or `:` is NOT read back (`C25_full` is false: `C25_counterexample`).
-/
namespace Wild.C25
open Wild.DepFile

/-! ## target and membership -/

theorem dep_target_is_output (out : List Char) (files : List (List Char × Bool)) :
    (out ++ [':']) <+: writeDep out files := by
  unfold writeDep
  exact ⟨firstLine (depsOf files) ++ '\n' :: phonyRules (depsOf files), by simp⟩

theorem mem_dedupAux (ps : List (List Char)) : ∀ (seen : List (List Char)) (p : List Char),
    p ∈ dedupAux seen ps ↔ (p ∈ ps ∧ p ∉ seen) := by
  induction ps with
  | nil => intro seen p; simp [dedupAux]
  | cons q qs ih =>
    intro seen p
    by_cases hq : q ∈ seen
    · have hc : seen.contains q = true := by simpa using hq
      rw [dedupAux, if_pos hc, ih, List.mem_cons]
      constructor
      · rintro ⟨h1, h2⟩; exact ⟨Or.inr h1, h2⟩
      · rintro ⟨h1 | h1, h2⟩
        · subst h1; exact absurd hq h2
        · exact ⟨h1, h2⟩
    · have hc : ¬ seen.contains q = true := by simpa using hq
      rw [dedupAux, if_neg hc, List.mem_cons, ih, List.mem_cons, List.mem_cons]
      constructor
      · rintro (h1 | ⟨h1, h2⟩)
        · subst h1; exact ⟨Or.inl rfl, hq⟩
        · exact ⟨Or.inr h1, fun hs => h2 (Or.inr hs)⟩
      · rintro ⟨h1 | h1, h2⟩
        · exact Or.inl h1
        · by_cases hpq : p = q
          · exact Or.inl hpq
          · refine Or.inr ⟨h1, ?_⟩
            rintro (hs | hs)
            · exact hpq hs
            · exact h2 hs

theorem nodup_dedupAux (ps : List (List Char)) : ∀ (seen : List (List Char)), (dedupAux seen ps).Nodup := by
  induction ps with
  | nil => intro seen; simp [dedupAux]
  | cons q qs ih =>
    intro seen
    by_cases hq : q ∈ seen
    · have hc : seen.contains q = true := by simpa using hq
      rw [dedupAux, if_pos hc]; exact ih seen
    · have hc : ¬ seen.contains q = true := by simpa using hq
      rw [dedupAux, if_neg hc, List.nodup_cons]
      refine ⟨?_, ih _⟩
      intro hm
      exact ((mem_dedupAux qs (q :: seen) q).1 hm).2 (by simp)

/-- The dependency list holds every non-temporary loaded file, nothing else, and each once. -/
theorem dep_each_once (files : List (List Char × Bool)) :
    (depsOf files).Nodup ∧ ∀ p, p ∈ depsOf files ↔ (p, false) ∈ files := by
  refine ⟨nodup_dedupAux _ _, ?_⟩
  intro p
  unfold depsOf
  rw [mem_dedupAux]
  simp only [List.mem_map, List.mem_filter, List.not_mem_nil, not_false_eq_true, and_true]
  constructor
  · rintro ⟨⟨a, b⟩, ⟨hm, hb⟩, rfl⟩
    have : b = false := by simpa using hb
    subst this; exact hm
  · intro h; exact ⟨(p, false), ⟨h, by simp⟩, rfl⟩

/-! ## reading it back -/

def safePath (p : List Char) : Bool := !p.isEmpty && p.all isSafe

theorem splitOn_ne_nil (p : Char → Bool) (s : List Char) : splitOn p s ≠ [] := by
  induction s with
  | nil => simp [splitOn]
  | cons c cs ih =>
    unfold splitOn
    split
    · simp
    · split <;> simp

theorem splitOn_sep (p : Char → Bool) (c : Char) (hc : p c = true) (b : List Char) :
    splitOn p (c :: b) = [] :: splitOn p b := by
  have := splitOn_ne_nil p b
  conv => lhs; unfold splitOn
  cases h : splitOn p b with
  | nil => exact absurd h this
  | cons w ws => simp [hc]

theorem splitOn_none (p : Char → Bool) (a : List Char) (ha : ∀ c ∈ a, p c = false) : splitOn p a = [a] := by
  induction a with
  | nil => simp [splitOn]
  | cons c cs ih =>
    have h1 : p c = false := ha c (by simp)
    have h2 := ih (fun x hx => ha x (by simp [hx]))
    conv => lhs; unfold splitOn
    simp [h2, h1]

theorem splitOn_append_sep (p : Char → Bool) (a : List Char) (ha : ∀ c ∈ a, p c = false) (c : Char)
    (hc : p c = true) (b : List Char) : splitOn p (a ++ c :: b) = a :: splitOn p b := by
  induction a with
  | nil => simpa using splitOn_sep p c hc b
  | cons x xs ih =>
    have h1 : p x = false := ha x (by simp)
    have h2 := ih (fun y hy => ha y (by simp [hy]))
    simp only [List.cons_append]
    conv => lhs; unfold splitOn
    simp [h2, h1]

theorem safe_props {c : Char} (h : isSafe c = true) :
    isKnown c = true ∧ c ≠ '\n' ∧ c ≠ ':' ∧ c ≠ '#' ∧ isBlank c = false ∧ c ≠ '\t' := by
  have key : ∀ (x : Char), x.toNat < 128 → isSafe x = true →
      (isKnown x = true ∧ x ≠ '\n' ∧ x ≠ ':' ∧ x ≠ '#' ∧ isBlank x = false ∧ x ≠ '\t') := by
    intro x hx hs
    refine ⟨by simp [isKnown, hs], ?_, ?_, ?_, ?_, ?_⟩
    · rintro rfl; revert hs; decide
    · rintro rfl; revert hs; decide
    · rintro rfl; revert hs; decide
    · cases hb : isBlank x with
      | false => rfl
      | true =>
        simp only [isBlank, Bool.or_eq_true, beq_iff_eq] at hb
        rcases hb with rfl | rfl <;> revert hs <;> decide
    · rintro rfl; revert hs; decide
  by_cases hlt : c.toNat < 128
  · exact key c hlt h
  · refine ⟨by simp [isKnown, h], ?_, ?_, ?_, ?_, ?_⟩
    · rintro rfl; exact hlt (by decide)
    · rintro rfl; exact hlt (by decide)
    · rintro rfl; exact hlt (by decide)
    · cases hb : isBlank c with
      | false => rfl
      | true =>
        simp only [isBlank, Bool.or_eq_true, beq_iff_eq] at hb
        rcases hb with rfl | rfl <;> exact absurd (by decide) hlt
    · rintro rfl; exact hlt (by decide)

theorem safePath_all {p : List Char} (h : safePath p = true) : p ≠ [] ∧ ∀ c ∈ p, isSafe c = true := by
  simp only [safePath, Bool.and_eq_true, Bool.not_eq_true', List.all_eq_true] at h
  exact ⟨by intro hp; simp [hp] at h, h.2⟩

theorem stripComment_id (s : List Char) (h : ∀ c ∈ s, c ≠ '#') : stripComment s = s := by
  induction s with
  | nil => rfl
  | cons c cs ih =>
    have h1 : c ≠ '#' := h c (by simp)
    simp [stripComment, h1, ih (fun x hx => h x (by simp [hx]))]

theorem cutColon_append (a b : List Char) (ha : ∀ c ∈ a, c ≠ ':') : cutColon (a ++ ':' :: b) = some (a, b) := by
  induction a with
  | nil => simp [cutColon]
  | cons c cs ih =>
    have h1 : c ≠ ':' := ha c (by simp)
    simp [cutColon, h1, ih (fun x hx => ha x (by simp [hx]))]

theorem words_safe {p : List Char} (h : safePath p = true) : words p = [p] := by
  obtain ⟨hne, hall⟩ := safePath_all h
  unfold words
  rw [splitOn_none isBlank p (fun c hc => (safe_props (hall c hc)).2.2.2.2.1)]
  cases p with
  | nil => exact absurd rfl hne
  | cons => simp

/-- shape of the blank-split of the first line's tail -/
theorem firstLine_split (deps : List (List Char)) (hs : ∀ d ∈ deps, safePath d = true) :
    ∃ tl, splitOn isBlank (firstLine deps) = [] :: tl ∧ tl.filter (fun w => !w.isEmpty) = deps ∧
      ∀ d, safePath d = true → splitOn isBlank (d ++ firstLine deps) = d :: tl := by
  induction deps with
  | nil =>
    refine ⟨[], by simp [firstLine, splitOn], by simp, ?_⟩
    intro d hd
    obtain ⟨_, hall⟩ := safePath_all hd
    simpa [firstLine] using splitOn_none isBlank d (fun c hc => (safe_props (hall c hc)).2.2.2.2.1)
  | cons e es ih =>
    obtain ⟨tl, h1, h2, h3⟩ := ih (fun d hd => hs d (by simp [hd]))
    have he : safePath e = true := hs e (by simp)
    obtain ⟨hene, _⟩ := safePath_all he
    refine ⟨e :: tl, ?_, ?_, ?_⟩
    · simp only [firstLine]
      rw [splitOn_sep isBlank ' ' (by decide), h3 e he]
    · cases e with
      | nil => exact absurd rfl hene
      | cons => simp [h2]
    · intro d hd
      obtain ⟨_, hall⟩ := safePath_all hd
      simp only [firstLine]
      rw [splitOn_append_sep isBlank d (fun c hc => (safe_props (hall c hc)).2.2.2.2.1) ' ' (by decide), h3 e he]

theorem words_firstLine (deps : List (List Char)) (hs : ∀ d ∈ deps, safePath d = true) :
    words (firstLine deps) = deps := by
  obtain ⟨tl, h1, h2, _⟩ := firstLine_split deps hs
  unfold words
  rw [h1]
  simpa using h2

theorem firstLine_chars (deps : List (List Char)) (hs : ∀ d ∈ deps, safePath d = true) :
    ∀ c ∈ firstLine deps, c = ' ' ∨ isSafe c = true := by
  induction deps with
  | nil => simp [firstLine]
  | cons e es ih =>
    intro c hc
    simp only [firstLine, List.mem_cons, List.mem_append] at hc
    rcases hc with rfl | hc | hc
    · exact Or.inl rfl
    · exact Or.inr ((safePath_all (hs e (by simp))).2 c hc)
    · exact ih (fun d hd => hs d (by simp [hd])) c hc

theorem parseRule_phony {d : List Char} (h : safePath d = true) : (parseRule (d ++ [':'])).isSome = true := by
  obtain ⟨hne, hall⟩ := safePath_all h
  have hc := cutColon_append d [] (fun c hc => (safe_props (hall c hc)).2.2.1)
  have hw := words_safe h
  cases d with
  | nil => exact absurd rfl hne
  | cons x xs =>
    have hx : x ≠ '\t' := (safe_props (hall x (by simp))).2.2.2.2.2
    have hc' : cutColon (x :: (xs ++ [':'])) = some (x :: xs, []) := by simpa using hc
    unfold parseRule
    simp [hx, hc', hw]

theorem phony_lines (deps : List (List Char)) (hs : ∀ d ∈ deps, safePath d = true) :
    ∃ ls, splitOn (· == '\n') (phonyRules deps) = ls ∧ restOk (ls.map stripComment) = true := by
  induction deps with
  | nil => exact ⟨[[]], by simp [phonyRules, splitOn], by simp [restOk, stripComment, words, splitOn]⟩
  | cons e es ih =>
    obtain ⟨ls, h1, h2⟩ := ih (fun d hd => hs d (by simp [hd]))
    have he : safePath e = true := hs e (by simp)
    obtain ⟨_, hall⟩ := safePath_all he
    refine ⟨[] :: (e ++ [':']) :: ls, ?_, ?_⟩
    · simp only [phonyRules]
      rw [splitOn_sep _ '\n' (by decide)]
      have : e ++ ':' :: '\n' :: phonyRules es = (e ++ [':']) ++ '\n' :: phonyRules es := by simp
      rw [this, splitOn_append_sep _ (e ++ [':']) ?_ '\n' (by decide), h1]
      intro c hc
      simp only [List.mem_append, List.mem_singleton] at hc
      rcases hc with hc | rfl
      · simpa using (safe_props (hall c hc)).2.1
      · decide
    · have hsc : stripComment (e ++ [':']) = e ++ [':'] := by
        apply stripComment_id
        intro c hc
        simp only [List.mem_append, List.mem_singleton] at hc
        rcases hc with hc | rfl
        · exact (safe_props (hall c hc)).2.2.2.1
        · decide
      simp [restOk, stripComment, hsc, parseRule_phony he, h2, words, splitOn]

/-- **C25, reading back (part that holds).** When the output and every listed path are non-empty
and over the alphabet make does not interpret, make reads the file as: target = output,
prerequisites = the non-temporary loaded files, each once, in load order. -/
theorem dep_parse_roundtrip_partial (out : List Char) (files : List (List Char × Bool))
    (hout : safePath out = true) (hdeps : ∀ d ∈ depsOf files, safePath d = true) :
    parseMake (writeDep out files) = some (out, depsOf files) := by
  obtain ⟨houtne, houtall⟩ := safePath_all hout
  obtain ⟨ls, hl1, hl2⟩ := phony_lines (depsOf files) hdeps
  have hfl := firstLine_chars (depsOf files) hdeps
  -- every character is known
  have hknown : (writeDep out files).all isKnown = true := by
    simp only [writeDep, List.all_eq_true, List.mem_append, List.mem_cons]
    have hph : ∀ (ds : List (List Char)), (∀ d ∈ ds, safePath d = true) → ∀ c ∈ phonyRules ds, isKnown c = true := by
      intro ds
      induction ds with
      | nil => simp [phonyRules]
      | cons e es ih =>
        intro hs c hc
        simp only [phonyRules, List.mem_cons, List.mem_append] at hc
        rcases hc with rfl | hc | rfl | rfl | hc
        · decide
        · exact (safe_props ((safePath_all (hs e (by simp))).2 c hc)).1
        · decide
        · decide
        · exact ih (fun d hd => hs d (by simp [hd])) c hc
    intro c hc
    rcases hc with hc | rfl | hc | rfl | hc
    · exact (safe_props (houtall c hc)).1
    · decide
    · rcases hfl c hc with rfl | h
      · decide
      · exact (safe_props h).1
    · decide
    · exact hph _ hdeps c hc
  -- the first line
  have hline0 : ∀ c ∈ out ++ ':' :: firstLine (depsOf files), (c == '\n') = false := by
    intro c hc
    simp only [List.mem_append, List.mem_cons] at hc
    rcases hc with hc | rfl | hc
    · simpa using (safe_props (houtall c hc)).2.1
    · decide
    · rcases hfl c hc with rfl | h
      · decide
      · simpa using (safe_props h).2.1
  have hsplit : splitOn (· == '\n') (writeDep out files) = (out ++ ':' :: firstLine (depsOf files)) :: ls := by
    have : writeDep out files = (out ++ ':' :: firstLine (depsOf files)) ++ '\n' :: phonyRules (depsOf files) := by
      simp [writeDep]
    rw [this, splitOn_append_sep _ _ hline0 '\n' (by decide), hl1]
  have hstrip : stripComment (out ++ ':' :: firstLine (depsOf files)) = out ++ ':' :: firstLine (depsOf files) := by
    apply stripComment_id
    intro c hc
    simp only [List.mem_append, List.mem_cons] at hc
    rcases hc with hc | rfl | hc
    · exact (safe_props (houtall c hc)).2.2.2.1
    · decide
    · rcases hfl c hc with rfl | h
      · decide
      · exact (safe_props h).2.2.2.1
  have hcut := cutColon_append out (firstLine (depsOf files)) (fun c hc => (safe_props (houtall c hc)).2.2.1)
  have hnocolon : (firstLine (depsOf files)).contains ':' = false := by
    cases hcon : (firstLine (depsOf files)).contains ':' with
    | false => rfl
    | true =>
      have hm : ':' ∈ firstLine (depsOf files) := by simpa using hcon
      rcases hfl ':' hm with h | h
      · exact absurd h (by decide)
      · exact absurd h (by decide)
  have hnocolon' : ':' ∉ firstLine (depsOf files) := by simpa using hnocolon
  have hhead : ¬ out.head?.getD ':' = '\t' := by
    cases out with
    | nil => exact absurd rfl houtne
    | cons x xs => simpa using (safe_props (houtall x (by simp))).2.2.2.2.2
  have hrule : parseRule (out ++ ':' :: firstLine (depsOf files)) = some ([out], depsOf files) := by
    unfold parseRule
    simp [hhead, hcut, hnocolon', words_safe hout, words_firstLine _ hdeps]
  unfold parseMake
  simp [hknown, hsplit, hstrip, hrule, hl2]

/-- The hypotheses are satisfiable; duplicates and temporaries are dropped. -/
example : parseMake (writeDep "out/bin".toList
      [("a.o".toList, false), ("/tmp/lto.o".toList, true), ("lib/libx.a".toList, false), ("a.o".toList, false)])
    = some ("out/bin".toList, ["a.o".toList, "lib/libx.a".toList]) := by decide

/-! ## what does not hold: the code writes paths without any make quoting -/

/-- Full statement: every path (no NUL / newline) is read back. -/
def C25_full : Prop :=
  ∀ (out : List Char) (files : List (List Char × Bool)),
    out ≠ [] → (∀ f ∈ files, f.1 ≠ [] ∧ '\n' ∉ f.1) → '\n' ∉ out →
    parseMake (writeDep out files) = some (out, depsOf files)

/-- a space splits the path into two prerequisites -/
theorem dep_space_witness :
    parseMake (writeDep "out".toList [("my lib.a".toList, false)]) = some ("out".toList, ["my".toList, "lib.a".toList]) := by
  decide

/-- `#` starts a comment: the rest of the list is lost (and the rule `a#1.o:` becomes the line `a`,
which make rejects) -/
theorem dep_hash_witness :
    parseMake (writeDep "out".toList [("a#1.o".toList, false), ("b.o".toList, false)]) = none := by
  decide
theorem dep_hash_first_line_witness :
    (parseRule (stripComment "out: a#1.o b.o".toList)) = some (["out".toList], ["a".toList]) := by decide

/-- `$` is a variable reference, `:` a second rule separator: outside what make reads as this rule -/
theorem dep_dollar_witness : parseMake (writeDep "out".toList [("a$x.o".toList, false)]) = none := by decide
theorem dep_colon_witness : parseMake (writeDep "out".toList [("a:b.o".toList, false)]) = none := by decide

/-- a space in the output path gives the rule two targets -/
theorem dep_target_space_witness : parseMake (writeDep "my out".toList [("a.o".toList, false)]) = none := by decide

theorem C25_counterexample : ¬ C25_full := by
  intro h
  have := h "out".toList [("my lib.a".toList, false)] (by decide) (by decide) (by decide)
  rw [dep_space_witness] at this
  revert this; decide

end Wild.C25
