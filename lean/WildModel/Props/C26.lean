import WildModel.Model.ErrSelect
/-!
# C26 — Diagnostics are deterministic

Property (spec side, independent of how the code selects): for every error-collection site, if two
arrival sequences `σ σ'` are permutations of the same multiset of errors (same inputs, same
arguments, different thread schedule), the reported text is the same:
`Deterministic select := ∀ σ σ', σ.Perm σ' → reported (select σ) = reported (select σ')`.

Per site (see `Model/ErrSelect.lean` for the anchored code):

| site                                   | selection in the working tree | result |
|----------------------------------------|-------------------------------|--------|
| symbol_db.rs duplicate symbols         | sort, join                    | `dup_errors_deterministic` |
| layout.rs find_required_sections       | least message (FIXED)         | `layout_select_deterministic`; upstream `pop()`: `last_arrival_not_deterministic` |
| resolution.rs Outputs.errors           | least message (FIXED)         | `resolution_select_deterministic`; upstream `ArrayQueue(1)`: `first_arrival_not_deterministic` |
| string_merging.rs errors               | first arrival (unchanged)     | `first_arrival_not_deterministic`, `strmerge_deterministic_of_same_msg` |
| elf_writer.rs write_file_contents      | first in group order (FIXED)  | `writer_select_deterministic`; upstream `try_for_each`: `try_for_each_not_deterministic` |
| warnings                               | printed on arrival            | `warning_set_deterministic` (as a set) |

Residual, proved as a witness and recorded as a known finding: the layout traversal drops a group's
worker on a hard `do_work` error, so the MULTISET of errors itself depends on the order in which
work items reach the group (`layout_hard_error_truncation_witness`); `C26_full_false`.
-/
namespace Wild.ErrSelect

/-- The property for a selection function returning an error value. -/
def Deterministic (select : List Err → Option Err) : Prop :=
  ∀ σ σ' : List Err, σ.Perm σ' → reported (select σ) = reported (select σ')

/-! ## The code's containers reduce to first / last arrival -/

theorem foldl_vecPush (acc σ : List Err) : σ.foldl vecPush acc = acc ++ σ := by
  induction σ generalizing acc with
  | nil => simp
  | cons a l ih => simp [List.foldl, vecPush, ih]

theorem selectLastArrival_eq (σ : List Err) : selectLastArrival σ = σ.getLast? := by
  simp [selectLastArrival, vecPop, foldl_vecPush]

theorem foldl_arrayQueuePush_full (a : Err) (σ : List Err) :
    σ.foldl (arrayQueuePush 1) [a] = [a] := by
  induction σ with
  | nil => rfl
  | cons b l ih => simpa [List.foldl, arrayQueuePush] using ih

theorem selectFirstArrival_eq (σ : List Err) : selectFirstArrival σ = σ.head? := by
  cases σ with
  | nil => rfl
  | cons a l =>
    simp [selectFirstArrival, queuePop, List.foldl, arrayQueuePush, foldl_arrayQueuePush_full]

/-! ## Sorting by message is permutation invariant on the visible text -/

theorem leMsg_trans (a b c : Err) : leMsg a b = true → leMsg b c = true → leMsg a c = true := by
  simp only [leMsg, decide_eq_true_eq]
  exact String.le_trans

theorem leMsg_total (a b : Err) : (leMsg a b || leMsg b a) = true := by
  simp only [leMsg, Bool.or_eq_true, decide_eq_true_eq]
  exact String.le_total _ _

theorem insertByMsg_perm (e : Err) (l : List Err) : (insertByMsg e l).Perm (e :: l) := by
  induction l with
  | nil => exact List.Perm.refl _
  | cons a l ih =>
    unfold insertByMsg
    split
    · exact List.Perm.refl _
    · exact (ih.cons a).trans (List.Perm.swap _ _ _)

theorem sortByMsg_perm (σ : List Err) : (sortByMsg σ).Perm σ := by
  induction σ with
  | nil => exact List.Perm.refl _
  | cons a l ih => exact (insertByMsg_perm a _).trans (ih.cons a)

theorem insertByMsg_pairwise (e : Err) (l : List Err)
    (h : l.Pairwise (fun a b => leMsg a b = true)) :
    (insertByMsg e l).Pairwise (fun a b => leMsg a b = true) := by
  induction l with
  | nil => simp [insertByMsg]
  | cons a l ih =>
    have ha := (List.pairwise_cons.mp h).1
    have hl := (List.pairwise_cons.mp h).2
    unfold insertByMsg
    split
    · rename_i hea
      refine List.pairwise_cons.mpr ⟨?_, h⟩
      intro x hx
      rcases List.mem_cons.mp hx with rfl | hxl
      · exact hea
      · exact leMsg_trans _ _ _ hea (ha x hxl)
    · rename_i hea
      have hae : leMsg a e = true := by
        have := leMsg_total e a
        simp only [Bool.or_eq_true] at this
        rcases this with h1 | h1
        · exact absurd h1 hea
        · exact h1
      refine List.pairwise_cons.mpr ⟨?_, ih hl⟩
      intro x hx
      have hx' : x ∈ e :: l := (insertByMsg_perm e l).mem_iff.mp hx
      rcases List.mem_cons.mp hx' with rfl | hxl
      · exact hae
      · exact ha x hxl

theorem sortByMsg_pairwise (σ : List Err) :
    (sortByMsg σ).Pairwise (fun a b => leMsg a b = true) := by
  induction σ with
  | nil => exact List.Pairwise.nil
  | cons a l ih => exact insertByMsg_pairwise a _ ih

theorem sortByMsg_sorted (σ : List Err) :
    ((sortByMsg σ).map (·.msg)).Pairwise (· ≤ ·) := by
  rw [List.pairwise_map]
  exact (sortByMsg_pairwise σ).imp (fun {a b} hab => by simpa [leMsg] using hab)

/-- Core lemma: the sorted message list is a function of the multiset. -/
theorem sorted_msgs_perm_invariant {σ σ' : List Err} (h : σ.Perm σ') :
    (sortByMsg σ).map (·.msg) = (sortByMsg σ').map (·.msg) := by
  apply List.Perm.eq_of_pairwise (le := (· ≤ ·))
  · intro a b _ _ hab hba; exact String.le_antisymm hab hba
  · exact sortByMsg_sorted σ
  · exact sortByMsg_sorted σ'
  · exact ((sortByMsg_perm σ).trans (h.trans (sortByMsg_perm σ').symm)).map _

theorem reported_selectLeast (σ : List Err) :
    reported (selectLeast σ) = ((sortByMsg σ).map (·.msg)).head? := by
  simp [reported, selectLeast, List.head?_map]

/-- Least-message selection (fixed layout and resolution sites) is deterministic. -/
theorem least_deterministic : Deterministic selectLeast := by
  intro σ σ' h
  rw [reported_selectLeast, reported_selectLeast, sorted_msgs_perm_invariant h]

/-- Independent characterisation of what `selectLeast` reports: a member of `σ` whose message is
`≤` every message in `σ` (so the reported text is THE least message of the multiset). -/
theorem selectLeast_spec (σ : List Err) (e : Err) (h : selectLeast σ = some e) :
    e ∈ σ ∧ ∀ x ∈ σ, e.msg ≤ x.msg := by
  unfold selectLeast at h
  have hp := sortByMsg_perm σ
  have hs := sortByMsg_pairwise σ
  cases hl : sortByMsg σ with
  | nil => rw [hl] at h; cases h
  | cons a l =>
    rw [hl] at h hp hs
    simp only [List.head?_cons, Option.some.injEq] at h
    subst h
    refine ⟨hp.mem_iff.mp (List.mem_cons_self), ?_⟩
    intro x hx
    have hx' : x ∈ a :: l := hp.mem_iff.mpr hx
    rcases List.mem_cons.mp hx' with rfl | hxl
    · exact String.le_refl _
    · have := (List.pairwise_cons.mp hs).1 x hxl
      simpa [leMsg] using this

theorem selectLeast_isSome (σ : List Err) : (selectLeast σ).isSome = !σ.isEmpty := by
  unfold selectLeast
  have hp := sortByMsg_perm σ
  cases hl : sortByMsg σ with
  | nil => rw [hl] at hp; have := hp.symm.eq_nil; subst this; rfl
  | cons a l =>
    cases σ with
    | nil => rw [hl] at hp; exact absurd hp.eq_nil (by simp)
    | cons b m => rfl

/-! ## Site: duplicate symbols (`resolve_alternative_symbol_definitions`) -/

/-- The sorted, joined duplicate-symbol report does not depend on the arrival order. -/
theorem dup_errors_deterministic (σ σ' : List Err) (h : σ.Perm σ') : selectDup σ = selectDup σ' := by
  unfold selectDup
  have he : σ.isEmpty = σ'.isEmpty := by
    cases σ with
    | nil => have := h.symm.eq_nil; subst this; rfl
    | cons a l =>
      cases σ' with
      | nil => exact absurd h.eq_nil (by simp)
      | cons b m => rfl
  rw [he, sorted_msgs_perm_invariant h]

/-! ## Site: layout `find_required_sections` -/

/-- Working tree (sorted): deterministic for a fixed multiset of errors. -/
theorem layout_select_deterministic : Deterministic selectLeast := least_deterministic

/-- Upstream `errors.pop()`: NOT deterministic; two undefined symbols in two groups suffice. -/
theorem last_arrival_not_deterministic : ¬ Deterministic selectLastArrival := by
  intro h
  have := h [⟨"Undefined symbol a", 1⟩, ⟨"Undefined symbol b", 2⟩]
            [⟨"Undefined symbol b", 2⟩, ⟨"Undefined symbol a", 1⟩] (List.Perm.swap _ _ _)
  revert this
  decide

/-- Errors of one group, when no item fails hard: a permutation of the soft errors, whatever the
order in which the items reach the group. -/
theorem groupErrors_of_no_hard (items : List Outcome) (h : items.all (fun o => !isHard o) = true) :
    groupErrors items = softErrors items := by
  induction items with
  | nil => rfl
  | cons o r ih =>
    cases o with
    | ok =>
      rw [List.all_cons, Bool.and_eq_true] at h
      simp only [groupErrors, softErrors]; exact ih h.2
    | soft e =>
      rw [List.all_cons, Bool.and_eq_true] at h
      simp only [groupErrors, softErrors]; rw [ih h.2]
    | hard e =>
      rw [List.all_cons, Bool.and_eq_true] at h
      exact absurd h.1 (by simp [isHard])

theorem softErrors_perm {a b : List Outcome} (h : a.Perm b) : (softErrors a).Perm (softErrors b) := by
  induction h with
  | nil => exact List.Perm.refl _
  | cons x _ ih => cases x <;> simp only [softErrors] <;> first | exact ih | exact ih.cons _
  | swap x y l =>
    cases x <;> cases y <;> simp [softErrors] <;> exact List.Perm.swap _ _ _
  | trans _ _ ih1 ih2 => exact ih1.trans ih2

/-- Without hard errors (the undefined-symbol case) the reported text of the fixed layout site does
not depend on the order in which work reaches a group. -/
theorem layout_group_deterministic_of_no_hard (items items' : List Outcome) (hp : items.Perm items')
    (h : items.all (fun o => !isHard o) = true) :
    reported (selectLeast (groupErrors items)) = reported (selectLeast (groupErrors items')) := by
  have h' : items'.all (fun o => !isHard o) = true := by
    rw [List.all_eq_true] at h ⊢
    intro o ho; exact h o (hp.mem_iff.mpr ho)
  rw [groupErrors_of_no_hard _ h, groupErrors_of_no_hard _ h']
  exact least_deterministic _ _ (softErrors_perm hp)

/-- RESIDUAL (known finding `layout-hard-error-drops-worker`): a hard error drops the group's worker,
so which other errors of that group were already reported depends on the item order, and so does
the least message. -/
theorem layout_hard_error_truncation_witness :
    ∃ items items' : List Outcome, items.Perm items' ∧
      reported (selectLeast (groupErrors items)) ≠ reported (selectLeast (groupErrors items')) :=
  ⟨[.soft ⟨"Undefined symbol a", 1⟩, .hard ⟨"Unsupported relocation", 1⟩],
   [.hard ⟨"Unsupported relocation", 1⟩, .soft ⟨"Undefined symbol a", 1⟩],
   List.Perm.swap _ _ _, by decide⟩

/-! ## Site: resolution `Outputs.errors` and string merging `errors` -/

/-- Working tree (resolution, sorted): deterministic. -/
theorem resolution_select_deterministic : Deterministic selectLeast := least_deterministic

/-- `ArrayQueue::new(1)` + ignored push failure: NOT deterministic. -/
theorem first_arrival_not_deterministic : ¬ Deterministic selectFirstArrival := by
  intro h
  have := h [⟨"Failed to resolve symbols in a.o", 1⟩, ⟨"Failed to resolve symbols in b.o", 2⟩]
            [⟨"Failed to resolve symbols in b.o", 2⟩, ⟨"Failed to resolve symbols in a.o", 1⟩]
            (List.Perm.swap _ _ _)
  revert this
  decide

/-- String merging: the only error that input bytes can provoke there ("String in merge-string
section is not null-terminated") carries no location, so all arriving errors have the same text and
first-arrival selection reports the same text. -/
theorem strmerge_deterministic_of_same_msg (m : String) (σ σ' : List Err) (h : σ.Perm σ')
    (hm : ∀ e ∈ σ, e.msg = m) :
    reported (selectFirstArrival σ) = reported (selectFirstArrival σ') := by
  rw [selectFirstArrival_eq, selectFirstArrival_eq]
  cases σ with
  | nil => have := h.symm.eq_nil; subst this; rfl
  | cons a l =>
    cases σ' with
    | nil => exact absurd h.eq_nil (by simp)
    | cons b r =>
      have hb : b ∈ a :: l := h.mem_iff.mpr (List.mem_cons_self)
      simp [reported, hm a (List.mem_cons_self), hm b hb]

/-! ## Site: `write_file_contents` -/

/-- Working tree: the result is a function of the per-group results only (there is no schedule
parameter), and it is the error of the first failing group in input order. -/
theorem writer_select_deterministic (results : List (Option Err)) (ran : List Bool)
    (hall : ran.all id = true) (hlen : ran.length = results.length) :
    selectFirstInOrder results = selectTryForEach results ran := by
  unfold selectFirstInOrder selectTryForEach
  congr 1
  induction results generalizing ran with
  | nil => simp
  | cons r rs ih =>
    cases ran with
    | nil => simp at hlen
    | cons b bs =>
      simp only [List.all_cons, Bool.and_eq_true, id] at hall
      simp only [List.length_cons, Nat.add_right_cancel_iff] at hlen
      have := ih bs hall.2 hlen
      cases r <;> simp [List.zip_cons_cons, hall.1, this]

theorem writer_select_first_failing (pre : List (Option Err)) (e : Err) (post : List (Option Err))
    (hpre : ∀ r ∈ pre, r = none) :
    selectFirstInOrder (pre ++ some e :: post) = some e := by
  unfold selectFirstInOrder
  induction pre with
  | nil => simp
  | cons r rs ih =>
    have hr : r = none := hpre r (List.mem_cons_self)
    subst hr
    simpa using ih (fun r hr => hpre r (List.mem_cons_of_mem _ hr))

/-- Upstream `try_for_each`: two failing groups; whether the left one still runs after the right one
failed decides the message. Both `ran` vectors are possible rayon behaviours. -/
theorem try_for_each_not_deterministic :
    ∃ (results : List (Option Err)) (ran ran' : List Bool),
      ranPossible results ran = true ∧ ranPossible results ran' = true ∧
      reported (selectTryForEach results ran) ≠ reported (selectTryForEach results ran') :=
  ⟨[some ⟨"Failed copying from a.o", 1⟩, some ⟨"Failed copying from b.o", 2⟩],
   [true, true], [false, true], by decide, by decide, by decide⟩

/-! ## Warnings -/

theorem warning_set_deterministic (σ σ' : List Err) (h : σ.Perm σ') :
    warningSet σ = warningSet σ' := sorted_msgs_perm_invariant h

/-! ## A single error is always reported deterministically, at every site -/

theorem select_deterministic_of_single_error (e : Err) (σ : List Err) (h : σ.Perm [e]) :
    selectLastArrival σ = some e ∧ selectFirstArrival σ = some e ∧ selectLeast σ = some e ∧
    selectDup σ = some ("Duplicate symbols detected: " ++ e.msg) ∧
    (∀ ran, ranPossible [some e] ran = true → selectTryForEach [some e] ran = some e) ∧
    selectFirstInOrder [some e] = some e := by
  have hs : σ = [e] := List.perm_singleton.mp h
  subst hs
  refine ⟨rfl, rfl, ?_, ?_, ?_, rfl⟩
  · simp [selectLeast, sortByMsg, insertByMsg]
  · simp [selectDup, sortByMsg, insertByMsg]
  · intro ran hr
    match ran, hr with
    | [true], _ => rfl
    | [false], hr => simp [ranPossible] at hr
    | [], hr => simp [ranPossible] at hr
    | _ :: _ :: _, hr => simp [ranPossible] at hr

/-! ## Full statement, its status, and the provable part -/

/-- Sites of the working tree with the selection each one uses. -/
inductive Site where
  | layout | resolution | strmerge
  deriving DecidableEq, Repr

def siteSelect : Site → List Err → Option Err
  | .layout => selectLeast
  | .resolution => selectLeast
  | .strmerge => selectFirstArrival

/-- C26 at full strength for the working tree: every site deterministic for every error multiset,
and the layout site additionally for every order in which work items reach a group. -/
def C26_full : Prop :=
  (∀ s, Deterministic (siteSelect s)) ∧
  (∀ items items' : List Outcome, items.Perm items' →
    reported (selectLeast (groupErrors items)) = reported (selectLeast (groupErrors items')))

theorem C26_full_false : ¬ C26_full := by
  intro h
  obtain ⟨a, b, hp, hne⟩ := layout_hard_error_truncation_witness
  exact hne (h.2 a b hp)

/-- The part that holds: sorted sites for every multiset; string merging when all messages agree;
the layout group order when no item fails hard; duplicate report; writer; warnings. -/
theorem C26_partial :
    Deterministic (siteSelect .layout) ∧ Deterministic (siteSelect .resolution) ∧
    (∀ m σ σ', σ.Perm σ' → (∀ e ∈ σ, e.msg = m) →
      reported (siteSelect .strmerge σ) = reported (siteSelect .strmerge σ')) ∧
    (∀ items items' : List Outcome, items.Perm items' → items.all (fun o => !isHard o) = true →
      reported (selectLeast (groupErrors items)) = reported (selectLeast (groupErrors items'))) ∧
    (∀ σ σ', σ.Perm σ' → selectDup σ = selectDup σ') ∧
    (∀ σ σ', σ.Perm σ' → warningSet σ = warningSet σ') :=
  ⟨least_deterministic, least_deterministic,
   fun m σ σ' h hm => strmerge_deterministic_of_same_msg m σ σ' h hm,
   layout_group_deterministic_of_no_hard, dup_errors_deterministic, warning_set_deterministic⟩

/-! ## Non-vacuity -/

example : reported (selectLeast [⟨"Undefined symbol b", 2⟩, ⟨"Undefined symbol a", 1⟩]) =
    some "Undefined symbol a" := by decide
example : selectDup [⟨"d2, defined in x.o and y.o", 2⟩, ⟨"d1, defined in x.o and y.o", 1⟩] =
    some "Duplicate symbols detected: d1, defined in x.o and y.o\nd2, defined in x.o and y.o" := by
  decide
example : groupErrors [.soft ⟨"u", 1⟩, .ok, .soft ⟨"v", 1⟩] = [⟨"u", 1⟩, ⟨"v", 1⟩] := by decide
example : image selectLastArrival [⟨"a", 1⟩, ⟨"b", 2⟩] = ["a", "b"] := by decide
example : image selectLeast [⟨"a", 1⟩, ⟨"b", 2⟩] = ["a"] := by decide

end Wild.ErrSelect
