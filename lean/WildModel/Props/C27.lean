/-
C27 — Partial links are transparent.

Spec side.  `combine` (Model/Partial.lean) mirrors what wild's `-r` does.  The theorems say that
linking `xs ++ [combine ys] ++ zs` denotes the same thing as linking `xs ++ ys ++ zs`:

* `reloc_value_transparent` / `combine_rels_transparent` (FULL, no hypotheses): for EVERY placement
  `p'` of the sections of the link that contains the combined object there is a placement `pull …`
  of the sections of the direct link — each input section of the group sits at
  `address(combined section) + baseOf` — under which every relocation site has the same position
  `P` and denotes the same address `S + A`.  In particular for section-symbol references
  `S_sec' + A' = S_sec + A` (`secsym_retarget`).
* `select_transparent` (FULL for links of regular objects whose definitions are all loaded): the
  C02 rule set picks the same definition over `pre ++ ys ++ post` and over
  `pre ++ [winner of ys] ++ post`; `select_transparent_impl` transfers it to M-Link's
  `selectSymbol` through `select_eq_spec`.
* `combine_transparent_partial` puts both together for `meaning` (hypothesis: the per-name winner
  identity agrees, which is what `select_transparent` delivers at the candidate level; the glue
  between `combDefsFrom` and `winnerCand` is NOT proved, see the report).
* `base_aligned`, `placeGo_disjoint`: the placement `combine` computes respects every input
  section's alignment and never overlaps two input sections, i.e. `pull` is a placement the direct
  link could have chosen.
* `sortMembers_same_align`: the order of the pieces of one section name (init/fini order) is
  unchanged when all pieces of that name in the group have one alignment; `order_witness` shows the
  hypothesis is needed (wild places larger alignments first).
* `local_renumber`: concatenating per-file local symbol tables and adding the running base
  (`build_sym_index_map`) finds the same symbol again.
* What does NOT hold for wild's `combine` (`C27_full` is false), with kernel-checked witnesses:
  `comdat_witness` (a strong COMDAT definition inside the group and another one outside: the direct
  link succeeds, after `-r` it is a duplicate-symbol error because `.group` is discarded) and
  `common_witness` (a COMMON definition inside the group is dropped, the name becomes undefined).
-/
import WildModel.Model.Partial
import WildModel.Props.C02
namespace Wild.Partial
open Wild.Link

/-! ## (a) relocation values -/

/-- Placement of the sections of input object `i` of the group induced by a placement `q'` of the
combined object's sections. -/
def pullObj (B : Nat → Nat) (O : Nat → Nat) (q' : Nat → Int) : Nat → Int :=
  fun j => q' (O j) + (B j : Int)

/-- **Section-symbol retargeting**: `S_sec' + A' = S_sec + A`, and the site itself stays where the
input section went (`P' = P`). -/
theorem secsym_retarget (B O : Nat → Nat) (q' : Nat → Int) (W : Nat → Int) (sec off s : Nat) (a : Int) :
    relValue q' W (mapRel B O { sec := sec, off := off, target := .secSym s, addend := a })
      = relValue (pullObj B O q') W { sec := sec, off := off, target := .secSym s, addend := a } := by
  simp only [mapRel, relValue, targetAddr, pullObj]
  refine Prod.ext ?_ ?_ <;> simp only [Int.natCast_add] <;> omega

/-- Every relocation of an input object denotes the same (P, S + A) after `write_rela_sections`. -/
theorem reloc_value_transparent (B O : Nat → Nat) (q' : Nat → Int) (W : Nat → Int) (r : Rel) :
    relValue q' W (mapRel B O r) = relValue (pullObj B O q') W r := by
  obtain ⟨sec, off, target, a⟩ := r
  cases target with
  | secSym s => exact secsym_retarget B O q' W sec off s a
  | localSym s v =>
    simp only [mapRel, relValue, targetAddr, pullObj]
    refine Prod.ext ?_ ?_ <;> simp only [Int.natCast_add] <;> omega
  | glob n =>
    simp only [mapRel, relValue, targetAddr, pullObj]
    refine Prod.ext ?_ ?_ <;> simp only [Int.natCast_add] <;> omega

/-- Placement of the direct link `xs ++ ys ++ zs` induced by a placement `p'` of
`xs ++ [c] ++ zs`. -/
def pull (nx ny : Nat) (B O : Nat → Nat → Nat) (p' : Nat → Nat → Int) : Nat → Nat → Int :=
  fun i j =>
    if i < nx then p' i j
    else if i < nx + ny then pullObj (B (i - nx)) (O (i - nx)) (p' nx) j
    else p' (i - ny + 1) j

theorem meaningFrom_append (p : Nat → Nat → Int) (W : Nat → Int) (k : Nat) (a b : List Obj) :
    meaningFrom p W k (a ++ b) = meaningFrom p W k a ++ meaningFrom p W (k + a.length) b := by
  induction a generalizing k with
  | nil => simp [meaningFrom]
  | cons o a ih =>
    simp only [List.cons_append, meaningFrom, ih, List.append_assoc, List.length_cons]
    congr 3
    omega

theorem meaningFrom_congr (p p2 : Nat → Nat → Int) (W : Nat → Int) (k k2 : Nat) (l : List Obj)
    (h : ∀ d, d < l.length → p (k + d) = p2 (k2 + d)) :
    meaningFrom p W k l = meaningFrom p2 W k2 l := by
  induction l generalizing k k2 with
  | nil => simp [meaningFrom]
  | cons o l ih =>
    simp only [meaningFrom]
    have h0 := h 0 (by simp)
    simp only [Nat.add_zero] at h0
    rw [h0]
    congr 1
    apply ih
    intro d hd
    have := h (d + 1) (by simp; omega)
    simpa [Nat.add_assoc, Nat.add_comm 1 d] using this

/-- The relocations of the combined object, read at placement `q'`, are the relocations of the
group's objects read at the pulled-back placements. -/
theorem combRels_meaning (B O : Nat → Nat → Nat) (q' : Nat → Int) (W : Nat → Int) (k : Nat) (ys : List Obj)
    (p : Nat → Nat → Int) (k2 : Nat)
    (hp : ∀ d, d < ys.length → p (k2 + d) = pullObj (B (k + d)) (O (k + d)) q') :
    (combRelsFrom B O k ys).map (relValue q' W) = meaningFrom p W k2 ys := by
  induction ys generalizing k k2 with
  | nil => simp [combRelsFrom, meaningFrom]
  | cons o ys ih =>
    simp only [combRelsFrom, meaningFrom, List.map_append, List.map_map]
    have h0 := hp 0 (by simp)
    simp only [Nat.add_zero] at h0
    congr 1
    · apply List.map_congr_left
      intro r _
      simp only [Function.comp, reloc_value_transparent, h0]
    · apply ih
      intro d hd
      have := hp (d + 1) (by simp; omega)
      simpa [Nat.add_assoc, Nat.add_comm 1 d] using this

/-- **Relocation transparency (full).** For every placement of the link containing the combined
object, every base function `B` and output-index function `O` (in particular `combine`'s), the list
of (site position, denoted address) pairs equals that of the direct link at the pulled-back
placement — for any way `W` of giving addresses to global names. -/
theorem combine_rels_transparent (cfg : Cfg) (B O : Nat → Nat → Nat) (xs ys zs : List Obj)
    (p' : Nat → Nat → Int) (W : Nat → Int) :
    meaningFrom p' W 0 (xs ++ [combineWith cfg B O ys] ++ zs)
      = meaningFrom (pull xs.length ys.length B O p') W 0 (xs ++ ys ++ zs) := by
  rw [meaningFrom_append, meaningFrom_append, meaningFrom_append, meaningFrom_append]
  simp only [Nat.zero_add, List.length_append, List.length_cons, List.length_nil]
  congr 1
  · congr 1
    · apply meaningFrom_congr
      intro d hd
      funext j
      simp [pull, hd]
    · simp only [meaningFrom, combineWith, List.append_nil]
      apply combRels_meaning
      intro d hd
      funext j
      simp only [pull, Nat.zero_add]
      have h1 : ¬ (xs.length + d < xs.length) := by omega
      have h2 : xs.length + d < xs.length + ys.length := by omega
      simp [h1, h2]
  · apply meaningFrom_congr
    intro d hd
    funext j
    simp only [pull]
    have h1 : ¬ (xs.length + ys.length + d < xs.length) := by omega
    have h2 : ¬ (xs.length + ys.length + d < xs.length + ys.length) := by omega
    simp only [h1, h2, if_false]
    congr 1
    omega

/-! ## (b) symbol selection -/

/-- What the group contributes for one name after `-r`: the candidate the rules select inside the
group (a COMMON keeps the largest size). -/
def winnerCand (cs : List Cand) : Option Cand :=
  match cs.find? Cand.isStrong with
  | some c => some c
  | none =>
    match bestCommon cs with
    | some (m, f) => some { file := f, dynamic := false, strength := .common m, comdat := false }
    | none => cs.find? Cand.isWeakish

theorem nonDyn_eq_self (cs : List Cand) (h : ∀ c ∈ cs, c.dynamic = false) : nonDyn cs = cs := by
  unfold nonDyn
  apply List.filter_eq_self.2
  intro c hc
  simp [h c hc]

theorem bestCommon_append (a b : List Cand) :
    bestCommon (a ++ b) = combineCommon (bestCommon a) (bestCommon b) := by
  induction a with
  | nil =>
    show bestCommon b = combineCommon none (bestCommon b)
    cases bestCommon b <;> rfl
  | cons c a ih =>
    simp only [List.cons_append, bestCommon, ih]
    cases hc : c.commonSize <;> cases ha : bestCommon a <;> cases hb : bestCommon b <;>
      simp [combineCommon]
    all_goals (repeat' split) <;> (try simp_all) <;> (try omega)
    all_goals grind

theorem find_weakish_not_strong (cs : List Cand) (c : Cand) (h : cs.find? Cand.isWeakish = some c) :
    c.isStrong = false := by
  have := List.find?_some h
  simp only [Cand.isWeakish, Bool.or_eq_true, beq_iff_eq] at this
  simp only [Cand.isStrong]
  rcases this with h | h <;> simp [h]

theorem find_weakish_not_common (cs : List Cand) (c : Cand) (h : cs.find? Cand.isWeakish = some c) :
    c.commonSize = none := by
  have := List.find?_some h
  simp only [Cand.isWeakish, Bool.or_eq_true, beq_iff_eq] at this
  simp only [Cand.commonSize]
  rcases this with h | h <;> simp [h]

/-- A defined candidate is strong, common or weak-ish. -/
theorem defined_cases (c : Cand) (h : c.isDefined = true) :
    c.isStrong = true ∨ c.commonSize.isSome = true ∨ c.isWeakish = true := by
  simp only [Cand.isDefined, Cand.isStrong, Cand.commonSize, Cand.isWeakish] at *
  cases hs : c.strength <;> simp_all

theorem bestCommon_none_of_no_common (cs : List Cand) (h : ∀ c ∈ cs, c.commonSize = none) :
    bestCommon cs = none := by
  induction cs with
  | nil => rfl
  | cons c cs ih =>
    simp only [bestCommon, h c (by simp)]
    exact ih (fun d hd => h d (by simp [hd]))

theorem bestCommon_none_no_common (cs : List Cand) (h : bestCommon cs = none) :
    ∀ c ∈ cs, c.commonSize = none := by
  induction cs with
  | nil => simp
  | cons c cs ih =>
    simp only [bestCommon] at h
    cases hc : c.commonSize with
    | some s =>
      rw [hc] at h
      cases hb : bestCommon cs with
      | none => rw [hb] at h; simp at h
      | some mf => obtain ⟨m, f⟩ := mf; rw [hb] at h; simp only at h; split at h <;> simp at h
    | none =>
      rw [hc] at h
      intro d hd
      simp only [List.mem_cons] at hd
      rcases hd with rfl | hd
      · exact hc
      · exact ih h d hd

theorem winnerCand_mem_or (cs : List Cand) (c : Cand) (h : winnerCand cs = some c) :
    c ∈ cs ∨ c.dynamic = false := by
  unfold winnerCand at h
  cases hS : cs.find? Cand.isStrong with
  | some c0 =>
    rw [hS] at h
    simp only [Option.some.injEq] at h
    subst h
    exact Or.inl (List.mem_of_find?_eq_some hS)
  | none =>
    rw [hS] at h
    simp only at h
    cases hB : bestCommon cs with
    | some mf =>
      rw [hB] at h
      simp only [Option.some.injEq] at h
      right
      rw [← h]
    | none =>
      rw [hB] at h
      simp only at h
      exact Or.inl (List.mem_of_find?_eq_some h)

/-- **Selection transparency (rule set).** For links of regular objects whose definitions all take
part (every candidate non-dynamic and defined), replacing the group's candidates by the one the
rules select inside the group does not change what the rules select for the whole link. -/
theorem select_transparent (pre cs post : List Cand)
    (hnd : ∀ c ∈ pre ++ cs ++ post, c.dynamic = false)
    (hdef : ∀ c ∈ cs, c.isDefined = true) :
    specSelect (pre ++ (winnerCand cs).toList ++ post) = specSelect (pre ++ cs ++ post) := by
  have hndW : ∀ c ∈ pre ++ (winnerCand cs).toList ++ post, c.dynamic = false := by
    intro c hc
    simp only [List.mem_append, Option.mem_toList] at hc
    rcases hc with (hc | hc) | hc
    · exact hnd c (by simp [hc])
    · rcases winnerCand_mem_or cs c hc with h | h
      · exact hnd c (by simp [h])
      · exact h
    · exact hnd c (by simp [hc])
  unfold specSelect
  rw [nonDyn_eq_self _ hnd, nonDyn_eq_self _ hndW]
  -- classify the group
  cases hS : cs.find? Cand.isStrong with
  | some c0 =>
    have hW : winnerCand cs = some c0 := by simp [winnerCand, hS]
    have hc0 : c0.isStrong = true := List.find?_some hS
    simp only [hW, Option.toList_some, List.find?_append, List.find?_cons, hc0, hS]
    cases pre.find? Cand.isStrong <;> simp
  | none =>
    have hSW : (winnerCand cs).toList.find? Cand.isStrong = none := by
      unfold winnerCand
      rw [hS]
      cases hB : bestCommon cs with
      | some mf => obtain ⟨m, f⟩ := mf; simp [Cand.isStrong]
      | none =>
        cases hWk : cs.find? Cand.isWeakish with
        | none => simp
        | some c => simp [find_weakish_not_strong cs c hWk]
    have hstrong : (pre ++ (winnerCand cs).toList ++ post).find? Cand.isStrong
        = (pre ++ cs ++ post).find? Cand.isStrong := by
      simp only [List.find?_append, hSW, hS]
    rw [hstrong]
    cases (pre ++ cs ++ post).find? Cand.isStrong with
    | some c => rfl
    | none =>
      simp only
      have hBW : bestCommon (winnerCand cs).toList = bestCommon cs := by
        unfold winnerCand
        rw [hS]
        cases hB : bestCommon cs with
        | some mf => obtain ⟨m, f⟩ := mf; simp [bestCommon, Cand.commonSize]
        | none =>
          cases hWk : cs.find? Cand.isWeakish with
          | none => simp [bestCommon]
          | some c => simp [bestCommon, find_weakish_not_common cs c hWk]
      have hbest : bestCommon (pre ++ (winnerCand cs).toList ++ post) = bestCommon (pre ++ cs ++ post) := by
        simp only [bestCommon_append, hBW]
      rw [hbest]
      cases hB2 : bestCommon (pre ++ cs ++ post) with
      | some mf => rfl
      | none =>
        simp only
        -- no common anywhere, so none in the group
        have hBcs : bestCommon cs = none := by
          apply bestCommon_none_of_no_common
          intro c hc
          exact bestCommon_none_no_common _ hB2 c (by simp [hc])
        have hWeq : (winnerCand cs).toList = (cs.find? Cand.isWeakish).toList := by
          simp [winnerCand, hS, hBcs]
        -- every member of the group is weak-ish (defined, not strong, not common)
        have hall : ∀ c ∈ cs, c.isWeakish = true := by
          intro c hc
          rcases defined_cases c (hdef c hc) with h | h | h
          · have := List.find?_eq_none.1 hS c hc; simp [h] at this
          · have := bestCommon_none_no_common _ hBcs c hc; simp [this] at h
          · exact h
        have hweak : (pre ++ (winnerCand cs).toList ++ post).find? Cand.isWeakish
            = (pre ++ cs ++ post).find? Cand.isWeakish := by
          rw [hWeq]
          simp only [List.find?_append]
          cases hWk : cs.find? Cand.isWeakish with
          | none => simp
          | some c => simp [List.find?_some hWk]
        rw [hweak]
        cases hW3 : (pre ++ cs ++ post).find? Cand.isWeakish with
        | some c => rfl
        | none =>
          simp only
          -- the group is empty (a non-empty group has a weak-ish member, found above)
          cases cs with
          | nil => simp [winnerCand, bestCommon]
          | cons c cs' =>
            exfalso
            have := List.find?_eq_none.1 hW3 c (by simp)
            simp [hall c (by simp)] at this

theorem selectSymbol_true_chosen (cs : List Cand) : selectSymbol true cs = .chosen (specSelect cs) := by
  cases h : selectSymbol true cs with
  | chosen f => rw [select_eq_spec true cs f h]
  | dup a b =>
    have := (select_dup_iff true cs).1 ⟨a, b, h⟩
    simp [DupSpec] at this

theorem chosenLabel_eq_spec (cs : List Cand) : chosenLabel cs = specSelect cs := by
  simp [chosenLabel, selectSymbol_true_chosen]

/-- Transfer to the implementation model: whenever M-Link's `selectSymbol` chooses in both links,
it chooses the same definition. -/
theorem select_transparent_impl (am : Bool) (pre cs post : List Cand) (f f' : Nat)
    (hnd : ∀ c ∈ pre ++ cs ++ post, c.dynamic = false)
    (hdef : ∀ c ∈ cs, c.isDefined = true)
    (h : selectSymbol am (pre ++ cs ++ post) = .chosen f)
    (h' : selectSymbol am (pre ++ (winnerCand cs).toList ++ post) = .chosen f') : f' = f := by
  rw [select_eq_spec am _ f h, select_eq_spec am _ f' h', select_transparent pre cs post hnd hdef]

/-! ## (c) the placement `combine` computes is one the direct link may use -/

theorem alignUp_dvd (x e : Nat) : 2 ^ e ∣ alignUp x e := by
  unfold alignUp
  exact Nat.dvd_mul_left _ _

theorem alignUp_ge (x e : Nat) : x ≤ alignUp x e := by
  unfold alignUp
  have hp : 0 < 2 ^ e := Nat.two_pow_pos e
  have h1 := Nat.div_add_mod (x + 2 ^ e - 1) (2 ^ e)
  have h2 := Nat.mod_lt (x + 2 ^ e - 1) hp
  have h3 : 2 ^ e * ((x + 2 ^ e - 1) / 2 ^ e) = (x + 2 ^ e - 1) / 2 ^ e * 2 ^ e := Nat.mul_comm _ _
  omega

/-- Every input section starts at a multiple of its own alignment. -/
theorem base_aligned (cur : Nat) (ms : List Member) :
    ∀ mb ∈ placeGo cur ms, 2 ^ mb.1.sec.alignExp ∣ mb.2 := by
  induction ms generalizing cur with
  | nil => simp [placeGo]
  | cons m ms ih =>
    intro mb hmb
    simp only [placeGo, List.mem_cons] at hmb
    rcases hmb with rfl | hmb
    · exact alignUp_dvd _ _
    · exact ih _ mb hmb

/-- Every input section placed later starts at or after the end of `cur`; hence consecutive input
sections never overlap (each one's extent `[b, b + size)` ends before the next cursor). -/
theorem placeGo_ge (cur : Nat) (ms : List Member) :
    ∀ mb ∈ placeGo cur ms, cur ≤ mb.2 := by
  induction ms generalizing cur with
  | nil => simp [placeGo]
  | cons m ms ih =>
    intro mb hmb
    simp only [placeGo, List.mem_cons] at hmb
    rcases hmb with rfl | hmb
    · exact alignUp_ge _ _
    · have := ih _ mb hmb
      have h1 := alignUp_ge cur m.sec.alignExp
      have h2 := alignUp_ge m.sec.size m.sec.alignExp
      omega

theorem placeGo_disjoint (cur : Nat) (m : Member) (ms : List Member) :
    ∀ mb ∈ placeGo cur (m :: ms), mb = (m, alignUp cur m.sec.alignExp) ∨
      alignUp cur m.sec.alignExp + m.sec.size ≤ mb.2 := by
  intro mb hmb
  simp only [placeGo, List.mem_cons] at hmb
  rcases hmb with rfl | hmb
  · exact Or.inl rfl
  · right
    have := placeGo_ge _ ms mb hmb
    have h2 := alignUp_ge m.sec.size m.sec.alignExp
    omega

/-! ## (d) init/fini order -/

theorem insertMember_le (m : Member) (l : List Member)
    (h : ∀ x ∈ l, x.sec.alignExp ≤ m.sec.alignExp) : insertMember m l = m :: l := by
  cases l with
  | nil => rfl
  | cons x l => simp [insertMember, h x (by simp)]

/-- With a single alignment class (every `.init_array` input section is 8-aligned) wild's placement
order is the input order: the init/fini order of the group is what the direct link sees. -/
theorem sortMembers_same_align (l : List Member) (e : Nat) (h : ∀ x ∈ l, x.sec.alignExp = e) :
    sortMembers l = l := by
  induction l with
  | nil => rfl
  | cons m l ih =>
    have hl : ∀ x ∈ l, x.sec.alignExp = e := fun x hx => h x (by simp [hx])
    simp only [sortMembers, ih hl]
    apply insertMember_le
    intro x hx
    rw [h x (by simp [hx]), h m (by simp)]
    exact Nat.le_refl _

def mkMember (i e : Nat) : Member :=
  { obj := i, idx := 0, sec := { name := 0, flags := 0, alignExp := e, size := 8, pieces := [⟨i, 0, 8⟩] } }

/-- The hypothesis is needed: with mixed alignments wild places the 16-aligned input first although
it comes second in the input. -/
theorem order_witness :
    (sortMembers [mkMember 0 3, mkMember 1 4]).map (·.obj) = [1, 0] := by decide

/-! ## (e) local symbol renumbering -/

/-- `build_sym_index_map` for locals: after `secSyms`, the per-file tables are concatenated and
symbol `k` of file `i` gets index `|secSyms| + Σ_{f<i} |table f| + k`; that index finds it again. -/
theorem local_renumber {α : Type} (secSyms : List α) (tables : List (List α)) (i k : Nat) (t : List α)
    (ht : tables[i]? = some t) (hk : k < t.length) :
    (secSyms ++ tables.flatten)[localIndex secSyms.length tables i k]? = t[k]? := by
  unfold localIndex
  rw [List.getElem?_append_right (by omega)]
  have : secSyms.length + ((tables.take i).map List.length).sum + k - secSyms.length
      = ((tables.take i).map List.length).sum + k := by omega
  rw [this]
  clear this
  induction tables generalizing i with
  | nil => simp at ht
  | cons a l ih =>
    cases i with
    | zero =>
      simp only [List.getElem?_cons_zero, Option.some.injEq] at ht
      subst ht
      simp only [List.take_zero, List.map_nil, List.sum_nil, Nat.zero_add, List.flatten_cons]
      rw [List.getElem?_append_left hk]
    | succ i =>
      simp only [List.getElem?_cons_succ] at ht
      simp only [List.take_succ_cons, List.map_cons, List.sum_cons, List.flatten_cons]
      rw [List.getElem?_append_right (by omega)]
      have : a.length + ((l.take i).map List.length).sum + k - a.length
          = ((l.take i).map List.length).sum + k := by omega
      rw [this]
      exact ih i ht

/-! ## Composition -/

/-- **C27 in the model, modulo the per-name winner.** If the definition selected for every name is
the same in both links (`select_transparent` is the statement that the rule set guarantees this for
the candidates `combine` keeps; `comdat_witness`/`common_witness` show where wild's `-r` breaks it),
then for every placement of the link that contains the combined object the direct link, at the
pulled-back placement, has the same relocation sites denoting the same addresses. -/
theorem combine_transparent_partial (cfg : Cfg) (B O : Nat → Nat → Nat) (xs ys zs : List Obj)
    (p' : Nat → Nat → Int) (D : Nat → Int)
    (hw : ∀ n, winnerId (xs ++ [combineWith cfg B O ys] ++ zs) n = winnerId (xs ++ ys ++ zs) n) :
    meaning p' D (xs ++ [combineWith cfg B O ys] ++ zs)
      = meaning (pull xs.length ys.length B O p') D (xs ++ ys ++ zs) := by
  unfold meaning
  have : (fun n => D (winnerId (xs ++ [combineWith cfg B O ys] ++ zs) n))
      = (fun n => D (winnerId (xs ++ ys ++ zs) n)) := by
    funext n
    rw [hw n]
  rw [this]
  exact combine_rels_transparent cfg B O xs ys zs p' _

/-! ## Where wild's `-r` is not transparent: kernel-checked witnesses -/

def strongComdat (id : Nat) : Cand := { file := id, dynamic := false, strength := .strong, comdat := true }

/-- Direct link: two strong definitions of one COMDAT signature, the first is chosen. After `-r`
(group = the first one) its COMDAT flag is gone (`.group` discarded) and the final link reports a
duplicate symbol. -/
theorem comdat_witness :
    selectSymbol false [strongComdat 1, strongComdat 2] = .chosen 1 ∧
    selectSymbol false [{ strongComdat 1 with comdat := false }, strongComdat 2] = .dup 1 2 := by
  decide

def commonObj : Obj :=
  { secs := [], rels := [],
    defs := [{ name := 7, id := 1, strength := .common 16, comdat := false, sec := 0, value := 0 }] }

/-- A COMMON definition inside the group: the direct link has a candidate for the name, the combined
object defines nothing (the symbol is not copied), so the name is undefined in the final link. -/
theorem common_witness :
    defCands [commonObj] 7 ≠ [] ∧ (combine [commonObj]).defs.length = 0 := by
  decide

/-- The full property at the level of candidate lists: `-r` leaves the outcome of symbol
resolution (including errors) unchanged. -/
def C27_full : Prop :=
  ∀ (xs ys zs : List Obj) (n : Nat),
    selectSymbol false (defCands (xs ++ [combine ys] ++ zs) n) = selectSymbol false (defCands (xs ++ ys ++ zs) n)

def comdatObj (id : Nat) : Obj :=
  { secs := [{ name := 1, flags := 6, alignExp := 0, size := 4, pieces := [⟨id, 0, 4⟩] }], rels := [],
    defs := [{ name := 3, id := id, strength := .strong, comdat := true, sec := 0, value := 0 }] }

theorem C27_full_false : ¬ C27_full := by
  intro h
  have := h [] [comdatObj 1] [comdatObj 2] 3
  revert this
  decide

/-- Non-vacuity of `combine_transparent_partial`'s hypothesis and a concrete instance of the
conclusion: a weak and a strong definition inside the group, a reference from outside. -/
def objA : Obj :=
  { secs := [{ name := 1, flags := 3, alignExp := 3, size := 8, pieces := [⟨10, 0, 8⟩] }],
    defs := [{ name := 5, id := 100, strength := .weak, comdat := false, sec := 0, value := 0 }],
    rels := [{ sec := 0, off := 0, target := .secSym 0, addend := 4 }] }
def objB : Obj :=
  { secs := [{ name := 1, flags := 3, alignExp := 4, size := 24, pieces := [⟨11, 0, 24⟩] }],
    defs := [{ name := 5, id := 101, strength := .strong, comdat := false, sec := 0, value := 8 }],
    rels := [{ sec := 0, off := 16, target := .localSym 0 4, addend := -4 },
             { sec := 0, off := 8, target := .secSym 0, addend := 20 }] }
def objM : Obj :=
  { secs := [{ name := 2, flags := 6, alignExp := 0, size := 16, pieces := [⟨12, 0, 16⟩] }],
    defs := [], rels := [{ sec := 0, off := 3, target := .glob 5, addend := -4 }] }

example : (combine [objA, objB]).rels =
    [{ sec := 0, off := 32, target := .secSym 0, addend := 36 },
     { sec := 0, off := 16, target := .localSym 0 4, addend := -4 },
     { sec := 0, off := 8, target := .secSym 0, addend := 20 }] := by decide

example : winnerId ([objM] ++ [combine [objA, objB]] ++ []) 5 = winnerId ([objM] ++ [objA, objB] ++ []) 5 := by
  decide

end Wild.Partial
