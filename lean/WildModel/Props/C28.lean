import WildModel.Props.C01Dyn
import WildModel.Props.C07
import WildModel.Props.C08
import WildModel.Props.C09
import WildModel.Props.C14
/-!
C28 — Optional transformations don't change program behaviour (corollary file, no new model).

What a program can observe of the linker's optional choices, per toggle, and the theorem of the owning
property that makes the observation independent of the toggle:

* packed relative relocations (RELR vs RELA): `relr_invariant_site`, `relr_invariant_abs`,
  `relr_invariant_got` — from the C01 dynamic-side theorems (the run-time word does not mention `relr`),
  `relr_roundtrip` — C09's decoding theorem re-exported.
* static / static-PIE / PIE / dynamic for references that are resolvable statically:
  `output_kind_invariant_abs`, `output_kind_invariant_got` — the run-time word is `S + A + load bias` in
  every output kind (C01).
* string merging: `string_merge_invariant` (= C07 `merge_preserves_cstr`: the C string read through any
  reference is the input's, merged or not), `string_merge_split_invariant` (= C07 `split_invisible`).
* hash style gnu / sysv / both: `hash_style_invariant` — a defined dynamic symbol is found through either
  table at an index carrying its name (C08 `gnu_complete` + `sysv_complete`).
* relax / no-relax: `relax_invariant_rex_mov` (= C14 `rex_mov_to_abs_ok`; the other rewrite families are
  C14's `*_sem` theorems).  Inherits C14's finding (`rex_abs_r32_unsound_witness`).
* build-id none/fast: NOT a theorem. Hypothesis, stated here: the program does not read
  `.note.gnu.build-id` (only the note's descriptor bytes and the layout offset of later sections change;
  layout independence of program behaviour is what C01 provides per reference).

There is no single `meaning` function spanning the five models (each property has its own observable);
the composition "every reference of the program is covered by one of the above" is the hypothesis
`AllObservationsCovered` of the evidence, and is what the differential tie of vlib/props/c28.py tests:
the same program linked under the option lattice must print the same checksums.
-/
namespace Wild.C28
open Wild.RelocValue Wild.C01

/-- RELR vs RELA at one relative-relocation site: same run-time word. -/
theorem relr_invariant_site (ld : Loader) (p a : BitVec 64) (r₁ r₂ : Bool) :
    runtimeWord ld p (writeAddressRelocation r₁ p a).stored (writeAddressRelocation r₁ p a).dyn =
    runtimeWord ld p (writeAddressRelocation r₂ p a).stored (writeAddressRelocation r₂ p a).dyn := by
  have key : ∀ r, runtimeWord ld p (writeAddressRelocation r p a).stored (writeAddressRelocation r p a).dyn = a + ld.base := by
    intro r
    rcases war_cases r p a with w | w <;> rw [w] <;> simp [runtimeWord, loaderApply, BitVec.add_comm]
  rw [key, key]

/-- `--pack-dyn-relocs=relr` on/off: every absolute data word reads the same at run time. -/
theorem relr_invariant_abs (ok : OutputKind) (r₁ r₂ : Bool) (sec : SecInfo) (f : Flags) (dynsym : Nat) (e : Env)
    (ld : Loader) (hal : sec.alloc = true) (hm : e.mergedString = Option.none) (hi : e.isIfunc = f.ifunc)
    (hld : LoaderOk ok ld) :
    runtimeWord ld e.P (absoluteWrite ok r₁ sec f dynsym e).stored (absoluteWrite ok r₁ sec f dynsym e).dyn =
    runtimeWord ld e.P (absoluteWrite ok r₂ sec f dynsym e).stored (absoluteWrite ok r₂ sec f dynsym e).dyn := by
  have h₁ := (c01_dynamic ok r₁ sec f dynsym e ld hal hm hi hld).2.2
  have h₂ := (c01_dynamic ok r₂ sec f dynsym e ld hal hm hi hld).2.2
  rw [h₁, h₂]

/-- … and every GOT slot of a non-TLS symbol. -/
theorem relr_invariant_got (ok : OutputKind) (r₁ r₂ : Bool) (f : Flags) (dynsym : Nat) (tls : TlsInfo)
    (raw got plt : BitVec 64) (ld : Loader) (hp : PlainFlags f) (hld : LoaderOk ok ld) :
    ∃ f₁ f₂, processResolution ok r₁ f dynsym tls raw got plt = some f₁ ∧
      processResolution ok r₂ f dynsym tls raw got plt = some f₂ ∧
      runtimeWord ld got (f₁.words.headD 0) f₁.dyn = runtimeWord ld got (f₂.words.headD 0) f₂.dyn := by
  obtain ⟨f₁, h₁, -, e₁⟩ := c01_got_slot ok r₁ f dynsym tls raw got plt ld hp hld
  obtain ⟨f₂, h₂, -, e₂⟩ := c01_got_slot ok r₂ f dynsym tls raw got plt ld hp hld
  exact ⟨f₁, f₂, h₁, h₂, by rw [e₁, e₂]⟩

/-- C09 re-exported: what the loader decodes from `.relr.dyn` is the set of even places encoded. -/
def relr_roundtrip := @Wild.Relr.relr_decode_roundtrip

/-- static / static-PIE / PIE / dynamic: for an address symbol that is not bound at run time (and is
not an IFUNC, not absolute) an absolute data word holds `S + A + load bias` in EVERY output kind, i.e.
the same object. -/
theorem output_kind_invariant_abs (ok₁ ok₂ : OutputKind) (relr : Bool) (sec : SecInfo) (f : Flags) (dynsym : Nat)
    (e : Env) (ld₁ ld₂ : Loader) (hal : sec.alloc = true) (hm : e.mergedString = Option.none)
    (hi : e.isIfunc = f.ifunc) (h₁ : LoaderOk ok₁ ld₁) (h₂ : LoaderOk ok₂ ld₂)
    (hstat : f.dynamic = false ∧ f.interposable = false ∧ f.ifunc = false ∧ f.absolute = false) :
    runtimeWord ld₁ e.P (absoluteWrite ok₁ relr sec f dynsym e).stored (absoluteWrite ok₁ relr sec f dynsym e).dyn - ld₁.base =
    runtimeWord ld₂ e.P (absoluteWrite ok₂ relr sec f dynsym e).stored (absoluteWrite ok₂ relr sec f dynsym e).dyn - ld₂.base := by
  obtain ⟨hd, hn, hf, ha⟩ := hstat
  have e₁ := (c01_dynamic ok₁ relr sec f dynsym e ld₁ hal hm hi h₁).2.2
  have e₂ := (c01_dynamic ok₂ relr sec f dynsym e ld₂ hal hm hi h₂).2.2
  simp only [hd, hn, hf, ha, Bool.false_and, Bool.false_eq_true, ↓reduceIte] at e₁ e₂
  rw [e₁, e₂]
  generalize (toLetters e).S + e.A = x
  bv_omega

/-- … and its GOT slot holds `S + load bias` in every output kind. -/
theorem output_kind_invariant_got (ok₁ ok₂ : OutputKind) (relr : Bool) (f : Flags) (dynsym : Nat) (tls : TlsInfo)
    (raw got plt : BitVec 64) (ld₁ ld₂ : Loader) (hp : PlainFlags f) (h₁ : LoaderOk ok₁ ld₁) (h₂ : LoaderOk ok₂ ld₂)
    (hstat : f.dynamic = false ∧ f.exportDynamic = false ∧ f.ifunc = false ∧ f.absolute = false) :
    ∃ f₁ f₂, processResolution ok₁ relr f dynsym tls raw got plt = some f₁ ∧
      processResolution ok₂ relr f dynsym tls raw got plt = some f₂ ∧
      runtimeWord ld₁ got (f₁.words.headD 0) f₁.dyn - ld₁.base = runtimeWord ld₂ got (f₂.words.headD 0) f₂.dyn - ld₂.base := by
  obtain ⟨hd, hx, hf, ha⟩ := hstat
  obtain ⟨f₁, g₁, -, e₁⟩ := c01_got_slot ok₁ relr f dynsym tls raw got plt ld₁ hp h₁
  obtain ⟨f₂, g₂, -, e₂⟩ := c01_got_slot ok₂ relr f dynsym tls raw got plt ld₂ hp h₂
  refine ⟨f₁, f₂, g₁, g₂, ?_⟩
  simp only [hd, hx, hf, Bool.false_and, Bool.or_self, Bool.false_eq_true, ↓reduceIte, Flags.isAddress, ha,
    Bool.not_false, Bool.and_self] at e₁ e₂
  rw [e₁, e₂]
  bv_omega

/-- String merging on/off: the C string read through any reference into a string section is the input's
(C07 re-exported). -/
def string_merge_invariant := @Wild.StrMerge.merge_preserves_cstr

/-- … independent of how the merge work was split over groups/buckets (C07 re-exported). -/
def string_merge_split_invariant := @Wild.StrMerge.split_invisible

/-- `--hash-style=gnu|sysv|both`: a defined dynamic symbol is found through either table, at an index
that carries its name. -/
theorem hash_style_invariant (base : Nat) (names : List (List UInt8)) (hb : 1 ≤ base) (n : List UInt8) (hn : n ∈ names) :
    (∃ i, Wild.Hash.lookupGnu (Wild.Hash.buildGnu base names) (Wild.Hash.gnuOrder names) n = .found i ∧
        (Wild.Hash.gnuOrder names)[i - base]? = some n) ∧
    (∃ j, Wild.Hash.lookupSysv (Wild.Hash.buildSysv base names) base names n = .found j ∧
        Wild.Hash.symName base names j = some n) := by
  obtain ⟨i, h1, _, h3⟩ := Wild.Hash.gnu_complete base names hb n hn
  exact ⟨⟨i, h1, h3⟩, Wild.Hash.sysv_complete base names hb n hn⟩

/-- relax / no-relax, REX.W `mov sym@GOTPCREL(%rip), %r64` → `mov $sym, %r64` (C14 re-exported). -/
def relax_invariant_rex_mov := @Wild.C14.rex_mov_to_abs_ok

end Wild.C28
