import WildModel.Model.Align
import Std.Tactic.BVDecide
/-!
# C29 — Alignment arithmetic is exact

For every supported alignment `2^e` (`e ≤ 16`) and all 64-bit values:
* `alignUp` is the least multiple of `2^e` that is `≥ v` (outside the overflow region, where no
  64-bit answer exists and the code panics in debug builds / wraps in release builds);
* `alignDown` is the greatest multiple `≤ v`;
* `alignModulo r o` is the least value `≥ alignUp o` congruent to `r` modulo `2^e`;
* `new raw` accepts exactly the powers of two `2^0 … 2^16`.
-/
namespace Wild.Align

theorem value_toNat (e : Nat) (he : e ≤ 16) : (value e).toNat = 2 ^ e := by
  unfold value
  rw [BitVec.toNat_shiftLeft]
  have h : 2 ^ e < 2 ^ 64 := Nat.pow_lt_pow_right (by decide) (by omega)
  simp [Nat.shiftLeft_eq, Nat.mod_eq_of_lt h]

/-- Pure `Nat` statement of "least multiple of `a` not below `v`". -/
def IsLeastMultipleGE (a v u : Nat) : Prop :=
  a ∣ u ∧ v ≤ u ∧ ∀ m, a ∣ m → v ≤ m → u ≤ m

/-- Pure `Nat` statement of "greatest multiple of `a` not above `v`". -/
def IsGreatestMultipleLE (a v d : Nat) : Prop :=
  a ∣ d ∧ d ≤ v ∧ ∀ m, a ∣ m → m ≤ v → m ≤ d

theorem least_of_close {a v u : Nat} (_ha : 0 < a) (hd : a ∣ u) (hv : v ≤ u) (hc : u - v < a) :
    IsLeastMultipleGE a v u := by
  refine ⟨hd, hv, ?_⟩
  intro m hm hvm
  obtain ⟨k, rfl⟩ := hd
  obtain ⟨j, rfl⟩ := hm
  apply Nat.mul_le_mul_left
  apply Nat.le_of_not_gt
  intro hlt
  have h1 : a * (j + 1) ≤ a * k := Nat.mul_le_mul_left a hlt
  rw [Nat.mul_add, Nat.mul_one] at h1
  omega

theorem greatest_of_close {a v d : Nat} (_ha : 0 < a) (hd : a ∣ d) (hv : d ≤ v) (hc : v - d < a) :
    IsGreatestMultipleLE a v d := by
  refine ⟨hd, hv, ?_⟩
  intro m hm hmv
  obtain ⟨k, rfl⟩ := hd
  obtain ⟨j, rfl⟩ := hm
  apply Nat.mul_le_mul_left
  apply Nat.le_of_not_gt
  intro hlt
  have h1 : a * (k + 1) ≤ a * j := Nat.mul_le_mul_left a hlt
  rw [Nat.mul_add, Nat.mul_one] at h1
  omega

theorem nextMultipleOf_spec (v a : BitVec 64) (ha : 0 < a.toNat)
    (hno : v.toNat + a.toNat ≤ 2 ^ 64) :
    IsLeastMultipleGE a.toNat v.toNat (nextMultipleOf v a).toNat := by
  unfold nextMultipleOf
  have hr : (v % a).toNat = v.toNat % a.toNat := BitVec.toNat_umod
  have hlt : v.toNat % a.toNat < a.toNat := Nat.mod_lt _ ha
  have hdm := Nat.div_add_mod v.toNat a.toNat
  by_cases h0 : v % a = 0#64
  · simp only [h0, if_true]
    have : v.toNat % a.toNat = 0 := by rw [← hr, h0]; rfl
    apply least_of_close ha (Nat.dvd_of_mod_eq_zero this) (Nat.le_refl _)
    omega
  · simp only [h0, if_false]
    have hne : v.toNat % a.toNat ≠ 0 := by
      intro hz; apply h0; apply BitVec.eq_of_toNat_eq; rw [hr, hz]; rfl
    have hsub : (a - v % a).toNat = a.toNat - v.toNat % a.toNat := by
      rw [BitVec.toNat_sub_of_le]
      · rw [hr]
      · rw [BitVec.le_def, hr]; omega
    have hadd : (v + (a - v % a)).toNat = v.toNat + (a.toNat - v.toNat % a.toNat) := by
      rw [BitVec.toNat_add, hsub]; apply Nat.mod_eq_of_lt; omega
    rw [hadd]
    apply least_of_close ha
    · refine ⟨v.toNat / a.toNat + 1, ?_⟩
      rw [Nat.mul_add, Nat.mul_one]; omega
    · omega
    · omega

/-- **C29 (align up).** Outside the overflow region `alignUp` returns the least multiple of
`2^e` that is not below `v`. -/
theorem align_up_spec (e : Nat) (he : e ≤ 16) (v : BitVec 64)
    (hno : v.toNat + 2 ^ e ≤ 2 ^ 64) :
    IsLeastMultipleGE (2 ^ e) v.toNat (alignUp e v).toNat := by
  have hv := value_toNat e he
  have := nextMultipleOf_spec v (value e) (by rw [hv]; exact Nat.two_pow_pos e) (by rw [hv]; exact hno)
  rw [hv] at this
  exact this

/-- The overflow region is exactly where no 64-bit answer exists: the least multiple `≥ v` is
`≥ 2^64`. There the Rust code panics (debug) or wraps (release). -/
theorem align_up_overflow_region (e : Nat) (he : e ≤ 16) (v : BitVec 64) :
    overflows v (value e) = true ↔
      (∀ u : BitVec 64, ¬ IsLeastMultipleGE (2 ^ e) v.toNat u.toNat) := by
  have hv := value_toNat e he
  have hpos : 0 < 2 ^ e := Nat.two_pow_pos e
  have hr : (v % value e).toNat = v.toNat % 2 ^ e := by rw [BitVec.toNat_umod, hv]
  have hlt : v.toNat % 2 ^ e < 2 ^ e := Nat.mod_lt _ hpos
  have hdm := Nat.div_add_mod v.toNat (2 ^ e)
  have hsub : (value e - v % value e).toNat = 2 ^ e - v.toNat % 2 ^ e := by
    rw [BitVec.toNat_sub_of_le]
    · rw [hr, hv]
    · rw [BitVec.le_def, hr, hv]; omega
  -- the true least multiple, in Nat
  have hleast : v.toNat % 2 ^ e ≠ 0 →
      IsLeastMultipleGE (2 ^ e) v.toNat (v.toNat + (2 ^ e - v.toNat % 2 ^ e)) := by
    intro _
    apply least_of_close hpos
    · refine ⟨v.toNat / 2 ^ e + 1, ?_⟩
      rw [Nat.mul_add, Nat.mul_one]; omega
    · omega
    · omega
  unfold overflows
  constructor
  · intro h u hu
    simp only [Bool.and_eq_true, Bool.not_eq_true', beq_eq_false_iff_ne, decide_eq_true_eq] at h
    obtain ⟨hne, hov⟩ := h
    have hne' : v.toNat % 2 ^ e ≠ 0 := by
      intro hz; apply hne; apply BitVec.eq_of_toNat_eq; rw [hr, hz]; rfl
    have hl := hleast hne'
    have h1 := hu.2.2 _ hl.1 hl.2.1
    have h2 := hl.2.2 _ hu.1 hu.2.1
    have := u.isLt
    rw [hsub] at hov
    omega
  · intro h
    simp only [Bool.and_eq_true, Bool.not_eq_true', beq_eq_false_iff_ne, decide_eq_true_eq]
    by_cases hz : v.toNat % 2 ^ e = 0
    · exfalso
      apply h v
      apply least_of_close hpos (Nat.dvd_of_mod_eq_zero hz) (Nat.le_refl _)
      omega
    · refine ⟨?_, ?_⟩
      · intro h0; apply hz; rw [← hr, h0]; rfl
      · rw [hsub]
        apply Nat.le_of_not_gt
        intro hlt2
        apply h (BitVec.ofNat 64 (v.toNat + (2 ^ e - v.toNat % 2 ^ e)))
        rw [BitVec.toNat_ofNat, Nat.mod_eq_of_lt hlt2]
        exact hleast hz

theorem alignDown_eq (e : Nat) (he : e ≤ 16) (v : BitVec 64) :
    alignDown e v = v - v % value e := by
  unfold alignDown mask value
  have : e = 0 ∨ e = 1 ∨ e = 2 ∨ e = 3 ∨ e = 4 ∨ e = 5 ∨ e = 6 ∨ e = 7 ∨ e = 8 ∨ e = 9 ∨ e = 10 ∨
      e = 11 ∨ e = 12 ∨ e = 13 ∨ e = 14 ∨ e = 15 ∨ e = 16 := by omega
  rcases this with h|h|h|h|h|h|h|h|h|h|h|h|h|h|h|h|h <;> subst h <;> bv_decide

/-- **C29 (align down).** `alignDown` returns the greatest multiple of `2^e` not above `v`. -/
theorem align_down_spec (e : Nat) (he : e ≤ 16) (v : BitVec 64) :
    IsGreatestMultipleLE (2 ^ e) v.toNat (alignDown e v).toNat := by
  have hv := value_toNat e he
  have hpos : 0 < 2 ^ e := Nat.two_pow_pos e
  have hr : (v % value e).toNat = v.toNat % 2 ^ e := by rw [BitVec.toNat_umod, hv]
  have hlt : v.toNat % 2 ^ e < 2 ^ e := Nat.mod_lt _ hpos
  have hdm := Nat.div_add_mod v.toNat (2 ^ e)
  have hle : v.toNat % 2 ^ e ≤ v.toNat := Nat.mod_le _ _
  rw [alignDown_eq e he]
  have : (v - v % value e).toNat = v.toNat - v.toNat % 2 ^ e := by
    rw [BitVec.toNat_sub_of_le]
    · rw [hr]
    · rw [BitVec.le_def, hr]; exact hle
  rw [this]
  apply greatest_of_close hpos
  · refine ⟨v.toNat / 2 ^ e, ?_⟩; omega
  · omega
  · omega

theorem alignModulo_eq (e : Nat) (he : e ≤ 16) (r o : BitVec 64) :
    alignModulo e r o = alignUp e o + r % value e ∨ (alignUp e o) % value e ≠ 0#64 := by
  unfold alignModulo mask value
  generalize alignUp e o = u
  have : e = 0 ∨ e = 1 ∨ e = 2 ∨ e = 3 ∨ e = 4 ∨ e = 5 ∨ e = 6 ∨ e = 7 ∨ e = 8 ∨ e = 9 ∨ e = 10 ∨
      e = 11 ∨ e = 12 ∨ e = 13 ∨ e = 14 ∨ e = 15 ∨ e = 16 := by omega
  rcases this with h|h|h|h|h|h|h|h|h|h|h|h|h|h|h|h|h <;> subst h <;> bv_decide

/-- Least value `≥ lo` congruent to `r` modulo `a`. -/
def IsLeastCongruentGE (a r lo m : Nat) : Prop :=
  lo ≤ m ∧ m % a = r % a ∧ ∀ x, lo ≤ x → x % a = r % a → m ≤ x

/-- **C29 (align modulo).** With no overflow, `alignModulo r o` is the least value at or above
`alignUp o` that is congruent to `r` modulo `2^e`. -/
theorem align_modulo_spec (e : Nat) (he : e ≤ 16) (r o : BitVec 64)
    (hno : o.toNat + 2 ^ e + 2 ^ e ≤ 2 ^ 64) :
    IsLeastCongruentGE (2 ^ e) r.toNat (alignUp e o).toNat (alignModulo e r o).toNat := by
  have hv := value_toNat e he
  have hpos : 0 < 2 ^ e := Nat.two_pow_pos e
  have hup := align_up_spec e he o (by omega)
  obtain ⟨hd, hge, hmin⟩ := hup
  have hule : (alignUp e o).toNat ≤ o.toNat + 2 ^ e := by
    -- a multiple within [o, o + 2^e) exists, so the least one is below o + 2^e
    have hdm := Nat.div_add_mod o.toNat (2 ^ e)
    have hlt : o.toNat % 2 ^ e < 2 ^ e := Nat.mod_lt _ hpos
    have := hmin (2 ^ e * (o.toNat / 2 ^ e + 1)) ⟨_, rfl⟩ (by rw [Nat.mul_add, Nat.mul_one]; omega)
    rw [Nat.mul_add, Nat.mul_one] at this
    omega
  have hmod0 : (alignUp e o) % value e = 0#64 := by
    apply BitVec.eq_of_toNat_eq
    rw [BitVec.toNat_umod, hv]
    exact Nat.mod_eq_zero_of_dvd hd
  rcases alignModulo_eq e he r o with h | h
  · rw [h]
    have hr : (r % value e).toNat = r.toNat % 2 ^ e := by rw [BitVec.toNat_umod, hv]
    have hlt : r.toNat % 2 ^ e < 2 ^ e := Nat.mod_lt _ hpos
    have hsum : (alignUp e o + r % value e).toNat = (alignUp e o).toNat + r.toNat % 2 ^ e := by
      rw [BitVec.toNat_add, hr]; apply Nat.mod_eq_of_lt; omega
    rw [hsum]
    obtain ⟨k, hk⟩ := hd
    refine ⟨by omega, ?_, ?_⟩
    · rw [hk, Nat.mul_add_mod]; exact Nat.mod_mod _ _
    · intro x hx hxm
      -- x = 2^e * q + r % 2^e with 2^e*q ≥ 2^e*k
      have hdx := Nat.div_add_mod x (2 ^ e)
      rw [hxm] at hdx
      rw [hk] at hx ⊢
      apply Nat.le_of_not_gt
      intro hgt
      have hq : x / 2 ^ e < k := by
        apply Nat.lt_of_not_ge
        intro hge2
        have := Nat.mul_le_mul_left (2 ^ e) hge2
        omega
      have := Nat.mul_le_mul_left (2 ^ e) (Nat.succ_le_of_lt hq)
      rw [Nat.mul_succ] at this
      omega
  · exact absurd hmod0 h

theorem trailingZerosAux_pow (fuel k acc : Nat) (hk : k < fuel) :
    trailingZerosAux fuel (2 ^ k) acc = acc + k := by
  induction fuel generalizing k acc with
  | zero => omega
  | succ n ih =>
    unfold trailingZerosAux
    cases k with
    | zero => simp
    | succ j =>
      have h1 : 2 ^ (j + 1) % 2 = 0 := by rw [Nat.pow_succ]; omega
      have h2 : 2 ^ (j + 1) / 2 = 2 ^ j := by rw [Nat.pow_succ]; omega
      rw [if_neg (by omega), h2, ih j (acc + 1) (by omega)]
      omega

theorem isPowerOfTwo_iff (raw : BitVec 64) :
    isPowerOfTwo raw = true ↔ ∃ k, k < 64 ∧ raw = 1#64 <<< k := by
  constructor
  · intro h
    unfold isPowerOfTwo at h
    have hex : ∃ k : Fin 64, raw = 1#64 <<< k.val := by
      have key : (raw != 0#64 && (raw &&& (raw - 1#64)) == 0#64) = true →
          (raw = 1#64 <<< (0:Nat) ∨ raw = 1#64 <<< (1:Nat) ∨ raw = 1#64 <<< (2:Nat) ∨ raw = 1#64 <<< (3:Nat) ∨
           raw = 1#64 <<< (4:Nat) ∨ raw = 1#64 <<< (5:Nat) ∨ raw = 1#64 <<< (6:Nat) ∨ raw = 1#64 <<< (7:Nat) ∨
           raw = 1#64 <<< (8:Nat) ∨ raw = 1#64 <<< (9:Nat) ∨ raw = 1#64 <<< (10:Nat) ∨ raw = 1#64 <<< (11:Nat) ∨
           raw = 1#64 <<< (12:Nat) ∨ raw = 1#64 <<< (13:Nat) ∨ raw = 1#64 <<< (14:Nat) ∨ raw = 1#64 <<< (15:Nat) ∨
           raw = 1#64 <<< (16:Nat) ∨ raw = 1#64 <<< (17:Nat) ∨ raw = 1#64 <<< (18:Nat) ∨ raw = 1#64 <<< (19:Nat) ∨
           raw = 1#64 <<< (20:Nat) ∨ raw = 1#64 <<< (21:Nat) ∨ raw = 1#64 <<< (22:Nat) ∨ raw = 1#64 <<< (23:Nat) ∨
           raw = 1#64 <<< (24:Nat) ∨ raw = 1#64 <<< (25:Nat) ∨ raw = 1#64 <<< (26:Nat) ∨ raw = 1#64 <<< (27:Nat) ∨
           raw = 1#64 <<< (28:Nat) ∨ raw = 1#64 <<< (29:Nat) ∨ raw = 1#64 <<< (30:Nat) ∨ raw = 1#64 <<< (31:Nat) ∨
           raw = 1#64 <<< (32:Nat) ∨ raw = 1#64 <<< (33:Nat) ∨ raw = 1#64 <<< (34:Nat) ∨ raw = 1#64 <<< (35:Nat) ∨
           raw = 1#64 <<< (36:Nat) ∨ raw = 1#64 <<< (37:Nat) ∨ raw = 1#64 <<< (38:Nat) ∨ raw = 1#64 <<< (39:Nat) ∨
           raw = 1#64 <<< (40:Nat) ∨ raw = 1#64 <<< (41:Nat) ∨ raw = 1#64 <<< (42:Nat) ∨ raw = 1#64 <<< (43:Nat) ∨
           raw = 1#64 <<< (44:Nat) ∨ raw = 1#64 <<< (45:Nat) ∨ raw = 1#64 <<< (46:Nat) ∨ raw = 1#64 <<< (47:Nat) ∨
           raw = 1#64 <<< (48:Nat) ∨ raw = 1#64 <<< (49:Nat) ∨ raw = 1#64 <<< (50:Nat) ∨ raw = 1#64 <<< (51:Nat) ∨
           raw = 1#64 <<< (52:Nat) ∨ raw = 1#64 <<< (53:Nat) ∨ raw = 1#64 <<< (54:Nat) ∨ raw = 1#64 <<< (55:Nat) ∨
           raw = 1#64 <<< (56:Nat) ∨ raw = 1#64 <<< (57:Nat) ∨ raw = 1#64 <<< (58:Nat) ∨ raw = 1#64 <<< (59:Nat) ∨
           raw = 1#64 <<< (60:Nat) ∨ raw = 1#64 <<< (61:Nat) ∨ raw = 1#64 <<< (62:Nat) ∨ raw = 1#64 <<< (63:Nat)) := by
        bv_decide
      have := key h
      rcases this with h|h|h|h|h|h|h|h|h|h|h|h|h|h|h|h|h|h|h|h|h|h|h|h|h|h|h|h|h|h|h|h|h|h|h|h|h|h|h|h|h|h|h|h|h|h|h|h|h|h|h|h|h|h|h|h|h|h|h|h|h|h|h|h
      all_goals first
        | exact ⟨⟨0, by omega⟩, h⟩ | exact ⟨⟨1, by omega⟩, h⟩ | exact ⟨⟨2, by omega⟩, h⟩ | exact ⟨⟨3, by omega⟩, h⟩
        | exact ⟨⟨4, by omega⟩, h⟩ | exact ⟨⟨5, by omega⟩, h⟩ | exact ⟨⟨6, by omega⟩, h⟩ | exact ⟨⟨7, by omega⟩, h⟩
        | exact ⟨⟨8, by omega⟩, h⟩ | exact ⟨⟨9, by omega⟩, h⟩ | exact ⟨⟨10, by omega⟩, h⟩ | exact ⟨⟨11, by omega⟩, h⟩
        | exact ⟨⟨12, by omega⟩, h⟩ | exact ⟨⟨13, by omega⟩, h⟩ | exact ⟨⟨14, by omega⟩, h⟩ | exact ⟨⟨15, by omega⟩, h⟩
        | exact ⟨⟨16, by omega⟩, h⟩ | exact ⟨⟨17, by omega⟩, h⟩ | exact ⟨⟨18, by omega⟩, h⟩ | exact ⟨⟨19, by omega⟩, h⟩
        | exact ⟨⟨20, by omega⟩, h⟩ | exact ⟨⟨21, by omega⟩, h⟩ | exact ⟨⟨22, by omega⟩, h⟩ | exact ⟨⟨23, by omega⟩, h⟩
        | exact ⟨⟨24, by omega⟩, h⟩ | exact ⟨⟨25, by omega⟩, h⟩ | exact ⟨⟨26, by omega⟩, h⟩ | exact ⟨⟨27, by omega⟩, h⟩
        | exact ⟨⟨28, by omega⟩, h⟩ | exact ⟨⟨29, by omega⟩, h⟩ | exact ⟨⟨30, by omega⟩, h⟩ | exact ⟨⟨31, by omega⟩, h⟩
        | exact ⟨⟨32, by omega⟩, h⟩ | exact ⟨⟨33, by omega⟩, h⟩ | exact ⟨⟨34, by omega⟩, h⟩ | exact ⟨⟨35, by omega⟩, h⟩
        | exact ⟨⟨36, by omega⟩, h⟩ | exact ⟨⟨37, by omega⟩, h⟩ | exact ⟨⟨38, by omega⟩, h⟩ | exact ⟨⟨39, by omega⟩, h⟩
        | exact ⟨⟨40, by omega⟩, h⟩ | exact ⟨⟨41, by omega⟩, h⟩ | exact ⟨⟨42, by omega⟩, h⟩ | exact ⟨⟨43, by omega⟩, h⟩
        | exact ⟨⟨44, by omega⟩, h⟩ | exact ⟨⟨45, by omega⟩, h⟩ | exact ⟨⟨46, by omega⟩, h⟩ | exact ⟨⟨47, by omega⟩, h⟩
        | exact ⟨⟨48, by omega⟩, h⟩ | exact ⟨⟨49, by omega⟩, h⟩ | exact ⟨⟨50, by omega⟩, h⟩ | exact ⟨⟨51, by omega⟩, h⟩
        | exact ⟨⟨52, by omega⟩, h⟩ | exact ⟨⟨53, by omega⟩, h⟩ | exact ⟨⟨54, by omega⟩, h⟩ | exact ⟨⟨55, by omega⟩, h⟩
        | exact ⟨⟨56, by omega⟩, h⟩ | exact ⟨⟨57, by omega⟩, h⟩ | exact ⟨⟨58, by omega⟩, h⟩ | exact ⟨⟨59, by omega⟩, h⟩
        | exact ⟨⟨60, by omega⟩, h⟩ | exact ⟨⟨61, by omega⟩, h⟩ | exact ⟨⟨62, by omega⟩, h⟩ | exact ⟨⟨63, by omega⟩, h⟩
    obtain ⟨k, hk⟩ := hex
    exact ⟨k.val, k.isLt, hk⟩
  · rintro ⟨k, hk, rfl⟩
    unfold isPowerOfTwo
    have : ∀ k : Fin 64, ((1#64 <<< k.val) != 0#64 && ((1#64 <<< k.val) &&& ((1#64 <<< k.val) - 1#64)) == 0#64) = true := by
      decide
    exact this ⟨k, hk⟩

theorem shl_toNat (k : Nat) (hk : k < 64) : (1#64 <<< k).toNat = 2 ^ k := by
  rw [BitVec.toNat_shiftLeft]
  have h : 2 ^ k < 2 ^ 64 := Nat.pow_lt_pow_right (by decide) hk
  simp [Nat.shiftLeft_eq, Nat.mod_eq_of_lt h]

/-- **C29 (acceptance).** `new raw = some e` exactly when `e ≤ 16` and `raw = 2^e`; hence
`new` accepts exactly the 17 powers of two `2^0 … 2^16`. -/
theorem new_accepts_iff (raw : BitVec 64) (e : Nat) :
    new raw = some e ↔ e ≤ 16 ∧ raw.toNat = 2 ^ e := by
  unfold new
  constructor
  · intro h
    by_cases hp : isPowerOfTwo raw = true
    · obtain ⟨k, hk, rfl⟩ := (isPowerOfTwo_iff raw).1 hp
      have hnz : (1#64 <<< k) ≠ 0#64 := by
        intro h0
        have := congrArg BitVec.toNat h0
        rw [shl_toNat k hk] at this
        have := Nat.two_pow_pos k
        have hz0 : (0#64).toNat = 0 := rfl
        omega
      have htz : trailingZeros (1#64 <<< k) = k := by
        unfold trailingZeros
        rw [if_neg hnz, shl_toNat k hk, trailingZerosAux_pow 64 k 0 hk]; omega
      simp only [hp, Bool.not_true, Bool.false_eq_true, if_false, htz, maxExponent] at h
      by_cases hgt : k > 16
      · simp [hgt] at h
      · simp only [hgt, if_false, Option.some.injEq] at h
        subst h
        exact ⟨by omega, shl_toNat k hk⟩
    · simp [hp] at h
  · rintro ⟨he, hraw⟩
    have hk : e < 64 := by omega
    have hr : raw = 1#64 <<< e := by
      apply BitVec.eq_of_toNat_eq; rw [hraw, shl_toNat e hk]
    subst hr
    have hp : isPowerOfTwo (1#64 <<< e) = true := (isPowerOfTwo_iff _).2 ⟨e, hk, rfl⟩
    have hnz : (1#64 <<< e) ≠ 0#64 := by
      intro h0
      have := congrArg BitVec.toNat h0
      rw [shl_toNat e hk] at this
      have := Nat.two_pow_pos e
      have hz0 : (0#64).toNat = 0 := rfl
      omega
    have htz : trailingZeros (1#64 <<< e) = e := by
      unfold trailingZeros
      rw [if_neg hnz, shl_toNat e hk, trailingZerosAux_pow 64 e 0 hk]; omega
    simp only [hp, Bool.not_true, Bool.false_eq_true, if_false, htz, maxExponent]
    rw [if_neg (by omega)]

/-- `new` rejects everything else. -/
theorem new_rejects_iff (raw : BitVec 64) :
    new raw = none ↔ ¬ ∃ e, e ≤ 16 ∧ raw.toNat = 2 ^ e := by
  constructor
  · intro h ⟨e, he⟩
    have := (new_accepts_iff raw e).2 he
    rw [h] at this; cases this
  · intro h
    cases hn : new raw with
    | none => rfl
    | some e => exact absurd ⟨e, (new_accepts_iff raw e).1 hn⟩ h

-- Non-vacuity: concrete instances meeting the hypotheses.
example : (0x987456#64).toNat + 2 ^ 12 ≤ 2 ^ 64 ∧ alignUp 12 0x987456#64 = 0x988000#64 := by decide
example : alignModulo 12 0x123456#64 0x987555#64 = 0x988456#64 := by decide
example : new 0x10000#64 = some 16 ∧ new 0x20000#64 = none ∧ new 3#64 = none ∧ new 0#64 = none := by
  decide

end Wild.Align
