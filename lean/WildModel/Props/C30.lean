import WildModel.Model.InitFini
import WildModel.Props.C30Spec
/-!
# C30 — Constructor and destructor order matches GNU ld

Spec side (independent of the model): `gnuOrder` is GNU ld 2.40's default script for the three
array outputs,

    KEEP (*(.preinit_array))
    KEEP (*(SORT_BY_INIT_PRIORITY(.init_array.*) SORT_BY_INIT_PRIORITY(.ctors.*)))
    KEEP (*(.init_array EXCLUDE_FILE (*crtbegin.o ...) .ctors))

with ld's own algorithm spelled out: all sections matching the first statement are inserted, in
command-line order, into ONE binary search tree (`wild_sort`: go left iff
`compare_section(by_init_priority, new, node) < 0`, else right); `get_init_priority` takes the
digits after the LAST dot (`.ctors.N`/`.dtors.N` -> 65535-N in unsigned long arithmetic, result
must be <= INT_MAX, else -1); equal or undefined priorities are ordered by `strcmp` of the names;
then the unsuffixed sections follow in command-line order; `.ctors*`/`.dtors*` contents are copied
back to front (SEC_ELF_REVERSE_COPY). This reading was validated against /usr/bin/ld on the boundary
cases (see scratch/c10c05c30/REPORT.md) and is re-validated by the check on every generated case.

Theorems
* `initfini_order_eq_gnu_partial` : inside the region `agreeB` (every routed section is `.x`,
  or `.x.N` on which both priority parsers agree with a value < 65535, and two suffixed sections
  of equal priority have equal names) wild's emitted sequence IS `gnuOrder`, for every input list.
* `C30_full` + four proved negation witnesses: outside the region the orders differ
  (`.init_array.65535` vs unsuffixed; suffix > 65535; non-numeric suffix; equal priority under
  different names, e.g. `.ctors.65435` vs `.init_array.100`).
* `order_stable` : sections of equal priority keep their command-line order (all inputs).
* `secOrder_sorted`, `secOrder_perm_filter`: output order is ascending in priority and loses /
  duplicates nothing.
-/
namespace Wild.InitFini

/-! ## Generic facts: a list sorted by a key with prescribed per-key sublists is unique -/

theorem eq_of_sorted_filter {α : Type} (k : α → Nat) :
    ∀ (L1 L2 : List α), L1.Pairwise (fun a b => k a ≤ k b) → L2.Pairwise (fun a b => k a ≤ k b) →
      (∀ v, L1.filter (fun a => k a == v) = L2.filter (fun a => k a == v)) → L1 = L2 := by
  intro L1
  induction L1 with
  | nil =>
    intro L2 _ _ hf
    cases L2 with
    | nil => rfl
    | cons b u =>
      have := hf (k b)
      simp at this
  | cons a t ih =>
    intro L2 h1 h2 hf
    cases L2 with
    | nil =>
      have := hf (k a)
      simp at this
    | cons b u =>
      have hbL1 : b ∈ a :: t := by
        have : b ∈ (b :: u).filter (fun x => k x == k b) := by simp
        rw [← hf (k b)] at this
        exact (List.mem_filter.1 this).1
      have haL2 : a ∈ b :: u := by
        have : a ∈ (a :: t).filter (fun x => k x == k a) := by simp
        rw [hf (k a)] at this
        exact (List.mem_filter.1 this).1
      have h1' := List.pairwise_cons.1 h1
      have h2' := List.pairwise_cons.1 h2
      have hab : k a ≤ k b := by
        rcases List.mem_cons.1 hbL1 with h | h
        · rw [h]; exact Nat.le_refl _
        · exact h1'.1 b h
      have hba : k b ≤ k a := by
        rcases List.mem_cons.1 haL2 with h | h
        · rw [h]; exact Nat.le_refl _
        · exact h2'.1 a h
      have hk : k a = k b := Nat.le_antisymm hab hba
      have h0 := hf (k a)
      simp only [List.filter_cons, beq_self_eq_true, if_true] at h0
      have hkb : (k b == k a) = true := by simp [hk]
      simp only [hkb, if_true] at h0
      have heq : a = b := (List.cons.inj h0).1
      subst heq
      have htl : t = u := by
        apply ih u h1'.2 h2'.2
        intro v
        have := hf v
        simp only [List.filter_cons] at this
        by_cases hv : (k a == v) = true
        · simp only [hv, if_true] at this
          exact (List.cons.inj this).2
        · simp only [hv] at this
          exact this
      rw [htl]

/-! ## Wild side: structure of `secOrder` -/

/-- numeric key used in the proofs (sections without a priority are handled separately) -/
def key (s : Sec) : Nat := (prio s).getD 0

theorem mem_insertPrio (p x : Nat) : ∀ l : List Nat, x ∈ insertPrio p l ↔ x = p ∨ x ∈ l := by
  intro l
  induction l with
  | nil => simp [insertPrio]
  | cons q qs ih =>
    simp only [insertPrio]
    split
    · simp
    · split
      · rename_i h; subst h; simp
      · simp only [List.mem_cons, ih]
        constructor
        · rintro (h | h | h) <;> simp [h]
        · rintro (h | h | h) <;> simp [h]

theorem insertPrio_pairwise (p : Nat) : ∀ l : List Nat, l.Pairwise (· < ·) → (insertPrio p l).Pairwise (· < ·) := by
  intro l
  induction l with
  | nil => intro _; simp [insertPrio]
  | cons q qs ih =>
    intro h
    have h' := List.pairwise_cons.1 h
    simp only [insertPrio]
    split
    · rename_i hpq
      apply List.pairwise_cons.2
      refine ⟨?_, h⟩
      intro a ha
      rcases List.mem_cons.1 ha with h1 | h1
      · rw [h1]; exact hpq
      · exact Nat.lt_trans hpq (h'.1 a h1)
    · split
      · exact h
      · apply List.pairwise_cons.2
        refine ⟨?_, ih h'.2⟩
        intro a ha
        rcases (mem_insertPrio p a qs).1 ha with h1 | h1
        · rw [h1]; omega
        · exact h'.1 a h1

theorem sortedPrios_pairwise (secs : List Sec) : (sortedPrios secs).Pairwise (· < ·) := by
  unfold sortedPrios
  induction secs.filterMap prio with
  | nil => exact List.Pairwise.nil
  | cons p ps ih => exact insertPrio_pairwise p _ ih

theorem mem_sortedPrios (secs : List Sec) (p : Nat) :
    p ∈ sortedPrios secs ↔ ∃ s ∈ secs, prio s = some p := by
  unfold sortedPrios
  have : ∀ l : List Nat, p ∈ l.foldr insertPrio [] ↔ p ∈ l := by
    intro l
    induction l with
    | nil => simp
    | cons q qs ih => simp only [List.foldr_cons, mem_insertPrio, ih, List.mem_cons]
  rw [this, List.mem_filterMap]

/-- The part of `secOrder` that comes from the secondaries, filtered by one priority, is exactly
the input filtered by that priority. -/
theorem flatMap_buckets_filter (secs : List Sec) (v : Nat) :
    ∀ (ps : List Nat), ps.Pairwise (· < ·) →
      (ps.flatMap fun p => secs.filter fun s => prio s == some p).filter (fun s => prio s == some v)
        = if v ∈ ps then secs.filter (fun s => prio s == some v) else [] := by
  intro ps
  induction ps with
  | nil => intro _; simp
  | cons p ps ih =>
    intro hp
    have hp' := List.pairwise_cons.1 hp
    rw [List.flatMap_cons, List.filter_append, ih hp'.2]
    by_cases hpv : p = v
    · subst hpv
      have hnot : p ∉ ps := fun hm => Nat.lt_irrefl _ (hp'.1 p hm)
      simp [hnot, List.filter_filter]
    · have : (secs.filter fun s => prio s == some p).filter (fun s => prio s == some v) = [] := by
        rw [List.filter_filter, List.filter_eq_nil_iff]
        intro s _
        simp only [Bool.and_eq_true, beq_iff_eq, not_and]
        intro h1 h2
        rw [h2] at h1
        exact hpv (Option.some.inj h1)
      rw [this]
      have hvp : v ≠ p := fun h => hpv h.symm
      simp [hvp]

theorem filter_prio_secOrder (secs : List Sec) (v : Nat) :
    (secOrder secs).filter (fun s => prio s == some v) = secs.filter (fun s => prio s == some v) := by
  unfold secOrder
  rw [List.filter_append, flatMap_buckets_filter secs v _ (sortedPrios_pairwise secs)]
  have h1 : (secs.filter fun s => prio s == none).filter (fun s => prio s == some v) = [] := by
    rw [List.filter_filter, List.filter_eq_nil_iff]
    intro s _
    cases prio s <;> simp
  rw [h1, List.nil_append]
  split
  · rfl
  · rename_i hnot
    symm
    rw [List.filter_eq_nil_iff]
    intro s hs h
    exact hnot ((mem_sortedPrios secs v).2 ⟨s, hs, by simpa using h⟩)

/-- **C30 (`order_stable`).** For every input list: the sections of one priority appear in the
output in exactly their command-line order (nothing lost, nothing duplicated, nothing swapped). -/
theorem order_stable (secs : List Sec) (p : Option Nat) :
    (secOrder secs).filter (fun s => prio s == p) = secs.filter (fun s => prio s == p) := by
  cases p with
  | some v => exact filter_prio_secOrder secs v
  | none =>
    unfold secOrder
    rw [List.filter_append, List.filter_filter]
    have : ((sortedPrios secs).flatMap fun p => secs.filter fun s => prio s == some p).filter
        (fun s => prio s == none) = [] := by
      rw [List.filter_eq_nil_iff]
      intro s hs
      simp only [List.mem_flatMap, List.mem_filter, beq_iff_eq] at hs
      obtain ⟨p, _, _, h⟩ := hs
      simp [h]
    rw [this]
    simp

/-- **C30 (`secOrder_perm_filter`)**: membership is preserved. -/
theorem mem_secOrder (secs : List Sec) (s : Sec) : s ∈ secOrder secs ↔ s ∈ secs := by
  constructor
  · intro h
    unfold secOrder at h
    simp only [List.mem_append, List.mem_filter, List.mem_flatMap] at h
    rcases h with h | ⟨_, _, h, _⟩
    · exact h.1
    · exact h
  · intro h
    have : s ∈ (secOrder secs).filter (fun t => prio t == prio s) := by
      rw [order_stable]; simp [h]
    exact (List.mem_filter.1 this).1


theorem pairwise_of_const {α : Type} (k : α → Nat) (p : Nat) :
    ∀ l : List α, (∀ a ∈ l, k a = p) → l.Pairwise (fun a b => k a ≤ k b)
  | [], _ => List.Pairwise.nil
  | a :: t, h => List.pairwise_cons.2
      ⟨fun b hb => by rw [h a (by simp), h b (by simp [hb])]; exact Nat.le_refl _,
       pairwise_of_const k p t (fun b hb => h b (by simp [hb]))⟩

/-- **C30 (`secOrder_sorted`)**: among sections with a priority the output is ascending. -/
theorem secOrder_sorted (secs : List Sec) :
    ((sortedPrios secs).flatMap fun p => secs.filter fun s => prio s == some p).Pairwise
      (fun a b => key a ≤ key b) := by
  rw [List.pairwise_flatMap]
  constructor
  · intro p _
    apply pairwise_of_const key p
    intro a ha
    simp only [List.mem_filter, beq_iff_eq] at ha
    simp [key, ha.2]
  · apply List.Pairwise.imp _ (sortedPrios_pairwise secs)
    intro p q hpq x hx y hy
    simp only [List.mem_filter, beq_iff_eq] at hx hy
    simp only [key, hx.2, hy.2, Option.getD_some]
    omega

/-! ## GNU side: the search tree with a comparator that is `<` on a key is a stable sort -/

inductive Bst (k : Sec → Nat) : Tree → Prop
  | leaf : Bst k .leaf
  | node (l : Tree) (s : Sec) (r : Tree) : Bst k l → Bst k r → (∀ a ∈ l.toList, k a < k s) →
      (∀ b ∈ r.toList, k s ≤ k b) → Bst k (.node l s r)

theorem mem_insertBy (lt : Sec → Sec → Bool) (x a : Sec) :
    ∀ t : Tree, a ∈ (Tree.insertBy lt t x).toList ↔ a ∈ t.toList ∨ a = x := by
  intro t
  induction t with
  | leaf => simp [Tree.insertBy, Tree.toList]
  | node l s r ihl ihr =>
    simp only [Tree.insertBy]
    split
    · simp only [Tree.toList, List.mem_append, List.mem_cons, ihl]
      constructor
      · rintro ((h | h) | h | h) <;> simp [h]
      · rintro ((h | h | h) | h) <;> simp [h]
    · simp only [Tree.toList, List.mem_append, List.mem_cons, ihr]
      constructor
      · rintro (h | h | h | h) <;> simp [h]
      · rintro ((h | h | h) | h) <;> simp [h]

theorem bst_insert (k : Sec → Nat) (lt : Sec → Sec → Bool) (x : Sec) :
    ∀ t : Tree, (∀ y ∈ t.toList, lt x y = decide (k x < k y)) → Bst k t → Bst k (Tree.insertBy lt t x) := by
  intro t
  induction t with
  | leaf =>
    intro _ _
    exact Bst.node .leaf x .leaf Bst.leaf Bst.leaf (by simp [Tree.toList]) (by simp [Tree.toList])
  | node l s r ihl ihr =>
    intro hlt hb
    cases hb with
    | node _ _ _ hbl hbr hl hr =>
      have hs : lt x s = decide (k x < k s) := hlt s (by simp [Tree.toList])
      simp only [Tree.insertBy]
      split
      · rename_i hxs
        rw [hs] at hxs
        have hxs' : k x < k s := of_decide_eq_true hxs
        refine Bst.node _ _ _ (ihl (fun y hy => hlt y (by simp [Tree.toList, hy])) hbl) hbr ?_ hr
        intro a ha
        rcases (mem_insertBy lt x a l).1 ha with h | h
        · exact hl a h
        · rw [h]; exact hxs'
      · rename_i hxs
        rw [hs] at hxs
        have hxs' : k s ≤ k x := Nat.le_of_not_lt (fun h => hxs (decide_eq_true h))
        refine Bst.node _ _ _ hbl (ihr (fun y hy => hlt y (by simp [Tree.toList, hy])) hbr) hl ?_
        intro a ha
        rcases (mem_insertBy lt x a r).1 ha with h | h
        · exact hr a h
        · rw [h]; exact hxs'

theorem filter_insert (k : Sec → Nat) (lt : Sec → Sec → Bool) (x : Sec) (v : Nat) :
    ∀ t : Tree, (∀ y ∈ t.toList, lt x y = decide (k x < k y)) → Bst k t →
      (Tree.insertBy lt t x).toList.filter (fun a => k a == v) =
        t.toList.filter (fun a => k a == v) ++ [x].filter (fun a => k a == v) := by
  intro t
  induction t with
  | leaf => intro _ _; simp [Tree.insertBy, Tree.toList]
  | node l s r ihl ihr =>
    intro hlt hb
    cases hb with
    | node _ _ _ hbl hbr hl hr =>
      have hs : lt x s = decide (k x < k s) := hlt s (by simp [Tree.toList])
      simp only [Tree.insertBy]
      split
      · rename_i hxs
        rw [hs] at hxs
        have hxs' : k x < k s := of_decide_eq_true hxs
        simp only [Tree.toList, List.filter_append]
        rw [ihl (fun y hy => hlt y (by simp [Tree.toList, hy])) hbl]
        by_cases hv : k x = v
        · have hnil : (s :: r.toList).filter (fun a => k a == v) = [] := by
            rw [List.filter_eq_nil_iff]
            intro a ha
            simp only [beq_iff_eq]
            rcases List.mem_cons.1 ha with h | h
            · rw [h]; omega
            · have := hr a h; omega
          rw [hnil]; simp
        · have : [x].filter (fun a => k a == v) = [] := by simp [hv]
          rw [this]; simp
      · simp only [Tree.toList, List.filter_append, List.filter_cons]
        rw [ihr (fun y hy => hlt y (by simp [Tree.toList, hy])) hbr]
        split <;> simp [List.filter_cons]

theorem bst_sorted (k : Sec → Nat) : ∀ t : Tree, Bst k t → t.toList.Pairwise (fun a b => k a ≤ k b) := by
  intro t hb
  induction hb with
  | leaf => exact List.Pairwise.nil
  | node l s r _ _ hl hr ihl ihr =>
    simp only [Tree.toList]
    rw [List.pairwise_append]
    refine ⟨ihl, List.pairwise_cons.2 ⟨hr, ihr⟩, ?_⟩
    intro a ha b hb
    rcases List.mem_cons.1 hb with h | h
    · rw [h]; exact Nat.le_of_lt (hl a ha)
    · exact Nat.le_trans (Nat.le_of_lt (hl a ha)) (hr b h)

theorem fold_insert (k : Sec → Nat) (lt : Sec → Sec → Bool) (P : Sec → Prop)
    (hlt : ∀ x y, P x → P y → lt x y = decide (k x < k y)) :
    ∀ (xs : List Sec) (t0 : Tree), (∀ x ∈ xs, P x) → (∀ y ∈ t0.toList, P y) → Bst k t0 →
      Bst k (xs.foldl (Tree.insertBy lt) t0) ∧
      (∀ v, (xs.foldl (Tree.insertBy lt) t0).toList.filter (fun a => k a == v) =
        t0.toList.filter (fun a => k a == v) ++ xs.filter (fun a => k a == v)) ∧
      (∀ a ∈ (xs.foldl (Tree.insertBy lt) t0).toList, P a) := by
  intro xs
  induction xs with
  | nil => intro t0 _ h0 hb; simp [hb]; exact h0
  | cons x xs ih =>
    intro t0 hxs h0 hb
    have hx : P x := hxs x (by simp)
    have hl : ∀ y ∈ t0.toList, lt x y = decide (k x < k y) := fun y hy => hlt x y hx (h0 y hy)
    have hb1 := bst_insert k lt x t0 hl hb
    have hP1 : ∀ y ∈ (Tree.insertBy lt t0 x).toList, P y := by
      intro y hy
      rcases (mem_insertBy lt x y t0).1 hy with h | h
      · exact h0 y h
      · rw [h]; exact hx
    obtain ⟨r1, r2, r3⟩ := ih (Tree.insertBy lt t0 x) (fun y hy => hxs y (by simp [hy])) hP1 hb1
    refine ⟨r1, ?_, r3⟩
    intro v
    simp only [List.foldl_cons]
    rw [r2 v, filter_insert k lt x v t0 hl hb]
    simp [List.filter_cons]
    split <;> simp

/-! ## The region of agreement -/

def agreeSec (o : Out) (s : Sec) : Bool :=
  if sortedStmt o s.name then
    outputOf s.name == some o &&
      (match prio s, gnuPriority s.name with
       | some p, some q => p == q && decide (p < 65535)
       | _, _ => false)
  else if plainStmt o s.name then true
  else outputOf s.name != some o

/-- Every routed section is `.x` or `.x.<suffix>`; on suffixed names wild's and ld's priority
parsers agree on a value < 65535; suffixed sections of equal priority have equal names. -/
def agreeB (o : Out) (secs : List Sec) : Bool :=
  secs.all (agreeSec o) &&
  secs.all fun s => secs.all fun t =>
    !(sortedStmt o s.name && sortedStmt o t.name && prio s == prio t) || s.name == t.name

/-- The full property: no side condition. It does NOT hold (witnesses below). -/
def C30_full : Prop := ∀ (o : Out) (secs : List Sec), emit o secs = gnuOrder o secs


/-! ## Main theorem -/

theorem contents_eq_gnu (s : Sec) : contents s = gnuContents s := rfl

theorem outputOf_preinit_iff (name : List Char) : outputOf name = some .preinit ↔ name = sPreinitArray := by
  unfold outputOf
  repeat' split
  all_goals simp_all

/-- `.preinit_array` needs no side condition. -/
theorem preinit_order_eq_gnu (secs : List Sec) : emit .preinit secs = gnuOrder .preinit secs := by
  simp only [emit, gnuOrder, routed]
  congr 1
  apply List.filter_congr
  intro s _
  have hc : (".preinit_array".toList : List Char) = sPreinitArray := rfl
  rw [hc]
  have := outputOf_preinit_iff s.name
  by_cases h : s.name = sPreinitArray
  · rw [decide_eq_true (this.2 h)]
    exact (beq_iff_eq.2 h).symm
  · have h2 : ¬ outputOf s.name = some .preinit := fun hh => h (this.1 hh)
    rw [decide_eq_false h2]
    cases hb : (s.name == sPreinitArray) with
    | false => rfl
    | true => exact absurd (eq_of_beq hb) h

theorem plain_cases (o : Out) (name : List Char) (h : plainStmt o name = true) :
    name = baseOf o ∨ name = altOf o := by
  unfold plainStmt at h
  rcases Bool.or_eq_true_iff.1 h with h | h
  · exact Or.inl (eq_of_beq h)
  · exact Or.inr (eq_of_beq h)

theorem plain_facts (o : Out) (ho : o ≠ .preinit) (name : List Char) (h : plainStmt o name = true) :
    outputOf name = some o ∧ initFiniPriority name = some 65535 ∧ sortedStmt o name = false := by
  cases o with
  | preinit => exact absurd rfl ho
  | init => rcases plain_cases _ _ h with h | h <;> subst h <;> decide
  | fini => rcases plain_cases _ _ h with h | h <;> subst h <;> decide

/-- splitting a list by a two-way classification whose classes are separated by the key -/
theorem filter_split (k : Sec → Nat) (A B : Sec → Bool) (c v : Nat) :
    ∀ R : List Sec, (∀ s ∈ R, (A s = true ∧ B s = false ∧ k s < c) ∨ (A s = false ∧ B s = true ∧ c ≤ k s)) →
      R.filter (fun s => k s == v) =
        (R.filter A).filter (fun s => k s == v) ++ (R.filter B).filter (fun s => k s == v) := by
  intro R
  induction R with
  | nil => intro _; rfl
  | cons x R ih =>
    intro h
    have ih' := ih (fun s hs => h s (by simp [hs]))
    rcases h x (by simp) with ⟨ha, hb, hk⟩ | ⟨ha, hb, hk⟩
    · simp only [List.filter_cons, ha, hb, if_true]
      split
      · simp [ih']
      · simpa using ih'
    · simp only [List.filter_cons, ha, hb, if_true]
      split
      · rename_i hv
        have hv' : k x = v := by simpa using hv
        have hnil : (R.filter A).filter (fun s => k s == v) = [] := by
          rw [List.filter_filter, List.filter_eq_nil_iff]
          intro s hs
          simp only [Bool.and_eq_true, beq_iff_eq, not_and]
          intro hkv hAs
          rcases h s (by simp [hs]) with ⟨_, _, hk2⟩ | ⟨ha2, _, _⟩
          · omega
          · rw [ha2] at hAs; cases hAs
        rw [hnil] at ih'
        simp only [Bool.false_eq_true, if_false]
        rw [hnil, ih']
        rfl
      · simpa using ih'

theorem secOrder_eq_gnu (o : Out) (ho : o ≠ .preinit) (secs : List Sec) (h : agreeB o secs = true) :
    secOrder (routed o secs) = gnuSecOrder o secs := by
  simp only [agreeB, Bool.and_eq_true, List.all_eq_true] at h
  obtain ⟨hsec, hname⟩ := h
  -- facts per section
  have hS : ∀ s ∈ secs, sortedStmt o s.name = true →
      outputOf s.name = some o ∧ ∃ p, prio s = some p ∧ gnuPriority s.name = some p ∧ p < 65535 := by
    intro s hs hst
    have := hsec s hs
    simp only [agreeSec, hst, if_true, Bool.and_eq_true, beq_iff_eq] at this
    refine ⟨this.1, ?_⟩
    have h2 := this.2
    cases hp : prio s with
    | none => simp [hp] at h2
    | some p =>
      cases hq : gnuPriority s.name with
      | none => simp [hp, hq] at h2
      | some q =>
        simp only [hp, hq, Bool.and_eq_true, beq_iff_eq, decide_eq_true_eq] at h2
        exact ⟨p, rfl, by rw [h2.1], h2.2⟩
  have hRouted : ∀ s ∈ secs, outputOf s.name = some o →
      sortedStmt o s.name = true ∨ plainStmt o s.name = true := by
    intro s hs hr
    have := hsec s hs
    by_cases h1 : sortedStmt o s.name = true
    · exact Or.inl h1
    · by_cases h2 : plainStmt o s.name = true
      · exact Or.inr h2
      · simp [agreeSec, h1, h2, hr] at this
  -- the routed list, classified
  let R := routed o secs
  have hRmem : ∀ s, s ∈ R ↔ s ∈ secs ∧ outputOf s.name = some o := by
    intro s; simp [R, routed, List.mem_filter]
  have hclass : ∀ s ∈ R,
      ((sortedStmt o s.name = true ∧ plainStmt o s.name = false ∧ key s < 65535) ∨
       (sortedStmt o s.name = false ∧ plainStmt o s.name = true ∧ 65535 ≤ key s)) := by
    intro s hs
    obtain ⟨hs1, hs2⟩ := (hRmem s).1 hs
    rcases hRouted s hs1 hs2 with h1 | h1
    · left
      obtain ⟨_, p, hp, _, hlt⟩ := hS s hs1 h1
      refine ⟨h1, ?_, by simp [key, hp]; exact hlt⟩
      cases hpl : plainStmt o s.name with
      | false => rfl
      | true => have := (plain_facts o ho s.name hpl).2.2; rw [this] at h1; cases h1
    · right
      have := plain_facts o ho s.name h1
      exact ⟨this.2.2, h1, by simp [key, prio, this.2.1]⟩
  have hprio : ∀ s ∈ R, ∃ p, prio s = some p := by
    intro s hs
    obtain ⟨hs1, hs2⟩ := (hRmem s).1 hs
    rcases hRouted s hs1 hs2 with h1 | h1
    · obtain ⟨_, p, hp, _⟩ := hS s hs1 h1; exact ⟨p, hp⟩
    · exact ⟨65535, (plain_facts o ho s.name h1).2.1⟩
  -- filters of secs and of R coincide on the two statements
  have hfS : secs.filter (fun s => sortedStmt o s.name) = R.filter (fun s => sortedStmt o s.name) := by
    simp only [R, routed, List.filter_filter]
    apply List.filter_congr
    intro s hs
    by_cases h1 : sortedStmt o s.name = true
    · simp [h1, (hS s hs h1).1]
    · simp [h1]
  have hfP : secs.filter (fun s => plainStmt o s.name) = R.filter (fun s => plainStmt o s.name) := by
    simp only [R, routed, List.filter_filter]
    apply List.filter_congr
    intro s _
    by_cases h1 : plainStmt o s.name = true
    · simp [h1, (plain_facts o ho s.name h1).1]
    · simp [h1]
  -- wild side
  have hW : secOrder R = (sortedPrios R).flatMap fun p => R.filter fun s => prio s == some p := by
    unfold secOrder
    have : R.filter (fun s => prio s == none) = [] := by
      rw [List.filter_eq_nil_iff]
      intro s hs
      obtain ⟨p, hp⟩ := hprio s hs
      simp [hp]
    rw [this, List.nil_append]
  have hkeyfilter : ∀ (L : List Sec), (∀ s ∈ L, ∃ p, prio s = some p) → ∀ v,
      L.filter (fun s => key s == v) = L.filter (fun s => prio s == some v) := by
    intro L hL v
    apply List.filter_congr
    intro s hs
    obtain ⟨p, hp⟩ := hL s hs
    simp [key, hp]
  -- gnu side: the tree
  let P : Sec → Prop := fun s => s ∈ secs ∧ sortedStmt o s.name = true
  have hlt : ∀ x y, P x → P y → gnuLt x y = decide (key x < key y) := by
    intro x y ⟨hx1, hx2⟩ ⟨hy1, hy2⟩
    obtain ⟨_, p, hp, hgp, _⟩ := hS x hx1 hx2
    obtain ⟨_, q, hq, hgq, _⟩ := hS y hy1 hy2
    simp only [gnuLt, hgp, hgq, key, hp, hq, Option.getD_some]
    by_cases hpq : p = q
    · subst hpq
      have hn := hname x hx1 y hy1
      simp only [hx2, hy2, hp, hq, beq_self_eq_true, Bool.and_self, Bool.not_true, Bool.false_or, beq_iff_eq] at hn
      have hirr : ∀ l : List Char, nameLt l l = false := by
        intro l; induction l with
        | nil => rfl
        | cons a t ih => simp [nameLt, ih]
      simp [hn, hirr]
    · simp [hpq]
  have hfold := fold_insert key gnuLt P hlt (secs.filter fun s => sortedStmt o s.name) .leaf
    (by intro x hx; exact ⟨(List.mem_filter.1 hx).1, (List.mem_filter.1 hx).2⟩)
    (by simp [Tree.toList]) Bst.leaf
  obtain ⟨hbst, hfilt, hPall⟩ := hfold
  -- assemble
  unfold gnuSecOrder
  apply eq_of_sorted_filter key
  · rw [hW]; exact secOrder_sorted R
  · rw [List.pairwise_append]
    refine ⟨bst_sorted key _ hbst, ?_, ?_⟩
    · apply pairwise_of_const key 65535
      intro a ha
      have := plain_facts o ho a.name (List.mem_filter.1 ha).2
      simp [key, prio, this.2.1]
    · intro a ha b hb
      obtain ⟨ha1, ha2⟩ := hPall a ha
      obtain ⟨_, p, hp, _, hlt⟩ := hS a ha1 ha2
      have := plain_facts o ho b.name (List.mem_filter.1 hb).2
      have hkb : key b = 65535 := by simp [key, prio, this.2.1]
      have hka : key a = p := by simp [key, hp]
      rw [hka, hkb]
      omega
  · intro v
    rw [List.filter_append, hfilt v, hfS, hfP]
    simp only [Tree.toList, List.filter_nil, List.nil_append]
    rw [← filter_split key (fun s => sortedStmt o s.name) (fun s => plainStmt o s.name) 65535 v R hclass]
    rw [hkeyfilter R hprio v, hkeyfilter (secOrder R) (fun s hs => hprio s ((mem_secOrder R s).1 hs)) v]
    exact order_stable R (some v)

/-- **C30 (`initfini_order_eq_gnu_partial`).** For EVERY list of input sections in command-line
order and each of the three array outputs: inside the region `agreeB`, the sequence wild emits is
the sequence GNU ld's default script emits. Gap to the full statement: the four input classes
excluded by `agreeB`, each with a proved witness below. -/
theorem initfini_order_eq_gnu_partial (o : Out) (secs : List Sec)
    (h : o = .preinit ∨ agreeB o secs = true) : emit o secs = gnuOrder o secs := by
  cases o with
  | preinit => exact preinit_order_eq_gnu secs
  | init =>
    rcases h with h | h
    · cases h
    · simp only [emit, gnuOrder, secOrder_eq_gnu .init (by decide) secs h]
      congr 1
  | fini =>
    rcases h with h | h
    · cases h
    · simp only [emit, gnuOrder, secOrder_eq_gnu .fini (by decide) secs h]
      congr 1

/-! ## Non-vacuity and witnesses -/

def mk (n : String) (e : List Nat) : Sec := { name := n.toList, entries := e }

/-- a mixed in-region input (priorities, legacy sections, several files) -/
def exRegion : List Sec :=
  [mk ".ctors" [1, 2], mk ".init_array" [3, 4], mk ".init_array.200" [5], mk ".ctors.65435" [7, 8],
   mk ".init_array.200" [9], mk ".ctors.65435" [11, 12], mk ".preinit_array" [13], mk ".fini_array.7" [14],
   mk ".dtors" [15, 16], mk ".text" [17]]

example : agreeB .init exRegion = true := by decide
example : agreeB .fini exRegion = true := by decide
example : emit .init exRegion = [8, 7, 12, 11, 5, 9, 2, 1, 3, 4] := by decide
example : emit .fini exRegion = [14, 16, 15] := by decide

/-- `.init_array.65535` (or `.ctors.0`) shares wild's secondary with the unsuffixed sections and
keeps command-line order; GNU ld emits every suffixed section before every unsuffixed one. -/
theorem witness_suffixed_65535_vs_unsuffixed :
    emit .init [mk ".init_array" [1], mk ".init_array.65535" [2]] = [1, 2] ∧
    gnuOrder .init [mk ".init_array" [1], mk ".init_array.65535" [2]] = [2, 1] := by decide

/-- suffix > 65535: wild clamps to 65535 (command-line order, mixed with the unsuffixed ones); GNU ld
orders numerically and before the unsuffixed ones. -/
theorem witness_suffix_gt_65535 :
    emit .init [mk ".init_array" [1], mk ".init_array.70000" [2], mk ".init_array.66000" [3]] = [1, 2, 3] ∧
    gnuOrder .init [mk ".init_array" [1], mk ".init_array.70000" [2], mk ".init_array.66000" [3]] = [3, 2, 1] := by
  decide

/-- non-numeric suffix: wild leaves the section in the primary (first); GNU ld sorts it by name
among the prioritised ones. -/
theorem witness_non_numeric_suffix :
    emit .init [mk ".init_array.100" [1], mk ".init_array.foo" [2]] = [2, 1] ∧
    gnuOrder .init [mk ".init_array.100" [1], mk ".init_array.foo" [2]] = [1, 2] := by decide

/-- equal priority under different names: wild keeps command-line order; GNU ld orders by name
(`.ctors.65435` before `.init_array.100`, `.init_array.0100` before `.init_array.100`). -/
theorem witness_equal_priority_different_names :
    emit .init [mk ".init_array.100" [1], mk ".ctors.65435" [2]] = [1, 2] ∧
    gnuOrder .init [mk ".init_array.100" [1], mk ".ctors.65435" [2]] = [2, 1] := by decide

/-- The full statement is false. -/
theorem C30_full_witness : ¬ C30_full := by
  intro h
  have h1 := h .init [mk ".init_array" [1], mk ".init_array.65535" [2]]
  rw [witness_suffixed_65535_vs_unsuffixed.1, witness_suffixed_65535_vs_unsuffixed.2] at h1
  cases h1

end Wild.InitFini
