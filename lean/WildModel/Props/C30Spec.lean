import WildModel.Model.InitFini
/-!
# C30 spec side: GNU ld's order of `.preinit_array` / `.init_array` / `.fini_array` entries

Independent of the model of wild (only the `Sec`/`Out` data types are shared). Core-only imports, so
the driver can evaluate it next to the model (`initfini` op): the check validates this reading of
ld's default script against /usr/bin/ld on every generated case.
-/
namespace Wild.InitFini

/-! ## GNU ld side -/

def digitsVal (s : List Char) : Nat := s.foldl (fun a c => a * 10 + (c.toNat - 48)) 0

/-- `strrchr (name, '.')`: index of the last dot and the characters after it. -/
def afterLastDot (name : List Char) : Option (Nat × List Char) :=
  let rec go (l : List Char) (i : Nat) (best : Option (Nat × List Char)) : Option (Nat × List Char) :=
    match l with
    | [] => best
    | c :: t => go t (i + 1) (if c = '.' then some (i, t) else best)
  go name 0 none

/-- `get_init_priority` of ldlang.c; `none` stands for -1. -/
def gnuPriority (name : List Char) : Option Nat :=
  match afterLastDot name with
  | none => none
  | some (i, rest) =>
    if rest.isEmpty || !rest.all Char.isDigit then none
    else
      let v := min (digitsVal rest) (2 ^ 64 - 1)
      let v := if i = 6 ∧ (".ctors".toList.isPrefixOf name ∨ ".dtors".toList.isPrefixOf name)
               then (2 ^ 64 + 65535 - v) % 2 ^ 64 else v
      if v ≤ 2 ^ 31 - 1 then some v else none

/-- `strcmp (a, b) < 0` -/
def nameLt : List Char → List Char → Bool
  | [], [] => false
  | [], _ :: _ => true
  | _ :: _, [] => false
  | a :: as, b :: bs => if a.toNat < b.toNat then true else if b.toNat < a.toNat then false else nameLt as bs

/-- `compare_section (by_init_priority, new, node) < 0` -/
def gnuLt (new node : Sec) : Bool :=
  match gnuPriority new.name, gnuPriority node.name with
  | some a, some b => if a = b then nameLt new.name node.name else decide (a < b)
  | _, _ => nameLt new.name node.name

inductive Tree where
  | leaf
  | node (l : Tree) (s : Sec) (r : Tree)

def Tree.insertBy (lt : Sec → Sec → Bool) : Tree → Sec → Tree
  | .leaf, x => .node .leaf x .leaf
  | .node l s r, x => if lt x s then .node (l.insertBy lt x) s r else .node l s (r.insertBy lt x)

def Tree.toList : Tree → List Sec
  | .leaf => []
  | .node l s r => l.toList ++ s :: r.toList

def baseOf : Out → List Char
  | .preinit => ".preinit_array".toList
  | .init => ".init_array".toList
  | .fini => ".fini_array".toList

def altOf : Out → List Char
  | .preinit => ".preinit_array".toList
  | .init => ".ctors".toList
  | .fini => ".dtors".toList

/-- matches `base.*` or `alt.*` (first, sorted statement) -/
def sortedStmt (o : Out) (name : List Char) : Bool :=
  (baseOf o ++ ['.']).isPrefixOf name || (altOf o ++ ['.']).isPrefixOf name

/-- is exactly `base` or `alt` (second statement) -/
def plainStmt (o : Out) (name : List Char) : Bool :=
  name == baseOf o || name == altOf o

def gnuSecOrder (o : Out) (secs : List Sec) : List Sec :=
  ((secs.filter fun s => sortedStmt o s.name).foldl (Tree.insertBy gnuLt) .leaf).toList ++
    secs.filter fun s => plainStmt o s.name

def gnuContents (s : Sec) : List Nat :=
  if ".ctors".toList.isPrefixOf s.name || ".dtors".toList.isPrefixOf s.name then s.entries.reverse
  else s.entries

/-- The entry sequence GNU ld emits for output `o`. -/
def gnuOrder (o : Out) (secs : List Sec) : List Nat :=
  match o with
  | .preinit => (secs.filter fun s => s.name == ".preinit_array".toList).flatMap (·.entries)
  | _ => (gnuSecOrder o secs).flatMap gnuContents

end Wild.InitFini
