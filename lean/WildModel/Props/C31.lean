import WildModel.Model.SymTab
/-!
# C31 — Symbol tables describe the final resolution

Model: `Wild.SymTab` (`Model/SymTab.lean`: `can_export_symbol`, `export_all_dynamic`,
`DOWNGRADE_TO_LOCAL`, `SymbolTableWriter` ordering).

Spec (`specExport`, written independently as the reading of the property text): a name is a defined
entry of `.dynsym` iff

* it has a non-local definition in a regular object that takes part in the link, and that definition
  is the canonical one (the one every reference binds to, M-Link / C02);
* the most constraining visibility among ALL entries for the name (definitions and references) in
  regular objects that take part in the link is default or protected — hidden and internal never;
* it is not demoted: not `local:` in the version script, the defining file is not a member of an
  archive named by `--exclude-libs`;
* something asks for it: the output is a shared object, or `--export-dynamic`, or the export list
  (`--export-dynamic-symbol`, `--dynamic-list`) names it, or a shared object on the link line mentions
  the name in its dynamic symbol table.

Imports (`specImport`): referenced with default visibility from a regular object and bound to a
shared object's definition; or bound to nothing, referenced with default visibility only, and (shared
output or weak).

`.symtab`: locals part then globals part, `sh_info` = size of the locals part, every retained global
definition exactly once with the attributes of the chosen input definition.

All theorems quantify over every configuration and every list of files.
-/
namespace Wild.SymTab
open Wild.Link

/-- One symbol-table entry per file and name (ELF objects produced by an assembler/compiler). -/
def WF (fs : List XFile) : Prop := ∀ f ∈ fs, (f.syms.map (·.name)).Nodup

/-! ## The declarative statement -/

/-- Merged visibility of `n` is default or protected: no entry for the name in a regular object
taking part in the link is hidden or internal. -/
def VisibleEverywhere (fs : List XFile) (n : Nat) : Prop :=
  ∀ j g t, fs[j]? = some g → loaded fs j = true → g.dynamic = false → t ∈ g.syms →
    t.isLocal = false → t.name = n → t.vis.rank < 2

/-- A shared object taking part in the link mentions `n` in its dynamic symbol table. -/
def MentionedByShared (fs : List XFile) (n : Nat) : Prop :=
  ∃ j g t, fs[j]? = some g ∧ loaded fs j = true ∧ g.dynamic = true ∧ t ∈ g.syms ∧ t.isLocal = false ∧ t.name = n

def Requested (cfg : Config) (fs : List XFile) (n : Nat) : Prop :=
  cfg.out = .shared ∨ cfg.exportAll = true ∨ (∃ l, cfg.exportList = some l ∧ n ∈ l) ∨ MentionedByShared fs n

def specExport (cfg : Config) (fs : List XFile) (n : Nat) : Prop :=
  ∃ i f s, fs[i]? = some f ∧ s ∈ f.syms ∧ s.name = n ∧ s.defined = true ∧ s.isLocal = false
    ∧ f.dynamic = false ∧ loaded fs i = true
    ∧ resolveName false (linkFiles fs) n = some (.chosen i)
    ∧ VisibleEverywhere fs n
    ∧ n ∉ cfg.vsLocal ∧ f.excluded = false
    ∧ Requested cfg fs n

/-! ## Helper lemmas -/

theorem anyLoadedRegular_iff (fs : List XFile) (p : XFile → Bool) :
    anyLoadedRegular fs p = true ↔
      ∃ j g, fs[j]? = some g ∧ loaded fs j = true ∧ g.dynamic = false ∧ p g = true := by
  unfold anyLoadedRegular
  simp only [List.any_eq_true, List.mem_range]
  constructor
  · rintro ⟨j, hj, h⟩
    cases hg : fs[j]? with
    | none => simp [hg] at h
    | some g =>
      simp only [hg, Bool.and_eq_true, Bool.not_eq_true'] at h
      exact ⟨j, g, hg, h.1.1, h.1.2, h.2⟩
  · rintro ⟨j, g, hg, hl, hd, hp⟩
    have hj : j < fs.length := by
      rcases Nat.lt_or_ge j fs.length with h | h
      · exact h
      · rw [List.getElem?_eq_none h] at hg; cases hg
    exact ⟨j, hj, by simp [hg, hl, hd, hp]⟩

theorem hiddenEntry_iff (g : XFile) (n : Nat) (d : Bool) :
    hiddenEntry g n d = true ↔
      ∃ t, t ∈ g.syms ∧ t.isLocal = false ∧ t.name = n ∧ t.defined = d ∧ t.vis.rank = 2 := by
  unfold hiddenEntry Vis.isHidden
  simp only [List.any_eq_true, Bool.and_eq_true, Bool.not_eq_true', beq_iff_eq]
  constructor
  · rintro ⟨t, ht, ⟨⟨h1, h2⟩, h3⟩, h4⟩; exact ⟨t, ht, h1, h2, h3, h4⟩
  · rintro ⟨t, ht, h1, h2, h3, h4⟩; exact ⟨t, ht, ⟨⟨h1, h2⟩, h3⟩, h4⟩

theorem lt_length_of_getElem? {α} {l : List α} {i : Nat} {a : α} (h : l[i]? = some a) : i < l.length := by
  rcases Nat.lt_or_ge i l.length with h' | h'
  · exact h'
  · rw [List.getElem?_eq_none h'] at h; cases h

/-- Two different files that satisfy `p` make `countP p` at least two. -/
theorem two_le_countP {α} (p : α → Bool) : ∀ (l : List α) (i j : Nat) (a b : α), i < j →
    l[i]? = some a → l[j]? = some b → p a = true → p b = true → 2 ≤ l.countP p
  | [], i, j, a, b, _, h, _, _, _ => by simp at h
  | x :: l, 0, j + 1, a, b, _, ha, hb, pa, pb => by
    simp only [List.getElem?_cons_zero, Option.some.injEq] at ha
    simp only [List.getElem?_cons_succ] at hb
    subst ha
    have : 0 < l.countP p := List.countP_pos_iff.mpr ⟨b, List.mem_of_getElem? hb, pb⟩
    rw [List.countP_cons_of_pos pa]; omega
  | x :: l, i + 1, j + 1, a, b, hij, ha, hb, pa, pb => by
    simp only [List.getElem?_cons_succ] at ha hb
    have := two_le_countP p l i j a b (by omega) ha hb pa pb
    have : l.countP p ≤ (x :: l).countP p := by
      rw [List.countP_cons]; omega
    omega

theorem hasAlternatives_of_two (fs : List XFile) (n i j : Nat) (f g : XFile) (hne : i ≠ j)
    (hf : fs[i]? = some f) (hg : fs[j]? = some g) (df : f.definesGlobal n = true) (dg : g.definesGlobal n = true) :
    hasAlternatives fs n = true := by
  unfold hasAlternatives
  rcases Nat.lt_or_gt_of_ne hne with h | h
  · simpa using two_le_countP (·.definesGlobal n) fs i j f g h hf hg df dg
  · simpa using two_le_countP (·.definesGlobal n) fs j i g f h hg hf dg df

theorem definesGlobal_of_mem {f : XFile} {s : Sym} (hs : s ∈ f.syms) (hd : s.defined = true) (hl : s.isLocal = false) :
    f.definesGlobal s.name = true := by
  unfold XFile.definesGlobal
  simp only [List.any_eq_true, Bool.and_eq_true, Bool.not_eq_true', beq_iff_eq]
  exact ⟨s, hs, ⟨hd, hl⟩, rfl⟩

/-- Under `WF`, two entries of the same file with the same name are the same entry. -/
theorem entry_unique {l : List Sym} (h : (l.map (·.name)).Nodup) {s t : Sym} (hs : s ∈ l) (ht : t ∈ l)
    (hn : s.name = t.name) : s = t := by
  induction l with
  | nil => cases hs
  | cons x l ih =>
    simp only [List.map_cons, List.nodup_cons, List.mem_map, not_exists, not_and] at h
    rcases List.mem_cons.mp hs with rfl | hs' <;> rcases List.mem_cons.mp ht with rfl | ht'
    · rfl
    · exact absurd hn.symm (h.1 t ht')
    · exact absurd hn (h.1 s hs')
    · exact ih h.2 hs' ht'

theorem sharedRefs_iff (fs : List XFile) (n : Nat) :
    (sharedRefs fs).contains n = true ↔ MentionedByShared fs n := by
  unfold sharedRefs MentionedByShared
  simp only [List.contains_iff_mem, List.mem_flatMap, List.mem_range]
  constructor
  · rintro ⟨j, hj, h⟩
    cases hg : fs[j]? with
    | none => simp [hg] at h
    | some g =>
      simp only [hg] at h
      split at h
      · rename_i hc
        simp only [Bool.and_eq_true] at hc
        simp only [List.mem_map, List.mem_filter, Bool.not_eq_true'] at h
        obtain ⟨t, ⟨ht, hl⟩, hn⟩ := h
        exact ⟨j, g, t, hg, hc.1, hc.2, ht, hl, hn⟩
      · cases h
  · rintro ⟨j, g, t, hg, hl, hd, ht, hloc, hn⟩
    refine ⟨j, lt_length_of_getElem? hg, ?_⟩
    simp only [hg, hl, hd, Bool.and_self, if_true, List.mem_map, List.mem_filter, Bool.not_eq_true']
    exact ⟨t, ⟨ht, hloc⟩, hn⟩

theorem canExport_iff (cfg : Config) (fs : List XFile) (i : Nat) (f : XFile) (s : Sym) (ea : Bool) :
    canExport cfg fs i f s ea = true ↔
      s.defined = true ∧ s.isLocal = false ∧ s.vis.isHidden = false ∧ isCanonical fs i s.name = true
        ∧ downgraded cfg fs s.name = false ∧ f.excluded = false ∧ (ea = true ∨ inExportList cfg s.name = true) := by
  unfold canExport
  cases s.defined <;> cases s.isLocal <;> cases s.vis.isHidden <;> cases isCanonical fs i s.name <;>
    cases downgraded cfg fs s.name <;> cases f.excluded <;> cases ea <;> cases inExportList cfg s.name <;> simp

/-- The model's flag is clear and the entry itself is visible iff the name is visible everywhere and
not made local by the version script (for the canonical definition `s` of a loaded regular file). -/
theorem visible_iff (cfg : Config) (fs : List XFile) (hwf : WF fs) (i : Nat) (f : XFile) (s : Sym)
    (hf : fs[i]? = some f) (hs : s ∈ f.syms) (hd : s.defined = true) (hl : s.isLocal = false)
    (hreg : f.dynamic = false) (hload : loaded fs i = true) :
    (s.vis.isHidden = false ∧ downgraded cfg fs s.name = false) ↔
      (VisibleEverywhere fs s.name ∧ s.name ∉ cfg.vsLocal) := by
  have hfm : f ∈ fs := List.mem_of_getElem? hf
  constructor
  · rintro ⟨hown, hdg⟩
    unfold downgraded at hdg
    simp only [Bool.or_eq_false_iff] at hdg
    obtain ⟨⟨hvs, hdef⟩, href⟩ := hdg
    refine ⟨?_, by simpa [List.contains_iff_mem] using hvs⟩
    intro j g t hg hlj hdj ht htl htn
    rcases Nat.lt_or_ge t.vis.rank 2 with h | h
    · exact h
    · exfalso
      have hr : t.vis.rank = 2 := by
        have : t.vis.rank ≤ 2 := by cases t.vis <;> simp [Vis.rank]
        omega
      cases htd : t.defined with
      | false =>
        have : refVisHidden fs s.name = true :=
          (anyLoadedRegular_iff fs _).mpr ⟨j, g, hg, hlj, hdj, (hiddenEntry_iff g _ false).mpr ⟨t, ht, htl, htn, htd, hr⟩⟩
        rw [this] at href; cases href
      | true =>
        by_cases hij : j = i
        · subst hij
          rw [hf] at hg; cases hg
          have : t = s := entry_unique (hwf f hfm) ht hs htn
          subst this
          simp [Vis.isHidden, hr] at hown
        · have halt : hasAlternatives fs s.name = true :=
            hasAlternatives_of_two fs s.name j i g f hij hg hf (htn ▸ definesGlobal_of_mem ht htd htl)
              (definesGlobal_of_mem hs hd hl)
          have : defVisHidden fs s.name = true := by
            unfold defVisHidden
            rw [halt, Bool.true_and]
            exact (anyLoadedRegular_iff fs _).mpr ⟨j, g, hg, hlj, hdj, (hiddenEntry_iff g _ true).mpr ⟨t, ht, htl, htn, htd, hr⟩⟩
          rw [this] at hdef; cases hdef
  · rintro ⟨hvis, hvs⟩
    refine ⟨?_, ?_⟩
    · have := hvis i f s hf hload hreg hs hl rfl
      simp [Vis.isHidden]; omega
    · unfold downgraded
      simp only [Bool.or_eq_false_iff]
      refine ⟨⟨by simpa [List.contains_iff_mem] using hvs, ?_⟩, ?_⟩
      · cases h : defVisHidden fs s.name with
        | false => rfl
        | true =>
          unfold defVisHidden at h
          simp only [Bool.and_eq_true] at h
          obtain ⟨j, g, hg, hlj, hdj, hp⟩ := (anyLoadedRegular_iff fs _).mp h.2
          obtain ⟨t, ht, htl, htn, _, hr⟩ := (hiddenEntry_iff g _ true).mp hp
          have := hvis j g t hg hlj hdj ht htl htn
          omega
      · cases h : refVisHidden fs s.name with
        | false => rfl
        | true =>
          obtain ⟨j, g, hg, hlj, hdj, hp⟩ := (anyLoadedRegular_iff fs _).mp h
          obtain ⟨t, ht, htl, htn, _, hr⟩ := (hiddenEntry_iff g _ false).mp hp
          have := hvis j g t hg hlj hdj ht htl htn
          omega

theorem mem_dynExports_iff (cfg : Config) (fs : List XFile) (n : Nat) :
    n ∈ dynExports cfg fs ↔
      ∃ i f s, fs[i]? = some f ∧ loaded fs i = true ∧ f.dynamic = false ∧ s ∈ f.syms ∧ s.name = n ∧
        ((exportAllDynamic cfg f = true ∨ cfg.exportList.isSome = true) ∧ canExport cfg fs i f s (exportAllDynamic cfg f) = true
          ∨ ((sharedRefs fs).contains s.name = true ∧ canExport cfg fs i f s true = true)) := by
  unfold dynExports
  simp only [List.mem_flatMap, List.mem_range]
  constructor
  · rintro ⟨i, hi, h⟩
    cases hf : fs[i]? with
    | none => simp [hf] at h
    | some f =>
      simp only [hf] at h
      split at h
      · rename_i hc
        simp only [Bool.and_eq_true, Bool.not_eq_true'] at hc
        unfold fileExports at h
        simp only [List.mem_map, List.mem_append] at h
        obtain ⟨s, hs, hn⟩ := h
        refine ⟨i, f, s, hf, hc.1, hc.2, ?_⟩
        rcases hs with hs | hs
        · split at hs
          · rename_i hc2
            simp only [List.mem_filter] at hs
            simp only [Bool.or_eq_true] at hc2
            exact ⟨hs.1, hn, Or.inl ⟨hc2, hs.2⟩⟩
          · cases hs
        · simp only [List.mem_filter, Bool.and_eq_true] at hs
          exact ⟨hs.1, hn, Or.inr hs.2⟩
      · cases h
  · rintro ⟨i, f, s, hf, hl, hd, hs, hn, h⟩
    refine ⟨i, lt_length_of_getElem? hf, ?_⟩
    simp only [hf, hl, hd, Bool.not_false, Bool.and_self, if_true]
    unfold fileExports
    simp only [List.mem_map, List.mem_append]
    refine ⟨s, ?_, hn⟩
    rcases h with ⟨hc, hx⟩ | ⟨hm, hx⟩
    · left
      have : (exportAllDynamic cfg f || cfg.exportList.isSome) = true := by simpa [Bool.or_eq_true] using hc
      rw [if_pos this]
      exact List.mem_filter.mpr ⟨hs, hx⟩
    · right
      exact List.mem_filter.mpr ⟨hs, by simp only [hm, hx, Bool.and_self]⟩

/-! ## `.dynsym` -/

/-- **The defined entries of `.dynsym` are exactly the names the property asks for.** -/
theorem dynsym_iff_spec (cfg : Config) (fs : List XFile) (hwf : WF fs) (n : Nat) :
    n ∈ dynExports cfg fs ↔ specExport cfg fs n := by
  rw [mem_dynExports_iff]
  constructor
  · rintro ⟨i, f, s, hf, hl, hd, hs, hn, h⟩
    have key : ∀ ea, canExport cfg fs i f s ea = true →
        s.defined = true ∧ s.isLocal = false ∧ isCanonical fs i s.name = true ∧ f.excluded = false
          ∧ VisibleEverywhere fs s.name ∧ s.name ∉ cfg.vsLocal ∧ (ea = true ∨ inExportList cfg s.name = true) := by
      intro ea hx
      obtain ⟨h1, h2, h3, h4, h5, h6, h7⟩ := (canExport_iff cfg fs i f s ea).mp hx
      obtain ⟨hv, hvs⟩ := (visible_iff cfg fs hwf i f s hf hs h1 h2 hd hl).mp ⟨h3, h5⟩
      exact ⟨h1, h2, h4, h6, hv, hvs, h7⟩
    have fin : ∀ ea, canExport cfg fs i f s ea = true → Requested cfg fs s.name → specExport cfg fs n := by
      intro ea hx hr
      obtain ⟨h1, h2, h4, h6, hv, hvs, _⟩ := key ea hx
      subst hn
      exact ⟨i, f, s, hf, hs, rfl, h1, h2, hd, hl, by simpa [isCanonical] using h4, hv, hvs, h6, hr⟩
    rcases h with ⟨hc, hx⟩ | ⟨hm, hx⟩
    · apply fin _ hx
      obtain ⟨_, _, _, h6, _, _, h7⟩ := key _ hx
      unfold exportAllDynamic at hc h7
      cases hout : cfg.out with
      | shared => exact Or.inl hout
      | exe =>
        cases hE : cfg.exportAll with
        | true => exact Or.inr (Or.inl hE)
        | false =>
          simp only [hout, hE, Bool.or_false] at hc h7
          have h7' : inExportList cfg s.name = true := by
            rcases h7 with h7 | h7
            · simp at h7
            · exact h7
          rcases hc with hc | hc
          · simp at hc
          · unfold inExportList at h7'
            cases hl' : cfg.exportList with
            | none => simp [hl'] at hc
            | some l =>
              simp only [hl'] at h7'
              exact Or.inr (Or.inr (Or.inl ⟨l, hl', by simpa [List.contains_iff_mem] using h7'⟩))
    · exact fin _ hx (Or.inr (Or.inr (Or.inr ((sharedRefs_iff fs s.name).mp hm))))
  · rintro ⟨i, f, s, hf, hs, hn, h1, h2, hd, hl, hcan, hv, hvs, hex, hr⟩
    subst hn
    obtain ⟨h3, h5⟩ := (visible_iff cfg fs hwf i f s hf hs h1 h2 hd hl).mpr ⟨hv, hvs⟩
    have hc : isCanonical fs i s.name = true := by simp [isCanonical, hcan]
    refine ⟨i, f, s, hf, hl, hd, hs, rfl, ?_⟩
    rcases hr with hr | hr | ⟨l, hl', hmem⟩ | hr
    · left
      have : exportAllDynamic cfg f = true := by simp [exportAllDynamic, hr, hex]
      exact ⟨Or.inl this, (canExport_iff ..).mpr ⟨h1, h2, h3, hc, h5, hex, Or.inl this⟩⟩
    · left
      have : exportAllDynamic cfg f = true := by simp [exportAllDynamic, hr]
      exact ⟨Or.inl this, (canExport_iff ..).mpr ⟨h1, h2, h3, hc, h5, hex, Or.inl this⟩⟩
    · left
      refine ⟨Or.inr (by simp [hl']), (canExport_iff ..).mpr ⟨h1, h2, h3, hc, h5, hex, Or.inr ?_⟩⟩
      simp [inExportList, hl', hmem]
    · right
      exact ⟨(sharedRefs_iff fs s.name).mpr hr, (canExport_iff ..).mpr ⟨h1, h2, h3, hc, h5, hex, Or.inl rfl⟩⟩

/-- Hidden or internal anywhere in the link (definition or reference, in a regular object that takes
part in the link) ⇒ never a defined `.dynsym` entry, whatever the export options. -/
theorem hidden_never_exported (cfg : Config) (fs : List XFile) (hwf : WF fs) (n j : Nat) (g : XFile) (t : Sym)
    (hg : fs[j]? = some g) (hl : loaded fs j = true) (hd : g.dynamic = false) (ht : t ∈ g.syms)
    (hloc : t.isLocal = false) (hn : t.name = n) (hv : t.vis = .hid ∨ t.vis = .intern) :
    n ∉ dynExports cfg fs := by
  intro h
  obtain ⟨_, _, _, _, _, _, _, _, _, _, _, hvis, _⟩ := (dynsym_iff_spec cfg fs hwf n).mp h
  have := hvis j g t hg hl hd ht hloc hn
  rcases hv with hv | hv <;> simp [hv, Vis.rank] at this

/-- The canonical definition lives in a member of an `--exclude-libs` archive ⇒ never exported. -/
theorem excluded_libs_never_exported (cfg : Config) (fs : List XFile) (hwf : WF fs) (n i : Nat) (f : XFile)
    (hf : fs[i]? = some f) (hcan : resolveName false (linkFiles fs) n = some (.chosen i)) (hex : f.excluded = true) :
    n ∉ dynExports cfg fs := by
  intro h
  obtain ⟨i', f', _, hf', _, _, _, _, _, _, hcan', _, _, hex', _⟩ := (dynsym_iff_spec cfg fs hwf n).mp h
  rw [hcan] at hcan'
  have : i = i' := by injection hcan' with h1; injection h1
  subst this
  rw [hf] at hf'; cases hf'
  rw [hex] at hex'; cases hex'

/-- `local:` in the version script ⇒ never exported. -/
theorem version_local_never_exported (cfg : Config) (fs : List XFile) (hwf : WF fs) (n : Nat)
    (h : n ∈ cfg.vsLocal) : n ∉ dynExports cfg fs := by
  intro h'
  obtain ⟨_, _, _, _, _, _, _, _, _, _, _, _, hvs, _⟩ := (dynsym_iff_spec cfg fs hwf n).mp h'
  exact hvs h

/-! ## Imports -/

def specImport (cfg : Config) (fs : List XFile) (n : Nat) : Prop :=
  ((∃ s ∈ regularRefs fs n, s.vis = .dflt) ∧ boundToShared fs n = true ∧ (∀ s ∈ regularRefs fs n, s.vis.rank < 2))
  ∨ (isBound false (linkFiles fs) n = false ∧ regularRefs fs n ≠ [] ∧ (∀ s ∈ regularRefs fs n, s.vis = .dflt)
      ∧ (cfg.out = .shared ∨ ∀ s ∈ regularRefs fs n, s.weak = true))

theorem mem_regularRefs_iff (fs : List XFile) (n : Nat) (t : Sym) :
    t ∈ regularRefs fs n ↔
      ∃ j g, fs[j]? = some g ∧ loaded fs j = true ∧ g.dynamic = false ∧ t ∈ g.syms ∧ t.defined = false ∧ t.isLocal = false ∧ t.name = n := by
  unfold regularRefs
  simp only [List.mem_flatMap, List.mem_range]
  constructor
  · rintro ⟨j, hj, h⟩
    cases hg : fs[j]? with
    | none => simp [hg] at h
    | some g =>
      simp only [hg] at h
      split at h
      · rename_i hc
        simp only [Bool.and_eq_true, Bool.not_eq_true'] at hc
        simp only [List.mem_filter, Bool.and_eq_true, Bool.not_eq_true', beq_iff_eq] at h
        exact ⟨j, g, hg, hc.1, hc.2, h.1, h.2.1.1, h.2.1.2, h.2.2⟩
      · cases h
  · rintro ⟨j, g, hg, hl, hd, ht, h1, h2, h3⟩
    refine ⟨j, lt_length_of_getElem? hg, ?_⟩
    simp only [hg, hl, hd, Bool.not_false, Bool.and_self, if_true, List.mem_filter, Bool.and_eq_true, Bool.not_eq_true', beq_iff_eq]
    exact ⟨ht, ⟨h1, h2⟩, h3⟩

theorem refVisHidden_false_iff (fs : List XFile) (n : Nat) :
    refVisHidden fs n = false ↔ ∀ s ∈ regularRefs fs n, s.vis.rank < 2 := by
  constructor
  · intro h s hs
    obtain ⟨j, g, hg, hl, hd, ht, h1, h2, h3⟩ := (mem_regularRefs_iff fs n s).mp hs
    rcases Nat.lt_or_ge s.vis.rank 2 with h' | h'
    · exact h'
    · exfalso
      have hr : s.vis.rank = 2 := by
        have : s.vis.rank ≤ 2 := by cases s.vis <;> simp [Vis.rank]
        omega
      have : refVisHidden fs n = true :=
        (anyLoadedRegular_iff fs _).mpr ⟨j, g, hg, hl, hd, (hiddenEntry_iff g n false).mpr ⟨s, ht, h2, h3, h1, hr⟩⟩
      rw [this] at h; cases h
  · intro h
    cases hh : refVisHidden fs n with
    | false => rfl
    | true =>
      obtain ⟨j, g, hg, hl, hd, hp⟩ := (anyLoadedRegular_iff fs _).mp hh
      obtain ⟨t, ht, htl, htn, htd, hr⟩ := (hiddenEntry_iff g n false).mp hp
      have := h t ((mem_regularRefs_iff fs n t).mpr ⟨j, g, hg, hl, hd, ht, htd, htl, htn⟩)
      omega

/-- **The undefined entries of `.dynsym` are exactly the imports.** -/
theorem imports_iff_spec (cfg : Config) (fs : List XFile) (n : Nat) :
    isImport cfg fs n = true ↔ specImport cfg fs n := by
  unfold isImport specImport unboundImport
  simp only [Bool.or_eq_true, Bool.and_eq_true, Bool.not_eq_true', List.any_eq_true, List.all_eq_true, beq_iff_eq,
    refVisHidden_false_iff, List.isEmpty_eq_false_iff]
  constructor
  · rintro (⟨⟨h1, h2⟩, h3⟩ | ⟨⟨⟨h1, h2⟩, h3⟩, h4⟩)
    · exact Or.inl ⟨h1, h2, h3⟩
    · refine Or.inr ⟨h1, h2, h3, ?_⟩
      rcases h4 with h4 | h4
      · left; cases hc : cfg.out <;> simp_all
      · exact Or.inr h4
  · rintro (⟨h1, h2, h3⟩ | ⟨h1, h2, h3, h4⟩)
    · exact Or.inl ⟨⟨h1, h2⟩, h3⟩
    · refine Or.inr ⟨⟨⟨h1, h2⟩, h3⟩, ?_⟩
      rcases h4 with h4 | h4
      · left; simp [h4]
      · exact Or.inr h4

/-! ## `.symtab` -/

theorem mem_filePart (cfg : Config) (fs : List XFile) (w : Bool) (i : Nat) (y : OutSym) :
    y ∈ filePart cfg fs w i → ∃ f s, fs[i]? = some f ∧ s ∈ f.syms ∧ copied fs i s = true ∧ symtabLocal cfg fs s = w ∧ y = outSym cfg fs i s := by
  unfold filePart
  intro h
  cases hf : fs[i]? with
  | none => simp [hf] at h
  | some f =>
    simp only [hf] at h
    split at h
    · simp only [List.mem_map, List.mem_filter, Bool.and_eq_true, beq_iff_eq] at h
      obtain ⟨s, ⟨hs, hc, hw⟩, rfl⟩ := h
      exact ⟨f, s, rfl, hs, hc, hw, rfl⟩
    · cases h

theorem mem_symtabPart (cfg : Config) (fs : List XFile) (w : Bool) (y : OutSym) (h : y ∈ symtabPart cfg fs w) :
    y.bindLocal = w := by
  unfold symtabPart at h
  simp only [List.mem_flatMap, List.mem_range] at h
  obtain ⟨i, _, hy⟩ := h
  obtain ⟨f, s, _, _, _, hw, rfl⟩ := mem_filePart cfg fs w i y hy
  simpa [outSym, symtabLocal] using hw

/-- **Locals first, as `sh_info` states:** every entry below `sh_info` has STB_LOCAL binding, every
entry from `sh_info` on has not. -/
theorem symtab_locals_first (cfg : Config) (fs : List XFile) (k : Nat) (y : OutSym)
    (h : (symtab cfg fs)[k]? = some y) : y.bindLocal = decide (k < shInfo cfg fs) := by
  unfold symtab shInfo at *
  by_cases hk : k < (symtabPart cfg fs true).length
  · rw [List.getElem?_append_left hk] at h
    simp [hk, mem_symtabPart cfg fs true y (List.mem_of_getElem? h)]
  · rw [List.getElem?_append_right (by omega)] at h
    simp [hk, mem_symtabPart cfg fs false y (List.mem_of_getElem? h)]

/-- The entries written for the global definition of `n`: those that do not stem from a file-local
input symbol. -/
def globalEntries (cfg : Config) (fs : List XFile) (n : Nat) : List OutSym :=
  (symtab cfg fs).filter fun y => y.name == n && !y.fromLocal

theorem flatMap_range_single {β} (g : Nat → List β) (i : Nat) : ∀ m, i < m → (∀ j, j ≠ i → g j = []) →
    (List.range m).flatMap g = g i := by
  intro m
  induction m with
  | zero => intro h; omega
  | succ m ih =>
    intro hi hz
    rw [List.range_succ, List.flatMap_append]
    simp only [List.flatMap_cons, List.flatMap_nil, List.append_nil]
    by_cases h : i = m
    · subst h
      have : (List.range i).flatMap g = [] := by
        rw [List.flatMap_eq_nil_iff]
        intro j hj
        exact hz j (by have := List.mem_range.mp hj; omega)
      rw [this, List.nil_append]
    · rw [ih (by omega) hz, hz m (Ne.symm h), List.append_nil]

theorem filter_unique {l : List Sym} (h : (l.map (·.name)).Nodup) {s : Sym} (hs : s ∈ l) (q : Sym → Bool) :
    l.filter (fun t => t.name == s.name && q t) = if q s then [s] else [] := by
  induction l with
  | nil => cases hs
  | cons x l ih =>
    simp only [List.map_cons, List.nodup_cons, List.mem_map, not_exists, not_and] at h
    rcases List.mem_cons.mp hs with rfl | hs'
    · have : l.filter (fun t => t.name == s.name && q t) = [] := by
        rw [List.filter_eq_nil_iff]
        intro t ht
        have := h.1 t ht
        simp [this]
      rw [List.filter_cons, this]
      cases q s <;> simp
    · have hx : x.name ≠ s.name := fun e => h.1 s hs' e.symm
      rw [List.filter_cons, ih h.2 hs']
      simp [hx]

/-- **Each retained global definition exactly once:** the canonical, defined, non-local entry `s` of
the loaded regular file `i` is written once — as `outSym cfg fs i s`, i.e. with the type, size,
visibility and weakness of THAT input entry — and no other entry for the name exists. -/
theorem symtab_each_once (cfg : Config) (fs : List XFile) (hwf : WF fs) (i : Nat) (f : XFile) (s : Sym)
    (hf : fs[i]? = some f) (hs : s ∈ f.syms) (hd : s.defined = true) (hl : s.isLocal = false)
    (hreg : f.dynamic = false) (hload : loaded fs i = true)
    (hcan : resolveName false (linkFiles fs) s.name = some (.chosen i)) :
    globalEntries cfg fs s.name = [outSym cfg fs i s] := by
  have hi := lt_length_of_getElem? hf
  have hfm : f ∈ fs := List.mem_of_getElem? hf
  -- the contribution of every file to either part, filtered
  have part : ∀ w j, (filePart cfg fs w j).filter (fun y => y.name == s.name && !y.fromLocal)
      = if j = i ∧ symtabLocal cfg fs s = w then [outSym cfg fs i s] else [] := by
    intro w j
    unfold filePart
    cases hg : fs[j]? with
    | none =>
      have : j ≠ i := by rintro rfl; rw [hf] at hg; cases hg
      simp [this]
    | some g =>
      simp only []
      split
      · rename_i hc
        rw [List.filter_map]
        have hgm : g ∈ fs := List.mem_of_getElem? hg
        by_cases hg_has : ∃ t ∈ g.syms, t.name = s.name
        · obtain ⟨t, ht, htn⟩ := hg_has
          have e : (List.filter ((fun y : OutSym => y.name == s.name && !y.fromLocal) ∘ outSym cfg fs j)
              (List.filter (fun u => copied fs j u && symtabLocal cfg fs u == w) g.syms))
              = g.syms.filter (fun u => u.name == t.name && (!u.isLocal && (copied fs j u && symtabLocal cfg fs u == w))) := by
            rw [List.filter_filter]
            apply List.filter_congr
            intro u _
            simp [outSym, htn, Bool.and_assoc]
          rw [e, filter_unique (hwf g hgm) ht]
          by_cases hji : j = i
          · subst hji
            rw [hf] at hg; cases hg
            have : t = s := entry_unique (hwf f hfm) ht hs htn
            subst this
            have hcp : copied fs j t = true := by simp [copied, hd, hl, isCanonical, hcan]
            by_cases hw : symtabLocal cfg fs t = w <;> simp [hl, hcp, hw]
          · have hcp : (!t.isLocal && copied fs j t) = false := by
              cases htl : t.isLocal with
              | true => simp
              | false =>
                have : isCanonical fs j t.name = false := by
                  simp only [isCanonical, htn, hcan, beq_eq_false_iff_ne, ne_eq, Option.some.injEq, SelResult.chosen.injEq]
                  exact fun e => hji e.symm
                simp [copied, htl, this]
            have : (!t.isLocal && (copied fs j t && symtabLocal cfg fs t == w)) = false := by
              rw [← Bool.and_assoc, hcp, Bool.false_and]
            simp [this, hji]
        · have : j ≠ i := by
            rintro rfl
            rw [hf] at hg; cases hg
            exact hg_has ⟨s, hs, rfl⟩
          simp only [this, false_and, if_false, List.map_eq_nil_iff, List.filter_eq_nil_iff]
          intro u hu
          simp only [List.mem_filter] at hu
          have : u.name ≠ s.name := fun e => hg_has ⟨u, hu.1, e⟩
          simp [outSym, this]
      · rename_i hc
        have : j ≠ i := by
          rintro rfl
          rw [hf] at hg; cases hg
          simp [hload, hreg] at hc
        simp [this]
  have whole : ∀ w, (symtabPart cfg fs w).filter (fun y => y.name == s.name && !y.fromLocal)
      = if symtabLocal cfg fs s = w then [outSym cfg fs i s] else [] := by
    intro w
    unfold symtabPart
    rw [List.filter_flatMap]
    rw [flatMap_range_single _ i fs.length hi]
    · simp [part]
    · intro j hj
      simp [part, hj]
  unfold globalEntries symtab
  rw [List.filter_append, whole true, whole false]
  cases symtabLocal cfg fs s <;> simp

/-- The written entry carries the attributes of the chosen input definition; its binding is STB_LOCAL
exactly when the name is demoted (version script `local:`, merged hidden visibility). -/
theorem symtab_attributes (cfg : Config) (fs : List XFile) (i : Nat) (s : Sym) (hl : s.isLocal = false) :
    let y := outSym cfg fs i s
    y.name = s.name ∧ y.file = i ∧ y.type = s.type ∧ y.size = s.size ∧ y.vis = s.vis ∧ y.weak = s.weak
      ∧ (y.bindLocal = downgraded cfg fs s.name) := by
  simp [outSym, hl]

/-! ## Non-vacuity: the hypotheses are satisfiable and the statements discriminate -/

private def exFiles : List XFile := [
  { dynamic := false, optional := false, excluded := false,
    syms := [{ name := 1, defined := true }, { name := 2, defined := true, vis := .hid },
             { name := 3, defined := true, vis := .intern }, { name := 4, defined := true, vis := .prot },
             { name := 5, defined := false }, { name := 9, defined := true, isLocal := true }] },
  { dynamic := true, optional := false, excluded := false, syms := [{ name := 5, defined := true }, { name := 6, defined := false }] },
  { dynamic := false, optional := true, excluded := true,
    syms := [{ name := 6, defined := true }, { name := 7, defined := true }] }]

private def exCfg : Config := { out := .shared, exportAll := false, exportList := none, vsLocal := [] }

example : WF exFiles := by unfold WF; decide
example : (dynExports exCfg exFiles = [1, 4]) := by decide
example : isImport exCfg exFiles 5 = true := by decide
example : (symtab exCfg exFiles).map (·.name) = [9, 1, 2, 3, 4, 6, 7] ∧ shInfo exCfg exFiles = 1 := by decide
/-- an executable exports nothing by default, `--export-dynamic` exports, an export list selects -/
example : dynExports { exCfg with out := .exe } exFiles = [] := by decide
example : dynExports { exCfg with out := .exe, exportAll := true } exFiles = [1, 4] := by decide
example : dynExports { exCfg with out := .exe, exportList := some [4] } exFiles = [4] := by decide
example : dynExports { exCfg with vsLocal := [1] } exFiles = [4] := by decide

end Wild.SymTab
