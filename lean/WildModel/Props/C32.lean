/-
C32 — Symbol versions follow the version script.
Spec side: `Props/C32Spec.lean` (GNU ld's precedence). Model side: `Model/VersionScript.lean`.
-/
import WildModel.Model.VersionScript
import WildModel.Props.C32Spec
namespace Wild.C32
open Wild.Glob Wild.VersionScript
open Wild.GnuVersionSpec (gnuFind Pat)

def toPat (e : Entry) : Pat := { cxx := e.isCxx, quoted := e.quoted, text := e.token }

def toSpecNode (n : Node) : Wild.GnuVersionSpec.Node :=
  { globals := (n.entries.filter (fun e => !e.isLocal)).map toPat,
    locals := (n.entries.filter (fun e => e.isLocal)).map toPat }

/-- Wildcard matching as wild implements it (C15 covers how this relates to fnmatch). -/
def wmModel (p s : Bytes) : Bool :=
  match compile p with
  | .ok t => matchesBytes t s
  | .error _ => false

/-- `find_match` of the script built from `nodes` (named nodes; `none` also when the script is rejected). -/
def modelFind (dem : Bytes → Bytes) (nodes : List Node) (name : Bytes) : Option (Nat × Section) :=
  match build false nodes with
  | .ok (.regular vs) => findMatch dem vs name
  | _ => none

/-- GNU ld's answer in the model's numbering (index 0 is the implicit base version). -/
def gnuFindIdx (dem : Bytes → Bytes) (nodes : List Node) (name : Bytes) : Option (Nat × Section) :=
  (gnuFind wmModel dem (nodes.map toSpecNode) name).map (fun (i, l) => (i + 1, if l then Section.loc else Section.global))

/-- Full statement (does NOT hold): for every accepted script and symbol, wild's `find_match` is
GNU ld's choice. -/
def find_match_spec_full : Prop :=
  ∀ (dem : Bytes → Bytes) (nodes : List Node) (name : Bytes), (∃ vs, build false nodes = .ok (.regular vs)) →
    modelFind dem nodes name = gnuFindIdx dem nodes name

def b (s : String) : Bytes := s.toList.map (fun c => UInt8.ofNat c.toNat)
def ent (loc : Bool) (s : String) : Entry := { isLocal := loc, isCxx := false, quoted := false, token := b s }

/-- `V1 { global: f*; }; V2 { local: fo*; };` and symbol `foo`: GNU ld exports `foo@@V1`
(a global wildcard match beats local wildcard matches wherever they are); wild makes it local. -/
theorem find_match_global_glob_vs_later_local_glob_witness :
    let nodes := [{ name := b "V1", parent := none, entries := [ent false "f*"] },
                  { name := b "V2", parent := none, entries := [ent true "fo*"] }]
    modelFind id nodes (b "foo") = some (2, .loc) ∧ gnuFindIdx id nodes (b "foo") = some (1, .global) := by
  decide

/-- `V1 { global: f?o; }; V2 { global: f*; };` and symbol `foo`: GNU ld (and lld) choose the last
node with a wildcard match, V2; wild ranks the `*`-free pattern higher and chooses V1. -/
theorem find_match_nonstar_class_witness :
    let nodes := [{ name := b "V1", parent := none, entries := [ent false "f?o"] },
                  { name := b "V2", parent := none, entries := [ent false "f*"] }]
    modelFind id nodes (b "foo") = some (1, .global) ∧ gnuFindIdx id nodes (b "foo") = some (2, .global) := by
  decide

theorem find_match_spec_full_false : ¬ find_match_spec_full := by
  intro h
  have h1 := h id [{ name := b "V1", parent := none, entries := [ent false "f?o"] },
                   { name := b "V2", parent := none, entries := [ent false "f*"] }] (b "foo") (by
    exact ⟨_, by rfl⟩)
  have h2 := find_match_nonstar_class_witness
  simp only at h2
  rw [h2.1, h2.2] at h1
  cases h1

/-- **local ⇒ not exported**: `is_local` (which makes `should_downgrade_to_local` true) holds exactly
when `find_match` lands in a `local:` section. -/
theorem local_not_exported (dem : Bytes → Bytes) (vs : List Version) (name : Bytes) :
    isLocal dem vs name = true ↔ ∃ i, findMatch dem vs name = some (i, .loc) := by
  unfold isLocal
  cases h : findMatch dem vs name with
  | none => simp
  | some r =>
    obtain ⟨i, s⟩ := r
    cases s <;> simp

/-- `version_for_symbol(name, None)`: the index written to `.gnu.version` is `find_match`'s node + 1
(`VER_NDX_GLOBAL` = 1), and nothing for the base version. -/
theorem version_index_spec (dem : Bytes → Bytes) (vs : List Version) (name : Bytes) (k : Nat) :
    versionForSymbol dem vs name = some k ↔ ∃ i s, findMatch dem vs name = some (i, s) ∧ i ≠ 0 ∧ k = i + 1 := by
  unfold versionForSymbol
  cases h : findMatch dem vs name with
  | none => simp
  | some r =>
    obtain ⟨i, s⟩ := r
    by_cases hi : i = 0
    · subst hi; simp
    · simp [hi]
      constructor
      · intro hk; exact hk.symm
      · intro hk; exact hk.symm

/-- Step 1 has priority: the first node (in script order) with an exact match decides, whatever
wildcards match elsewhere — as in GNU ld, where a literal match stops the scan. -/
theorem exact_global_first_wins (dem : Bytes → Bytes) (vs : List Version) (name : Bytes) (r : Nat × Section)
    (h : firstHit (fun body => exactIn dem body name) 0 vs = some r) :
    findMatch dem vs name = some r := by
  unfold findMatch
  rw [h]; rfl

end Wild.C32
