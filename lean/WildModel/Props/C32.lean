/-
C32 — Symbol versions follow the version script.
Spec side: `Props/C32Spec.lean` (GNU ld's precedence). Model side: `Model/VersionScript.lean`.
-/
import WildModel.Model.VersionScript
import WildModel.Props.C32Spec
namespace Wild.C32
open Wild.Glob Wild.VersionScript
open Wild.GnuVersionSpec (gnuFind Pat)

def toPat (e : Entry) : Pat := { cxx := e.isCxx, quoted := e.quoted, text := e.token }

def toSpecNode (n : Node) : Wild.GnuVersionSpec.Node :=
  { globals := (n.entries.filter (fun e => !e.isLocal)).map toPat,
    locals := (n.entries.filter (fun e => e.isLocal)).map toPat }

/-- Wildcard matching as wild implements it (C15 covers how this relates to fnmatch). -/
def wmModel (p s : Bytes) : Bool :=
  match compile p with
  | .ok t => matchesBytes t s
  | .error _ => false

/-- `find_match` of the script built from `nodes` (named nodes; `none` also when the script is rejected). -/
def modelFind (dem : Bytes → Bytes) (nodes : List Node) (name : Bytes) : Option (Nat × Section) :=
  match build false nodes with
  | .ok (.regular vs) => findMatch dem vs name
  | _ => none

/-- GNU ld's answer in the model's numbering (index 0 is the implicit base version). -/
def gnuFindIdx (dem : Bytes → Bytes) (nodes : List Node) (name : Bytes) : Option (Nat × Section) :=
  (gnuFind wmModel dem (nodes.map toSpecNode) name).map (fun (i, l) => (i + 1, if l then Section.loc else Section.global))

/-- Full statement (does NOT hold): for every accepted script and symbol, wild's `find_match` is
GNU ld's choice. -/
def find_match_spec_full : Prop :=
  ∀ (dem : Bytes → Bytes) (nodes : List Node) (name : Bytes), (∃ vs, build false nodes = .ok (.regular vs)) →
    modelFind dem nodes name = gnuFindIdx dem nodes name

def b (s : String) : Bytes := s.toList.map (fun c => UInt8.ofNat c.toNat)
def ent (loc : Bool) (s : String) : Entry := { isLocal := loc, isCxx := false, quoted := false, token := b s }

/-- `V1 { global: f*; }; V2 { local: fo*; };` and symbol `foo`: GNU ld exports `foo@@V1`
(a global wildcard match beats local wildcard matches wherever they are); wild makes it local. -/
theorem find_match_global_glob_vs_later_local_glob_witness :
    let nodes := [{ name := b "V1", parent := none, entries := [ent false "f*"] },
                  { name := b "V2", parent := none, entries := [ent true "fo*"] }]
    modelFind id nodes (b "foo") = some (2, .loc) ∧ gnuFindIdx id nodes (b "foo") = some (1, .global) := by
  decide

/-- `V1 { global: f?o; }; V2 { global: f*; };` and symbol `foo`: GNU ld (and lld) choose the last
node with a wildcard match, V2; wild ranks the `*`-free pattern higher and chooses V1. -/
theorem find_match_nonstar_class_witness :
    let nodes := [{ name := b "V1", parent := none, entries := [ent false "f?o"] },
                  { name := b "V2", parent := none, entries := [ent false "f*"] }]
    modelFind id nodes (b "foo") = some (1, .global) ∧ gnuFindIdx id nodes (b "foo") = some (2, .global) := by
  decide

theorem find_match_spec_full_false : ¬ find_match_spec_full := by
  intro h
  have h1 := h id [{ name := b "V1", parent := none, entries := [ent false "f?o"] },
                   { name := b "V2", parent := none, entries := [ent false "f*"] }] (b "foo") (by
    exact ⟨_, by rfl⟩)
  have h2 := find_match_nonstar_class_witness
  simp only at h2
  rw [h2.1, h2.2] at h1
  cases h1

/-- **local ⇒ not exported**: `is_local` (which makes `should_downgrade_to_local` true) holds exactly
when `find_match` lands in a `local:` section. -/
theorem local_not_exported (dem : Bytes → Bytes) (vs : List Version) (name : Bytes) :
    isLocal dem vs name = true ↔ ∃ i, findMatch dem vs name = some (i, .loc) := by
  unfold isLocal
  cases h : findMatch dem vs name with
  | none => simp
  | some r =>
    obtain ⟨i, s⟩ := r
    cases s <;> simp

/-- `version_for_symbol(name, None)`: the index written to `.gnu.version` is `find_match`'s node + 1
(`VER_NDX_GLOBAL` = 1), and nothing for the base version. -/
theorem version_index_spec (dem : Bytes → Bytes) (vs : List Version) (name : Bytes) (k : Nat) :
    versionForSymbol dem vs name = some k ↔ ∃ i s, findMatch dem vs name = some (i, s) ∧ i ≠ 0 ∧ k = i + 1 := by
  unfold versionForSymbol
  cases h : findMatch dem vs name with
  | none => simp
  | some r =>
    obtain ⟨i, s⟩ := r
    by_cases hi : i = 0
    · subst hi; simp
    · simp [hi]
      constructor
      · intro hk; exact hk.symm
      · intro hk; exact hk.symm

/-- Step 1 has priority: the first node (in script order) with an exact match decides, whatever
wildcards match elsewhere — as in GNU ld, where a literal match stops the scan. -/
theorem exact_global_first_wins (dem : Bytes → Bytes) (vs : List Version) (name : Bytes) (r : Nat × Section)
    (h : firstHit (fun body => exactIn dem body name) 0 vs = some r) :
    findMatch dem vs name = some r := by
  unfold findMatch
  rw [h]; rfl

/-! ## `find_match_spec_partial`: a decidable class of scripts on which wild agrees with GNU ld

Differences between wild and GNU ld (see the witnesses above and scratch/c15c32/REPORT.md):
1. wild consults `extern "C++"` literals after all C literals of the node (class: no C++ entries);
2. wild's `analyze_glob_pattern` treats an unescaped `]` as a wildcard character, GNU's `realsymbol`
   only `?`, `*`, `[` (class: a token GNU reads as a literal has no `]`);
3. wild has two wildcard tiers (`*`-free before `*`) scanned last-node-first with `global:` before
   `local:` inside the node; GNU has one tier, all `global:` sections before all `local:` sections
   (class: (W) and (S) of `GnuAgree`).
-/
open Wild.GnuVersionSpec (realsymbol scan Scan Acc litMatch wildMatch starMatch symFor)

/-! ### Token classification: `realsymbol` vs `analyze_glob_pattern` -/

theorem analyzeLoop_exact (t : PatternType) (p : List UInt8) (h : analyzeLoop t p = .exact) :
    t = .exact ∧ bBackslash ∉ p := by
  fun_induction analyzeLoop t p with
  | case1 t => simp_all
  | case2 t c t' hc =>
    exfalso; by_cases ht : t = .exact <;> simp_all +zetaDelta
  | case3 t c t' x rest' hc ih =>
    exfalso
    have := (ih h).1
    by_cases ht : t = .exact <;> simp_all +zetaDelta
  | case4 => simp_all
  | case5 t c rest h1 h2 h3 ih => have := (ih h).1; simp_all
  | case6 t c rest h1 h2 h3 ih =>
    have := ih h
    simp_all
    intro hh; exact h1 hh.symm

theorem realsymbol_unescape (p l : List UInt8) (h : realsymbol p = some l) : l = unescape p := by
  fun_induction realsymbol p generalizing l with
  | case1 => simp_all [unescape]
  | case2 c rest ih =>
    simp only [Option.map_eq_some_iff] at h
    obtain ⟨a, ha, rfl⟩ := h
    rw [ih a ha]; simp [unescape, bBackslash]
  | case3 c rest hx hm => simp_all
  | case4 c rest hx hm ih =>
    simp only [Option.map_eq_some_iff] at h
    obtain ⟨a, ha, rfl⟩ := h
    rw [ih a ha]
    by_cases hc : c = bBackslash
    · cases rest with
      | nil => simp [unescape, hc]
      | cons d r => exact absurd rfl (hx d r hc)
    · conv => rhs; unfold unescape
      simp [hc]


theorem analyzeLoop_nonStar (t : PatternType) (p : List UInt8) (ht : t = .nonStar) :
    analyzeLoop t p = .star ∨ analyzeLoop t p = .nonStar := by
  fun_induction analyzeLoop t p <;> simp_all +zetaDelta

theorem unescape_id (p : List UInt8) (h : bBackslash ∉ p) : unescape p = p := by
  fun_induction unescape p <;> simp_all

def nonMeta (c : UInt8) : Bool := c != bStar && c != bQuest && c != bBackslash && c != bOpen && c != bClose

theorem analyzeLoop_nonMeta (t : PatternType) (p : List UInt8) (h : p.all nonMeta = true) : analyzeLoop t p = t := by
  induction p with
  | nil => rfl
  | cons c r ih =>
    simp only [List.all_cons, Bool.and_eq_true, nonMeta, bne_iff_ne] at h
    obtain ⟨⟨⟨⟨⟨h1, h2⟩, h3⟩, h4⟩, h5⟩, hr⟩ := h
    unfold analyzeLoop
    simp [h1, h2, h3, h4, h5, ih hr]

theorem analyze_eq (p : List UInt8) : analyze p = analyzeLoop .exact p := by
  unfold analyze
  split
  · rename_i h; exact (analyzeLoop_nonMeta _ _ h).symm
  · rfl

theorem realsymbol_none_loop (p : List UInt8) (h : realsymbol p = none) (t : PatternType) :
    analyzeLoop t p = .star ∨ analyzeLoop t p = .nonStar := by
  fun_induction realsymbol p generalizing t with
  | case1 => simp at h
  | case2 c rest ih =>
    simp only [Option.map_eq_none_iff] at h
    unfold analyzeLoop
    simp only [bBackslash, beq_self_eq_true, if_true]
    exact ih h _
  | case3 c rest hx hm =>
    simp only [Bool.or_eq_true, beq_iff_eq] at hm
    have hns := analyzeLoop_nonStar .nonStar rest rfl
    rcases hm with (rfl | rfl) | rfl
    · unfold analyzeLoop; simpa [bBackslash, bStar, bOpen, bClose, bQuest] using hns
    · unfold analyzeLoop; simp [bBackslash, bStar]
    · unfold analyzeLoop; simpa [bBackslash, bStar, bOpen, bClose, bQuest] using hns
  | case4 c rest hx hm ih =>
    simp only [Option.map_eq_none_iff] at h
    simp only [Bool.or_eq_true, beq_iff_eq, not_or] at hm
    obtain ⟨⟨h1, h2⟩, h3⟩ := hm
    by_cases hb : c = bBackslash
    · cases rest with
      | nil => simp [realsymbol] at h
      | cons d r => exact absurd rfl (hx d r hb)
    · by_cases hcl : c = bClose
      · have hns := analyzeLoop_nonStar .nonStar rest rfl
        unfold analyzeLoop
        subst hcl
        simpa [bBackslash, bStar, bOpen, bClose, bQuest] using hns
      · unfold analyzeLoop
        have := ih h t
        simp only [bBackslash, bStar, bOpen, bClose, bQuest] at hb hcl ⊢
        simpa [hb, hcl, h1, h2, h3] using this

theorem realsymbol_none_analyze (p : List UInt8) (h : realsymbol p = none) :
    analyze p = .star ∨ analyze p = .nonStar := by
  rw [analyze_eq]; exact realsymbol_none_loop p h _

theorem realsymbol_some_loop (p : List UInt8) (h : (realsymbol p).isSome = true) (hcl : bClose ∉ p)
    (t : PatternType) (ht : t = .exact ∨ t = .escapedExact) :
    analyzeLoop t p = .exact ∨ analyzeLoop t p = .escapedExact := by
  fun_induction realsymbol p generalizing t with
  | case1 => simpa [analyzeLoop] using ht
  | case2 c rest ih =>
    simp only [Option.isSome_map] at h
    unfold analyzeLoop
    simp only [bBackslash, beq_self_eq_true, if_true]
    apply ih h (by simp_all)
    rcases ht with rfl | rfl <;> simp
  | case3 c rest hx hm => simp at h
  | case4 c rest hx hm ih =>
    simp only [Option.isSome_map] at h
    simp only [Bool.or_eq_true, beq_iff_eq, not_or] at hm
    obtain ⟨⟨h1, h2⟩, h3⟩ := hm
    have hc4 : c ≠ bClose := by intro hh; apply hcl; simp [hh]
    have hr : bClose ∉ rest := by intro hh; apply hcl; simp [hh]
    by_cases hb : c = bBackslash
    · cases rest with
      | nil =>
        unfold analyzeLoop
        rcases ht with rfl | rfl <;> simp [hb]
      | cons d r => exact absurd rfl (hx d r hb)
    · unfold analyzeLoop
      have := ih h hr t ht
      simp only [bBackslash, bStar, bOpen, bClose, bQuest] at hb hc4 ⊢
      simpa [hb, hc4, h1, h2, h3] using this

/-- Token-level agreement, literal case. -/
theorem realsymbol_some_analyze (p l : List UInt8) (h : realsymbol p = some l) (hcl : bClose ∉ p) :
    (analyze p = .exact ∧ p = l) ∨ (analyze p = .escapedExact ∧ unescape p = l) := by
  have hl := realsymbol_unescape p l h
  rw [analyze_eq]
  rcases realsymbol_some_loop p (by simp [h]) hcl .exact (Or.inl rfl) with h1 | h1
  · left; refine ⟨h1, ?_⟩
    rw [hl, unescape_id p (analyzeLoop_exact _ _ h1).2]
  · right; exact ⟨h1, hl.symm⟩

/-! ### What an accepted script builds -/

/-- Total version of `classify` (the dummy is never used for accepted scripts). -/
def classifyD (e : Entry) : SymbolMatcher :=
  match classify e.quoted e.token with
  | .ok m => m
  | .error _ => .matchesAll

def bodyStep (b : VersionBody) (e : Entry) : VersionBody := b.push e (classifyD e)
def bodyD (es : List Entry) : VersionBody := es.foldl bodyStep {}
def verD (n : Node) : Version := { name := n.name, parentIndex := n.parent, body := bodyD n.entries }

def ClassOk (e : Entry) : Prop := ∃ m, classify e.quoted e.token = .ok m

theorem foldlM_ok (es : List Entry) (b0 b : VersionBody)
    (h : es.foldlM (fun b e => do
      let m ← classify e.quoted e.token
      pure (b.push e m)) b0 = Except.ok b) :
    b = es.foldl bodyStep b0 ∧ ∀ e ∈ es, ClassOk e := by
  induction es generalizing b0 with
  | nil =>
    simp only [List.foldlM_nil, pure, Except.pure, Except.ok.injEq] at h
    simp [h]
  | cons e es ih =>
    rw [List.foldlM_cons] at h
    cases hc : classify e.quoted e.token with
    | error err => simp [hc, bind, Except.bind] at h
    | ok m =>
      simp only [hc, bind, Except.bind, pure, Except.pure] at h
      have hm : classifyD e = m := by simp [classifyD, hc]
      obtain ⟨h1, h2⟩ := ih _ h
      refine ⟨?_, ?_⟩
      · rw [List.foldl_cons, bodyStep, hm]; exact h1
      · intro e' he'
        rcases List.mem_cons.mp he' with rfl | he'
        · exact ⟨m, hc⟩
        · exact h2 _ he'

theorem buildBody_ok (es : List Entry) (b : VersionBody) (h : buildBody es = .ok b) :
    b = bodyD es ∧ ∀ e ∈ es, ClassOk e := foldlM_ok es {} b h

def mkVer (n : Node) : Except CompileError Version := do
  let b ← buildBody n.entries
  pure ({ name := n.name, parentIndex := n.parent, body := b } : Version)

theorem mkVer_ok (n : Node) (v : Version) (h : mkVer n = .ok v) :
    v = verD n ∧ ∀ e ∈ n.entries, ClassOk e := by
  unfold mkVer at h
  cases hb : buildBody n.entries with
  | error err => simp [hb, bind, Except.bind] at h
  | ok b =>
    simp only [hb, bind, Except.bind, pure, Except.pure, Except.ok.injEq] at h
    obtain ⟨hb1, hb2⟩ := buildBody_ok _ _ hb
    exact ⟨by rw [← h, hb1]; rfl, hb2⟩

theorem mapM_ok (nodes : List Node) (vs : List Version) (h : nodes.mapM mkVer = Except.ok vs) :
    vs = nodes.map verD ∧ ∀ n ∈ nodes, ∀ e ∈ n.entries, ClassOk e := by
  induction nodes generalizing vs with
  | nil =>
    simp only [List.mapM_nil, pure, Except.pure, Except.ok.injEq] at h
    simp [← h]
  | cons n ns ih =>
    rw [List.mapM_cons] at h
    cases hb : mkVer n with
    | error err => rw [hb] at h; simp [bind, Except.bind] at h
    | ok v =>
      cases hr : List.mapM mkVer ns with
      | error err => rw [hb, hr] at h; simp [bind, Except.bind] at h
      | ok vs' =>
        rw [hb, hr] at h
        simp only [bind, Except.bind, pure, Except.pure, Except.ok.injEq] at h
        obtain ⟨h1, h2⟩ := ih vs' hr
        obtain ⟨hb1, hb2⟩ := mkVer_ok _ _ hb
        refine ⟨?_, ?_⟩
        · rw [← h, h1, hb1]; rfl
        · intro n' hn'
          rcases List.mem_cons.mp hn' with rfl | hn'
          · exact hb2
          · exact h2 _ hn'

theorem build_ok (nodes : List Node) (vs : List Version) (h : build false nodes = .ok (.regular vs)) :
    vs = {} :: nodes.map verD ∧ ∀ n ∈ nodes, ∀ e ∈ n.entries, ClassOk e := by
  have h' : (nodes.mapM mkVer >>= fun vs => pure (Script.regular ({} :: vs))) = Except.ok (.regular vs) := h
  cases hr : List.mapM mkVer nodes with
  | error err => rw [hr] at h'; simp [bind, Except.bind] at h'
  | ok vs' =>
    rw [hr] at h'
    simp only [bind, Except.bind, pure, Except.pure, Except.ok.injEq, Script.regular.injEq] at h'
    obtain ⟨h1, h2⟩ := mapM_ok nodes vs' hr
    exact ⟨by rw [← h', h1], h2⟩

/-- One of the four `BasicRules` of a body. -/
def sel (loc cxx : Bool) (b : VersionBody) : BasicRules :=
  match loc, cxx with
  | false, false => b.globals.general
  | false, true => b.globals.cxx
  | true, false => b.locals.general
  | true, true => b.locals.cxx

theorem sel_push (loc cxx : Bool) (b : VersionBody) (e : Entry) (m : SymbolMatcher) :
    sel loc cxx (b.push e m) =
      if (e.isLocal == loc && e.isCxx == cxx) then (sel loc cxx b).push m else sel loc cxx b := by
  cases loc <;> cases cxx <;> cases h1 : e.isLocal <;> cases h2 : e.isCxx <;>
    simp [sel, VersionBody.push, h1, h2]

def rulesOf (ms : List SymbolMatcher) (r0 : BasicRules) : BasicRules := ms.foldl BasicRules.push r0

theorem sel_fold (loc cxx : Bool) (es : List Entry) (b0 : VersionBody) :
    sel loc cxx (es.foldl bodyStep b0) =
      rulesOf ((es.filter (fun e => e.isLocal == loc && e.isCxx == cxx)).map classifyD) (sel loc cxx b0) := by
  induction es generalizing b0 with
  | nil => rfl
  | cons e es ih =>
    rw [List.foldl_cons, ih, bodyStep, sel_push, List.filter_cons]
    by_cases hc : (e.isLocal == loc && e.isCxx == cxx) = true
    · simp only [hc, if_true, List.map_cons, rulesOf, List.foldl_cons]
    · simp only [hc, Bool.false_eq_true, if_false]

def exactHit (name : Bytes) : SymbolMatcher → Bool
  | .exact n => name == n
  | .escapedExact raw => name == unescape raw
  | _ => false

def globHit (ns : Bool) (name : Bytes) : SymbolMatcher → Bool
  | .nonstarGlob g => ns && matchesBytes g name
  | .starGlob g => !ns && matchesBytes g name
  | _ => false

def allHit : SymbolMatcher → Bool
  | .matchesAll => true
  | _ => false

theorem push_matchesExact (r : BasicRules) (m : SymbolMatcher) (name : Bytes) :
    (r.push m).matchesExact name = (r.matchesExact name || exactHit name m) := by
  have hd : ∀ a b : Bytes, (a == b) = decide (a = b) := fun a b => by rw [Bool.eq_iff_iff]; simp
  cases m <;> simp [BasicRules.push, BasicRules.matchesExact, exactHit, Bool.or_assoc, Bool.or_comm, hd]

theorem push_matchesGlob (r : BasicRules) (m : SymbolMatcher) (ns : Bool) (name : Bytes) :
    (r.push m).matchesGlob ns name = (r.matchesGlob ns name || globHit ns name m) := by
  cases m <;> cases ns <;> simp [BasicRules.push, BasicRules.matchesGlob, globHit]

theorem push_matchesAll (r : BasicRules) (m : SymbolMatcher) :
    (r.push m).matchesAll = (r.matchesAll || allHit m) := by
  cases m <;> simp [BasicRules.push, allHit]

theorem rulesOf_matchesExact (ms : List SymbolMatcher) (r0 : BasicRules) (name : Bytes) :
    (rulesOf ms r0).matchesExact name = (r0.matchesExact name || ms.any (exactHit name)) := by
  induction ms generalizing r0 with
  | nil => simp [rulesOf]
  | cons m ms ih =>
    have := ih (r0.push m)
    simp only [rulesOf, List.foldl_cons] at this ⊢
    rw [this, push_matchesExact, List.any_cons, Bool.or_assoc]

theorem rulesOf_matchesGlob (ms : List SymbolMatcher) (r0 : BasicRules) (ns : Bool) (name : Bytes) :
    (rulesOf ms r0).matchesGlob ns name = (r0.matchesGlob ns name || ms.any (globHit ns name)) := by
  induction ms generalizing r0 with
  | nil => simp [rulesOf]
  | cons m ms ih =>
    have := ih (r0.push m)
    simp only [rulesOf, List.foldl_cons] at this ⊢
    rw [this, push_matchesGlob, List.any_cons, Bool.or_assoc]

theorem rulesOf_matchesAll (ms : List SymbolMatcher) (r0 : BasicRules) :
    (rulesOf ms r0).matchesAll = (r0.matchesAll || ms.any allHit) := by
  induction ms generalizing r0 with
  | nil => simp [rulesOf]
  | cons m ms ih =>
    have := ih (r0.push m)
    simp only [rulesOf, List.foldl_cons] at this ⊢
    rw [this, push_matchesAll, List.any_cons, Bool.or_assoc]

/-- The matchers of the entries of one section/language of a node. -/
def matchersOf (loc cxx : Bool) (es : List Entry) : List SymbolMatcher :=
  (es.filter (fun e => e.isLocal == loc && e.isCxx == cxx)).map classifyD

theorem sel_bodyD (loc cxx : Bool) (es : List Entry) :
    sel loc cxx (bodyD es) = rulesOf (matchersOf loc cxx es) {} := by
  unfold bodyD matchersOf
  rw [sel_fold]
  cases loc <;> cases cxx <;> rfl

theorem sel_bodyD_exact (loc cxx : Bool) (es : List Entry) (name : Bytes) :
    (sel loc cxx (bodyD es)).matchesExact name = (matchersOf loc cxx es).any (exactHit name) := by
  rw [sel_bodyD, rulesOf_matchesExact]; simp [BasicRules.matchesExact]

theorem sel_bodyD_glob (loc cxx : Bool) (es : List Entry) (ns : Bool) (name : Bytes) :
    (sel loc cxx (bodyD es)).matchesGlob ns name = (matchersOf loc cxx es).any (globHit ns name) := by
  rw [sel_bodyD, rulesOf_matchesGlob]; cases ns <;> simp [BasicRules.matchesGlob]

theorem sel_bodyD_all (loc cxx : Bool) (es : List Entry) :
    (sel loc cxx (bodyD es)).matchesAll = (matchersOf loc cxx es).any allHit := by
  rw [sel_bodyD, rulesOf_matchesAll]; simp

theorem matchersOf_cxx_nil (loc : Bool) (es : List Entry) (h : ∀ e ∈ es, e.isCxx = false) :
    matchersOf loc true es = [] := by
  unfold matchersOf
  rw [List.map_eq_nil_iff, List.filter_eq_nil_iff]
  intro e he
  simp [h e he]

/-! ### Per-entry agreement -/

/-- GNU ld reads the (C-language) entry as a literal equal to `name`. -/
def litE (name : Bytes) (e : Entry) : Bool := (toPat e).literal == some name
/-- GNU ld reads the entry as a wildcard (not the lone `*`). Syntactic. -/
def isWild (e : Entry) : Bool := (toPat e).literal.isNone && !(toPat e).isStar
/-- The entry is the match-all `*`. -/
def starE (e : Entry) : Bool := (toPat e).isStar
/-- GNU ld: wildcard entry matching `name`. -/
def wildE (name : Bytes) (e : Entry) : Bool := isWild e && wmModel e.token name

/-- Per-entry side condition: C language, and a token that GNU ld reads as a literal has no `]`. -/
def EntryOK (e : Entry) : Bool :=
  !e.isCxx && (e.quoted || (realsymbol e.token).isNone || !e.token.contains bClose)

theorem classifyD_eq (e : Entry) (m : SymbolMatcher) (h : classify e.quoted e.token = .ok m) : classifyD e = m := by
  simp [classifyD, h]

theorem entry_agree (e : Entry) (name : Bytes) (hok : EntryOK e = true) (hc : ClassOk e) :
    exactHit name (classifyD e) = litE name e ∧
    globHit true name (classifyD e) = (wildE name e && analyze e.token == .nonStar) ∧
    globHit false name (classifyD e) = (wildE name e && analyze e.token == .star) ∧
    allHit (classifyD e) = starE e ∧
    (isWild e = true → analyze e.token = .star ∨ analyze e.token = .nonStar) := by
  obtain ⟨m, hm⟩ := hc
  rw [classifyD_eq e m hm]
  obtain ⟨loc, cxx, q, tok⟩ := e
  simp only [EntryOK, Bool.and_eq_true, Bool.not_eq_true', Bool.or_eq_true] at hok
  obtain ⟨hcxx, hok⟩ := hok
  simp only [litE, wildE, isWild, starE, toPat, Pat.literal, Pat.isStar] at *
  unfold classify at hm
  cases q with
  | true =>
    simp only [if_true, Except.ok.injEq] at hm
    subst hm
    simp [exactHit, globHit, allHit]
    exact BEq.comm
  | false =>
    simp only [Bool.false_eq_true, if_false] at hm hok ⊢
    by_cases hst : tok = [bStar]
    · subst hst
      simp only [beq_self_eq_true, if_true, Except.ok.injEq] at hm
      subst hm
      simp [exactHit, globHit, allHit, realsymbol, bStar]
    · have hst' : (tok == [bStar]) = false := by simpa using hst
      simp only [hst', Bool.false_eq_true, if_false] at hm
      have hst2 : (tok == [42]) = false := hst'
      cases hr : realsymbol tok with
      | none =>
        cases hcmp : compile tok with
        | error err =>
          rcases realsymbol_none_analyze tok hr with ha | ha <;>
            · rw [ha] at hm; simp [hcmp, Except.map] at hm
        | ok toks =>
          have hw : wmModel tok name = matchesBytes toks name := by simp [wmModel, hcmp]
          rcases realsymbol_none_analyze tok hr with ha | ha
          · rw [ha] at hm
            simp only [hcmp, Except.map, Except.ok.injEq] at hm
            subst hm
            simp [exactHit, globHit, allHit, hst2, ha, hw]
          · rw [ha] at hm
            simp only [hcmp, Except.map, Except.ok.injEq] at hm
            subst hm
            simp [exactHit, globHit, allHit, hst2, ha, hw]
      | some l =>
        have hcl : bClose ∉ tok := by
          simpa [hr] using hok
        rcases realsymbol_some_analyze tok l hr hcl with ⟨ha, hl⟩ | ⟨ha, hl⟩
        · rw [ha] at hm
          simp only [Except.ok.injEq] at hm
          subst hm
          subst hl
          simp [exactHit, globHit, allHit, hst2, ha]
          exact BEq.comm
        · rw [ha] at hm
          simp only [Except.ok.injEq] at hm
          subst hm
          subst hl
          simp [exactHit, globHit, allHit, hst2, ha]
          exact BEq.comm

/-! ### Abstract precedence -/

def firstSome : Nat → List (Option Section) → Option (Nat × Section)
  | _, [] => none
  | i, x :: xs =>
    match x with
    | some s => some (i, s)
    | none => firstSome (i + 1) xs

def lastSome : Nat → List (Option Section) → Option (Nat × Section)
  | _, [] => none
  | i, x :: xs =>
    match lastSome (i + 1) xs with
    | some r => some r
    | none => x.map (fun s => (i, s))

def lastTrue : Nat → List Bool → Option Nat
  | _, [] => none
  | i, x :: xs =>
    match lastTrue (i + 1) xs with
    | some r => some r
    | none => if x then some i else none

def opt1 (s : Section) (p : Bool) : Option Section := if p then some s else none
def opt2 (p q : Bool) : Option Section := if p then some .global else if q then some .loc else none

def shift (r : Nat × Section) : Nat × Section := (r.1 + 1, r.2)

theorem firstSome_shift (i : Nat) (l : List (Option Section)) :
    firstSome (i + 1) l = (firstSome i l).map shift := by
  induction l generalizing i with
  | nil => rfl
  | cons x xs ih =>
    cases x with
    | none => simp only [firstSome]; exact ih (i + 1)
    | some s => simp [firstSome, shift]

theorem lastTrue_shift (i : Nat) (l : List Bool) :
    lastTrue (i + 1) l = (lastTrue i l).map (· + 1) := by
  induction l generalizing i with
  | nil => rfl
  | cons x xs ih =>
    simp only [lastTrue]
    rw [ih (i + 1)]
    cases lastTrue (i + 1) xs with
    | none => cases x <;> simp
    | some r => simp

theorem lastSome_opt1 (s : Section) (i : Nat) (l : List Bool) :
    lastSome i (l.map (opt1 s)) = (lastTrue i l).map (fun j => (j, s)) := by
  induction l generalizing i with
  | nil => rfl
  | cons x xs ih =>
    simp only [List.map_cons, lastSome, lastTrue]
    rw [ih (i + 1)]
    cases lastTrue (i + 1) xs with
    | none => cases x <;> simp [opt1]
    | some r => simp

theorem lastSome_none (i : Nat) (l : List (Option Section)) (h : ∀ x ∈ l, x = none) : lastSome i l = none := by
  induction l generalizing i with
  | nil => rfl
  | cons x xs ih =>
    simp only [lastSome]
    rw [ih (i + 1) (fun y hy => h y (List.mem_cons_of_mem _ hy)), h x (List.mem_cons_self ..)]
    rfl

theorem lastSome_isSome (i : Nat) (l : List (Option Section)) (h : ∃ x ∈ l, x.isSome = true) :
    (lastSome i l).isSome = true := by
  induction l generalizing i with
  | nil => simp at h
  | cons x xs ih =>
    simp only [lastSome]
    cases hr : lastSome (i + 1) xs with
    | some r => rfl
    | none =>
      obtain ⟨y, hy, hys⟩ := h
      rcases List.mem_cons.mp hy with rfl | hy
      · cases y <;> simp_all
      · have := ih (i + 1) ⟨y, hy, hys⟩
        rw [hr] at this; simp at this

/-- Two wildcard classes in one section collapse to GNU's single class when one class is empty
or at most one node has wildcards. -/
theorem glob_phase_one_section {α : Type} (s : Section) (p q h : α → Bool) (l : List α) (i : Nat)
    (hc : (∀ a ∈ l, p a = false) ∨ (∀ a ∈ l, q a = false) ∨
      ((l.filter h).length ≤ 1 ∧ ∀ a ∈ l, h a = false → p a = false ∧ q a = false)) :
    (lastSome i (l.map (fun a => opt1 s (p a)))).or (lastSome i (l.map (fun a => opt1 s (q a)))) =
      lastSome i (l.map (fun a => opt1 s (p a || q a))) := by
  have hn : lastSome i (l.map (fun _ => (none : Option Section))) = none := lastSome_none _ _ (by simp)
  rcases hc with hp | hq | ⟨hlen, hh⟩
  · have e1 : l.map (fun a => opt1 s (p a)) = l.map (fun _ => none) :=
      List.map_congr_left (fun a ha => by simp [hp a ha, opt1])
    have e2 : l.map (fun a => opt1 s (p a || q a)) = l.map (fun a => opt1 s (q a)) :=
      List.map_congr_left (fun a ha => by simp [hp a ha])
    rw [e1, e2, hn]
    simp
  · have e1 : l.map (fun a => opt1 s (q a)) = l.map (fun _ => none) :=
      List.map_congr_left (fun a ha => by simp [hq a ha, opt1])
    have e2 : l.map (fun a => opt1 s (p a || q a)) = l.map (fun a => opt1 s (p a)) :=
      List.map_congr_left (fun a ha => by simp [hq a ha])
    rw [e1, e2, hn]
    simp
  · clear hn
    induction l generalizing i with
    | nil => rfl
    | cons a l ih =>
      by_cases ha : h a = true
      · have hnil : l.filter h = [] := by
          simp only [List.filter_cons, ha, if_true, List.length_cons] at hlen
          exact List.eq_nil_of_length_eq_zero (by omega)
        have hl : ∀ b ∈ l, p b = false ∧ q b = false := fun b hb =>
          hh b (List.mem_cons_of_mem _ hb) (by
            have := List.filter_eq_nil_iff.mp hnil b hb
            simpa using this)
        have n1 : lastSome (i + 1) (l.map (fun a => opt1 s (p a))) = none :=
          lastSome_none _ _ (by
            intro x hx; obtain ⟨b, hb, rfl⟩ := List.mem_map.mp hx; simp [(hl b hb).1, opt1])
        have n2 : lastSome (i + 1) (l.map (fun a => opt1 s (q a))) = none :=
          lastSome_none _ _ (by
            intro x hx; obtain ⟨b, hb, rfl⟩ := List.mem_map.mp hx; simp [(hl b hb).2, opt1])
        have n3 : lastSome (i + 1) (l.map (fun a => opt1 s (p a || q a))) = none :=
          lastSome_none _ _ (by
            intro x hx; obtain ⟨b, hb, rfl⟩ := List.mem_map.mp hx; simp [(hl b hb).1, (hl b hb).2, opt1])
        simp only [List.map_cons, lastSome, n1, n2, n3]
        cases p a <;> cases q a <;> simp [opt1]
      · have ha' : h a = false := by simpa using ha
        obtain ⟨hpa, hqa⟩ := hh a (List.mem_cons_self ..) ha'
        have hlen' : (l.filter h).length ≤ 1 := by
          simpa [List.filter_cons, ha'] using hlen
        have := ih (i + 1) hlen' (fun b hb => hh b (List.mem_cons_of_mem _ hb))
        simp only [List.map_cons, lastSome, hpa, hqa, opt1, Bool.false_eq_true, if_false, Bool.or_false, Option.map_none]
        simp only [opt1] at this
        cases h1 : lastSome (i + 1) (l.map (fun a => if p a = true then some s else none)) <;>
        cases h2 : lastSome (i + 1) (l.map (fun a => if q a = true then some s else none)) <;>
        cases h3 : lastSome (i + 1) (l.map (fun a => if (p a || q a) = true then some s else none)) <;>
        simp_all

/-- Match-all phase: the `*` sections may be consulted globals-first (GNU) or node-by-node (wild)
when no node with a global `*` is followed by a node with a local `*` unless a still later node has
a global `*` again; i.e. there is no global `*`, or the last node with any `*` has a global `*`. -/
def starOK {α : Type} (ag al : α → Bool) : List α → Bool
  | [] => true
  | a :: r => starOK ag al r && (r.any ag || !ag a || !r.any al)

theorem all_phase {α : Type} (ag al : α → Bool) (l : List α) (i : Nat) (h : starOK ag al l = true) :
    lastSome i (l.map (fun a => opt2 (ag a) (al a))) =
      (lastSome i (l.map (fun a => opt1 .global (ag a)))).or (lastSome i (l.map (fun a => opt1 .loc (al a)))) := by
  induction l generalizing i with
  | nil => rfl
  | cons a r ih =>
    simp only [starOK, Bool.and_eq_true] at h
    obtain ⟨hr, hc⟩ := h
    simp only [List.map_cons, lastSome]
    rw [ih (i + 1) hr]
    cases hP : lastSome (i + 1) (r.map (fun a => opt1 .global (ag a))) with
    | some x => simp
    | none =>
      by_cases h1 : r.any ag = true
      · exfalso
        obtain ⟨b, hb, hab⟩ := List.any_eq_true.mp h1
        have := lastSome_isSome (i + 1) (r.map (fun a => opt1 .global (ag a)))
          ⟨_, List.mem_map.mpr ⟨b, hb, rfl⟩, by simp [opt1, hab]⟩
        rw [hP] at this; simp at this
      · by_cases h2 : ag a = true
        · have h3 : r.any al = false := by simpa [h1, h2] using hc
          have hQ : lastSome (i + 1) (r.map (fun a => opt1 .loc (al a))) = none :=
            lastSome_none _ _ (by
              intro x hx; obtain ⟨b, hb, rfl⟩ := List.mem_map.mp hx
              have : al b = false := by
                cases hb' : al b
                · rfl
                · have : r.any al = true := List.any_eq_true.mpr ⟨b, hb, hb'⟩
                  rw [h3] at this; cases this
              simp [this, opt1])
          rw [hQ]; simp [opt1, opt2, h2]
        · have h2' : ag a = false := by simpa using h2
          cases lastSome (i + 1) (r.map (fun a => opt1 .loc (al a))) <;> cases al a <;> simp [opt1, opt2, h2']

/-! ### GNU ld's scan in closed form -/

/-- GNU's literal step for one node. -/
def gEx (dem : Bytes → Bytes) (name : Bytes) (t : Wild.GnuVersionSpec.Node) : Option Section :=
  opt2 (litMatch dem t.globals name) (litMatch dem t.locals name)

theorem lastTrue_cons_or (i : Nat) (x : Bool) (xs : List Bool) (o : Option Nat) :
    (lastTrue i (x :: xs)).or o = (lastTrue (i + 1) xs).or (if x then some i else o) := by
  simp only [lastTrue]
  cases lastTrue (i + 1) xs <;> cases x <;> simp

theorem scan_eq (wm : Bytes → Bytes → Bool) (dem : Bytes → Bytes) (name : Bytes)
    (ts : List Wild.GnuVersionSpec.Node) (i : Nat) (acc : Acc) :
    scan wm dem name i acc ts =
      match firstSome i (ts.map (gEx dem name)) with
      | some (j, s) => .stop j (s == .loc)
      | none => .cont
          { gv := (lastTrue i (ts.map (fun t => wildMatch wm dem t.globals name))).or acc.gv
            lv := (lastTrue i (ts.map (fun t => wildMatch wm dem t.locals name))).or acc.lv
            sgv := (lastTrue i (ts.map (fun t => starMatch t.globals))).or acc.sgv
            slv := (lastTrue i (ts.map (fun t => starMatch t.locals))).or acc.slv } := by
  induction ts generalizing i acc with
  | nil => simp [scan, firstSome, lastTrue]
  | cons t ts ih =>
    simp only [List.map_cons, lastTrue_cons_or]
    unfold scan
    simp only [gEx]
    generalize litMatch dem t.globals name = a1
    generalize litMatch dem t.locals name = a2
    generalize wildMatch wm dem t.globals name = b1
    generalize wildMatch wm dem t.locals name = b2
    generalize starMatch t.globals = c1
    generalize starMatch t.locals = c2
    cases a1
    · cases a2
      · cases b1 <;> cases b2 <;> cases c1 <;> cases c2 <;> simp [firstSome, opt2, ih]
      · simp [firstSome, opt2]
    · simp [firstSome, opt2]


theorem gnuFindIdx_eq (dem : Bytes → Bytes) (nodes : List Node) (name : Bytes) :
    gnuFindIdx dem nodes name =
      (firstSome 1 ((nodes.map toSpecNode).map (gEx dem name))).or
      ((lastSome 1 (((nodes.map toSpecNode).map (fun t => wildMatch wmModel dem t.globals name)).map (opt1 .global))).or
      ((lastSome 1 (((nodes.map toSpecNode).map (fun t => wildMatch wmModel dem t.locals name)).map (opt1 .loc))).or
      ((lastSome 1 (((nodes.map toSpecNode).map (fun t => starMatch t.globals)).map (opt1 .global))).or
       (lastSome 1 (((nodes.map toSpecNode).map (fun t => starMatch t.locals)).map (opt1 .loc)))))) := by
  unfold gnuFindIdx gnuFind
  rw [scan_eq]
  simp only [lastSome_opt1, firstSome_shift 0, lastTrue_shift 0]
  cases firstSome 0 ((nodes.map toSpecNode).map (gEx dem name)) with
  | some r =>
    obtain ⟨j, s⟩ := r
    cases s <;> simp [shift]
  | none =>
    cases lastTrue 0 ((nodes.map toSpecNode).map (fun t => wildMatch wmModel dem t.globals name)) <;>
    cases lastTrue 0 ((nodes.map toSpecNode).map (fun t => wildMatch wmModel dem t.locals name)) <;>
    cases lastTrue 0 ((nodes.map toSpecNode).map (fun t => starMatch t.globals)) <;>
    cases lastTrue 0 ((nodes.map toSpecNode).map (fun t => starMatch t.locals)) <;> simp

/-! ### Per-node agreement -/

theorem any_congr_mem {α : Type} {l : List α} {f g : α → Bool} (h : ∀ a ∈ l, f a = g a) : l.any f = l.any g := by
  induction l with
  | nil => rfl
  | cons a l ih =>
    simp only [List.any_cons]
    rw [h a (List.mem_cons_self ..), ih (fun b hb => h b (List.mem_cons_of_mem _ hb))]

/-- Some entry in the `global:` (`loc = false`) / `local:` (`loc = true`) section of the node satisfies `f`. -/
def secAny (loc : Bool) (f : Entry → Bool) (n : Node) : Bool :=
  n.entries.any (fun e => (e.isLocal == loc) && f e)

/-- wild: wildcard entry of the `*`-free class / of the `*` class matching `name`. -/
def nsE (name : Bytes) (e : Entry) : Bool := wildE name e && analyze e.token == .nonStar
def stE (name : Bytes) (e : Entry) : Bool := wildE name e && analyze e.token == .star

def NodeOK (n : Node) : Prop := ∀ e ∈ n.entries, EntryOK e = true ∧ ClassOk e

theorem entryOK_cxx (e : Entry) (h : EntryOK e = true) : e.isCxx = false := by
  simp only [EntryOK, Bool.and_eq_true, Bool.not_eq_true'] at h
  exact h.1

theorem matchersOf_any (loc : Bool) (n : Node) (hn : NodeOK n) (f : SymbolMatcher → Bool) (g : Entry → Bool)
    (hfg : ∀ e ∈ n.entries, f (classifyD e) = g e) :
    (matchersOf loc false n.entries).any f = secAny loc g n := by
  unfold matchersOf secAny
  rw [List.any_map, List.any_filter]
  apply any_congr_mem
  intro e he
  simp [entryOK_cxx e (hn e he).1, hfg e he]

theorem wild_exact (loc : Bool) (n : Node) (hn : NodeOK n) (name : Bytes) :
    (sel loc false (bodyD n.entries)).matchesExact name = secAny loc (litE name) n := by
  rw [sel_bodyD_exact]
  exact matchersOf_any loc n hn _ _ (fun e he => (entry_agree e name (hn e he).1 (hn e he).2).1)

theorem wild_glob_ns (loc : Bool) (n : Node) (hn : NodeOK n) (name : Bytes) :
    (sel loc false (bodyD n.entries)).matchesGlob true name = secAny loc (nsE name) n := by
  rw [sel_bodyD_glob]
  exact matchersOf_any loc n hn _ _ (fun e he => (entry_agree e name (hn e he).1 (hn e he).2).2.1)

theorem wild_glob_st (loc : Bool) (n : Node) (hn : NodeOK n) (name : Bytes) :
    (sel loc false (bodyD n.entries)).matchesGlob false name = secAny loc (stE name) n := by
  rw [sel_bodyD_glob]
  exact matchersOf_any loc n hn _ _ (fun e he => (entry_agree e name (hn e he).1 (hn e he).2).2.2.1)

theorem wild_all (loc : Bool) (n : Node) (hn : NodeOK n) :
    (sel loc false (bodyD n.entries)).matchesAll = secAny loc starE n := by
  rw [sel_bodyD_all]
  exact matchersOf_any loc n hn _ _ (fun e he => (entry_agree e [] (hn e he).1 (hn e he).2).2.2.2.1)

theorem wild_cxx (loc : Bool) (n : Node) (hn : NodeOK n) : sel loc true (bodyD n.entries) = {} := by
  rw [sel_bodyD, matchersOf_cxx_nil loc _ (fun e he => entryOK_cxx e (hn e he).1)]
  rfl

theorem exactIn_node (dem : Bytes → Bytes) (n : Node) (hn : NodeOK n) (name : Bytes) :
    exactIn dem (verD n).body name = opt2 (secAny false (litE name) n) (secAny true (litE name) n) := by
  have e : exactIn dem (verD n).body name =
      if (sel false false (bodyD n.entries)).matchesExact name then some .global
      else if (sel true false (bodyD n.entries)).matchesExact name then some .loc
      else if (sel false true (bodyD n.entries)).matchesExact (dem name) then some .global
      else if (sel true true (bodyD n.entries)).matchesExact (dem name) then some .loc
      else none := rfl
  rw [e, wild_exact false n hn, wild_exact true n hn, wild_cxx false n hn, wild_cxx true n hn]
  simp [opt2, BasicRules.matchesExact]

theorem globIn_ns_node (dem : Bytes → Bytes) (n : Node) (hn : NodeOK n) (name : Bytes) :
    globIn dem true (verD n).body name = opt2 (secAny false (nsE name) n) (secAny true (nsE name) n) := by
  have e : globIn dem true (verD n).body name =
      if (sel false false (bodyD n.entries)).matchesGlob true name || (sel false true (bodyD n.entries)).matchesGlob true (dem name) then some .global
      else if (sel true false (bodyD n.entries)).matchesGlob true name || (sel true true (bodyD n.entries)).matchesGlob true (dem name) then some .loc
      else none := rfl
  rw [e, wild_glob_ns false n hn, wild_glob_ns true n hn, wild_cxx false n hn, wild_cxx true n hn]
  simp [opt2, BasicRules.matchesGlob]

theorem globIn_st_node (dem : Bytes → Bytes) (n : Node) (hn : NodeOK n) (name : Bytes) :
    globIn dem false (verD n).body name = opt2 (secAny false (stE name) n) (secAny true (stE name) n) := by
  have e : globIn dem false (verD n).body name =
      if (sel false false (bodyD n.entries)).matchesGlob false name || (sel false true (bodyD n.entries)).matchesGlob false (dem name) then some .global
      else if (sel true false (bodyD n.entries)).matchesGlob false name || (sel true true (bodyD n.entries)).matchesGlob false (dem name) then some .loc
      else none := rfl
  rw [e, wild_glob_st false n hn, wild_glob_st true n hn, wild_cxx false n hn, wild_cxx true n hn]
  simp [opt2, BasicRules.matchesGlob]

theorem allIn_node (n : Node) (hn : NodeOK n) :
    allIn (verD n).body = opt2 (secAny false starE n) (secAny true starE n) := by
  have e : allIn (verD n).body =
      if (sel false false (bodyD n.entries)).matchesAll || (sel false true (bodyD n.entries)).matchesAll then some .global
      else if (sel true false (bodyD n.entries)).matchesAll || (sel true true (bodyD n.entries)).matchesAll then some .loc
      else none := rfl
  rw [e, wild_all false n hn, wild_all true n hn, wild_cxx false n hn, wild_cxx true n hn]
  simp [opt2]


/-! GNU side, per node -/

theorem gnu_lit_g (dem : Bytes → Bytes) (n : Node) (hn : NodeOK n) (name : Bytes) :
    litMatch dem (toSpecNode n).globals name = secAny false (litE name) n := by
  unfold litMatch toSpecNode secAny
  rw [List.any_map, List.any_filter]
  apply any_congr_mem
  intro e he
  have : (toPat e).cxx = false := entryOK_cxx e (hn e he).1
  simp [litE, symFor, this]

theorem gnu_lit_l (dem : Bytes → Bytes) (n : Node) (hn : NodeOK n) (name : Bytes) :
    litMatch dem (toSpecNode n).locals name = secAny true (litE name) n := by
  unfold litMatch toSpecNode secAny
  rw [List.any_map, List.any_filter]
  apply any_congr_mem
  intro e he
  have : (toPat e).cxx = false := entryOK_cxx e (hn e he).1
  simp [litE, symFor, this]

theorem gnu_wild_g (dem : Bytes → Bytes) (n : Node) (hn : NodeOK n) (name : Bytes) :
    wildMatch wmModel dem (toSpecNode n).globals name = secAny false (wildE name) n := by
  unfold wildMatch toSpecNode secAny
  rw [List.any_map, List.any_filter]
  apply any_congr_mem
  intro e he
  have : e.isCxx = false := entryOK_cxx e (hn e he).1
  simp [wildE, isWild, symFor, this, toPat]

theorem gnu_wild_l (dem : Bytes → Bytes) (n : Node) (hn : NodeOK n) (name : Bytes) :
    wildMatch wmModel dem (toSpecNode n).locals name = secAny true (wildE name) n := by
  unfold wildMatch toSpecNode secAny
  rw [List.any_map, List.any_filter]
  apply any_congr_mem
  intro e he
  have : e.isCxx = false := entryOK_cxx e (hn e he).1
  simp [wildE, isWild, symFor, this, toPat]

theorem gnu_star_g (n : Node) : starMatch (toSpecNode n).globals = secAny false starE n := by
  unfold starMatch toSpecNode secAny
  rw [List.any_map, List.any_filter]
  apply any_congr_mem
  intro e he
  simp [starE]

theorem gnu_star_l (n : Node) : starMatch (toSpecNode n).locals = secAny true starE n := by
  unfold starMatch toSpecNode secAny
  rw [List.any_map, List.any_filter]
  apply any_congr_mem
  intro e he
  simp [starE]

theorem any_or_distrib {α : Type} (l : List α) (f g : α → Bool) :
    l.any (fun a => f a || g a) = (l.any f || l.any g) := by
  induction l with
  | nil => rfl
  | cons a l ih =>
    simp only [List.any_cons, ih]
    cases f a <;> cases g a <;> cases l.any f <;> cases l.any g <;> rfl

/-- GNU's single wildcard class is the union of wild's two. -/
theorem wild_split (loc : Bool) (n : Node) (hn : NodeOK n) (name : Bytes) :
    secAny loc (wildE name) n = (secAny loc (nsE name) n || secAny loc (stE name) n) := by
  unfold secAny
  rw [← any_or_distrib]
  apply any_congr_mem
  intro e he
  have h := (entry_agree e name (hn e he).1 (hn e he).2).2.2.2.2
  unfold nsE stE wildE
  cases hw : isWild e with
  | false => simp
  | true =>
    rcases h hw with ha | ha <;> simp [ha]

/-! List level -/

theorem firstHit_map (f : VersionBody → Option Section) (g : Node → Option Section) (nodes : List Node) (i : Nat)
    (h : ∀ n ∈ nodes, f (verD n).body = g n) :
    firstHit f i (nodes.map verD) = firstSome i (nodes.map g) := by
  induction nodes generalizing i with
  | nil => rfl
  | cons n ns ih =>
    simp only [List.map_cons, firstHit, firstSome]
    rw [h n (List.mem_cons_self ..), ih (i + 1) (fun m hm => h m (List.mem_cons_of_mem _ hm))]
    cases g n <;> rfl

theorem lastHit_map (f : VersionBody → Option Section) (g : Node → Option Section) (nodes : List Node) (i : Nat)
    (h : ∀ n ∈ nodes, f (verD n).body = g n) :
    lastHit f i (nodes.map verD) = lastSome i (nodes.map g) := by
  induction nodes generalizing i with
  | nil => rfl
  | cons n ns ih =>
    simp only [List.map_cons, lastHit, lastSome]
    rw [h n (List.mem_cons_self ..), ih (i + 1) (fun m hm => h m (List.mem_cons_of_mem _ hm))]
    cases lastSome (i + 1) (ns.map g) <;> rfl

/-! ### The decidable class -/

/-- Every wildcard entry (unquoted, not the lone `*`, with an unescaped `?`, `*` or `[`) satisfies `c`. -/
def wildAll (c : Entry → Bool) (nodes : List Node) : Bool :=
  nodes.all (fun n => n.entries.all (fun e => !isWild e || c e))

/-- At most one node has wildcard entries. -/
def wildOneNode (nodes : List Node) : Bool :=
  decide ((nodes.filter (fun n => n.entries.any isWild)).length ≤ 1)

/-- Scripts on which wild's `find_match` provably is GNU ld's choice for every symbol:
* every entry is a C-language entry, and a token GNU ld reads as a literal contains no `]`;
* (W) all wildcard entries are in `global:` sections or all are in `local:` sections, and they all
  live in one node or are all of wild's `*` class or all of wild's `*`-free class;
* (S) no node has a global `*`, or the last node that has any `*` has a global `*` (`starOK`). -/
def GnuAgree (nodes : List Node) : Bool :=
  nodes.all (fun n => n.entries.all EntryOK) &&
  (wildAll (fun e => !e.isLocal) nodes || wildAll (fun e => e.isLocal) nodes) &&
  (wildOneNode nodes || wildAll (fun e => analyze e.token == .star) nodes ||
    wildAll (fun e => analyze e.token == .nonStar) nodes) &&
  starOK (secAny false starE) (secAny true starE) nodes

theorem wildAll_spec (c : Entry → Bool) (nodes : List Node) (h : wildAll c nodes = true)
    (n : Node) (hn : n ∈ nodes) (e : Entry) (he : e ∈ n.entries) (hw : isWild e = true) : c e = true := by
  unfold wildAll at h
  have := List.all_eq_true.mp (List.all_eq_true.mp h n hn) e he
  simpa [hw] using this

theorem secAny_eq_false (loc : Bool) (f : Entry → Bool) (n : Node)
    (h : ∀ e ∈ n.entries, e.isLocal = loc → f e = true → False) : secAny loc f n = false := by
  unfold secAny
  rw [List.any_eq_false]
  intro e he hh
  simp only [Bool.and_eq_true, beq_iff_eq] at hh
  exact h e he hh.1 hh.2

theorem nsE_wild (name : Bytes) (e : Entry) (h : nsE name e = true) : isWild e = true ∧ analyze e.token = .nonStar := by
  simp only [nsE, wildE, Bool.and_eq_true, beq_iff_eq] at h
  exact ⟨h.1.1, h.2⟩

theorem stE_wild (name : Bytes) (e : Entry) (h : stE name e = true) : isWild e = true ∧ analyze e.token = .star := by
  simp only [stE, wildE, Bool.and_eq_true, beq_iff_eq] at h
  exact ⟨h.1.1, h.2⟩

theorem kill (loc : Bool) (f c : Entry → Bool) (nodes : List Node) (hw : wildAll c nodes = true)
    (hf : ∀ e, f e = true → isWild e = true)
    (hcf : ∀ e, e.isLocal = loc → f e = true → c e = true → False) :
    ∀ n ∈ nodes, secAny loc f n = false := by
  intro n hn
  apply secAny_eq_false
  intro e he hl hfe
  exact hcf e hl hfe (wildAll_spec c nodes hw n hn e he (hf e hfe))


theorem glob_phase (nodes : List Node) (name : Bytes) (i : Nat)
    (hsec : (wildAll (fun e => !e.isLocal) nodes || wildAll (fun e => e.isLocal) nodes) = true)
    (hcls : (wildOneNode nodes || wildAll (fun e => analyze e.token == .star) nodes ||
      wildAll (fun e => analyze e.token == .nonStar) nodes) = true) :
    (lastSome i (nodes.map (fun n => opt2 (secAny false (nsE name) n) (secAny true (nsE name) n)))).or
      (lastSome i (nodes.map (fun n => opt2 (secAny false (stE name) n) (secAny true (stE name) n)))) =
    (lastSome i (nodes.map (fun n => opt1 .global (secAny false (nsE name) n || secAny false (stE name) n)))).or
      (lastSome i (nodes.map (fun n => opt1 .loc (secAny true (nsE name) n || secAny true (stE name) n)))) := by
  have hc : ∀ loc, (∀ n ∈ nodes, secAny loc (nsE name) n = false) ∨ (∀ n ∈ nodes, secAny loc (stE name) n = false) ∨
      ((nodes.filter (fun n => n.entries.any isWild)).length ≤ 1 ∧
        ∀ n ∈ nodes, n.entries.any isWild = false →
          secAny loc (nsE name) n = false ∧ secAny loc (stE name) n = false) := by
    intro loc
    simp only [Bool.or_eq_true] at hcls
    rcases hcls with (h1 | h2) | h3
    · right; right
      refine ⟨by simpa [wildOneNode] using h1, ?_⟩
      intro n hn hany
      rw [List.any_eq_false] at hany
      constructor
      · apply secAny_eq_false; intro e he _ hf; exact hany e he (nsE_wild name e hf).1
      · apply secAny_eq_false; intro e he _ hf; exact hany e he (stE_wild name e hf).1
    · left
      exact kill loc _ _ nodes h2 (fun e h => (nsE_wild name e h).1) (fun e _ hf hc => by
        have := (nsE_wild name e hf).2
        simp [this] at hc)
    · right; left
      exact kill loc _ _ nodes h3 (fun e h => (stE_wild name e h).1) (fun e _ hf hc => by
        have := (stE_wild name e hf).2
        simp [this] at hc)
  have hnone : lastSome i (nodes.map (fun _ => (none : Option Section))) = none := lastSome_none _ _ (by simp)
  simp only [Bool.or_eq_true] at hsec
  rcases hsec with hg | hl
  · have k1 := kill true (nsE name) _ nodes hg (fun e h => (nsE_wild name e h).1)
      (fun e hl _ hc => by simp [hl] at hc)
    have k2 := kill true (stE name) _ nodes hg (fun e h => (stE_wild name e h).1)
      (fun e hl _ hc => by simp [hl] at hc)
    have e1 : nodes.map (fun n => opt2 (secAny false (nsE name) n) (secAny true (nsE name) n)) =
        nodes.map (fun n => opt1 .global (secAny false (nsE name) n)) :=
      List.map_congr_left (fun n hn => by simp [opt1, opt2, k1 n hn])
    have e2 : nodes.map (fun n => opt2 (secAny false (stE name) n) (secAny true (stE name) n)) =
        nodes.map (fun n => opt1 .global (secAny false (stE name) n)) :=
      List.map_congr_left (fun n hn => by simp [opt1, opt2, k2 n hn])
    have e3 : nodes.map (fun n => opt1 .loc (secAny true (nsE name) n || secAny true (stE name) n)) =
        nodes.map (fun _ => none) :=
      List.map_congr_left (fun n hn => by simp [opt1, k1 n hn, k2 n hn])
    rw [e1, e2, e3, hnone, Option.or_none]
    exact glob_phase_one_section .global _ _ _ nodes i (hc false)
  · have k1 := kill false (nsE name) _ nodes hl (fun e h => (nsE_wild name e h).1)
      (fun e hl _ hc => by simp [hl] at hc)
    have k2 := kill false (stE name) _ nodes hl (fun e h => (stE_wild name e h).1)
      (fun e hl _ hc => by simp [hl] at hc)
    have e1 : nodes.map (fun n => opt2 (secAny false (nsE name) n) (secAny true (nsE name) n)) =
        nodes.map (fun n => opt1 .loc (secAny true (nsE name) n)) :=
      List.map_congr_left (fun n hn => by simp [opt1, opt2, k1 n hn])
    have e2 : nodes.map (fun n => opt2 (secAny false (stE name) n) (secAny true (stE name) n)) =
        nodes.map (fun n => opt1 .loc (secAny true (stE name) n)) :=
      List.map_congr_left (fun n hn => by simp [opt1, opt2, k2 n hn])
    have e3 : nodes.map (fun n => opt1 .global (secAny false (nsE name) n || secAny false (stE name) n)) =
        nodes.map (fun _ => none) :=
      List.map_congr_left (fun n hn => by simp [opt1, k1 n hn, k2 n hn])
    rw [e1, e2, e3, hnone, Option.none_or]
    exact glob_phase_one_section .loc _ _ _ nodes i (hc true)

theorem lastHit_base (f : VersionBody → Option Section) (vs : List Version) (h : f ({} : Version).body = none) :
    lastHit f 0 ({} :: vs) = lastHit f 1 vs := by
  simp only [lastHit, h]
  cases lastHit f 1 vs <;> rfl

theorem wild_eq (dem : Bytes → Bytes) (nodes : List Node) (hN : ∀ n ∈ nodes, NodeOK n) (name : Bytes) :
    findMatch dem ({} :: nodes.map verD) name =
      (firstSome 1 (nodes.map (fun n => opt2 (secAny false (litE name) n) (secAny true (litE name) n)))).or
      ((lastSome 1 (nodes.map (fun n => opt2 (secAny false (nsE name) n) (secAny true (nsE name) n)))).or
      ((lastSome 1 (nodes.map (fun n => opt2 (secAny false (stE name) n) (secAny true (stE name) n)))).or
       (lastSome 1 (nodes.map (fun n => opt2 (secAny false starE n) (secAny true starE n)))))) := by
  unfold findMatch
  simp only [Option.orElse_eq_orElse, Option.orElse_eq_or]
  have b1 : firstHit (fun b => exactIn dem b name) 0 ({} :: nodes.map verD) =
      firstHit (fun b => exactIn dem b name) 1 (nodes.map verD) := rfl
  rw [b1, lastHit_base _ _ rfl, lastHit_base _ _ rfl, lastHit_base _ _ rfl,
    firstHit_map _ _ nodes 1 (fun n hn => exactIn_node dem n (hN n hn) name),
    lastHit_map _ _ nodes 1 (fun n hn => globIn_ns_node dem n (hN n hn) name),
    lastHit_map _ _ nodes 1 (fun n hn => globIn_st_node dem n (hN n hn) name),
    lastHit_map _ _ nodes 1 (fun n hn => allIn_node n (hN n hn))]


theorem gnu_eq (dem : Bytes → Bytes) (nodes : List Node) (hN : ∀ n ∈ nodes, NodeOK n) (name : Bytes) :
    gnuFindIdx dem nodes name =
      (firstSome 1 (nodes.map (fun n => opt2 (secAny false (litE name) n) (secAny true (litE name) n)))).or
      ((lastSome 1 (nodes.map (fun n => opt1 .global (secAny false (nsE name) n || secAny false (stE name) n)))).or
      ((lastSome 1 (nodes.map (fun n => opt1 .loc (secAny true (nsE name) n || secAny true (stE name) n)))).or
      ((lastSome 1 (nodes.map (fun n => opt1 .global (secAny false starE n)))).or
       (lastSome 1 (nodes.map (fun n => opt1 .loc (secAny true starE n))))))) := by
  rw [gnuFindIdx_eq]
  simp only [List.map_map]
  have e0 : nodes.map (gEx dem name ∘ toSpecNode) =
      nodes.map (fun n => opt2 (secAny false (litE name) n) (secAny true (litE name) n)) :=
    List.map_congr_left (fun n hn => by
      simp only [Function.comp, gEx, gnu_lit_g dem n (hN n hn), gnu_lit_l dem n (hN n hn)])
  have e1 : nodes.map (opt1 .global ∘ (fun t => wildMatch wmModel dem t.globals name) ∘ toSpecNode) =
      nodes.map (fun n => opt1 .global (secAny false (nsE name) n || secAny false (stE name) n)) :=
    List.map_congr_left (fun n hn => by
      simp only [Function.comp, gnu_wild_g dem n (hN n hn), wild_split false n (hN n hn)])
  have e2 : nodes.map (opt1 .loc ∘ (fun t => wildMatch wmModel dem t.locals name) ∘ toSpecNode) =
      nodes.map (fun n => opt1 .loc (secAny true (nsE name) n || secAny true (stE name) n)) :=
    List.map_congr_left (fun n hn => by
      simp only [Function.comp, gnu_wild_l dem n (hN n hn), wild_split true n (hN n hn)])
  have e3 : nodes.map (opt1 .global ∘ (fun t => starMatch t.globals) ∘ toSpecNode) =
      nodes.map (fun n => opt1 .global (secAny false starE n)) :=
    List.map_congr_left (fun n _ => by simp only [Function.comp, gnu_star_g])
  have e4 : nodes.map (opt1 .loc ∘ (fun t => starMatch t.locals) ∘ toSpecNode) =
      nodes.map (fun n => opt1 .loc (secAny true starE n)) :=
    List.map_congr_left (fun n _ => by simp only [Function.comp, gnu_star_l])
  rw [e0, e1, e2, e3, e4]

/-- **C32, partial**: on the decidable class `GnuAgree`, wild's `find_match` is GNU ld's choice
for every symbol name (and every demangler: the class has no `extern "C++"` entries). -/
theorem find_match_spec_partial (dem : Bytes → Bytes) (nodes : List Node) (name : Bytes)
    (hc : GnuAgree nodes = true) (hacc : ∃ vs, build false nodes = .ok (.regular vs)) :
    modelFind dem nodes name = gnuFindIdx dem nodes name := by
  obtain ⟨vs, hvs⟩ := hacc
  obtain ⟨hv, hok⟩ := build_ok nodes vs hvs
  simp only [GnuAgree, Bool.and_eq_true] at hc
  obtain ⟨⟨⟨hent, hsec⟩, hcls⟩, hstar⟩ := hc
  have hN : ∀ n ∈ nodes, NodeOK n := fun n hn e he =>
    ⟨List.all_eq_true.mp (List.all_eq_true.mp hent n hn) e he, hok n hn e he⟩
  have hm : modelFind dem nodes name = findMatch dem ({} :: nodes.map verD) name := by
    unfold modelFind; rw [hvs, hv]
  rw [hm, wild_eq dem nodes hN, gnu_eq dem nodes hN]
  rw [← Option.or_assoc (o₁ := lastSome 1 (nodes.map (fun n => opt2 (secAny false (nsE name) n) (secAny true (nsE name) n)))),
    glob_phase nodes name 1 hsec hcls, all_phase _ _ nodes 1 hstar, Option.or_assoc]

/-! ### The class in words: `starOK`, and wild's `*` class = "has an unescaped `*`" -/

theorem any_or_false {α : Type} (l : List α) (f g : α → Bool) (h : l.any (fun x => f x || g x) = false) :
    l.any f = false ∧ l.any g = false := by
  rw [any_or_distrib] at h
  simpa using h

/-- `starOK` in words: no element has a global `*`, or the last element with any `*` has a global `*`. -/
theorem starOK_iff {α : Type} (ag al : α → Bool) (l : List α) :
    starOK ag al l = true ↔
      (l.any ag = false ∨ ∃ pre a post, l = pre ++ a :: post ∧ ag a = true ∧
        post.any (fun x => ag x || al x) = false) := by
  induction l with
  | nil => simp [starOK]
  | cons a r ih =>
    simp only [starOK, Bool.and_eq_true, Bool.or_eq_true, Bool.not_eq_true']
    constructor
    · rintro ⟨hr, hc⟩
      rcases ih.mp hr with h0 | ⟨pre, x, post, rfl, hx, hp⟩
      · rcases hc with (h1 | h1) | h1
        · rw [h0] at h1; cases h1
        · left; simp [h0, h1]
        · cases ha : ag a
          · left; simp [h0, ha]
          · right
            refine ⟨[], a, r, rfl, ha, ?_⟩
            rw [any_or_distrib, h0, h1]; rfl
      · right; exact ⟨a :: pre, x, post, rfl, hx, hp⟩
    · rintro (h0 | ⟨pre, x, post, hl, hx, hp⟩)
      · simp only [List.any_cons, Bool.or_eq_false_iff] at h0
        exact ⟨ih.mpr (Or.inl h0.2), Or.inl (Or.inr h0.1)⟩
      · cases pre with
        | nil =>
          simp only [List.nil_append, List.cons.injEq] at hl
          obtain ⟨rfl, rfl⟩ := hl
          obtain ⟨h1, h2⟩ := any_or_false _ _ _ hp
          exact ⟨ih.mpr (Or.inl h1), Or.inr h2⟩
        | cons p pre =>
          simp only [List.cons_append, List.cons.injEq] at hl
          obtain ⟨rfl, rfl⟩ := hl
          refine ⟨ih.mpr (Or.inr ⟨pre, x, post, rfl, hx, hp⟩), Or.inl (Or.inl ?_)⟩
          simp [hx]

/-- A token has an unescaped `*` (what wild's `analyze_glob_pattern` looks for first). -/
def hasUnescapedStar : List UInt8 → Bool
  | [] => false
  | c :: rest =>
    if c == bBackslash then
      match rest with
      | [] => false
      | _ :: rest' => hasUnescapedStar rest'
    else c == bStar || hasUnescapedStar rest

theorem hasUnescapedStar_cons (c : UInt8) (rest : List UInt8) (h : ¬(c == bBackslash) = true) :
    hasUnescapedStar (c :: rest) = (c == bStar || hasUnescapedStar rest) := by
  conv => lhs; unfold hasUnescapedStar
  simp [h]

theorem analyzeLoop_star_iff (t : PatternType) (p : List UInt8) (ht : t ≠ .star) :
    analyzeLoop t p = .star ↔ hasUnescapedStar p = true := by
  fun_induction analyzeLoop t p with
  | case1 t => simp [hasUnescapedStar, ht]
  | case2 t c hc t' =>
    simp only [hasUnescapedStar, hc, if_true, Bool.false_eq_true, iff_false]
    by_cases h : t = .exact <;> simp +zetaDelta [h, ht]
  | case3 t c hc t' x rest' ih =>
    have ht' : t' ≠ .star := by
      by_cases h : t = .exact <;> simp +zetaDelta [h, ht]
    rw [ih ht']
    simp only [hasUnescapedStar, hc, if_true]
  | case4 t c rest h1 h2 =>
    simp [hasUnescapedStar_cons c rest h1, h2]
  | case5 t c rest h1 h2 h3 ih =>
    rw [ih (by simp), hasUnescapedStar_cons c rest h1]
    simp [h2]
  | case6 t c rest h1 h2 h3 ih =>
    rw [ih ht, hasUnescapedStar_cons c rest h1]
    simp [h2]

/-- wild's `*` class, syntactically: the token has an unescaped `*`. -/
theorem analyze_star_iff (p : List UInt8) : analyze p = .star ↔ hasUnescapedStar p = true := by
  rw [analyze_eq, analyzeLoop_star_iff _ _ (by simp)]

/-- For a token GNU ld reads as a wildcard, wild's `*`-free class is: no unescaped `*`. -/
theorem analyze_nonStar_iff (p : List UInt8) (h : realsymbol p = none) :
    analyze p = .nonStar ↔ hasUnescapedStar p = false := by
  rcases realsymbol_none_analyze p h with ha | ha
  · simp [ha, (analyze_star_iff p).mp ha]
  · constructor
    · intro _
      cases hs : hasUnescapedStar p
      · rfl
      · rw [(analyze_star_iff p).mpr hs] at ha; cases ha
    · intro _; exact ha


theorem isWild_realsymbol (e : Entry) (h : isWild e = true) : realsymbol e.token = none := by
  simp only [isWild, toPat, Pat.literal, Bool.and_eq_true, Option.isNone_iff_eq_none] at h
  have h1 := h.1
  by_cases hq : e.quoted = true
  · simp [hq] at h1
  · simpa [hq] using h1

theorem wildAll_star_syntactic (nodes : List Node) :
    wildAll (fun e => analyze e.token == .star) nodes = wildAll (fun e => hasUnescapedStar e.token) nodes := by
  have : ∀ e : Entry, (!isWild e || analyze e.token == .star) = (!isWild e || hasUnescapedStar e.token) := by
    intro e
    cases hw : isWild e with
    | false => rfl
    | true =>
      simp only [Bool.not_true, Bool.false_or]
      rw [Bool.eq_iff_iff]
      simpa using analyze_star_iff e.token
  simp only [wildAll, this]

theorem wildAll_nonStar_syntactic (nodes : List Node) :
    wildAll (fun e => analyze e.token == .nonStar) nodes = wildAll (fun e => !hasUnescapedStar e.token) nodes := by
  have : ∀ e : Entry, (!isWild e || analyze e.token == .nonStar) = (!isWild e || !hasUnescapedStar e.token) := by
    intro e
    cases hw : isWild e with
    | false => rfl
    | true =>
      simp only [Bool.not_true, Bool.false_or]
      rw [Bool.eq_iff_iff]
      simpa using analyze_nonStar_iff e.token (isWild_realsymbol e hw)
  simp only [wildAll, this]

/-- `GnuAgree` without reference to wild's `analyze`: the `*` class is "has an unescaped `*`". -/
def GnuAgreeSyn (nodes : List Node) : Bool :=
  nodes.all (fun n => n.entries.all EntryOK) &&
  (wildAll (fun e => !e.isLocal) nodes || wildAll (fun e => e.isLocal) nodes) &&
  (wildOneNode nodes || wildAll (fun e => hasUnescapedStar e.token) nodes ||
    wildAll (fun e => !hasUnescapedStar e.token) nodes) &&
  starOK (secAny false starE) (secAny true starE) nodes

theorem GnuAgree_syntactic (nodes : List Node) : GnuAgree nodes = GnuAgreeSyn nodes := by
  unfold GnuAgree GnuAgreeSyn
  rw [wildAll_star_syntactic, wildAll_nonStar_syntactic]

/-- `find_match_spec_partial` with the class stated without wild's `analyze`. -/
theorem find_match_spec_partial_syn (dem : Bytes → Bytes) (nodes : List Node) (name : Bytes)
    (hc : GnuAgreeSyn nodes = true) (hacc : ∃ vs, build false nodes = .ok (.regular vs)) :
    modelFind dem nodes name = gnuFindIdx dem nodes name :=
  find_match_spec_partial dem nodes name (by rw [GnuAgree_syntactic]; exact hc) hacc

/-! ### The class is inhabited by realistic scripts, and excludes the witnesses -/

def qent (loc : Bool) (s : String) : Entry := { isLocal := loc, isCxx := false, quoted := true, token := b s }

/-- `V1 { global: foo; bar*; local: *; }; V2 { global: baz*; } V1;` -/
example : GnuAgree [{ name := b "V1", parent := none, entries := [ent false "foo", ent false "bar*", ent true "*"] },
                    { name := b "V2", parent := some 1, entries := [ent false "baz*"] }] = true := by decide

example : ∃ vs, build false [{ name := b "V1", parent := none, entries := [ent false "foo", ent false "bar*", ent true "*"] },
                    { name := b "V2", parent := some 1, entries := [ent false "baz*"] }] = .ok (.regular vs) := ⟨_, rfl⟩

example : GnuAgreeSyn [{ name := b "V1", parent := none, entries := [ent false "foo", ent false "bar*", ent true "*"] },
                    { name := b "V2", parent := some 1, entries := [ent false "baz*"] }] = true := by decide

/-- `V1 { global: a_?; a_[xy]*; "quoted*"; esc\*aped; local: *; };` (both wildcard classes, one node). -/
example : GnuAgree [{ name := b "V1", parent := none, entries :=
    [ent false "a_?", ent false "a_[xy]*", qent false "quoted*", ent false "esc\\*aped", ent true "*"] }] = true := by decide

/-- `V1 { global: f1; local: _Z*; _priv_?; }; V2 { global: f2; *; };` (local wildcards of both classes in
one node; the last node with a `*` has it in `global:`). -/
example : GnuAgree [{ name := b "V1", parent := none, entries := [ent false "f1", ent true "_Z*", ent true "_priv_?"] },
                    { name := b "V2", parent := none, entries := [ent false "f2", ent false "*"] }] = true := by decide

/-- The two witness scripts are outside the class. -/
example : GnuAgree [{ name := b "V1", parent := none, entries := [ent false "f*"] },
                    { name := b "V2", parent := none, entries := [ent true "fo*"] }] = false := by decide
example : GnuAgree [{ name := b "V1", parent := none, entries := [ent false "f?o"] },
                    { name := b "V2", parent := none, entries := [ent false "f*"] }] = false := by decide
/-- `a]b` (wild: wildcard, GNU: literal) and a global `*` followed by a later local `*` are excluded. -/
example : GnuAgree [{ name := b "V1", parent := none, entries := [ent false "a]b"] }] = false := by decide
example : GnuAgree [{ name := b "V1", parent := none, entries := [ent false "*"] },
                    { name := b "V2", parent := none, entries := [ent true "*"] }] = false := by decide


end Wild.C32
