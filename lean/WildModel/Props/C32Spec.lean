/-
Independent statement of GNU ld's version-script matching (bfd/elflink.c `bfd_find_version_for_sym`,
ld/ldlang.c `lang_vers_match`, `realsymbol`), confirmed by experiments with GNU ld 2.40
(scratch/c15c32/REPORT.md). A pattern is a *literal* when it is quoted or has no unescaped `?`, `*`,
`[` (backslashes are then removed); the pattern `*` is the *star*; everything else is a *wildcard*
matched with `fnmatch(pattern, symbol, 0)` (parameter `wm`). Nodes are scanned in script order:
  - a literal match in `global:` of node t  -> result global t, stop;
  - otherwise wildcard matches in `global:` -> remember t as global_ver (star: star_global_ver);
  - a literal match in `local:` of node t   -> result local t, stop;
  - otherwise wildcard matches in `local:`  -> remember t as local_ver (star: star_local_ver);
at the end: global_ver, else local_ver, else star_global_ver, else star_local_ver (each the LAST
node that set it). Core-only so that the driver can evaluate it (`spec-gnu-find`).
-/
namespace Wild.GnuVersionSpec

abbrev Bytes := List UInt8

structure Pat where
  cxx : Bool
  quoted : Bool
  text : Bytes
  deriving Repr, DecidableEq

structure Node where
  globals : List Pat
  locals : List Pat
  deriving Repr

/-- `realsymbol`: `none` = glob pattern; `some s` = literal symbol (backslashes removed). -/
def realsymbol : List UInt8 → Option (List UInt8)
  | [] => some []
  | 0x5C :: c :: rest => (realsymbol rest).map (c :: ·)
  | c :: rest =>
    if c == 0x3F || c == 0x2A || c == 0x5B then none
    else (realsymbol rest).map (c :: ·)

def Pat.literal (p : Pat) : Option Bytes := if p.quoted then some p.text else realsymbol p.text
def Pat.isStar (p : Pat) : Bool := !p.quoted && p.text == [0x2A]

/-- The symbol as the pattern's language sees it. -/
def symFor (dem : Bytes → Bytes) (p : Pat) (name : Bytes) : Bytes := if p.cxx then dem name else name

def litMatch (dem : Bytes → Bytes) (ps : List Pat) (name : Bytes) : Bool :=
  ps.any (fun p => p.literal == some (symFor dem p name))

def wildMatch (wm : Bytes → Bytes → Bool) (dem : Bytes → Bytes) (ps : List Pat) (name : Bytes) : Bool :=
  ps.any (fun p => p.literal.isNone && !p.isStar && wm p.text (symFor dem p name))

def starMatch (ps : List Pat) : Bool := ps.any (fun p => p.isStar)

structure Acc where
  gv : Option Nat := none
  lv : Option Nat := none
  sgv : Option Nat := none
  slv : Option Nat := none
  deriving Repr

inductive Scan where
  | stop (idx : Nat) (isLocal : Bool)
  | cont (acc : Acc)

def scan (wm : Bytes → Bytes → Bool) (dem : Bytes → Bytes) (name : Bytes) : Nat → Acc → List Node → Scan
  | _, acc, [] => .cont acc
  | i, acc, t :: rest =>
    if litMatch dem t.globals name then .stop i false
    else
      let acc := if wildMatch wm dem t.globals name then { acc with gv := some i } else acc
      let acc := if starMatch t.globals then { acc with sgv := some i } else acc
      if litMatch dem t.locals name then .stop i true
      else
        let acc := if wildMatch wm dem t.locals name then { acc with lv := some i } else acc
        let acc := if starMatch t.locals then { acc with slv := some i } else acc
        scan wm dem name (i + 1) acc rest

/-- `bfd_find_version_for_sym`: (index of the node in script order, is_local). -/
def gnuFind (wm : Bytes → Bytes → Bool) (dem : Bytes → Bytes) (nodes : List Node) (name : Bytes) : Option (Nat × Bool) :=
  match scan wm dem name 0 {} nodes with
  | .stop i l => some (i, l)
  | .cont acc =>
    match acc.gv with
    | some i => some (i, false)
    | none =>
      match acc.lv with
      | some i => some (i, true)
      | none =>
        match acc.sgv with
        | some i => some (i, false)
        | none => acc.slv.map (fun i => (i, true))

end Wild.GnuVersionSpec
