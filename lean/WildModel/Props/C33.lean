import WildModel.Model.Wrap
/-!
# C33 — `--wrap` redirects references exactly as GNU ld does

GNU ld (ld.texi, `--wrap=symbol`): "Any undefined reference to symbol will be resolved to
`__wrap_symbol`. Any undefined reference to `__real_symbol` will be resolved to symbol." —
unconditionally; definitions, and references inside the object that defines the symbol, are not
affected.
-/
namespace Wild.Link

/-- GNU ld's rule, written independently of the implementation model. -/
def gnuLookupName (W : List Nat) (n : Nat) : Nat :=
  if n < 1000 then (if W.contains n then wrapOf n else n)
  else if 2000 ≤ n && n < 3000 then (if W.contains (n - 2000) then n - 2000 else n)
  else n

def gnuTransform (W : List Nat) (fs : List File) : List File :=
  fs.map fun f => { f with entries := f.entries.map (Entry.rename (gnuLookupName W)) }

/-- `S ∈ W`, `__wrap_S` defined somewhere: an undefined reference to S is looked up as `__wrap_S`. -/
theorem wrap_redirects (W : List Nat) (fs : List File) (s : Nat) (hs : s < 1000)
    (hw : W.contains s = true) (hdef : (firstDef fs (wrapOf s)).isSome = true) :
    wrapLookupName W fs s = wrapOf s := by
  unfold wrapLookupName
  have hc : (W.contains s && (firstDef fs (wrapOf s)).isSome) = true := by rw [hw, hdef]; rfl
  rw [if_pos hs, if_pos hc]

/-- `S ∈ W`, S defined somewhere: an undefined reference to `__real_S` is looked up as S. -/
theorem real_redirects (W : List Nat) (fs : List File) (s : Nat) (hs : s < 1000)
    (hw : W.contains s = true) (hdef : (firstDef fs s).isSome = true) :
    wrapLookupName W fs (realOf s) = s := by
  unfold wrapLookupName realOf
  have h1 : ¬ (s + 2000 < 1000) := by omega
  have h2 : (decide (2000 ≤ s + 2000) && decide (s + 2000 < 3000)) = true := by
    simp; omega
  have h3 : s + 2000 - 2000 = s := by omega
  rw [if_neg h1, if_pos h2]
  simp only [h3]
  have hc : (W.contains s && (firstDef fs s).isSome) = true := by rw [hw, hdef]; rfl
  rw [if_pos hc]

/-- Names that are neither wrapped nor `__real_` of a wrapped name are untouched. -/
theorem unrelated_unaffected (W : List Nat) (fs : List File) (n : Nat)
    (h1 : n < 1000 → W.contains n = false)
    (h2 : 2000 ≤ n → n < 3000 → W.contains (n - 2000) = false) :
    wrapLookupName W fs n = n := by
  unfold wrapLookupName
  by_cases ha : n < 1000
  · have hc : ¬ (W.contains n && (firstDef fs (wrapOf n)).isSome) = true := by rw [h1 ha]; simp
    rw [if_pos ha, if_neg hc]
  · rw [if_neg ha]
    by_cases hb : (decide (2000 ≤ n) && decide (n < 3000)) = true
    · have hb' := hb
      simp only [Bool.and_eq_true, decide_eq_true_eq] at hb'
      have hc : ¬ (W.contains (n - 2000) && (firstDef fs (n - 2000)).isSome) = true := by
        rw [h2 hb'.1 hb'.2]; simp
      rw [if_pos hb]
      simp only []
      rw [if_neg hc]
    · rw [if_neg hb]

/-- Definitions are never renamed, so the object that defines S keeps referring to its own S and
the set of definers of every name is unchanged. -/
theorem definitions_unaffected (W : List Nat) (fs : List File) (i n : Nat) :
    ((wrapTransform W fs)[i]?.map (·.defines n)) = (fs[i]?.map (·.defines n)) := by
  unfold wrapTransform
  simp only [List.getElem?_map, Option.map_map]
  cases fs[i]? with
  | none => rfl
  | some f =>
    simp only [Option.map_some, Function.comp, File.defines, List.any_map]
    congr 1
    apply congrArg
    funext e
    cases e <;> rfl

/-- **C33 (partial).** wild's lookup agrees with GNU ld's whenever the target of the redirection
exists (`__wrap_S` defined for a referenced wrapped S, S defined for a referenced `__real_S`). -/
theorem wrap_eq_gnu_partial (W : List Nat) (fs : List File) (n : Nat)
    (hwrap : n < 1000 → W.contains n = true → (firstDef fs (wrapOf n)).isSome = true)
    (hreal : 2000 ≤ n → n < 3000 → W.contains (n - 2000) = true →
      (firstDef fs (n - 2000)).isSome = true) :
    wrapLookupName W fs n = gnuLookupName W n := by
  unfold wrapLookupName gnuLookupName
  by_cases ha : n < 1000
  · rw [if_pos ha, if_pos ha]
    by_cases hw : W.contains n = true
    · have hc : (W.contains n && (firstDef fs (wrapOf n)).isSome) = true := by
        rw [hw, hwrap ha hw]; rfl
      rw [if_pos hc, if_pos hw]
    · have hc : ¬ (W.contains n && (firstDef fs (wrapOf n)).isSome) = true := by
        intro h; apply hw; simp only [Bool.and_eq_true] at h; exact h.1
      rw [if_neg hc, if_neg hw]
  · rw [if_neg ha, if_neg ha]
    by_cases hb : (decide (2000 ≤ n) && decide (n < 3000)) = true
    · have hb' := hb
      simp only [Bool.and_eq_true, decide_eq_true_eq] at hb'
      rw [if_pos hb, if_pos hb]
      simp only []
      by_cases hw : W.contains (n - 2000) = true
      · have hc : (W.contains (n - 2000) && (firstDef fs (n - 2000)).isSome) = true := by
          rw [hw, hreal hb'.1 hb'.2 hw]; rfl
        rw [if_pos hc, if_pos hw]
      · have hc : ¬ (W.contains (n - 2000) && (firstDef fs (n - 2000)).isSome) = true := by
          intro h; apply hw; simp only [Bool.and_eq_true] at h; exact h.1
        rw [if_neg hc, if_neg hw]
    · rw [if_neg hb, if_neg hb]

/-- The full statement (agreement for every name on every input). -/
def C33_full : Prop := ∀ (W : List Nat) (fs : List File) (n : Nat),
  wrapLookupName W fs n = gnuLookupName W n

/-- Witness: `--wrap=S` with no `__wrap_S` anywhere: GNU ld redirects the reference to
`__wrap_S` (and then reports it undefined); wild leaves it bound to S. -/
theorem wrap_missing_witness :
    wrapLookupName [0] [{ dynamic := false, optional := false, entries := [.undef 0 false] },
                        { dynamic := false, optional := false, entries := [.defn 0 .strong false] }] 0 = 0 ∧
    gnuLookupName [0] 0 = 1000 := by decide

theorem C33_full_false : ¬ C33_full := by
  intro h
  have := h [0] [{ dynamic := false, optional := false, entries := [.undef 0 false] },
                 { dynamic := false, optional := false, entries := [.defn 0 .strong false] }] 0
  rw [wrap_missing_witness.1, wrap_missing_witness.2] at this
  cases this

end Wild.Link
