import WildModel.Model.Wrap
/-!
# C33 — the override loop of `apply_wrapped_symbol_overrides`, step by step

`Model/Wrap.lean` states the effect of `--wrap` on a name as a function of the SET of wrapped names.
The code (libwild/src/symbol_db.rs) is a loop over the LIST `args.wrap` that mutates the name table:

    for name in wrap {
        let orig_id = get(name);
        if let Some(wrap_id) = get("__wrap_" + name) { override(name, wrap_id) }
        if let Some(orig_id) = orig_id { override("__real_" + name, orig_id) }
    }

This file models that loop (`applyOverrides`) and proves
* `overrides_repeated_witness`: with the same name twice in the list the second iteration reads the
  already re-pointed entry, and `__real_S` ends up at `__wrap_S` (the defect repaired by the `fix:`
  commit that records each `--wrap` name once);
* `overrides_nodup_spec`: for a duplicate-free list the loop computes exactly the set-based
  function, for every name and every initial table — which is what `Model/Wrap.lean` assumes.
-/
namespace Wild.Link

/-- The name table: name ↦ symbol id. -/
abbrev NameTab := Nat → Option Nat

def NameTab.set (t : NameTab) (k v : Nat) : NameTab := fun x => if x = k then some v else t x

/-- One iteration of the loop for the wrapped name `n`. -/
def overrideStep (t : NameTab) (n : Nat) : NameTab :=
  let t1 : NameTab := match t (wrapOf n) with
    | some w => t.set n w
    | none => t
  match t n with
  | some o => t1.set (realOf n) o
  | none => t1

def applyOverrides (W : List Nat) (t : NameTab) : NameTab := W.foldl overrideStep t

/-- What the loop is meant to compute, as a function of the set of wrapped names. -/
def overrideSpec (W : List Nat) (t : NameTab) (x : Nat) : Option Nat :=
  if x < 1000 ∧ x ∈ W then
    (match t (wrapOf x) with | some w => some w | none => t x)
  else if 2000 ≤ x ∧ x < 3000 ∧ (x - 2000) ∈ W then
    (match t (x - 2000) with | some o => some o | none => t x)
  else t x

/-- `--wrap=S --wrap=S` before the repair: `S ↦ 10`, `__wrap_S ↦ 11`. One iteration binds `__real_S`
to S (10); the second iteration finds S already re-pointed and binds `__real_S` to the wrapper (11). -/
theorem overrides_repeated_witness :
    let t : NameTab := fun x => if x = 0 then some 10 else if x = 1000 then some 11 else none
    applyOverrides [0] t (realOf 0) = some 10 ∧ applyOverrides [0, 0] t (realOf 0) = some 11 := by
  decide

theorem overrideStep_wrapOf (t : NameTab) (n m : Nat) (hn : n < 1000) (hm : m < 1000) :
    overrideStep t n (wrapOf m) = t (wrapOf m) := by
  unfold overrideStep NameTab.set wrapOf realOf
  cases h1 : t (n + 1000) <;> cases h2 : t n <;> simp <;> (try (intro h; omega)) <;>
    (try (constructor <;> intro h <;> omega))
  all_goals (split <;> first | omega | rfl | (split <;> first | omega | rfl))

theorem overrideStep_other (t : NameTab) (n x : Nat) (h1 : x ≠ n) (h2 : x ≠ realOf n) :
    overrideStep t n x = t x := by
  unfold overrideStep NameTab.set
  cases t (wrapOf n) <;> cases t n <;> simp [h1, h2]

theorem overrideStep_self (t : NameTab) (n : Nat) (_hn : n < 1000) :
    overrideStep t n n = (match t (wrapOf n) with | some w => some w | none => t n) := by
  have hne : n ≠ realOf n := by unfold realOf; omega
  unfold overrideStep NameTab.set
  cases h1 : t (wrapOf n) <;> cases h2 : t n <;> simp [hne, h2]

theorem overrideStep_real (t : NameTab) (n : Nat) :
    overrideStep t n (realOf n) = (match t n with | some o => some o | none => t (realOf n)) := by
  have hne : realOf n ≠ n := by unfold realOf; omega
  unfold overrideStep NameTab.set
  cases t (wrapOf n) <;> cases t n <;> simp [hne]

/-- For a duplicate-free list of wrapped names (each < 1000, as `--wrap` names are plain names) the
loop computes the set-based specification, whatever the initial table. -/
theorem overrides_nodup_spec (W : List Nat) (t : NameTab) (hnd : W.Nodup) (hlt : ∀ n ∈ W, n < 1000)
    (x : Nat) : applyOverrides W t x = overrideSpec W t x := by
  induction W generalizing t with
  | nil => simp [applyOverrides, overrideSpec]
  | cons n W ih =>
    have hn : n < 1000 := hlt n (by simp)
    have hnW : n ∉ W := (List.nodup_cons.mp hnd).1
    have hndW : W.Nodup := (List.nodup_cons.mp hnd).2
    have hltW : ∀ m ∈ W, m < 1000 := fun m hm => hlt m (by simp [hm])
    have hstep : applyOverrides (n :: W) t = applyOverrides W (overrideStep t n) := rfl
    rw [hstep, ih (overrideStep t n) hndW hltW]
    unfold overrideSpec
    by_cases hx1 : x < 1000
    · by_cases hxW : x ∈ W
      · -- x is wrapped later in the list: the step for n touched neither x nor wrapOf x
        have hxn : x ≠ n := fun h => hnW (h ▸ hxW)
        have hxr : x ≠ realOf n := by unfold realOf; omega
        rw [if_pos ⟨hx1, hxW⟩, if_pos ⟨hx1, by simp [hxW]⟩,
          overrideStep_wrapOf t n x hn hx1, overrideStep_other t n x hxn hxr]
      · rw [if_neg (fun h => hxW h.2)]
        have h2 : ¬ (2000 ≤ x ∧ x < 3000 ∧ (x - 2000) ∈ W) := fun h => by omega
        rw [if_neg h2]
        by_cases hxn : x = n
        · subst hxn
          rw [if_pos ⟨hx1, by simp⟩, overrideStep_self t x hn]
        · have hxr : x ≠ realOf n := by unfold realOf; omega
          rw [overrideStep_other t n x hxn hxr]
          have h3 : ¬ (x < 1000 ∧ x ∈ n :: W) := fun h => by
            rcases List.mem_cons.mp h.2 with h | h
            · exact hxn h
            · exact hxW h
          have h4 : ¬ (2000 ≤ x ∧ x < 3000 ∧ (x - 2000) ∈ n :: W) := fun h => by omega
          rw [if_neg h3, if_neg h4]
    · have h1 : ¬ (x < 1000 ∧ x ∈ W) := fun h => hx1 h.1
      have h1' : ¬ (x < 1000 ∧ x ∈ n :: W) := fun h => hx1 h.1
      rw [if_neg h1, if_neg h1']
      by_cases hr : 2000 ≤ x ∧ x < 3000
      · by_cases hxW : (x - 2000) ∈ W
        · -- __real_ of a name wrapped later: the step for n touched neither x nor x - 2000
          have hsn : x - 2000 ≠ n := fun h => hnW (h ▸ hxW)
          have hxn : x ≠ n := by omega
          have hxr : x ≠ realOf n := by unfold realOf; omega
          have hsr : x - 2000 ≠ realOf n := by unfold realOf; omega
          rw [if_pos ⟨hr.1, hr.2, hxW⟩, if_pos ⟨hr.1, hr.2, by simp [hxW]⟩,
            overrideStep_other t n (x - 2000) hsn hsr, overrideStep_other t n x hxn hxr]
        · rw [if_neg (fun h => hxW h.2.2)]
          by_cases hsn : x - 2000 = n
          · have hx : x = realOf n := by unfold realOf; omega
            rw [if_pos ⟨hr.1, hr.2, by simp [hsn]⟩, hx, overrideStep_real t n]
            have : realOf n - 2000 = n := Nat.add_sub_cancel n 2000
            rw [this]
          · have hxn : x ≠ n := by omega
            have hxr : x ≠ realOf n := by unfold realOf; omega
            have h4 : ¬ (2000 ≤ x ∧ x < 3000 ∧ (x - 2000) ∈ n :: W) := fun h => by
              rcases List.mem_cons.mp h.2.2 with h | h
              · exact hsn h
              · exact hxW h
            rw [if_neg h4, overrideStep_other t n x hxn hxr]
      · have h2 : ¬ (2000 ≤ x ∧ x < 3000 ∧ (x - 2000) ∈ W) := fun h => hr ⟨h.1, h.2.1⟩
        have h2' : ¬ (2000 ≤ x ∧ x < 3000 ∧ (x - 2000) ∈ n :: W) := fun h => hr ⟨h.1, h.2.1⟩
        have hxn : x ≠ n := by omega
        have hxr : x ≠ realOf n := by unfold realOf; omega
        rw [if_neg h2, if_neg h2', overrideStep_other t n x hxn hxr]

/-- Non-vacuity: a duplicate-free list of plain names, and the loop's result on it. -/
example : [0, 10, 1].Nodup ∧ (∀ n ∈ [0, 10, 1], n < 1000) ∧
    applyOverrides [0, 10, 1] (fun x => if x = 10 then some 5 else if x = 1010 then some 6 else none) 2010
      = some 5 := by
  refine ⟨by decide, ?_, by decide⟩
  intro n hn
  simp at hn
  omega

end Wild.Link
