/-
C34 — linker-diff is quiet on equal binaries and catches broken relocations.

The two model theorems below are IMMEDIATE consequences of the shape `diff a b = compare (view a)
(view b)`; they carry no information about the real tool beyond that shape.  What makes C34 a checked
property is the correspondence in vlib/props/c34.py: the real `linker-diff` built from /repo's
working tree must (i) report nothing for `x` vs `x` / a byte-identical copy and (ii) report a
difference for every single-site retargeting that an INDEPENDENT view (vlib/binview.py) computes.
LEVEL is therefore "translation_validation", not "proof".

The part of linker-diff's decoding that IS proved lives in C13 (linker-utils `read_value`, which
linker-diff's aarch64.rs / riscv64.rs / loongarch64.rs call to turn instruction words back into
values): it is re-exported here as `decoders_proved`, and the recorded limits (readers that are not
the ISA's decoding, or not injective, so that two different fields can read as the same value and a
retargeting inside that region is invisible to linker-diff) as `decoder_limits`.
-/
import WildModel.Model.DiffView
import WildModel.Props.C13
namespace Wild.DiffView

theorem compareGo_self (v : List Entry) : compareGo v v = [] := by
  induction v with
  | nil => rfl
  | cons a v ih => simp [compareGo, ih]

/-- **Quiet on equal inputs** (for every `view`, every binary). -/
theorem diff_self_empty {Bin : Type} (view : Bin → List Entry) (a : Bin) : diff view a a = [] := by
  simp [diff, compare, compareGo_self]

/-- Byte-identical copies have the same view, whatever `view` is. -/
theorem diff_copy_empty {Bin : Type} (view : Bin → List Entry) (a b : Bin) (h : a = b) : diff view a b = [] := by
  subst h
  exact diff_self_empty view a

theorem compareGo_single (pre post : List Entry) (x y : Entry) (h : x ≠ y) :
    compareGo (pre ++ x :: post) (pre ++ y :: post) ≠ [] := by
  induction pre with
  | nil => simp [compareGo, h]
  | cons a pre ih =>
    simp only [List.cons_append, compareGo, if_true]
    exact ih

/-- **Single-site detection**: views that differ at exactly one site (same site, another referent)
give a non-empty report. -/
theorem diff_detects_single_site {Bin : Type} (view : Bin → List Entry) (a b : Bin)
    (pre post : List Entry) (s : Site) (r r' : Referent) (hr : r ≠ r')
    (ha : view a = pre ++ ⟨s, r⟩ :: post) (hb : view b = pre ++ ⟨s, r'⟩ :: post) :
    diff view a b ≠ [] := by
  simp only [diff, compare, ha, hb]
  intro h
  have h2 := (List.append_eq_nil_iff.1 h).2
  exact compareGo_single pre post ⟨s, r⟩ ⟨s, r'⟩ (by intro e; injection e with _ e2; exact hr e2) h2

/-- Non-vacuity. -/
example : diff (fun (b : Bool) => [⟨⟨1, 4, 0⟩, ⟨if b then 7 else 8, 0⟩⟩]) true false ≠ [] := by decide

/-! ## The decoders linker-diff relies on for AArch64 / RISC-V / LoongArch64 (from C13) -/

open Wild.C13 Wild.Insn Wild.InsnSpec Wild.Insn.RV Wild.Insn.LA in
/-- `read_value` = the ISA manual's decoding, for every AArch64 kind except `Movkz`/`LdSt`, the
RISC-V I/S/B/J/CB/CJ formats and the LoongArch64 branch formats: on these a changed field is a
changed value, so linker-diff sees it. -/
theorem decoders_proved :
    (∀ (k : A64) (_ : k ≠ .Movkz ∧ k ≠ .LdSt) (w : BitVec 32), (A64.read k w).1 = A64S.decode k w) ∧
    (∀ w : BitVec 32, (readI w).1 = InsnSpec.RV.decodeI w) ∧
    (∀ w : BitVec 32, (readS w).1 = InsnSpec.RV.decodeS w) ∧
    (∀ w : BitVec 32, (readB w).1 = InsnSpec.RV.decodeB w) ∧
    (∀ w : BitVec 32, (readJ w).1 = InsnSpec.RV.decodeJ w) ∧
    (∀ w : BitVec 16, (readCb w).1 = InsnSpec.RV.decodeCb w) ∧
    (∀ w : BitVec 16, (readCj w).1 = InsnSpec.RV.decodeCj w) ∧
    (∀ w : BitVec 32, (readBranch21 w).1 = InsnSpec.LA.decodeBranch21 w) ∧
    (∀ w : BitVec 32, (readBranch26 w).1 = InsnSpec.LA.decodeBranch26 w) :=
  ⟨fun k hk w => a64_read k hk w, rv_read_I, rv_read_S, rv_read_B, rv_read_J, rv_read_Cb,
   rv_read_Cj, la_read_Branch21, la_read_Branch26⟩

open Wild.C13 Wild.Insn Wild.InsnSpec Wild.Insn.RV Wild.Insn.LA in
/-- Recorded limits: the RISC-V `UiType` reader (auipc+jalr / auipc+addi pairs) is not injective —
two different field contents read as the same value — and the LoongArch64 `Call30` reader does not
invert its writer.  A retargeting between such field contents is invisible to a comparison of read
values. -/
theorem decoder_limits :
    (readUi 0xfff0000000001000#64).1 = (readUi 0xfff0000000002000#64).1 ∧
    (readCall30 (writeCall30 0x1ffff#64 0#64)).1 ≠ 0x1ffff#64 :=
  ⟨rv_read_Ui_not_injective, la_call30_read_write_witness⟩

end Wild.DiffView
