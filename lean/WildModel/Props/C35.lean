import WildModel.Model.Jobserver
/-!
# C35 — Jobserver tokens are conserved

* `threads_le_tokens_plus_one`: under a jobserver (and without an explicit `--threads`), the link
  uses exactly `acquired + 1` threads, and `acquired ≤` the tokens that were in the pool.
* `tokens_conserved`: for every mode (fork / fork-failed fallback / no-fork), every pool size, every
  configuration and every outcome in {ok, error, panic (unwinding)}: once all processes of the run
  are gone the pool holds exactly what it held before.
* `old_zero_tokens_many_threads`: before fix `c35-single-thread-pool` an empty jobserver (or
  `--threads=1`) gave a pool as large as the number of CPUs.
* Excluded and said so: `abort`, a fatal signal (a dead process cannot write its tokens back —
  `dead_process_loses_tokens`), and `std::process::exit` called *inside* the link
  (`exit_inside_leaks`: today's `WILD_SAVE_SKIP_LINKING`, a genuine leak reproduced by the check
  and recorded as a known finding).
-/
namespace Wild.Jobserver

/-- The loop only moves tokens from the pool to `held`. -/
theorem acquireLoop_conserves (fuel : Nat) (e : Option Nat) (s : St) :
    (acquireLoop fuel e s).pool + (acquireLoop fuel e s).held = s.pool + s.held := by
  induction fuel generalizing e s with
  | zero => simp [acquireLoop]
  | succ n ih =>
    unfold acquireLoop
    split
    · rfl
    · cases h : tryAcquire s with
      | none => simp
      | some s' =>
        simp only
        rw [ih]
        unfold tryAcquire at h
        split at h
        · cases h
        · cases h; simp; omega

theorem acquireLoop_held_mono (fuel : Nat) (e : Option Nat) (s : St) :
    s.held ≤ (acquireLoop fuel e s).held := by
  induction fuel generalizing e s with
  | zero => simp [acquireLoop]
  | succ n ih =>
    unfold acquireLoop
    split
    · exact Nat.le_refl _
    · cases h : tryAcquire s with
      | none => simp
      | some s' =>
        simp only
        have := ih (e.map (· - 1)) s'
        unfold tryAcquire at h
        split at h
        · cases h
        · cases h; simp at this; omega

/-- Without I/O errors the loop takes every token that is in the pool (`try-acquire until
would-block`). -/
theorem acquireLoop_drains (fuel : Nat) (s : St) (hf : s.pool ≤ fuel) :
    (acquireLoop fuel none s).pool = 0 ∧ (acquireLoop fuel none s).held = s.held + s.pool := by
  induction fuel generalizing s with
  | zero =>
    have : s.pool = 0 := by omega
    simp [acquireLoop, this]
  | succ n ih =>
    unfold acquireLoop
    simp only [reduceCtorEq, ↓reduceIte, Option.map_none]
    by_cases hp : s.pool = 0
    · simp [tryAcquire, hp]
    · simp only [tryAcquire, hp, ↓reduceIte]
      have := ih { pool := s.pool - 1, held := s.held + 1 } (by simp; omega)
      simp at this ⊢
      omega

/-- `activate_thread_pool` only moves tokens from the pool to `held`. -/
theorem activate_conserves (c : Config) (s : St) :
    (activateThreadPool c s).1.pool + (activateThreadPool c s).1.held = s.pool + s.held := by
  unfold activateThreadPool
  cases c.numThreads with
  | some n => rfl
  | none =>
    simp only
    split
    · exact acquireLoop_conserves _ _ _
    · rfl

/-- **C35 (a).** Under a jobserver and without `--threads`, the number of threads is exactly the
number of acquired tokens plus one (the token our invoker holds for us), and no more tokens are
acquired than the pool contained — for every mode, outcome, pool size and I/O-error position. -/
theorem threads_le_tokens_plus_one (m : Mode) (c : Config) (e : RunEnd) (pool : Nat)
    (hn : c.numThreads = none) (hc : c.hasClient = true) :
    (system m c e pool).2 = acquired c pool + 1 ∧ acquired c pool ≤ pool := by
  have hcons := acquireLoop_conserves pool c.ioErrAfter { pool := pool, held := 0 }
  have key : (worker poolThreads c e { pool := pool, held := 0 }).2 = acquired c pool + 1 ∧ acquired c pool ≤ pool := by
    simp only [worker, acquired, activateThreadPool, hn, hc, ↓reduceIte, poolThreads]
    simp at hcons ⊢
    omega
  cases m <;> simpa [system, systemWith, forkingParent] using key

/-- When nothing else touches the pipe and no I/O error occurs, all tokens are taken. -/
theorem acquires_all (c : Config) (pool : Nat)
    (hn : c.numThreads = none) (hc : c.hasClient = true) (he : c.ioErrAfter = none) :
    acquired c pool = pool := by
  have := acquireLoop_drains pool { pool := pool, held := 0 } (Nat.le_refl _)
  simp [acquired, activateThreadPool, hn, hc, he, this.2]

/-- **C35 (b).** Tokens are conserved: for outcomes ok / error / panic, in every mode, for every
pool size and configuration, the pool afterwards equals the pool before. -/
theorem tokens_conserved (m : Mode) (c : Config) (e : RunEnd) (pool : Nat)
    (he : e = .ok ∨ e = .error ∨ e = .panic) :
    (system m c e pool).1 = pool := by
  have hd : e.dropsLocals = true := by rcases he with rfl | rfl | rfl <;> rfl
  have hcons := activate_conserves c { pool := pool, held := 0 }
  have key : (worker poolThreads c e { pool := pool, held := 0 }).1.pool = pool := by
    simp only [worker, hd, ↓reduceIte, dropThreadPool]
    simpa using hcons
  cases m <;> simpa [system, systemWith, forkingParent] using key

/-- What is lost otherwise: exactly the tokens the process held when it died / called `exit`. -/
theorem dead_process_loses_tokens (m : Mode) (c : Config) (e : RunEnd) (pool : Nat)
    (he : e.dropsLocals = false) :
    (system m c e pool).1 + acquired c pool = pool := by
  have hcons := activate_conserves c { pool := pool, held := 0 }
  have key : (worker poolThreads c e { pool := pool, held := 0 }).1.pool + acquired c pool = pool := by
    simp only [worker, he, acquired]
    simpa using hcons
  cases m <;> simpa [system, systemWith, forkingParent] using key

/-- `--threads=N` overrides the jobserver: no token is taken and `N` threads are used (`N ≥ 1`: it is a
`NonZeroUsize`), whatever the pool holds (by design: an explicit user request). -/
theorem explicit_threads_take_no_tokens (m : Mode) (c : Config) (e : RunEnd) (pool n : Nat)
    (hn : c.numThreads = some n) (hpos : 1 ≤ n) :
    (system m c e pool).2 = n ∧ acquired c pool = 0 ∧ (system m c e pool).1 = pool := by
  have ht : poolThreads c.cpus n = n := by unfold poolThreads; split <;> omega
  cases m <;> simp [system, systemWith, forkingParent, worker, acquired, activateThreadPool, hn, dropThreadPool, ht] <;>
    split <;> simp

/-- Defect witness for the code before fix `c35-single-thread-pool` (reproduced on the real binary:
16 tasks with an empty jobserver on a 16-CPU machine): no token acquired, but as many threads as CPUs. -/
theorem old_zero_tokens_many_threads :
    (systemOld .fork ⟨none, true, 16, none⟩ .ok 0).2 = 16 ∧ acquired ⟨none, true, 16, none⟩ 0 = 0 := by
  decide

/-- Hence `threads = acquired + 1` was false for the old code. -/
theorem old_violates_thread_bound :
    ¬ (∀ (m : Mode) (c : Config) (e : RunEnd) (pool : Nat), c.numThreads = none → c.hasClient = true →
        (systemOld m c e pool).2 ≤ acquired c pool + 1) := by
  intro h
  have := h .fork ⟨none, true, 16, none⟩ .ok 0 rfl rfl
  rw [old_zero_tokens_many_threads.1, old_zero_tokens_many_threads.2] at this
  omega

/-- Defect witness (real code, reproduced by the check): `std::process::exit(0)` inside the link
(`WILD_SAVE_DIR` + `WILD_SAVE_SKIP_LINKING`) skips `Drop for ThreadPool`; with 4 tokens in the
pool all 4 are lost, in fork and in no-fork mode. -/
theorem exit_inside_leaks :
    (system .fork ⟨none, true, 8, none⟩ .exitInside 4).1 = 0 ∧
    (system .noFork ⟨none, true, 8, none⟩ .exitInside 4).1 = 0 := by
  decide

/-- Hence conservation does not extend to `exitInside`. -/
theorem not_conserved_for_exit_inside :
    ¬ (∀ (m : Mode) (c : Config) (pool : Nat), (system m c .exitInside pool).1 = pool) := by
  intro h
  have := h .fork ⟨none, true, 8, none⟩ 4
  rw [exit_inside_leaks.1] at this
  cases this

/-! ### Non-vacuity -/

example : system .fork ⟨none, true, 8, none⟩ .ok 4 = (4, 5) := by decide
example : system .fork ⟨none, true, 8, none⟩ .panic 0 = (0, 1) := by decide
example : system .noFork ⟨none, true, 8, some 2⟩ .error 4 = (4, 3) := by decide
example : system .noFork ⟨some 3, true, 8, none⟩ .ok 4 = (4, 3) := by decide
example : system .fork ⟨none, true, 8, none⟩ .killed 4 = (0, 5) := by decide

end Wild.Jobserver
