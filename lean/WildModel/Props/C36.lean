/-
C36 — Stack and GNU property notes are merged as in GNU ld.

Model (what wild does):      `WildModel/Model/Notes.lean`      (`linkProps`, `wildStack`)
Specification (GNU ld 2.40): `WildModel/Model/NotesSpec.lean`  (`gnuClass`, `gnuValue`, `gnuProps`, `gnuStack`) — a core-only
                             file so that the driver can evaluate it and every check run validates it against /usr/bin/ld.

Property theorems
* `class_eq_gnu`                  wild's `get_property_class` = GNU ld's classes for every `pr_type`
* `props_and_or_spec_partial`     for ALL input lists whose UINT32 properties have classifiable types:
                                  `linkProps inputs isa = ok (gnuProps inputs isa)` (AND of AND-class bits with a missing
                                  property counting as 0, OR of OR-class bits, OR_AND rule, `-z x86-64-vN`, ascending order)
* `props_error_iff`               outside that region wild fails (`unclassified property type`), and only there
* `C36_props_full`, `props_full_witness`   the full statement and its refutation on a concrete input
* `props_order_free`, `gnuProps_order_free` permutation invariance for ALL input lists
* `stack_eq_gnu_partial`, `stack_flags_eq_gnu_partial`, `C36_stack_full`, `stack_full_witness`,
  `stack_missing_note_witness`, `stack_exec_note_witness`, `stack_exec_note_noexecstack_witness`,
  `stack_no_notes_presence_witness`
-/
import WildModel.Model.Notes
import WildModel.Model.NotesSpec
namespace Wild.Notes

/-! ## Classes -/

def convClass : GClass → PClass
  | .and => .and
  | .or => .or
  | .orAnd => .andOr

theorem class_eq_gnu (t : Nat) : getPropertyClass t = (gnuClass t).map convClass := by
  simp only [getPropertyClass, gnuClass, GNU_PROPERTY_X86_UINT32_AND_LO, GNU_PROPERTY_X86_UINT32_AND_HI,
    GNU_PROPERTY_X86_UINT32_OR_LO, GNU_PROPERTY_X86_UINT32_OR_HI, GNU_PROPERTY_X86_UINT32_OR_AND_LO,
    GNU_PROPERTY_X86_UINT32_OR_AND_HI, GNU_PROPERTY_UINT32_AND_LO, GNU_PROPERTY_UINT32_AND_HI,
    GNU_PROPERTY_UINT32_OR_LO, GNU_PROPERTY_UINT32_OR_HI]
  grind [convClass]

/-! ## Per-file parsing -/

def lookup : List GnuProperty → Nat → Option (BitVec 32)
  | [], _ => none
  | e :: r, t => if e.ptype = t then some e.data else lookup r t

def keys (l : List GnuProperty) : List Nat := l.map GnuProperty.ptype

theorem lookup_pushProp (l : List GnuProperty) (p : GnuProperty) (t : Nat) :
    lookup (pushProp l p) t = if p.ptype = t then some ((lookup l t).getD 0 ||| p.data) else lookup l t := by
  induction l with
  | nil => simp [pushProp, lookup]
  | cons e r ih =>
    simp only [pushProp, lookup]
    by_cases h1 : e.ptype = p.ptype <;> by_cases h2 : p.ptype = t <;> simp_all [lookup] <;> grind

theorem keys_pushProp (l : List GnuProperty) (p : GnuProperty) :
    keys (pushProp l p) = if p.ptype ∈ keys l then keys l else keys l ++ [p.ptype] := by
  induction l with
  | nil => simp [pushProp, keys]
  | cons e r ih =>
    simp only [keys] at ih
    by_cases h1 : e.ptype = p.ptype
    · simp [pushProp, keys, h1]
    · simp [pushProp, keys, h1, ih]
      have : ¬ p.ptype = e.ptype := fun h => h1 h.symm
      simp [this]
      split <;> simp

theorem nodup_pushProp (l : List GnuProperty) (p : GnuProperty) (h : (keys l).Nodup) :
    (keys (pushProp l p)).Nodup := by
  rw [keys_pushProp]
  split
  · exact h
  · rename_i hn
    rw [List.nodup_append]
    refine ⟨h, by simp, ?_⟩
    intro a ha b hb
    simp at hb; subst hb
    intro e; exact hn (e ▸ ha)

def pnsStep (acc : List GnuProperty) (r : RawProp) : List GnuProperty :=
  if r.datasz ≠ 4 then acc else pushProp acc ⟨r.ptype, r.data⟩

theorem processNoteSection_eq (raw : List RawProp) : processNoteSection raw = raw.foldl pnsStep [] := rfl

def isU32 (t : Nat) (r : RawProp) : Bool := r.ptype = t ∧ r.datasz = 4

theorem hasProp_false_filter (f : List RawProp) (t : Nat) (h : hasProp f t = false) :
    f.filter (fun r => decide (r.ptype = t ∧ r.datasz = 4)) = [] := by
  unfold hasProp at h
  rw [List.filter_eq_nil_iff]
  intro a ha
  have := List.any_eq_false.mp h a ha
  exact this

theorem nodup_pnsFold (raw : List RawProp) (acc : List GnuProperty) (h : (keys acc).Nodup) :
    (keys (raw.foldl pnsStep acc)).Nodup := by
  induction raw generalizing acc with
  | nil => exact h
  | cons r rs ih =>
    rw [List.foldl_cons]
    apply ih
    unfold pnsStep
    split
    · exact h
    · exact nodup_pushProp _ _ h

theorem lookup_pnsFold (raw : List RawProp) (acc : List GnuProperty) (t : Nat) :
    lookup (raw.foldl pnsStep acc) t =
      if hasProp raw t then
        some ((raw.filter (fun r => decide (r.ptype = t ∧ r.datasz = 4))).foldl (fun a r => a ||| r.data) ((lookup acc t).getD 0))
      else lookup acc t := by
  induction raw generalizing acc with
  | nil => simp [hasProp]
  | cons r rs ih =>
    rw [List.foldl_cons, ih]
    by_cases h4 : r.datasz = 4
    · by_cases ht : r.ptype = t
      · have hp : hasProp (r :: rs) t = true := by simp [hasProp, ht, h4]
        have hf : (r :: rs).filter (fun r => decide (r.ptype = t ∧ r.datasz = 4)) = r :: rs.filter (fun r => decide (r.ptype = t ∧ r.datasz = 4)) := by
          simp [ht, h4]
        rw [hp, hf]
        simp only [pnsStep, h4, ne_eq, not_true_eq_false, if_false, lookup_pushProp, ht, if_true, Option.getD_some, List.foldl_cons]
        by_cases hrs : hasProp rs t = true
        · simp [hrs]
        · have hrs' : hasProp rs t = false := by simpa using hrs
          rw [hasProp_false_filter rs t hrs']
          simp [hrs']
      · have hp : hasProp (r :: rs) t = hasProp rs t := by simp [hasProp, ht]
        have hf : (r :: rs).filter (fun r => decide (r.ptype = t ∧ r.datasz = 4)) = rs.filter (fun r => decide (r.ptype = t ∧ r.datasz = 4)) := by
          simp [ht]
        rw [hp, hf]
        simp [pnsStep, h4, lookup_pushProp, ht]
    · have hp : hasProp (r :: rs) t = hasProp rs t := by simp [hasProp, h4]
      have hf : (r :: rs).filter (fun r => decide (r.ptype = t ∧ r.datasz = 4)) = rs.filter (fun r => decide (r.ptype = t ∧ r.datasz = 4)) := by
        simp [h4]
      rw [hp, hf]
      simp [pnsStep, h4]

theorem lookup_processNoteSection (raw : List RawProp) (t : Nat) :
    lookup (processNoteSection raw) t = if hasProp raw t then some (inputBits raw t) else none := by
  rw [processNoteSection_eq, lookup_pnsFold]
  simp [lookup, inputBits]

theorem nodup_processNoteSection (raw : List RawProp) : (keys (processNoteSection raw)).Nodup := by
  rw [processNoteSection_eq]; exact nodup_pnsFold raw [] (by simp [keys])

def valsOf (t : Nat) (ps : List GnuProperty) : List (BitVec 32) :=
  (ps.filter (fun p => decide (p.ptype = t))).map GnuProperty.data

theorem valsOf_append (t : Nat) (a b : List GnuProperty) : valsOf t (a ++ b) = valsOf t a ++ valsOf t b := by
  simp [valsOf]

theorem valsOf_nil_of_not_mem (t : Nat) (l : List GnuProperty) (h : t ∉ keys l) : valsOf t l = [] := by
  simp only [valsOf, List.map_eq_nil_iff, List.filter_eq_nil_iff]
  intro a ha
  simp only [decide_eq_true_eq]
  intro e
  exact h (by simp only [keys, List.mem_map]; exact ⟨a, ha, e⟩)

theorem valsOf_nodup (t : Nat) (l : List GnuProperty) (h : (keys l).Nodup) :
    valsOf t l = (lookup l t).toList := by
  induction l with
  | nil => rfl
  | cons e r ih =>
    have hn : e.ptype ∉ keys r ∧ (keys r).Nodup := by simpa [keys] using h
    by_cases he : e.ptype = t
    · have : valsOf t r = [] := valsOf_nil_of_not_mem t r (he ▸ hn.1)
      simp [valsOf, lookup, he] at this ⊢
      exact this
    · have := ih hn.2
      simp [valsOf, lookup, he] at this ⊢
      exact this

theorem any_ptype_iff (l : List GnuProperty) (t : Nat) :
    (l.any fun p => p.ptype == t) = (lookup l t).isSome := by
  induction l with
  | nil => rfl
  | cons e r ih =>
    by_cases he : e.ptype = t <;> simp [lookup, he, ih]


/-! ## The association list -/

def findE : List Entry → Nat → Option Entry
  | [], _ => none
  | e :: r, k => if e.key = k then some e else findE r k

def ekeys (m : List Entry) : List Nat := m.map Entry.key

theorem findE_upsert (m : List Entry) (k : Nat) (f : Entry → Entry) (ins : Entry) (k' : Nat)
    (hf : ∀ e, (f e).key = e.key) (hi : ins.key = k) :
    findE (upsert m k f ins) k' =
      if k' = k then some (match findE m k with | some e => f e | none => ins) else findE m k' := by
  induction m with
  | nil =>
    by_cases h : k' = k
    · simp [upsert, findE, hi, h]
    · have : ¬ k = k' := fun e => h e.symm
      simp [upsert, findE, hi, h, this]
  | cons e r ih =>
    by_cases h1 : e.key = k
    · by_cases h : k' = k
      · simp [upsert, findE, h1, h, hf]
      · have : ¬ k = k' := fun e => h e.symm
        simp [upsert, findE, h1, h, hf, this]
    · by_cases h : k' = k
      · subst h
        simp [upsert, findE, h1, ih]
      · simp only [upsert, findE, h1, if_false, ih, h]

theorem ekeys_upsert (m : List Entry) (k : Nat) (f : Entry → Entry) (ins : Entry)
    (hf : ∀ e, (f e).key = e.key) (hi : ins.key = k) :
    ekeys (upsert m k f ins) = if k ∈ ekeys m then ekeys m else ekeys m ++ [k] := by
  induction m with
  | nil => simp [upsert, ekeys, hi]
  | cons e r ih =>
    simp only [ekeys] at ih
    by_cases h1 : e.key = k
    · simp [upsert, ekeys, h1, hf]
    · have : ¬ k = e.key := fun h => h1 h.symm
      simp [upsert, ekeys, h1, ih, this]
      split <;> simp

theorem nodup_upsert (m : List Entry) (k : Nat) (f : Entry → Entry) (ins : Entry)
    (hf : ∀ e, (f e).key = e.key) (hi : ins.key = k) (h : (ekeys m).Nodup) :
    (ekeys (upsert m k f ins)).Nodup := by
  rw [ekeys_upsert m k f ins hf hi]
  split
  · exact h
  · rename_i hn
    rw [List.nodup_append]
    refine ⟨h, by simp, ?_⟩
    intro a ha b hb
    simp at hb; subst hb
    intro e; exact hn (e ▸ ha)

theorem mem_ekeys_iff (m : List Entry) (k : Nat) : k ∈ ekeys m ↔ (findE m k).isSome := by
  induction m with
  | nil => simp [ekeys, findE]
  | cons e r ih =>
    simp only [ekeys] at ih
    by_cases h : e.key = k
    · simp [ekeys, findE, h]
    · have : ¬ k = e.key := fun e => h e.symm
      simp [ekeys, findE, h, ih, this]

theorem findE_key (m : List Entry) (k : Nat) (e : Entry) (h : findE m k = some e) : e.key = k ∧ e ∈ m := by
  induction m with
  | nil => simp [findE] at h
  | cons x r ih =>
    by_cases hx : x.key = k
    · simp [findE, hx] at h; subst h; exact ⟨hx, List.mem_cons_self⟩
    · simp [findE, hx] at h
      exact ⟨(ih h).1, List.mem_cons_of_mem _ (ih h).2⟩

theorem findE_of_mem (m : List Entry) (e : Entry) (hn : (ekeys m).Nodup) (h : e ∈ m) : findE m e.key = some e := by
  induction m with
  | nil => cases h
  | cons x r ih =>
    have hx : x.key ∉ ekeys r ∧ (ekeys r).Nodup := by simpa [ekeys] using hn
    rcases List.mem_cons.mp h with h | h
    · subst h; simp [findE]
    · have : x.key ≠ e.key := by
        intro e'
        apply hx.1
        rw [e']
        simp only [ekeys, List.mem_map]
        exact ⟨e, h, rfl⟩
      simp [findE, this, ih hx.2 h]

/-! ## The merge loop -/

def clsOf (t : Nat) : PClass := (getPropertyClass t).getD .or

def opC (c : PClass) (a b : BitVec 32) : BitVec 32 := if c = .and then a &&& b else a ||| b

def stepP (m : List Entry) (p : GnuProperty) : List Entry :=
  upsert m p.ptype (fun e => { e with val := opC (clsOf p.ptype) e.val p.data }) ⟨p.ptype, p.data, clsOf p.ptype⟩

theorem mergeStep_ok (m : List Entry) (p : GnuProperty) (h : getPropertyClass p.ptype ≠ none) :
    mergeStep m p = .ok (stepP m p) := by
  unfold mergeStep stepP clsOf opC
  cases hc : getPropertyClass p.ptype with
  | none => exact absurd hc h
  | some c =>
    simp only [Option.getD_some]
    congr 2
    funext e
    split <;> rfl

theorem mergeStep_err (m : List Entry) (p : GnuProperty) (h : getPropertyClass p.ptype = none) :
    mergeStep m p = .error p.ptype := by
  unfold mergeStep; rw [h]

theorem mergeFiles_flat (files : List (List GnuProperty)) (m : List Entry) :
    files.foldlM (fun m f => f.foldlM mergeStep m) m = files.flatten.foldlM mergeStep m := by
  induction files generalizing m with
  | nil => rfl
  | cons f r ih =>
    rw [List.foldlM_cons, List.flatten_cons, List.foldlM_append]
    congr 1
    funext m'
    exact ih m'

theorem foldlM_mergeStep_ok (ps : List GnuProperty) (m : List Entry)
    (h : ∀ p ∈ ps, getPropertyClass p.ptype ≠ none) : ps.foldlM mergeStep m = .ok (ps.foldl stepP m) := by
  induction ps generalizing m with
  | nil => rfl
  | cons p r ih =>
    rw [List.foldlM_cons, mergeStep_ok m p (h p List.mem_cons_self)]
    exact ih _ (fun q hq => h q (List.mem_cons_of_mem _ hq))

theorem foldlM_mergeStep_err (ps : List GnuProperty) (m : List Entry)
    (h : ∃ p ∈ ps, getPropertyClass p.ptype = none) : ∃ t, ps.foldlM mergeStep m = .error t ∧ getPropertyClass t = none := by
  induction ps generalizing m with
  | nil => obtain ⟨p, hp, _⟩ := h; cases hp
  | cons p r ih =>
    rw [List.foldlM_cons]
    by_cases hc : getPropertyClass p.ptype = none
    · rw [mergeStep_err m p hc]; exact ⟨p.ptype, rfl, hc⟩
    · rw [mergeStep_ok m p hc]
      obtain ⟨q, hq, hqc⟩ := h
      rcases List.mem_cons.mp hq with hq | hq
      · subst hq; exact absurd hqc hc
      · exact ih _ ⟨q, hq, hqc⟩

def accT (t : Nat) (o : Option Entry) (v : BitVec 32) : Option Entry :=
  match o with
  | none => some ⟨t, v, clsOf t⟩
  | some e => some { e with val := opC (clsOf t) e.val v }

theorem valsOf_cons (t : Nat) (p : GnuProperty) (ps : List GnuProperty) :
    valsOf t (p :: ps) = if p.ptype = t then p.data :: valsOf t ps else valsOf t ps := by
  by_cases h : p.ptype = t <;> simp [valsOf, h]

theorem findE_foldl_stepP (ps : List GnuProperty) (m : List Entry) (t : Nat) :
    findE (ps.foldl stepP m) t = (valsOf t ps).foldl (accT t) (findE m t) := by
  induction ps generalizing m with
  | nil => rfl
  | cons p r ih =>
    rw [List.foldl_cons, ih, valsOf_cons]
    rw [show findE (stepP m p) t = _ from
      findE_upsert m p.ptype (fun e => { e with val := opC (clsOf p.ptype) e.val p.data })
        ⟨p.ptype, p.data, clsOf p.ptype⟩ t (fun _ => rfl) rfl]
    by_cases h : p.ptype = t
    · subst h
      simp only [if_true, List.foldl_cons]
      congr 1
      cases findE m p.ptype <;> rfl
    · have : ¬ t = p.ptype := fun e => h e.symm
      simp only [h, this, if_false]

theorem foldl_accT_some (t : Nat) (vs : List (BitVec 32)) (e : Entry) :
    vs.foldl (accT t) (some e) = some { e with val := vs.foldl (opC (clsOf t)) e.val } := by
  induction vs generalizing e with
  | nil => rfl
  | cons v r ih => rw [List.foldl_cons, List.foldl_cons]; exact ih _

theorem findE_merged (ps : List GnuProperty) (t : Nat) :
    findE (ps.foldl stepP []) t =
      match valsOf t ps with
      | [] => none
      | v :: vs => some ⟨t, vs.foldl (opC (clsOf t)) v, clsOf t⟩ := by
  rw [findE_foldl_stepP]
  cases valsOf t ps with
  | nil => rfl
  | cons v vs => rw [List.foldl_cons]; exact foldl_accT_some t vs _

theorem nodup_foldl_stepP (ps : List GnuProperty) (m : List Entry) (h : (ekeys m).Nodup) :
    (ekeys (ps.foldl stepP m)).Nodup := by
  induction ps generalizing m with
  | nil => exact h
  | cons p r ih =>
    rw [List.foldl_cons]
    exact ih _ (nodup_upsert m p.ptype (fun e => { e with val := opC (clsOf p.ptype) e.val p.data })
        ⟨p.ptype, p.data, clsOf p.ptype⟩ (fun _ => rfl) rfl h)


/-! ## From the flattened per-file lists back to the inputs -/

def presentVals (inputs : List (List RawProp)) (t : Nat) : List (BitVec 32) :=
  inputs.flatMap fun raw => if hasProp raw t then [inputBits raw t] else []

theorem valsOf_flat (inputs : List (List RawProp)) (t : Nat) :
    valsOf t (inputs.map processNoteSection).flatten = presentVals inputs t := by
  induction inputs with
  | nil => rfl
  | cons raw r ih =>
    rw [List.map_cons, List.flatten_cons, valsOf_append, ih, valsOf_nodup _ _ (nodup_processNoteSection raw),
      lookup_processNoteSection]
    unfold presentVals
    rw [List.flatMap_cons]
    split <;> rfl

theorem presentInAll_eq (inputs : List (List RawProp)) (t : Nat) :
    typePresentInAll (inputs.map processNoteSection) t = inputs.all (hasProp · t) := by
  unfold typePresentInAll
  rw [List.all_map]
  congr 1
  funext raw
  simp only [Function.comp]
  rw [any_ptype_iff, lookup_processNoteSection]
  split <;> simp_all

theorem inputBits_of_not_has (raw : List RawProp) (t : Nat) (h : hasProp raw t = false) : inputBits raw t = 0 := by
  unfold inputBits
  rw [hasProp_false_filter raw t h]
  rfl

theorem foldl_and (vs : List (BitVec 32)) (v : BitVec 32) :
    vs.foldl (fun a b => a &&& b) v = v &&& vs.foldr (fun a b => a &&& b) (BitVec.allOnes 32) := by
  induction vs generalizing v with
  | nil => rw [List.foldl_nil, List.foldr_nil, BitVec.and_allOnes]
  | cons x r ih => rw [List.foldl_cons, List.foldr_cons, ih, BitVec.and_assoc]

theorem foldl_or (vs : List (BitVec 32)) (v : BitVec 32) :
    vs.foldl (fun a b => a ||| b) v = v ||| vs.foldr (fun a b => a ||| b) 0 := by
  induction vs generalizing v with
  | nil => simp
  | cons x r ih => rw [List.foldl_cons, List.foldr_cons, ih, BitVec.or_assoc]

theorem orOver_eq (inputs : List (List RawProp)) (t : Nat) :
    orOver inputs t = (presentVals inputs t).foldr (fun a b => a ||| b) 0 := by
  induction inputs with
  | nil => rfl
  | cons raw r ih =>
    unfold orOver presentVals at *
    rw [List.foldr_cons, List.flatMap_cons, List.foldr_append, ← ih]
    by_cases h : hasProp raw t = true
    · simp [h]
    · have h' : hasProp raw t = false := by simpa using h
      simp [h', inputBits_of_not_has raw t h']

theorem andOver_all (inputs : List (List RawProp)) (t : Nat) (h : inputs.all (hasProp · t) = true) :
    andOver inputs t = (presentVals inputs t).foldr (fun a b => a &&& b) (BitVec.allOnes 32) := by
  induction inputs with
  | nil => rfl
  | cons raw r ih =>
    have h1 : hasProp raw t = true ∧ r.all (hasProp · t) = true := by simpa using h
    unfold andOver presentVals at *
    rw [List.foldr_cons, List.flatMap_cons, List.foldr_append, ← ih h1.2]
    simp [h1.1]

theorem andOver_missing (inputs : List (List RawProp)) (t : Nat) (h : inputs.all (hasProp · t) = false) :
    andOver inputs t = 0 := by
  induction inputs with
  | nil => simp at h
  | cons raw r ih =>
    unfold andOver at *
    rw [List.foldr_cons]
    by_cases h1 : hasProp raw t = true
    · have : r.all (hasProp · t) = false := by simpa [h1] using h
      rw [ih this]; simp
    · have h' : hasProp raw t = false := by simpa using h1
      rw [inputBits_of_not_has raw t h']; simp

theorem presentVals_ne_nil_iff (inputs : List (List RawProp)) (t : Nat) :
    presentVals inputs t ≠ [] ↔ ∃ raw ∈ inputs, hasProp raw t = true := by
  induction inputs with
  | nil => simp [presentVals]
  | cons raw r ih =>
    unfold presentVals at *
    rw [List.flatMap_cons]
    by_cases h : hasProp raw t = true
    · simp [h]
    · simp [h, ih]

/-! ## Sorting -/

theorem mem_insertType (t x : Nat) (l : List Nat) : x ∈ insertType t l ↔ x = t ∨ x ∈ l := by
  induction l with
  | nil => simp [insertType]
  | cons y r ih =>
    unfold insertType
    split
    · simp
    · split
      · rename_i h; subst h; simp
      · simp [ih]; grind

theorem sorted_insertType (t : Nat) (l : List Nat) (h : l.Pairwise (· < ·)) : (insertType t l).Pairwise (· < ·) := by
  induction l with
  | nil => simp [insertType]
  | cons y r ih =>
    unfold insertType
    rw [List.pairwise_cons] at h
    split
    · rename_i hlt
      rw [List.pairwise_cons]
      refine ⟨?_, List.pairwise_cons.mpr h⟩
      intro a ha
      rcases List.mem_cons.mp ha with ha | ha
      · subst ha; exact hlt
      · exact Nat.lt_trans hlt (h.1 a ha)
    · split
      · exact List.pairwise_cons.mpr h
      · rename_i h1 h2
        rw [List.pairwise_cons]
        refine ⟨?_, ih h.2⟩
        intro a ha
        rcases (mem_insertType t a r).mp ha with ha | ha
        · subst ha; omega
        · exact h.1 a ha

theorem mem_insertByKey (e x : Entry) (l : List Entry) : x ∈ insertByKey e l ↔ x = e ∨ x ∈ l := by
  induction l with
  | nil => simp [insertByKey]
  | cons y r ih =>
    unfold insertByKey
    split
    · simp
    · simp [ih]; grind

theorem sorted_insertByKey (e : Entry) (l : List Entry) (h : l.Pairwise (fun a b => a.key < b.key))
    (hn : ∀ x ∈ l, x.key ≠ e.key) : (insertByKey e l).Pairwise (fun a b => a.key < b.key) := by
  induction l with
  | nil => simp [insertByKey]
  | cons y r ih =>
    unfold insertByKey
    rw [List.pairwise_cons] at h
    have hy : y.key ≠ e.key := hn y List.mem_cons_self
    split
    · rename_i hle
      rw [List.pairwise_cons]
      refine ⟨?_, List.pairwise_cons.mpr h⟩
      intro a ha
      rcases List.mem_cons.mp ha with ha | ha
      · subst ha; omega
      · have := h.1 a ha; omega
    · rename_i hgt
      rw [List.pairwise_cons]
      refine ⟨?_, ih h.2 (fun x hx => hn x (List.mem_cons_of_mem _ hx))⟩
      intro a ha
      rcases (mem_insertByKey e a r).mp ha with ha | ha
      · subst ha; omega
      · exact h.1 a ha

theorem mem_sortByKey (m : List Entry) (x : Entry) : x ∈ sortByKey m ↔ x ∈ m := by
  induction m with
  | nil => simp [sortByKey]
  | cons e r ih =>
    unfold sortByKey at *
    rw [List.foldr_cons, mem_insertByKey, ih]; simp

theorem sorted_sortByKey (m : List Entry) (h : (ekeys m).Nodup) :
    (sortByKey m).Pairwise (fun a b => a.key < b.key) := by
  induction m with
  | nil => simp [sortByKey]
  | cons e r ih =>
    have hx : e.key ∉ ekeys r ∧ (ekeys r).Nodup := by simpa [ekeys] using h
    have := ih hx.2
    unfold sortByKey at *
    rw [List.foldr_cons]
    apply sorted_insertByKey _ _ this
    intro x hx' hk
    have : x ∈ r := (mem_sortByKey r x).mp hx'
    apply hx.1
    rw [← hk]
    simp only [ekeys, List.mem_map]
    exact ⟨x, this, rfl⟩

theorem sorted_ext (l1 l2 : List Nat) (h1 : l1.Pairwise (· < ·)) (h2 : l2.Pairwise (· < ·))
    (h : ∀ x, x ∈ l1 ↔ x ∈ l2) : l1 = l2 := by
  induction l1 generalizing l2 with
  | nil =>
    cases l2 with
    | nil => rfl
    | cons b r => exact absurd ((h b).mpr List.mem_cons_self) (by simp)
  | cons a r1 ih =>
    cases l2 with
    | nil => exact absurd ((h a).mp List.mem_cons_self) (by simp)
    | cons b r2 =>
      rw [List.pairwise_cons] at h1 h2
      have hab : a = b := by
        have ha := (h a).mp List.mem_cons_self
        have hb := (h b).mpr List.mem_cons_self
        rcases List.mem_cons.mp ha with ha | ha
        · exact ha
        · rcases List.mem_cons.mp hb with hb | hb
          · exact hb.symm
          · have := h1.1 b hb; have := h2.1 a ha; omega
      subst hab
      congr 1
      apply ih r2 h1.2 h2.2
      intro x
      constructor
      · intro hx
        have := (h x).mp (List.mem_cons_of_mem _ hx)
        rcases List.mem_cons.mp this with e | e
        · have := h1.1 x hx; omega
        · exact e
      · intro hx
        have := (h x).mpr (List.mem_cons_of_mem _ hx)
        rcases List.mem_cons.mp this with e | e
        · have := h2.1 x hx; omega
        · exact e

theorem mem_foldr_insertType (L : List Nat) (x : Nat) : x ∈ L.foldr insertType [] ↔ x ∈ L := by
  induction L with
  | nil => simp
  | cons a r ih => rw [List.foldr_cons, mem_insertType, ih]; simp

theorem sorted_foldr_insertType (L : List Nat) : (L.foldr insertType []).Pairwise (· < ·) := by
  induction L with
  | nil => simp
  | cons a r ih => rw [List.foldr_cons]; exact sorted_insertType _ _ ih


/-! ## Entry by entry -/

def baseVal (c : PClass) : List (BitVec 32) → BitVec 32
  | [] => 0
  | v0 :: vs => vs.foldl (opC c) v0

theorem opC_and : opC .and = fun a b => a &&& b := by funext a b; simp [opC]
theorem opC_or : opC .or = fun a b => a ||| b := by funext a b; simp [opC]
theorem opC_andOr : opC .andOr = fun a b => a ||| b := by funext a b; simp [opC]

theorem baseVal_and (pv : List (BitVec 32)) (h : pv ≠ []) :
    baseVal .and pv = pv.foldr (fun a b => a &&& b) (BitVec.allOnes 32) := by
  cases pv with
  | nil => exact absurd rfl h
  | cons v0 vs => simp only [baseVal, opC_and, foldl_and, List.foldr_cons]

theorem baseVal_or (pv : List (BitVec 32)) : baseVal .or pv = pv.foldr (fun a b => a ||| b) 0 := by
  cases pv with
  | nil => rfl
  | cons v0 vs => simp only [baseVal, opC_or, foldl_or, List.foldr_cons]

theorem baseVal_andOr (pv : List (BitVec 32)) : baseVal .andOr pv = pv.foldr (fun a b => a ||| b) 0 := by
  cases pv with
  | nil => rfl
  | cons v0 vs => simp only [baseVal, opC_andOr, foldl_or, List.foldr_cons]

theorem keepEntry_or (files : List (List GnuProperty)) (k : Nat) (v : BitVec 32) :
    keepEntry files ⟨k, v, .or⟩ = if v = 0 then none else some ⟨k, v⟩ := by
  by_cases h : v = 0 <;> simp [keepEntry, h]

theorem keepEntry_and (files : List (List GnuProperty)) (k : Nat) (v : BitVec 32) :
    keepEntry files ⟨k, v, .and⟩ = if typePresentInAll files k = true then (if v = 0 then none else some ⟨k, v⟩) else none := by
  by_cases h : v = 0 <;> by_cases h2 : typePresentInAll files k = true <;> simp [keepEntry, h, h2]

theorem keepEntry_andOr (files : List (List GnuProperty)) (k : Nat) (v : BitVec 32) :
    keepEntry files ⟨k, v, .andOr⟩ = if typePresentInAll files k = true then some ⟨k, v⟩ else none := by
  by_cases h2 : typePresentInAll files k = true <;> simp [keepEntry, h2]

theorem or_zero32 (x : BitVec 32) : x ||| 0 = x := by simp

theorem keep_spec (inputs : List (List RawProp)) (isa : Option (BitVec 32)) (t : Nat) (gc : GClass) (val : BitVec 32)
    (hgc : gnuClass t = some gc)
    (hval : val = baseVal (clsOf t) (presentVals inputs t) ||| isaBits isa t)
    (hx : gc ≠ .or → isaBits isa t = 0)
    (hpv : gc ≠ .or → presentVals inputs t ≠ []) :
    keepEntry (inputs.map processNoteSection) ⟨t, val, clsOf t⟩ = (gnuValue inputs isa t).map (fun v => ⟨t, v⟩) := by
  have hcls : clsOf t = convClass gc := by unfold clsOf; rw [class_eq_gnu, hgc]; rfl
  unfold gnuValue
  rw [hgc]
  cases gc with
  | and =>
    have hx0 := hx (by decide)
    have hne := hpv (by decide)
    rw [hcls] at hval ⊢
    simp only [convClass] at hval ⊢
    rw [baseVal_and _ hne, hx0, or_zero32] at hval
    rw [keepEntry_and, presentInAll_eq]
    by_cases hall : inputs.all (hasProp · t) = true
    · rw [andOver_all inputs t hall, ← hval]
      simp only [hall, if_true]
      split <;> rfl
    · have hall' : inputs.all (hasProp · t) = false := by simpa using hall
      rw [andOver_missing inputs t hall']
      simp [hall']
  | or =>
    rw [hcls] at hval ⊢
    simp only [convClass] at hval ⊢
    rw [baseVal_or, ← orOver_eq] at hval
    rw [keepEntry_or, ← hval]
    split <;> rfl
  | orAnd =>
    have hx0 := hx (by decide)
    rw [hcls] at hval ⊢
    simp only [convClass] at hval ⊢
    rw [baseVal_andOr, ← orOver_eq, hx0, or_zero32] at hval
    rw [keepEntry_andOr, presentInAll_eq, ← hval]
    split <;> rfl

/-! ## The whole merge -/

/-- Every UINT32 property of every input has a type GNU ld (and wild) can classify. -/
def Classified (inputs : List (List RawProp)) : Prop :=
  ∀ raw ∈ inputs, ∀ r ∈ raw, r.datasz = 4 → gnuClass r.ptype ≠ none

def flatOf (inputs : List (List RawProp)) : List GnuProperty := (inputs.map processNoteSection).flatten

def mapOf (inputs : List (List RawProp)) : List Entry := (flatOf inputs).foldl stepP []

theorem findE_mapOf (inputs : List (List RawProp)) (t : Nat) :
    findE (mapOf inputs) t =
      match presentVals inputs t with
      | [] => none
      | v0 :: vs => some ⟨t, vs.foldl (opC (clsOf t)) v0, clsOf t⟩ := by
  unfold mapOf flatOf
  rw [findE_merged, valsOf_flat]

theorem nodup_mapOf (inputs : List (List RawProp)) : (ekeys (mapOf inputs)).Nodup :=
  nodup_foldl_stepP _ [] (by simp [ekeys])

theorem findE_mergeIsa_some (m : List Entry) (v : BitVec 32) (t : Nat) :
    findE (mergeIsa m (some v)) t =
      if t = GNU_PROPERTY_X86_ISA_1_NEEDED then
        some (match findE m GNU_PROPERTY_X86_ISA_1_NEEDED with
          | some e => { e with val := e.val ||| v }
          | none => ⟨GNU_PROPERTY_X86_ISA_1_NEEDED, 0 ||| v, .or⟩)
      else findE m t :=
  findE_upsert m GNU_PROPERTY_X86_ISA_1_NEEDED (fun e => { e with val := e.val ||| v })
    ⟨GNU_PROPERTY_X86_ISA_1_NEEDED, 0 ||| v, .or⟩ t (fun _ => rfl) rfl

theorem nodup_mergeIsa (m : List Entry) (isa : Option (BitVec 32)) (h : (ekeys m).Nodup) :
    (ekeys (mergeIsa m isa)).Nodup := by
  cases isa with
  | none => exact h
  | some v =>
    exact nodup_upsert m GNU_PROPERTY_X86_ISA_1_NEEDED (fun e => { e with val := e.val ||| v })
      ⟨GNU_PROPERTY_X86_ISA_1_NEEDED, 0 ||| v, .or⟩ (fun _ => rfl) rfl h

theorem has_classified (inputs : List (List RawProp)) (H : Classified inputs) (t : Nat)
    (h : presentVals inputs t ≠ []) : gnuClass t ≠ none := by
  obtain ⟨raw, hraw, hh⟩ := (presentVals_ne_nil_iff inputs t).mp h
  unfold hasProp at hh
  obtain ⟨r, hr, hp⟩ := List.any_eq_true.mp hh
  have hp' : r.ptype = t ∧ r.datasz = 4 := by simpa using hp
  rw [← hp'.1]
  exact H raw hraw r hr hp'.2

theorem isa_class : gnuClass GNU_PROPERTY_X86_ISA_1_NEEDED = some .or := by decide
theorem isa_clsOf : clsOf GNU_PROPERTY_X86_ISA_1_NEEDED = .or := by decide

theorem entry_spec (inputs : List (List RawProp)) (isa : Option (BitVec 32)) (H : Classified inputs) (e : Entry)
    (he : e ∈ mergeIsa (mapOf inputs) isa) :
    keepEntry (inputs.map processNoteSection) e = (gnuValue inputs isa e.key).map (fun v => ⟨e.key, v⟩) := by
  have hf := findE_of_mem _ e (nodup_mergeIsa _ isa (nodup_mapOf inputs)) he
  -- the part shared by "no -z isa" and "another type than ISA_1_NEEDED"
  have plain : isaBits isa e.key = 0 → findE (mapOf inputs) e.key = some e →
      keepEntry (inputs.map processNoteSection) e = (gnuValue inputs isa e.key).map (fun v => ⟨e.key, v⟩) := by
    intro hx0 hfe
    rw [findE_mapOf] at hfe
    cases hpv : presentVals inputs e.key with
    | nil => rw [hpv] at hfe; cases hfe
    | cons v0 vs =>
      rw [hpv] at hfe
      have hne : presentVals inputs e.key ≠ [] := by rw [hpv]; simp
      cases hgc : gnuClass e.key with
      | none => exact absurd hgc (has_classified inputs H e.key hne)
      | some gc =>
        have he' : e = ⟨e.key, vs.foldl (opC (clsOf e.key)) v0, clsOf e.key⟩ := (Option.some.inj hfe).symm
        rw [he']
        apply keep_spec inputs isa e.key gc _ hgc
        · rw [hpv, hx0, or_zero32]; rfl
        · intro _; exact hx0
        · intro _; exact hne
  cases isa with
  | none => exact plain (by simp [isaBits]) hf
  | some v =>
    rw [findE_mergeIsa_some] at hf
    by_cases ht : e.key = GNU_PROPERTY_X86_ISA_1_NEEDED
    · rw [if_pos ht] at hf
      have hib : isaBits (some v) e.key = v := by
        simp [isaBits, ht, GNU_PROPERTY_X86_ISA_1_NEEDED]
      rw [findE_mapOf] at hf
      have he' : e = ⟨e.key, baseVal (clsOf e.key) (presentVals inputs e.key) ||| v, clsOf e.key⟩ := by
        rw [ht, isa_clsOf]
        cases hpv : presentVals inputs GNU_PROPERTY_X86_ISA_1_NEEDED with
        | nil => rw [hpv] at hf; exact (Option.some.inj hf).symm
        | cons v0 vs =>
          rw [hpv, isa_clsOf] at hf
          exact (Option.some.inj hf).symm
      rw [he']
      apply keep_spec inputs (some v) e.key .or _ (ht ▸ isa_class)
      · rw [hib]
      · intro h; exact absurd rfl h
      · intro h; exact absurd rfl h
    · rw [if_neg ht] at hf
      exact plain (by simp [isaBits, GNU_PROPERTY_X86_ISA_1_NEEDED] at ht ⊢; exact fun h => absurd h ht) hf


/-! ## Key sets -/

theorem lookup_isSome_of_mem (l : List GnuProperty) (p : GnuProperty) (h : p ∈ l) : (lookup l p.ptype).isSome = true := by
  induction l with
  | nil => cases h
  | cons e r ih =>
    by_cases he : e.ptype = p.ptype
    · simp [lookup, he]
    · rcases List.mem_cons.mp h with h | h
      · subst h; exact absurd rfl he
      · simp [lookup, he, ih h]

theorem mem_of_lookup_isSome (l : List GnuProperty) (t : Nat) (h : (lookup l t).isSome = true) : ∃ p ∈ l, p.ptype = t := by
  induction l with
  | nil => simp [lookup] at h
  | cons e r ih =>
    by_cases he : e.ptype = t
    · exact ⟨e, List.mem_cons_self, he⟩
    · simp only [lookup, he, if_false] at h
      obtain ⟨p, hp, hpt⟩ := ih h
      exact ⟨p, List.mem_cons_of_mem _ hp, hpt⟩

theorem hasProp_iff (raw : List RawProp) (t : Nat) :
    hasProp raw t = true ↔ ∃ r ∈ raw, r.ptype = t ∧ r.datasz = 4 := by
  unfold hasProp
  rw [List.any_eq_true]
  constructor
  · rintro ⟨r, hr, hp⟩; exact ⟨r, hr, by simpa using hp⟩
  · rintro ⟨r, hr, hp⟩; exact ⟨r, hr, by simpa using hp⟩

theorem lookup_pns_isSome (raw : List RawProp) (t : Nat) :
    (lookup (processNoteSection raw) t).isSome = hasProp raw t := by
  rw [lookup_processNoteSection]; split <;> simp_all

theorem flat_classified (inputs : List (List RawProp)) (H : Classified inputs) :
    ∀ p ∈ flatOf inputs, getPropertyClass p.ptype ≠ none := by
  intro p hp
  unfold flatOf at hp
  obtain ⟨f, hf, hpf⟩ := List.mem_flatten.mp hp
  obtain ⟨raw, hraw, rfl⟩ := List.mem_map.mp hf
  have h1 := lookup_isSome_of_mem _ p hpf
  rw [lookup_pns_isSome] at h1
  obtain ⟨r, hr, hrt, hr4⟩ := (hasProp_iff raw p.ptype).mp h1
  have := H raw hraw r hr hr4
  rw [hrt] at this
  rw [class_eq_gnu]
  intro hn
  apply this
  cases hg : gnuClass p.ptype with
  | none => rfl
  | some c => rw [hg] at hn; cases hn

theorem flat_unclassified (inputs : List (List RawProp)) (H : ¬ Classified inputs) :
    ∃ p ∈ flatOf inputs, getPropertyClass p.ptype = none := by
  unfold Classified at H
  have : ∃ raw ∈ inputs, ∃ r ∈ raw, r.datasz = 4 ∧ gnuClass r.ptype = none := by
    apply Classical.byContradiction
    intro hc
    apply H
    intro raw hraw r hr h4 hg
    exact hc ⟨raw, hraw, r, hr, h4, hg⟩
  obtain ⟨raw, hraw, r, hr, h4, hg⟩ := this
  have hh : hasProp raw r.ptype = true := (hasProp_iff raw r.ptype).mpr ⟨r, hr, rfl, h4⟩
  rw [← lookup_pns_isSome] at hh
  obtain ⟨p, hp, hpt⟩ := mem_of_lookup_isSome _ _ hh
  refine ⟨p, ?_, ?_⟩
  · unfold flatOf
    exact List.mem_flatten.mpr ⟨_, List.mem_map.mpr ⟨raw, hraw, rfl⟩, hp⟩
  · rw [hpt, class_eq_gnu, hg]; rfl

theorem mergeFiles_eq (inputs : List (List RawProp)) :
    mergeFiles (inputs.map processNoteSection) = (flatOf inputs).foldlM mergeStep [] := by
  unfold mergeFiles flatOf
  exact mergeFiles_flat _ []

theorem mem_ekeys_final (inputs : List (List RawProp)) (isa : Option (BitVec 32)) (t : Nat) :
    t ∈ ekeys (mergeIsa (mapOf inputs) isa) ↔
      presentVals inputs t ≠ [] ∨ (isa.isSome = true ∧ t = GNU_PROPERTY_X86_ISA_1_NEEDED) := by
  rw [mem_ekeys_iff]
  have hm : (findE (mapOf inputs) t).isSome = true ↔ presentVals inputs t ≠ [] := by
    rw [findE_mapOf]
    cases presentVals inputs t <;> simp
  cases isa with
  | none => simp only [mergeIsa]; rw [hm]; simp
  | some v =>
    rw [findE_mergeIsa_some]
    by_cases ht : t = GNU_PROPERTY_X86_ISA_1_NEEDED
    · simp [ht]
    · simp only [ht, if_false]; rw [hm]; simp

theorem mem_typeList_iff (inputs : List (List RawProp)) (isa : Option (BitVec 32)) (t : Nat) :
    t ∈ typeList inputs isa ↔
      presentVals inputs t ≠ [] ∨ (isa.isSome = true ∧ t = GNU_PROPERTY_X86_ISA_1_NEEDED) := by
  unfold typeList
  rw [mem_foldr_insertType, List.mem_append, presentVals_ne_nil_iff]
  apply or_congr
  · simp only [List.mem_map, List.mem_filter, List.mem_flatten, decide_eq_true_eq]
    constructor
    · rintro ⟨r, ⟨⟨raw, hraw, hr⟩, h4⟩, ht⟩
      exact ⟨raw, hraw, (hasProp_iff raw t).mpr ⟨r, hr, ht, h4⟩⟩
    · rintro ⟨raw, hraw, hh⟩
      obtain ⟨r, hr, ht, h4⟩ := (hasProp_iff raw t).mp hh
      exact ⟨r, ⟨⟨raw, hraw, hr⟩, h4⟩, ht⟩
  · cases isa <;> simp [GNU_PROPERTY_X86_ISA_1_NEEDED]

theorem keys_sorted_eq (inputs : List (List RawProp)) (isa : Option (BitVec 32)) :
    (sortByKey (mergeIsa (mapOf inputs) isa)).map Entry.key = typeList inputs isa := by
  apply sorted_ext
  · rw [List.pairwise_map]
    exact sorted_sortByKey _ (nodup_mergeIsa _ isa (nodup_mapOf inputs))
  · exact sorted_foldr_insertType _
  · intro x
    rw [mem_typeList_iff, ← mem_ekeys_final]
    simp only [ekeys, List.mem_map, mem_sortByKey]

/-! ## Main theorems -/

theorem filterMap_congr' {α β : Type} {f g : α → Option β} (l : List α) (h : ∀ x ∈ l, f x = g x) :
    l.filterMap f = l.filterMap g := by
  induction l with
  | nil => rfl
  | cons a r ih =>
    rw [List.filterMap_cons, List.filterMap_cons, h a List.mem_cons_self,
      ih (fun x hx => h x (List.mem_cons_of_mem _ hx))]


/-- **wild = GNU ld on every input set whose UINT32 properties have classifiable types** (for such inputs
GNU ld neither warns nor fails).  The excluded region is exactly where wild stops with
`unclassified property type` (`props_error_iff`); GNU ld 2.40 links those inputs (known finding
`props:unclassified-type-error`). -/
theorem props_and_or_spec_partial (inputs : List (List RawProp)) (isa : Option (BitVec 32)) (H : Classified inputs) :
    linkProps inputs isa = .ok (gnuProps inputs isa) := by
  unfold linkProps mergeGnuPropertyNotes
  rw [mergeFiles_eq, foldlM_mergeStep_ok _ _ (flat_classified inputs H)]
  show Except.ok ((sortByKey (mergeIsa (mapOf inputs) isa)).filterMap (keepEntry (inputs.map processNoteSection))) = _
  congr 1
  unfold gnuProps
  rw [← keys_sorted_eq, List.filterMap_map]
  apply filterMap_congr'
  intro e he
  show _ = (gnuValue inputs isa e.key).map (fun v => (⟨e.key, v⟩ : GnuProperty))
  exact entry_spec inputs isa H e ((mem_sortByKey _ e).mp he)

/-- wild fails exactly on the excluded region. -/
theorem props_error_iff (inputs : List (List RawProp)) (isa : Option (BitVec 32)) :
    (∃ t, linkProps inputs isa = .error t) ↔ ∃ raw ∈ inputs, ∃ r ∈ raw, r.datasz = 4 ∧ gnuClass r.ptype = none := by
  constructor
  · rintro ⟨t, ht⟩
    apply Classical.byContradiction
    intro hc
    have H : Classified inputs := by
      intro raw hraw r hr h4 hg
      exact hc ⟨raw, hraw, r, hr, h4, hg⟩
    rw [props_and_or_spec_partial inputs isa H] at ht
    cases ht
  · rintro ⟨raw, hraw, r, hr, h4, hg⟩
    have H : ¬ Classified inputs := fun H => H raw hraw r hr h4 hg
    obtain ⟨t, ht, _⟩ := foldlM_mergeStep_err (flatOf inputs) [] (flat_unclassified inputs H)
    refine ⟨t, ?_⟩
    unfold linkProps mergeGnuPropertyNotes
    rw [mergeFiles_eq, ht]

def C36_props_full : Prop :=
  ∀ (inputs : List (List RawProp)) (isa : Option (BitVec 32)), linkProps inputs isa = .ok (gnuProps inputs isa)

/-- A 4-byte property of type 3 (no class): wild stops, GNU ld links. -/
theorem props_full_witness : ¬ C36_props_full := by
  intro h
  have := h [[⟨3, 4, 1⟩]] none
  have e : linkProps [[⟨3, 4, 1⟩]] none = .error 3 := rfl
  rw [e] at this
  cases this


/-! ## Order of the inputs -/

theorem classified_perm {inputs inputs' : List (List RawProp)} (h : inputs.Perm inputs') :
    Classified inputs ↔ Classified inputs' := by
  unfold Classified
  constructor
  · intro H raw hraw; exact H raw (h.mem_iff.mpr hraw)
  · intro H raw hraw; exact H raw (h.mem_iff.mp hraw)

theorem andOver_perm {inputs inputs' : List (List RawProp)} (h : inputs.Perm inputs') (t : Nat) :
    andOver inputs t = andOver inputs' t := by
  unfold andOver
  apply h.foldr_eq'
  intro x _ y _ z
  rw [← BitVec.and_assoc, ← BitVec.and_assoc, BitVec.and_comm (inputBits y t)]

theorem orOver_perm {inputs inputs' : List (List RawProp)} (h : inputs.Perm inputs') (t : Nat) :
    orOver inputs t = orOver inputs' t := by
  unfold orOver
  apply h.foldr_eq'
  intro x _ y _ z
  rw [← BitVec.or_assoc, ← BitVec.or_assoc, BitVec.or_comm (inputBits y t)]

theorem all_perm {α : Type} {l l' : List α} (h : l.Perm l') (p : α → Bool) : l.all p = l'.all p := by
  rw [Bool.eq_iff_iff, List.all_eq_true, List.all_eq_true]
  constructor
  · intro H x hx; exact H x (h.mem_iff.mpr hx)
  · intro H x hx; exact H x (h.mem_iff.mp hx)

theorem gnuValue_perm {inputs inputs' : List (List RawProp)} (h : inputs.Perm inputs') (isa : Option (BitVec 32)) (t : Nat) :
    gnuValue inputs isa t = gnuValue inputs' isa t := by
  unfold gnuValue
  rw [andOver_perm h, orOver_perm h, all_perm h]

theorem typeList_perm {inputs inputs' : List (List RawProp)} (h : inputs.Perm inputs') (isa : Option (BitVec 32)) :
    typeList inputs isa = typeList inputs' isa := by
  apply sorted_ext (typeList inputs isa) (typeList inputs' isa) (sorted_foldr_insertType _) (sorted_foldr_insertType _)
  intro x
  rw [mem_typeList_iff, mem_typeList_iff, presentVals_ne_nil_iff, presentVals_ne_nil_iff]
  apply or_congr _ Iff.rfl
  constructor
  · rintro ⟨raw, hraw, hh⟩; exact ⟨raw, h.mem_iff.mp hraw, hh⟩
  · rintro ⟨raw, hraw, hh⟩; exact ⟨raw, h.mem_iff.mpr hraw, hh⟩

/-- GNU ld's result does not depend on the order of the inputs. -/
theorem gnuProps_order_free {inputs inputs' : List (List RawProp)} (h : inputs.Perm inputs') (isa : Option (BitVec 32)) :
    gnuProps inputs isa = gnuProps inputs' isa := by
  unfold gnuProps
  rw [typeList_perm h]
  apply filterMap_congr'
  intro t _
  rw [gnuValue_perm h]

/-- **The model's result does not depend on the order of the inputs**: a permuted input list gives the same
output note, and fails iff the original fails.  (Only the type named in the error message can differ: it is
the first unclassified one in command-line order, see `props_error_payload_order_witness`.) -/
theorem props_order_free {inputs inputs' : List (List RawProp)} (h : inputs.Perm inputs') (isa : Option (BitVec 32)) :
    (linkProps inputs isa).toOption = (linkProps inputs' isa).toOption := by
  by_cases H : Classified inputs
  · rw [props_and_or_spec_partial inputs isa H, props_and_or_spec_partial inputs' isa ((classified_perm h).mp H),
      gnuProps_order_free h]
  · have H' : ¬ Classified inputs' := fun H' => H ((classified_perm h).mpr H')
    have e1 : ∃ t, linkProps inputs isa = .error t := by
      obtain ⟨t, ht, _⟩ := foldlM_mergeStep_err (flatOf inputs) [] (flat_unclassified inputs H)
      exact ⟨t, by unfold linkProps mergeGnuPropertyNotes; rw [mergeFiles_eq, ht]⟩
    have e2 : ∃ t, linkProps inputs' isa = .error t := by
      obtain ⟨t, ht, _⟩ := foldlM_mergeStep_err (flatOf inputs') [] (flat_unclassified inputs' H')
      exact ⟨t, by unfold linkProps mergeGnuPropertyNotes; rw [mergeFiles_eq, ht]⟩
    obtain ⟨t1, e1⟩ := e1
    obtain ⟨t2, e2⟩ := e2
    rw [e1, e2]; rfl

theorem props_error_payload_order_witness :
    linkProps [[⟨3, 4, 1⟩], [⟨5, 4, 1⟩]] none = .error 3 ∧ linkProps [[⟨5, 4, 1⟩], [⟨3, 4, 1⟩]] none = .error 5 :=
  ⟨rfl, rfl⟩

/-! ## Non-vacuity and concrete instances (cf. the experiments with GNU ld 2.40 in scratch/c36/REPORT.md) -/

def ibtShstk : RawProp := ⟨0xc0000002, 4, 3⟩
def ibtOnly : RawProp := ⟨0xc0000002, 4, 1⟩

example : Classified [[ibtShstk, ⟨0xc0008002, 4, 1⟩], [ibtOnly], []] := by
  intro raw hraw r hr _
  simp only [List.mem_cons, List.mem_nil_iff, or_false] at hraw
  rcases hraw with rfl | rfl | rfl
  · simp only [List.mem_cons, List.mem_nil_iff, or_false] at hr
    rcases hr with rfl | rfl <;> decide
  · simp only [List.mem_cons, List.mem_nil_iff, or_false] at hr
    rcases hr with rfl; decide
  · cases hr

-- IBT|SHSTK & IBT = IBT
example : linkProps [[ibtShstk], [ibtOnly]] none = .ok [⟨0xc0000002, 1⟩] := rfl
example : gnuProps [[ibtShstk], [ibtOnly]] none = [⟨0xc0000002, 1⟩] := by decide
-- an input without the property removes the AND-class property, keeps OR-class, removes OR_AND-class
example : gnuProps [[ibtShstk, ⟨0xc0008002, 4, 1⟩, ⟨0xc0010002, 4, 1⟩], []] none = [⟨0xc0008002, 1⟩] := by decide
-- OR_AND class keeps an all-zero value
example : gnuProps [[⟨0xc0010002, 4, 0⟩], [⟨0xc0010002, 4, 0⟩]] none = [⟨0xc0010002, 0⟩] := by decide
-- duplicates inside one input are OR-ed first
example : gnuProps [[⟨0xc0000002, 4, 1⟩, ⟨0xc0000002, 4, 2⟩], [ibtShstk]] none = [⟨0xc0000002, 3⟩] := by decide
example : linkProps [[⟨0xc0000002, 4, 1⟩, ⟨0xc0000002, 4, 2⟩], [ibtShstk]] none = .ok [⟨0xc0000002, 3⟩] := rfl
-- -z x86-64-v3
example : gnuProps [[], []] (some 4) = [⟨0xc0008002, 4⟩] := by decide
example : List.Perm [[ibtShstk], [ibtOnly], []] [[], [ibtShstk], [ibtOnly]] := by decide



/-! ## Stack -/

def wildStackExec (notes : List StackNote) (z : Option Bool) : Option Bool :=
  match wildStack notes z with
  | .ok f => some (f &&& 1 = 1)
  | .error _ => none

def C36_stack_full : Prop :=
  ∀ (notes : List StackNote) (z : Option Bool), wildStackExec notes z = some (gnuStackExec notes z)

def stackRegion (notes : List StackNote) (z : Option Bool) : Prop :=
  z = some true ∨ (z = some false ∧ ∀ n ∈ notes, n ≠ .exec) ∨
  (z = none ∧ ((∀ n ∈ notes, n = .noexec) ∨ (∀ n ∈ notes, n = .missing)))

theorem validateInput_true (n : StackNote) : validateInput true n = Except.ok () := by
  cases n <;> rfl

theorem validateInput_false (n : StackNote) :
    validateInput false n = if n = .exec then Except.error () else Except.ok () := by
  cases n <;> rfl

theorem validate_ok_of_true (notes : List StackNote) (u : Unit) :
    notes.foldlM (fun _ n => validateInput true n) u = Except.ok () := by
  induction notes generalizing u with
  | nil => rfl
  | cons n r ih =>
    rw [List.foldlM_cons, validateInput_true]
    exact ih ()

theorem validate_ok_of_noexec (notes : List StackNote) (u : Unit) (h : ∀ n ∈ notes, n ≠ .exec) :
    notes.foldlM (fun _ n => validateInput false n) u = Except.ok () := by
  induction notes generalizing u with
  | nil => rfl
  | cons n r ih =>
    have hr : ∀ n ∈ r, n ≠ .exec := fun n hn => h n (List.mem_cons_of_mem _ hn)
    have hn : n ≠ .exec := h n (List.mem_cons_self)
    rw [List.foldlM_cons, validateInput_false, if_neg hn]
    exact ih () hr

theorem validate_err_of_exec (notes : List StackNote) (u : Unit) (h : .exec ∈ notes) :
    notes.foldlM (fun _ n => validateInput false n) u = Except.error () := by
  induction notes generalizing u with
  | nil => cases h
  | cons n r ih =>
    rw [List.foldlM_cons, validateInput_false]
    by_cases hn : n = .exec
    · rw [if_pos hn]; rfl
    · rw [if_neg hn]
      have : StackNote.exec ∈ r := by
        rcases List.mem_cons.mp h with h | h
        · exact absurd h.symm hn
        · exact h
      exact ih () this

/-- wild fails exactly when some input has an executable note and `-z execstack` is not in force. -/
theorem wildStack_error_iff (notes : List StackNote) (z : Option Bool) :
    wildStack notes z = .error () ↔ (.exec ∈ notes ∧ z ≠ some true) := by
  unfold wildStack execstackArg
  rcases z with _ | _ | _
  · by_cases h : StackNote.exec ∈ notes
    · simp [validate_err_of_exec notes () h, h]
    · have : ∀ n ∈ notes, n ≠ .exec := fun n hn he => h (he ▸ hn)
      simp [validate_ok_of_noexec notes () this, h]
  · by_cases h : StackNote.exec ∈ notes
    · simp [validate_err_of_exec notes () h, h]
    · have : ∀ n ∈ notes, n ≠ .exec := fun n hn he => h (he ▸ hn)
      simp [validate_ok_of_noexec notes () this, h]
  · simp [validate_ok_of_true]

theorem wildStack_ok (notes : List StackNote) (z : Option Bool) (h : ¬ (.exec ∈ notes ∧ z ≠ some true)) :
    wildStack notes z = .ok (stackFlags (execstackArg z)) := by
  have hne : ¬ wildStack notes z = .error () := fun e => h ((wildStack_error_iff notes z).mp e)
  dsimp only [wildStack] at hne ⊢
  cases hf : List.foldlM (fun _ n => validateInput (execstackArg z) n) () notes with
  | error e => rw [hf] at hne; exact absurd rfl hne
  | ok u => rfl

theorem stackFlags_x (x : Bool) : (stackFlags x &&& 1 = 1) = (x = true) := by
  cases x <;> decide

/-- On the region where wild agrees with GNU ld (all inputs carry a non-executable note, or no input carries
any, or `-z execstack`, or `-z noexecstack` without an executable note) the link succeeds and the stack of
wild's output is executable exactly when GNU ld's is.  Excluded: some-but-not-all inputs lack the note and no
flag (GNU: RWE, wild: RW); an executable note without `-z execstack` (wild: error). -/
theorem stack_eq_gnu_partial (notes : List StackNote) (z : Option Bool) (h : stackRegion notes z) :
    wildStackExec notes z = some (gnuStackExec notes z) := by
  have hne : ¬ (StackNote.exec ∈ notes ∧ z ≠ some true) := by
    rintro ⟨hx, hz⟩
    rcases h with h | ⟨_, h⟩ | ⟨_, h | h⟩
    · exact hz h
    · exact h _ hx rfl
    · exact absurd (h _ hx) (by decide)
    · exact absurd (h _ hx) (by decide)
  unfold wildStackExec
  rw [wildStack_ok notes z hne]
  simp only [stackFlags_x]
  rcases h with h | ⟨h, _⟩ | ⟨hz, h | h⟩
  · subst h; simp [execstackArg, gnuStackExec, gnuStack]
  · subst h; simp [execstackArg, gnuStackExec, gnuStack]
  · subst hz
    by_cases hm : notes.all (· = .missing)
    · simp [execstackArg, gnuStackExec, gnuStack, hm]
    · have h1 : notes.any (· = .exec) = false := by
        simp only [List.any_eq_false, decide_eq_true_eq]
        intro n hn; rw [h n hn]; decide
      have h2 : notes.any (· = .missing) = false := by
        simp only [List.any_eq_false, decide_eq_true_eq]
        intro n hn; rw [h n hn]; decide
      simp [execstackArg, gnuStackExec, gnuStack, hm, h1, h2]
  · subst hz
    have hm : notes.all (· = .missing) = true := by
      simp only [List.all_eq_true, decide_eq_true_eq]; exact h
    simp [execstackArg, gnuStackExec, gnuStack, hm]

/-- Region on which even the flags word and the presence of the header coincide. -/
theorem stack_flags_eq_gnu_partial (notes : List StackNote) (z : Option Bool)
    (h : z = some true ∨ (z = some false ∧ ∀ n ∈ notes, n ≠ .exec) ∨
         (z = none ∧ notes ≠ [] ∧ ∀ n ∈ notes, n = .noexec)) :
    (wildStack notes z).toOption = gnuStack notes z := by
  have hne : ¬ (StackNote.exec ∈ notes ∧ z ≠ some true) := by
    rintro ⟨hx, hz⟩
    rcases h with h | ⟨_, h⟩ | ⟨_, _, h⟩
    · exact hz h
    · exact h _ hx rfl
    · exact absurd (h _ hx) (by decide)
  rw [wildStack_ok notes z hne]
  rcases h with h | ⟨h, _⟩ | ⟨hz, hnn, h⟩
  · subst h; rfl
  · subst h; rfl
  · subst hz
    have hm : notes.all (· = .missing) = false := by
      cases notes with
      | nil => exact absurd rfl hnn
      | cons a r => simp [h a List.mem_cons_self]
    have h1 : notes.any (· = .exec) = false := by
      simp only [List.any_eq_false, decide_eq_true_eq]
      intro n hn; rw [h n hn]; decide
    have h2 : notes.any (· = .missing) = false := by
      simp only [List.any_eq_false, decide_eq_true_eq]
      intro n hn; rw [h n hn]; decide
    simp [execstackArg, gnuStack, hm, h1, h2, stackFlags, Except.toOption, PF_R, PF_W]

/-- Full statement fails: -/
theorem stack_full_witness : ¬ C36_stack_full := by
  intro h
  exact absurd (h [.noexec, .missing] none) (by decide)

/-- Deviation 1 (known finding `stack:missing-note-input`): one input without `.note.GNU-stack`, no flag. -/
theorem stack_missing_note_witness :
    wildStack [.noexec, .missing] none = .ok 6 ∧ gnuStack [.noexec, .missing] none = some 7 := ⟨rfl, rfl⟩

/-- Deviation 2 (known finding `stack:exec-note-without-flag`). -/
theorem stack_exec_note_witness :
    wildStack [.noexec, .exec] none = .error () ∧ gnuStack [.noexec, .exec] none = some 7 := ⟨rfl, rfl⟩

/-- Deviation 3 (known finding `stack:exec-note-with-noexecstack`): GNU ld lets `-z noexecstack` override. -/
theorem stack_exec_note_noexecstack_witness :
    wildStack [.exec] (some false) = .error () ∧ gnuStack [.exec] (some false) = some 6 := ⟨rfl, rfl⟩

/-- No input has a note and no flag: GNU ld emits no PT_GNU_STACK at all, wild emits RW; the executability is
the same (covered by `stack_eq_gnu_partial`), the presence of the header is not. -/
theorem stack_no_notes_presence_witness :
    wildStack [.missing] none = .ok 6 ∧ gnuStack [.missing] none = none ∧
    wildStackExec [.missing] none = some (gnuStackExec [.missing] none) := ⟨rfl, rfl, by decide⟩

example : stackRegion [.noexec, .noexec] none := by
  refine Or.inr (Or.inr ⟨rfl, Or.inl ?_⟩); intro n hn; simp at hn; exact hn
example : stackRegion [.exec, .missing] (some true) := Or.inl rfl
example : stackRegion [.noexec, .missing] (some false) := by
  refine Or.inr (Or.inl ⟨rfl, ?_⟩); intro n hn; simp at hn; rcases hn with h | h <;> simp [h]


end Wild.Notes
