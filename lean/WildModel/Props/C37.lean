import WildModel.Model.Needed
import WildModel.Props.C03
/-!
# C37 — DT_NEEDED lists exactly the required libraries

Spec (property text): DT_NEEDED names, in command-line order, every shared library linked without
`--as-needed` and every `--as-needed` library that satisfies a non-weak reference from the output,
and no others.

Proved about the model (for all link inputs):
* `needed_sorted_nodup`      : command-line order, no duplicates;
* `non_as_needed_listed`     : a library outside `--as-needed` is always listed;
* `as_needed_listed_iff`     : an `--as-needed` library is listed iff some loaded REGULAR object
  references non-weakly a name whose FIRST definition (command-line order) is in that library;
* `satisfies_implies_listed` : every library that satisfies a non-weak reference is listed
  (no required library is ever missing); the converse ("and no others") holds exactly when the
  first definition is also the one the reference finally binds to, see the witness;
* `as_needed_overridden_witness` : the full statement is false for the current code: a library
  whose definition comes first but is overridden by a later regular object's definition is still
  listed although it satisfies no reference (GNU ld and lld do not list it).
-/
namespace Wild.Link

theorem needed_sorted_nodup (fs : List File) :
    (neededLibs fs).Pairwise (· < ·) := by
  unfold neededLibs
  apply List.Pairwise.filter
  exact List.pairwise_lt_range

theorem mem_needed (fs : List File) (i : Nat) :
    i ∈ neededLibs fs ↔ ∃ f, fs[i]? = some f ∧ f.dynamic = true ∧ isLoaded fs i = true := by
  unfold neededLibs
  simp only [List.mem_filter, List.mem_range, Bool.and_eq_true]
  constructor
  · rintro ⟨hlt, hd, hl⟩
    have hf : fs[i]? = some fs[i] := List.getElem?_eq_getElem hlt
    rw [hf] at hd
    exact ⟨fs[i], hf, by simpa using hd, hl⟩
  · rintro ⟨f, hf, hd, hl⟩
    have hlt : i < fs.length := (List.getElem?_eq_some_iff.1 hf).1
    exact ⟨hlt, by simp [hf, hd], hl⟩

/-- A shared library outside `--as-needed` is always listed. -/
theorem non_as_needed_listed (fs : List File) (i : Nat) (f : File)
    (hf : fs[i]? = some f) (hd : f.dynamic = true) (hopt : f.optional = false) :
    i ∈ neededLibs fs :=
  (mem_needed fs i).2 ⟨f, hf, hd, (loaded_iff_reach fs i).2 (Reach.mandatory i f hf hopt)⟩

/-- **Exact characterisation of wild's behaviour.** An `--as-needed` library is listed iff a
loaded regular object references non-weakly a name whose first definition is in that library. -/
theorem as_needed_listed_iff (fs : List File) (d : Nat) (fd : File)
    (hfd : fs[d]? = some fd) (hdyn : fd.dynamic = true) (hopt : fd.optional = true) :
    d ∈ neededLibs fs ↔
      ∃ i f n, fs[i]? = some f ∧ isLoaded fs i = true ∧ f.dynamic = false ∧
        n ∈ f.strongUndefs ∧ firstDef fs n = some d := by
  rw [mem_needed]
  constructor
  · rintro ⟨f, hf, _, hl⟩
    have hr := (loaded_iff_reach fs d).1 hl
    cases hr with
    | mandatory _ f' hf' ho =>
      rw [hfd] at hf'; injection hf' with hf'; subst hf'
      rw [hopt] at ho; cases ho
    | request i _ hri hreq hlt =>
      obtain ⟨fi, n, hfi, hn, hfirst, hne, hnd⟩ := (mem_requestsOf fs i d).1 hreq
      refine ⟨i, fi, n, hfi, (loaded_iff_reach fs i).2 hri, ?_, hn, hfirst⟩
      by_cases h1 : fi.dynamic = true
      · exfalso; apply hnd; exact ⟨h1, by simp [hfd, hdyn]⟩
      · simpa using h1
  · rintro ⟨i, f, n, hf, hl, hnd, hn, hfirst⟩
    refine ⟨fd, hfd, hdyn, ?_⟩
    apply (loaded_iff_reach fs d).2
    have hlt : d < fs.length := (List.getElem?_eq_some_iff.1 hfd).1
    apply Reach.request i d ((loaded_iff_reach fs i).1 hl) _ hlt
    apply (mem_requestsOf fs i d).2
    refine ⟨f, n, hf, hn, hfirst, ?_, ?_⟩
    · intro h; subst h
      rw [hfd] at hf; injection hf with hf; subst hf
      rw [hdyn] at hnd; cases hnd
    · rintro ⟨h1, _⟩; rw [hnd] at h1; cases h1

/-- "Library `d` satisfies a non-weak reference from the output": some loaded regular object
references `n` non-weakly and `n` finally binds to the definition in `d`. -/
def Satisfies (am : Bool) (fs : List File) (d : Nat) : Prop :=
  isLoaded fs d = true ∧
  ∃ i f n, fs[i]? = some f ∧ isLoaded fs i = true ∧ f.dynamic = false ∧ n ∈ f.strongUndefs ∧
    resolveName am fs n = some (.chosen d)

/-- No required library is missing: a shared library that satisfies a reference is listed. -/
theorem satisfies_implies_listed (am : Bool) (fs : List File) (d : Nat) (fd : File)
    (hfd : fs[d]? = some fd) (hdyn : fd.dynamic = true) (h : Satisfies am fs d) :
    d ∈ neededLibs fs :=
  (mem_needed fs d).2 ⟨fd, hfd, hdyn, h.1⟩

/-- The full statement of the property for `--as-needed` libraries. -/
def C37_full : Prop :=
  ∀ (am : Bool) (fs : List File) (d : Nat) (fd : File), fs[d]? = some fd → fd.dynamic = true →
    fd.optional = true → (d ∈ neededLibs fs ↔ Satisfies am fs d)

def witnessFiles : List File :=
  [ { dynamic := false, optional := false, entries := [.undef 0 false] },          -- main.o: needs sym0
    { dynamic := true, optional := true, entries := [.defn 0 .strong false] },     -- --as-needed liba.so: defines sym0 (first)
    { dynamic := false, optional := false, entries := [.defn 0 .strong false] } ]  -- other.o: defines sym0 (wins)

/-- The current code lists `liba.so` although the reference binds to `other.o`. -/
theorem as_needed_overridden_witness :
    1 ∈ neededLibs witnessFiles ∧ resolveName false witnessFiles 0 = some (.chosen 2) := by
  decide

theorem C37_full_false : ¬ C37_full := by
  intro h
  have := (h false witnessFiles 1 _ rfl rfl rfl).1 as_needed_overridden_witness.1
  obtain ⟨_, i, f, n, hf, _, hnd, hn, hres⟩ := this
  -- only file 0 has undefined references, to name 0, which resolves to file 2
  have hi : i < 3 := (List.getElem?_eq_some_iff.1 hf).1
  have h0 : i = 0 ∨ i = 1 ∨ i = 2 := by omega
  rcases h0 with rfl | rfl | rfl
  · simp [witnessFiles] at hf; subst hf
    simp [File.strongUndefs] at hn; subst hn
    rw [as_needed_overridden_witness.2] at hres
    cases hres
  · simp [witnessFiles] at hf; subst hf; cases hnd
  · simp [witnessFiles] at hf; subst hf
    simp [File.strongUndefs] at hn

end Wild.Link
