import WildModel.Model.Needed
import WildModel.Props.C03
/-!
# C37 — DT_NEEDED lists exactly the required libraries

Spec (property text): DT_NEEDED names, in command-line order, every shared library linked without
`--as-needed` and every `--as-needed` library that satisfies a non-weak reference from the output,
and no others.

Proved about the model (for all link inputs):
* `needed_sorted_nodup`      : command-line order, no duplicates;
* `non_as_needed_listed`     : a library outside `--as-needed` is always listed;
* `as_needed_listed_iff`     : an `--as-needed` library is listed iff some loaded REGULAR object
  references non-weakly a name whose FIRST definition (command-line order) is in that library;
* `satisfies_implies_listed` : every library that satisfies a non-weak reference is listed
  (no required library is ever missing); the converse ("and no others") holds exactly when the
  first definition is also the one the reference finally binds to, see the witness;
* `as_needed_overridden_witness` : the full statement is false for the current code: a library
  whose definition comes first but is overridden by a later regular object's definition is still
  listed although it satisfies no reference (GNU ld and lld do not list it);
* `as_needed_spec_partial`   : for a well-formed input (`WF`) and an `--as-needed` library `d` none
  of whose first definitions is also defined by a regular object (`NoOverride fs d`), the spec holds
  exactly: `d ∈ neededLibs fs ↔ Satisfies am fs d` (via `candidates_head`, `resolve_first_dynamic`).
-/
namespace Wild.Link

theorem needed_sorted_nodup (fs : List File) :
    (neededLibs fs).Pairwise (· < ·) := by
  unfold neededLibs
  apply List.Pairwise.filter
  exact List.pairwise_lt_range

theorem mem_needed (fs : List File) (i : Nat) :
    i ∈ neededLibs fs ↔ ∃ f, fs[i]? = some f ∧ f.dynamic = true ∧ isLoaded fs i = true := by
  unfold neededLibs
  simp only [List.mem_filter, List.mem_range, Bool.and_eq_true]
  constructor
  · rintro ⟨hlt, hd, hl⟩
    have hf : fs[i]? = some fs[i] := List.getElem?_eq_getElem hlt
    rw [hf] at hd
    exact ⟨fs[i], hf, by simpa using hd, hl⟩
  · rintro ⟨f, hf, hd, hl⟩
    have hlt : i < fs.length := (List.getElem?_eq_some_iff.1 hf).1
    exact ⟨hlt, by simp [hf, hd], hl⟩

/-- A shared library outside `--as-needed` is always listed. -/
theorem non_as_needed_listed (fs : List File) (i : Nat) (f : File)
    (hf : fs[i]? = some f) (hd : f.dynamic = true) (hopt : f.optional = false) :
    i ∈ neededLibs fs :=
  (mem_needed fs i).2 ⟨f, hf, hd, (loaded_iff_reach fs i).2 (Reach.mandatory i f hf hopt)⟩

/-- **Exact characterisation of wild's behaviour.** An `--as-needed` library is listed iff a
loaded regular object references non-weakly a name whose first definition is in that library. -/
theorem as_needed_listed_iff (fs : List File) (d : Nat) (fd : File)
    (hfd : fs[d]? = some fd) (hdyn : fd.dynamic = true) (hopt : fd.optional = true) :
    d ∈ neededLibs fs ↔
      ∃ i f n, fs[i]? = some f ∧ isLoaded fs i = true ∧ f.dynamic = false ∧
        n ∈ f.strongUndefs ∧ firstDef fs n = some d := by
  rw [mem_needed]
  constructor
  · rintro ⟨f, hf, _, hl⟩
    have hr := (loaded_iff_reach fs d).1 hl
    cases hr with
    | mandatory _ f' hf' ho =>
      rw [hfd] at hf'; injection hf' with hf'; subst hf'
      rw [hopt] at ho; cases ho
    | request i _ hri hreq hlt =>
      obtain ⟨fi, n, hfi, hn, hfirst, hne, hnd⟩ := (mem_requestsOf fs i d).1 hreq
      refine ⟨i, fi, n, hfi, (loaded_iff_reach fs i).2 hri, ?_, hn, hfirst⟩
      by_cases h1 : fi.dynamic = true
      · exfalso; apply hnd; exact ⟨h1, by simp [hfd, hdyn]⟩
      · simpa using h1
  · rintro ⟨i, f, n, hf, hl, hnd, hn, hfirst⟩
    refine ⟨fd, hfd, hdyn, ?_⟩
    apply (loaded_iff_reach fs d).2
    have hlt : d < fs.length := (List.getElem?_eq_some_iff.1 hfd).1
    apply Reach.request i d ((loaded_iff_reach fs i).1 hl) _ hlt
    apply (mem_requestsOf fs i d).2
    refine ⟨f, n, hf, hn, hfirst, ?_, ?_⟩
    · intro h; subst h
      rw [hfd] at hf; injection hf with hf; subst hf
      rw [hdyn] at hnd; cases hnd
    · rintro ⟨h1, _⟩; rw [hnd] at h1; cases h1

/-- "Library `d` satisfies a non-weak reference from the output": some loaded regular object
references `n` non-weakly and `n` finally binds to the definition in `d`. -/
def Satisfies (am : Bool) (fs : List File) (d : Nat) : Prop :=
  isLoaded fs d = true ∧
  ∃ i f n, fs[i]? = some f ∧ isLoaded fs i = true ∧ f.dynamic = false ∧ n ∈ f.strongUndefs ∧
    resolveName am fs n = some (.chosen d)

/-- No required library is missing: a shared library that satisfies a reference is listed. -/
theorem satisfies_implies_listed (am : Bool) (fs : List File) (d : Nat) (fd : File)
    (hfd : fs[d]? = some fd) (hdyn : fd.dynamic = true) (h : Satisfies am fs d) :
    d ∈ neededLibs fs :=
  (mem_needed fs d).2 ⟨fd, hfd, hdyn, h.1⟩

/-- The full statement of the property for `--as-needed` libraries. -/
def C37_full : Prop :=
  ∀ (am : Bool) (fs : List File) (d : Nat) (fd : File), fs[d]? = some fd → fd.dynamic = true →
    fd.optional = true → (d ∈ neededLibs fs ↔ Satisfies am fs d)

def witnessFiles : List File :=
  [ { dynamic := false, optional := false, entries := [.undef 0 false] },          -- main.o: needs sym0
    { dynamic := true, optional := true, entries := [.defn 0 .strong false] },     -- --as-needed liba.so: defines sym0 (first)
    { dynamic := false, optional := false, entries := [.defn 0 .strong false] } ]  -- other.o: defines sym0 (wins)

/-- The current code lists `liba.so` although the reference binds to `other.o`. -/
theorem as_needed_overridden_witness :
    1 ∈ neededLibs witnessFiles ∧ resolveName false witnessFiles 0 = some (.chosen 2) := by
  decide

theorem C37_full_false : ¬ C37_full := by
  intro h
  have := (h false witnessFiles 1 _ rfl rfl rfl).1 as_needed_overridden_witness.1
  obtain ⟨_, i, f, n, hf, _, hnd, hn, hres⟩ := this
  -- only file 0 has undefined references, to name 0, which resolves to file 2
  have hi : i < 3 := (List.getElem?_eq_some_iff.1 hf).1
  have h0 : i = 0 ∨ i = 1 ∨ i = 2 := by omega
  rcases h0 with rfl | rfl | rfl
  · simp [witnessFiles] at hf; subst hf
    simp [File.strongUndefs] at hn; subst hn
    rw [as_needed_overridden_witness.2] at hres
    cases hres
  · simp [witnessFiles] at hf; subst hf; cases hnd
  · simp [witnessFiles] at hf; subst hf
    simp [File.strongUndefs] at hn

/-! ## The spec holds when the first definition is not overridden -/

/-- Well-formed input: a definition entry never carries the pseudo-strength `undefined` (that
value only arises as the *effective* strength of a definition in a file that was not loaded). -/
def WF (fs : List File) : Prop :=
  ∀ f ∈ fs, ∀ e ∈ f.entries, ∀ n c, e ≠ Entry.defn n Strength.undefined c

/-- No regular object overrides a name whose first definition is in library `d`: every file that
defines such a name is a shared object. -/
def NoOverride (fs : List File) (d : Nat) : Prop :=
  ∀ n, firstDef fs n = some d → ∀ (j : Nat) (f : File), fs[j]? = some f → f.defines n = true → f.dynamic = true

theorem findSome?_range' {β : Type} (g : Nat → Option β) (c : β) (d : Nat) (hd : g d = some c) :
    ∀ (k s : Nat), s ≤ d → d < s + k → (∀ i, s ≤ i → i < d → g i = none) →
      (List.range' s k).findSome? g = some c := by
  intro k
  induction k with
  | zero => intro s h1 h2 _; omega
  | succ k ih =>
    intro s h1 h2 hn
    rw [List.range'_succ, List.findSome?_cons]
    by_cases hsd : s = d
    · subst hsd; rw [hd]
    · rw [hn s (Nat.le_refl s) (by omega)]
      exact ih (s + 1) (by omega) (by omega) (fun i hi hlt => hn i (by omega) hlt)

/-- The candidate record of file `i` for name `n` under mask `S`. -/
def candOf (S : List Bool) (n i : Nat) (f : File) : Cand :=
  { file := i, dynamic := f.dynamic,
    strength := if S.getD i false then f.strengthOf n else .undefined,
    comdat := f.comdatOf n }

/-- `candidates` in terms of `firstDef`: the list starts with the candidate of the first definer. -/
theorem candidates_head (fs : List File) (S : List Bool) (n d : Nat) (fd : File)
    (hfd : fs[d]? = some fd) (hfirst : firstDef fs n = some d) :
    ∃ rest, candidates fs S n = candOf S n d fd :: rest := by
  unfold firstDef at hfirst
  obtain ⟨hlt, hp, hnot⟩ := List.findIdx?_eq_some_iff_getElem.1 hfirst
  have hfdd : fs[d] = fd := (List.getElem?_eq_some_iff.1 hfd).2
  have hhead : (candidates fs S n).head? = some (candOf S n d fd) := by
    unfold candidates
    rw [List.head?_filterMap, List.range_eq_range']
    apply findSome?_range' _ _ d _ fs.length 0 (Nat.zero_le _) (by omega)
    · intro i _ hid
      have hi : i < fs.length := by omega
      have := hnot i hid
      simp only [List.getElem?_eq_getElem hi]
      simp only [Bool.not_eq_true] at this
      simp [this]
    · simp only [hfd]
      rw [hfdd] at hp
      simp [hp, candOf]
  cases hcs : candidates fs S n with
  | nil => rw [hcs] at hhead; simp at hhead
  | cons c rest =>
    rw [hcs] at hhead
    simp only [List.head?_cons, Option.some.injEq] at hhead
    exact ⟨rest, by rw [hhead]⟩

theorem mem_candidates (fs : List File) (S : List Bool) (n : Nat) (c : Cand) :
    c ∈ candidates fs S n ↔ ∃ i f, fs[i]? = some f ∧ f.defines n = true ∧ c = candOf S n i f := by
  unfold candidates
  simp only [List.mem_filterMap, List.mem_range]
  constructor
  · rintro ⟨i, hi, h⟩
    have hf : fs[i]? = some fs[i] := List.getElem?_eq_getElem hi
    rw [hf] at h
    simp only at h
    split at h
    · rename_i hdef
      injection h with h
      exact ⟨i, fs[i], hf, hdef, h.symm⟩
    · cases h
  · rintro ⟨i, f, hf, hdef, rfl⟩
    refine ⟨i, (List.getElem?_eq_some_iff.1 hf).1, ?_⟩
    simp [hf, hdef, candOf]

/-- Shared-object candidates are skipped by `select_symbol`'s first pass. -/
theorem selectGo_all_dynamic (am : Bool) : ∀ (cs : List Cand) (sel : Selector) (st : Option (Nat × Bool)),
    (∀ c ∈ cs, c.dynamic = true) → selectGo am cs sel st = .ok sel := by
  intro cs
  induction cs with
  | nil => intro sel st _; rfl
  | cons c rest ih =>
    intro sel st h
    have hc : c.dynamic = true := h c (List.mem_cons_self)
    simp only [selectGo, hc, if_true]
    exact ih sel st (fun c' hc' => h c' (List.mem_cons_of_mem _ hc'))

/-- A well-formed file's definition of a name it defines has a real strength. -/
theorem strengthOf_ne_undefined (f : File) (n : Nat)
    (hwf : ∀ e ∈ f.entries, ∀ m c, e ≠ Entry.defn m Strength.undefined c)
    (hdef : f.defines n = true) : f.strengthOf n ≠ .undefined := by
  unfold File.defines at hdef
  unfold File.strengthOf
  cases hfind : f.entries.find? (·.definesName n) with
  | none =>
    rw [List.find?_eq_none] at hfind
    rw [List.any_eq_true] at hdef
    obtain ⟨e, he, hp⟩ := hdef
    exact absurd hp (hfind e he)
  | some e =>
    have hmem : e ∈ f.entries := List.mem_of_find?_eq_some hfind
    cases e with
    | undef m w =>
      have := List.find?_some hfind
      simp [Entry.definesName] at this
    | defn m s c =>
      simp only
      intro hs
      subst hs
      exact hwf _ hmem m c rfl

/-- If every definer of `n` is a shared object and the first definer `d` is loaded, `n` binds to
`d` (`select_symbol` finds no regular definition and falls back to the first dynamic one). -/
theorem resolve_first_dynamic (am : Bool) (fs : List File) (n d : Nat) (fd : File)
    (hwf : WF fs) (hfd : fs[d]? = some fd) (hfirst : firstDef fs n = some d)
    (hl : isLoaded fs d = true)
    (hall : ∀ (j : Nat) (f : File), fs[j]? = some f → f.defines n = true → f.dynamic = true) :
    resolveName am fs n = some (.chosen d) := by
  obtain ⟨rest, hcs⟩ := candidates_head fs (loadedMask fs) n d fd hfd hfirst
  have hdyn : ∀ c ∈ candidates fs (loadedMask fs) n, c.dynamic = true := by
    intro c hc
    obtain ⟨i, f, hf, hdef, rfl⟩ := (mem_candidates fs _ n c).1 hc
    exact hall i f hf hdef
  have hdefd : fd.defines n = true := by
    have : candOf (loadedMask fs) n d fd ∈ candidates fs (loadedMask fs) n := by
      rw [hcs]; exact List.mem_cons_self
    obtain ⟨i, f, hf, hdef, heq⟩ := (mem_candidates fs _ n _).1 this
    have hi : d = i := congrArg Cand.file heq
    subst hi
    rw [hfd] at hf; injection hf with hf; subst hf
    exact hdef
  have hmem : fd ∈ fs := List.mem_of_getElem? hfd
  have hstr : (candOf (loadedMask fs) n d fd).strength ≠ .undefined := by
    unfold isLoaded at hl
    simp only [candOf, hl, if_true]
    exact strengthOf_ne_undefined fd n (hwf fd hmem) hdefd
  unfold resolveName
  simp only [hcs, List.isEmpty_cons, Bool.false_eq_true, if_false]
  congr 1
  unfold selectSymbol
  rw [selectGo_all_dynamic am _ _ _ (by rw [← hcs]; exact hdyn)]
  have hbest : Selector.best {} = none := rfl
  simp only [hbest]
  rw [List.find?_cons_of_pos (by simpa using hstr)]
  rfl

/-- **C37 for `--as-needed` libraries, under `NoOverride`.** For a well-formed input and an
`--as-needed` shared library `d` none of whose first definitions is overridden by a regular
object, `d` is listed in DT_NEEDED iff it satisfies a non-weak reference from the output.
(`as_needed_overridden_witness` shows that the hypothesis `NoOverride` cannot be dropped.) -/
theorem as_needed_spec_partial (am : Bool) (fs : List File) (d : Nat) (fd : File)
    (hfd : fs[d]? = some fd) (hdyn : fd.dynamic = true) (hopt : fd.optional = true)
    (hwf : WF fs) (hno : NoOverride fs d) :
    d ∈ neededLibs fs ↔ Satisfies am fs d := by
  constructor
  · intro h
    have hl : isLoaded fs d = true := by
      obtain ⟨_, _, _, hl⟩ := (mem_needed fs d).1 h
      exact hl
    obtain ⟨i, f, n, hf, hli, hnd, hn, hfirst⟩ := (as_needed_listed_iff fs d fd hfd hdyn hopt).1 h
    exact ⟨hl, i, f, n, hf, hli, hnd, hn,
      resolve_first_dynamic am fs n d fd hwf hfd hfirst hl (hno n hfirst)⟩
  · exact satisfies_implies_listed am fs d fd hfd hdyn

/-- Non-vacuity: `main.o --as-needed liba.so libb.so` where both libraries define `sym0`
(`liba.so` first) and `libb.so` alone defines the unreferenced `sym1`: the hypotheses hold for both
libraries, `liba.so` is listed and satisfies the reference, `libb.so` is neither. -/
def okFiles : List File :=
  [ { dynamic := false, optional := false, entries := [.undef 0 false] },
    { dynamic := true, optional := true, entries := [.defn 0 .strong false] },
    { dynamic := true, optional := true, entries := [.defn 0 .weak false, .defn 1 .strong false] } ]

theorem okFiles_wf : WF okFiles := by
  intro f hf e he n c
  simp only [okFiles, List.mem_cons, List.not_mem_nil, or_false] at hf
  rcases hf with rfl | rfl | rfl <;> simp at he <;> (try rcases he with rfl | rfl) <;> (try subst he) <;> simp

theorem okFiles_noOverride (d : Nat) : NoOverride okFiles d := by
  intro n _ j f hf hdef
  have hj : j < 3 := (List.getElem?_eq_some_iff.1 hf).1
  have h0 : j = 0 ∨ j = 1 ∨ j = 2 := by omega
  rcases h0 with rfl | rfl | rfl <;> simp [okFiles] at hf <;> subst hf
  · simp [File.defines, Entry.definesName] at hdef
  · rfl
  · rfl

example : 1 ∈ neededLibs okFiles ∧ Satisfies false okFiles 1 :=
  have h := (as_needed_spec_partial false okFiles 1 _ rfl rfl rfl okFiles_wf (okFiles_noOverride 1)).1
    (by decide)
  ⟨by decide, h⟩

example : 2 ∉ neededLibs okFiles ∧ ¬ Satisfies false okFiles 2 :=
  ⟨by decide, fun h =>
    absurd ((as_needed_spec_partial false okFiles 2 _ rfl rfl rfl okFiles_wf (okFiles_noOverride 2)).2 h)
      (by decide)⟩

end Wild.Link
