import WildModel.Model.Mentions
/-!
# C37 — a file named more than once on the command line

`FileLoader::load_inputs` (libwild/src/input_data.rs) walks the command line and keeps one pending
request per distinct path:

    for input in inputs {
        if let Some(existing) = path_to_load_index.get(path) {
            initial_work[existing].modifiers.as_needed &= input.modifiers.as_needed;   // the fix
            continue;
        }
        path_to_load_index.insert(path, initial_work.len());
        initial_work.push(request(path, input.modifiers));
    }

A *mention* is `(path, as_needed)`. `loadInputs` is that loop; `loadInputsOld` is the loop before the
`fix:` commit (a repeated mention was ignored altogether). Proved, for every list of mentions:

* `loadInputs_paths`      : the requests are the distinct paths in order of FIRST mention;
* `loadInputs_flag`       : a request is `--as-needed` iff EVERY mention of its path is — i.e. a
  library that is named at least once outside `--as-needed` is "linked without --as-needed"
  (the premise of C37's first clause; GNU ld and lld behave the same);
* `old_first_mention_witness` : the old loop kept the first mention's flag, so
  `--as-needed libfoo.so --no-as-needed libfoo.so` stayed optional.
-/
namespace Wild.Mentions

/-- Distinct paths in order of first appearance, continuing from `seen`. -/
def firstPaths : List Nat → List Nat → List Nat
  | seen, [] => seen
  | seen, p :: ps => if seen.contains p then firstPaths seen ps else firstPaths (seen ++ [p]) ps

theorem map_andFlag_paths (acc : List Mention) (p : Nat) (b : Bool) :
    (acc.map (andFlag p b)).map (·.1) = acc.map (·.1) := by
  induction acc with
  | nil => rfl
  | cons q acc ih =>
    simp only [List.map_cons, ih]
    unfold andFlag
    split <;> rfl

theorem hasPath_iff (acc : List Mention) (p : Nat) : hasPath acc p = (acc.map (·.1)).contains p := by
  induction acc with
  | nil => rfl
  | cons q acc ih =>
    unfold hasPath at *
    rw [List.any_cons, List.map_cons, List.contains_cons, ih]
    have hc : (q.1 == p) = (p == q.1) := BEq.comm
    rw [hc]

theorem foldl_paths (ms : List Mention) (acc : List Mention) :
    (ms.foldl loadStep acc).map (·.1) = firstPaths (acc.map (·.1)) (ms.map (·.1)) := by
  induction ms generalizing acc with
  | nil => rfl
  | cons m ms ih =>
    simp only [List.foldl_cons, List.map_cons, firstPaths]
    rw [ih]
    unfold loadStep
    rw [hasPath_iff]
    split
    · rw [map_andFlag_paths]
    · simp

/-- The pending requests are the distinct paths in order of first mention. -/
theorem loadInputs_paths (ms : List Mention) :
    (loadInputs ms).map (·.1) = firstPaths [] (ms.map (·.1)) := by
  unfold loadInputs
  rw [foldl_paths]
  rfl

/-- Flag of path `p` in a request list whose paths are distinct: `none` if absent. -/
def flagOf (acc : List Mention) (p : Nat) : Option Bool := (acc.find? (fun q => q.1 == p)).map (·.2)

theorem flagOf_append_new (acc : List Mention) (m : Mention) (p : Nat) (h : hasPath acc m.1 = false) :
    flagOf (acc ++ [m]) p = if p = m.1 then (match flagOf acc p with | some b => some b | none => some m.2)
                            else flagOf acc p := by
  unfold flagOf
  rw [List.find?_append]
  by_cases hp : p = m.1
  · subst hp
    have hnone : acc.find? (fun q => q.1 == m.1) = none := by
      rw [List.find?_eq_none]
      intro q hq
      unfold hasPath at h
      rw [List.any_eq_false] at h
      exact h q hq
    simp [hnone]
  · have hne : (m.1 == p) = false := by
      simp only [beq_eq_false_iff_ne, ne_eq]
      exact fun h' => hp h'.symm
    cases hf : acc.find? (fun q => q.1 == p) <;> simp [hp, hne]

theorem flagOf_map_and (acc : List Mention) (p' : Nat) (b : Bool) (p : Nat) :
    flagOf (acc.map (andFlag p' b)) p =
      if p = p' then (flagOf acc p).map (· && b) else flagOf acc p := by
  unfold flagOf
  induction acc with
  | nil => simp
  | cons q acc ih =>
    simp only [List.map_cons, List.find?_cons]
    by_cases hq : q.1 = p
    · have h1 : (q.1 == p) = true := by simp [hq]
      have h2 : ((andFlag p' b q).1 == p) = true := by unfold andFlag; split <;> simp [hq]
      rw [h1, h2]
      simp only [Option.map_some]
      unfold andFlag
      by_cases hpp : p = p'
      · have : (q.1 == p') = true := by simp [hq, hpp]
        simp [this, hpp]
      · have : (q.1 == p') = false := by
          simp only [beq_eq_false_iff_ne, ne_eq]; rw [hq]; exact hpp
        simp [this, hpp]
    · have h1 : (q.1 == p) = false := by simp [hq]
      have h2 : ((andFlag p' b q).1 == p) = false := by unfold andFlag; split <;> simp [hq]
      rw [h1, h2]
      exact ih

/-- All mentions of `p` in `ms` are `--as-needed`. -/
def allAsNeeded (ms : List Mention) (p : Nat) : Bool := ms.all (fun m => !(m.1 == p) || m.2)

theorem foldl_flag (ms : List Mention) (acc : List Mention) (p : Nat) :
    flagOf (ms.foldl loadStep acc) p =
      match flagOf acc p with
      | some b => some (b && allAsNeeded ms p)
      | none => if (ms.map (·.1)).contains p then some (allAsNeeded ms p) else none := by
  induction ms generalizing acc with
  | nil =>
    simp only [List.foldl_nil, allAsNeeded, List.all_nil, Bool.and_true, List.map_nil, List.contains_nil]
    cases flagOf acc p <;> simp
  | cons m ms ih =>
    simp only [List.foldl_cons]
    rw [ih]
    unfold loadStep
    by_cases hh : hasPath acc m.1 = true
    · rw [if_pos hh, flagOf_map_and]
      -- m.1 is present in acc, so flagOf acc m.1 is `some`
      have hsome : ∃ b0, flagOf acc m.1 = some b0 := by
        unfold hasPath at hh
        rw [List.any_eq_true] at hh
        obtain ⟨q, hq, hqp⟩ := hh
        unfold flagOf
        cases hf : acc.find? (fun q => q.1 == m.1) with
        | none =>
          rw [List.find?_eq_none] at hf
          exact absurd hqp (by simpa using hf q hq)
        | some r => exact ⟨r.2, rfl⟩
      by_cases hp : p = m.1
      · subst hp
        obtain ⟨b0, hb0⟩ := hsome
        simp only [if_true, hb0, Option.map_some, allAsNeeded, List.all_cons, beq_self_eq_true,
          Bool.not_true, Bool.false_or]
        simp [Bool.and_assoc]
      · have hne : (m.1 == p) = false := by
          simp only [beq_eq_false_iff_ne, ne_eq]; exact fun h' => hp h'.symm
        rw [if_neg hp]
        cases hf : flagOf acc p with
        | some b => simp [allAsNeeded, hne]
        | none => simp [allAsNeeded, hne, hp]
    · have hh' : hasPath acc m.1 = false := by simpa using hh
      rw [if_neg hh, flagOf_append_new acc m p hh']
      by_cases hp : p = m.1
      · subst hp
        have hnone : flagOf acc m.1 = none := by
          unfold flagOf
          have : acc.find? (fun q => q.1 == m.1) = none := by
            rw [List.find?_eq_none]
            intro q hq
            unfold hasPath at hh'
            rw [List.any_eq_false] at hh'
            exact hh' q hq
          rw [this]; rfl
        simp [hnone, allAsNeeded]
      · have hne : (m.1 == p) = false := by
          simp only [beq_eq_false_iff_ne, ne_eq]; exact fun h' => hp h'.symm
        rw [if_neg hp]
        cases hf : flagOf acc p with
        | some b => simp [allAsNeeded, hne]
        | none => simp [allAsNeeded, hne, hp]

/-- A mentioned path gets one request, and that request is `--as-needed` iff every mention is. -/
theorem loadInputs_flag (ms : List Mention) (p : Nat) :
    flagOf (loadInputs ms) p =
      if (ms.map (·.1)).contains p then some (allAsNeeded ms p) else none := by
  unfold loadInputs
  rw [foldl_flag]
  rfl

/-- Before the fix: `--as-needed libfoo.so --no-as-needed libfoo.so` (path 7) stays `--as-needed`;
after the fix it is needed unconditionally; the other order is unaffected. -/
theorem old_first_mention_witness :
    flagOf (loadInputsOld [(7, true), (7, false)]) 7 = some true ∧
    flagOf (loadInputs [(7, true), (7, false)]) 7 = some false ∧
    flagOf (loadInputs [(7, false), (7, true)]) 7 = some false ∧
    flagOf (loadInputs [(7, true), (3, false), (7, true)]) 7 = some true := by
  decide

end Wild.Mentions
