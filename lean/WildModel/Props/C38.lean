import WildModel.Model.OneAddress
/-!
C38 — Every function and object has one address across modules.

For ALL programs of the model `Model/OneAddress.lean` (executable first in load order, any number of
shared libraries, any definitions / PLT / copy-relocation artefacts):

* `one_address_data`: data symbols — every valid reference in every module observes the loader's
  binding `lookup mods s` (copy relocation ⇒ all modules bind to the executable's copy).
* `one_address_func_of_canonical_plt`: functions — the same, PROVIDED the executable advertises its PLT
  entries as canonical addresses (`canonicalPltExported = true`).
* `one_address_func_partial`: functions with the CURRENT code (`canonicalPltExported = false`): holds for
  all references except direct (non-PIC) references of the executable to functions it does not define.
* `one_address_func_witness`: in the excluded region the property FAILS in the model: a non-PIC executable
  that takes `&f` directly observes its PLT entry, a library observes the definition (reproduced on the
  real binary by vlib/props/c38.py: known finding `canonical-plt:*`).
* `ifunc_one_address`: an IFUNC defined in a non-PIC executable has one address in the executable (direct
  and GOT/data references) and in its libraries; `ifunc_pie_witness`: in a PIE it does not (PC-relative code
  reference = PLT entry, data/GOT word = resolver's result).
-/
namespace Wild.OneAddress

/-- The executable is first in load order, so a symbol its dynamic symbol table defines is what
every symbolic reference binds to. -/
theorem lookup_first_definition (exe : Module) (libs : List Module) (s : Nat) (a : BitVec 64)
    (h : dynDefines exe s = some a) : lookup (exe :: libs) s = some a := by
  simp [lookup, h]

/-- Hypotheses tying the link-time artefacts of the executable to its references (what
`process_relocation` guarantees): a direct reference to an undefined data symbol has a copy; symbols the
executable defines and that other modules reference are exported. -/
structure ExeOk (exe : Module) (kindOf : Nat → SymKind) : Prop where
  /-- definitions referenced from elsewhere are in the dynamic symbol table -/
  exported : ∀ s a e, exe.defs s = some (a, e) → e = true
  /-- no PLT / copy artefact for own definitions -/
  nocopy : ∀ s, exe.defs s ≠ none → exe.copy s = none

/-- A shared library never binds its own exported symbols locally in the model (default
visibility ⇒ interposable ⇒ GOT), which `validRef` already enforces; its non-exported definitions are
invisible to other modules. -/
def LibsOk (libs : List Module) : Prop := ∀ m ∈ libs, m.kind = .shared

/-- Data: every valid reference from the executable observes the loader's binding. -/
theorem exe_data_eq_lookup (exe : Module) (libs : List Module) (kindOf : Nat → SymKind) (s : Nat)
    (hk : kindOf s = .data) (hok : ExeOk exe kindOf) (r : RefKind) (hv : validRef exe s r)
    (a : BitVec 64) (ha : addrSeenBy (exe :: libs) kindOf exe s r = some a) :
    lookup (exe :: libs) s = some a := by
  cases r with
  | got => simpa [addrSeenBy] using ha
  | direct =>
    simp only [addrSeenBy] at ha
    cases hd : exe.defs s with
    | some p =>
      obtain ⟨x, e⟩ := p
      have he := hok.exported s x e hd
      subst he
      simp [hd] at ha
      simp [lookup, dynDefines, hd, ha]
    | none =>
      simp [hd, hk] at ha
      obtain ⟨c, hc, hca⟩ := ha
      simp [lookup, dynDefines, hd, hc, hca]

/-- A library's valid references: through the GOT (loader binding), or direct to a NON-exported own
definition (which no other module can name). -/
theorem lib_ref_cases (mods : List Module) (kindOf : Nat → SymKind) (m : Module) (hm : m.kind = .shared)
    (s : Nat) (r : RefKind) (hv : validRef m s r) (a : BitVec 64)
    (ha : addrSeenBy mods kindOf m s r = some a) :
    lookup mods s = some a ∨ (∃ x, m.defs s = some (x, false)) := by
  cases r with
  | got => left; simpa [addrSeenBy] using ha
  | direct =>
    have := hv rfl
    cases hd : m.defs s with
    | some p =>
      obtain ⟨x, e⟩ := p
      simp [hd, hm] at this
      subst this
      right; exact ⟨x, rfl⟩
    | none => simp [hd, hm] at this

/-- **one_address_data.** For every program: two valid references to a data symbol `s`, from the
executable or from any library, observe the same address — unless one of them is a library's reference
to its own non-exported (module-private) definition, which is a different object by definition. -/
theorem one_address_data (exe : Module) (libs : List Module) (kindOf : Nat → SymKind) (s : Nat)
    (hk : kindOf s = .data) (hok : ExeOk exe kindOf) (hl : LibsOk libs)
    (m₁ m₂ : Module) (h₁ : m₁ ∈ exe :: libs) (h₂ : m₂ ∈ exe :: libs) (r₁ r₂ : RefKind)
    (v₁ : validRef m₁ s r₁) (v₂ : validRef m₂ s r₂)
    (p₁ : m₁ ∈ libs → ∀ x, m₁.defs s ≠ some (x, false)) (p₂ : m₂ ∈ libs → ∀ x, m₂.defs s ≠ some (x, false))
    (e₁ : m₁ ∉ libs → m₁ = exe) (e₂ : m₂ ∉ libs → m₂ = exe)
    (a₁ a₂ : BitVec 64)
    (ha₁ : addrSeenBy (exe :: libs) kindOf m₁ s r₁ = some a₁)
    (ha₂ : addrSeenBy (exe :: libs) kindOf m₂ s r₂ = some a₂) : a₁ = a₂ := by
  have key : ∀ (m : Module) (r : RefKind), validRef m s r → (m ∈ libs → ∀ x, m.defs s ≠ some (x, false)) →
      (m ∉ libs → m = exe) → ∀ a, addrSeenBy (exe :: libs) kindOf m s r = some a → lookup (exe :: libs) s = some a := by
    intro m r v p e a ha
    by_cases hm : m ∈ libs
    · rcases lib_ref_cases _ kindOf m (hl m hm) s r v a ha with h | ⟨x, hx⟩
      · exact h
      · exact absurd hx (p hm x)
    · have := e hm; subst this
      exact exe_data_eq_lookup m libs kindOf s hk hok r v a ha
  have l₁ := key m₁ r₁ v₁ p₁ e₁ a₁ ha₁
  have l₂ := key m₂ r₂ v₂ p₂ e₂ a₂ ha₂
  rw [l₁] at l₂
  exact Option.some.inj l₂

/-- Functions: a valid reference from the executable observes the loader's binding when it is
not a direct reference to a function the executable does not define, or when PLT entries are advertised. -/
theorem exe_func_eq_lookup (exe : Module) (libs : List Module) (kindOf : Nat → SymKind) (s : Nat)
    (hk : kindOf s = .func) (hok : ExeOk exe kindOf) (r : RefKind)
    (hc : (r = .direct ∧ exe.defs s = none) → exe.canonicalPltExported = true ∧ exe.copy s = none)
    (a : BitVec 64) (ha : addrSeenBy (exe :: libs) kindOf exe s r = some a) :
    lookup (exe :: libs) s = some a := by
  cases r with
  | got => simpa [addrSeenBy] using ha
  | direct =>
    simp only [addrSeenBy] at ha
    cases hd : exe.defs s with
    | some p =>
      obtain ⟨x, e⟩ := p
      have he := hok.exported s x e hd
      subst he
      simp [hd] at ha
      simp [lookup, dynDefines, hd, ha]
    | none =>
      obtain ⟨hcan, hcopy⟩ := hc ⟨rfl, hd⟩
      simp [hd, hk] at ha
      obtain ⟨c, hc', hca⟩ := ha
      simp [lookup, dynDefines, hd, hcopy, hcan, hc', hca]

/-- **one_address_func_of_canonical_plt.** If the executable advertises its PLT entries
(`canonicalPltExported`), all references to a function observe one address. -/
theorem one_address_func_of_canonical_plt (exe : Module) (libs : List Module) (kindOf : Nat → SymKind) (s : Nat)
    (hk : kindOf s = .func) (hok : ExeOk exe kindOf) (hl : LibsOk libs)
    (hcan : exe.canonicalPltExported = true) (hnc : exe.copy s = none)
    (m : Module) (hm : m ∈ libs) (rl : RefKind) (vl : validRef m s rl) (pl : ∀ x, m.defs s ≠ some (x, false))
    (re : RefKind) (a₁ a₂ : BitVec 64)
    (ha₁ : addrSeenBy (exe :: libs) kindOf exe s re = some a₁)
    (ha₂ : addrSeenBy (exe :: libs) kindOf m s rl = some a₂) : a₁ = a₂ := by
  have l₁ := exe_func_eq_lookup exe libs kindOf s hk hok re (fun _ => ⟨hcan, hnc⟩) a₁ ha₁
  have l₂ : lookup (exe :: libs) s = some a₂ := by
    rcases lib_ref_cases _ kindOf m (hl m hm) s rl vl a₂ ha₂ with h | ⟨x, hx⟩
    · exact h
    · exact absurd hx (pl x)
  rw [l₁] at l₂
  exact Option.some.inj l₂

/-- **one_address_func_partial.** With the current code (`canonicalPltExported` arbitrary, in
particular `false`): one address for every function reference EXCEPT a direct reference of the executable
to a function it does not define (non-PIC code taking `&f` / calling through an absolute address). -/
theorem one_address_func_partial (exe : Module) (libs : List Module) (kindOf : Nat → SymKind) (s : Nat)
    (hk : kindOf s = .func) (hok : ExeOk exe kindOf) (hl : LibsOk libs)
    (m : Module) (hm : m ∈ libs) (rl : RefKind) (vl : validRef m s rl) (pl : ∀ x, m.defs s ≠ some (x, false))
    (re : RefKind) (hex : ¬ (re = .direct ∧ exe.defs s = none)) (a₁ a₂ : BitVec 64)
    (ha₁ : addrSeenBy (exe :: libs) kindOf exe s re = some a₁)
    (ha₂ : addrSeenBy (exe :: libs) kindOf m s rl = some a₂) : a₁ = a₂ := by
  have l₁ := exe_func_eq_lookup exe libs kindOf s hk hok re (fun h => absurd h hex) a₁ ha₁
  have l₂ : lookup (exe :: libs) s = some a₂ := by
    rcases lib_ref_cases _ kindOf m (hl m hm) s rl vl a₂ ha₂ with h | ⟨x, hx⟩
    · exact h
    · exact absurd hx (pl x)
  rw [l₁] at l₂
  exact Option.some.inj l₂

def witnessExe : Module :=
  { kind := .nonPicExe, base := 0, defs := fun _ => none, plt := fun s => if s = 7 then some 0x401020 else none,
    copy := fun _ => none, canonicalPltExported := false }

def witnessLib : Module :=
  { kind := .shared, base := 0x7f0000000000, defs := fun s => if s = 7 then some (0x1100, true) else none,
    plt := fun _ => none, copy := fun _ => none }

/-- **one_address_func_witness.** The full statement fails for the current code: a non-PIC executable
referring directly to library function 7 observes its PLT entry `0x401020`, the library observes its
definition `0x7f0000001100`. -/
theorem one_address_func_witness :
    ExeOk witnessExe (fun _ => .func) ∧ LibsOk [witnessLib] ∧
    validRef witnessExe 7 .direct ∧ validRef witnessLib 7 .got ∧
    addrSeenBy [witnessExe, witnessLib] (fun _ => .func) witnessExe 7 .direct = some 0x401020 ∧
    addrSeenBy [witnessExe, witnessLib] (fun _ => .func) witnessLib 7 .got = some 0x7f0000001100 := by
  refine ⟨⟨?_, ?_⟩, ?_, ?_, ?_, ?_, ?_⟩
  · intro s a e h; simp [witnessExe] at h
  · intro s h; simp [witnessExe] at h
  · intro m hm; simp at hm; subst hm; rfl
  · intro _; simp [witnessExe]
  · intro h; cases h
  · decide
  · decide

/-- **ifunc_one_address.** An IFUNC defined in a NON-PIC executable has one address: every
reference inside the executable (direct or GOT / data word) and every library reference observe the PLT
entry. -/
theorem ifunc_one_address (exe : Module) (hk : exe.kind = .nonPicExe) (plt resolved : BitVec 64) (r₁ r₂ : RefKind) :
    ifuncAddrInExe exe plt resolved r₁ = ifuncAddrInExe exe plt resolved r₂ ∧
    ifuncAddrInExe exe plt resolved r₁ = ifuncAddrFromLib exe plt resolved := by
  simp [ifuncAddrInExe, ifuncAddrFromLib, hk]

/-- **ifunc_pie_witness.** In a PIE the statement fails in the model: a PC-relative code reference
observes the PLT entry, a function pointer stored in data (or loaded through the GOT) observes the
resolver's result (reproduced natively by vlib/props/c38.py, known finding `ifunc-pie:*`; GNU ld 2.40
behaves the same). -/
theorem ifunc_pie_witness :
    ∃ (exe : Module) (plt resolved : BitVec 64), exe.kind = .pie ∧
      ifuncAddrInExe exe plt resolved .direct ≠ ifuncAddrInExe exe plt resolved .got := by
  refine ⟨{ kind := .pie, base := 0x10000000, defs := fun _ => none, plt := fun _ => none, copy := fun _ => none },
    0x1020, 0x10002000, rfl, ?_⟩
  decide

/-! Non-vacuity: a copy-relocated data symbol. -/
example :
    let exe : Module := { kind := .nonPicExe, base := 0, defs := fun _ => none, plt := fun _ => none,
                          copy := fun s => if s = 3 then some 0x404040 else none }
    let lib : Module := { kind := .shared, base := 0x7f0000000000, defs := fun s => if s = 3 then some (0x4000, true) else none,
                          plt := fun _ => none, copy := fun _ => none }
    addrSeenBy [exe, lib] (fun _ => .data) exe 3 .direct = some 0x404040 ∧
    addrSeenBy [exe, lib] (fun _ => .data) lib 3 .got = some 0x404040 := by decide

end Wild.OneAddress
