import WildModel.Model.ProtoLayout
/-!
# C39 — Parallel layout traversal loses no work and always finishes

All statements are about the interleaving model `Model/ProtoLayout.lean` and hold for EVERY finite
request graph `G`, every number of groups, every number of tasks and every interleaving (they are
invariants of the step relation / properties of every state without successor; nothing is bounded).

* `inv_init`, `inv_step`, `inv_reachable`   the state invariant `Inv`;
* `single_owner` (S1)                      at any time every group state has exactly one owner
                                           (unborn activation task, running task, parked in its slot,
                                           in `delay_processing`, or dropped by an error);
* `pending_not_parked` (I)                 work pending in a slot ⇒ the slot holds no parked worker
                                           (so the owner of the group will look at the slot again);
* `delay_slot_free`                        `delay_processing.push` never finds the queue full;
* `terminal_iff`, `terminal_quiescent` (S2/S3)  when no task can step, no task exists and – unless
                                           the link reports failure – all slots are empty, every
                                           group is parked, nothing is left in `delay_processing`;
* `dropped_implies_failure`                a worker dropped on the error path ⇒ the link fails;
* `measure_decreases`, `run_length_le`, `terminates` (T)  every step strictly decreases a natural
                                           number, so every execution is finite (with an explicit
                                           bound on its length);
* `processed_sound`, `sent_is_accounted`, `terminal_is_closure` (S2/S3)  every issued request stays
                                           accounted for; in a terminal state of a run that does not
                                           fail the processed items are exactly the closure of the
                                           roots under the request graph;
* `delayed_group_runs_last`                the synthetic-symbols group pops its first item only when
                                           `activations_remaining = 0`;
* `invCheck_of_inv`                        the Boolean invariant evaluated by the trace replay follows
                                           from `Inv`.
-/
namespace Wild.ProtoLayout

/-! ## `takeWorker` -/

theorem takeWorker_perm {g : Group} {ws : List Worker} {w : Worker} {rest : List Worker}
    (h : takeWorker g ws = some (w, rest)) : ws.Perm (w :: rest) ∧ w.g = g := by
  induction ws generalizing w rest with
  | nil => simp [takeWorker] at h
  | cons a as ih =>
    unfold takeWorker at h
    split at h
    · rename_i hg
      cases h
      exact ⟨List.Perm.refl _, hg⟩
    · split at h
      · rename_i w' rest' heq
        cases h
        have := ih heq
        exact ⟨(List.Perm.cons a this.1).trans (List.Perm.swap _ _ _), this.2⟩
      · cases h

theorem takeWorker_count {g : Group} {ws : List Worker} {w : Worker} {rest : List Worker}
    (h : takeWorker g ws = some (w, rest)) (a : Group) :
    (ws.map (·.g)).count a = (rest.map (·.g)).count a + (if w.g = a then 1 else 0) := by
  have := ((takeWorker_perm h).1.map (·.g)).count_eq a
  rw [this, List.map_cons, List.count_cons]
  simp

theorem takeWorker_act {g : Group} {ws : List Worker} {w : Worker} {rest : List Worker}
    (h : takeWorker g ws = some (w, rest)) :
    (ws.filter (·.act)).length = (rest.filter (·.act)).length + (if w.act then 1 else 0) := by
  have := ((takeWorker_perm h).1.filter (·.act)).length_eq
  rw [this, List.filter_cons]
  split <;> simp_all

theorem takeWorker_mem {g : Group} {ws : List Worker} {w : Worker} {rest : List Worker}
    (h : takeWorker g ws = some (w, rest)) (x : Worker) : x ∈ ws ↔ x = w ∨ x ∈ rest := by
  rw [(takeWorker_perm h).1.mem_iff]; simp

theorem takeWorker_isSome {g : Group} {ws : List Worker} {w : Worker} (hw : w ∈ ws) (hg : w.g = g) :
    ∃ w' rest, takeWorker g ws = some (w', rest) := by
  induction ws with
  | nil => cases hw
  | cons a as ih =>
    unfold takeWorker
    by_cases ha : a.g = g
    · exact ⟨a, as, by simp [ha]⟩
    · simp only [ha, if_false]
      rcases List.mem_cons.1 hw with rfl | hw'
      · exact absurd hg ha
      · obtain ⟨w', rest, h⟩ := ih hw'
        exact ⟨w', a :: rest, by rw [h]⟩

/-! ## The invariant -/

structure Inv (G : Graph) (s : State) : Prop where
  /-- S1: the owners of group states are exactly the groups, each once -/
  own : (owners s).Perm (List.range G.numGroups)
  /-- `activations_remaining` counts the activation tasks that have not decremented it -/
  cnt : s.actRemaining = s.unborn.length + (s.workers.filter (·.act)).length + s.finishing
  /-- I: pending work sits only in slots of existing groups without a parked worker -/
  pend : ∀ p ∈ s.pending, p.1 < G.numGroups ∧ p.1 ∉ s.parked
  /-- the delayed group is the synthetic group and somebody will still decrement the counter -/
  del : ∀ d lq, s.delayed = some (d, lq) → G.isDelayed d = true ∧ 0 < s.actRemaining
  /-- a dropped group state is always accompanied by a reported error -/
  fail : s.dropped ≠ [] → s.failed = true

theorem inv_init (G : Graph) : Inv G (init G) := by
  refine ⟨?_, ?_, ?_, ?_, ?_⟩ <;> simp [init, owners, delayedOwner]

private theorem own_of_count {G : Graph} {s s' : State} (h : (owners s).Perm (List.range G.numGroups))
    (hc : ∀ a, (owners s').count a = (owners s).count a) : (owners s').Perm (List.range G.numGroups) :=
  (List.perm_iff_count.2 hc).trans h

private theorem count_le_one_of_own {G : Graph} {s : State} (h : (owners s).Perm (List.range G.numGroups)) (a : Group) :
    (owners s).count a ≤ 1 := by
  rw [h.count_eq a, List.count_range]; split <;> omega

private theorem count_pos {l : List Nat} {a : Nat} (h : a ∈ l) : 0 < l.count a := List.count_pos_iff.2 h

private theorem count_zero {l : List Nat} {a : Nat} (h : a ∉ l) : l.count a = 0 := List.count_eq_zero.2 h

private theorem mem_of_lt_of_own {G : Graph} {s : State} (h : (owners s).Perm (List.range G.numGroups)) {a : Group}
    (ha : a < G.numGroups) : (owners s).count a = 1 := by
  rw [h.count_eq a, List.count_range]; simp [ha]

private theorem filter_act_cons (w : Worker) (rest : List Worker) :
    ((w :: rest).filter (·.act)).length = (rest.filter (·.act)).length + (if w.act then 1 else 0) := by
  rw [List.filter_cons]; split <;> simp_all

private theorem owners_count (s : State) (a : Group) :
    (owners s).count a = s.unborn.count a + ((s.workers.map (·.g)).count a + (s.parked.count a +
      ((delayedOwner s.delayed).count a + s.dropped.count a))) := by
  simp [owners, List.count_append]

theorem inv_activate {G : Graph} {s s' : State} {g : Group} (hi : Inv G s) (h : stepActivate G s g = some s') :
    Inv G s' := by
  unfold stepActivate at h
  split at h
  · rename_i hg
    cases h
    refine ⟨own_of_count hi.own ?_, ?_, hi.pend, hi.del, hi.fail⟩
    · intro a
      have h1 := count_pos hg
      simp only [owners_count, List.map_cons, List.count_cons, List.count_erase]
      by_cases hga : g = a
      · subst hga; simp; omega
      · simp [hga]
    · have h1 := List.length_erase_of_mem hg
      have h2 := List.length_pos_of_mem hg
      simp only [List.filter_cons, List.length_cons, if_true]
      have := hi.cnt
      omega
  · cases h

theorem inv_claim {G : Graph} {s s' : State} {g : Group} (hi : Inv G s) (h : stepClaim G s g = some s') :
    Inv G s' := by
  unfold stepClaim at h
  split at h
  · rename_i w rest htw
    split at h
    · split at h
      · have hc := takeWorker_count htw
        have ha := takeWorker_act htw
        split at h <;> cases h
        all_goals
          refine ⟨own_of_count hi.own ?_, ?_, hi.pend, hi.del, hi.fail⟩
          · intro a; simp only [owners_count, List.map_cons, List.count_cons, hc a]; (try simp); (try omega)
          · have := hi.cnt; dsimp only at *; simp only [filter_act_cons] at *; (try dsimp only at *); (try simp only [Bool.false_eq_true, if_false] at *); omega
      · cases h
    · cases h
  · cases h

private theorem parked_count_le {G : Graph} {s : State} (hi : Inv G s) (a : Group) : s.parked.count a ≤ 1 := by
  have := count_le_one_of_own hi.own a
  rw [owners_count] at this; omega

theorem inv_send {G : Graph} {s s' : State} {g : Group} (hi : Inv G s) (h : stepSend G s g = some s') :
    Inv G s' := by
  unfold stepSend at h
  split at h
  · rename_i w rest htw
    have hc := takeWorker_count htw
    have ha := takeWorker_act htw
    split at h
    · rename_i r c ob hob
      split at h
      · cases h
      · split at h
        · cases h
          refine ⟨own_of_count hi.own ?_, ?_, hi.pend, hi.del, hi.fail⟩
          · intro a; simp only [owners_count, List.map_cons, List.count_cons, hc a]; (try simp); (try omega)
          · have := hi.cnt; dsimp only at *; simp only [filter_act_cons] at *; (try dsimp only at *); (try simp only [Bool.false_eq_true, if_false] at *); omega
        · split at h
          · rename_i hlt
            split at h
            · rename_i hpk
              cases h
              refine ⟨own_of_count hi.own ?_, ?_, ?_, hi.del, hi.fail⟩
              · intro a
                have h1 := count_pos hpk
                simp only [owners_count, List.map_cons, List.count_cons, hc a, List.count_erase]
                by_cases hra : r.to = a
                · subst hra; simp; omega
                · simp [hra]
              · have := hi.cnt; dsimp only at *; simp only [filter_act_cons] at *; (try dsimp only at *); (try simp only [Bool.false_eq_true, if_false] at *); omega
              · intro p hp
                rcases List.mem_cons.1 hp with rfl | hp
                · refine ⟨hlt, ?_⟩
                  intro hmem
                  have h1 := count_pos hmem
                  have h2 := parked_count_le hi r.to
                  simp only [List.count_erase] at h1
                  simp at h1; omega
                · exact ⟨(hi.pend p hp).1, fun hmem => (hi.pend p hp).2 (List.mem_of_mem_erase hmem)⟩
            · rename_i hpk
              cases h
              refine ⟨own_of_count hi.own ?_, ?_, ?_, hi.del, hi.fail⟩
              · intro a; simp only [owners_count, List.map_cons, List.count_cons, hc a]; (try simp); (try omega)
              · have := hi.cnt; dsimp only at *; simp only [filter_act_cons] at *; (try dsimp only at *); (try simp only [Bool.false_eq_true, if_false] at *); omega
              · intro p hp
                rcases List.mem_cons.1 hp with rfl | hp
                · exact ⟨hlt, hpk⟩
                · exact hi.pend p hp
          · cases h
            refine ⟨own_of_count hi.own ?_, ?_, hi.pend, hi.del, hi.fail⟩
            · intro a; simp only [owners_count, List.map_cons, List.count_cons, hc a]; (try simp); (try omega)
            · have := hi.cnt; dsimp only at *; simp only [filter_act_cons] at *; (try dsimp only at *); (try simp only [Bool.false_eq_true, if_false] at *); omega
    · cases h
  · cases h

theorem inv_pop {G : Graph} {s s' : State} {g : Group} {i : Item} (hi : Inv G s) (h : stepPop G s g i = some s') :
    Inv G s' := by
  unfold stepPop at h
  split at h
  · rename_i w rest htw
    have hc := takeWorker_count htw
    have ha := takeWorker_act htw
    split at h
    · cases h
      refine ⟨own_of_count hi.own ?_, ?_, hi.pend, hi.del, hi.fail⟩
      · intro a; simp only [owners_count, List.map_cons, List.count_cons, hc a]; (try simp); (try omega)
      · have := hi.cnt; dsimp only at *; simp only [filter_act_cons] at *; (try dsimp only at *); (try simp only [Bool.false_eq_true, if_false] at *); omega
    · cases h
  · cases h

theorem inv_parkOrSwap {G : Graph} {s s' : State} {g : Group} (hi : Inv G s) (h : stepParkOrSwap G s g = some s') :
    Inv G s' := by
  unfold stepParkOrSwap at h
  split at h
  · rename_i w rest htw
    have hc := takeWorker_count htw
    have ha := takeWorker_act htw
    split at h
    · split at h
      · rename_i hempty
        cases h
        refine ⟨own_of_count hi.own ?_, ?_, ?_, hi.del, hi.fail⟩
        · intro a; simp only [owners_count, List.map_cons, List.count_cons, hc a]; (try simp); (try omega)
        · have := hi.cnt; dsimp only at *; (try simp only [filter_act_cons] at *); omega
        · intro p hp
          refine ⟨(hi.pend p hp).1, ?_⟩
          intro hmem
          rcases List.mem_cons.1 hmem with heq | hmem
          · have : p ∈ s.pending.filter (mine w.g) := List.mem_filter.2 ⟨hp, by simp [mine, heq]⟩
            rw [hempty] at this; cases this
          · exact (hi.pend p hp).2 hmem
      · cases h
        refine ⟨own_of_count hi.own ?_, ?_, ?_, hi.del, hi.fail⟩
        · intro a; simp only [owners_count, List.map_cons, List.count_cons, hc a]; (try simp); (try omega)
        · have := hi.cnt; dsimp only at *; simp only [filter_act_cons] at *; (try dsimp only at *); (try simp only [Bool.false_eq_true, if_false] at *); omega
        · intro p hp
          exact hi.pend p (List.mem_filter.1 hp).1
    · cases h
  · cases h

/-- `delay_processing.push(group).unwrap()` never fails: when the activation task of the delayed
group reaches the push, the queue is empty. -/
theorem delay_slot_free {G : Graph} {s : State} {g : Group} {w : Worker} {rest : List Worker} (hi : Inv G s)
    (htw : takeWorker g s.workers = some (w, rest)) (hd : mustDelay G w = true) : s.delayed = none := by
  cases hdl : s.delayed with
  | none => rfl
  | some dl =>
    obtain ⟨d, lq⟩ := dl
    exfalso
    have h1 := (hi.del d lq hdl).1
    have h2 : G.isDelayed w.g = true := by simp [mustDelay] at hd; exact hd.2
    have hdw : d = w.g := by
      simp [Graph.isDelayed] at h1 h2
      rw [h1] at h2; exact Option.some.inj h2
    have h3 := count_le_one_of_own hi.own w.g
    have hc := takeWorker_count htw w.g
    rw [owners_count, hc, hdl] at h3
    simp [delayedOwner, hdw] at h3 <;> omega

theorem inv_delay {G : Graph} {s s' : State} {g : Group} (hi : Inv G s) (h : stepDelay G s g = some s') :
    Inv G s' := by
  unfold stepDelay at h
  split at h
  · rename_i w rest htw
    have hc := takeWorker_count htw
    have ha := takeWorker_act htw
    split at h
    · rename_i hcond
      have hnone := delay_slot_free hi htw hcond.2
      have hact : w.act = true := by have := hcond.2; simp [mustDelay] at this; exact this.1
      have hdel : G.isDelayed w.g = true := by have := hcond.2; simp [mustDelay] at this; exact this.2
      cases h
      refine ⟨own_of_count hi.own ?_, ?_, hi.pend, ?_, hi.fail⟩
      · intro a; simp only [owners_count, List.map_cons, List.count_cons, hc a, hnone, delayedOwner]; (try simp); (try omega)
      · have := hi.cnt; rw [hact] at ha; dsimp only at *; simp only [if_true] at ha; omega
      · intro d lq hd
        simp only [Option.some.injEq, Prod.mk.injEq] at hd
        refine ⟨by rw [← hd.1]; exact hdel, ?_⟩
        have := hi.cnt; rw [hact] at ha; dsimp only at *; simp only [if_true] at ha; omega
    · cases h
  · cases h

theorem inv_finish {G : Graph} {s s' : State} (hi : Inv G s) (h : stepFinish G s = some s') : Inv G s' := by
  unfold stepFinish at h
  split at h
  · rename_i hpos
    split at h
    · split at h
      · rename_i d lq hdl
        cases h
        refine ⟨own_of_count hi.own ?_, ?_, hi.pend, ?_, hi.fail⟩
        · intro a; simp only [owners_count, List.map_cons, List.count_cons, hdl, delayedOwner]; (try simp); (try omega)
        · have := hi.cnt; dsimp only at *; simp only [filter_act_cons] at *; (try simp only [Bool.false_eq_true, if_false] at *); omega
        · intro d' lq' hd; cases hd
      · rename_i hdl
        cases h
        refine ⟨own_of_count hi.own ?_, ?_, hi.pend, ?_, hi.fail⟩
        · intro a; simp only [owners_count]
        · have := hi.cnt; simp only at *; omega
        · intro d' lq' hd; simp only at hd; rw [hdl] at hd; cases hd
    · rename_i hne
      cases h
      refine ⟨own_of_count hi.own ?_, ?_, hi.pend, ?_, hi.fail⟩
      · intro a; simp only [owners_count]
      · have := hi.cnt; simp only at *; omega
      · intro d' lq' hd
        exact ⟨(hi.del d' lq' hd).1, by simp only; omega⟩
  · cases h

theorem inv_error {G : Graph} {s s' : State} {g : Group} (hi : Inv G s) (h : stepError G s g = some s') :
    Inv G s' := by
  unfold stepError at h
  split at h
  · rename_i w rest htw
    have hc := takeWorker_count htw
    have ha := takeWorker_act htw
    cases h
    refine ⟨own_of_count hi.own ?_, ?_, hi.pend, hi.del, fun _ => rfl⟩
    · intro a; simp only [owners_count, List.map_cons, List.count_cons, hc a]; (try simp); (try omega)
    · have := hi.cnt; dsimp only at *; (try simp only [filter_act_cons] at *); omega
  · cases h

/-- The invariant is preserved by every transition. -/
theorem inv_step {G : Graph} {s s' : State} {e : Event} (hi : Inv G s) (h : step? G s e = some s') : Inv G s' := by
  cases e with
  | activate g => exact inv_activate hi h
  | claim g => exact inv_claim hi h
  | send g => exact inv_send hi h
  | pop g i => exact inv_pop hi h
  | parkOrSwap g => exact inv_parkOrSwap hi h
  | delay g => exact inv_delay hi h
  | finish => exact inv_finish hi h
  | error g => exact inv_error hi h

/-- Reachability by any sequence of events (any interleaving). -/
inductive Reachable (G : Graph) : State → Prop
  | init : Reachable G (init G)
  | step {s s' : State} {e : Event} : Reachable G s → step? G s e = some s' → Reachable G s'

theorem inv_reachable {G : Graph} {s : State} (h : Reachable G s) : Inv G s := by
  induction h with
  | init => exact inv_init G
  | step _ hs ih => exact inv_step ih hs


/-! ## Safety corollaries -/

/-- (S1) In every reachable state every group state has exactly one owner: the list of owners
(unborn activation tasks, running/spawned tasks, parked workers, `delay_processing`, dropped) has no
duplicates and contains exactly the groups. In particular no two tasks own the same group and a
parked group is not simultaneously running. -/
theorem single_owner {G : Graph} {s : State} (h : Reachable G s) :
    (owners s).Nodup ∧ ∀ g, g ∈ owners s ↔ g < G.numGroups := by
  have hi := inv_reachable h
  exact ⟨(hi.own.nodup_iff).2 List.nodup_range, fun g => by rw [hi.own.mem_iff]; simp⟩

/-- (S1, task form) two different positions of the task list never own the same group. -/
theorem workers_nodup {G : Graph} {s : State} (h : Reachable G s) : (s.workers.map (·.g)).Nodup := by
  have := (single_owner h).1
  unfold owners at this
  exact (List.nodup_append.1 (List.nodup_append.1 this).2.1).1

/-- (I) Work pending in the slot of `g` implies that no worker is parked in that slot (and `g` is an
existing group): by (S1) the group state is then owned by a task that has not yet activated, is
running, is delayed or was dropped by an error, and each of the first three inspects the slot under
its lock before it can park. -/
theorem pending_not_parked {G : Graph} {s : State} (h : Reachable G s) (g : Group) (i : Item)
    (hp : (g, i) ∈ s.pending) : g ∉ s.parked ∧ g < G.numGroups :=
  ⟨((inv_reachable h).pend _ hp).2, ((inv_reachable h).pend _ hp).1⟩

/-- Error path: if a task dropped its group state, the link reports failure. -/
theorem dropped_implies_failure {G : Graph} {s : State} (h : Reachable G s) (g : Group) (hg : g ∈ s.dropped) :
    linkFails s = true :=
  (inv_reachable h).fail (List.ne_nil_of_mem hg)

/-! ## Terminal states -/

private theorem takeWorker_head (w : Worker) (ws : List Worker) : takeWorker w.g (w :: ws) = some (w, ws) := by
  simp [takeWorker]

/-- No step is enabled iff there is no unborn activation task, no task and no pending epilogue:
every existing task can always take a step (no task ever blocks; the slot mutex is only held inside
a step). -/
theorem terminal_iff (G : Graph) (s : State) : Terminal G s ↔ isTerminal s = true := by
  constructor
  · intro ht
    have hu : s.unborn = [] := by
      cases hu : s.unborn with
      | nil => rfl
      | cons g gs =>
        have := ht (.activate g)
        simp [step?, stepActivate, hu] at this
    have hf : s.finishing = 0 := by
      cases hf : s.finishing with
      | zero => rfl
      | succ n =>
        have := ht .finish
        simp only [step?, stepFinish, hf] at this
        split at this
        · split at this
          · split at this <;> cases this
          · cases this
        · omega
    have hw : s.workers = [] := by
      cases hw : s.workers with
      | nil => rfl
      | cons w ws =>
        exfalso
        have htw := takeWorker_head w ws
        cases hob : w.outbox with
        | cons t ob =>
          obtain ⟨r, c⟩ := t
          by_cases hn : needsClaim G (r, c) = true
          · have := ht (.claim w.g)
            simp only [step?, stepClaim, hw, htw, hob, hn, if_true] at this
            split at this <;> cases this
          · have := ht (.send w.g)
            simp only [step?, stepSend, hw, htw, hob, hn] at this
            simp only [Bool.false_eq_true, if_false] at this
            split at this
            · cases this
            · split at this
              · split at this <;> cases this
              · cases this
        | nil =>
          by_cases hm : mustDelay G w = true
          · have := ht (.delay w.g)
            simp [step?, stepDelay, hw, htw, hob, hm] at this
          · have hm' : mustDelay G w = false := by simpa using hm
            cases hl : w.localq with
            | cons i q =>
              have := ht (.pop w.g i)
              simp [step?, stepPop, hw, htw, hob, hm', hl] at this
            | nil =>
              have := ht (.parkOrSwap w.g)
              simp only [step?, stepParkOrSwap, hw, htw, hob, hm', hl, and_self, if_true] at this
              split at this <;> cases this
    simp [isTerminal, hu, hf, hw]
  · intro ht e
    simp [isTerminal] at ht
    obtain ⟨⟨hu, hw⟩, hf⟩ := ht
    cases e <;> simp [step?, stepActivate, stepClaim, stepSend, stepPop, stepParkOrSwap, stepDelay, stepFinish, stepError,
      takeWorker, hu, hw, hf]

/-- (S2/S3, protocol part) When the rayon scope ends (no task can step) after any interleaving, and
the link does not report failure: no work is left in any slot, `delay_processing` is empty, no
group state was dropped and every group state is parked in its slot – `unwrap_worker_states` finds
all of them. -/
theorem terminal_quiescent {G : Graph} {s : State} (h : Reachable G s) (ht : Terminal G s)
    (hok : linkFails s = false) :
    s.pending = [] ∧ s.delayed = none ∧ s.dropped = [] ∧ (∀ g, g < G.numGroups → g ∈ s.parked) ∧
      quiescent G s = true := by
  have hi := inv_reachable h
  have hT := (terminal_iff G s).1 ht
  simp [isTerminal] at hT
  obtain ⟨⟨hu, hw⟩, hf⟩ := hT
  have hact : s.actRemaining = 0 := by have := hi.cnt; simp [hu, hw, hf] at this; exact this
  have hdel : s.delayed = none := by
    cases hd : s.delayed with
    | none => rfl
    | some dl => obtain ⟨d, lq⟩ := dl; have := (hi.del d lq hd).2; omega
  have hdrop : s.dropped = [] := by
    cases hd : s.dropped with
    | nil => rfl
    | cons a as =>
      have := hi.fail (by simp [hd])
      simp [linkFails] at hok; simp [hok] at this
  have hpk : ∀ g, g < G.numGroups → g ∈ s.parked := by
    intro g hg
    have : g ∈ owners s := by rw [hi.own.mem_iff]; simpa using hg
    simpa [owners, hu, hw, hdel, hdrop, delayedOwner] using this
  have hpend : s.pending = [] := by
    cases hp : s.pending with
    | nil => rfl
    | cons p ps =>
      have := hi.pend p (by simp [hp])
      exact absurd (hpk _ this.1) this.2
  refine ⟨hpend, hdel, hdrop, hpk, ?_⟩
  simp [quiescent, hpend, hdel, hdrop]
  intro g hg
  exact hpk g hg


/-! ## Termination: a measure that strictly decreases on every step -/

/-- weight of a freshly generated request -/
def freshCost (G : Graph) (r : Req) : Nat := if G.isOnce r.item then 1 else 5
/-- weight of everything an item can generate -/
def genW (G : Graph) (i : Item) : Nat := ((G.genOf i).map (freshCost G)).sum
/-- weight of an item waiting in a local queue -/
def bItem (G : Graph) (i : Item) : Nat := 1 + (if G.isOnce i then genW G i else 0)
/-- weight of a request waiting in an outbox -/
def costTag (G : Graph) (t : Req × Bool) : Nat := if needsClaim G t then 1 else bItem G t.1.item + 4
def unbornW (G : Graph) (g : Group) : Nat := 6 + ((G.rootsOf g).map (freshCost G)).sum
def workerW (G : Graph) (w : Worker) : Nat :=
  (if w.act then 5 else 2) + ((w.localq.map (bItem G)).sum + (w.outbox.map (costTag G)).sum)
def pendW (G : Graph) (p : Group × Item) : Nat := bItem G p.2 + 1
def delayedW (G : Graph) : Option (Group × List Item) → Nat
  | some (_, lq) => 3 + (lq.map (bItem G)).sum
  | none => 0
/-- credit of an item whose generation has not happened yet: a symbol that no sender has claimed,
a section that has not been scanned -/
def credit (G : Graph) (fl pr : List Item) (i : Item) : Nat :=
  if G.isOnce i then (if i ∈ fl then 0 else bItem G i + 4) else (if i ∈ pr then 0 else genW G i)
def creditSum (G : Graph) (fl pr : List Item) : Nat := ((List.range G.numItems).map (credit G fl pr)).sum

/-- The termination measure (a plain natural number). -/
def measure (G : Graph) (s : State) : Nat :=
  (s.unborn.map (unbornW G)).sum + ((s.workers.map (workerW G)).sum + (s.finishing +
    ((s.pending.map (pendW G)).sum + (delayedW G s.delayed + creditSum G s.flagged s.processed))))

private theorem sum_map_le {α : Type} (l : List α) (f g : α → Nat) (h : ∀ x ∈ l, f x ≤ g x) :
    (l.map f).sum ≤ (l.map g).sum := by
  induction l with
  | nil => simp
  | cons a as ih =>
    simp only [List.map_cons, List.sum_cons]
    have := h a (by simp)
    have := ih (fun x hx => h x (by simp [hx]))
    omega

private theorem sum_map_add_le {α : Type} (l : List α) (f g : α → Nat) (x : α) (k : Nat) (hx : x ∈ l)
    (h : ∀ y ∈ l, f y ≤ g y) (hk : f x + k ≤ g x) : (l.map f).sum + k ≤ (l.map g).sum := by
  induction l with
  | nil => cases hx
  | cons a as ih =>
    simp only [List.map_cons, List.sum_cons]
    rcases List.mem_cons.1 hx with rfl | hx'
    · have := sum_map_le as f g (fun y hy => h y (by simp [hy]))
      omega
    · have := h a (by simp)
      have := ih hx' (fun y hy => h y (by simp [hy]))
      omega

private theorem sum_erase {α : Type} [DecidableEq α] (l : List α) (f : α → Nat) (x : α) (hx : x ∈ l) :
    (l.map f).sum = f x + ((l.erase x).map f).sum := by
  have := ((List.perm_cons_erase hx).map f).sum_nat
  simpa using this

private theorem sum_filter_split {α : Type} (l : List α) (f : α → Nat) (p : α → Bool) :
    (l.map f).sum = ((l.filter p).map f).sum + ((l.filter (fun x => !p x)).map f).sum := by
  induction l with
  | nil => simp
  | cons a as ih =>
    simp only [List.filter_cons, List.map_cons, List.sum_cons]
    cases hp : p a <;> simp [ih] <;> omega

private theorem takeWorker_sum {g : Group} {ws : List Worker} {w : Worker} {rest : List Worker}
    (h : takeWorker g ws = some (w, rest)) (f : Worker → Nat) : (ws.map f).sum = f w + (rest.map f).sum := by
  have := ((takeWorker_perm h).1.map f).sum_nat
  simpa using this

private theorem costTag_fresh (G : Graph) (r : Req) : costTag G (r, false) = freshCost G r := by
  unfold costTag needsClaim freshCost bItem
  cases G.isOnce r.item <;> simp

private theorem sum_tag (G : Graph) (rs : List Req) : ((tag rs).map (costTag G)).sum = (rs.map (freshCost G)).sum := by
  induction rs with
  | nil => simp [tag]
  | cons r rs ih =>
    simp only [tag, List.map_cons, List.sum_cons, costTag_fresh] at *
    omega

private theorem credit_mono (G : Graph) {fl fl' pr pr' : List Item} (hf : ∀ x ∈ fl, x ∈ fl') (hp : ∀ x ∈ pr, x ∈ pr')
    (j : Item) : credit G fl' pr' j ≤ credit G fl pr j := by
  unfold credit
  split
  · by_cases h : j ∈ fl
    · simp [h, hf j h]
    · simp only [h, if_false]; split <;> omega
  · by_cases h : j ∈ pr
    · simp [h, hp j h]
    · simp only [h, if_false]; split <;> omega

private theorem creditSum_mono (G : Graph) {fl fl' pr pr' : List Item} (hf : ∀ x ∈ fl, x ∈ fl') (hp : ∀ x ∈ pr, x ∈ pr') :
    creditSum G fl' pr' ≤ creditSum G fl pr :=
  sum_map_le _ _ _ (fun j _ => credit_mono G hf hp j)

private theorem creditSum_claim (G : Graph) (fl pr : List Item) (i : Item) (ho : G.isOnce i = true) (hi : i ∉ fl) :
    creditSum G (i :: fl) pr + (bItem G i + 4) ≤ creditSum G fl pr := by
  have hlt : i < G.numItems := by simp [Graph.isOnce] at ho; exact ho.1
  apply sum_map_add_le _ _ _ i _ (List.mem_range.2 hlt)
  · intro j _; exact credit_mono G (fun x hx => List.mem_cons_of_mem _ hx) (fun x hx => hx) j
  · simp [credit, ho, hi]

private theorem genW_out_of_range (G : Graph) (i : Item) (h : ¬ i < G.numItems) : genW G i = 0 := by
  simp [genW, Graph.genOf, h]

private theorem creditSum_pop (G : Graph) (fl pr : List Item) (i : Item) (ho : G.isOnce i = false) (hi : i ∉ pr) :
    creditSum G fl (i :: pr) + genW G i ≤ creditSum G fl pr := by
  by_cases hlt : i < G.numItems
  · apply sum_map_add_le _ _ _ i _ (List.mem_range.2 hlt)
    · intro j _; exact credit_mono G (fun x hx => hx) (fun x hx => List.mem_cons_of_mem _ hx) j
    · simp [credit, ho, hi]
  · rw [genW_out_of_range G i hlt]
    exact creditSum_mono G (fun x hx => hx) (fun x hx => List.mem_cons_of_mem _ hx)

private theorem bItem_pos (G : Graph) (i : Item) : 1 ≤ bItem G i := by unfold bItem; omega

private theorem workerW_pos (G : Graph) (w : Worker) : 2 ≤ workerW G w := by unfold workerW; split <;> omega


private theorem needsClaim_true {G : Graph} {r : Req} {c : Bool} (h : needsClaim G (r, c) = true) :
    G.isOnce r.item = true ∧ c = false := by
  simp [needsClaim] at h; exact h

private theorem costTag_claimed (G : Graph) (r : Req) : costTag G (r, true) = bItem G r.item + 4 := by
  simp [costTag, needsClaim]

theorem measure_activate {G : Graph} {s s' : State} {g : Group} (h : stepActivate G s g = some s') :
    measure G s' < measure G s := by
  unfold stepActivate at h
  split at h
  · rename_i hg
    cases h
    have h1 := sum_erase s.unborn (unbornW G) g hg
    simp only [measure, List.map_cons, List.sum_cons, workerW, sum_tag, List.map_nil, List.sum_nil, if_true]
    rw [h1]; unfold unbornW; omega
  · cases h

theorem measure_claim {G : Graph} {s s' : State} {g : Group} (h : stepClaim G s g = some s') :
    measure G s' < measure G s := by
  unfold stepClaim at h
  split at h
  · rename_i w rest htw
    have hs := takeWorker_sum htw (workerW G)
    split at h
    · rename_i r c ob hob
      split at h
      · rename_i hn
        obtain ⟨ho, hc⟩ := needsClaim_true hn
        subst hc
        have hw : workerW G w = (if w.act then 5 else 2) + ((w.localq.map (bItem G)).sum + (1 + (ob.map (costTag G)).sum)) := by
          simp only [workerW, hob, List.map_cons, List.sum_cons, costTag, hn, if_true]
        split at h
        · cases h
          simp only [measure, List.map_cons, List.sum_cons]
          rw [hs, hw]; simp only [workerW]; omega
        · rename_i hfl
          cases h
          have hcr := creditSum_claim G s.flagged s.processed r.item ho hfl
          simp only [measure, List.map_cons, List.sum_cons]
          rw [hs, hw]; simp only [workerW, List.map_cons, List.sum_cons, costTag_claimed]; omega
      · cases h
    · cases h
  · cases h

theorem measure_send {G : Graph} {s s' : State} {g : Group} (h : stepSend G s g = some s') :
    measure G s' < measure G s := by
  unfold stepSend at h
  split at h
  · rename_i w rest htw
    have hs := takeWorker_sum htw (workerW G)
    split at h
    · rename_i r c ob hob
      split at h
      · cases h
      · rename_i hn
        have hw : workerW G w = (if w.act then 5 else 2) + ((w.localq.map (bItem G)).sum + ((bItem G r.item + 4) + (ob.map (costTag G)).sum)) := by
          simp only [workerW, hob, List.map_cons, List.sum_cons, costTag, hn]; simp
        split at h
        · cases h
          simp only [measure, List.map_cons, List.sum_cons]
          rw [hs, hw]; simp only [workerW, List.map_cons, List.sum_cons]; omega
        · split at h
          · split at h
            · cases h
              simp only [measure, List.map_cons, List.sum_cons]
              rw [hs, hw]; simp only [workerW, pendW, List.map_nil, List.sum_nil]; simp; omega
            · cases h
              simp only [measure, List.map_cons, List.sum_cons]
              rw [hs, hw]; simp only [workerW, pendW]; omega
          · cases h
            simp only [measure, List.map_cons, List.sum_cons]
            rw [hs, hw]; simp only [workerW]; omega
    · cases h
  · cases h

theorem measure_pop {G : Graph} {s s' : State} {g : Group} {i : Item} (h : stepPop G s g i = some s') :
    measure G s' < measure G s := by
  unfold stepPop at h
  split at h
  · rename_i w rest htw
    have hs := takeWorker_sum htw (workerW G)
    split at h
    · rename_i hcond
      obtain ⟨hob, hmem, _⟩ := hcond
      cases h
      have hl := sum_erase w.localq (bItem G) i hmem
      have hw : workerW G w = (if w.act then 5 else 2) + ((bItem G i + ((w.localq.erase i).map (bItem G)).sum) + 0) := by
        simp only [workerW, hob, List.map_nil, List.sum_nil]; rw [hl]
      simp only [measure, List.map_cons, List.sum_cons]
      rw [hs, hw]
      by_cases ho : G.isOnce i = true
      · have hcr := creditSum_mono G (fl := s.flagged) (fl' := s.flagged) (pr := s.processed) (pr' := i :: s.processed)
          (fun x hx => hx) (fun x hx => List.mem_cons_of_mem _ hx)
        simp only [workerW, ho, Bool.not_true, Bool.false_and, Bool.false_eq_true, if_false, sum_tag]
        have : bItem G i = 1 + genW G i := by simp [bItem, ho]
        unfold genW at this; omega
      · have ho' : G.isOnce i = false := by simpa using ho
        by_cases hp : i ∈ s.processed
        · have hcr := creditSum_mono G (fl := s.flagged) (fl' := s.flagged) (pr := s.processed) (pr' := i :: s.processed)
            (fun x hx => hx) (fun x hx => List.mem_cons_of_mem _ hx)
          have := bItem_pos G i
          simp only [workerW, ho', hp, Bool.not_false, Bool.true_and, decide_true, if_true, List.map_nil, List.sum_nil]
          omega
        · have hcr := creditSum_pop G s.flagged s.processed i ho' hp
          have : bItem G i = 1 := by simp [bItem, ho']
          simp only [workerW, ho', hp, Bool.not_false, Bool.true_and, decide_false, Bool.false_eq_true, if_false, sum_tag]
          unfold genW at hcr; omega
    · cases h
  · cases h

private theorem sum_pend_filter (G : Graph) (l : List (Group × Item)) :
    (l.map (pendW G)).sum = ((l.map (·.2)).map (bItem G)).sum + l.length := by
  induction l with
  | nil => simp
  | cons a as ih => simp only [List.map_cons, List.sum_cons, List.length_cons, pendW] at *; omega

theorem measure_parkOrSwap {G : Graph} {s s' : State} {g : Group} (h : stepParkOrSwap G s g = some s') :
    measure G s' < measure G s := by
  unfold stepParkOrSwap at h
  split at h
  · rename_i w rest htw
    have hs := takeWorker_sum htw (workerW G)
    split at h
    · rename_i hcond
      obtain ⟨hob, hlq, _⟩ := hcond
      have hw : workerW G w = (if w.act then 5 else 2) := by
        simp [workerW, hob, hlq]
      split at h
      · cases h
        simp only [measure]
        rw [hs, hw]; split <;> omega
      · rename_i hne
        cases h
        have hsp := sum_filter_split s.pending (pendW G) (mine w.g)
        have hpf := sum_pend_filter G (s.pending.filter (mine w.g))
        have hlen : 0 < (s.pending.filter (mine w.g)).length := List.length_pos_iff.2 hne
        simp only [measure, List.map_cons, List.sum_cons]
        rw [hs, hw]; simp only [workerW, hob, List.map_nil, List.sum_nil]
        omega
    · cases h
  · cases h

theorem measure_delay {G : Graph} {s s' : State} {g : Group} (h : stepDelay G s g = some s') (hd : s.delayed = none) :
    measure G s' < measure G s := by
  unfold stepDelay at h
  split at h
  · rename_i w rest htw
    have hs := takeWorker_sum htw (workerW G)
    split at h
    · rename_i hcond
      obtain ⟨hob, hm⟩ := hcond
      have hact : w.act = true := by simp [mustDelay] at hm; exact hm.1
      have hw : workerW G w = 5 + (w.localq.map (bItem G)).sum := by
        simp only [workerW, hob, hact, List.map_nil, List.sum_nil, if_true]; omega
      cases h
      simp only [measure, delayedW, hd]
      rw [hs, hw]; omega
    · cases h
  · cases h

theorem measure_finish {G : Graph} {s s' : State} (h : stepFinish G s = some s') : measure G s' < measure G s := by
  unfold stepFinish at h
  split at h
  · rename_i hpos
    split at h
    · split at h
      · rename_i d lq hdl
        cases h
        simp only [measure, List.map_cons, List.sum_cons, hdl, delayedW, workerW, List.map_nil, List.sum_nil]
        simp; omega
      · cases h
        simp only [measure]; omega
    · cases h
      simp only [measure]; omega
  · cases h

theorem measure_error {G : Graph} {s s' : State} {g : Group} (h : stepError G s g = some s') :
    measure G s' < measure G s := by
  unfold stepError at h
  split at h
  · rename_i w rest htw
    have hs := takeWorker_sum htw (workerW G)
    cases h
    simp only [measure]
    rw [hs]
    unfold workerW
    split <;> omega
  · cases h

/-- (T) Every transition from a state satisfying the invariant strictly decreases the measure. -/
theorem measure_decreases {G : Graph} {s s' : State} {e : Event} (hi : Inv G s) (h : step? G s e = some s') :
    measure G s' < measure G s := by
  cases e with
  | activate g => exact measure_activate h
  | claim g => exact measure_claim h
  | send g => exact measure_send h
  | pop g i => exact measure_pop h
  | parkOrSwap g => exact measure_parkOrSwap h
  | delay g =>
    have h' : stepDelay G s g = some s' := h
    unfold stepDelay at h'
    split at h'
    · rename_i w rest htw
      split at h'
      · rename_i hcond
        exact measure_delay h (delay_slot_free hi htw hcond.2)
      · cases h'
    · cases h'
  | finish => exact measure_finish h
  | error g => exact measure_error h


theorem inv_run {G : Graph} {s s' : State} {es : List Event} (hi : Inv G s) (h : run G s es = some s') : Inv G s' := by
  induction es generalizing s with
  | nil => simp [run] at h; subst h; exact hi
  | cons e es ih =>
    simp only [run] at h
    split at h
    · rename_i s1 hs1; exact ih (inv_step hi hs1) h
    · cases h

theorem reachable_run {G : Graph} {s s' : State} {es : List Event} (hr : Reachable G s) (h : run G s es = some s') :
    Reachable G s' := by
  induction es generalizing s with
  | nil => simp [run] at h; subst h; exact hr
  | cons e es ih =>
    simp only [run] at h
    split at h
    · rename_i s1 hs1; exact ih (Reachable.step hr hs1) h
    · cases h

/-- (T, quantitative) An execution of `n` events from `s` ends in a state whose measure is at least
`n` smaller: no schedule can make the traversal take more than `measure G s` steps. -/
theorem run_length_le {G : Graph} {s s' : State} {es : List Event} (hi : Inv G s) (h : run G s es = some s') :
    es.length + measure G s' ≤ measure G s := by
  induction es generalizing s with
  | nil => simp [run] at h; subst h; simp
  | cons e es ih =>
    simp only [run] at h
    split at h
    · rename_i s1 hs1
      have h1 := measure_decreases hi hs1
      have h2 := ih (inv_step hi hs1) h
      simp only [List.length_cons]; omega
    · cases h

/-- (T) There is no infinite execution, whatever the request graph, the number of groups and the
interleaving: the traversal always finishes. -/
theorem terminates (G : Graph) :
    ¬ ∃ (st : Nat → State) (ev : Nat → Event), st 0 = init G ∧ ∀ k, step? G (st k) (ev k) = some (st (k + 1)) := by
  rintro ⟨st, ev, h0, hstep⟩
  have key : ∀ k, Inv G (st k) ∧ measure G (st k) + k ≤ measure G (st 0) := by
    intro k
    induction k with
    | zero => exact ⟨by rw [h0]; exact inv_init G, by simp⟩
    | succ k ih =>
      have h1 := measure_decreases ih.1 (hstep k)
      exact ⟨inv_step ih.1 (hstep k), by omega⟩
  have := (key (measure G (st 0) + 1)).2
  omega

/-- Together with `terminal_iff`: every maximal execution is finite and ends in a `Terminal` state. -/
theorem finite_run_reaches_terminal {G : Graph} {s : State} (hi : Inv G s) :
    ∃ es s', run G s es = some s' ∧ Terminal G s' := by
  generalize hm : measure G s = m
  induction m using Nat.strongRecOn generalizing s with
  | _ m ih =>
    by_cases ht : Terminal G s
    · exact ⟨[], s, rfl, ht⟩
    · have : ∃ e, step? G s e ≠ none := by
        apply Classical.byContradiction
        intro hne
        exact ht (fun e => Classical.byContradiction (fun he => hne ⟨e, he⟩))
      obtain ⟨e, he⟩ := this
      cases hs : step? G s e with
      | none => exact absurd hs he
      | some s1 =>
        have hlt := measure_decreases hi hs
        obtain ⟨es, s', hrun, hterm⟩ := ih (measure G s1) (by omega) (inv_step hi hs) rfl
        exact ⟨e :: es, s', by simp [run, hs, hrun], hterm⟩


/-! ## No lost work: the processed set is the closure of the roots -/

/-- The closure of the activation requests under the request graph. -/
inductive Reach (G : Graph) : Item → Prop
  | root {g : Group} {r : Req} : g < G.numGroups → r ∈ G.rootsOf g → Reach G r.item
  | gen {i : Item} {r : Req} : Reach G i → r ∈ G.genOf i → Reach G r.item

theorem ex_take {g : Group} {ws : List Worker} {w : Worker} {rest : List Worker}
    (h : takeWorker g ws = some (w, rest)) (P : Worker → Prop) : (∃ x ∈ ws, P x) ↔ (P w ∨ ∃ x ∈ rest, P x) := by
  constructor
  · rintro ⟨x, hx, hp⟩
    rcases (takeWorker_mem h x).1 hx with rfl | hr
    · exact Or.inl hp
    · exact Or.inr ⟨x, hr, hp⟩
  · rintro (hp | ⟨x, hx, hp⟩)
    · exact ⟨w, (takeWorker_mem h w).2 (Or.inl rfl), hp⟩
    · exact ⟨x, (takeWorker_mem h x).2 (Or.inr hx), hp⟩

theorem all_take {g : Group} {ws : List Worker} {w : Worker} {rest : List Worker}
    (h : takeWorker g ws = some (w, rest)) (P : Worker → Prop) : (∀ x ∈ ws, P x) ↔ (P w ∧ ∀ x ∈ rest, P x) := by
  constructor
  · intro hall
    exact ⟨hall w ((takeWorker_mem h w).2 (Or.inl rfl)), fun x hx => hall x ((takeWorker_mem h x).2 (Or.inr hx))⟩
  · rintro ⟨hw, hr⟩ x hx
    rcases (takeWorker_mem h x).1 hx with rfl | hx'
    · exact hw
    · exact hr x hx'

/-- every item held by a worker satisfies `P` -/
def wAll (P : Item → Prop) (w : Worker) : Prop := (∀ i ∈ w.localq, P i) ∧ ∀ t ∈ w.outbox, P t.1.item

/-- every item anywhere in the state satisfies `P` -/
structure AllItems (P : Item → Prop) (s : State) : Prop where
  wk : ∀ w ∈ s.workers, wAll P w
  pd : ∀ p ∈ s.pending, P p.2
  dl : ∀ d lq, s.delayed = some (d, lq) → ∀ i ∈ lq, P i
  fl : ∀ i ∈ s.flagged, P i
  pr : ∀ i ∈ s.processed, P i

private theorem mem_tag {rs : List Req} {t : Req × Bool} (h : t ∈ tag rs) : t.1 ∈ rs ∧ t.2 = false := by
  simp [tag] at h
  obtain ⟨r, hr, rfl⟩ := h
  exact ⟨hr, rfl⟩

theorem sound_step {G : Graph} {s s' : State} {e : Event} (hi : Inv G s) (hk : AllItems (Reach G) s)
    (h : step? G s e = some s') : AllItems (Reach G) s' := by
  obtain ⟨hwk, hpd, hdl, hfl, hpr⟩ := hk
  cases e with
  | activate g =>
    simp only [step?, stepActivate] at h
    split at h
    · rename_i hg
      cases h
      have hlt : g < G.numGroups := by
        have : g ∈ owners s := by simp [owners, hg]
        rw [hi.own.mem_iff] at this; simpa using this
      refine ⟨?_, hpd, hdl, hfl, hpr⟩
      intro w hw
      rcases List.mem_cons.1 hw with rfl | hw
      · exact ⟨by simp, fun t ht => Reach.root hlt (mem_tag ht).1⟩
      · exact hwk w hw
    · cases h
  | claim g =>
    simp only [step?, stepClaim] at h
    split at h
    · rename_i w rest htw
      have hw := (all_take htw (wAll (Reach G))).1 hwk
      split at h
      · rename_i r c ob hob
        have hwo : ∀ t ∈ (r, c) :: ob, Reach G t.1.item := by rw [← hob]; exact hw.1.2
        split at h
        · split at h <;> cases h
          · refine ⟨?_, hpd, hdl, hfl, hpr⟩
            intro x hx
            rcases List.mem_cons.1 hx with rfl | hx
            · exact ⟨hw.1.1, fun t ht => hwo t (List.mem_cons_of_mem _ ht)⟩
            · exact hw.2 x hx
          · refine ⟨?_, hpd, hdl, ?_, hpr⟩
            · intro x hx
              rcases List.mem_cons.1 hx with rfl | hx
              · refine ⟨hw.1.1, fun t ht => ?_⟩
                rcases List.mem_cons.1 ht with rfl | ht
                · exact hwo (r, c) (by simp)
                · exact hwo t (List.mem_cons_of_mem _ ht)
              · exact hw.2 x hx
            · intro i hi'
              rcases List.mem_cons.1 hi' with rfl | hi'
              · exact hwo (r, c) (by simp)
              · exact hfl i hi'
        · cases h
      · cases h
    · cases h
  | send g =>
    simp only [step?, stepSend] at h
    split at h
    · rename_i w rest htw
      have hw := (all_take htw (wAll (Reach G))).1 hwk
      split at h
      · rename_i r c ob hob
        have hwo : ∀ t ∈ (r, c) :: ob, Reach G t.1.item := by rw [← hob]; exact hw.1.2
        have hr : Reach G r.item := hwo (r, c) (by simp)
        have hob' : ∀ t ∈ ob, Reach G t.1.item := fun t ht => hwo t (List.mem_cons_of_mem _ ht)
        split at h
        · cases h
        · split at h
          · cases h
            refine ⟨?_, hpd, hdl, hfl, hpr⟩
            intro x hx
            rcases List.mem_cons.1 hx with rfl | hx
            · refine ⟨fun i hi' => ?_, hob'⟩
              rcases List.mem_cons.1 hi' with rfl | hi'
              · exact hr
              · exact hw.1.1 i hi'
            · exact hw.2 x hx
          · split at h
            · split at h <;> cases h
              · refine ⟨?_, ?_, hdl, hfl, hpr⟩
                · intro x hx
                  rcases List.mem_cons.1 hx with rfl | hx
                  · exact ⟨by simp, by simp⟩
                  · rcases List.mem_cons.1 hx with rfl | hx
                    · exact ⟨hw.1.1, hob'⟩
                    · exact hw.2 x hx
                · intro p hp
                  rcases List.mem_cons.1 hp with rfl | hp
                  · exact hr
                  · exact hpd p hp
              · refine ⟨?_, ?_, hdl, hfl, hpr⟩
                · intro x hx
                  rcases List.mem_cons.1 hx with rfl | hx
                  · exact ⟨hw.1.1, hob'⟩
                  · exact hw.2 x hx
                · intro p hp
                  rcases List.mem_cons.1 hp with rfl | hp
                  · exact hr
                  · exact hpd p hp
            · cases h
              refine ⟨?_, hpd, hdl, hfl, hpr⟩
              intro x hx
              rcases List.mem_cons.1 hx with rfl | hx
              · exact ⟨hw.1.1, hob'⟩
              · exact hw.2 x hx
      · cases h
    · cases h
  | pop g i =>
    simp only [step?, stepPop] at h
    split at h
    · rename_i w rest htw
      have hw := (all_take htw (wAll (Reach G))).1 hwk
      split at h
      · rename_i hcond
        cases h
        have hri : Reach G i := hw.1.1 i hcond.2.1
        refine ⟨?_, hpd, hdl, hfl, ?_⟩
        · intro x hx
          rcases List.mem_cons.1 hx with rfl | hx
          · refine ⟨fun j hj => hw.1.1 j (List.mem_of_mem_erase hj), fun t ht => ?_⟩
            split at ht
            · cases ht
            · exact Reach.gen hri (mem_tag ht).1
          · exact hw.2 x hx
        · intro j hj
          rcases List.mem_cons.1 hj with rfl | hj
          · exact hri
          · exact hpr j hj
      · cases h
    · cases h
  | parkOrSwap g =>
    simp only [step?, stepParkOrSwap] at h
    split at h
    · rename_i w rest htw
      have hw := (all_take htw (wAll (Reach G))).1 hwk
      split at h
      · split at h <;> cases h
        · exact ⟨hw.2, hpd, hdl, hfl, hpr⟩
        · refine ⟨?_, fun p hp => hpd p (List.mem_filter.1 hp).1, hdl, hfl, hpr⟩
          intro x hx
          rcases List.mem_cons.1 hx with rfl | hx
          · refine ⟨fun j hj => ?_, hw.1.2⟩
            simp only [List.mem_map] at hj
            obtain ⟨p, hp, rfl⟩ := hj
            exact hpd p (List.mem_filter.1 hp).1
          · exact hw.2 x hx
      · cases h
    · cases h
  | delay g =>
    simp only [step?, stepDelay] at h
    split at h
    · rename_i w rest htw
      have hw := (all_take htw (wAll (Reach G))).1 hwk
      split at h
      · cases h
        refine ⟨hw.2, hpd, ?_, hfl, hpr⟩
        intro d lq hd j hj
        simp only [Option.some.injEq, Prod.mk.injEq] at hd
        rw [← hd.2] at hj
        exact hw.1.1 j hj
      · cases h
    · cases h
  | finish =>
    simp only [step?, stepFinish] at h
    split at h
    · split at h
      · split at h
        · rename_i d lq hd
          cases h
          refine ⟨?_, hpd, (fun _ _ hd' => by cases hd'), hfl, hpr⟩
          intro x hx
          rcases List.mem_cons.1 hx with rfl | hx
          · exact ⟨hdl d lq hd, by simp⟩
          · exact hwk x hx
        · cases h; exact ⟨hwk, hpd, hdl, hfl, hpr⟩
      · cases h; exact ⟨hwk, hpd, hdl, hfl, hpr⟩
    · cases h
  | error g =>
    simp only [step?, stepError] at h
    split at h
    · rename_i w rest htw
      have hw := (all_take htw (wAll (Reach G))).1 hwk
      cases h
      exact ⟨hw.2, hpd, hdl, hfl, hpr⟩
    · cases h

/-- (S3, ⊆) Whatever the interleaving, only items in the closure of the roots are ever processed
(or even requested). -/
theorem processed_sound {G : Graph} {s : State} (h : Reachable G s) : ∀ i ∈ s.processed, Reach G i := by
  suffices AllItems (Reach G) s from this.pr
  induction h with
  | init => refine ⟨?_, ?_, ?_, ?_, ?_⟩ <;> simp [init]
  | step hr hs ih => exact sound_step (inv_reachable hr) ih hs


/-! ### Completeness: nothing that was requested is ever forgotten -/

/-- the item is held by the worker in a form that will be processed without further conditions -/
def wLive (G : Graph) (w : Worker) (i : Item) : Prop :=
  i ∈ w.localq ∨ ∃ t ∈ w.outbox, needsClaim G t = false ∧ t.1.item = i
/-- the item is in the worker's outbox as a symbol request whose flag has not been tested yet -/
def wWait (G : Graph) (w : Worker) (i : Item) : Prop := ∃ t ∈ w.outbox, needsClaim G t = true ∧ t.1.item = i
/-- the item is in flight: in a slot, in a local queue, in an outbox (claimed / no claim needed), or
in the local queue of the delayed group -/
def live (G : Graph) (s : State) (i : Item) : Prop :=
  (∃ p ∈ s.pending, p.2 = i) ∨ (∃ w ∈ s.workers, wLive G w i) ∨ (∃ d lq, s.delayed = some (d, lq) ∧ i ∈ lq)
def waiting (G : Graph) (s : State) (i : Item) : Prop := ∃ w ∈ s.workers, wWait G w i
/-- accounted for: processed or in flight -/
def acc (G : Graph) (s : State) (i : Item) : Prop := i ∈ s.processed ∨ live G s i

/-- The "no request is lost" invariant (valid as long as no error dropped a group state). -/
structure Complete (G : Graph) (s : State) : Prop where
  v : ∀ w ∈ s.workers, ∀ t ∈ w.outbox, t.1.to < G.numGroups
  j1 : ∀ i ∈ s.flagged, G.isOnce i = true → acc G s i
  j2 : ∀ i ∈ s.processed, ∀ r ∈ G.genOf i, acc G s r.item ∨ waiting G s r.item
  j3 : ∀ g, g < G.numGroups → g ∉ s.unborn → ∀ r ∈ G.rootsOf g, acc G s r.item ∨ waiting G s r.item

theorem complete_init (G : Graph) : Complete G (init G) := by
  refine ⟨?_, ?_, ?_, ?_⟩ <;> simp [init]
  intro g hg hn; omega

private theorem complete_of_mono {G : Graph} {s s' : State} (hc : Complete G s)
    (hA : ∀ i, acc G s i → acc G s' i)
    (hW : ∀ i, waiting G s i → waiting G s' i ∨ acc G s' i)
    (hv : ∀ w ∈ s'.workers, ∀ t ∈ w.outbox, t.1.to < G.numGroups)
    (hfl : ∀ i ∈ s'.flagged, i ∈ s.flagged ∨ acc G s' i)
    (hpr : ∀ i ∈ s'.processed, i ∈ s.processed ∨ ∀ r ∈ G.genOf i, acc G s' r.item ∨ waiting G s' r.item)
    (hun : ∀ g, g < G.numGroups → g ∉ s'.unborn → g ∉ s.unborn ∨ ∀ r ∈ G.rootsOf g, acc G s' r.item ∨ waiting G s' r.item) :
    Complete G s' := by
  refine ⟨hv, ?_, ?_, ?_⟩
  · intro i hi ho
    rcases hfl i hi with h | h
    · exact hA i (hc.j1 i h ho)
    · exact h
  · intro i hi r hr
    rcases hpr i hi with h | h
    · rcases hc.j2 i h r hr with h' | h'
      · exact Or.inl (hA _ h')
      · rcases hW _ h' with h'' | h''
        · exact Or.inr h''
        · exact Or.inl h''
    · exact h r hr
  · intro g hg hn r hr
    rcases hun g hg hn with h | h
    · rcases hc.j3 g hg h r hr with h' | h'
      · exact Or.inl (hA _ h')
      · rcases hW _ h' with h'' | h''
        · exact Or.inr h''
        · exact Or.inl h''
    · exact h r hr

private theorem live_of_worker {G : Graph} {s : State} {x : Worker} {i : Item} (hx : x ∈ s.workers) (h : wLive G x i) :
    live G s i := Or.inr (Or.inl ⟨x, hx, h⟩)

private theorem acc_mono_of {G : Graph} {s s' : State} {g : Group} {w : Worker} {rest : List Worker}
    (htw : takeWorker g s.workers = some (w, rest))
    (hrest : ∀ x ∈ rest, x ∈ s'.workers)
    (hpend : ∀ p ∈ s.pending, p ∈ s'.pending ∨ live G s' p.2)
    (hdel : ∀ d lq, s.delayed = some (d, lq) → ∀ i ∈ lq, live G s' i)
    (hproc : ∀ i ∈ s.processed, i ∈ s'.processed)
    (hw : ∀ i, wLive G w i → acc G s' i) : ∀ i, acc G s i → acc G s' i := by
  intro i h
  rcases h with hp | ⟨p, hp, rfl⟩ | hwk | ⟨d, lq, hd, hi⟩
  · exact Or.inl (hproc i hp)
  · rcases hpend p hp with h | h
    · exact Or.inr (Or.inl ⟨p, h, rfl⟩)
    · exact Or.inr h
  · rcases (ex_take htw (fun x => wLive G x i)).1 hwk with h | ⟨x, hx, h⟩
    · exact hw i h
    · exact Or.inr (live_of_worker (hrest x hx) h)
  · exact Or.inr (hdel d lq hd i hi)

private theorem wait_mono_of {G : Graph} {s s' : State} {g : Group} {w : Worker} {rest : List Worker}
    (htw : takeWorker g s.workers = some (w, rest))
    (hrest : ∀ x ∈ rest, x ∈ s'.workers)
    (hw : ∀ i, wWait G w i → waiting G s' i ∨ acc G s' i) : ∀ i, waiting G s i → waiting G s' i ∨ acc G s' i := by
  intro i h
  rcases (ex_take htw (fun x => wWait G x i)).1 h with h | ⟨x, hx, h⟩
  · exact hw i h
  · exact Or.inl ⟨x, hrest x hx, h⟩

private theorem v_of {G : Graph} {s : State} {g : Group} {w : Worker} {rest : List Worker} (hc : Complete G s)
    (htw : takeWorker g s.workers = some (w, rest)) :
    (∀ t ∈ w.outbox, t.1.to < G.numGroups) ∧ ∀ x ∈ rest, ∀ t ∈ x.outbox, t.1.to < G.numGroups :=
  (all_take htw (fun x => ∀ t ∈ x.outbox, t.1.to < G.numGroups)).1 hc.v

private theorem valid_of_mem_genOf {G : Graph} {i : Item} {r : Req} (h : r ∈ G.genOf i) : r.to < G.numGroups := by
  unfold Graph.genOf at h
  split at h
  · have := (List.mem_filter.1 h).2; simpa [Graph.valid] using this
  · cases h

private theorem valid_of_mem_rootsOf {G : Graph} {g : Group} {r : Req} (h : r ∈ G.rootsOf g) : r.to < G.numGroups := by
  have := (List.mem_filter.1 h).2; simpa [Graph.valid] using this

/-- a freshly tagged request in the outbox of a worker of `s` is live or waiting -/
private theorem fresh_acc {G : Graph} {s : State} {x : Worker} {rs : List Req} {r : Req} (hx : x ∈ s.workers)
    (hob : ∀ r ∈ rs, (r, false) ∈ x.outbox) (hr : r ∈ rs) : acc G s r.item ∨ waiting G s r.item := by
  cases hn : needsClaim G (r, false)
  · exact Or.inl (Or.inr (live_of_worker hx (Or.inr ⟨(r, false), hob r hr, hn, rfl⟩)))
  · exact Or.inr ⟨x, hx, (r, false), hob r hr, hn, rfl⟩

private theorem mem_tag_of {rs : List Req} {r : Req} (h : r ∈ rs) : (r, false) ∈ tag rs := by
  simp only [tag, List.mem_map]; exact ⟨r, h, rfl⟩

theorem complete_activate {G : Graph} {s s' : State} {g : Group} (hc : Complete G s)
    (h : stepActivate G s g = some s') : Complete G s' := by
  unfold stepActivate at h
  split at h
  · rename_i hg
    cases h
    apply complete_of_mono hc
    · intro i h
      rcases h with hp | hp | ⟨x, hx, hl⟩ | hd
      · exact Or.inl hp
      · exact Or.inr (Or.inl hp)
      · exact Or.inr (Or.inr (Or.inl ⟨x, List.mem_cons_of_mem _ hx, hl⟩))
      · exact Or.inr (Or.inr (Or.inr hd))
    · intro i ⟨x, hx, hl⟩
      exact Or.inl ⟨x, List.mem_cons_of_mem _ hx, hl⟩
    · intro x hx t ht
      rcases List.mem_cons.1 hx with rfl | hx
      · exact valid_of_mem_rootsOf (mem_tag ht).1
      · exact hc.v x hx t ht
    · intro i hi; exact Or.inl hi
    · intro i hi; exact Or.inl hi
    · intro g' hg' hn
      by_cases hgg : g' = g
      · subst hgg
        right
        intro r hr
        exact fresh_acc (x := ⟨g', [], tag (G.rootsOf g'), true⟩) (by simp) (fun r hr => mem_tag_of hr) hr
      · left
        intro hmem
        exact hn ((List.mem_erase_of_ne hgg).2 hmem)
  · cases h

theorem complete_claim {G : Graph} {s s' : State} {g : Group} (hc : Complete G s)
    (h : stepClaim G s g = some s') : Complete G s' := by
  unfold stepClaim at h
  split at h
  · rename_i w rest htw
    have hv := v_of hc htw
    split at h
    · rename_i r c ob hob
      split at h
      · rename_i hn
        obtain ⟨ho, hcf⟩ := needsClaim_true hn
        split at h
        · rename_i hfl
          cases h
          have hA : ∀ i, acc G s i → acc G { s with workers := { w with outbox := ob } :: rest } i := by
            apply acc_mono_of htw
            · intro x hx; exact List.mem_cons_of_mem _ hx
            · intro p hp; exact Or.inl hp
            · intro d lq hd i hi; exact Or.inr (Or.inr ⟨d, lq, hd, hi⟩)
            · intro i hi; exact hi
            · intro i hl
              refine Or.inr (live_of_worker (x := { w with outbox := ob }) (by simp) ?_)
              rcases hl with hl | ⟨t, ht, hnt, hti⟩
              · exact Or.inl hl
              · rw [hob] at ht
                rcases List.mem_cons.1 ht with rfl | ht
                · rw [hn] at hnt; cases hnt
                · exact Or.inr ⟨t, ht, hnt, hti⟩
          apply complete_of_mono hc hA
          · apply wait_mono_of htw
            · intro x hx; exact List.mem_cons_of_mem _ hx
            · intro i ⟨t, ht, hnt, hti⟩
              rw [hob] at ht
              rcases List.mem_cons.1 ht with rfl | ht
              · right
                subst hti
                exact hA _ (hc.j1 _ hfl ho)
              · exact Or.inl ⟨{ w with outbox := ob }, by simp, t, ht, hnt, hti⟩
          · intro x hx t ht
            rcases List.mem_cons.1 hx with rfl | hx
            · exact hv.1 t (by rw [hob]; exact List.mem_cons_of_mem _ ht)
            · exact hv.2 x hx t ht
          · intro i hi; exact Or.inl hi
          · intro i hi; exact Or.inl hi
          · intro g' _ hn'; exact Or.inl hn'
        · rename_i hfl
          cases h
          have hnc : needsClaim G (r, true) = false := by simp [needsClaim]
          have hA : ∀ i, acc G s i → acc G { s with workers := { w with outbox := (r, true) :: ob } :: rest,
                                                    flagged := r.item :: s.flagged } i := by
            apply acc_mono_of htw
            · intro x hx; exact List.mem_cons_of_mem _ hx
            · intro p hp; exact Or.inl hp
            · intro d lq hd i hi; exact Or.inr (Or.inr ⟨d, lq, hd, hi⟩)
            · intro i hi; exact hi
            · intro i hl
              refine Or.inr (live_of_worker (x := { w with outbox := (r, true) :: ob }) (by simp) ?_)
              rcases hl with hl | ⟨t, ht, hnt, hti⟩
              · exact Or.inl hl
              · rw [hob] at ht
                rcases List.mem_cons.1 ht with rfl | ht
                · rw [hn] at hnt; cases hnt
                · exact Or.inr ⟨t, List.mem_cons_of_mem _ ht, hnt, hti⟩
          have hlive : acc G { s with workers := { w with outbox := (r, true) :: ob } :: rest,
                                      flagged := r.item :: s.flagged } r.item :=
            Or.inr (live_of_worker (x := { w with outbox := (r, true) :: ob }) (by simp)
              (Or.inr ⟨(r, true), by simp, hnc, rfl⟩))
          apply complete_of_mono hc hA
          · apply wait_mono_of htw
            · intro x hx; exact List.mem_cons_of_mem _ hx
            · intro i ⟨t, ht, hnt, hti⟩
              rw [hob] at ht
              rcases List.mem_cons.1 ht with rfl | ht
              · right; subst hti; exact hlive
              · exact Or.inl ⟨{ w with outbox := (r, true) :: ob }, by simp, t, List.mem_cons_of_mem _ ht, hnt, hti⟩
          · intro x hx t ht
            rcases List.mem_cons.1 hx with rfl | hx
            · rcases List.mem_cons.1 ht with rfl | ht
              · exact hv.1 (r, c) (by rw [hob]; simp)
              · exact hv.1 t (by rw [hob]; exact List.mem_cons_of_mem _ ht)
            · exact hv.2 x hx t ht
          · intro i hi
            rcases List.mem_cons.1 hi with rfl | hi
            · exact Or.inr hlive
            · exact Or.inl hi
          · intro i hi; exact Or.inl hi
          · intro g' _ hn'; exact Or.inl hn'
      · cases h
    · cases h
  · cases h


theorem complete_send {G : Graph} {s s' : State} {g : Group} (hc : Complete G s)
    (h : stepSend G s g = some s') : Complete G s' := by
  unfold stepSend at h
  split at h
  · rename_i w rest htw
    have hv := v_of hc htw
    split at h
    · rename_i r c ob hob
      split at h
      · cases h
      · rename_i hn
        have hn' : needsClaim G (r, c) = false := by simpa using hn
        have hvob : ∀ t ∈ ob, t.1.to < G.numGroups := fun t ht => hv.1 t (by rw [hob]; exact List.mem_cons_of_mem _ ht)
        -- waiting requests of `w` are all in `ob`
        have hwait : ∀ i, wWait G w i → ∃ t ∈ ob, needsClaim G t = true ∧ t.1.item = i := by
          intro i ⟨t, ht, hnt, hti⟩
          rw [hob] at ht
          rcases List.mem_cons.1 ht with rfl | ht
          · rw [hn'] at hnt; cases hnt
          · exact ⟨t, ht, hnt, hti⟩
        split at h
        · -- local push
          cases h
          apply complete_of_mono hc
          · apply acc_mono_of htw
            · intro x hx; exact List.mem_cons_of_mem _ hx
            · intro p hp; exact Or.inl hp
            · intro d lq hd i hi; exact Or.inr (Or.inr ⟨d, lq, hd, hi⟩)
            · intro i hi; exact hi
            · intro i hl
              refine Or.inr (live_of_worker (x := { w with outbox := ob, localq := r.item :: w.localq }) (by simp) ?_)
              rcases hl with hl | ⟨t, ht, hnt, hti⟩
              · exact Or.inl (List.mem_cons_of_mem _ hl)
              · rw [hob] at ht
                rcases List.mem_cons.1 ht with rfl | ht
                · left; subst hti; simp
                · exact Or.inr ⟨t, ht, hnt, hti⟩
          · apply wait_mono_of htw
            · intro x hx; exact List.mem_cons_of_mem _ hx
            · intro i hw
              obtain ⟨t, ht, hnt, hti⟩ := hwait i hw
              exact Or.inl ⟨{ w with outbox := ob, localq := r.item :: w.localq }, by simp, t, ht, hnt, hti⟩
          · intro x hx t ht
            rcases List.mem_cons.1 hx with rfl | hx
            · exact hvob t ht
            · exact hv.2 x hx t ht
          · intro i hi; exact Or.inl hi
          · intro i hi; exact Or.inl hi
          · intro g' _ hn''; exact Or.inl hn''
        · split at h
          · split at h
            · -- slot push, parked worker taken
              cases h
              apply complete_of_mono hc
              · apply acc_mono_of htw
                · intro x hx; exact List.mem_cons_of_mem _ (List.mem_cons_of_mem _ hx)
                · intro p hp; exact Or.inl (List.mem_cons_of_mem _ hp)
                · intro d lq hd i hi; exact Or.inr (Or.inr ⟨d, lq, hd, hi⟩)
                · intro i hi; exact hi
                · intro i hl
                  rcases hl with hl | ⟨t, ht, hnt, hti⟩
                  · exact Or.inr (live_of_worker (x := { w with outbox := ob }) (by simp) (Or.inl hl))
                  · rw [hob] at ht
                    rcases List.mem_cons.1 ht with rfl | ht
                    · subst hti; exact Or.inr (Or.inl ⟨(r.to, r.item), by simp, rfl⟩)
                    · exact Or.inr (live_of_worker (x := { w with outbox := ob }) (by simp) (Or.inr ⟨t, ht, hnt, hti⟩))
              · apply wait_mono_of htw
                · intro x hx; exact List.mem_cons_of_mem _ (List.mem_cons_of_mem _ hx)
                · intro i hw
                  obtain ⟨t, ht, hnt, hti⟩ := hwait i hw
                  exact Or.inl ⟨{ w with outbox := ob }, by simp, t, ht, hnt, hti⟩
              · intro x hx t ht
                rcases List.mem_cons.1 hx with rfl | hx
                · cases ht
                · rcases List.mem_cons.1 hx with rfl | hx
                  · exact hvob t ht
                  · exact hv.2 x hx t ht
              · intro i hi; exact Or.inl hi
              · intro i hi; exact Or.inl hi
              · intro g' _ hn''; exact Or.inl hn''
            · -- slot push, nobody parked
              cases h
              apply complete_of_mono hc
              · apply acc_mono_of htw
                · intro x hx; exact List.mem_cons_of_mem _ hx
                · intro p hp; exact Or.inl (List.mem_cons_of_mem _ hp)
                · intro d lq hd i hi; exact Or.inr (Or.inr ⟨d, lq, hd, hi⟩)
                · intro i hi; exact hi
                · intro i hl
                  rcases hl with hl | ⟨t, ht, hnt, hti⟩
                  · exact Or.inr (live_of_worker (x := { w with outbox := ob }) (by simp) (Or.inl hl))
                  · rw [hob] at ht
                    rcases List.mem_cons.1 ht with rfl | ht
                    · subst hti; exact Or.inr (Or.inl ⟨(r.to, r.item), by simp, rfl⟩)
                    · exact Or.inr (live_of_worker (x := { w with outbox := ob }) (by simp) (Or.inr ⟨t, ht, hnt, hti⟩))
              · apply wait_mono_of htw
                · intro x hx; exact List.mem_cons_of_mem _ hx
                · intro i hw
                  obtain ⟨t, ht, hnt, hti⟩ := hwait i hw
                  exact Or.inl ⟨{ w with outbox := ob }, by simp, t, ht, hnt, hti⟩
              · intro x hx t ht
                rcases List.mem_cons.1 hx with rfl | hx
                · exact hvob t ht
                · exact hv.2 x hx t ht
              · intro i hi; exact Or.inl hi
              · intro i hi; exact Or.inl hi
              · intro g' _ hn''; exact Or.inl hn''
          · -- request to a non-existent group: excluded by `v`
            rename_i hlt
            exact absurd (hv.1 (r, c) (by rw [hob]; simp)) hlt
    · cases h
  · cases h

theorem complete_pop {G : Graph} {s s' : State} {g : Group} {i0 : Item} (hc : Complete G s)
    (h : stepPop G s g i0 = some s') : Complete G s' := by
  unfold stepPop at h
  split at h
  · rename_i w rest htw
    have hv := v_of hc htw
    split at h
    · rename_i hcond
      obtain ⟨hob, hmem, _⟩ := hcond
      cases h
      apply complete_of_mono hc
      · apply acc_mono_of htw
        · intro x hx; exact List.mem_cons_of_mem _ hx
        · intro p hp; exact Or.inl hp
        · intro d lq hd i hi; exact Or.inr (Or.inr ⟨d, lq, hd, hi⟩)
        · intro i hi; exact List.mem_cons_of_mem _ hi
        · intro i hl
          rcases hl with hl | ⟨t, ht, _, _⟩
          · by_cases hii : i = i0
            · subst hii; exact Or.inl (by simp)
            · refine Or.inr (live_of_worker List.mem_cons_self ?_)
              exact Or.inl ((List.mem_erase_of_ne hii).2 hl)
          · rw [hob] at ht; cases ht
      · apply wait_mono_of htw
        · intro x hx; exact List.mem_cons_of_mem _ hx
        · intro i ⟨t, ht, _, _⟩
          rw [hob] at ht; cases ht
      · intro x hx t ht
        rcases List.mem_cons.1 hx with rfl | hx
        · simp only at ht
          split at ht
          · cases ht
          · exact valid_of_mem_genOf (mem_tag ht).1
        · exact hv.2 x hx t ht
      · intro i hi; exact Or.inl hi
      · intro i hi
        rcases List.mem_cons.1 hi with rfl | hi
        · by_cases hdup : (!G.isOnce i && decide (i ∈ s.processed)) = true
          · left
            simp at hdup; exact hdup.2
          · right
            intro r hr
            refine fresh_acc List.mem_cons_self (rs := G.genOf i) ?_ hr
            intro r' hr'
            simp only [hdup]
            exact mem_tag_of hr'
        · exact Or.inl hi
      · intro g' _ hn''; exact Or.inl hn''
    · cases h
  · cases h

theorem complete_parkOrSwap {G : Graph} {s s' : State} {g : Group} (hc : Complete G s)
    (h : stepParkOrSwap G s g = some s') : Complete G s' := by
  unfold stepParkOrSwap at h
  split at h
  · rename_i w rest htw
    have hv := v_of hc htw
    split at h
    · rename_i hcond
      obtain ⟨hob, hlq, _⟩ := hcond
      have hnolive : ∀ i, ¬ wLive G w i := by
        intro i hl
        rcases hl with hl | ⟨t, ht, _, _⟩
        · rw [hlq] at hl; cases hl
        · rw [hob] at ht; cases ht
      have hnowait : ∀ i, ¬ wWait G w i := by
        intro i ⟨t, ht, _, _⟩; rw [hob] at ht; cases ht
      split at h
      · cases h
        apply complete_of_mono hc
        · apply acc_mono_of htw
          · intro x hx; exact hx
          · intro p hp; exact Or.inl hp
          · intro d lq hd i hi; exact Or.inr (Or.inr ⟨d, lq, hd, hi⟩)
          · intro i hi; exact hi
          · intro i hl; exact absurd hl (hnolive i)
        · apply wait_mono_of htw
          · intro x hx; exact hx
          · intro i hw; exact absurd hw (hnowait i)
        · intro x hx t ht; exact hv.2 x hx t ht
        · intro i hi; exact Or.inl hi
        · intro i hi; exact Or.inl hi
        · intro g' _ hn''; exact Or.inl hn''
      · cases h
        apply complete_of_mono hc
        · apply acc_mono_of htw
          · intro x hx; exact List.mem_cons_of_mem _ hx
          · intro p hp
            by_cases hm : mine w.g p = true
            · right
              refine live_of_worker (x := { w with localq := (s.pending.filter (mine w.g)).map (·.2) }) (by simp) ?_
              exact Or.inl (List.mem_map.2 ⟨p, List.mem_filter.2 ⟨hp, hm⟩, rfl⟩)
            · left
              exact List.mem_filter.2 ⟨hp, by simpa using hm⟩
          · intro d lq hd i hi; exact Or.inr (Or.inr ⟨d, lq, hd, hi⟩)
          · intro i hi; exact hi
          · intro i hl; exact absurd hl (hnolive i)
        · apply wait_mono_of htw
          · intro x hx; exact List.mem_cons_of_mem _ hx
          · intro i hw; exact absurd hw (hnowait i)
        · intro x hx t ht
          rcases List.mem_cons.1 hx with rfl | hx
          · exact hv.1 t ht
          · exact hv.2 x hx t ht
        · intro i hi; exact Or.inl hi
        · intro i hi; exact Or.inl hi
        · intro g' _ hn''; exact Or.inl hn''
    · cases h
  · cases h

theorem complete_delay {G : Graph} {s s' : State} {g : Group} (hi : Inv G s) (hc : Complete G s)
    (h : stepDelay G s g = some s') : Complete G s' := by
  unfold stepDelay at h
  split at h
  · rename_i w rest htw
    have hv := v_of hc htw
    split at h
    · rename_i hcond
      obtain ⟨hob, hm⟩ := hcond
      have hnone := delay_slot_free hi htw hm
      cases h
      apply complete_of_mono hc
      · apply acc_mono_of htw
        · intro x hx; exact hx
        · intro p hp; exact Or.inl hp
        · intro d lq hd; rw [hnone] at hd; cases hd
        · intro i hi; exact hi
        · intro i hl
          rcases hl with hl | ⟨t, ht, _, _⟩
          · exact Or.inr (Or.inr (Or.inr ⟨w.g, w.localq, rfl, hl⟩))
          · rw [hob] at ht; cases ht
      · apply wait_mono_of htw
        · intro x hx; exact hx
        · intro i ⟨t, ht, _, _⟩; rw [hob] at ht; cases ht
      · intro x hx t ht; exact hv.2 x hx t ht
      · intro i hi; exact Or.inl hi
      · intro i hi; exact Or.inl hi
      · intro g' _ hn''; exact Or.inl hn''
    · cases h
  · cases h

theorem complete_finish {G : Graph} {s s' : State} (hc : Complete G s) (h : stepFinish G s = some s') :
    Complete G s' := by
  unfold stepFinish at h
  split at h
  · split at h
    · split at h
      · rename_i d lq hd
        cases h
        apply complete_of_mono hc
        · intro i h
          rcases h with hp | hp | ⟨x, hx, hl⟩ | ⟨d', lq', hd', hi'⟩
          · exact Or.inl hp
          · exact Or.inr (Or.inl hp)
          · exact Or.inr (Or.inr (Or.inl ⟨x, List.mem_cons_of_mem _ hx, hl⟩))
          · rw [hd] at hd'
            simp only [Option.some.injEq, Prod.mk.injEq] at hd'
            refine Or.inr (Or.inr (Or.inl ⟨⟨d, lq, [], false⟩, by simp, Or.inl ?_⟩))
            rw [hd'.2]; exact hi'
        · intro i ⟨x, hx, hl⟩
          exact Or.inl ⟨x, List.mem_cons_of_mem _ hx, hl⟩
        · intro x hx t ht
          rcases List.mem_cons.1 hx with rfl | hx
          · cases ht
          · exact hc.v x hx t ht
        · intro i hi; exact Or.inl hi
        · intro i hi; exact Or.inl hi
        · intro g' _ hn''; exact Or.inl hn''
      · cases h
        exact ⟨hc.v, hc.j1, hc.j2, hc.j3⟩
    · cases h
      exact ⟨hc.v, hc.j1, hc.j2, hc.j3⟩
  · cases h

/-- The completeness invariant is preserved by every step of a run that has not failed. -/
theorem complete_step {G : Graph} {s s' : State} {e : Event} (hi : Inv G s) (hc : s.failed = false → Complete G s)
    (h : step? G s e = some s') : s'.failed = false → Complete G s' := by
  intro hf
  cases e with
  | activate g =>
    have : s.failed = false := by
      simp only [step?, stepActivate] at h; split at h <;> cases h; exact hf
    exact complete_activate (hc this) h
  | claim g =>
    have : s.failed = false := by
      simp only [step?, stepClaim] at h
      split at h
      · split at h
        · split at h
          · split at h <;> cases h <;> exact hf
          · cases h
        · cases h
      · cases h
    exact complete_claim (hc this) h
  | send g =>
    have : s.failed = false := by
      simp only [step?, stepSend] at h
      split at h
      · split at h
        · split at h
          · cases h
          · split at h
            · cases h; exact hf
            · split at h
              · split at h <;> cases h <;> exact hf
              · cases h; exact hf
        · cases h
      · cases h
    exact complete_send (hc this) h
  | pop g i =>
    have : s.failed = false := by
      simp only [step?, stepPop] at h
      split at h
      · split at h
        · cases h; exact hf
        · cases h
      · cases h
    exact complete_pop (hc this) h
  | parkOrSwap g =>
    have : s.failed = false := by
      simp only [step?, stepParkOrSwap] at h
      split at h
      · split at h
        · split at h <;> cases h <;> exact hf
        · cases h
      · cases h
    exact complete_parkOrSwap (hc this) h
  | delay g =>
    have : s.failed = false := by
      simp only [step?, stepDelay] at h
      split at h
      · split at h
        · cases h; exact hf
        · cases h
      · cases h
    exact complete_delay hi (hc this) h
  | finish =>
    have : s.failed = false := by
      simp only [step?, stepFinish] at h
      split at h
      · split at h
        · split at h <;> cases h <;> exact hf
        · cases h; exact hf
      · cases h
    exact complete_finish (hc this) h
  | error g =>
    exfalso
    simp only [step?, stepError] at h
    split at h
    · cases h; cases hf
    · cases h

theorem complete_reachable {G : Graph} {s : State} (h : Reachable G s) : s.failed = false → Complete G s := by
  induction h with
  | init => intro _; exact complete_init G
  | step hr hs ih => exact complete_step (inv_reachable hr) ih hs

/-- (S2) In a run that has not failed, every request that was ever issued (by an activation or by a
processed item) is processed, in flight, or a symbol request still waiting for its flag test. -/
theorem sent_is_accounted {G : Graph} {s : State} (h : Reachable G s) (hok : s.failed = false) :
    (∀ i ∈ s.processed, ∀ r ∈ G.genOf i, acc G s r.item ∨ waiting G s r.item) ∧
    (∀ g, g < G.numGroups → g ∉ s.unborn → ∀ r ∈ G.rootsOf g, acc G s r.item ∨ waiting G s r.item) :=
  ⟨(complete_reachable h hok).j2, (complete_reachable h hok).j3⟩

/-- (S3) When the traversal ends (no task can step) after ANY interleaving and the link does not
report failure, the processed items are exactly the closure of the roots under the request graph:
no work was lost and nothing else was done. -/
theorem terminal_is_closure {G : Graph} {s : State} (h : Reachable G s) (ht : Terminal G s)
    (hok : linkFails s = false) : ∀ i, i ∈ s.processed ↔ Reach G i := by
  have hc := complete_reachable h (by simpa [linkFails] using hok)
  have hT := (terminal_iff G s).1 ht
  simp [isTerminal] at hT
  obtain ⟨⟨hu, hw⟩, _⟩ := hT
  obtain ⟨hpend, hdel, _, _, _⟩ := terminal_quiescent h ht hok
  have hacc : ∀ i, acc G s i ∨ waiting G s i → i ∈ s.processed := by
    intro i hi
    rcases hi with (hp | ⟨p, hp, _⟩ | ⟨x, hx, _⟩ | ⟨d, lq, hd, _⟩) | ⟨x, hx, _⟩
    · exact hp
    · rw [hpend] at hp; cases hp
    · rw [hw] at hx; cases hx
    · rw [hdel] at hd; cases hd
    · rw [hw] at hx; cases hx
  intro i
  constructor
  · exact processed_sound h i
  · intro hr
    induction hr with
    | root hg hr => exact hacc _ (hc.j3 _ hg (by rw [hu]; simp) _ hr)
    | gen _ hr ih => exact hacc _ (hc.j2 _ ih _ hr)


/-! ## The executable invariant used by the trace replay is implied by `Inv` -/

/-- The Boolean check that the driver evaluates after every replayed event is a consequence of the
proved invariant: a reachable model state never fails it, so `invariant broken` in a replay can only
mean that the recorded run left the model. -/
theorem invCheck_of_inv {G : Graph} {s : State} (hi : Inv G s) : invCheck G s = true := by
  unfold invCheck
  have h1 : (owners s).length = G.numGroups := by rw [hi.own.length_eq, List.length_range]
  have h2 : ∀ g, g < G.numGroups → g ∈ owners s := fun g hg => by rw [hi.own.mem_iff]; simpa using hg
  have h3 := hi.cnt
  have h4 := hi.pend
  have h5 : (match s.delayed with | some (d, _) => G.isDelayed d && decide (0 < s.actRemaining) | none => true) = true := by
    cases hd : s.delayed with
    | none => rfl
    | some dl =>
      obtain ⟨d, lq⟩ := dl
      have := hi.del d lq hd
      simp [this.1, this.2]
  have h6 : (s.dropped.isEmpty || s.failed) = true := by
    cases hd : s.dropped with
    | nil => simp
    | cons a as => have := hi.fail (by simp [hd]); simp [this]
  simp only [Bool.and_eq_true, beq_iff_eq, List.all_eq_true, List.mem_range, List.contains_iff_mem, decide_eq_true_eq,
    Bool.not_eq_true', Bool.and_eq_true]
  refine ⟨⟨⟨⟨⟨h1, fun g hg => h2 g hg⟩, h3⟩, fun p hp => ⟨(h4 p hp).1, by simpa using (h4 p hp).2⟩⟩, h5⟩, h6⟩

/-! ## Non-vacuity: a concrete graph with cross-group requests in both directions, a duplicate
section request, a symbol requested twice, and a delayed group that sends to itself through its slot -/

def exampleGraph : Graph where
  numGroups := 3
  numItems := 5
  gen := fun i => match i with
    | 0 => [⟨1, 2, false⟩, ⟨2, 3, false⟩]
    | 1 => [⟨0, 3, false⟩, ⟨1, 2, false⟩]
    | 3 => [⟨2, 4, true⟩]
    | _ => []
  roots := fun g => match g with
    | 0 => [⟨2, 0, false⟩]
    | 1 => [⟨2, 1, false⟩, ⟨2, 0, false⟩]
    | _ => []
  once := fun i => i == 0 || i == 1
  delayedGroup := some 2

def exampleSchedule : List Event :=
  [.activate 0, .activate 2, .claim 0, .activate 1, .send 0, .delay 2, .finish, .parkOrSwap 0, .claim 1, .finish,
   .send 1, .claim 1, .parkOrSwap 1, .finish, .parkOrSwap 2, .pop 2 1, .send 2, .parkOrSwap 0, .send 2, .pop 2 0,
   .pop 0 3, .send 0, .send 2, .parkOrSwap 1, .parkOrSwap 0, .pop 1 2, .send 2, .pop 2 3, .pop 1 2, .parkOrSwap 1,
   .parkOrSwap 2, .pop 2 4, .parkOrSwap 2]

example : (run exampleGraph (init exampleGraph) exampleSchedule).map
    (fun s => (isTerminal s, quiescent exampleGraph s, linkFails s, s.processed.length)) = some (true, true, false, 7) := by
  decide

/-- the hypotheses of `terminal_quiescent` / `terminal_is_closure` are satisfiable -/
example : ∃ s, Reachable exampleGraph s ∧ Terminal exampleGraph s ∧ linkFails s = false := by
  have h : ∃ s, run exampleGraph (init exampleGraph) exampleSchedule = some s ∧ isTerminal s = true ∧ linkFails s = false := by
    decide
  obtain ⟨s, hrun, ht, hf⟩ := h
  exact ⟨s, reachable_run Reachable.init hrun, (terminal_iff _ _).2 ht, hf⟩


/-! ## The delayed (synthetic-symbols) group runs last -/

/-- the work loop of the delayed group is only ever entered (or its worker parked) when every group
has completed activation -/
structure DelayedLast (G : Graph) (s : State) : Prop where
  wk : ∀ w ∈ s.workers, G.isDelayed w.g = true → w.act = false → s.actRemaining = 0
  pk : ∀ d ∈ s.parked, G.isDelayed d = true → s.actRemaining = 0

theorem delayedLast_step {G : Graph} {s s' : State} {e : Event} (hl : DelayedLast G s) (h : step? G s e = some s') :
    DelayedLast G s' := by
  obtain ⟨hwk, hpk⟩ := hl
  cases e with
  | activate g =>
    simp only [step?, stepActivate] at h
    split at h
    · cases h
      refine ⟨fun x hx => ?_, hpk⟩
      rcases List.mem_cons.1 hx with rfl | hx
      · intro _ ha; cases ha
      · exact hwk x hx
    · cases h
  | claim g =>
    simp only [step?, stepClaim] at h
    split at h
    · rename_i w rest htw
      have hw := (all_take htw (fun w => G.isDelayed w.g = true → w.act = false → s.actRemaining = 0)).1 hwk
      split at h
      · split at h
        · split at h <;> cases h
          all_goals
            refine ⟨fun x hx => ?_, hpk⟩
            rcases List.mem_cons.1 hx with rfl | hx
            · exact hw.1
            · exact hw.2 x hx
        · cases h
      · cases h
    · cases h
  | send g =>
    simp only [step?, stepSend] at h
    split at h
    · rename_i w rest htw
      have hw := (all_take htw (fun w => G.isDelayed w.g = true → w.act = false → s.actRemaining = 0)).1 hwk
      split at h
      · rename_i r c ob hob
        split at h
        · cases h
        · split at h
          · cases h
            refine ⟨fun x hx => ?_, hpk⟩
            rcases List.mem_cons.1 hx with rfl | hx
            · exact hw.1
            · exact hw.2 x hx
          · split at h
            · split at h
              · rename_i hpark
                cases h
                refine ⟨fun x hx => ?_, fun d hd => hpk d (List.mem_of_mem_erase hd)⟩
                rcases List.mem_cons.1 hx with rfl | hx
                · intro hdl _; exact hpk r.to hpark hdl
                · rcases List.mem_cons.1 hx with rfl | hx
                  · exact hw.1
                  · exact hw.2 x hx
              · cases h
                refine ⟨fun x hx => ?_, hpk⟩
                rcases List.mem_cons.1 hx with rfl | hx
                · exact hw.1
                · exact hw.2 x hx
            · cases h
              refine ⟨fun x hx => ?_, hpk⟩
              rcases List.mem_cons.1 hx with rfl | hx
              · exact hw.1
              · exact hw.2 x hx
      · cases h
    · cases h
  | pop g i =>
    simp only [step?, stepPop] at h
    split at h
    · rename_i w rest htw
      have hw := (all_take htw (fun w => G.isDelayed w.g = true → w.act = false → s.actRemaining = 0)).1 hwk
      split at h
      · cases h
        refine ⟨fun x hx => ?_, hpk⟩
        rcases List.mem_cons.1 hx with rfl | hx
        · exact hw.1
        · exact hw.2 x hx
      · cases h
    · cases h
  | parkOrSwap g =>
    simp only [step?, stepParkOrSwap] at h
    split at h
    · rename_i w rest htw
      have hw := (all_take htw (fun w => G.isDelayed w.g = true → w.act = false → s.actRemaining = 0)).1 hwk
      split at h
      · rename_i hcond
        split at h <;> cases h
        · refine ⟨hw.2, fun d hd hdl => ?_⟩
          rcases List.mem_cons.1 hd with rfl | hd
          · have hm := hcond.2.2
            have hact : w.act = false := by
              cases ha : w.act
              · rfl
              · simp [mustDelay, ha, hdl] at hm
            exact hw.1 hdl hact
          · exact hpk d hd hdl
        · refine ⟨fun x hx => ?_, hpk⟩
          rcases List.mem_cons.1 hx with rfl | hx
          · exact hw.1
          · exact hw.2 x hx
      · cases h
    · cases h
  | delay g =>
    simp only [step?, stepDelay] at h
    split at h
    · rename_i w rest htw
      have hw := (all_take htw (fun w => G.isDelayed w.g = true → w.act = false → s.actRemaining = 0)).1 hwk
      split at h
      · cases h; exact ⟨hw.2, hpk⟩
      · cases h
    · cases h
  | finish =>
    simp only [step?, stepFinish] at h
    split at h
    · split at h
      · rename_i hz
        split at h <;> cases h
        · refine ⟨fun x hx => ?_, fun d hd hdl => hz⟩
          rcases List.mem_cons.1 hx with rfl | hx
          · intro _ _; exact hz
          · intro _ _; exact hz
        · exact ⟨fun x hx _ _ => hz, fun d hd hdl => hz⟩
      · cases h
        refine ⟨fun x hx hdl ha => ?_, fun d hd hdl => ?_⟩
        · have := hwk x hx hdl ha; simp only; omega
        · have := hpk d hd hdl; simp only; omega
    · cases h
  | error g =>
    simp only [step?, stepError] at h
    split at h
    · rename_i w rest htw
      have hw := (all_take htw (fun w => G.isDelayed w.g = true → w.act = false → s.actRemaining = 0)).1 hwk
      cases h; exact ⟨hw.2, hpk⟩
    · cases h

theorem delayedLast_reachable {G : Graph} {s : State} (h : Reachable G s) : DelayedLast G s := by
  induction h with
  | init => exact ⟨by simp [init], by simp [init]⟩
  | step _ hs ih => exact delayedLast_step ih hs

/-- The group holding the synthetic `__start_`/`__stop_` symbols pops its first item only after
every group has completed activation (`activations_remaining = 0`, hence no unborn activation task
and no task still in its activation phase): `start_stop_sections` is complete when it is read. -/
theorem delayed_group_runs_last {G : Graph} {s s' : State} {d : Group} {i : Item} (h : Reachable G s)
    (hd : G.isDelayed d = true) (hpop : step? G s (.pop d i) = some s') :
    s.actRemaining = 0 ∧ s.unborn = [] ∧ ∀ w ∈ s.workers, w.act = false := by
  have hl : DelayedLast G s := delayedLast_reachable h
  have hi := inv_reachable h
  simp only [step?, stepPop] at hpop
  split at hpop
  · rename_i w rest htw
    split at hpop
    · rename_i hcond
      have hg : w.g = d := (takeWorker_perm htw).2
      have hm := hcond.2.2
      have hact : w.act = false := by
        cases ha : w.act
        · rfl
        · simp [mustDelay, ha, hg, hd] at hm
      have hz := hl.wk w ((takeWorker_mem htw w).2 (Or.inl rfl)) (by rw [hg]; exact hd) hact
      have hc := hi.cnt
      rw [hz] at hc
      refine ⟨hz, List.eq_nil_of_length_eq_zero (by omega), fun x hx => ?_⟩
      cases hx' : x.act
      · rfl
      · exfalso
        have : x ∈ s.workers.filter (·.act) := List.mem_filter.2 ⟨hx, hx'⟩
        have := List.length_pos_of_mem this
        omega
    · cases hpop
  · cases hpop


end Wild.ProtoLayout
