import WildModel.Model.ProtoMerge
/-!
C40 — Parallel string merging hands every input to every bucket in order and finishes.
Theorems about the interleaving model `Wild.ProtoMerge` (all `G, B, P ≥ 1`, all interleavings):

* `inv_init`, `inv_step`, `inv_reachable` — the state invariant `Inv` (FIFO queue content, one position
  per bucket, exact content of every slot as a function of the task states, vector accounting
  `available + reserved + out = capacity`, "a reservation that can succeed will be retried").
* `bucket_order` (O), `no_stall` (P), `terminal_all_finished` (F).
* (T) `C40_terminates_full` is FALSE for the code as written: `terminates_witness`. Proved instead:
  `measure_step_partial` (every step but an *empty reservation* decreases `mu`; that one adds ≤ 3)
  and `run_length_partial` (run length ≤ `mu init` + 4 · #empty reservations).
-/
namespace Wild.ProtoMerge

/-! ### finite sums with point updates -/

theorem sumTo_congr {n : Nat} {f f' : Nat → Nat} (h : ∀ i, i < n → f i = f' i) :
    sumTo n f = sumTo n f' := by
  induction n with
  | zero => rfl
  | succ n ih =>
    simp only [sumTo]
    rw [ih (fun i hi => h i (by omega)), h n (by omega)]

theorem sumTo_point {n : Nat} {f f' : Nat → Nat} {i : Nat} (hi : i < n)
    (h : ∀ j, j < n → j ≠ i → f' j = f j) : sumTo n f' + f i = sumTo n f + f' i := by
  induction n with
  | zero => omega
  | succ n ih =>
    simp only [sumTo]
    by_cases hin : i = n
    · subst hin
      have := sumTo_congr (n := i) (f := f') (f' := f) (fun j hj => h j (by omega) (by omega))
      omega
    · have := ih (by omega) (fun j hj hne => h j (by omega) hne)
      have := h n (by omega) (by omega)
      omega

theorem sumTo_const {n : Nat} {f : Nat → Nat} {k : Nat} (h : ∀ i, i < n → f i = k) :
    sumTo n f = n * k := by
  induction n with
  | zero => simp [sumTo]
  | succ n ih =>
    simp only [sumTo]
    rw [ih (fun i hi => h i (by omega)), h n (by omega), Nat.succ_mul]

theorem sum2_congr {G B : Nat} {f f' : Nat → Nat → Nat}
    (h : ∀ g b, g < G → b < B → f g b = f' g b) : sum2 G B f = sum2 G B f' :=
  sumTo_congr (fun g hg => sumTo_congr (fun b hb => h g b hg hb))

theorem sum2_point {G B : Nat} {f f' : Nat → Nat → Nat} {g b : Nat} (hg : g < G) (hb : b < B)
    (h : ∀ x y, x < G → y < B → ¬ (x = g ∧ y = b) → f' x y = f x y) :
    sum2 G B f' + f g b = sum2 G B f + f' g b := by
  unfold sum2
  have hrow := sumTo_point (n := B) (f := f g) (f' := f' g) hb
    (fun j hj hne => h g j hg hj (by omega))
  have hout := sumTo_point (n := G) (f := fun x => sumTo B (f x)) (f' := fun x => sumTo B (f' x)) hg
    (fun x hx hne => sumTo_congr (fun y hy => h x y hx hy (by omega)))
  omega

theorem sum2_row {G B : Nat} {f f' : Nat → Nat → Nat} {g : Nat} (hg : g < G)
    (h : ∀ x y, x < G → y < B → x ≠ g → f' x y = f x y)
    (h0 : ∀ y, y < B → f g y = 0) (h1 : ∀ y, y < B → f' g y = 1) :
    sum2 G B f' = sum2 G B f + B := by
  unfold sum2
  have hout := sumTo_point (n := G) (f := fun x => sumTo B (f x)) (f' := fun x => sumTo B (f' x)) hg
    (fun x hx hne => sumTo_congr (fun y hy => h x y hx hy hne))
  rw [sumTo_const h0, sumTo_const h1] at hout
  omega

theorem sum2_zero {G B : Nat} {f : Nat → Nat → Nat} (h : ∀ g b, g < G → b < B → f g b = 0) :
    sum2 G B f = 0 := by
  unfold sum2
  rw [sumTo_const (k := 0) (fun g hg => sumTo_const (k := 0) (fun b hb => h g b hg hb))]
  simp

/-! ### the invariant -/

@[simp] theorem upd_apply {α : Type} (f : Nat → α) (i : Nat) (v : α) (j : Nat) :
    upd f i v j = if j = i then v else f j := rfl

@[simp] theorem upd2_apply {α : Type} (f : Nat → Nat → α) (i j : Nat) (v : α) (x y : Nat) :
    upd2 f i j v x y = if x = i ∧ y = j then v else f x y := rfl

/-- Bounds on the position stored in a bucket state; a pending `compare_exchange` saw `≥ B`. -/
def bktOK (c : Cfg) : BktSt → Prop
  | .parked n => n < c.G
  | .head n => n ≤ c.G
  | .proc n => n < c.G
  | .spawning n .load => n < c.G
  | .spawning n (.cas x) => n < c.G ∧ c.B ≤ x
  | .fin => True

def mainOK (c : Cfg) : MainSt → Prop
  | .run (.cas x) => c.B ≤ x
  | _ => True

/-- Some task is certain to (re)try a reservation that can succeed. -/
def Witness (c : Cfg) (s : State) : Prop :=
  s.main = .run .load ∨ s.main = .run (.cas s.available) ∨
  ∃ b n, b < c.B ∧ (s.bkt b = .spawning n .load ∨ s.bkt b = .spawning n (.cas s.available) ∨ s.bkt b = .proc n)

/-- Number of groups already popped. -/
def popped (c : Cfg) (s : State) : Nat := c.G - s.unprocessed.length

structure Inv (c : Cfg) (s : State) : Prop where
  len : s.unprocessed.length ≤ c.G
  queue : s.unprocessed = List.range' (popped c s) s.unprocessed.length
  grpQ : ∀ g, popped c s ≤ g → s.grp g = .queued
  grpP : ∀ g, g < popped c s → s.grp g ≠ .queued
  grpI : ∀ g i, s.grp g = .inTask i → i < c.B
  bktB : ∀ b, c.B ≤ b → s.bkt b = .fin
  bktN : ∀ b, bktOK c (s.bkt b)
  mainN : mainOK c s.main
  hist : ∀ b, b < c.B → s.hist b = List.range (cnt c (s.bkt b))
  cons : ∀ g b, b < c.B → g < cnt c (s.bkt b) → deliv (s.grp g) b = true
  park : ∀ b n, s.bkt b = .parked n → deliv (s.grp n) b = false
  cell : ∀ g b, g < c.G → b < c.B → s.slot g b = cellSpec c s g b
  acct : s.available + c.B * (s.nPop + s.nUnres) + sum2 c.G c.B (tok c s) = c.cap
  unresQ : 0 < s.nUnres → s.unprocessed = []
  wit : s.unprocessed ≠ [] → c.B ≤ s.available → Witness c s
  finM : ∀ b, b ∈ s.finished ↔ (b < c.B ∧ s.bkt b = .fin)
  finN : s.finished.Nodup

theorem inv_init (c : Cfg) (hG : 1 ≤ c.G) : Inv c (init c) := by
  constructor
  · simp [init]
  · simp [init, popped, List.range_eq_range']
  · intro g _; rfl
  · intro g hg; simp [init, popped] at hg
  · intro g i h; simp [init] at h
  · intro b hb; simp [init]; omega
  · intro b; simp only [init]; split <;> simp [bktOK]; omega
  · simp [init, mainOK]
  · intro b hb; simp [init, hb, cnt]
  · intro g b hb h; simp [init, hb, cnt] at h
  · intro b n h; simp [init, deliv]
  · intro g b hg hb
    simp only [init, cellSpec, hb, cnt, deliv, if_true, and_true]
    by_cases h0 : g = 0 <;> simp [h0] <;> omega
  · simp only [init, Cfg.cap]
    rw [sum2_zero (by intro g b _ _; simp [tok])]
    simp
  · simp [init]
  · intro _ _; left; rfl
  · intro b; simp [init]
  · simp [init]

/-! ### preservation, one event kind at a time -/

theorem getSp_main {s : State} {sp : Sp} (h : getSp s .main = some sp) : s.main = .run sp := by
  simp only [getSp] at h
  split at h <;> simp_all

theorem getSp_bkt {s : State} {b n : Nat} {sp : Sp} (h : getSp s (.bkt b n) = some sp) :
    s.bkt b = .spawning n sp := by
  simp only [getSp] at h
  split at h
  · split at h <;> simp_all
  · simp at h

macro "keep " I:ident : tactic => `(tactic| first
  | exact ($I).len | exact ($I).queue | exact ($I).grpQ | exact ($I).grpP | exact ($I).grpI
  | exact ($I).bktB | exact ($I).bktN | exact ($I).mainN | exact ($I).hist | exact ($I).cons
  | exact ($I).park | exact ($I).cell | exact ($I).acct | exact ($I).unresQ | exact ($I).wit
  | exact ($I).finM | exact ($I).finN)

theorem bkt_lt {c : Cfg} {s : State} (I : Inv c s) {b : Nat} (h : s.bkt b ≠ .fin) : b < c.B := by
  by_cases hb : b < c.B
  · exact hb
  · exact absurd (I.bktB b (by omega)) h

/-- A bucket task moves between states that are neither parked, proc nor fin and consume nothing. -/
theorem inv_bkt_local {c : Cfg} {s : State} (I : Inv c s) {b : Nat} {st st' : BktSt}
    (hb : s.bkt b = st) (hcnt : cnt c st' = cnt c st) (hok : bktOK c st')
    (h1 : ∀ n, st ≠ .parked n ∧ st ≠ .proc n ∧ st' ≠ .parked n ∧ st' ≠ .proc n)
    (h2 : st ≠ .fin ∧ st' ≠ .fin) :
    let s' := { s with bkt := upd s.bkt b st' }
    (∀ b, c.B ≤ b → s'.bkt b = .fin) ∧ (∀ b, bktOK c (s'.bkt b)) ∧
    (∀ b, b < c.B → s'.hist b = List.range (cnt c (s'.bkt b))) ∧
    (∀ g b, b < c.B → g < cnt c (s'.bkt b) → deliv (s'.grp g) b = true) ∧
    (∀ b n, s'.bkt b = .parked n → deliv (s'.grp n) b = false) ∧
    (∀ g b, g < c.G → b < c.B → s'.slot g b = cellSpec c s' g b) ∧
    (sum2 c.G c.B (tok c s') = sum2 c.G c.B (tok c s)) ∧
    (∀ b, b ∈ s'.finished ↔ (b < c.B ∧ s'.bkt b = .fin)) := by
  intro s'
  have hbB : b < c.B := bkt_lt I (by rw [hb]; exact h2.1)
  refine ⟨?_, ?_, ?_, ?_, ?_, ?_, ?_, ?_⟩
  · intro b' hb'; have := I.bktB b' hb'; grind [upd_apply]
  · intro b'; have := I.bktN b'; grind [upd_apply]
  · intro b' hb'; have := I.hist b' hb'; grind [upd_apply]
  · intro g b' hb' hg; have := I.cons g b' hb'; grind [upd_apply]
  · intro b' n h; have := I.park b' n; grind [upd_apply]
  · intro g b' hg hb'; have := I.cell g b' hg hb'; simp only [cellSpec] at *; grind [upd_apply]
  · apply sum2_congr; intro g b' hg hb'; simp only [tok]; grind [upd_apply]
  · intro b'; have := I.finM b'; grind [upd_apply]

theorem inv_load {c : Cfg} {s s' : State} {o : Owner} {a : Nat} (I : Inv c s)
    (h : step? c s (.load o a) = some s') : Inv c s' := by
  simp only [step?] at h
  split at h
  case isFalse => simp at h
  rename_i hg
  obtain ⟨hsp, rfl⟩ := hg
  injection h with h; subst h
  cases o with
  | main =>
    have hm := getSp_main hsp
    split
    · constructor
      all_goals try (keep I)
      case mainN => simp [exitSp, mainOK]
      case wit => intro _ h2; simp only [exitSp] at h2; omega
    · constructor
      all_goals try (keep I)
      case mainN => simp only [setSp, mainOK]; omega
      case wit =>
        intro h1 h2; have := I.wit h1 h2
        simp only [Witness, setSp] at *; grind
  | bkt b n =>
    have hb := getSp_bkt hsp
    have hN := I.bktN b
    rw [hb] at hN; simp only [bktOK] at hN
    split
    · have L := inv_bkt_local I hb (st' := .head (n + 1)) (by simp [cnt]) (by simp only [bktOK]; omega)
        (by intro n; simp) (by simp)
      obtain ⟨l1, l2, l3, l4, l5, l6, l7, l8⟩ := L
      constructor
      all_goals try (keep I)
      case bktB => exact l1
      case bktN => exact l2
      case hist => exact l3
      case cons => exact l4
      case park => exact l5
      case cell => exact l6
      case acct => have := I.acct; simp only [exitSp] at *; omega
      case finM => exact l8
      case wit => intro _ h2; simp only [exitSp] at h2; omega
    · have L := inv_bkt_local I hb (st' := .spawning n (.cas s.available)) (by simp [cnt]) (by simp only [bktOK]; omega)
        (by intro n; simp) (by simp)
      obtain ⟨l1, l2, l3, l4, l5, l6, l7, l8⟩ := L
      constructor
      all_goals try (keep I)
      case bktB => exact l1
      case bktN => exact l2
      case hist => exact l3
      case cons => exact l4
      case park => exact l5
      case cell => exact l6
      case acct => have := I.acct; simp only [setSp] at *; omega
      case finM => exact l8
      case wit =>
        intro h1 h2; have := I.wit h1 h2
        have hbB : b < c.B := bkt_lt I (by rw [hb]; simp)
        simp only [Witness, setSp] at *
        refine .inr (.inr ⟨b, n, hbB, ?_⟩)
        simp


theorem mul_succ_mid (B x y : Nat) : B * (x + 1 + y) = B * (x + y) + B := by
  rw [show x + 1 + y = (x + y) + 1 by omega, Nat.mul_succ]

theorem inv_cas {c : Cfg} {s s' : State} {o : Owner} {seen : Nat} {ok : Bool} (I : Inv c s)
    (h : step? c s (.cas o seen ok) = some s') : Inv c s' := by
  simp only [step?] at h
  split at h
  case isFalse => simp at h
  rename_i hg
  obtain ⟨hsp, hok⟩ := hg
  injection h with h; subst h
  cases o with
  | main =>
    have hm := getSp_main hsp
    have hN := I.mainN
    rw [hm] at hN; simp only [mainOK] at hN
    cases ok with
    | true =>
      have hs : seen = s.available := by simpa using hok.symm
      simp only [↓reduceIte]
      constructor
      all_goals try (keep I)
      case mainN => simp [setSp, mainOK]
      case acct =>
        have := I.acct
        change (seen - c.B) + c.B * ((s.nPop + 1) + s.nUnres) + sum2 c.G c.B (tok c s) = c.cap
        rw [mul_succ_mid]; omega
      case wit => intro _ _; left; simp [setSp]
    | false =>
      have hs : seen ≠ s.available := by simpa using hok.symm
      simp only [Bool.false_eq_true, ↓reduceIte]
      constructor
      all_goals try (keep I)
      case mainN => simp [exitSp, mainOK]
      case wit =>
        intro h1 h2; have := I.wit h1 h2
        simp only [Witness, exitSp] at *
        rcases this with h | h | h
        · rw [hm] at h; simp at h
        · rw [hm] at h; simp at h; exact absurd h hs
        · exact .inr (.inr h)
  | bkt b n =>
    have hb := getSp_bkt hsp
    have hN := I.bktN b
    rw [hb] at hN; simp only [bktOK] at hN
    have hbB : b < c.B := bkt_lt I (by rw [hb]; simp)
    cases ok with
    | true =>
      have hs : seen = s.available := by simpa using hok.symm
      simp only [↓reduceIte]
      have L := inv_bkt_local I hb (st' := .spawning n .load) (by simp [cnt]) (by simp only [bktOK]; omega)
        (by intro n; simp) (by simp)
      obtain ⟨l1, l2, l3, l4, l5, l6, l7, l8⟩ := L
      constructor
      all_goals try (keep I)
      case bktB => exact l1
      case bktN => exact l2
      case hist => exact l3
      case cons => exact l4
      case park => exact l5
      case cell => exact l6
      case acct =>
        have := I.acct
        have e : sum2 c.G c.B (tok c (setSp { s with available := seen - c.B, nPop := s.nPop + 1 } (.bkt b n) .load))
            = sum2 c.G c.B (tok c s) := l7
        rw [e]
        change (seen - c.B) + c.B * ((s.nPop + 1) + s.nUnres) + sum2 c.G c.B (tok c s) = c.cap
        rw [mul_succ_mid]; omega
      case finM => exact l8
      case wit =>
        intro _ _
        refine .inr (.inr ⟨b, n, hbB, ?_⟩)
        simp [setSp]
    | false =>
      have hs : seen ≠ s.available := by simpa using hok.symm
      simp only [Bool.false_eq_true, ↓reduceIte]
      have L := inv_bkt_local I hb (st' := .head (n + 1)) (by simp [cnt]) (by simp only [bktOK]; omega)
        (by intro n; simp) (by simp)
      obtain ⟨l1, l2, l3, l4, l5, l6, l7, l8⟩ := L
      constructor
      all_goals try (keep I)
      case bktB => exact l1
      case bktN => exact l2
      case hist => exact l3
      case cons => exact l4
      case park => exact l5
      case cell => exact l6
      case acct => have := I.acct; simp only [exitSp] at *; omega
      case finM => exact l8
      case wit =>
        intro h1 h2; have := I.wit h1 h2
        simp only [Witness, exitSp] at *
        rcases this with h | h | ⟨b', n', hb', h⟩
        · exact .inl h
        · exact .inr (.inl h)
        · refine .inr (.inr ⟨b', n', hb', ?_⟩)
          have : b' ≠ b := by
            rintro rfl; rw [hb] at h; simp at h; omega
          simpa [this] using h


theorem queue_cons {c : Cfg} {s : State} {g : Nat} {rest : List Nat} (I : Inv c s)
    (h : s.unprocessed = g :: rest) :
    g = popped c s ∧ g < c.G ∧ c.G - rest.length = g + 1 ∧ rest = List.range' (g + 1) rest.length := by
  have hq := I.queue
  have hl := I.len
  rw [h] at hl
  simp only [popped, h, List.length_cons, List.range'_succ, List.cons.injEq] at hq ⊢
  simp only [List.length_cons] at hl
  obtain ⟨h1, h2⟩ := hq
  refine ⟨h1, by omega, by omega, ?_⟩
  rw [h1]; exact h2

theorem inv_unres {c : Cfg} {s s' : State} {r : Nat} (I : Inv c s)
    (h : step? c s (.unres r) = some s') : Inv c s' := by
  simp only [step?] at h
  split at h
  case isFalse => simp at h
  rename_i hg
  obtain ⟨rfl, hn⟩ := hg
  injection h with h; subst h
  have hq := I.unresQ hn
  constructor
  all_goals try (keep I)
  case acct =>
    have := I.acct
    change (s.available + c.B) + c.B * (s.nPop + (s.nUnres - 1)) + sum2 c.G c.B (tok c s) = c.cap
    have e : c.B * (s.nPop + s.nUnres) = c.B * (s.nPop + (s.nUnres - 1)) + c.B := by
      rw [show s.nPop + s.nUnres = (s.nPop + (s.nUnres - 1)) + 1 by omega, Nat.mul_succ]
    omega
  case unresQ => intro _; exact hq
  case wit => intro h1; exact absurd hq h1

theorem inv_pop {c : Cfg} {s s' : State} {r : Option Nat} (hB : 1 ≤ c.B) (I : Inv c s)
    (h : step? c s (.pop r) = some s') : Inv c s' := by
  simp only [step?] at h
  split at h
  case isFalse => simp at h
  rename_i hg
  obtain ⟨hn, -⟩ := hg
  split at h
  · rename_i hq
    injection h with h; subst h
    constructor
    all_goals try (keep I)
    case acct =>
      have := I.acct
      change s.available + c.B * ((s.nPop - 1) + (s.nUnres + 1)) + sum2 c.G c.B (tok c s) = c.cap
      rw [show s.nPop - 1 + (s.nUnres + 1) = s.nPop + s.nUnres by omega]; exact this
    case unresQ => intro _; exact hq
  · rename_i g rest hq
    injection h with h; subst h
    obtain ⟨hg, hgG, hk, hrest⟩ := queue_cons I hq
    have hlen : s.unprocessed.length = rest.length + 1 := by rw [hq]; rfl
    have hgq : s.grp g = .queued := I.grpQ g (by omega)
    have hnc : ∀ b, b < c.B → ¬ g < cnt c (s.bkt b) := by
      intro b hb hlt
      have := I.cons g b hb hlt
      rw [hgq] at this; simp [deliv] at this
    constructor
    all_goals try (keep I)
    case len => have := I.len; simp only [hlen] at this; show rest.length ≤ c.G; omega
    case queue => show rest = List.range' (c.G - rest.length) rest.length; rw [hk]; exact hrest
    case grpQ =>
      intro g' hg'
      have : popped c s ≤ g' := by simp only [popped] at *; omega
      have := I.grpQ g' this
      have hne : g' ≠ g := by simp only [popped] at hg'; omega
      simp [hne, this]
    case grpP =>
      intro g' hg'
      by_cases hne : g' = g
      · simp [hne]
      · have : g' < popped c s := by simp only [popped] at *; omega
        have := I.grpP g' this
        simp [hne, this]
    case grpI =>
      intro g' i h
      by_cases hne : g' = g
      · simp [hne] at h; omega
      · simp [hne] at h; exact I.grpI g' i h
    case cons =>
      intro g' b hb hlt
      have := I.cons g' b hb hlt
      by_cases hne : g' = g
      · subst hne; exact absurd hlt (hnc b hb)
      · simpa [hne] using this
    case park =>
      intro b n h
      have := I.park b n h
      by_cases hne : n = g
      · simp [hne, deliv]
      · simpa [hne] using this
    case cell =>
      intro g' b hg' hb
      have h1 := I.cell g' b hg' hb
      have h2 := hnc b hb
      simp only [cellSpec] at h1 ⊢
      grind [upd_apply, deliv]
    case acct =>
      have := I.acct
      have e := sum2_row (G := c.G) (B := c.B) (f := tok c s)
        (f' := tok c { s with nPop := s.nPop - 1, unprocessed := rest, grp := upd s.grp g (.inTask 0) }) (g := g) hgG
        (by intro x y _ _ hne; simp [tok, hne])
        (by intro y _; simp [tok, hgq])
        (by intro y hy; have := hnc y hy; simp [tok]; intro h; exact absurd h this)
      rw [e]
      change s.available + c.B * ((s.nPop - 1) + s.nUnres) + (sum2 c.G c.B (tok c s) + c.B) = c.cap
      have e2 : c.B * (s.nPop + s.nUnres) = c.B * ((s.nPop - 1) + s.nUnres) + c.B := by
        rw [show s.nPop + s.nUnres = ((s.nPop - 1) + s.nUnres) + 1 by omega, Nat.mul_succ]
      omega
    case unresQ =>
      intro h; have := I.unresQ h; rw [hq] at this; simp at this
    case wit =>
      intro h1 h2
      exact I.wit (by rw [hq]; simp) h2


theorem inv_ret {c : Cfg} {s s' : State} {b n : Nat} (I : Inv c s)
    (h : step? c s (.ret b n) = some s') : Inv c s' := by
  simp only [step?] at h
  split at h
  case isFalse => simp at h
  rename_i hb
  injection h with h; subst h
  have hbB : b < c.B := bkt_lt I (by rw [hb]; simp)
  have hN := I.bktN b
  rw [hb] at hN; simp only [bktOK] at hN
  have hd : deliv (s.grp n) b = true := I.cons n b hbB (by rw [hb]; simp [cnt])
  have hgq : s.grp n ≠ .queued := by intro h; rw [h] at hd; simp [deliv] at hd
  constructor
  all_goals try (keep I)
  case bktB => intro b' hb'; have := I.bktB b' hb'; grind [upd_apply]
  case bktN => intro b'; have := I.bktN b'; grind [upd_apply, bktOK]
  case hist => intro b' hb'; have := I.hist b' hb'; grind [upd_apply, cnt]
  case cons => intro g b' hb' hg; have := I.cons g b' hb'; grind [upd_apply, cnt]
  case park => intro b' n h; have := I.park b' n; grind [upd_apply]
  case cell => intro g b' hg hb'; have := I.cell g b' hg hb'; simp only [cellSpec] at *; grind [upd_apply, cnt]
  case finM => intro b'; have := I.finM b'; grind [upd_apply]
  case acct =>
    have := I.acct
    have e := sum2_point (G := c.G) (B := c.B) (f := tok c s)
      (f' := tok c { s with available := s.available + 1, bkt := upd s.bkt b (.spawning n .load) })
      (g := n) (b := b) hN hbB
      (by intro x y _ _ hne; simp only [tok, upd_apply]; grind [cnt])
    have e1 : tok c s n b = 1 := by simp [tok, hgq, hb]
    have e2 : tok c { s with available := s.available + 1, bkt := upd s.bkt b (.spawning n .load) } n b = 0 := by
      simp [tok, hgq, cnt]
    rw [e1, e2] at e
    change (s.available + 1) + c.B * (s.nPop + s.nUnres) + _ = c.cap
    omega
  case wit =>
    intro _ _
    exact .inr (.inr ⟨b, n, hbB, .inl (by simp)⟩)

theorem inv_finish {c : Cfg} {s s' : State} {b n : Nat} (I : Inv c s)
    (h : step? c s (.finish b n) = some s') : Inv c s' := by
  simp only [step?] at h
  split at h
  case isFalse => simp at h
  rename_i hg
  obtain ⟨hb, hn⟩ := hg
  injection h with h; subst h
  have hbB : b < c.B := bkt_lt I (by rw [hb]; simp)
  have hN := I.bktN b
  rw [hb] at hN; simp only [bktOK] at hN
  have hnG : n = c.G := by omega
  constructor
  all_goals try (keep I)
  case bktB => intro b' hb'; have := I.bktB b' hb'; grind [upd_apply]
  case bktN => intro b'; have := I.bktN b'; grind [upd_apply, bktOK]
  case hist => intro b' hb'; have := I.hist b' hb'; grind [upd_apply, cnt]
  case cons => intro g b' hb' hg; have := I.cons g b' hb'; grind [upd_apply, cnt]
  case park => intro b' n h; have := I.park b' n; grind [upd_apply]
  case cell => intro g b' hg hb'; have := I.cell g b' hg hb'; simp only [cellSpec] at *; grind [upd_apply, cnt]
  case acct =>
    have := I.acct
    have e : sum2 c.G c.B (tok c { s with bkt := upd s.bkt b .fin, finished := s.finished ++ [b] })
        = sum2 c.G c.B (tok c s) := by
      apply sum2_congr; intro g b' hg hb'; simp only [tok, upd_apply]; grind [cnt]
    rw [e]; exact this
  case wit =>
    intro h1 h2; have := I.wit h1 h2
    simp only [Witness] at *
    rcases this with h | h | ⟨b', n', hb', h⟩
    · exact .inl h
    · exact .inr (.inl h)
    · refine .inr (.inr ⟨b', n', hb', ?_⟩)
      have : b' ≠ b := by rintro rfl; rw [hb] at h; simp at h
      simpa [this] using h
  case finM =>
    intro b'; have := I.finM b'
    simp only [List.mem_append, List.mem_singleton, upd_apply]
    grind
  case finN =>
    have h1 := I.finN
    have h2 : b ∉ s.finished := by
      intro h; have := (I.finM b).1 h; rw [hb] at this; simp at this
    simp only [List.nodup_append, List.nodup_cons, List.not_mem_nil, not_false_eq_true, List.nodup_nil, and_true, true_and]
    refine ⟨h1, ?_⟩
    intro a ha b' hb'
    simp at hb'; subst hb'
    intro h; subst h; exact h2 ha


theorem inv_take {c : Cfg} {s s' : State} {b n : Nat} {found : Slot} (I : Inv c s)
    (h : step? c s (.take b n found) = some s') : Inv c s' := by
  simp only [step?] at h
  split at h
  case isFalse => simp at h
  rename_i hg
  obtain ⟨hb, hn, rfl⟩ := hg
  injection h with h; subst h
  have hbB : b < c.B := bkt_lt I (by rw [hb]; simp)
  have hc := I.cell n b hn hbB
  simp only [cellSpec, hb, cnt, Nat.lt_irrefl, if_false] at hc
  cases hd : deliv (s.grp n) b
  · have hs : s.slot n b = .empty := by simpa [hd] using hc
    rw [hs]
    constructor
    all_goals try (keep I)
    case bktB => intro b' hb'; have := I.bktB b' hb'; grind [upd_apply]
    case bktN => intro b'; have := I.bktN b'; grind [upd_apply, bktOK]
    case hist => intro b' hb'; have := I.hist b' hb'; grind [upd_apply, cnt]
    case cons => intro g b' hb' hg; have := I.cons g b' hb'; grind [upd_apply, cnt]
    case park => intro b' n' h; have := I.park b' n'; grind [upd_apply]
    case cell =>
      intro g b' hg hb'; have := I.cell g b' hg hb'; simp only [cellSpec] at *
      grind [upd_apply, upd2_apply, cnt]
    case acct =>
      have := I.acct
      have e : sum2 c.G c.B (tok c { s with slot := upd2 s.slot n b (.waiting b n), bkt := upd s.bkt b (.parked n) })
          = sum2 c.G c.B (tok c s) := by
        apply sum2_congr; intro g b' hg hb'; simp only [tok, upd_apply]; grind [cnt]
      rw [e]; exact this
    case wit =>
      intro h1 h2; have := I.wit h1 h2
      simp only [Witness] at *
      rcases this with h | h | ⟨b', n', hb', h⟩
      · exact .inl h
      · exact .inr (.inl h)
      · refine .inr (.inr ⟨b', n', hb', ?_⟩)
        have : b' ≠ b := by rintro rfl; rw [hb] at h; simp at h
        simpa [this] using h
    case finM => intro b'; have := I.finM b'; grind [upd_apply]
  · have hs : s.slot n b = .strings := by simpa [hd] using hc
    rw [hs]
    constructor
    all_goals try (keep I)
    case bktB => intro b' hb'; have := I.bktB b' hb'; grind [upd_apply]
    case bktN => intro b'; have := I.bktN b'; grind [upd_apply, bktOK]
    case hist =>
      intro b' hb'; have := I.hist b' hb'
      by_cases hne : b' = b
      · subst hne; simp [cnt, List.range_succ]; rw [this, hb]; simp [cnt]
      · simpa [hne] using this
    case cons => intro g b' hb' hg; have := I.cons g b' hb'; grind [upd_apply, cnt]
    case park => intro b' n' h; have := I.park b' n'; grind [upd_apply]
    case cell =>
      intro g b' hg hb'; have := I.cell g b' hg hb'; simp only [cellSpec] at *
      grind [upd_apply, upd2_apply, cnt]
    case acct =>
      have := I.acct
      have hgq : s.grp n ≠ .queued := by intro h; rw [h] at hd; simp [deliv] at hd
      have e : sum2 c.G c.B (tok c { s with slot := upd2 s.slot n b .empty, bkt := upd s.bkt b (.proc n), hist := upd s.hist b (s.hist b ++ [n]) })
          = sum2 c.G c.B (tok c s) := by
        apply sum2_congr; intro g b' hg hb'; simp only [tok, upd_apply]; grind [cnt]
      rw [e]; exact this
    case wit =>
      intro _ _
      exact .inr (.inr ⟨b, n, hbB, .inr (.inr (by simp))⟩)
    case finM => intro b'; have := I.finM b'; grind [upd_apply]


theorem inv_swap {c : Cfg} {s s' : State} {g i : Nat} {prev : Slot} (I : Inv c s)
    (h : step? c s (.swap g i prev) = some s') : Inv c s' := by
  simp only [step?] at h
  split at h
  case isFalse => simp at h
  rename_i hg
  obtain ⟨hgi, hi, rfl⟩ := hg
  injection h with h; subst h
  have hgp : g < popped c s := by
    by_cases h : g < popped c s
    · exact h
    · have := I.grpQ g (by omega); rw [hgi] at this; simp at this
  have hgG : g < c.G := by simp only [popped] at hgp; omega
  have hnc : ¬ g < cnt c (s.bkt i) := by
    intro hlt; have := I.cons g i hi hlt; rw [hgi] at this; simp [deliv] at this
  have hc := I.cell g i hgG hi
  simp only [cellSpec, hnc, hgi, deliv, Nat.lt_irrefl, decide_false, if_false] at hc
  have hnext : ∀ b, b < c.B → deliv (if i + 1 = c.B then GrpSt.done else GrpSt.inTask (i + 1)) b = decide (b < i + 1) := by
    intro b hb; split <;> simp [deliv]; omega
  by_cases hp : s.bkt i = .parked g
  · have hs : s.slot g i = .waiting i g := by simpa [hp] using hc
    rw [hs]
    show Inv c { s with slot := upd2 s.slot g i .strings, grp := upd s.grp g (if i + 1 = c.B then .done else .inTask (i + 1)), bkt := upd s.bkt i (.head g) }
    constructor
    all_goals try (keep I)
    case grpQ =>
      intro g' hg'; have := I.grpQ g' hg'
      have hg2 : popped c s ≤ g' := hg'
      have : g' ≠ g := by omega
      simp [*]
    case grpP =>
      intro g' hg'; have := I.grpP g' hg'; simp only [upd_apply]
      split
      · split <;> simp
      · exact this
    case grpI => intro g' i' h; have := I.grpI g' i'; simp only [upd_apply] at h; grind
    case bktB => intro b' hb'; have := I.bktB b' hb'; grind [upd_apply]
    case bktN => intro b'; have := I.bktN b'; grind [upd_apply, bktOK]
    case hist => intro b' hb'; have := I.hist b' hb'; grind [upd_apply, cnt]
    case cons =>
      intro g' b' hb' hg'; have := I.cons g' b' hb'; have := hnext b' hb'
      simp only [upd_apply] at *; grind [cnt, deliv]
    case park =>
      intro b' n' h; have := I.park b' n'
      by_cases hb' : b' < c.B
      · have := hnext b' hb'; simp only [upd_apply] at *; grind [deliv]
      · have := I.bktB b' (by omega); simp only [upd_apply] at *; grind
    case cell =>
      intro g' b' hg' hb'; have := I.cell g' b' hg' hb'; have := hnext b' hb'; simp only [cellSpec] at *
      simp only [upd_apply, upd2_apply] at *; grind [cnt, deliv]
    case acct =>
      have := I.acct
      have e : sum2 c.G c.B (tok c { s with slot := upd2 s.slot g i .strings, grp := upd s.grp g (if i + 1 = c.B then .done else .inTask (i + 1)), bkt := upd s.bkt i (.head g) })
          = sum2 c.G c.B (tok c s) := by
        apply sum2_congr; intro g' b' hg' hb'; simp only [tok, upd_apply]; grind [cnt]
      rw [e]; exact this
    case wit =>
      intro h1 h2; have := I.wit h1 h2
      simp only [Witness] at *
      rcases this with h | h | ⟨b', n', hb', h⟩
      · exact .inl h
      · exact .inr (.inl h)
      · refine .inr (.inr ⟨b', n', hb', ?_⟩)
        have : b' ≠ i := by rintro rfl; rw [hp] at h; simp at h
        simpa [this] using h
    case finM => intro b'; have := I.finM b'; grind [upd_apply]
  · have hs : s.slot g i = .empty := by simpa [hp] using hc
    rw [hs]
    show Inv c { s with slot := upd2 s.slot g i .strings, grp := upd s.grp g (if i + 1 = c.B then .done else .inTask (i + 1)) }
    constructor
    all_goals try (keep I)
    case grpQ =>
      intro g' hg'; have := I.grpQ g' hg'
      have hg2 : popped c s ≤ g' := hg'
      have : g' ≠ g := by omega
      simp [*]
    case grpP =>
      intro g' hg'; have := I.grpP g' hg'; simp only [upd_apply]
      split
      · split <;> simp
      · exact this
    case grpI => intro g' i' h; have := I.grpI g' i'; simp only [upd_apply] at h; grind
    case cons =>
      intro g' b' hb' hg'; have := I.cons g' b' hb'; have := hnext b' hb'
      simp only [upd_apply] at *; grind [cnt, deliv]
    case park =>
      intro b' n' h; have := I.park b' n'
      by_cases hb' : b' < c.B
      · have := hnext b' hb'; simp only [upd_apply] at *; grind [deliv]
      · have := I.bktB b' (by omega); simp only [upd_apply] at *; grind
    case cell =>
      intro g' b' hg' hb'; have := I.cell g' b' hg' hb'; have := hnext b' hb'; simp only [cellSpec] at *
      simp only [upd_apply, upd2_apply] at *; grind [cnt, deliv]
    case acct =>
      have := I.acct
      have e : sum2 c.G c.B (tok c { s with slot := upd2 s.slot g i .strings, grp := upd s.grp g (if i + 1 = c.B then .done else .inTask (i + 1)) })
          = sum2 c.G c.B (tok c s) := by
        apply sum2_congr; intro g' b' hg' hb'; simp only [tok, upd_apply]; grind [cnt]
      rw [e]; exact this


/-! ### the theorems: order, no stall, terminal states -/

/-- The invariant is preserved by every transition (all `G, P`; `B ≥ 1`). -/
theorem inv_step {c : Cfg} {s s' : State} {e : Event} (hB : 1 ≤ c.B) (I : Inv c s)
    (h : step? c s e = some s') : Inv c s' := by
  cases e with
  | load o a => exact inv_load I h
  | cas o seen ok => exact inv_cas I h
  | pop r => exact inv_pop hB I h
  | swap g i prev => exact inv_swap I h
  | unres r => exact inv_unres I h
  | take b n found => exact inv_take I h
  | ret b n => exact inv_ret I h
  | finish b n => exact inv_finish I h

/-- Finite runs of the protocol. -/
inductive Run (c : Cfg) : State → List Event → State → Prop where
  | nil (s : State) : Run c s [] s
  | cons {s s1 s2 : State} {e : Event} {es : List Event} :
      step? c s e = some s1 → Run c s1 es s2 → Run c s (e :: es) s2

def Reachable (c : Cfg) (s : State) : Prop := ∃ es, Run c (init c) es s

theorem inv_run {c : Cfg} {s s' : State} {es : List Event} (hB : 1 ≤ c.B) (I : Inv c s)
    (r : Run c s es s') : Inv c s' := by
  induction r with
  | nil => exact I
  | cons h _ ih => exact ih (inv_step hB I h)

theorem inv_reachable {c : Cfg} {s : State} (hG : 1 ≤ c.G) (hB : 1 ≤ c.B) (r : Reachable c s) :
    Inv c s := by
  obtain ⟨es, r⟩ := r
  exact inv_run hB (inv_init c hG) r

/-- (O) In every reachable state, under every interleaving, bucket `b` has consumed exactly the
groups `0, 1, …, k-1` in this order, each once (`k` = its progress counter, `≤ G`). -/
theorem bucket_order {c : Cfg} {s : State} (hG : 1 ≤ c.G) (hB : 1 ≤ c.B) (r : Reachable c s)
    {b : Nat} (hb : b < c.B) :
    s.hist b = List.range (cnt c (s.bkt b)) ∧ cnt c (s.bkt b) ≤ c.G := by
  have I := inv_reachable hG hB r
  refine ⟨I.hist b hb, ?_⟩
  have := I.bktN b
  cases h : s.bkt b with
  | parked n => rw [h] at this; simp only [bktOK] at this; simp only [cnt]; omega
  | head n => rw [h] at this; simp only [bktOK] at this; simp only [cnt]; omega
  | proc n => rw [h] at this; simp only [bktOK] at this; simp only [cnt]; omega
  | spawning n sp =>
    rw [h] at this
    cases sp <;> simp only [bktOK] at this <;> simp only [cnt] <;> omega
  | fin => simp [cnt]

/-- No event is enabled. -/
def Terminal (c : Cfg) (s : State) : Prop := ∀ e, step? c s e = none

structure Quiet (c : Cfg) (s : State) : Prop where
  main : s.main = .done
  bkt : ∀ b, (∃ n, s.bkt b = .parked n) ∨ s.bkt b = .fin
  grp : ∀ g, s.grp g = .queued ∨ s.grp g = .done
  nPop : s.nPop = 0
  nUnres : s.nUnres = 0

/-- Every live task has an enabled step: in a terminal state no task is live. -/
theorem quiet_of_terminal {c : Cfg} {s : State} (I : Inv c s) (t : Terminal c s) : Quiet c s := by
  constructor
  · cases h : s.main with
    | done => rfl
    | run sp =>
      cases sp with
      | load =>
        have := t (.load .main s.available)
        simp [step?, getSp, h] at this
      | cas x =>
        have := t (.cas .main x (decide (x = s.available)))
        simp [step?, getSp, h] at this
  · intro b
    cases h : s.bkt b with
    | parked n => exact .inl ⟨n, rfl⟩
    | fin => exact .inr rfl
    | head n =>
      by_cases hn : n < c.G
      · have := t (.take b n (s.slot n b)); simp [step?, h, hn] at this
      · have := t (.finish b n); simp [step?, h, hn] at this
    | proc n => have := t (.ret b n); simp [step?, h] at this
    | spawning n sp =>
      cases sp with
      | load =>
        have := t (.load (.bkt b n) s.available)
        simp [step?, getSp, h] at this
      | cas x =>
        have := t (.cas (.bkt b n) x (decide (x = s.available)))
        simp [step?, getSp, h] at this
  · intro g
    cases h : s.grp g with
    | queued => exact .inl rfl
    | done => exact .inr rfl
    | inTask i =>
      have hi := I.grpI g i h
      have := t (.swap g i (s.slot g i)); simp [step?, h, hi] at this
  · have := t (.pop s.unprocessed.head?)
    simp only [step?] at this
    by_cases h : 0 < s.nPop
    · simp only [h, and_self, if_true] at this
      split at this <;> simp at this
    · omega
  · have := t (.unres c.B)
    simp only [step?, true_and] at this
    by_cases h : 0 < s.nUnres
    · simp [h] at this
    · omega

/-- In a terminal state no scratch vector is out of the pool. -/
theorem terminal_tok_zero {c : Cfg} {s : State} (I : Inv c s) (q : Quiet c s) :
    ∀ g b, g < c.G → b < c.B → tok c s g b = 0 := by
  intro g b hg hb
  simp only [tok]
  split
  · rfl
  · rename_i hgq
    have hgd : s.grp g = .done := by rcases q.grp g with h | h; exact absurd h hgq; exact h
    have hgp : g < popped c s := by
      by_cases h : g < popped c s
      · exact h
      · exact absurd (I.grpQ g (by omega)) hgq
    rcases q.bkt b with ⟨n, hp⟩ | hf
    · have hpk := I.park b n hp
      have hnq : s.grp n = .queued := by
        rcases q.grp n with h | h
        · exact h
        · rw [h] at hpk; simp [deliv] at hpk
      have hnp : ¬ n < popped c s := fun h => I.grpP n h hnq
      split
      · rfl
      · rename_i hcond
        exfalso
        apply hcond
        rw [hp]; simp only [cnt]
        refine ⟨?_, by simp⟩
        -- g < n would do; otherwise n ≤ g < popped ≤ n
        by_cases hgn : g < n
        · exact hgn
        · omega
    · rw [hf]; simp [cnt, hg]

/-- (F, first half) terminal ⇒ the pool is full again: `available = capacity`. -/
theorem terminal_available {c : Cfg} {s : State} (I : Inv c s) (t : Terminal c s) :
    s.available = c.cap := by
  have q := quiet_of_terminal I t
  have := I.acct
  rw [sum2_zero (terminal_tok_zero I q), q.nPop, q.nUnres] at this
  simpa using this

/-- (P) No stall: a reachable state without any enabled step has an empty `unprocessed` queue —
for all `G, B, P ≥ 1` and every interleaving, including every failed `load`/`compare_exchange`
race in `try_reserve`. -/
theorem no_stall {c : Cfg} {s : State} (hG : 1 ≤ c.G) (hB : 1 ≤ c.B) (hP : 1 ≤ c.P)
    (r : Reachable c s) (t : Terminal c s) : s.unprocessed = [] := by
  have I := inv_reachable hG hB r
  have q := quiet_of_terminal I t
  have ha := terminal_available I t
  by_cases hq : s.unprocessed = []
  · exact hq
  · exfalso
    have hcap : c.B ≤ s.available := by
      rw [ha, Cfg.cap]; exact Nat.le_mul_of_pos_right _ hP
    have w := I.wit hq hcap
    simp only [Witness] at w
    rcases w with h | h | ⟨b, n, _, h⟩
    · rw [q.main] at h; simp at h
    · rw [q.main] at h; simp at h
    · rcases q.bkt b with ⟨m, hp⟩ | hf
      · rw [hp] at h; simp at h
      · rw [hf] at h; simp at h

/-- (F) In every terminal state all `B` buckets have finished, each has consumed the groups
`0 … G-1` in order exactly once, `finished_buckets` holds every bucket once, and
`available = capacity` (the `assert_eq!` after `add_input_sections`). -/
theorem terminal_all_finished {c : Cfg} {s : State} (hG : 1 ≤ c.G) (hB : 1 ≤ c.B) (hP : 1 ≤ c.P)
    (r : Reachable c s) (t : Terminal c s) :
    (∀ b, b < c.B → s.bkt b = .fin ∧ s.hist b = List.range c.G ∧ b ∈ s.finished) ∧
    s.finished.Nodup ∧ (∀ b, b ∈ s.finished → b < c.B) ∧ s.available = c.cap ∧ s.unprocessed = [] := by
  have I := inv_reachable hG hB r
  have q := quiet_of_terminal I t
  have hq := no_stall hG hB hP r t
  have hpop : popped c s = c.G := by simp [popped, hq]
  refine ⟨?_, I.finN, fun b hb => ((I.finM b).1 hb).1, terminal_available I t, hq⟩
  intro b hb
  have hf : s.bkt b = .fin := by
    rcases q.bkt b with ⟨n, hp⟩ | hf
    · exfalso
      have hn := I.bktN b
      rw [hp] at hn; simp only [bktOK] at hn
      have hpk := I.park b n hp
      have hnq := I.grpP n (by omega)
      rcases q.grp n with h | h
      · exact hnq h
      · rw [h] at hpk; simp [deliv] at hpk
    · exact hf
  refine ⟨hf, ?_, (I.finM b).2 ⟨hb, hf⟩⟩
  have := I.hist b hb
  rw [hf] at this; simpa [cnt] using this


/-! ### termination measure -/

def hW (c : Cfg) (n : Nat) : Nat := (c.G - n) * 4 + 2

def bktW (c : Cfg) : BktSt → Nat
  | .parked n => hW c n - 1
  | .head n => hW c n
  | .proc n => hW c (n + 1) + 3
  | .spawning n .load => hW c (n + 1) + 2
  | .spawning n (.cas _) => hW c (n + 1) + 1
  | .fin => 0

def grpW (c : Cfg) : GrpSt → Nat
  | .queued => 2 * c.B + 1
  | .inTask i => 2 * (c.B - i)
  | .done => 0

def mainW : MainSt → Nat
  | .run .load => 2
  | .run (.cas _) => 1
  | .done => 0

/-- `fetch_add(1)`s bucket state still owes. -/
def rem (c : Cfg) : BktSt → Nat
  | .parked n => c.G - n
  | .head n => c.G - n
  | .proc n => c.G - n
  | .spawning n _ => c.G - (n + 1)
  | .fin => 0

def remSum (c : Cfg) (s : State) : Nat := sumTo c.B (fun b => rem c (s.bkt b))

/-- While groups are queued: 4 × (vectors that are or will become available). -/
def qW (c : Cfg) (s : State) : Nat :=
  if s.unprocessed = [] then 0 else 4 * (s.available + remSum c s)

def mu (c : Cfg) (s : State) : Nat :=
  qW c s + 2 * s.nPop + s.nUnres + mainW s.main
    + sumTo c.G (fun g => grpW c (s.grp g)) + sumTo c.B (fun b => bktW c (s.bkt b))

/-- A successful reservation taken although no input group is queued. -/
def emptyReserve (s : State) (e : Event) : Prop :=
  s.unprocessed = [] ∧ ∃ o seen, e = .cas o seen true

theorem sumTo_upd {n : Nat} {α : Type} (w : α → Nat) (f : Nat → α) {i : Nat} (v : α) (hi : i < n) :
    sumTo n (fun j => w (upd f i v j)) + w (f i) = sumTo n (fun j => w (f j)) + w v := by
  have := sumTo_point (n := n) (f := fun j => w (f j)) (f' := fun j => w (upd f i v j)) hi
    (by intro j _ hne; simp [hne])
  simpa using this

theorem qW_le {c : Cfg} {s s' : State}
    (h : s'.unprocessed = [] ∨ (s'.unprocessed = s.unprocessed ∧ s'.available + remSum c s' ≤ s.available + remSum c s)) :
    qW c s' ≤ qW c s := by
  simp only [qW]
  rcases h with h | ⟨h1, h2⟩
  · simp [h]
  · rw [h1]; split
    · exact Nat.le_refl _
    · omega


theorem bktW_parked (c : Cfg) (n : Nat) : bktW c (.parked n) = (c.G - n) * 4 + 2 - 1 := rfl
theorem bktW_head (c : Cfg) (n : Nat) : bktW c (.head n) = (c.G - n) * 4 + 2 := rfl
theorem bktW_proc (c : Cfg) (n : Nat) : bktW c (.proc n) = (c.G - (n + 1)) * 4 + 2 + 3 := rfl
theorem bktW_load (c : Cfg) (n : Nat) : bktW c (.spawning n .load) = (c.G - (n + 1)) * 4 + 2 + 2 := rfl
theorem bktW_cas (c : Cfg) (n x : Nat) : bktW c (.spawning n (.cas x)) = (c.G - (n + 1)) * 4 + 2 + 1 := rfl
theorem bktW_fin (c : Cfg) : bktW c .fin = 0 := rfl
theorem rem_parked (c : Cfg) (n : Nat) : rem c (.parked n) = c.G - n := rfl
theorem rem_head (c : Cfg) (n : Nat) : rem c (.head n) = c.G - n := rfl
theorem rem_proc (c : Cfg) (n : Nat) : rem c (.proc n) = c.G - n := rfl
theorem rem_spawning (c : Cfg) (n : Nat) (sp : Sp) : rem c (.spawning n sp) = c.G - (n + 1) := rfl
theorem rem_fin (c : Cfg) : rem c .fin = 0 := rfl

macro "wsimp" " at " h1:ident h2:ident : tactic => `(tactic|
  simp only [bktW_parked, bktW_head, bktW_proc, bktW_load, bktW_cas, bktW_fin,
    rem_parked, rem_head, rem_proc, rem_spawning, rem_fin] at $h1:ident $h2:ident)

/-- measure bookkeeping for a change of one bucket's task state -/
theorem bkt_change {c : Cfg} {s : State} {b : Nat} (hbB : b < c.B) (st' : BktSt) :
    sumTo c.B (fun j => bktW c (upd s.bkt b st' j)) + bktW c (s.bkt b)
      = sumTo c.B (fun j => bktW c (s.bkt j)) + bktW c st' ∧
    sumTo c.B (fun j => rem c (upd s.bkt b st' j)) + rem c (s.bkt b)
      = sumTo c.B (fun j => rem c (s.bkt j)) + rem c st' :=
  ⟨sumTo_upd (bktW c) s.bkt st' hbB, sumTo_upd (rem c) s.bkt st' hbB⟩

theorem mu_load {c : Cfg} {s s' : State} {o : Owner} {a : Nat} (I : Inv c s)
    (h : step? c s (.load o a) = some s') : mu c s' < mu c s := by
  simp only [step?] at h
  split at h
  case isFalse => simp at h
  rename_i hg
  obtain ⟨hsp, rfl⟩ := hg
  injection h with h; subst h
  cases o with
  | main =>
    have hm := getSp_main hsp
    split
    · have hq : qW c (exitSp s .main) ≤ qW c s := qW_le (.inr ⟨rfl, Nat.le_refl _⟩)
      simp only [exitSp, mu, hm, mainW] at hq ⊢; omega
    · have hq : qW c (setSp s .main (.cas s.available)) ≤ qW c s := qW_le (.inr ⟨rfl, Nat.le_refl _⟩)
      simp only [setSp, mu, hm, mainW] at hq ⊢; omega
  | bkt b n =>
    have hb := getSp_bkt hsp
    have hbB : b < c.B := bkt_lt I (by rw [hb]; simp)
    have hN := I.bktN b
    rw [hb] at hN; simp only [bktOK] at hN
    split
    · obtain ⟨e1, e2⟩ := bkt_change (c := c) (s := s) hbB (.head (n + 1))
      rw [hb] at e1 e2; wsimp at e1 e2
      have hq : qW c (exitSp s (.bkt b n)) ≤ qW c s :=
        qW_le (.inr ⟨rfl, by simp only [exitSp, remSum]; omega⟩)
      simp only [exitSp, mu] at hq ⊢; omega
    · obtain ⟨e1, e2⟩ := bkt_change (c := c) (s := s) hbB (.spawning n (.cas s.available))
      rw [hb] at e1 e2; wsimp at e1 e2
      have hq : qW c (setSp s (.bkt b n) (.cas s.available)) ≤ qW c s :=
        qW_le (.inr ⟨rfl, by simp only [setSp, remSum]; omega⟩)
      simp only [setSp, mu] at hq ⊢; omega


theorem qW_le2 {c : Cfg} {s s' : State}
    (h : s'.unprocessed ≠ [] → s.unprocessed ≠ [] ∧ s'.available + remSum c s' ≤ s.available + remSum c s) :
    qW c s' ≤ qW c s := by
  simp only [qW]
  by_cases h' : s'.unprocessed = []
  · simp [h']
  · obtain ⟨h1, h2⟩ := h h'
    simp only [h', h1, if_false]; omega

theorem qW_sub {c : Cfg} {s s' : State} (hne : s.unprocessed ≠ []) (hu : s'.unprocessed = s.unprocessed)
    (k : Nat) (h : s'.available + remSum c s' + k = s.available + remSum c s) :
    qW c s' + 4 * k = qW c s := by
  simp only [qW, hu, hne, if_false]; omega

theorem qW_nil {c : Cfg} {s : State} (h : s.unprocessed = []) : qW c s = 0 := by simp [qW, h]

theorem mu_cas {c : Cfg} {s s' : State} {o : Owner} {seen : Nat} {ok : Bool} (hB : 1 ≤ c.B) (I : Inv c s)
    (h : step? c s (.cas o seen ok) = some s') :
    mu c s' < mu c s ∨ (emptyReserve s (.cas o seen ok) ∧ mu c s' ≤ mu c s + 3) := by
  simp only [step?] at h
  split at h
  case isFalse => simp at h
  rename_i hg
  obtain ⟨hsp, hok⟩ := hg
  injection h with h; subst h
  cases o with
  | main =>
    have hm := getSp_main hsp
    have hN := I.mainN
    rw [hm] at hN; simp only [mainOK] at hN
    cases ok with
    | true =>
      have hs : seen = s.available := by simpa using hok.symm
      simp only [↓reduceIte]
      by_cases hu : s.unprocessed = []
      · right
        refine ⟨⟨hu, _, _, rfl⟩, ?_⟩
        have q1 : qW c (setSp { s with available := seen - c.B, nPop := s.nPop + 1 } .main .load) = 0 := qW_nil hu
        have q2 := qW_nil (c := c) hu
        simp only [setSp, mu, hm, mainW] at q1 ⊢; omega
      · left
        have q := qW_sub (c := c) (s' := setSp { s with available := seen - c.B, nPop := s.nPop + 1 } .main .load) hu rfl c.B
          (by simp only [setSp, remSum]; omega)
        simp only [setSp, mu, hm, mainW] at q ⊢; omega
    | false =>
      simp only [Bool.false_eq_true, ↓reduceIte]
      left
      have hq : qW c (exitSp s .main) ≤ qW c s := qW_le (.inr ⟨rfl, Nat.le_refl _⟩)
      simp only [exitSp, mu, hm, mainW] at hq ⊢; omega
  | bkt b n =>
    have hb := getSp_bkt hsp
    have hN := I.bktN b
    rw [hb] at hN; simp only [bktOK] at hN
    have hbB : b < c.B := bkt_lt I (by rw [hb]; simp)
    cases ok with
    | true =>
      have hs : seen = s.available := by simpa using hok.symm
      simp only [↓reduceIte]
      obtain ⟨e1, e2⟩ := bkt_change (c := c) (s := s) hbB (.spawning n .load)
      rw [hb] at e1 e2; wsimp at e1 e2
      by_cases hu : s.unprocessed = []
      · right
        refine ⟨⟨hu, _, _, rfl⟩, ?_⟩
        have q1 : qW c (setSp { s with available := seen - c.B, nPop := s.nPop + 1 } (.bkt b n) .load) = 0 := qW_nil hu
        have q2 := qW_nil (c := c) hu
        simp only [setSp, mu] at q1 ⊢; omega
      · left
        have q := qW_sub (c := c) (s' := setSp { s with available := seen - c.B, nPop := s.nPop + 1 } (.bkt b n) .load) hu rfl c.B
          (by simp only [setSp, remSum]; omega)
        simp only [setSp, mu] at q ⊢; omega
    | false =>
      simp only [Bool.false_eq_true, ↓reduceIte]
      left
      obtain ⟨e1, e2⟩ := bkt_change (c := c) (s := s) hbB (.head (n + 1))
      rw [hb] at e1 e2; wsimp at e1 e2
      have hq : qW c (exitSp s (.bkt b n)) ≤ qW c s :=
        qW_le (.inr ⟨rfl, by simp only [exitSp, remSum]; omega⟩)
      simp only [exitSp, mu] at hq ⊢; omega

theorem mu_unres {c : Cfg} {s s' : State} {r : Nat} (I : Inv c s)
    (h : step? c s (.unres r) = some s') : mu c s' < mu c s := by
  simp only [step?] at h
  split at h
  case isFalse => simp at h
  rename_i hg
  obtain ⟨rfl, hn⟩ := hg
  injection h with h; subst h
  have hu := I.unresQ hn
  have q1 : qW c { s with nUnres := s.nUnres - 1, available := s.available + c.B } = 0 := qW_nil hu
  have q2 := qW_nil (c := c) hu
  simp only [mu] at q1 ⊢; omega

theorem mu_pop {c : Cfg} {s s' : State} {r : Option Nat} (I : Inv c s)
    (h : step? c s (.pop r) = some s') : mu c s' < mu c s := by
  simp only [step?] at h
  split at h
  case isFalse => simp at h
  rename_i hg
  obtain ⟨hn, -⟩ := hg
  split at h
  · rename_i hu
    injection h with h; subst h
    have q1 : qW c { s with nPop := s.nPop - 1, nUnres := s.nUnres + 1 } = 0 := qW_nil hu
    have q2 := qW_nil (c := c) hu
    simp only [mu] at q1 ⊢; omega
  · rename_i g rest hu
    injection h with h; subst h
    obtain ⟨hg, hgG, hk, hrest⟩ := queue_cons I hu
    have hgq : s.grp g = .queued := I.grpQ g (by omega)
    have e := sumTo_upd (grpW c) s.grp (i := g) (.inTask 0) hgG
    rw [hgq] at e
    have v1 : grpW c .queued = 2 * c.B + 1 := rfl
    have v2 : grpW c (.inTask 0) = 2 * (c.B - 0) := rfl
    rw [v1, v2] at e
    have hq : qW c { s with nPop := s.nPop - 1, unprocessed := rest, grp := upd s.grp g (.inTask 0) } ≤ qW c s :=
      qW_le2 (fun _ => ⟨by rw [hu]; simp, Nat.le_refl _⟩)
    simp only [mu] at hq ⊢; omega

theorem mu_ret {c : Cfg} {s s' : State} {b n : Nat} (I : Inv c s)
    (h : step? c s (.ret b n) = some s') : mu c s' < mu c s := by
  simp only [step?] at h
  split at h
  case isFalse => simp at h
  rename_i hb
  injection h with h; subst h
  have hbB : b < c.B := bkt_lt I (by rw [hb]; simp)
  have hN := I.bktN b
  rw [hb] at hN; simp only [bktOK] at hN
  obtain ⟨e1, e2⟩ := bkt_change (c := c) (s := s) hbB (.spawning n .load)
  rw [hb] at e1 e2; wsimp at e1 e2
  have hq : qW c { s with available := s.available + 1, bkt := upd s.bkt b (.spawning n .load) } ≤ qW c s :=
    qW_le (.inr ⟨rfl, by simp only [remSum]; omega⟩)
  simp only [mu] at hq ⊢; omega

theorem mu_finish {c : Cfg} {s s' : State} {b n : Nat} (I : Inv c s)
    (h : step? c s (.finish b n) = some s') : mu c s' < mu c s := by
  simp only [step?] at h
  split at h
  case isFalse => simp at h
  rename_i hg
  obtain ⟨hb, hn⟩ := hg
  injection h with h; subst h
  have hbB : b < c.B := bkt_lt I (by rw [hb]; simp)
  obtain ⟨e1, e2⟩ := bkt_change (c := c) (s := s) hbB .fin
  rw [hb] at e1 e2; wsimp at e1 e2
  have hq : qW c { s with bkt := upd s.bkt b .fin, finished := s.finished ++ [b] } ≤ qW c s :=
    qW_le (.inr ⟨rfl, by simp only [remSum]; omega⟩)
  simp only [mu] at hq ⊢; omega

theorem mu_take {c : Cfg} {s s' : State} {b n : Nat} {found : Slot} (I : Inv c s)
    (h : step? c s (.take b n found) = some s') : mu c s' < mu c s := by
  simp only [step?] at h
  split at h
  case isFalse => simp at h
  rename_i hg
  obtain ⟨hb, hn, rfl⟩ := hg
  injection h with h; subst h
  have hbB : b < c.B := bkt_lt I (by rw [hb]; simp)
  have hc := I.cell n b hn hbB
  simp only [cellSpec, hb, cnt, Nat.lt_irrefl, if_false] at hc
  cases hd : deliv (s.grp n) b
  · have hs : s.slot n b = .empty := by simpa [hd] using hc
    rw [hs]
    obtain ⟨e1, e2⟩ := bkt_change (c := c) (s := s) hbB (.parked n)
    rw [hb] at e1 e2; wsimp at e1 e2
    have hq : qW c { s with slot := upd2 s.slot n b (.waiting b n), bkt := upd s.bkt b (.parked n) } ≤ qW c s :=
      qW_le (.inr ⟨rfl, by simp only [remSum]; omega⟩)
    simp only [mu] at hq ⊢; omega
  · have hs : s.slot n b = .strings := by simpa [hd] using hc
    rw [hs]
    obtain ⟨e1, e2⟩ := bkt_change (c := c) (s := s) hbB (.proc n)
    rw [hb] at e1 e2; wsimp at e1 e2
    have hq : qW c { s with slot := upd2 s.slot n b .empty, bkt := upd s.bkt b (.proc n), hist := upd s.hist b (s.hist b ++ [n]) } ≤ qW c s :=
      qW_le (.inr ⟨rfl, by simp only [remSum]; omega⟩)
    simp only [mu] at hq ⊢; omega

theorem mu_swap {c : Cfg} {s s' : State} {g i : Nat} {prev : Slot} (I : Inv c s)
    (h : step? c s (.swap g i prev) = some s') : mu c s' < mu c s := by
  simp only [step?] at h
  split at h
  case isFalse => simp at h
  rename_i hg
  obtain ⟨hgi, hi, rfl⟩ := hg
  injection h with h; subst h
  have hgp : g < popped c s := by
    by_cases h : g < popped c s
    · exact h
    · have := I.grpQ g (by omega); rw [hgi] at this; simp at this
  have hgG : g < c.G := by simp only [popped] at hgp; omega
  have hnc : ¬ g < cnt c (s.bkt i) := by
    intro hlt; have := I.cons g i hi hlt; rw [hgi] at this; simp [deliv] at this
  have hc := I.cell g i hgG hi
  simp only [cellSpec, hnc, hgi, deliv, Nat.lt_irrefl, decide_false, if_false] at hc
  have eg := sumTo_upd (grpW c) s.grp (i := g) (if i + 1 = c.B then GrpSt.done else GrpSt.inTask (i + 1)) hgG
  rw [hgi] at eg
  have v1 : grpW c (.inTask i) = 2 * (c.B - i) := rfl
  have v2 : grpW c (if i + 1 = c.B then GrpSt.done else GrpSt.inTask (i + 1)) ≤ 2 * (c.B - (i + 1)) := by
    split
    · exact Nat.zero_le _
    · exact Nat.le_refl _
  rw [v1] at eg
  by_cases hp : s.bkt i = .parked g
  · have hs : s.slot g i = .waiting i g := by simpa [hp] using hc
    rw [hs]
    show mu c { s with slot := upd2 s.slot g i .strings, grp := upd s.grp g (if i + 1 = c.B then .done else .inTask (i + 1)), bkt := upd s.bkt i (.head g) } < mu c s
    obtain ⟨e1, e2⟩ := bkt_change (c := c) (s := s) hi (.head g)
    rw [hp] at e1 e2; wsimp at e1 e2
    have hq : qW c { s with slot := upd2 s.slot g i .strings, grp := upd s.grp g (if i + 1 = c.B then .done else .inTask (i + 1)), bkt := upd s.bkt i (.head g) } ≤ qW c s :=
      qW_le (.inr ⟨rfl, by simp only [remSum]; omega⟩)
    simp only [mu] at hq ⊢; omega
  · have hs : s.slot g i = .empty := by simpa [hp] using hc
    rw [hs]
    show mu c { s with slot := upd2 s.slot g i .strings, grp := upd s.grp g (if i + 1 = c.B then .done else .inTask (i + 1)) } < mu c s
    have hq : qW c { s with slot := upd2 s.slot g i .strings, grp := upd s.grp g (if i + 1 = c.B then .done else .inTask (i + 1)) } ≤ qW c s :=
      qW_le (.inr ⟨rfl, Nat.le_refl _⟩)
    simp only [mu] at hq ⊢; omega

/-- (T, partial) Every transition strictly decreases the measure `mu`, except a successful
reservation taken while `unprocessed = []` (an *empty reservation*), which raises it by at most 3. -/
theorem measure_step_partial {c : Cfg} {s s' : State} {e : Event} (hB : 1 ≤ c.B) (I : Inv c s)
    (h : step? c s e = some s') :
    mu c s' < mu c s ∨ (emptyReserve s e ∧ mu c s' ≤ mu c s + 3) := by
  cases e with
  | load o a => exact .inl (mu_load I h)
  | cas o seen ok => exact mu_cas hB I h
  | pop r => exact .inl (mu_pop I h)
  | swap g i prev => exact .inl (mu_swap I h)
  | unres r => exact .inl (mu_unres I h)
  | take b n found => exact .inl (mu_take I h)
  | ret b n => exact .inl (mu_ret I h)
  | finish b n => exact .inl (mu_finish I h)


/-- executable form of `emptyReserve` -/
def isER (s : State) (e : Event) : Bool :=
  s.unprocessed.isEmpty && (match e with
    | .cas _ _ true => true
    | _ => false)

/-- Number of empty reservations along the run of `es` from `s`. -/
def countER (c : Cfg) : State → List Event → Nat
  | _, [] => 0
  | s, e :: es =>
    match step? c s e with
    | none => 0
    | some s' => (if isER s e then 1 else 0) + countER c s' es

theorem isER_of_emptyReserve {s : State} {e : Event} (h : emptyReserve s e) : isER s e = true := by
  obtain ⟨hu, o, seen, rfl⟩ := h
  simp [isER, hu]

/-- (T, partial) The length of every run is bounded by the initial measure plus four times the
number of empty reservations it contains. In particular every run with finitely many empty
reservations is finite, and a scheduler that never lets `try_reserve` succeed on an empty queue
gives at most `mu c (init c)` steps. -/
theorem run_length_partial {c : Cfg} {s s' : State} {es : List Event} (hB : 1 ≤ c.B) (I : Inv c s)
    (r : Run c s es s') : es.length + mu c s' ≤ mu c s + 4 * countER c s es := by
  induction r with
  | nil => simp [countER]
  | @cons s s1 s2 e es h _ ih =>
    have ih := ih (inv_step hB I h)
    simp only [countER, h, List.length_cons]
    rcases measure_step_partial hB I h with hlt | ⟨her, hle⟩
    · omega
    · rw [isER_of_emptyReserve her]; simp only [if_true]; omega

/-- Full-strength termination: for all `G, B, P ≥ 1` there is a bound on the length of every run
from the initial state (equivalently, as the model is finitely branching: no infinite run). -/
def C40_terminates_full : Prop :=
  ∀ c : Cfg, 1 ≤ c.G → 1 ≤ c.B → 1 ≤ c.P → ∃ N, ∀ es s', Run c (init c) es s' → es.length ≤ N

theorem Run.append {c : Cfg} {s1 s2 s3 : State} {es1 es2 : List Event}
    (r1 : Run c s1 es1 s2) (r2 : Run c s2 es2 s3) : Run c s1 (es1 ++ es2) s3 := by
  induction r1 with
  | nil => exact r2
  | cons h _ ih => exact .cons h (ih r2)

def c111 : Cfg := ⟨1, 1, 1⟩

/-- A state of the (1,1,1) instance from which `try_spawn_input_processing` can spin. -/
def Spin (s : State) : Prop :=
  s.main = .run .load ∧ s.available = 1 ∧ s.unprocessed = [] ∧ s.nPop = 0 ∧ s.nUnres = 0

def spinCycle : List Event := [.load .main 1, .cas .main 1 true, .pop none, .unres 1]

theorem spin_cycle {s : State} (h : Spin s) : ∃ s', Run c111 s spinCycle s' ∧ Spin s' := by
  obtain ⟨h1, h2, h3, h4, h5⟩ := h
  have e1 : step? c111 s (.load .main 1) = some { s with main := .run (.cas 1) } := by
    simp [step?, getSp, h1, h2, c111, setSp]
  have e2 : step? c111 { s with main := .run (.cas 1) } (.cas .main 1 true)
      = some { s with main := .run .load, available := 0, nPop := 1 } := by
    simp [step?, getSp, c111, setSp, h2, h4]
  have e3 : step? c111 { s with main := .run .load, available := 0, nPop := 1 } (.pop none)
      = some { s with main := .run .load, available := 0, nPop := 0, nUnres := 1 } := by
    simp [step?, h3, h5]
  have e4 : step? c111 { s with main := .run .load, available := 0, nPop := 0, nUnres := 1 } (.unres 1)
      = some { s with main := .run .load, available := 1, nPop := 0, nUnres := 0 } := by
    simp [step?, c111]
  exact ⟨_, .cons e1 (.cons e2 (.cons e3 (.cons e4 (.nil _)))), ⟨rfl, rfl, h3, rfl, rfl⟩⟩

theorem spin_many {s : State} (h : Spin s) (k : Nat) :
    ∃ es s', Run c111 s es s' ∧ Spin s' ∧ es.length = 4 * k := by
  induction k generalizing s with
  | zero => exact ⟨[], s, .nil _, h, rfl⟩
  | succ k ih =>
    obtain ⟨s1, r1, h1⟩ := spin_cycle h
    obtain ⟨es, s2, r2, h2, hl⟩ := ih h1
    exact ⟨spinCycle ++ es, s2, r1.append r2, h2, by simp [spinCycle, hl]; omega⟩

def spinPrefix : List Event :=
  [.load .main 1, .cas .main 1 true, .pop (some 0), .swap 0 0 (.waiting 0 0), .take 0 0 .strings, .ret 0 0]

def runEvents (c : Cfg) : State → List Event → Option State
  | s, [] => some s
  | s, e :: es =>
    match step? c s e with
    | none => none
    | some s' => runEvents c s' es

theorem run_of_runEvents {c : Cfg} : ∀ {es : List Event} {s s' : State},
    runEvents c s es = some s' → Run c s es s'
  | [], s, s', h => by simp only [runEvents, Option.some.injEq] at h; subst h; exact .nil _
  | e :: es, s, s', h => by
    simp only [runEvents] at h
    split at h
    · simp at h
    · rename_i s1 h1; exact .cons h1 (run_of_runEvents h)

def spinStart : State := (runEvents c111 (init c111) spinPrefix).getD (init c111)

theorem spin_reachable : Run c111 (init c111) spinPrefix spinStart ∧ Spin spinStart :=
  ⟨run_of_runEvents (by rfl), ⟨by rfl, by rfl, by rfl, by rfl, by rfl⟩⟩

/-- (T, witness) Termination under every interleaving does NOT hold for the protocol as written:
already for `G = B = P = 1` there are runs of every length (after the only group has been popped,
the scope body can repeat `load`, successful `compare_exchange`, spawn, `pop = None`, `unreserve`
for ever). -/
theorem terminates_witness : ¬ C40_terminates_full := by
  intro h
  obtain ⟨N, hN⟩ := h c111 (by decide) (by decide) (by decide)
  obtain ⟨r0, h0⟩ := spin_reachable
  obtain ⟨es, s1, r1, _, hl⟩ := spin_many h0 (N + 1)
  have := hN _ _ (r0.append r1)
  simp [spinPrefix, hl] at this
  omega


/-! ### non-vacuity -/

example : Inv c111 (init c111) := inv_init c111 (by decide)
example : Reachable c111 spinStart := ⟨_, spin_reachable.1⟩
example : Inv c111 spinStart := inv_reachable (by decide) (by decide) ⟨_, spin_reachable.1⟩
/-- the bound of `run_length_partial` for the initial state of the real configuration shape
(`B = 16`), e.g. 64 groups, parallelism 24 -/
example : mu ⟨64, 16, 24⟩ (init ⟨64, 16, 24⟩) = 4 * (16 * 24 + 16 * 64) + 2 + 64 * 33 + 16 * 257 := by decide

end Wild.ProtoMerge
