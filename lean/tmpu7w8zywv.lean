import WildModel.Props.C36
#print axioms Wild.Notes.class_eq_gnu
#print axioms Wild.Notes.props_and_or_spec_partial
#print axioms Wild.Notes.props_error_iff
#print axioms Wild.Notes.props_full_witness
#print axioms Wild.Notes.props_order_free
#print axioms Wild.Notes.gnuProps_order_free
#print axioms Wild.Notes.stack_eq_gnu_partial
#print axioms Wild.Notes.stack_flags_eq_gnu_partial
#print axioms Wild.Notes.stack_full_witness
#print axioms Wild.Notes.stack_missing_note_witness
#print axioms Wild.Notes.stack_exec_note_witness
#print axioms Wild.Notes.stack_exec_note_noexecstack_witness
#print axioms Wild.Notes.stack_no_notes_presence_witness
