
    .data
    .globl xdat
    .type xdat,@object
    .size xdat,32
xdat:
    .quad 0xe001, 0xe002, 0xe003, 0xe004
    .text
    .globl xfun
    .type xfun,@function
xfun:
    mov $0xf101, %eax
    ret
    .globl __tls_get_addr
    .type __tls_get_addr,@function
__tls_get_addr:
    ret
    .section .tdata,"awT",@progbits
    .globl tx
    .type tx,@object
    .size tx,16
tx:
    .quad 0x7301, 0x7302
    .section .note.GNU-stack,"",@progbits
