
    .text
    .globl _start
_start:
    mov $60, %eax
    xor %edi, %edi
    syscall
    .section .note.GNU-stack,"",@progbits
