
    .section .data.anchor,"aw",@progbits
    .globl anchor_data
anchor_data:
    .quad 0x1111
    .data
    .p2align 3
loc:
    .quad 0xd001, 0xd002, 0xd003, 0xd004
    .globl gdat
    .type gdat,@object
    .size gdat,32
gdat:
    .quad 0xd101, 0xd102, 0xd103, 0xd104
    .globl hid
    .hidden hid
hid:
    .quad 0xd201, 0xd202, 0xd203, 0xd204
    .text
    .globl gfun
    .type gfun,@function
gfun:
    mov $0xf001, %eax
    ret
    nop
    nop
    .type ifn_impl,@function
ifn_impl:
    mov $0xf002, %eax
    ret
    .type ifn_resolver,@function
ifn_resolver:
    lea ifn_impl(%rip), %rax
    ret
    .globl ifn
    .type ifn,@gnu_indirect_function
    .set ifn, ifn_resolver
    .weak wk
    .section .tdata,"awT",@progbits
    .p2align 3
tl:
    .quad 0x7101, 0x7102
    .globl tg
    .type tg,@object
    .size tg,16
tg:
    .quad 0x7201, 0x7202
    .globl tpr
    .protected tpr
    .type tpr,@object
    .size tpr,16
tpr:
    .quad 0x7401, 0x7402
    .section .tbss,"awT",@nobits
    .p2align 4
tbpad:
    .zero 24
    .text
    .globl hidf
    .hidden hidf
    .type hidf,@function
hidf:
    ret
    .section .data.sites,"aw",@progbits
    .p2align 3
    .globl end_data
end_data:
    .byte 0
    .section .rodata.sites,"a",@progbits
    .globl site_0
site_0:
    .quad loc+0
    .globl site_1
site_1:
    .quad loc+8
    .globl site_2
site_2:
    .quad gdat+0
    .globl site_3
site_3:
    .quad gdat+8
    .globl site_4
site_4:
    .quad hid+0
    .globl site_5
site_5:
    .quad hid+8
    .globl site_6
site_6:
    .quad gfun+0
    .globl site_7
site_7:
    .quad gfun+8
    .globl site_8
site_8:
    .quad absym+0
    .globl site_9
site_9:
    .quad absym+8
    .globl site_10
site_10:
    .quad xfun+0
    .globl site_11
site_11:
    .quad xfun+8
    .globl site_12
site_12:
    .quad xdat+0
    .globl site_13
site_13:
    .quad xdat+8
    .globl end_rodata
end_rodata:
    .byte 0
    .section .text.sites,"ax",@progbits
    .globl end_text
end_text:
    .byte 0
    .section .note.GNU-stack,"",@progbits
