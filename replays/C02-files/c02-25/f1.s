    .globl present_1
    .data
    .balign 8
present_1:
    .quad 6510516211317604351
    .section .data.sym_3,"awG",@progbits,grp_sym_3,comdat
    .globl sym_3
    .balign 8
sym_3:
    .quad 6510516211317538819
