    .data
    .weak sym_0
    .balign 8
sym_0:
    .quad 6510516211317604352
    .data
    .globl sym_3
    .balign 8
sym_3:
    .quad 6510516211317604355
