    .globl present_0
    .data
    .balign 8
present_0:
    .quad 6510516211317538815
    .text
    .globl _start
_start:
    mov $60, %eax
    xor %edi, %edi
    syscall
    .data
    .weak sym_1
    .balign 8
sym_1:
    .quad 6510516211317473281
    .data
    .globl sym_2
    .balign 8
sym_2:
    .quad 6510516211317473282
    .data
    .balign 8
    .globl ref_0_104
ref_0_104:
    .quad sym_104
