    .data
    .weak sym_0
    .balign 8
sym_0:
    .quad 6510516211317538816
    .data
    .balign 8
    .globl ref_1_1
ref_1_1:
    .quad sym_1
    .data
    .weak sym_2
    .balign 8
sym_2:
    .quad 6510516211317538818
    .data
    .balign 8
    .globl ref_1_3
ref_1_3:
    .quad sym_3
