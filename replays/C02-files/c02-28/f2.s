    .data
    .globl sym_0
    .balign 8
sym_0:
    .quad 6510516211317604352
    .data
    .weak sym_1
    .balign 8
sym_1:
    .quad 6510516211317604353
    .data
    .weak sym_2
    .balign 8
sym_2:
    .quad 6510516211317604354
    .data
    .weak sym_3
    .balign 8
sym_3:
    .quad 6510516211317604355
