    .globl present_3
    .data
    .balign 8
present_3:
    .quad 6510516211317735423
    .data
    .globl sym_0
    .balign 8
sym_0:
    .quad 6510516211317669888
    .section .data.sym_3,"awG",@progbits,grp_sym_3,comdat
    .globl sym_3
    .balign 8
sym_3:
    .quad 6510516211317669891
