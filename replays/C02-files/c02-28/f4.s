    .globl present_4
    .data
    .balign 8
present_4:
    .quad 6510516211317800959
    .data
    .balign 8
    .globl ref_4_0
ref_4_0:
    .quad sym_0
    .weak sym_2
    .data
    .balign 8
    .globl ref_4_2
ref_4_2:
    .quad sym_2
    .data
    .weak sym_3
    .balign 8
sym_3:
    .quad 6510516211317735427
    .data
    .globl sym_104
    .balign 8
sym_104:
    .quad 6510516211317735528
