    .globl present_0
    .data
    .balign 8
present_0:
    .quad 6510516211317538815
    .text
    .globl _start
_start:
    mov $60, %eax
    xor %edi, %edi
    syscall
    .data
    .type sym_0, @gnu_unique_object
    .balign 8
sym_0:
    .quad 6510516211317473280
    .size sym_0, 8
    .data
    .globl sym_1
    .balign 8
sym_1:
    .quad 6510516211317473281
    .data
    .balign 8
    .globl ref_0_3
ref_0_3:
    .quad sym_3
