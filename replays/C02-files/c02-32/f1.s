    .globl present_1
    .data
    .balign 8
present_1:
    .quad 6510516211317604351
    .weak sym_0
    .data
    .balign 8
    .globl ref_1_0
ref_1_0:
    .quad sym_0
    .data
    .globl sym_2
    .balign 8
sym_2:
    .quad 6510516211317538818
    .data
    .weak sym_3
    .balign 8
sym_3:
    .quad 6510516211317538819
    .data
    .globl sym_101
    .balign 8
sym_101:
    .quad 6510516211317538917
