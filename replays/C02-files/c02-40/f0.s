    .globl present_0
    .data
    .balign 8
present_0:
    .quad 6510516211317538815
    .text
    .globl _start
_start:
    mov $60, %eax
    xor %edi, %edi
    syscall
    .comm sym_0,32,8
    .weak sym_2
    .data
    .balign 8
    .globl ref_0_2
ref_0_2:
    .quad sym_2
    .data
    .weak sym_3
    .balign 8
sym_3:
    .quad 6510516211317473283
    .data
    .balign 8
    .globl ref_0_101
ref_0_101:
    .quad sym_101
