    .globl present_1
    .data
    .balign 8
present_1:
    .quad 6510516211317604351
    .data
    .weak sym_0
    .balign 8
sym_0:
    .quad 6510516211317538816
    .comm sym_1,32,8
    .data
    .type sym_2, @gnu_unique_object
    .balign 8
sym_2:
    .quad 6510516211317538818
    .size sym_2, 8
    .data
    .type sym_3, @gnu_unique_object
    .balign 8
sym_3:
    .quad 6510516211317538819
    .size sym_3, 8
    .data
    .weak sym_4
    .balign 8
sym_4:
    .quad 6510516211317538820
    .data
    .globl sym_101
    .balign 8
sym_101:
    .quad 6510516211317538917
