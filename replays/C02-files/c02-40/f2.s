    .globl present_2
    .data
    .balign 8
present_2:
    .quad 6510516211317669887
    .comm sym_1,32,8
    .comm sym_2,8,8
    .data
    .globl sym_3
    .balign 8
sym_3:
    .quad 6510516211317604355
    .data
    .weak sym_4
    .balign 8
sym_4:
    .quad 6510516211317604356
