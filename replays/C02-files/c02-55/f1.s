    .globl present_1
    .data
    .balign 8
present_1:
    .quad 6510516211317604351
    .section .data.sym_0,"awG",@progbits,grp_sym_0,comdat
    .globl sym_0
    .balign 8
sym_0:
    .quad 6510516211317538816
    .data
    .balign 8
    .globl ref_1_1
ref_1_1:
    .quad sym_1
