    .globl present_2
    .data
    .balign 8
present_2:
    .quad 6510516211317669887
    .data
    .type sym_0, @gnu_unique_object
    .balign 8
sym_0:
    .quad 6510516211317604352
    .size sym_0, 8
