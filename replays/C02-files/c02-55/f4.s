    .globl present_4
    .data
    .balign 8
present_4:
    .quad 6510516211317800959
    .weak sym_1
    .data
    .balign 8
    .globl ref_4_1
ref_4_1:
    .quad sym_1
