    .globl present_5
    .data
    .balign 8
present_5:
    .quad 6510516211317866495
    .comm sym_1,16,8
