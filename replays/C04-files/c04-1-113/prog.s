    .section .cs_data0,"aw",@progbits
    .balign 16
    .globl sym0
sym0:
    .fill 1000,1,113
    .size sym0, 1000
    .section .cs_na1,"",@progbits
    .balign 4096
    .globl sym1
sym1:
    .fill 4097,1,88
    .size sym1, 4097
    .section .cs_exec2,"ax",@progbits
    .balign 1
    .globl sym2
sym2:
    .fill 4097,1,195
    .size sym2, 4097
    .section .bss.x3,"aw",@nobits
    .balign 65536
    .globl sym3
sym3:
    .zero 255
    .size sym3, 255
    .section .cs_na4,"",@progbits
    .balign 8192
    .globl sym4
sym4:
    .size sym4, 0
    .text
    .globl _start
_start:
    movabs $sym0, %rsi
    test $15, %rsi
    jnz fail0
    movzbl 0(%rsi), %eax
    cmp $113, %eax
    jne fail0
    movzbl 999(%rsi), %eax
    cmp $113, %eax
    jne fail0
    movb $0x5a, (%rsi)
    movb $0x5a, 999(%rsi)
    movabs $sym2, %rsi
    test $0, %rsi
    jnz fail2
    movzbl 0(%rsi), %eax
    cmp $195, %eax
    jne fail2
    movzbl 4096(%rsi), %eax
    cmp $195, %eax
    jne fail2
    movabs $sym3, %rsi
    movzbl 0(%rsi), %eax
    cmp $0, %eax
    jne fail3
    movzbl 254(%rsi), %eax
    cmp $0, %eax
    jne fail3
    movb $0x5a, (%rsi)
    movb $0x5a, 254(%rsi)
    mov $60, %eax
    xor %edi, %edi
    syscall
fail0:
    mov $60, %eax
    mov $1, %edi
    syscall
fail2:
    mov $60, %eax
    mov $3, %edi
    syscall
fail3:
    mov $60, %eax
    mov $4, %edi
    syscall
