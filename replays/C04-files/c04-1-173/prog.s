    .section .cs_bss0,"aw",@nobits
    .balign 1
    .globl sym0
sym0:
    .zero 255
    .size sym0, 255
    .section cs_ro1,"a",@progbits
    .balign 8
    .globl sym1
sym1:
    .fill 100,1,165
    .size sym1, 100
    .section cs_bss2,"aw",@nobits
    .balign 8
    .globl sym2
sym2:
    .zero 70000
    .size sym2, 70000
    .section .data.x3,"aw",@progbits
    .balign 1024
    .globl sym3
sym3:
    .size sym3, 0
    .section cs_bss4,"aw",@nobits
    .balign 1
    .globl sym4
sym4:
    .zero 100
    .size sym4, 100
    .section .cs_ro5,"aM",@progbits,1
    .balign 4
    .globl sym5
sym5:
    .fill 70000,1,122
    .size sym5, 70000
    .text
    .globl _start
_start:
    movabs $sym0, %rsi
    test $0, %rsi
    jnz fail0
    movzbl 0(%rsi), %eax
    cmp $0, %eax
    jne fail0
    movzbl 254(%rsi), %eax
    cmp $0, %eax
    jne fail0
    movb $0x5a, (%rsi)
    movb $0x5a, 254(%rsi)
    movabs $sym1, %rsi
    test $7, %rsi
    jnz fail1
    movzbl 0(%rsi), %eax
    cmp $165, %eax
    jne fail1
    movzbl 99(%rsi), %eax
    cmp $165, %eax
    jne fail1
    movabs $sym2, %rsi
    test $7, %rsi
    jnz fail2
    movzbl 0(%rsi), %eax
    cmp $0, %eax
    jne fail2
    movzbl 69999(%rsi), %eax
    cmp $0, %eax
    jne fail2
    movb $0x5a, (%rsi)
    movb $0x5a, 69999(%rsi)
    movabs $sym4, %rsi
    test $0, %rsi
    jnz fail4
    movzbl 0(%rsi), %eax
    cmp $0, %eax
    jne fail4
    movzbl 99(%rsi), %eax
    cmp $0, %eax
    jne fail4
    movb $0x5a, (%rsi)
    movb $0x5a, 99(%rsi)
    movabs $sym5, %rsi
    test $3, %rsi
    jnz fail5
    movzbl 0(%rsi), %eax
    cmp $122, %eax
    jne fail5
    movzbl 69999(%rsi), %eax
    cmp $122, %eax
    jne fail5
    mov $60, %eax
    xor %edi, %edi
    syscall
fail0:
    mov $60, %eax
    mov $1, %edi
    syscall
fail1:
    mov $60, %eax
    mov $2, %edi
    syscall
fail2:
    mov $60, %eax
    mov $3, %edi
    syscall
fail4:
    mov $60, %eax
    mov $5, %edi
    syscall
fail5:
    mov $60, %eax
    mov $6, %edi
    syscall
