    .section cs_data0,"aw",@progbits
    .balign 1
    .globl sym0
sym0:
    .fill 7,1,221
    .size sym0, 7
    .section .cs_data1,"aw",@progbits
    .balign 8
    .globl sym1
sym1:
    .fill 24,1,76
    .size sym1, 24
    .section .cs_ro2,"a",@progbits
    .balign 8
    .globl sym2
sym2:
    .fill 1000,1,213
    .size sym2, 1000
    .section .cs_ro3,"a",@progbits
    .balign 64
    .globl sym3
sym3:
    .fill 3,1,44
    .size sym3, 3
    .section .rodata.x4,"aM",@progbits,1
    .balign 2
    .globl sym4
sym4:
    .fill 9000,1,171
    .size sym4, 9000
    .text
    .globl _start
_start:
    movabs $sym0, %rsi
    test $0, %rsi
    jnz fail0
    movzbl 0(%rsi), %eax
    cmp $221, %eax
    jne fail0
    movzbl 6(%rsi), %eax
    cmp $221, %eax
    jne fail0
    movb $0x5a, (%rsi)
    movb $0x5a, 6(%rsi)
    movabs $sym1, %rsi
    test $7, %rsi
    jnz fail1
    movzbl 0(%rsi), %eax
    cmp $76, %eax
    jne fail1
    movzbl 23(%rsi), %eax
    cmp $76, %eax
    jne fail1
    movb $0x5a, (%rsi)
    movb $0x5a, 23(%rsi)
    movabs $sym2, %rsi
    test $7, %rsi
    jnz fail2
    movzbl 0(%rsi), %eax
    cmp $213, %eax
    jne fail2
    movzbl 999(%rsi), %eax
    cmp $213, %eax
    jne fail2
    movabs $sym3, %rsi
    test $63, %rsi
    jnz fail3
    movzbl 0(%rsi), %eax
    cmp $44, %eax
    jne fail3
    movzbl 2(%rsi), %eax
    cmp $44, %eax
    jne fail3
    movabs $sym4, %rsi
    test $1, %rsi
    jnz fail4
    movzbl 0(%rsi), %eax
    cmp $171, %eax
    jne fail4
    movzbl 8999(%rsi), %eax
    cmp $171, %eax
    jne fail4
    mov $60, %eax
    xor %edi, %edi
    syscall
fail0:
    mov $60, %eax
    mov $1, %edi
    syscall
fail1:
    mov $60, %eax
    mov $2, %edi
    syscall
fail2:
    mov $60, %eax
    mov $3, %edi
    syscall
fail3:
    mov $60, %eax
    mov $4, %edi
    syscall
fail4:
    mov $60, %eax
    mov $5, %edi
    syscall
