    .section .cs_na0,"",@progbits
    .balign 4
    .globl sym0
sym0:
    .fill 1000,1,107
    .size sym0, 1000
    .section cs_bss1,"aw",@nobits
    .balign 8
    .globl sym1
sym1:
    .zero 0
    .size sym1, 0
    .section .cs_bss2,"aw",@nobits
    .balign 256
    .globl sym2
sym2:
    .zero 1000
    .size sym2, 1000
    .section .text.x3,"ax",@progbits
    .balign 16
    .globl sym3
sym3:
    .fill 8,1,195
    .size sym3, 8
    .section .data.rel.ro.x4,"aw",@progbits
    .balign 8192
    .globl sym4
sym4:
    .fill 8,1,238
    .size sym4, 8
    .section .text.x5,"ax",@progbits
    .balign 128
    .globl sym5
sym5:
    .fill 100,1,195
    .size sym5, 100
    .section .cs_exec6,"ax",@progbits
    .balign 128
    .globl sym6
sym6:
    .fill 3,1,195
    .size sym6, 3
    .section cs_exec7,"ax",@progbits
    .balign 1
    .globl sym7
sym7:
    .fill 3,1,195
    .size sym7, 3
    .section .cs_data8,"aw",@progbits
    .balign 128
    .globl sym8
sym8:
    .fill 255,1,110
    .size sym8, 255
    .section .cs_data9,"aw",@progbits
    .balign 16
    .globl sym9
sym9:
    .fill 70000,1,190
    .size sym9, 70000
    .text
    .globl _start
_start:
    movabs $sym2, %rsi
    test $255, %rsi
    jnz fail2
    movzbl 0(%rsi), %eax
    cmp $0, %eax
    jne fail2
    movzbl 999(%rsi), %eax
    cmp $0, %eax
    jne fail2
    movb $0x5a, (%rsi)
    movb $0x5a, 999(%rsi)
    movabs $sym3, %rsi
    test $15, %rsi
    jnz fail3
    movzbl 0(%rsi), %eax
    cmp $195, %eax
    jne fail3
    movzbl 7(%rsi), %eax
    cmp $195, %eax
    jne fail3
    movabs $sym4, %rsi
    movzbl 0(%rsi), %eax
    cmp $238, %eax
    jne fail4
    movzbl 7(%rsi), %eax
    cmp $238, %eax
    jne fail4
    movabs $sym5, %rsi
    test $127, %rsi
    jnz fail5
    movzbl 0(%rsi), %eax
    cmp $195, %eax
    jne fail5
    movzbl 99(%rsi), %eax
    cmp $195, %eax
    jne fail5
    movabs $sym6, %rsi
    test $127, %rsi
    jnz fail6
    movzbl 0(%rsi), %eax
    cmp $195, %eax
    jne fail6
    movzbl 2(%rsi), %eax
    cmp $195, %eax
    jne fail6
    movabs $sym7, %rsi
    test $0, %rsi
    jnz fail7
    movzbl 0(%rsi), %eax
    cmp $195, %eax
    jne fail7
    movzbl 2(%rsi), %eax
    cmp $195, %eax
    jne fail7
    movabs $sym8, %rsi
    test $127, %rsi
    jnz fail8
    movzbl 0(%rsi), %eax
    cmp $110, %eax
    jne fail8
    movzbl 254(%rsi), %eax
    cmp $110, %eax
    jne fail8
    movb $0x5a, (%rsi)
    movb $0x5a, 254(%rsi)
    movabs $sym9, %rsi
    test $15, %rsi
    jnz fail9
    movzbl 0(%rsi), %eax
    cmp $190, %eax
    jne fail9
    movzbl 69999(%rsi), %eax
    cmp $190, %eax
    jne fail9
    movb $0x5a, (%rsi)
    movb $0x5a, 69999(%rsi)
    mov $60, %eax
    xor %edi, %edi
    syscall
fail2:
    mov $60, %eax
    mov $3, %edi
    syscall
fail3:
    mov $60, %eax
    mov $4, %edi
    syscall
fail4:
    mov $60, %eax
    mov $5, %edi
    syscall
fail5:
    mov $60, %eax
    mov $6, %edi
    syscall
fail6:
    mov $60, %eax
    mov $7, %edi
    syscall
fail7:
    mov $60, %eax
    mov $8, %edi
    syscall
fail8:
    mov $60, %eax
    mov $9, %edi
    syscall
fail9:
    mov $60, %eax
    mov $10, %edi
    syscall
