    .section .data.rel.ro.x0,"aw",@progbits
    .balign 2
    .globl sym0
sym0:
    .fill 255,1,48
    .size sym0, 255
    .section .cs_data1,"aw",@progbits
    .balign 2
    .globl sym1
sym1:
    .fill 4097,1,130
    .size sym1, 4097
    .section .cs_exec2,"ax",@progbits
    .balign 64
    .globl sym2
sym2:
    .fill 24,1,195
    .size sym2, 24
    .section .rodata.x3,"aM",@progbits,1
    .balign 32
    .globl sym3
sym3:
    .fill 1000,1,242
    .size sym3, 1000
    .section cs_ro4,"a",@progbits
    .balign 65536
    .globl sym4
sym4:
    .fill 8,1,71
    .size sym4, 8
    .section .rodata.x5,"aM",@progbits,1
    .balign 1
    .globl sym5
sym5:
    .fill 24,1,21
    .size sym5, 24
    .section .cs_ro6,"a",@progbits
    .balign 4096
    .globl sym6
sym6:
    .fill 9000,1,242
    .size sym6, 9000
    .section .data.rel.ro.x7,"aw",@progbits
    .balign 1
    .globl sym7
sym7:
    .fill 1,1,34
    .size sym7, 1
    .section .cs_exec8,"ax",@progbits
    .balign 1024
    .globl sym8
sym8:
    .fill 24,1,195
    .size sym8, 24
    .text
    .globl _start
_start:
    movabs $sym0, %rsi
    test $1, %rsi
    jnz fail0
    movzbl 0(%rsi), %eax
    cmp $48, %eax
    jne fail0
    movzbl 254(%rsi), %eax
    cmp $48, %eax
    jne fail0
    movabs $sym1, %rsi
    test $1, %rsi
    jnz fail1
    movzbl 0(%rsi), %eax
    cmp $130, %eax
    jne fail1
    movzbl 4096(%rsi), %eax
    cmp $130, %eax
    jne fail1
    movb $0x5a, (%rsi)
    movb $0x5a, 4096(%rsi)
    movabs $sym2, %rsi
    test $63, %rsi
    jnz fail2
    movzbl 0(%rsi), %eax
    cmp $195, %eax
    jne fail2
    movzbl 23(%rsi), %eax
    cmp $195, %eax
    jne fail2
    movabs $sym3, %rsi
    test $31, %rsi
    jnz fail3
    movzbl 0(%rsi), %eax
    cmp $242, %eax
    jne fail3
    movzbl 999(%rsi), %eax
    cmp $242, %eax
    jne fail3
    movabs $sym4, %rsi
    movzbl 0(%rsi), %eax
    cmp $71, %eax
    jne fail4
    movzbl 7(%rsi), %eax
    cmp $71, %eax
    jne fail4
    movabs $sym5, %rsi
    test $0, %rsi
    jnz fail5
    movzbl 0(%rsi), %eax
    cmp $21, %eax
    jne fail5
    movzbl 23(%rsi), %eax
    cmp $21, %eax
    jne fail5
    movabs $sym6, %rsi
    test $4095, %rsi
    jnz fail6
    movzbl 0(%rsi), %eax
    cmp $242, %eax
    jne fail6
    movzbl 8999(%rsi), %eax
    cmp $242, %eax
    jne fail6
    movabs $sym7, %rsi
    test $0, %rsi
    jnz fail7
    movzbl 0(%rsi), %eax
    cmp $34, %eax
    jne fail7
    movabs $sym8, %rsi
    test $1023, %rsi
    jnz fail8
    movzbl 0(%rsi), %eax
    cmp $195, %eax
    jne fail8
    movzbl 23(%rsi), %eax
    cmp $195, %eax
    jne fail8
    mov $60, %eax
    xor %edi, %edi
    syscall
fail0:
    mov $60, %eax
    mov $1, %edi
    syscall
fail1:
    mov $60, %eax
    mov $2, %edi
    syscall
fail2:
    mov $60, %eax
    mov $3, %edi
    syscall
fail3:
    mov $60, %eax
    mov $4, %edi
    syscall
fail4:
    mov $60, %eax
    mov $5, %edi
    syscall
fail5:
    mov $60, %eax
    mov $6, %edi
    syscall
fail6:
    mov $60, %eax
    mov $7, %edi
    syscall
fail7:
    mov $60, %eax
    mov $8, %edi
    syscall
fail8:
    mov $60, %eax
    mov $9, %edi
    syscall
