    .section .cs_data0,"aw",@progbits
    .balign 32
    .globl sym0
sym0:
    .fill 1,1,46
    .size sym0, 1
    .section .note.cs1,"a",@note
    .balign 4
    .globl sym1
sym1:
    .long 4, 4, 0x4304
    .asciz "CS4"
    .long 0
    .size sym1, 20
    .section cs_data2,"aw",@progbits
    .balign 1
    .globl sym2
sym2:
    .fill 70000,1,186
    .size sym2, 70000
    .section .note.cs3,"a",@note
    .balign 4
    .globl sym3
sym3:
    .long 4, 4, 0x4304
    .asciz "CS4"
    .long 0
    .size sym3, 20
    .section .bss,"aw",@nobits
    .balign 1024
    .globl sym4
sym4:
    .zero 0
    .size sym4, 0
    .section cs_data5,"aw",@progbits
    .balign 4096
    .globl sym5
sym5:
    .fill 8,1,217
    .size sym5, 8
    .section .data.rel.ro,"aw",@progbits
    .balign 1
    .globl sym6
sym6:
    .fill 24,1,11
    .size sym6, 24
    .text
    .globl _start
_start:
    movabs $sym0, %rsi
    test $31, %rsi
    jnz fail0
    movzbl 0(%rsi), %eax
    cmp $46, %eax
    jne fail0
    movb $0x5a, (%rsi)
    movb $0x5a, 0(%rsi)
    movabs $sym2, %rsi
    test $0, %rsi
    jnz fail2
    movzbl 0(%rsi), %eax
    cmp $186, %eax
    jne fail2
    movzbl 69999(%rsi), %eax
    cmp $186, %eax
    jne fail2
    movb $0x5a, (%rsi)
    movb $0x5a, 69999(%rsi)
    movabs $sym5, %rsi
    test $4095, %rsi
    jnz fail5
    movzbl 0(%rsi), %eax
    cmp $217, %eax
    jne fail5
    movzbl 7(%rsi), %eax
    cmp $217, %eax
    jne fail5
    movb $0x5a, (%rsi)
    movb $0x5a, 7(%rsi)
    movabs $sym6, %rsi
    test $0, %rsi
    jnz fail6
    movzbl 0(%rsi), %eax
    cmp $11, %eax
    jne fail6
    movzbl 23(%rsi), %eax
    cmp $11, %eax
    jne fail6
    mov $60, %eax
    xor %edi, %edi
    syscall
fail0:
    mov $60, %eax
    mov $1, %edi
    syscall
fail2:
    mov $60, %eax
    mov $3, %edi
    syscall
fail5:
    mov $60, %eax
    mov $6, %edi
    syscall
fail6:
    mov $60, %eax
    mov $7, %edi
    syscall
