int check_all(void);
int main(void) { return check_all(); }
