    .section cs_ro0,"a",@progbits
    .balign 64
    .globl sym0
sym0:
    .fill 100,1,112
    .size sym0, 100
    .section .cs_tdata1,"awT",@progbits
    .balign 16
    .globl sym1
    .type sym1,@object
sym1:
    .fill 1,1,126
    .size sym1, 1
    .section cs_tbss2,"awT",@nobits
    .balign 4096
    .globl sym2
    .type sym2,@object
sym2:
    .zero 0
    .size sym2, 0
    .section .cs_bss3,"aw",@nobits
    .balign 4096
    .globl sym3
sym3:
    .zero 9000
    .size sym3, 9000
    .section .cs_na4,"",@progbits
    .balign 16
    .globl sym4
sym4:
    .fill 100,1,189
    .size sym4, 100
    .section .cs_na5,"",@progbits
    .balign 2
    .globl sym5
sym5:
    .fill 1,1,245
    .size sym5, 1
    .section cs_bss6,"aw",@nobits
    .balign 32
    .globl sym6
sym6:
    .zero 0
    .size sym6, 0
    .section .cs_data7,"aw",@progbits
    .balign 65536
    .globl sym7
sym7:
    .fill 1,1,83
    .size sym7, 1
