    .section .cs_data0,"aw",@progbits
    .balign 512
    .globl sym0
sym0:
    .fill 3,1,190
    .size sym0, 3
    .section cs_exec1,"ax",@progbits
    .balign 65536
    .globl sym1
sym1:
    .fill 24,1,195
    .size sym1, 24
    .section .cs_data2,"aw",@progbits
    .balign 8192
    .globl sym2
sym2:
    .size sym2, 0
    .section .rodata,"aM",@progbits,1
    .balign 8
    .globl sym3
sym3:
    .fill 8,1,85
    .size sym3, 8
    .section .text.hot.x4,"ax",@progbits
    .balign 65536
    .globl sym4
sym4:
    .fill 1,1,195
    .size sym4, 1
    .section cs_data5,"aw",@progbits
    .balign 256
    .globl sym5
sym5:
    .fill 8,1,104
    .size sym5, 8
    .section .cs_ro6,"a",@progbits
    .balign 8192
    .globl sym6
sym6:
    .fill 24,1,159
    .size sym6, 24
    .text
    .globl _start
_start:
    movabs $sym0, %rsi
    test $511, %rsi
    jnz fail0
    movzbl 0(%rsi), %eax
    cmp $190, %eax
    jne fail0
    movzbl 2(%rsi), %eax
    cmp $190, %eax
    jne fail0
    movb $0x5a, (%rsi)
    movb $0x5a, 2(%rsi)
    movabs $sym1, %rsi
    movzbl 0(%rsi), %eax
    cmp $195, %eax
    jne fail1
    movzbl 23(%rsi), %eax
    cmp $195, %eax
    jne fail1
    movabs $sym3, %rsi
    test $7, %rsi
    jnz fail3
    movzbl 0(%rsi), %eax
    cmp $85, %eax
    jne fail3
    movzbl 7(%rsi), %eax
    cmp $85, %eax
    jne fail3
    movabs $sym4, %rsi
    movzbl 0(%rsi), %eax
    cmp $195, %eax
    jne fail4
    movabs $sym5, %rsi
    test $255, %rsi
    jnz fail5
    movzbl 0(%rsi), %eax
    cmp $104, %eax
    jne fail5
    movzbl 7(%rsi), %eax
    cmp $104, %eax
    jne fail5
    movb $0x5a, (%rsi)
    movb $0x5a, 7(%rsi)
    movabs $sym6, %rsi
    movzbl 0(%rsi), %eax
    cmp $159, %eax
    jne fail6
    movzbl 23(%rsi), %eax
    cmp $159, %eax
    jne fail6
    mov $60, %eax
    xor %edi, %edi
    syscall
fail0:
    mov $60, %eax
    mov $1, %edi
    syscall
fail1:
    mov $60, %eax
    mov $2, %edi
    syscall
fail3:
    mov $60, %eax
    mov $4, %edi
    syscall
fail4:
    mov $60, %eax
    mov $5, %edi
    syscall
fail5:
    mov $60, %eax
    mov $6, %edi
    syscall
fail6:
    mov $60, %eax
    mov $7, %edi
    syscall
