    .section .cs_na0,"",@progbits
    .balign 4
    .globl sym0
sym0:
    .fill 70000,1,116
    .size sym0, 70000
    .section cs_data1,"aw",@progbits
    .balign 1
    .globl sym1
sym1:
    .fill 24,1,8
    .size sym1, 24
    .section .text.hot.x2,"ax",@progbits
    .balign 4
    .globl sym2
sym2:
    .fill 70000,1,195
    .size sym2, 70000
    .section cs_data3,"aw",@progbits
    .balign 4
    .globl sym3
sym3:
    .fill 7,1,110
    .size sym3, 7
    .section .cs_ro4,"a",@progbits
    .balign 2048
    .globl sym4
sym4:
    .fill 8,1,146
    .size sym4, 8
    .section .cs_data5,"aw",@progbits
    .balign 2
    .globl sym5
sym5:
    .fill 1,1,32
    .size sym5, 1
    .section cs_data6,"aw",@progbits
    .balign 64
    .globl sym6
sym6:
    .fill 100,1,54
    .size sym6, 100
    .section .cs_na7,"",@progbits
    .balign 8192
    .globl sym7
sym7:
    .fill 4097,1,89
    .size sym7, 4097
    .section .bss,"aw",@nobits
    .balign 256
    .globl sym8
sym8:
    .zero 255
    .size sym8, 255
    .section .note.cs9,"a",@note
    .balign 4
    .globl sym9
sym9:
    .long 4, 4, 0x4304
    .asciz "CS4"
    .long 0
    .size sym9, 20
    .text
    .globl _start
_start:
    movabs $sym1, %rsi
    test $0, %rsi
    jnz fail1
    movzbl 0(%rsi), %eax
    cmp $8, %eax
    jne fail1
    movzbl 23(%rsi), %eax
    cmp $8, %eax
    jne fail1
    movb $0x5a, (%rsi)
    movb $0x5a, 23(%rsi)
    movabs $sym2, %rsi
    test $3, %rsi
    jnz fail2
    movzbl 0(%rsi), %eax
    cmp $195, %eax
    jne fail2
    movzbl 69999(%rsi), %eax
    cmp $195, %eax
    jne fail2
    movabs $sym3, %rsi
    test $3, %rsi
    jnz fail3
    movzbl 0(%rsi), %eax
    cmp $110, %eax
    jne fail3
    movzbl 6(%rsi), %eax
    cmp $110, %eax
    jne fail3
    movb $0x5a, (%rsi)
    movb $0x5a, 6(%rsi)
    movabs $sym4, %rsi
    test $2047, %rsi
    jnz fail4
    movzbl 0(%rsi), %eax
    cmp $146, %eax
    jne fail4
    movzbl 7(%rsi), %eax
    cmp $146, %eax
    jne fail4
    movabs $sym5, %rsi
    test $1, %rsi
    jnz fail5
    movzbl 0(%rsi), %eax
    cmp $32, %eax
    jne fail5
    movb $0x5a, (%rsi)
    movb $0x5a, 0(%rsi)
    movabs $sym6, %rsi
    test $63, %rsi
    jnz fail6
    movzbl 0(%rsi), %eax
    cmp $54, %eax
    jne fail6
    movzbl 99(%rsi), %eax
    cmp $54, %eax
    jne fail6
    movb $0x5a, (%rsi)
    movb $0x5a, 99(%rsi)
    movabs $sym8, %rsi
    test $255, %rsi
    jnz fail8
    movzbl 0(%rsi), %eax
    cmp $0, %eax
    jne fail8
    movzbl 254(%rsi), %eax
    cmp $0, %eax
    jne fail8
    movb $0x5a, (%rsi)
    movb $0x5a, 254(%rsi)
    mov $60, %eax
    xor %edi, %edi
    syscall
fail1:
    mov $60, %eax
    mov $2, %edi
    syscall
fail2:
    mov $60, %eax
    mov $3, %edi
    syscall
fail3:
    mov $60, %eax
    mov $4, %edi
    syscall
fail4:
    mov $60, %eax
    mov $5, %edi
    syscall
fail5:
    mov $60, %eax
    mov $6, %edi
    syscall
fail6:
    mov $60, %eax
    mov $7, %edi
    syscall
fail8:
    mov $60, %eax
    mov $9, %edi
    syscall
