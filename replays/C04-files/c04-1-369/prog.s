    .section .rodata,"a",@progbits
    .balign 2048
    .globl sym0
sym0:
    .fill 70000,1,235
    .size sym0, 70000
    .section cs_data1,"aw",@progbits
    .balign 4
    .globl sym1
sym1:
    .fill 1,1,29
    .size sym1, 1
    .section .bss,"aw",@nobits
    .balign 1
    .globl sym2
sym2:
    .zero 3
    .size sym2, 3
    .section .note.cs3,"a",@note
    .balign 4
    .globl sym3
sym3:
    .long 4, 4, 0x4304
    .asciz "CS4"
    .long 0
    .size sym3, 20
    .section .data.rel.ro,"aw",@progbits
    .balign 128
    .globl sym4
sym4:
    .fill 9000,1,22
    .size sym4, 9000
    .section .note.cs5,"a",@note
    .balign 4
    .globl sym5
sym5:
    .long 4, 4, 0x4304
    .asciz "CS4"
    .long 0
    .size sym5, 20
    .section .bss.x6,"aw",@nobits
    .balign 4096
    .globl sym6
sym6:
    .zero 70000
    .size sym6, 70000
    .section .cs_bss7,"aw",@nobits
    .balign 1
    .globl sym7
sym7:
    .zero 255
    .size sym7, 255
    .section .cs_data8,"aw",@progbits
    .balign 2048
    .globl sym8
sym8:
    .fill 7,1,171
    .size sym8, 7
    .section cs_exec9,"ax",@progbits
    .balign 4
    .globl sym9
sym9:
    .fill 1,1,195
    .size sym9, 1
    .section .cs_data10,"aw",@progbits
    .balign 256
    .globl sym10
sym10:
    .fill 24,1,173
    .size sym10, 24
    .section .cs_exec11,"ax",@progbits
    .balign 1
    .globl sym11
sym11:
    .fill 8,1,195
    .size sym11, 8
    .section .cs_ro12,"a",@progbits
    .balign 8
    .globl sym12
sym12:
    .size sym12, 0
    .section .cs_bss13,"aw",@nobits
    .balign 1
    .globl sym13
sym13:
    .zero 8
    .size sym13, 8
    .text
    .globl _start
_start:
    movabs $sym0, %rsi
    test $2047, %rsi
    jnz fail0
    movzbl 0(%rsi), %eax
    cmp $235, %eax
    jne fail0
    movzbl 69999(%rsi), %eax
    cmp $235, %eax
    jne fail0
    movabs $sym1, %rsi
    test $3, %rsi
    jnz fail1
    movzbl 0(%rsi), %eax
    cmp $29, %eax
    jne fail1
    movb $0x5a, (%rsi)
    movb $0x5a, 0(%rsi)
    movabs $sym2, %rsi
    test $0, %rsi
    jnz fail2
    movzbl 0(%rsi), %eax
    cmp $0, %eax
    jne fail2
    movzbl 2(%rsi), %eax
    cmp $0, %eax
    jne fail2
    movb $0x5a, (%rsi)
    movb $0x5a, 2(%rsi)
    movabs $sym4, %rsi
    test $127, %rsi
    jnz fail4
    movzbl 0(%rsi), %eax
    cmp $22, %eax
    jne fail4
    movzbl 8999(%rsi), %eax
    cmp $22, %eax
    jne fail4
    movabs $sym6, %rsi
    test $4095, %rsi
    jnz fail6
    movzbl 0(%rsi), %eax
    cmp $0, %eax
    jne fail6
    movzbl 69999(%rsi), %eax
    cmp $0, %eax
    jne fail6
    movb $0x5a, (%rsi)
    movb $0x5a, 69999(%rsi)
    movabs $sym7, %rsi
    test $0, %rsi
    jnz fail7
    movzbl 0(%rsi), %eax
    cmp $0, %eax
    jne fail7
    movzbl 254(%rsi), %eax
    cmp $0, %eax
    jne fail7
    movb $0x5a, (%rsi)
    movb $0x5a, 254(%rsi)
    movabs $sym8, %rsi
    test $2047, %rsi
    jnz fail8
    movzbl 0(%rsi), %eax
    cmp $171, %eax
    jne fail8
    movzbl 6(%rsi), %eax
    cmp $171, %eax
    jne fail8
    movb $0x5a, (%rsi)
    movb $0x5a, 6(%rsi)
    movabs $sym9, %rsi
    test $3, %rsi
    jnz fail9
    movzbl 0(%rsi), %eax
    cmp $195, %eax
    jne fail9
    movabs $sym10, %rsi
    test $255, %rsi
    jnz fail10
    movzbl 0(%rsi), %eax
    cmp $173, %eax
    jne fail10
    movzbl 23(%rsi), %eax
    cmp $173, %eax
    jne fail10
    movb $0x5a, (%rsi)
    movb $0x5a, 23(%rsi)
    movabs $sym11, %rsi
    test $0, %rsi
    jnz fail11
    movzbl 0(%rsi), %eax
    cmp $195, %eax
    jne fail11
    movzbl 7(%rsi), %eax
    cmp $195, %eax
    jne fail11
    movabs $sym13, %rsi
    test $0, %rsi
    jnz fail13
    movzbl 0(%rsi), %eax
    cmp $0, %eax
    jne fail13
    movzbl 7(%rsi), %eax
    cmp $0, %eax
    jne fail13
    movb $0x5a, (%rsi)
    movb $0x5a, 7(%rsi)
    mov $60, %eax
    xor %edi, %edi
    syscall
fail0:
    mov $60, %eax
    mov $1, %edi
    syscall
fail1:
    mov $60, %eax
    mov $2, %edi
    syscall
fail2:
    mov $60, %eax
    mov $3, %edi
    syscall
fail4:
    mov $60, %eax
    mov $5, %edi
    syscall
fail6:
    mov $60, %eax
    mov $7, %edi
    syscall
fail7:
    mov $60, %eax
    mov $8, %edi
    syscall
fail8:
    mov $60, %eax
    mov $9, %edi
    syscall
fail9:
    mov $60, %eax
    mov $10, %edi
    syscall
fail10:
    mov $60, %eax
    mov $11, %edi
    syscall
fail11:
    mov $60, %eax
    mov $12, %edi
    syscall
fail13:
    mov $60, %eax
    mov $14, %edi
    syscall
