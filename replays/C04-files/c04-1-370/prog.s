    .section .cs_na0,"",@progbits
    .balign 512
    .globl sym0
sym0:
    .fill 7,1,139
    .size sym0, 7
    .section .cs_data1,"aw",@progbits
    .balign 65536
    .globl sym1
sym1:
    .fill 1000,1,82
    .size sym1, 1000
    .section cs_data2,"aw",@progbits
    .balign 2048
    .globl sym2
sym2:
    .fill 4097,1,117
    .size sym2, 4097
    .section .note.cs3,"a",@note
    .balign 4
    .globl sym3
sym3:
    .long 4, 4, 0x4304
    .asciz "CS4"
    .long 0
    .size sym3, 20
    .section .cs_data4,"aw",@progbits
    .balign 8
    .globl sym4
sym4:
    .fill 100,1,91
    .size sym4, 100
    .section cs_bss5,"aw",@nobits
    .balign 1024
    .globl sym5
sym5:
    .zero 1
    .size sym5, 1
    .section cs_data6,"aw",@progbits
    .balign 2
    .globl sym6
sym6:
    .size sym6, 0
    .section .cs_na7,"",@progbits
    .balign 64
    .globl sym7
sym7:
    .fill 1,1,52
    .size sym7, 1
    .text
    .globl _start
_start:
    movabs $sym1, %rsi
    movzbl 0(%rsi), %eax
    cmp $82, %eax
    jne fail1
    movzbl 999(%rsi), %eax
    cmp $82, %eax
    jne fail1
    movb $0x5a, (%rsi)
    movb $0x5a, 999(%rsi)
    movabs $sym2, %rsi
    test $2047, %rsi
    jnz fail2
    movzbl 0(%rsi), %eax
    cmp $117, %eax
    jne fail2
    movzbl 4096(%rsi), %eax
    cmp $117, %eax
    jne fail2
    movb $0x5a, (%rsi)
    movb $0x5a, 4096(%rsi)
    movabs $sym4, %rsi
    test $7, %rsi
    jnz fail4
    movzbl 0(%rsi), %eax
    cmp $91, %eax
    jne fail4
    movzbl 99(%rsi), %eax
    cmp $91, %eax
    jne fail4
    movb $0x5a, (%rsi)
    movb $0x5a, 99(%rsi)
    movabs $sym5, %rsi
    test $1023, %rsi
    jnz fail5
    movzbl 0(%rsi), %eax
    cmp $0, %eax
    jne fail5
    movb $0x5a, (%rsi)
    movb $0x5a, 0(%rsi)
    mov $60, %eax
    xor %edi, %edi
    syscall
fail1:
    mov $60, %eax
    mov $2, %edi
    syscall
fail2:
    mov $60, %eax
    mov $3, %edi
    syscall
fail4:
    mov $60, %eax
    mov $5, %edi
    syscall
fail5:
    mov $60, %eax
    mov $6, %edi
    syscall
