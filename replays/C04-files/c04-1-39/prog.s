    .section cs_ro0,"aM",@progbits,1
    .balign 8
    .globl sym0
sym0:
    .fill 8,1,30
    .size sym0, 8
    .section .data.rel.ro.x1,"aw",@progbits
    .balign 64
    .globl sym1
sym1:
    .fill 100,1,200
    .size sym1, 100
    .section .bss,"aw",@nobits
    .balign 2
    .globl sym2
sym2:
    .zero 1000
    .size sym2, 1000
    .section cs_data3,"aw",@progbits
    .balign 8192
    .globl sym3
sym3:
    .fill 8,1,224
    .size sym3, 8
    .text
    .globl _start
_start:
    movabs $sym0, %rsi
    test $7, %rsi
    jnz fail0
    movzbl 0(%rsi), %eax
    cmp $30, %eax
    jne fail0
    movzbl 7(%rsi), %eax
    cmp $30, %eax
    jne fail0
    movabs $sym1, %rsi
    test $63, %rsi
    jnz fail1
    movzbl 0(%rsi), %eax
    cmp $200, %eax
    jne fail1
    movzbl 99(%rsi), %eax
    cmp $200, %eax
    jne fail1
    movabs $sym2, %rsi
    test $1, %rsi
    jnz fail2
    movzbl 0(%rsi), %eax
    cmp $0, %eax
    jne fail2
    movzbl 999(%rsi), %eax
    cmp $0, %eax
    jne fail2
    movb $0x5a, (%rsi)
    movb $0x5a, 999(%rsi)
    movabs $sym3, %rsi
    movzbl 0(%rsi), %eax
    cmp $224, %eax
    jne fail3
    movzbl 7(%rsi), %eax
    cmp $224, %eax
    jne fail3
    movb $0x5a, (%rsi)
    movb $0x5a, 7(%rsi)
    mov $60, %eax
    xor %edi, %edi
    syscall
fail0:
    mov $60, %eax
    mov $1, %edi
    syscall
fail1:
    mov $60, %eax
    mov $2, %edi
    syscall
fail2:
    mov $60, %eax
    mov $3, %edi
    syscall
fail3:
    mov $60, %eax
    mov $4, %edi
    syscall
