    .section .note.cs0,"a",@note
    .balign 4
    .globl sym0
sym0:
    .long 4, 4, 0x4304
    .asciz "CS4"
    .long 0
    .size sym0, 20
    .section .cs_na1,"",@progbits
    .balign 16
    .globl sym1
sym1:
    .fill 1,1,140
    .size sym1, 1
    .section .cs_exec2,"ax",@progbits
    .balign 8192
    .globl sym2
sym2:
    .fill 255,1,195
    .size sym2, 255
    .section .data.x3,"aw",@progbits
    .balign 16
    .globl sym3
sym3:
    .fill 3,1,9
    .size sym3, 3
    .section cs_exec4,"ax",@progbits
    .balign 1
    .globl sym4
sym4:
    .fill 1,1,195
    .size sym4, 1
    .section .cs_exec5,"ax",@progbits
    .balign 8192
    .globl sym5
sym5:
    .fill 3,1,195
    .size sym5, 3
    .section .note.cs6,"a",@note
    .balign 4
    .globl sym6
sym6:
    .long 4, 4, 0x4304
    .asciz "CS4"
    .long 0
    .size sym6, 20
    .section .bss.x7,"aw",@nobits
    .balign 1024
    .globl sym7
sym7:
    .zero 70000
    .size sym7, 70000
    .text
    .globl _start
_start:
    movabs $sym2, %rsi
    movzbl 0(%rsi), %eax
    cmp $195, %eax
    jne fail2
    movzbl 254(%rsi), %eax
    cmp $195, %eax
    jne fail2
    movabs $sym3, %rsi
    test $15, %rsi
    jnz fail3
    movzbl 0(%rsi), %eax
    cmp $9, %eax
    jne fail3
    movzbl 2(%rsi), %eax
    cmp $9, %eax
    jne fail3
    movb $0x5a, (%rsi)
    movb $0x5a, 2(%rsi)
    movabs $sym4, %rsi
    test $0, %rsi
    jnz fail4
    movzbl 0(%rsi), %eax
    cmp $195, %eax
    jne fail4
    movabs $sym5, %rsi
    movzbl 0(%rsi), %eax
    cmp $195, %eax
    jne fail5
    movzbl 2(%rsi), %eax
    cmp $195, %eax
    jne fail5
    movabs $sym7, %rsi
    test $1023, %rsi
    jnz fail7
    movzbl 0(%rsi), %eax
    cmp $0, %eax
    jne fail7
    movzbl 69999(%rsi), %eax
    cmp $0, %eax
    jne fail7
    movb $0x5a, (%rsi)
    movb $0x5a, 69999(%rsi)
    mov $60, %eax
    xor %edi, %edi
    syscall
fail2:
    mov $60, %eax
    mov $3, %edi
    syscall
fail3:
    mov $60, %eax
    mov $4, %edi
    syscall
fail4:
    mov $60, %eax
    mov $5, %edi
    syscall
fail5:
    mov $60, %eax
    mov $6, %edi
    syscall
fail7:
    mov $60, %eax
    mov $8, %edi
    syscall
