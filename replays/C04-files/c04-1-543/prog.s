    .section .data,"aw",@progbits
    .balign 8
    .globl sym0
sym0:
    .fill 8,1,123
    .size sym0, 8
    .section .data,"aw",@progbits
    .balign 512
    .globl sym1
sym1:
    .fill 70000,1,59
    .size sym1, 70000
    .section .cs_exec2,"ax",@progbits
    .balign 8
    .globl sym2
sym2:
    .fill 255,1,195
    .size sym2, 255
    .section .cs_data3,"aw",@progbits
    .balign 32
    .globl sym3
sym3:
    .fill 8,1,66
    .size sym3, 8
    .section .data.x4,"aw",@progbits
    .balign 1
    .globl sym4
sym4:
    .fill 255,1,205
    .size sym4, 255
    .section cs_exec5,"ax",@progbits
    .balign 8
    .globl sym5
sym5:
    .fill 8,1,195
    .size sym5, 8
    .section .cs_bss6,"aw",@nobits
    .balign 2
    .globl sym6
sym6:
    .zero 9000
    .size sym6, 9000
    .section cs_ro7,"a",@progbits
    .balign 4
    .globl sym7
sym7:
    .fill 1000,1,129
    .size sym7, 1000
    .section cs_data8,"aw",@progbits
    .balign 1
    .globl sym8
sym8:
    .size sym8, 0
    .section .text.x9,"ax",@progbits
    .balign 2048
    .globl sym9
sym9:
    .fill 255,1,195
    .size sym9, 255
    .section cs_exec10,"ax",@progbits
    .balign 2
    .globl sym10
sym10:
    .fill 70000,1,195
    .size sym10, 70000
    .section .note.cs11,"a",@note
    .balign 4
    .globl sym11
sym11:
    .long 4, 4, 0x4304
    .asciz "CS4"
    .long 0
    .size sym11, 20
    .section .cs_exec12,"ax",@progbits
    .balign 512
    .globl sym12
sym12:
    .fill 9000,1,195
    .size sym12, 9000
    .section .cs_exec13,"ax",@progbits
    .balign 1
    .globl sym13
sym13:
    .fill 9000,1,195
    .size sym13, 9000
    .text
    .globl _start
_start:
    movabs $sym0, %rsi
    test $7, %rsi
    jnz fail0
    movzbl 0(%rsi), %eax
    cmp $123, %eax
    jne fail0
    movzbl 7(%rsi), %eax
    cmp $123, %eax
    jne fail0
    movb $0x5a, (%rsi)
    movb $0x5a, 7(%rsi)
    movabs $sym1, %rsi
    test $511, %rsi
    jnz fail1
    movzbl 0(%rsi), %eax
    cmp $59, %eax
    jne fail1
    movzbl 69999(%rsi), %eax
    cmp $59, %eax
    jne fail1
    movb $0x5a, (%rsi)
    movb $0x5a, 69999(%rsi)
    movabs $sym2, %rsi
    test $7, %rsi
    jnz fail2
    movzbl 0(%rsi), %eax
    cmp $195, %eax
    jne fail2
    movzbl 254(%rsi), %eax
    cmp $195, %eax
    jne fail2
    movabs $sym3, %rsi
    test $31, %rsi
    jnz fail3
    movzbl 0(%rsi), %eax
    cmp $66, %eax
    jne fail3
    movzbl 7(%rsi), %eax
    cmp $66, %eax
    jne fail3
    movb $0x5a, (%rsi)
    movb $0x5a, 7(%rsi)
    movabs $sym4, %rsi
    test $0, %rsi
    jnz fail4
    movzbl 0(%rsi), %eax
    cmp $205, %eax
    jne fail4
    movzbl 254(%rsi), %eax
    cmp $205, %eax
    jne fail4
    movb $0x5a, (%rsi)
    movb $0x5a, 254(%rsi)
    movabs $sym5, %rsi
    test $7, %rsi
    jnz fail5
    movzbl 0(%rsi), %eax
    cmp $195, %eax
    jne fail5
    movzbl 7(%rsi), %eax
    cmp $195, %eax
    jne fail5
    movabs $sym6, %rsi
    test $1, %rsi
    jnz fail6
    movzbl 0(%rsi), %eax
    cmp $0, %eax
    jne fail6
    movzbl 8999(%rsi), %eax
    cmp $0, %eax
    jne fail6
    movb $0x5a, (%rsi)
    movb $0x5a, 8999(%rsi)
    movabs $sym7, %rsi
    test $3, %rsi
    jnz fail7
    movzbl 0(%rsi), %eax
    cmp $129, %eax
    jne fail7
    movzbl 999(%rsi), %eax
    cmp $129, %eax
    jne fail7
    movabs $sym9, %rsi
    test $2047, %rsi
    jnz fail9
    movzbl 0(%rsi), %eax
    cmp $195, %eax
    jne fail9
    movzbl 254(%rsi), %eax
    cmp $195, %eax
    jne fail9
    movabs $sym10, %rsi
    test $1, %rsi
    jnz fail10
    movzbl 0(%rsi), %eax
    cmp $195, %eax
    jne fail10
    movzbl 69999(%rsi), %eax
    cmp $195, %eax
    jne fail10
    movabs $sym12, %rsi
    test $511, %rsi
    jnz fail12
    movzbl 0(%rsi), %eax
    cmp $195, %eax
    jne fail12
    movzbl 8999(%rsi), %eax
    cmp $195, %eax
    jne fail12
    movabs $sym13, %rsi
    test $0, %rsi
    jnz fail13
    movzbl 0(%rsi), %eax
    cmp $195, %eax
    jne fail13
    movzbl 8999(%rsi), %eax
    cmp $195, %eax
    jne fail13
    mov $60, %eax
    xor %edi, %edi
    syscall
fail0:
    mov $60, %eax
    mov $1, %edi
    syscall
fail1:
    mov $60, %eax
    mov $2, %edi
    syscall
fail2:
    mov $60, %eax
    mov $3, %edi
    syscall
fail3:
    mov $60, %eax
    mov $4, %edi
    syscall
fail4:
    mov $60, %eax
    mov $5, %edi
    syscall
fail5:
    mov $60, %eax
    mov $6, %edi
    syscall
fail6:
    mov $60, %eax
    mov $7, %edi
    syscall
fail7:
    mov $60, %eax
    mov $8, %edi
    syscall
fail9:
    mov $60, %eax
    mov $10, %edi
    syscall
fail10:
    mov $60, %eax
    mov $11, %edi
    syscall
fail12:
    mov $60, %eax
    mov $13, %edi
    syscall
fail13:
    mov $60, %eax
    mov $14, %edi
    syscall
