#include <stdint.h>
extern void sym1(void);
extern volatile unsigned char sym2[];
extern volatile unsigned char sym3[];
extern volatile unsigned char sym4[];
extern void sym5(void);
extern __thread volatile unsigned char sym7[];
extern volatile unsigned char sym8[];
extern volatile unsigned char sym9[];
extern __thread volatile unsigned char sym10[];
extern volatile unsigned char sym11[];
extern __thread volatile unsigned char sym12[];

__attribute__((aligned(32))) volatile int own_data[5] = {1, 2, 3, 4, 5};
volatile char own_bss[300];
__thread volatile int own_tls = 7;
__thread volatile char own_tbss[40];
static volatile int ctor_ran;
__attribute__((constructor)) static void ctor(void) { ctor_ran = 1; }
static const char *const relro_tab[] = {"a", "b", "c"};
const char *const *volatile relro_ptr = relro_tab;
static int chk(volatile unsigned char *p, unsigned long n, unsigned v, int w, unsigned long al) {
  if (al <= 4096 && (uintptr_t)p % al) return 1;
  for (unsigned long i = 0; i < n; i++) if (p[i] != v) return 1;
  if (w) for (unsigned long i = 0; i < n; i++) p[i] = (unsigned char)~v;
  return 0;
}
int check_all(void) {
  if (!ctor_ran) return 201;
  if (own_data[4] != 5 || own_bss[299] != 0 || own_tls != 7 || own_tbss[39] != 0 || relro_ptr[2][0] != 'c') return 202;
  own_tls = 8; own_tbss[39] = 1; own_bss[0] = 1;
  sym1();
  if ((uintptr_t)&sym1 % 1) return 2;
  if (chk((volatile unsigned char *)sym2, 70000, 212, 1, 128)) return 3;
  if (chk((volatile unsigned char *)sym3, 1, 228, 0, 16)) return 4;
  if (chk((volatile unsigned char *)sym4, 24, 134, 1, 64)) return 5;
  sym5();
  if ((uintptr_t)&sym5 % 64) return 6;
  if (chk((volatile unsigned char *)sym7, 100, 63, 1, 2)) return 8;
  if (chk((volatile unsigned char *)sym8, 255, 144, 0, 2)) return 9;
  if (chk((volatile unsigned char *)sym9, 100, 0, 1, 8)) return 10;
  if (chk((volatile unsigned char *)sym10, 8, 48, 1, 1)) return 11;
  if (chk((volatile unsigned char *)sym11, 100, 76, 0, 16384)) return 12;
  if (chk((volatile unsigned char *)sym12, 4097, 0, 1, 8)) return 13;
  return 0;
}
