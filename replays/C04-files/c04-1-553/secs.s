    .section .note.cs0,"a",@note
    .balign 4
    .globl sym0
sym0:
    .long 4, 4, 0x4304
    .asciz "CS4"
    .long 0
    .size sym0, 20
    .section cs_exec1,"ax",@progbits
    .balign 1
    .globl sym1
sym1:
    .fill 255,1,195
    .size sym1, 255
    .section .data.x2,"aw",@progbits
    .balign 128
    .globl sym2
sym2:
    .fill 70000,1,212
    .size sym2, 70000
    .section .data.rel.ro,"aw",@progbits
    .balign 16
    .globl sym3
sym3:
    .fill 1,1,228
    .size sym3, 1
    .section .cs_data4,"aw",@progbits
    .balign 64
    .globl sym4
sym4:
    .fill 24,1,134
    .size sym4, 24
    .section .cs_exec5,"ax",@progbits
    .balign 64
    .globl sym5
sym5:
    .fill 255,1,195
    .size sym5, 255
    .section .cs_tbss6,"awT",@nobits
    .balign 128
    .globl sym6
    .type sym6,@object
sym6:
    .zero 0
    .size sym6, 0
    .section .cs_tdata7,"awT",@progbits
    .balign 2
    .globl sym7
    .type sym7,@object
sym7:
    .fill 100,1,63
    .size sym7, 100
    .section .data.rel.ro.x8,"aw",@progbits
    .balign 2
    .globl sym8
sym8:
    .fill 255,1,144
    .size sym8, 255
    .section .cs_bss9,"aw",@nobits
    .balign 8
    .globl sym9
sym9:
    .zero 100
    .size sym9, 100
    .section .tdata,"awT",@progbits
    .balign 1
    .globl sym10
    .type sym10,@object
sym10:
    .fill 8,1,48
    .size sym10, 8
    .section .cs_ro11,"aM",@progbits,1
    .balign 16384
    .globl sym11
sym11:
    .fill 100,1,76
    .size sym11, 100
    .section .tbss,"awT",@nobits
    .balign 8
    .globl sym12
    .type sym12,@object
sym12:
    .zero 4097
    .size sym12, 4097
    .section .note.cs13,"a",@note
    .balign 4
    .globl sym13
sym13:
    .long 4, 4, 0x4304
    .asciz "CS4"
    .long 0
    .size sym13, 20
