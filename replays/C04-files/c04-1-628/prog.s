    .section .note.cs0,"a",@note
    .balign 4
    .globl sym0
sym0:
    .long 4, 4, 0x4304
    .asciz "CS4"
    .long 0
    .size sym0, 20
    .section .cs_data1,"aw",@progbits
    .balign 1024
    .globl sym1
sym1:
    .fill 1,1,136
    .size sym1, 1
    .section .rodata,"a",@progbits
    .balign 4
    .globl sym2
sym2:
    .fill 1000,1,72
    .size sym2, 1000
    .section .cs_data3,"aw",@progbits
    .balign 1
    .globl sym3
sym3:
    .fill 70000,1,99
    .size sym3, 70000
    .section cs_ro4,"a",@progbits
    .balign 32
    .globl sym4
sym4:
    .fill 8,1,212
    .size sym4, 8
    .section .cs_ro5,"a",@progbits
    .balign 128
    .globl sym5
sym5:
    .fill 1000,1,83
    .size sym5, 1000
    .section cs_exec6,"ax",@progbits
    .balign 2048
    .globl sym6
sym6:
    .fill 1,1,195
    .size sym6, 1
    .section cs_data7,"aw",@progbits
    .balign 16
    .globl sym7
sym7:
    .fill 9000,1,69
    .size sym7, 9000
    .section cs_ro8,"aM",@progbits,1
    .balign 128
    .globl sym8
sym8:
    .fill 255,1,112
    .size sym8, 255
    .section cs_ro9,"a",@progbits
    .balign 65536
    .globl sym9
sym9:
    .fill 9000,1,2
    .size sym9, 9000
    .section .rodata,"a",@progbits
    .balign 256
    .globl sym10
sym10:
    .fill 255,1,56
    .size sym10, 255
    .section .cs_ro11,"aM",@progbits,1
    .balign 32768
    .globl sym11
sym11:
    .size sym11, 0
    .section .cs_exec12,"ax",@progbits
    .balign 8
    .globl sym12
sym12:
    .fill 70000,1,195
    .size sym12, 70000
    .section cs_data13,"aw",@progbits
    .balign 2
    .globl sym13
sym13:
    .fill 1,1,237
    .size sym13, 1
    .text
    .globl _start
_start:
    movabs $sym1, %rsi
    test $1023, %rsi
    jnz fail1
    movzbl 0(%rsi), %eax
    cmp $136, %eax
    jne fail1
    movb $0x5a, (%rsi)
    movb $0x5a, 0(%rsi)
    movabs $sym2, %rsi
    test $3, %rsi
    jnz fail2
    movzbl 0(%rsi), %eax
    cmp $72, %eax
    jne fail2
    movzbl 999(%rsi), %eax
    cmp $72, %eax
    jne fail2
    movabs $sym3, %rsi
    test $0, %rsi
    jnz fail3
    movzbl 0(%rsi), %eax
    cmp $99, %eax
    jne fail3
    movzbl 69999(%rsi), %eax
    cmp $99, %eax
    jne fail3
    movb $0x5a, (%rsi)
    movb $0x5a, 69999(%rsi)
    movabs $sym4, %rsi
    test $31, %rsi
    jnz fail4
    movzbl 0(%rsi), %eax
    cmp $212, %eax
    jne fail4
    movzbl 7(%rsi), %eax
    cmp $212, %eax
    jne fail4
    movabs $sym5, %rsi
    test $127, %rsi
    jnz fail5
    movzbl 0(%rsi), %eax
    cmp $83, %eax
    jne fail5
    movzbl 999(%rsi), %eax
    cmp $83, %eax
    jne fail5
    movabs $sym6, %rsi
    test $2047, %rsi
    jnz fail6
    movzbl 0(%rsi), %eax
    cmp $195, %eax
    jne fail6
    movabs $sym7, %rsi
    test $15, %rsi
    jnz fail7
    movzbl 0(%rsi), %eax
    cmp $69, %eax
    jne fail7
    movzbl 8999(%rsi), %eax
    cmp $69, %eax
    jne fail7
    movb $0x5a, (%rsi)
    movb $0x5a, 8999(%rsi)
    movabs $sym8, %rsi
    test $127, %rsi
    jnz fail8
    movzbl 0(%rsi), %eax
    cmp $112, %eax
    jne fail8
    movzbl 254(%rsi), %eax
    cmp $112, %eax
    jne fail8
    movabs $sym9, %rsi
    movzbl 0(%rsi), %eax
    cmp $2, %eax
    jne fail9
    movzbl 8999(%rsi), %eax
    cmp $2, %eax
    jne fail9
    movabs $sym10, %rsi
    test $255, %rsi
    jnz fail10
    movzbl 0(%rsi), %eax
    cmp $56, %eax
    jne fail10
    movzbl 254(%rsi), %eax
    cmp $56, %eax
    jne fail10
    movabs $sym12, %rsi
    test $7, %rsi
    jnz fail12
    movzbl 0(%rsi), %eax
    cmp $195, %eax
    jne fail12
    movzbl 69999(%rsi), %eax
    cmp $195, %eax
    jne fail12
    movabs $sym13, %rsi
    test $1, %rsi
    jnz fail13
    movzbl 0(%rsi), %eax
    cmp $237, %eax
    jne fail13
    movb $0x5a, (%rsi)
    movb $0x5a, 0(%rsi)
    mov $60, %eax
    xor %edi, %edi
    syscall
fail1:
    mov $60, %eax
    mov $2, %edi
    syscall
fail2:
    mov $60, %eax
    mov $3, %edi
    syscall
fail3:
    mov $60, %eax
    mov $4, %edi
    syscall
fail4:
    mov $60, %eax
    mov $5, %edi
    syscall
fail5:
    mov $60, %eax
    mov $6, %edi
    syscall
fail6:
    mov $60, %eax
    mov $7, %edi
    syscall
fail7:
    mov $60, %eax
    mov $8, %edi
    syscall
fail8:
    mov $60, %eax
    mov $9, %edi
    syscall
fail9:
    mov $60, %eax
    mov $10, %edi
    syscall
fail10:
    mov $60, %eax
    mov $11, %edi
    syscall
fail12:
    mov $60, %eax
    mov $13, %edi
    syscall
fail13:
    mov $60, %eax
    mov $14, %edi
    syscall
