#include <stdint.h>
extern volatile unsigned char sym0[];
extern __thread volatile unsigned char sym1[];
extern volatile unsigned char sym2[];
extern __thread volatile unsigned char sym5[];
extern void sym6(void);
extern __thread volatile unsigned char sym9[];
extern volatile unsigned char sym10[];
extern volatile unsigned char sym11[];
extern volatile unsigned char sym12[];
extern volatile unsigned char sym13[];

__attribute__((aligned(32))) volatile int own_data[5] = {1, 2, 3, 4, 5};
volatile char own_bss[300];
__thread volatile int own_tls = 7;
__thread volatile char own_tbss[40];
static volatile int ctor_ran;
__attribute__((constructor)) static void ctor(void) { ctor_ran = 1; }
static const char *const relro_tab[] = {"a", "b", "c"};
const char *const *volatile relro_ptr = relro_tab;
static int chk(volatile unsigned char *p, unsigned long n, unsigned v, int w, unsigned long al) {
  if (al <= 4096 && (uintptr_t)p % al) return 1;
  for (unsigned long i = 0; i < n; i++) if (p[i] != v) return 1;
  if (w) for (unsigned long i = 0; i < n; i++) p[i] = (unsigned char)~v;
  return 0;
}
int main(void) {
  if (!ctor_ran) return 201;
  if (own_data[4] != 5 || own_bss[299] != 0 || own_tls != 7 || own_tbss[39] != 0 || relro_ptr[2][0] != 'c') return 202;
  own_tls = 8; own_tbss[39] = 1; own_bss[0] = 1;
  if (chk((volatile unsigned char *)sym0, 24, 159, 0, 2)) return 1;
  if (chk((volatile unsigned char *)sym1, 1, 0, 1, 8)) return 2;
  if (chk((volatile unsigned char *)sym2, 9000, 237, 0, 2)) return 3;
  if (chk((volatile unsigned char *)sym5, 24, 0, 1, 64)) return 6;
  sym6();
  if ((uintptr_t)&sym6 % 512) return 7;
  if (chk((volatile unsigned char *)sym9, 4097, 0, 1, 64)) return 10;
  if (chk((volatile unsigned char *)sym10, 100, 178, 0, 16)) return 11;
  if (chk((volatile unsigned char *)sym11, 7, 29, 0, 4)) return 12;
  if (chk((volatile unsigned char *)sym12, 100, 0, 1, 16384)) return 13;
  if (chk((volatile unsigned char *)sym13, 70000, 0, 1, 4096)) return 14;
  return 0;
}
